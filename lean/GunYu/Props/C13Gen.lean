/-
  C13 — the recognition predicates REGENERATED from /repo (session 5).

  `Gen/FnBisyncKeyPreds.lean` and `Gen/FnBisyncPreds.lean` are written on every
  run by the Go→Lean translator (harness/extract/gofn*.go + gofn_c13.go) from
  pkg/redis/checkpoint/bisync.go (`IsBisyncMarkerKey`, `…LatestKey`, `…CommitKey`,
  `…RdbRecordKey`, `…CommitIndexKey`) and syncer/bisync.go
  (`isBisyncNamespaceKey`, `touchesBisyncNamespace`, `isBisyncControlCommand`,
  `isBisyncMarkerCommand`, `isBisyncMarkerExpiryCommand`,
  `isBisyncMirroredTransaction`). The theorems below say that what the code
  says NOW equals the hand model of Model/Bisync.lean on which every C13 theorem
  rests — for all keys, all commands with any arguments and any values of the
  fields the predicates do not look at, all command lists. An edit of one of
  these functions has to keep these proofs alive.

  Hypotheses, stated exactly:
  * `AsciiName`: every byte of the command name is < 0x80. For other names Go's
    `strings.ToLower` takes its Unicode path, which the translator's prelude does
    not model (the generated function is `none` there); the hand model lower-cases
    A-Z only. Redis command names are ASCII.
  * list lengths below 2^63 - 1 (the loop index is a 64-bit `int`).
-/
import GunYu.Model.Bisync
import GunYu.Gen.FnBisyncKeyPreds
import GunYu.Gen.FnBisyncPreds

namespace GunYu.Props.C13
open GunYu GunYu.BisyncUnit GunYu.Bisync
open GunYu.Gen

/-! ### prelude facts -/

theorem goContains_eq (s sub : Bytes) : GoSem.contains s sub = containsSub sub s := by
  induction s with
  | nil => rfl
  | cons b t ih => simp only [GoSem.contains, containsSub, ih]

theorem goToLower_ascii (s : Bytes) (h : ∀ b ∈ s, b < 128) : GoSem.toLowerAscii s = some (lower s) := by
  unfold GoSem.toLowerAscii
  have : (s.all fun b => decide (b < 128)) = true := by
    rw [List.all_eq_true]
    intro b hb
    exact decide_eq_true (h b hb)
  rw [if_pos this]
  rfl

private theorem and_dec (a b : Bool) : decide (a = true ∧ b = true) = (a && b) := by cases a <;> cases b <;> rfl
private theorem or_dec (a b : Bool) : decide (a = true ∨ b = true) = (a || b) := by cases a <;> cases b <;> rfl

private theorem addI_nat' (i : Nat) (h : i < 9223372036854775807) :
    GoSem.addI (i : Int) (1 : Int) = ((i + 1 : Nat) : Int) := by
  unfold GoSem.addI
  rw [GoSem.wrap64_eq] <;> omega

private theorem index_nat' {α : Type} (s : List α) (i : Nat) (h : i < s.length) :
    GoSem.index s (i : Int) = some s[i] := by
  unfold GoSem.index
  simp [h]

/-! ### the key predicates (pkg/redis/checkpoint/bisync.go) -/

theorem gen_isBisyncMarkerKey_eq_model (k : Bytes) : Fn.isBisyncMarkerKey k = some (isMarkerKey k) := by
  unfold Fn.isBisyncMarkerKey isMarkerKey
  try dsimp only
  rw [and_dec, goContains_eq]
  first | rfl | (rw [Bool.and_comm]; rfl)
theorem gen_isBisyncLatestKey_eq_model (k : Bytes) : Fn.isBisyncLatestKey k = some (isLatestKey k) := by
  unfold Fn.isBisyncLatestKey isLatestKey
  try dsimp only
  rw [and_dec, goContains_eq]
  first | rfl | (rw [Bool.and_comm]; rfl)
theorem gen_isBisyncCommitKey_eq_model (k : Bytes) : Fn.isBisyncCommitKey k = some (isCommitKey k) := by
  unfold Fn.isBisyncCommitKey isCommitKey
  try dsimp only
  rw [and_dec, goContains_eq]
  first | rfl | (rw [Bool.and_comm]; rfl)
theorem gen_isBisyncRdbRecordKey_eq_model (k : Bytes) : Fn.isBisyncRdbRecordKey k = some (isRdbRecordKey k) := by
  unfold Fn.isBisyncRdbRecordKey isRdbRecordKey
  try dsimp only
  rw [and_dec, goContains_eq]
  first | rfl | (rw [Bool.and_comm]; rfl)
theorem gen_isBisyncCommitIndexKey_eq_model (k : Bytes) : Fn.isBisyncCommitIndexKey k = some (isCommitIndexKey k) := by
  unfold Fn.isBisyncCommitIndexKey isCommitIndexKey
  try dsimp only
  rw [and_dec, goContains_eq]
  first | rfl | (rw [Bool.and_comm]; rfl)

/-- syncer.isBisyncNamespaceKey -/
theorem gen_isBisyncNamespaceKey_eq_model (k : Bytes) : Fn.isBisyncNamespaceKey k = some (isNamespaceKey k) := by
  unfold Fn.isBisyncNamespaceKey isNamespaceKey
  try dsimp only
  rw [or_dec]
  first | rfl | (rw [Bool.or_comm]; rfl)

/-! ### the command predicates (syncer/bisync.go) -/

/-- the model's view of a `bisyncAofCommand`: name and arguments (the predicates
    read nothing else; `Db`, `EndOffset`, the delay fields are arbitrary) -/
def ofGo (g : Fn.bisyncAofCommand) : Cmd := ⟨g.Cmd, g.Args⟩

def AsciiName (g : Fn.bisyncAofCommand) : Prop := ∀ b ∈ g.Cmd, b < 128

private theorem touches_loop (g : Fn.bisyncAofCommand) (hlen : g.Args.length < 9223372036854775807) :
    ∀ (fuel i : Nat), i ≤ g.Args.length → g.Args.length - i < fuel →
      Fn.touchesBisyncNamespace_loop1 g fuel (i : Int) =
        some (if (g.Args.drop i).any isNamespaceKey then GoSem.Ctl.ret true else GoSem.Ctl.next ()) := by
  intro fuel
  induction fuel with
  | zero => intro i _ hf; omega
  | succ fuel ih =>
    intro i hi hf
    unfold Fn.touchesBisyncNamespace_loop1
    by_cases hlt : i < g.Args.length
    · have h1 : ((i : Int) < GoSem.len g.Args) := by unfold GoSem.len; omega
      simp only [h1, ↓reduceIte, index_nat' _ i hlt, gen_isBisyncNamespaceKey_eq_model, Option.bind_some, bind]
      rw [List.drop_eq_getElem_cons hlt, List.any_cons]
      cases hk : isNamespaceKey g.Args[i] with
      | true => simp [pure]
      | false =>
        simp only [Bool.false_eq_true, ↓reduceIte, Bool.false_or]
        rw [addI_nat' i (by omega), ih (i + 1) (by omega) (by omega)]
    · have h1 : ¬ ((i : Int) < GoSem.len g.Args) := by unfold GoSem.len; omega
      have h2 : g.Args.drop i = [] := List.drop_eq_nil_of_le (by omega)
      rw [if_neg h1, h2]
      simp [pure]

/-- syncer.touchesBisyncNamespace -/
theorem gen_touchesBisyncNamespace_eq_model (g : Fn.bisyncAofCommand) (ha : AsciiName g)
    (hlen : g.Args.length < 9223372036854775807) :
    Fn.touchesBisyncNamespace g = some (touchesNamespace (ofGo g)) := by
  unfold Fn.touchesBisyncNamespace touchesNamespace ofGo
  cases hargs : g.Args with
  | nil => simp [GoSem.len, pure]
  | cons a rest =>
    have h0 : ¬ (GoSem.len (a :: rest) = (0 : Int)) := by unfold GoSem.len; simp; omega
    rw [if_neg h0, goToLower_ascii _ ha]
    simp only [Option.bind_some, bind, List.isEmpty_cons, Bool.false_eq_true, ↓reduceIte, List.headD_cons]
    by_cases hn : lower g.Cmd = ([100, 101, 108] : Bytes) ∨ lower g.Cmd = ([117, 110, 108, 105, 110, 107] : Bytes)
    · have hn' : (lower g.Cmd == wDel || lower g.Cmd == wUnlink) = true := by
        rcases hn with h | h <;> rw [h] <;> decide
      rw [if_pos hn, if_pos hn']
      have hloop := touches_loop g hlen ((GoSem.len g.Args).toNat + 1) 0 (by omega) (by unfold GoSem.len; omega)
      rw [hargs] at hloop
      simp only [Int.ofNat_zero, List.drop_zero] at hloop
      have hg : Fn.touchesBisyncNamespace_loop1 g ((GoSem.len (a :: rest)).toNat + 1) (0 : Int) =
          some (if (a :: rest).any isNamespaceKey then GoSem.Ctl.ret true else GoSem.Ctl.next ()) := hloop
      show (Fn.touchesBisyncNamespace_loop1 g ((GoSem.len (a :: rest)).toNat + 1) (0 : Int)).bind _ = _
      rw [hg]
      cases (a :: rest).any isNamespaceKey <;> rfl
    · have hn' : ¬ ((lower g.Cmd == wDel || lower g.Cmd == wUnlink) = true) := by
        intro hc
        apply hn
        rw [Bool.or_eq_true] at hc
        rcases hc with h | h
        · exact Or.inl (by simpa [wDel] using h)
        · exact Or.inr (by simpa [wUnlink] using h)
      rw [if_neg hn, if_neg hn']
      have hi : GoSem.index (a :: rest) (0 : Int) = some a := by unfold GoSem.index; simp
      rw [hi]
      simp only [Option.bind_some, bind, gen_isBisyncNamespaceKey_eq_model]

/-- syncer.isBisyncControlCommand -/
theorem gen_isBisyncControlCommand_eq_model (g : Fn.bisyncAofCommand) (ha : AsciiName g)
    (hlen : g.Args.length < 9223372036854775807) :
    Fn.isBisyncControlCommand g = some (touchesNamespace (ofGo g)) := by
  unfold Fn.isBisyncControlCommand
  rw [gen_touchesBisyncNamespace_eq_model g ha hlen]

/-- syncer.isBisyncMarkerCommand -/
theorem gen_isBisyncMarkerCommand_eq_model (g : Fn.bisyncAofCommand) (ha : AsciiName g) :
    Fn.isBisyncMarkerCommand g = some (isMarkerCommand (ofGo g)) := by
  unfold Fn.isBisyncMarkerCommand isMarkerCommand ofGo
  rw [goToLower_ascii _ ha]
  simp only [Option.bind_some, bind]
  by_cases hn : lower g.Cmd = ([115, 101, 116] : Bytes)
  · have hn' : (lower g.Cmd == wSet) = true := by rw [hn]; decide
    rw [hn']
    by_cases hl : g.Args.length < 2
    · have h1 : (lower g.Cmd ≠ ([115, 101, 116] : Bytes)) ∨ GoSem.len g.Args < (2 : Int) := Or.inr (by unfold GoSem.len; omega)
      rw [if_pos h1]
      have : decide (g.Args.length ≥ 2) = false := by simp; omega
      simp [this, pure]
    · have h1 : ¬ ((lower g.Cmd ≠ ([115, 101, 116] : Bytes)) ∨ GoSem.len g.Args < (2 : Int)) := by
        intro hc
        rcases hc with h | h
        · exact h hn
        · unfold GoSem.len at h; omega
      rw [if_neg h1]
      cases hargs : g.Args with
      | nil => rw [hargs] at hl; simp at hl
      | cons a rest =>
        have hi : GoSem.index (a :: rest) (0 : Int) = some a := by unfold GoSem.index; simp
        rw [hi]
        simp only [Option.bind_some, bind, gen_isBisyncMarkerKey_eq_model, List.headD_cons]
        have : decide ((a :: rest).length ≥ 2) = true := by rw [hargs] at hl; simp at hl ⊢; omega
        rw [this]
        simp [pure]
  · have hn' : (lower g.Cmd == wSet) = false := by
      cases h : (lower g.Cmd == wSet) with
      | false => rfl
      | true => exact absurd (by simpa [wSet] using h) hn
    rw [if_pos (Or.inl hn), hn']
    simp [pure]

/-- syncer.isBisyncMarkerExpiryCommand -/
theorem gen_isBisyncMarkerExpiryCommand_eq_model (g : Fn.bisyncAofCommand) (ha : AsciiName g) :
    Fn.isBisyncMarkerExpiryCommand g = some (isMarkerExpiry (ofGo g)) := by
  unfold Fn.isBisyncMarkerExpiryCommand isMarkerExpiry ofGo
  rw [goToLower_ascii _ ha]
  simp only [Option.bind_some, bind]
  by_cases hn : lower g.Cmd = ([100, 101, 108] : Bytes) ∨ lower g.Cmd = ([117, 110, 108, 105, 110, 107] : Bytes)
  · have hn' : (lower g.Cmd == wDel || lower g.Cmd == wUnlink) = true := by
      rcases hn with h | h <;> rw [h] <;> decide
    rw [if_pos hn, hn']
    by_cases hl : g.Args.length = 1
    · have h1 : GoSem.len g.Args = (1 : Int) := by unfold GoSem.len; omega
      rw [if_pos h1]
      cases hargs : g.Args with
      | nil => rw [hargs] at hl; simp at hl
      | cons a rest =>
        have hi : GoSem.index (a :: rest) (0 : Int) = some a := by unfold GoSem.index; simp
        rw [hi]
        simp only [Option.bind_some, bind, gen_isBisyncMarkerKey_eq_model, List.headD_cons]
        have : ((a :: rest).length == 1) = true := by rw [hargs] at hl; simp [hl]
        rw [this]
        cases isMarkerKey a <;> rfl
    · have h1 : ¬ (GoSem.len g.Args = (1 : Int)) := by unfold GoSem.len; omega
      rw [if_neg h1]
      have : (g.Args.length == 1) = false := by simp [hl]
      rw [this]
      rfl
  · have hn' : (lower g.Cmd == wDel || lower g.Cmd == wUnlink) = false := by
      cases h : (lower g.Cmd == wDel || lower g.Cmd == wUnlink) with
      | false => rfl
      | true =>
        exfalso; apply hn
        rw [Bool.or_eq_true] at h
        rcases h with h | h
        · exact Or.inl (by simpa [wDel] using h)
        · exact Or.inr (by simpa [wUnlink] using h)
    rw [if_neg hn, hn']
    rfl

private theorem mirrored_loop (gs : List Fn.bisyncAofCommand) (ha : ∀ g ∈ gs, AsciiName g)
    (hlen : gs.length < 9223372036854775807) :
    ∀ (fuel i : Nat), i ≤ gs.length → gs.length - i < fuel →
      ∃ r, Fn.isBisyncMirroredTransaction_loop1 gs fuel (i : Int) = some r ∧
        (match r with | GoSem.Ctl.ret b => b | GoSem.Ctl.next () => false) = isMirroredTxn ((gs.drop i).map ofGo) := by
  intro fuel
  induction fuel with
  | zero => intro i _ hf; omega
  | succ fuel ih =>
    intro i hi hf
    unfold Fn.isBisyncMirroredTransaction_loop1
    by_cases hlt : i < gs.length
    · have h1 : ((i : Int) < GoSem.len gs) := by unfold GoSem.len; omega
      have hag : AsciiName gs[i] := ha _ (List.getElem_mem hlt)
      simp only [h1, ↓reduceIte, index_nat' _ i hlt, gen_isBisyncMarkerExpiryCommand_eq_model _ hag,
        gen_isBisyncMarkerCommand_eq_model _ hag, Option.bind_some, bind]
      rw [List.drop_eq_getElem_cons hlt, List.map_cons, isMirroredTxn]
      cases hk : isMarkerExpiry (ofGo gs[i]) with
      | true =>
        simp only [↓reduceIte]
        rw [addI_nat' i (by omega)]
        exact ih (i + 1) (by omega) (by omega)
      | false =>
        simp only [Bool.false_eq_true, ↓reduceIte]
        exact ⟨_, rfl, rfl⟩
    · have h1 : ¬ ((i : Int) < GoSem.len gs) := by unfold GoSem.len; omega
      have h2 : gs.drop i = [] := List.drop_eq_nil_of_le (by omega)
      rw [if_neg h1, h2]
      exact ⟨_, rfl, rfl⟩

/-- **syncer.isBisyncMirroredTransaction**, the test that decides whether a whole
    MULTI/EXEC block is passed over: as the code is NOW, on every command list,
    it is the model's `isMirroredTxn` (lazy-expiry deletions of the marker
    skipped, then "the next command writes a marker"). -/
theorem gen_isBisyncMirroredTransaction_eq_model (gs : List Fn.bisyncAofCommand) (ha : ∀ g ∈ gs, AsciiName g)
    (hlen : gs.length < 9223372036854775807) :
    Fn.isBisyncMirroredTransaction gs = some (isMirroredTxn (gs.map ofGo)) := by
  unfold Fn.isBisyncMirroredTransaction
  obtain ⟨r, h1, h2⟩ := mirrored_loop gs ha hlen ((GoSem.len gs).toNat + 1) 0 (by omega) (by unfold GoSem.len; omega)
  simp only [Int.ofNat_zero, List.drop_zero] at h1 h2
  show (Fn.isBisyncMirroredTransaction_loop1 gs ((GoSem.len gs).toNat + 1) (0 : Int)).bind _ = _
  rw [h1, ← h2]
  cases r with
  | ret b => rfl
  | next u => cases u; rfl

/-! ### non-vacuity: the generated functions evaluated -/

private def gSet (k : Bytes) : Fn.bisyncAofCommand := ⟨[83,69,84], [k, [118]], 0, 0, 0, []⟩          -- "SET" k v
private def gDel (k : Bytes) : Fn.bisyncAofCommand := ⟨[68,69,76], [k], 3, 17, 0, []⟩                -- "DEL" k (db 3)
private def mkG : Bytes := Gen.markerKey [99,112] (slotTag 0)

example : Fn.isBisyncMirroredTransaction [gDel mkG, gSet mkG, gSet [107]] = some true := by decide +kernel
example : Fn.isBisyncMirroredTransaction [gSet [107], gSet mkG] = some false := by decide +kernel
example : Fn.isBisyncMirroredTransaction [gDel [107], gSet mkG] = some false := by decide +kernel
example : Fn.touchesBisyncNamespace (gDel (Gen.latestKey [99,112] (slotTag 0))) = some true := by decide +kernel
example : Fn.isBisyncNamespaceKey ([123] ++ Gen.bisyncKeyPrefix ++ [58, 125, 120]) = some false := by decide +kernel
-- a name with a byte >= 0x80: outside what the translation models (and outside `AsciiName`)
example : Fn.isBisyncMarkerCommand ⟨[83, 0xC3, 0x89], [[107], [118]], 0, 0, 0, []⟩ = none := by decide +kernel
-- the theorem applied
example : isMirroredTxn ([gDel mkG, gSet mkG, gSet [107]].map ofGo) = true := by
  have h := gen_isBisyncMirroredTransaction_eq_model [gDel mkG, gSet mkG, gSet [107]]
    (by intro g hg b hb
        simp only [List.mem_cons, List.mem_nil_iff, or_false] at hg
        rcases hg with rfl | rfl | rfl <;> revert b hb <;> decide)
    (by decide)
  have h2 : Fn.isBisyncMirroredTransaction [gDel mkG, gSet mkG, gSet [107]] = some true := by decide +kernel
  rw [h2] at h
  exact (Option.some.inj h).symm

end GunYu.Props.C13
