/-
  C18 — Cluster-mode bidirectional units are single-slot or refused, never
  best-effort.

  Property theorems only (helpers: Proofs/BisyncTags.lean, Proofs/BisyncUnit.lean,
  Proofs/BisyncTxn.lean). Quantifier: all source commands and transactions
  (any command names, any argument bytes, any brace arrangement in keys), any
  key resolver (the regenerated static key tables, with or without the
  COMMAND GETKEYS fall-back — `r` is universally quantified), all three ways a
  unit is committed (sync `latest`, pipeline/parallel `journal`, snapshot
  `rdb`). Filter-reduced transactions are command lists like any other.

  Slots are stated with the HASH_SLOT specification `hashSlotSpec` (C11), not
  with the functions under test.
-/
import GunYu.Model.BisyncUnit
import GunYu.Proofs.BisyncTags
import GunYu.Proofs.BisyncUnit
import GunYu.Proofs.BisyncTxn
import GunYu.Proofs.BisyncCommit
import GunYu.Proofs.BisyncRdb
import GunYu.Props.C11
import GunYu.Proofs.BisyncBlocks

namespace GunYu.Props.C18
open GunYu GunYu.Slot GunYu.BisyncUnit

/-- For every slot, the tag the (regenerated) table holds makes `{tag}` hash to
    that slot as Redis Cluster computes it; tags are non-empty and brace-free
    (16384 entries checked by kernel evaluation). -/
theorem slotTag_hits_slot (s : Nat) (hs : s < 16384) :
    hashSlotSpec (braced (slotTag s)) = s ∧
    lbrace ∉ slotTag s ∧ rbrace ∉ slotTag s ∧ slotTag s ≠ [] :=
  slotTag_spec s hs

-- slot 0 ↦ "slot-59e4", slot 15495 (the slot of "a")
example : slotTag 0 = [115,108,111,116,45,53,57,101,52] := by decide +kernel
example : hashSlotSpec (braced (slotTag 15495)) = 15495 := (slotTag_hits_slot 15495 (by decide)).1

/-- **Single slot.** Whenever the builder returns a unit in cluster mode, every
    business key (as the resolver names them) and every control key of the
    transaction it is committed with — marker, latest / commit record, index —
    hashes to the unit's slot under HASH_SLOT. `cp` is the checkpoint name
    (`redis-gunyu-checkpoint-bisync:<hex>`, brace-free). -/
theorem unit_single_slot (r : Resolver) (cmds : List Cmd) (u : RUnit) (cp : Bytes) (k : CommitKind)
    (p : Payload) (hcp : lbrace ∉ cp) (h : buildUnit clusterMode r cmds = .ok u) :
    u.slot < 16384 ∧ ∀ key ∈ unitKeys r u ++ controlKeys cp k u p, hashSlotSpec key = u.slot := by
  obtain ⟨hne, hrt, hkeys, htag, hcmds⟩ := (buildUnit_cluster_iff r cmds u).mp h
  have hslot : u.slot < 16384 := by
    cases cmds with
    | nil => exact absurd rfl hne
    | cons c cs =>
      obtain ⟨ks, hk, hks⟩ := hrt c (by simp)
      cases ks with
      | nil => exact absurd rfl hks
      | cons k0 ks0 =>
        have hm : k0 ∈ allKeys r (c :: cs) := by
          rw [allKeys_cons, resolvedKeys_of_ok hk]; simp
        rw [← hkeys k0 hm, C11.keyToSlot_eq_spec]
        exact hashSlotSpec_lt k0
  refine ⟨hslot, ?_⟩
  intro key hkey
  rcases List.mem_append.mp hkey with e | e
  · rw [unitKeys_eq, hcmds] at e
    rw [← C11.keyToSlot_eq_spec]
    exact hkeys key e
  · exact controlKeys_slot cp k u p hcp hslot htag key e

/-- **Refused before anything is sent.** A command list that is empty, contains
    a command whose key positions cannot be determined (resolver error, "not
    found", or an empty key list), or whose keys span two HASH_SLOT values makes
    the builder return an error, and the replay of that unit issues no request
    at all (`replayUnit = none`: not even MULTI). -/
theorem unroutable_refused_before_send (r : Resolver) (cv : ClusterView) (anyNode : Option Nat)
    (cp : Bytes) (k : CommitKind) (p : Payload) (cmds : List Cmd)
    (h : cmds = [] ∨ (∃ c ∈ cmds, ¬ Routable r c) ∨
      (∃ k1 ∈ allKeys r cmds, ∃ k2 ∈ allKeys r cmds, hashSlotSpec k1 ≠ hashSlotSpec k2)) :
    (∃ e, buildUnit clusterMode r cmds = .error e) ∧ replayUnit r cv anyNode cp k p cmds = none := by
  have hno : ∀ u, buildUnit clusterMode r cmds ≠ .ok u := by
    intro u hu
    obtain ⟨hne, hrt, hkeys, _, _⟩ := (buildUnit_cluster_iff r cmds u).mp hu
    rcases h with h | ⟨c, hc, hn⟩ | ⟨k1, hk1, k2, hk2, hd⟩
    · exact hne h
    · exact hn (hrt c hc)
    · apply hd
      rw [← C11.keyToSlot_eq_spec, ← C11.keyToSlot_eq_spec, hkeys k1 hk1, hkeys k2 hk2]
  cases hb : buildUnit clusterMode r cmds with
  | ok u => exact absurd hb (hno u)
  | error e =>
    refine ⟨⟨e, rfl⟩, ?_⟩
    unfold replayUnit
    rw [hb]

/-- also at the client: when the transaction batcher refuses a command, nothing
    of the transaction goes on the wire -/
theorem client_refusal_sends_nothing (cv : ClusterView) (anyNode : Option Nat) (cmds : List Cmd)
    (e : PutErr) (h : txnPutAll cv anyNode {} cmds = .error e) : wire cv anyNode cmds = .error e := by
  unfold wire; rw [h]

/-- **Never refused when routable and single-slot.** A non-empty command list
    whose commands all resolve to at least one key and whose keys share one
    HASH_SLOT value is accepted by the builder, unchanged. -/
theorem same_slot_never_refused (r : Resolver) (cmds : List Cmd) (hne : cmds ≠ [])
    (hrt : ∀ c ∈ cmds, Routable r c)
    (hs : ∀ k1 ∈ allKeys r cmds, ∀ k2 ∈ allKeys r cmds, hashSlotSpec k1 = hashSlotSpec k2) :
    ∃ u, buildUnit clusterMode r cmds = .ok u ∧ u.cmds = cmds ∧
      ∀ key ∈ allKeys r cmds, hashSlotSpec key = u.slot := by
  cases cmds with
  | nil => exact absurd rfl hne
  | cons c cs =>
    obtain ⟨ks, hk, hks⟩ := hrt c (by simp)
    cases ks with
    | nil => exact absurd rfl hks
    | cons k0 ks0 =>
      have hm : k0 ∈ allKeys r (c :: cs) := by
        rw [allKeys_cons, resolvedKeys_of_ok hk]; simp
      refine ⟨⟨keyToSlot k0, slotTag (keyToSlot k0), c :: cs⟩, ?_, rfl, ?_⟩
      · rw [buildUnit_cluster_iff]
        refine ⟨by simp, hrt, ?_, rfl, rfl⟩
        intro k hkm
        show keyToSlot k = keyToSlot k0
        rw [C11.keyToSlot_eq_spec, C11.keyToSlot_eq_spec]
        exact hs k hkm k0 hm
      · intro key hkm
        show hashSlotSpec key = keyToSlot k0
        rw [C11.keyToSlot_eq_spec]
        exact hs key hkm k0 hm

/-- **The client's re-validation agrees with the builder.** With the resolver
    the tool uses (static tables, then the same COMMAND GETKEYS fall-back the
    cluster client uses) and a slot map that covers all slots, the transaction
    batcher accepts a list of plain commands (not PING/CLUSTER/INFO/SELECT/
    MGET/MSET/MSETNX/MULTI/EXEC, at least one argument) exactly when the builder
    accepts it. -/
theorem client_revalidation_agrees (cv : ClusterView) (hcov : Covered cv) (anyNode : Option Nat)
    (cmds : List Cmd) (hne : cmds ≠ []) (hp : ∀ c ∈ cmds, Plain c) :
    (∃ u, buildUnit clusterMode (resolverWith cv.getKeys) cmds = .ok u) ↔
      (∃ t, txnPutAll cv anyNode {} cmds = .ok t ∧ t.cmds = cmds) := by
  cases cmds with
  | nil => exact absurd rfl hne
  | cons c cs =>
    constructor
    · rintro ⟨u, hu⟩
      obtain ⟨_, hrt, hkeys, _, _⟩ := (buildUnit_cluster_iff _ _ u).mp hu
      refine ⟨{ node := cv.owner u.slot, slot := some u.slot, cmds := c :: cs }, ?_, rfl⟩
      rw [txnPutAll_fresh cv hcov anyNode c cs hp]
      refine ⟨hrt, u.slot, ?_, rfl⟩
      intro k hk
      rw [← C11.keyToSlot_eq_clusterHash]
      exact hkeys k hk
    · rintro ⟨t, ht, _⟩
      obtain ⟨hrt, s, hkeys, _⟩ := (txnPutAll_fresh cv hcov anyNode c cs hp t).mp ht
      refine ⟨⟨s, slotTag s, c :: cs⟩, ?_⟩
      rw [buildUnit_cluster_iff]
      refine ⟨by simp, hrt, ?_, rfl, rfl⟩
      intro k hk
      show keyToSlot k = s
      rw [C11.keyToSlot_eq_clusterHash]
      exact hkeys k hk

/-- **End to end.** A unit the builder accepts is committed as exactly one
    MULTI … EXEC block holding the marker, the business commands and the
    records, and the cluster client's batcher accepts all of it (so the target
    node receives a block it can execute atomically: by `unit_single_slot` all
    its keys are in one slot). -/
theorem committed_txn_accepted (cv : ClusterView) (hcov : Covered cv) (anyNode : Option Nat) (cp : Bytes)
    (k : CommitKind) (p : Payload) (cmds : List Cmd) (u : RUnit) (hcp : lbrace ∉ cp)
    (hp : ∀ c ∈ cmds, Plain c)
    (h : buildUnit clusterMode (resolverWith cv.getKeys) cmds = .ok u) :
    replayUnit (resolverWith cv.getKeys) cv anyNode cp k p cmds =
      some (⟨wMulti, []⟩ :: commitCmds cp k u p ++ [⟨wExec, []⟩]) := by
  obtain ⟨hne, hrt, hkeys, htag, hcmds⟩ := (buildUnit_cluster_iff _ cmds u).mp h
  obtain ⟨hslot, hall⟩ := unit_single_slot _ cmds u cp k p hcp h
  have hshape := commit_cmds_shape cp k u p cv.getKeys
  obtain ⟨c0, cs0, hcc⟩ := commitCmds_ne_nil cp k u p
  have hplain : ∀ c ∈ c0 :: cs0, Plain c := by
    intro c hc
    rw [← hcc] at hc
    rcases hshape c hc with e | ⟨e, _⟩
    · rw [hcmds] at e; exact hp c e
    · exact e
  have hput : txnPutAll cv anyNode {} (c0 :: cs0) =
      .ok { node := cv.owner u.slot, slot := some u.slot, cmds := c0 :: cs0 } := by
    rw [txnPutAll_fresh cv hcov anyNode c0 cs0 hplain]
    refine ⟨?_, u.slot, ?_, rfl⟩
    · intro c hc
      rw [← hcc] at hc
      rcases hshape c hc with e | ⟨_, key, _, hr⟩
      · rw [hcmds] at e; exact hrt c e
      · exact ⟨[key], hr, by simp⟩
    · intro key hkey
      unfold allKeys at hkey
      obtain ⟨c, hc, hkc⟩ := List.mem_flatMap.mp hkey
      rw [← hcc] at hc
      rw [C11.clusterHash_eq_spec]
      rcases hshape c hc with e | ⟨_, ck, hck, hr⟩
      · apply hall
        apply List.mem_append.mpr
        left
        rw [unitKeys_eq]
        exact List.mem_flatMap.mpr ⟨c, e, hkc⟩
      · rw [resolvedKeys_of_ok hr] at hkc
        have : key = ck := by simpa using hkc
        rw [this]
        exact hall ck (List.mem_append.mpr (Or.inr hck))
  unfold replayUnit
  rw [h]
  simp only
  unfold wire
  rw [hcc, hput]
  simp

/-- … and it is the owner of the unit's slot that the batcher sends it to. -/
theorem committed_txn_node (cv : ClusterView) (hcov : Covered cv) (anyNode : Option Nat) (cp : Bytes)
    (k : CommitKind) (p : Payload) (cmds : List Cmd) (u : RUnit) (hcp : lbrace ∉ cp)
    (hp : ∀ c ∈ cmds, Plain c)
    (h : buildUnit clusterMode (resolverWith cv.getKeys) cmds = .ok u) :
    txnPutAll cv anyNode {} (commitCmds cp k u p) =
      .ok { node := cv.owner u.slot, slot := some u.slot, cmds := commitCmds cp k u p } := by
  have hacc := committed_txn_accepted cv hcov anyNode cp k p cmds u hcp hp h
  obtain ⟨hne, hrt, hkeys, htag, hcmds⟩ := (buildUnit_cluster_iff _ cmds u).mp h
  obtain ⟨hslot, hall⟩ := unit_single_slot _ cmds u cp k p hcp h
  have hshape := commit_cmds_shape cp k u p cv.getKeys
  obtain ⟨c0, cs0, hcc⟩ := commitCmds_ne_nil cp k u p
  have hplain : ∀ c ∈ c0 :: cs0, Plain c := by
    intro c hc
    rw [← hcc] at hc
    rcases hshape c hc with e | ⟨e, _⟩
    · rw [hcmds] at e; exact hp c e
    · exact e
  rw [hcc, txnPutAll_fresh cv hcov anyNode c0 cs0 hplain]
  refine ⟨?_, u.slot, ?_, rfl⟩
  · intro c hc
    rw [← hcc] at hc
    rcases hshape c hc with e | ⟨_, key, _, hr⟩
    · rw [hcmds] at e; exact hrt c e
    · exact ⟨[key], hr, by simp⟩
  · intro key hkey
    unfold allKeys at hkey
    obtain ⟨c, hc, hkc⟩ := List.mem_flatMap.mp hkey
    rw [← hcc] at hc
    rw [C11.clusterHash_eq_spec]
    rcases hshape c hc with e | ⟨_, ck, hck, hr⟩
    · apply hall
      apply List.mem_append.mpr
      left
      rw [unitKeys_eq]
      exact List.mem_flatMap.mpr ⟨c, e, hkc⟩
    · rw [resolvedKeys_of_ok hr] at hkc
      have : key = ck := by simpa using hkc
      rw [this]
      exact hall ck (List.mem_append.mpr (Or.inr hck))

/-- **Routable and single-slot ⇒ replayed whole.** The positive direction end
    to end: such a command list is built into a unit AND committed as exactly
    one MULTI … EXEC block (marker, the commands, records) by the cluster client. -/
theorem same_slot_replayed (cv : ClusterView) (hcov : Covered cv) (anyNode : Option Nat) (cp : Bytes)
    (k : CommitKind) (p : Payload) (cmds : List Cmd) (hcp : lbrace ∉ cp) (hne : cmds ≠ [])
    (hp : ∀ c ∈ cmds, Plain c) (hrt : ∀ c ∈ cmds, Routable (resolverWith cv.getKeys) c)
    (hs : ∀ k1 ∈ allKeys (resolverWith cv.getKeys) cmds, ∀ k2 ∈ allKeys (resolverWith cv.getKeys) cmds,
      hashSlotSpec k1 = hashSlotSpec k2) :
    ∃ u, buildUnit clusterMode (resolverWith cv.getKeys) cmds = .ok u ∧
      replayUnit (resolverWith cv.getKeys) cv anyNode cp k p cmds =
        some (⟨wMulti, []⟩ :: commitCmds cp k u p ++ [⟨wExec, []⟩]) := by
  obtain ⟨u, hu, _, _⟩ := same_slot_never_refused _ cmds hne hrt hs
  exact ⟨u, hu, committed_txn_accepted cv hcov anyNode cp k p cmds u hcp hp hu⟩

/-- The builder's COMMAND GETKEYS fall-back (asked of every node, first answer
    wins) and the cluster client's (one node) are separate calls in the code.
    The agreement theorems hold for ANY builder fall-back `fbB` that answers
    like the client's wherever the static tables do not resolve a command of
    the list; where the two disagree a unit the builder accepts can be refused
    by the client (the replay then stops, nothing of the unit is sent). -/
theorem client_revalidation_agrees' (cv : ClusterView) (hcov : Covered cv) (anyNode : Option Nat)
    (fbB : Bytes → List Bytes → Fb) (cmds : List Cmd) (hne : cmds ≠ []) (hp : ∀ c ∈ cmds, Plain c)
    (hfb : ∀ c ∈ cmds, commandKeys c.name c.args = none → fbB c.name c.args = cv.getKeys c.name c.args) :
    (∃ u, buildUnit clusterMode (resolverWith fbB) cmds = .ok u) ↔
      (∃ t, txnPutAll cv anyNode {} cmds = .ok t ∧ t.cmds = cmds) := by
  rw [buildUnit_congr clusterMode (resolverWith fbB) (resolverWith cv.getKeys) cmds
    (fun c hc => resolverWith_congr fbB cv.getKeys c (hfb c hc))]
  exact client_revalidation_agrees cv hcov anyNode cmds hne hp

-- the two fall-backs disagreeing: the builder accepts `foo x`, the client refuses it
example : buildUnit clusterMode (resolverWith (fun _ args => .keys (args.take 1))) [⟨[102,111,111], [[120]]⟩] =
    .ok ⟨keyToSlot [120], slotTag (keyToSlot [120]), [⟨[102,111,111], [[120]]⟩]⟩ := by decide +kernel
example : replayUnit (resolverWith (fun _ args => .keys (args.take 1)))
    { owner := fun s => some (s / 5462), getKeys := fun _ _ => .err } (some 0) [99,112] .latest ⟨[], [], 1⟩
    [⟨[102,111,111], [[120]]⟩] = none := by decide +kernel

/-- **A refused source transaction emits nothing.** In the parser
    (`parseAofReplayUnits`, Model/Bisync.lean): a source command or MULTI/EXEC
    block of forwardable commands whose unit the builder refuses makes the
    parser stop with that error having emitted NO unit for the block — the
    transaction is buffered until EXEC and built once, never split or replayed
    in part. -/
theorem refused_txn_emits_nothing (pc : Bisync.PCfg) (hf : Bisync.FOK pc.filter) (b : Bisync.Block)
    (hb : ∀ c ∈ b.body, Bisync.Fgn pc c) (hne : b.body ≠ []) (pst : Bisync.PState) (hi : Bisync.Idle pst)
    (e : BuildErr) (herr : buildUnit pc.mode pc.resolver (b.body.map Bisync.norm) = .error e) :
    ∃ pst', Bisync.parseBlock pc pst b = ([], pst', some (.build e)) := by
  rcases Bisync.foreign_block pc hf b hb hne pst hi with ⟨_, _, _, _, _, _, _, hok⟩ | ⟨pst', e', h, he'⟩
  · rw [herr] at hok; cases hok
  · rw [herr] at he'
    injection he' with he'
    exact ⟨pst', by rw [he']; exact h⟩

/-- **Snapshot phase.** The unit `buildBisyncRdbReplayUnit` makes for an entry
    in cluster mode carries the slot of the TARGET key (the key after an
    optional hash-tag replacement); when the entry's commands are all on the
    target key, every business and control key of the committed transaction is
    on that slot. -/
theorem rdb_unit_single_slot (r : Resolver) (replaceHashTag : Bool) (key : Bytes) (cmds : List Cmd)
    (cp : Bytes) (k : CommitKind) (p : Payload) (hcp : lbrace ∉ cp)
    (hk : ∀ c ∈ cmds, ∀ x ∈ resolvedKeys r c, x = rdbTargetKey replaceHashTag key) :
    let u := buildRdbUnit true replaceHashTag key cmds
    u.slot = hashSlotSpec (rdbTargetKey replaceHashTag key) ∧
    ∀ x ∈ unitKeys r u ++ controlKeys cp k u p, hashSlotSpec x = u.slot := by
  intro u
  have hslot : u.slot = hashSlotSpec (rdbTargetKey replaceHashTag key) := C11.keyToSlot_eq_spec _
  refine ⟨hslot, ?_⟩
  intro x hx
  rcases List.mem_append.mp hx with e | e
  · rw [unitKeys_eq] at e
    obtain ⟨c, hc, hxc⟩ := List.mem_flatMap.mp e
    rw [hk c hc x hxc, hslot]
  · exact controlKeys_slot cp k u p hcp (by rw [hslot]; exact hashSlotSpec_lt _) rfl x e

/-- **Snapshot phase, the command list included** (closes the hypothesis `hk`
    of `rdb_unit_single_slot`). The unit `buildBisyncRdbReplayUnit` assembles for
    a keyed entry — RESTORE form, or the expanded form: what the object parser
    hands over with names lower-cased and the source key rewritten to the
    target key at the key positions of the static tables, behind `del <target>`
    (first bin, keyExists = replace) and followed by `pexpire <target> <ttl>` —
    has, in cluster mode, the slot of the target key, and EVERY business key
    and every control key of its commit transaction hashes to that slot.
    "Business key" = the key positions of the shared static tables, which is
    what the cluster client's re-validation (`txnBatcher.Put`) and a cluster
    node see; `buildBisyncRdbReplayUnit` itself consults NO resolver — it takes
    the slot of the target key and trusts the expansion, so this theorem is
    what makes that trust sound (`resolverWith fb` reads the tables first, so
    the fall-back never matters here). The only hypothesis left is about the object parser's output
    (`RawOn`: its commands name, by the static tables, key positions that all
    hold the entry's key and do not move under the rewriting). -/
theorem rdb_unit_single_slot_built (fb : Bytes → List Bytes → Fb) (useRestore firstBin replaceExisting replaceHashTag : Bool)
    (key : Bytes) (raw : List Cmd) (ttl : Option Bytes) (ttlArg dump : Bytes) (v5 : Bool) (idle freq : Nat)
    (cp : Bytes) (k : CommitKind) (p : Payload) (hcp : lbrace ∉ cp)
    (hraw : ∀ c ∈ raw, RawOn key (rdbTargetKey replaceHashTag key) c) :
    let tgt := rdbTargetKey replaceHashTag key
    let u := buildRdbUnit true replaceHashTag key (rdbCommands useRestore firstBin replaceExisting key tgt raw ttl ttlArg dump v5 idle freq)
    u.slot = hashSlotSpec tgt ∧
    ∀ x ∈ unitKeys (resolverWith fb) u ++ controlKeys cp k u p, hashSlotSpec x = u.slot := by
  intro tgt u
  apply rdb_unit_single_slot (resolverWith fb) replaceHashTag key _ cp k p hcp
  intro c hc x hx
  have hemp : key.isEmpty = true → tgt = key := by
    intro h
    have hk : key = [] := List.isEmpty_iff.mp h
    show rdbTargetKey replaceHashTag key = key
    rw [hk]; rfl
  have hon : OnKey tgt c := by
    unfold rdbCommands at hc
    split at hc
    · exact rdbRestore_onKey tgt ttlArg dump _ c hc
    · exact rdbExpanded_onKey key tgt raw _ ttl hemp hraw c hc
  exact resolved_of_onKey fb tgt c hon x hx

/-- the commands pkg/rdb's object parsers emit for a stream, as they emit them
    (upper case): `XADD key …`, `XSETID key …`, `XCLAIM key …` are of the tables'
    first-key class, `XGROUP CREATE key …` has the key as its SECOND argument
    (extractor): all satisfy `RawOn` on the entry's key -/
theorem raw_stream_commands (src tgt : Bytes) (rest : List Bytes) :
    RawOn src tgt ⟨[88,65,68,68], src :: rest⟩ ∧ RawOn src tgt ⟨[88,83,69,84,73,68], src :: rest⟩ ∧        -- XADD, XSETID
    RawOn src tgt ⟨[88,67,76,65,73,77], src :: rest⟩ ∧                                                        -- XCLAIM
    RawOn src tgt ⟨[88,71,82,79,85,80], [67,82,69,65,84,69] :: src :: rest⟩ ∧                                 -- XGROUP CREATE
    RawOn src tgt ⟨[120,103,114,111,117,112], [99,114,101,97,116,101] :: src :: rest⟩ :=                      -- xgroup create
  ⟨rawOn_generic _ _ _ _ (by decide +kernel) (by decide +kernel), rawOn_generic _ _ _ _ (by decide +kernel) (by decide +kernel),
   rawOn_generic _ _ _ _ (by decide +kernel) (by decide +kernel),
   rawOn_xgroup _ _ _ _ _ (by decide +kernel) (by decide), rawOn_xgroup _ _ _ _ _ (by decide +kernel) (by decide)⟩

/-- the commands the object parsers emit for strings, hashes, lists, sets,
    sorted sets and stream entries are of the tables' first-key class: on the
    entry's key they satisfy `RawOn`, whatever else they carry -/
theorem raw_first_key_commands (src tgt : Bytes) (rest : List Bytes) :
    RawOn src tgt ⟨[115,101,116], src :: rest⟩ ∧ RawOn src tgt ⟨[104,115,101,116], src :: rest⟩ ∧          -- set, hset
    RawOn src tgt ⟨[114,112,117,115,104], src :: rest⟩ ∧ RawOn src tgt ⟨[115,97,100,100], src :: rest⟩ ∧    -- rpush, sadd
    RawOn src tgt ⟨[122,97,100,100], src :: rest⟩ ∧ RawOn src tgt ⟨[120,97,100,100], src :: rest⟩ ∧         -- zadd, xadd
    RawOn src tgt ⟨[83,69,84], src :: rest⟩ ∧ RawOn src tgt ⟨[72,83,69,84], src :: rest⟩ :=                   -- SET, HSET (as emitted)
  ⟨rawOn_generic _ _ _ _ (by decide +kernel) (by decide +kernel), rawOn_generic _ _ _ _ (by decide +kernel) (by decide +kernel),
   rawOn_generic _ _ _ _ (by decide +kernel) (by decide +kernel), rawOn_generic _ _ _ _ (by decide +kernel) (by decide +kernel),
   rawOn_generic _ _ _ _ (by decide +kernel) (by decide +kernel), rawOn_generic _ _ _ _ (by decide +kernel) (by decide +kernel),
   rawOn_generic _ _ _ _ (by decide +kernel) (by decide +kernel), rawOn_generic _ _ _ _ (by decide +kernel) (by decide +kernel)⟩

-- an instance of the theorem: key "u{a}{b}" under replace-hashtag (the slot moves from "a" to "b"), first bin,
-- keyExists = replace, a hash field and a stream group: every key of the unit on the slot of "ua{b}"
example (fb : Bytes → List Bytes → Fb) (cp : Bytes) (hcp : lbrace ∉ cp) (p : Payload) :
    ∀ x ∈ unitKeys (resolverWith fb) (buildRdbUnit true true [117,123,97,125,123,98,125]
        (rdbCommands false true true [117,123,97,125,123,98,125] (rdbTargetKey true [117,123,97,125,123,98,125])
          [⟨[72,83,69,84], [[117,123,97,125,123,98,125], [102], [118]]⟩,
           ⟨[88,71,82,79,85,80], [[67,82,69,65,84,69], [117,123,97,125,123,98,125], [103], [36]]⟩] (some [84]) [84] [68]))
      ++ controlKeys cp .rdb (buildRdbUnit true true [117,123,97,125,123,98,125]
        (rdbCommands false true true [117,123,97,125,123,98,125] (rdbTargetKey true [117,123,97,125,123,98,125])
          [⟨[72,83,69,84], [[117,123,97,125,123,98,125], [102], [118]]⟩,
           ⟨[88,71,82,79,85,80], [[67,82,69,65,84,69], [117,123,97,125,123,98,125], [103], [36]]⟩] (some [84]) [84] [68])) p,
      hashSlotSpec x = hashSlotSpec [117,97,123,98,125] := by
  have h := rdb_unit_single_slot_built fb false true true true [117,123,97,125,123,98,125]
    [⟨[72,83,69,84], [[117,123,97,125,123,98,125], [102], [118]]⟩,
     ⟨[88,71,82,79,85,80], [[67,82,69,65,84,69], [117,123,97,125,123,98,125], [103], [36]]⟩] (some [84]) [84] [68] false 0 0
    cp .rdb p hcp (by
      intro c hc
      simp only [List.mem_cons, List.not_mem_nil, or_false] at hc
      rcases hc with rfl | rfl
      · exact (raw_first_key_commands _ _ _).2.2.2.2.2.2.2
      · exact (raw_stream_commands _ _ _).2.2.2.1)
  intro x hx
  rw [h.2 x hx, h.1]
  rfl

-- a hash of two fields under replace-hashtag, first bin, keyExists = replace, with an expiry:
-- del / hset / hset / pexpire, every key rewritten to the target key "ua{b}"
example : (rdbCommands false true true [117,123,97,125,123,98,125] (rdbTargetKey true [117,123,97,125,123,98,125])
    [⟨[72,83,69,84], [[117,123,97,125,123,98,125], [102], [117,123,97,125,123,98,125]]⟩, ⟨[72,83,69,84], [[117,123,97,125,123,98,125], [103], [118]]⟩]
    (some [84]) [84] [68]).map (fun c => (c.name, c.args.headD [])) =
    [(rDel, [117,97,123,98,125]), ([104,115,101,116], [117,97,123,98,125]), ([104,115,101,116], [117,97,123,98,125]),
     (rPexpire, [117,97,123,98,125])] := by decide +kernel
-- … and the VALUE equal to the source key is left alone (only key positions are rewritten)
example : ((rdbCommands false false false [117,123,97,125,123,98,125] (rdbTargetKey true [117,123,97,125,123,98,125])
    [⟨[72,83,69,84], [[117,123,97,125,123,98,125], [102], [117,123,97,125,123,98,125]]⟩] none [84] [68]).map (·.args)) =
    [[[117,97,123,98,125], [102], [117,123,97,125,123,98,125]]] := by decide +kernel

-- replace-hashtag moves the key to another slot; the unit follows the target key
example : rdbTargetKey true [117,123,97,125,123,98,125] = [117,97,123,98,125] := by decide   -- "u{a}{b}" ↦ "ua{b}"
example : (buildRdbUnit true true [117,123,97,125,123,98,125] []).slot = hashSlotSpec [98] := by decide +kernel
example : (buildRdbUnit true false [117,123,97,125,123,98,125] []).slot = hashSlotSpec [97] := by decide +kernel

/-! ### non-vacuity: concrete transactions over the regenerated tables -/

private def kA : Bytes := [123,97,125,123,98,125]        -- "{a}{b}"  (slot of "a" = 15495)
private def kA2 : Bytes := [120,123,97,125,121]          -- "x{a}y"   (same tag)
private def kB : Bytes := [123,125,123,98,125]           -- "{}{b}"   (whole key hashed)
private def cSet (k : Bytes) : Cmd := ⟨[115,101,116], [k, [118]]⟩          -- set k v
private def cDel (ks : List Bytes) : Cmd := ⟨[100,101,108], ks⟩            -- del ks…
private def cFoo : Cmd := ⟨[102,111,111], [[120]]⟩                         -- foo x (not in the tables)

-- accepted: two commands, three keys, one tag
example : buildUnit clusterMode defaultResolver [cSet kA, cDel [kA2, kA]] =
    .ok ⟨15495, slotTag 15495, [cSet kA, cDel [kA2, kA]]⟩ := by decide +kernel
-- refused: the second key hashes elsewhere although it shares a later tag
example : buildUnit clusterMode defaultResolver [cSet kA, cSet kB] = .error .crossSlot := by decide +kernel
-- refused: unknown key positions
example : buildUnit clusterMode defaultResolver [cSet kA, cFoo] = .error .notRoutable := by decide +kernel
-- hypotheses of `same_slot_never_refused` / `unroutable_refused_before_send` are inhabited
example : Routable defaultResolver (cSet kA) := ⟨[kA], by decide +kernel, by simp⟩
example : ¬ Routable defaultResolver cFoo := by
  rintro ⟨ks, h, _⟩
  have : defaultResolver cFoo.name cFoo.args = .notOk := by decide +kernel
  rw [this] at h; cases h
example : hashSlotSpec kA ≠ hashSlotSpec kB := by decide +kernel
-- standalone mode: slot forced to 0, cross-slot allowed
example : buildUnit standaloneMode defaultResolver [cSet kA, cSet kB] =
    .ok ⟨0, slotTag 0, [cSet kA, cSet kB]⟩ := by decide +kernel
-- the cluster client on the same lists (3 nodes by slot range)
private def cv3 : ClusterView := { owner := fun s => if s < 16384 then some (s / 5462) else none, getKeys := fun _ _ => .none }
example : Covered cv3 := fun s hs => ⟨s / 5462, by simp [cv3, hs]⟩
example : (txnPutAll cv3 (some 0) {} [cSet kA, cDel [kA2, kA]]).toBool = true := by decide +kernel
example : txnPutAll cv3 (some 0) {} [cSet kA, cSet kB] = .error .cross := by decide +kernel
example : txnPutAll cv3 (some 0) {} [cSet kA, cFoo] = .error .other := by decide +kernel
example : Plain (cSet kA) := ⟨by decide +kernel, by simp [cSet]⟩

end GunYu.Props.C18
