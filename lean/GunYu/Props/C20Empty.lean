/-
  C20 (session 5) — a collection WITHOUT elements (`Value.ne` fails).

  Decided with the real loader (scope exhaustive-empty-collection: an RDB with a linked list / set / hash table of length
  0): `rdb.Loader` delivers ONE entry (first bin, not split) whose `ExecCmd` expansion is empty; on the expansion path
  the tool sends EXISTS, DEL when the key is held and the policy is replace, no data command, and PEXPIRE when the
  entry has an expiry (on a key that does not exist: no effect). The model says the same (`expand` of `cmds = []`), so:

    * `empty_replace_absent`  replace: the key is ABSENT afterwards whatever it held - the snapshot's value of an empty
                              collection is "no key", and that is what the target ends with; nothing else changes;
    * `empty_fresh_absent`    a key the target does not hold stays absent under every policy;
    * ignore / error on a held key: `ignore_untouched` / `error_before_modify` need `Group` only - they hold as they are.
  On the RESTORE path the payload is sent as it is (what a server makes of an empty collection's payload is the
  server's: the target double stores it) - `replace_final` needs `Value` for the expansion path only through `ne`.
-/
import GunYu.Props.C20

namespace GunYu.Props.C20
open GunYu GunYu.Restore

private theorem expand_empty_onKey (cfg : Cfg) (e : Entry) (hc : e.cmds = []) : ∀ r ∈ expand cfg e, onKey e.key r := by
  intro r hr
  unfold expand at hr
  rw [hc] at hr
  simp only [List.map_nil, List.nil_append] at hr
  split at hr
  · simp at hr; subst hr; rfl
  · simp at hr

private theorem expand_empty_none (cfg : Cfg) (now : Nat) (e : Entry) (hc : e.cmds = []) :
    objSteps e.key now none (expand cfg e) = none := by
  unfold expand
  rw [hc]
  simp only [List.map_nil, List.nil_append]
  split <;> simp [objSteps, objStep, reqKey, objEffect]

/-- **replace, empty collection, expansion path**: EXISTS, DEL, [PEXPIRE on nothing] - the key is absent afterwards -/
theorem empty_replace_absent (cfg : Cfg) (st : RState) (t : Target) (e : Entry)
    (hd : e.otype = .data) (hf : e.first = true) (hc : e.cmds = []) (hu : useRestore cfg e = false) :
    (runPlain .replace cfg st t [e]).out = .ok ∧
    (runPlain .replace cfg st t [e]).tgt.get e.key = none ∧
    (∀ d k, ¬ (d = t.cur ∧ k = e.key) → (runPlain .replace cfg st t [e]).tgt.ks d k = t.ks d k) ∧
    (∀ r ∈ (runPlain .replace cfg st t [e]).reqs, (∀ c, r ≠ Req.data c)) := by
  have hon := expand_empty_onKey cfg e hc
  have hnodata : ∀ r ∈ expand cfg e, ∀ c, r ≠ Req.data c := by
    intro r hr c
    unfold expand at hr; rw [hc] at hr
    simp only [List.map_nil, List.nil_append] at hr
    split at hr
    · simp at hr; subst hr; simp
    · simp at hr
  cases hex : t.get e.key with
  | some o =>
    have h : replay .replace cfg st (viewOf t e) e = (Req.exists e.key :: Req.del e.key :: expand cfg e, .ok, none) := by
      simp [replay, viewOf, hex, hd, hu, hf]
    obtain ⟨h1, h2, _, h4⟩ := runPlain_cons_ok _ _ _ _ _ [] _ _ h
    simp only [runPlain_nil, List.append_nil] at h1 h2 h4
    have hall : ∀ r ∈ Req.exists e.key :: Req.del e.key :: expand cfg e, onKey e.key r := by
      intro r hr; simp only [List.mem_cons] at hr
      rcases hr with rfl | rfl | hr
      · rfl
      · rfl
      · exact hon r hr
    refine ⟨h2, ?_, ?_, ?_⟩
    · rw [h4, applyReqs_get t _ (fun r hr => onKey_noSel (hall r hr)), hex]
      have : objSteps e.key t.now (some o) (Req.exists e.key :: Req.del e.key :: expand cfg e) =
          objSteps e.key t.now none (expand cfg e) := by simp [objSteps, objStep, reqKey, objEffect]
      rw [this, expand_empty_none cfg t.now e hc]
    · intro d k hne; rw [h4]; exact applyReqs_frame t _ e.key hall d k hne
    · rw [h1]; intro r hr c; simp only [List.mem_cons] at hr
      rcases hr with rfl | rfl | hr
      · simp
      · simp
      · exact hnodata r hr c
  | none =>
    have h : replay .replace cfg st (viewOf t e) e = (Req.exists e.key :: expand cfg e, .ok, none) := by
      simp [replay, viewOf, hex, hd, hu, hf]
    obtain ⟨h1, h2, _, h4⟩ := runPlain_cons_ok _ _ _ _ _ [] _ _ h
    simp only [runPlain_nil, List.append_nil] at h1 h2 h4
    have hall : ∀ r ∈ Req.exists e.key :: expand cfg e, onKey e.key r := by
      intro r hr; simp only [List.mem_cons] at hr
      rcases hr with rfl | hr
      · rfl
      · exact hon r hr
    refine ⟨h2, ?_, ?_, ?_⟩
    · rw [h4, applyReqs_get t _ (fun r hr => onKey_noSel (hall r hr)), hex]
      have : objSteps e.key t.now none (Req.exists e.key :: expand cfg e) = objSteps e.key t.now none (expand cfg e) := by
        simp [objSteps, objStep, reqKey]
      rw [this, expand_empty_none cfg t.now e hc]
    · intro d k hne; rw [h4]; exact applyReqs_frame t _ e.key hall d k hne
    · rw [h1]; intro r hr c; simp only [List.mem_cons] at hr
      rcases hr with rfl | hr
      · simp
      · exact hnodata r hr c

/-- a key the target does not hold stays absent, under every policy -/
theorem empty_fresh_absent (pol : Policy) (cfg : Cfg) (st : RState) (t : Target) (e : Entry)
    (hd : e.otype = .data) (hf : e.first = true) (hc : e.cmds = []) (hu : useRestore cfg e = false)
    (hex : t.get e.key = none) :
    (runPlain pol cfg st t [e]).out = .ok ∧ (runPlain pol cfg st t [e]).tgt.get e.key = none := by
  have hon := expand_empty_onKey cfg e hc
  have h : replay pol cfg st (viewOf t e) e = (Req.exists e.key :: expand cfg e, .ok, none) := by
    simp [replay, viewOf, hex, hd, hu, hf]
  obtain ⟨_, h2, _, h4⟩ := runPlain_cons_ok _ _ _ _ _ [] _ _ h
  simp only [runPlain_nil] at h2 h4
  have hall : ∀ r ∈ Req.exists e.key :: expand cfg e, onKey e.key r := by
    intro r hr; simp only [List.mem_cons] at hr
    rcases hr with rfl | hr
    · rfl
    · exact hon r hr
  refine ⟨h2, ?_⟩
  rw [h4, applyReqs_get t _ (fun r hr => onKey_noSel (hall r hr)), hex]
  have : objSteps e.key t.now none (Req.exists e.key :: expand cfg e) = objSteps e.key t.now none (expand cfg e) := by
    simp [objSteps, objStep, reqKey]
  rw [this, expand_empty_none cfg t.now e hc]

/-! non-vacuity: an empty list under "h" with an expiry, restore off, the target holds "h" with a TTL -/
def exEmpty : Entry := { exR with cmds := [] }
example : (runPlain .replace { exCfg with enableRestore := false } none exT [exEmpty]).reqs =
    [Req.exists [104], Req.del [104], Req.pexpire [104] 4000] := by decide
example : (runPlain .replace { exCfg with enableRestore := false } none exT [exEmpty]).tgt.get [104] = none := by decide
example : (runPlain .ignore { exCfg with enableRestore := false } none exT [exEmpty]).tgt.get [104] = some { val := .old 0, exp := 777 } := by decide

end GunYu.Props.C20
