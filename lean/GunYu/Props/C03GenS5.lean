/-
  C03 (session 5, gofn) — the checksum loop the DUMP payload footer and the snapshot checksum rest
  on is REGENERATED from pkg/digest/crc64.go (`digest.update`, lean/GunYu/Gen/FnCrc64.lean,
  generator `gofn_crc64`) on every run; proved here for every input: it is the table-driven hand
  model `Rdb.crc64TabFrom`, hence CRC-64/Jones as Redis specifies it bit by bit.
  An edit of the Go loop (another shift, another index, a swapped operand) changes the generated
  definition and these proofs no longer go through.
-/
import GunYu.Proofs.GenS5Crc64
import GunYu.Proofs.Rdb.Crc64

namespace GunYu.Props.C03
open GunYu GunYu.Gen GunYu.Rdb

/-- the regenerated `digest.update` = the hand model of the Go loop, from any state -/
theorem gen_crc64Update_eq_model (d : Fn.digest) (p : Bytes) (hlen : p.length < 9223372036854775807) :
    Fn.crc64Update d p = some ⟨crc64TabFrom d.crc p⟩ :=
  Proofs.GenS5.gen_crc64Update_eq_tabFrom d p hlen

/-- a fresh digest (`digest.New()`, crc = 0) fed `p` holds CRC-64/Jones(p) as Redis' crc64.c
    defines it (LSB-first shift register over the reflected polynomial) -/
theorem gen_crc64_eq_jones (p : Bytes) (hlen : p.length < 9223372036854775807) :
    Fn.crc64Update ⟨0#64⟩ p = some ⟨crc64Spec p⟩ := by
  rw [gen_crc64Update_eq_model ⟨0#64⟩ p hlen]
  have h : crc64TabFrom 0#64 p = crc64Spec p := crc64Tab_eq_spec_from p 0#64
  rw [h]

/-- feeding in pieces = feeding the concatenation (the streaming use in pkg/rdb and pkg/store) -/
theorem gen_crc64Update_append (d : Fn.digest) (p q : Bytes)
    (hp : p.length < 9223372036854775807) (hq : q.length < 9223372036854775807)
    (hpq : (p ++ q).length < 9223372036854775807) :
    (Fn.crc64Update d p).bind (fun d' => Fn.crc64Update d' q) = Fn.crc64Update d (p ++ q) :=
  Proofs.GenS5.gen_crc64Update_append d p q hp hq hpq

-- non-vacuity: the Redis test vector, evaluated on the generated definition
example : Fn.crc64Update ⟨0#64⟩ [49, 50, 51, 52, 53, 54, 55, 56, 57] = some ⟨0xe9c6d914c4b8d9ca#64⟩ := by
  decide +kernel

end GunYu.Props.C03
