/-
  C17 — `RedisOutput.SetRunId` across calls in one process (Model/BookSys.lean `setRunId`,
  `setRunIdCalls`): the early return `ro.cfg.RunId == id`, the in-memory field, up to three attempts per
  call, each attempt complete or failing after any number of its requests, any number of calls.

  `FieldOK`: the in-memory field `cfg.RunId` is the id the position is labelled with — or the hash already
  maps the master id while the field still holds the second id (an attempt failed after it had repointed the
  hash; the next attempt finds nothing to do and sets the field).
  `setRunIdCalls_good`: on a `Good` state (every reachable one: `reach_good`) any sequence of calls with the
  master id keeps `Good` for the SAME position and `FieldOK`; hence at every moment a start reads the position
  under the ids the source reports (`setRunIdCalls_position`), and a call that returns nil has the position
  labelled with the master id and the field equal to it.
-/
import GunYu.Props.C17Reach

namespace GunYu.Props.C17
open GunYu GunYu.Checkpoint GunYu.BookSys

def FieldOK (c : Ctl) (runId : Bytes) : Prop := runId = c.lab ∨ (c.lab = c.mas ∧ runId = c.sec)

/-- same reported ids, same key, no rename pending -/
def SameIds (c c' : Ctl) : Prop := c'.key = c.key ∧ c'.mas = c.mas ∧ c'.sec = c.sec ∧ c'.pend = none

theorem relabel_len (ver : Bytes) {t : Checkpoint.Target} {c : Ctl} {X : Int} {d : Nat} (G : Good t c X d)
    (hl : c.lab ≠ c.mas) (o1 o2 : List Nat) (ho1 : d ∈ o1) (now : Int)
    (hnow : -(2^63 : Int) ≤ now ∧ now < 2^63) :
    2 ≤ (updateReqs ver t c.key [c.mas, c.sec] o1 o2 now).length := by
  have P := G.updPre_relabel now hnow
  obtain ⟨cc, hgc, _, _, _⟩ := getCheckpoint_of_holds ver P.holds o1 ho1
  rw [updateReqs_shape ver (loc := c.key) o1 o2 now P.hn P.hn0 hgc, if_pos (Or.inr (Ne.symm hl))]
  simp

theorem retryLoop_good (ver : Bytes) (as : List Attempt) :
    ∀ {t : Checkpoint.Target} {c : Ctl} {X : Int} {d : Nat} (G : Good t c X d) (hp : c.pend = none)
      (runId : Bytes) (hf : FieldOK c runId) (hr : runId ≠ c.mas)
      (has : ∀ a ∈ as, d ∈ a.o1 ∧ (-(2^63 : Int) ≤ a.now ∧ a.now < 2^63)),
      ∃ c', Good (retryLoop ver c.key c.mas ⟨t, runId⟩ as).1.t c' X d ∧ SameIds c c' ∧
        FieldOK c' (retryLoop ver c.key c.mas ⟨t, runId⟩ as).1.runId ∧
        ((retryLoop ver c.key c.mas ⟨t, runId⟩ as).2 = true →
          (retryLoop ver c.key c.mas ⟨t, runId⟩ as).1.runId = c.mas ∧ c'.lab = c.mas) := by
  induction as with
  | nil =>
    intro t c X d G hp runId hf hr _
    exact ⟨c, G, ⟨rfl, rfl, rfl, hp⟩, hf, fun h => by simp [retryLoop] at h⟩
  | cons a rest ih =>
    intro t c X d G hp runId hf hr has
    obtain ⟨ho1, hnow⟩ := has a (List.mem_cons_self ..)
    have hrest : ∀ a' ∈ rest, d ∈ a'.o1 ∧ (-(2^63 : Int) ≤ a'.now ∧ a'.now < 2^63) :=
      fun a' ha' => has a' (List.mem_cons_of_mem _ ha')
    by_cases hl : c.lab = c.mas
    · -- the hash already maps the master id: nothing to do, the attempt completes and sets the field
      have hrs : runId = c.sec := by
        rcases hf with h | h
        · exact absurd (h.trans hl) hr
        · exact h.2
      have hnoop : updateReqs ver t c.key [c.mas, runId] a.o1 a.o2 a.now = [] := by
        rw [hrs]; exact updateReqs_noop ver a.o1 a.o2 a.now (hl ▸ G.hashEq)
      have : retryLoop ver c.key c.mas ⟨t, runId⟩ (a :: rest) = (⟨t, c.mas⟩, true) := by
        simp [retryLoop, attemptOnce, hnoop, applyAll]
      rw [this]
      exact ⟨c, G, ⟨rfl, rfl, rfl, hp⟩, Or.inl hl.symm, fun _ => ⟨rfl, hl⟩⟩
    · have hls : c.lab = c.sec := by rcases G.ctl.lab with h | h; exact absurd h hl; exact h
      have hrs : runId = c.sec := by
        rcases hf with h | h
        · exact h.trans hls
        · exact absurd h.1 hl
      have G' := good_relabel ver G hl hp a.o1 a.o2 ho1 a.now hnow a.k
      have hlen := relabel_len ver G hl a.o1 a.o2 ho1 a.now hnow
      by_cases hdone : (updateReqs ver t c.key [c.mas, c.sec] a.o1 a.o2 a.now).length ≤ a.k
      · -- the attempt completed
        have : retryLoop ver c.key c.mas ⟨t, runId⟩ (a :: rest) =
            (⟨applyAll t ((updateReqs ver t c.key [c.mas, c.sec] a.o1 a.o2 a.now).take a.k), c.mas⟩, true) := by
          simp [retryLoop, attemptOnce, hrs, hdone]
        rw [this]
        have h2 : 2 ≤ a.k := by omega
        have hc : relabelCtl c a.k = { c with lab := c.mas } := by unfold relabelCtl; rw [if_pos h2]
        rw [hc] at G'
        exact ⟨_, G', ⟨rfl, rfl, rfl, hp⟩, Or.inl rfl, fun _ => ⟨rfl, rfl⟩⟩
      · -- it failed after `a.k` requests: the next attempt runs on what it left
        have : retryLoop ver c.key c.mas ⟨t, runId⟩ (a :: rest) =
            retryLoop ver c.key c.mas
              ⟨applyAll t ((updateReqs ver t c.key [c.mas, c.sec] a.o1 a.o2 a.now).take a.k), runId⟩ rest := by
          simp [retryLoop, attemptOnce, hrs, hdone]
        rw [this]
        have hf' : FieldOK (relabelCtl c a.k) runId := by
          unfold relabelCtl
          split
          · exact Or.inr ⟨rfl, hrs⟩
          · exact Or.inl (hrs.trans hls.symm)
        have hk : (relabelCtl c a.k).key = c.key ∧ (relabelCtl c a.k).mas = c.mas ∧
            (relabelCtl c a.k).sec = c.sec ∧ (relabelCtl c a.k).pend = c.pend := by
          unfold relabelCtl; split <;> exact ⟨rfl, rfl, rfl, rfl⟩
        obtain ⟨c', G'', hs, hf'', hok⟩ := ih G' (hk.2.2.2.trans hp) runId hf' (by rw [hk.2.1]; exact hr) hrest
        rw [hk.1, hk.2.1] at G'' hf'' hok
        refine ⟨c', G'', ?_, hf'', ?_⟩
        · obtain ⟨s1, s2, s3, s4⟩ := hs
          exact ⟨s1.trans hk.1, s2.trans hk.2.1, s3.trans hk.2.2.1, s4⟩
        · exact hok

/-- **one call of `SetRunId(master id)`**: the early return, then up to three attempts -/
theorem setRunId_good (ver : Bytes) {t : Checkpoint.Target} {c : Ctl} {X : Int} {d : Nat} (G : Good t c X d)
    (hp : c.pend = none) (runId : Bytes) (hf : FieldOK c runId) (as : List Attempt)
    (has : ∀ a ∈ as, d ∈ a.o1 ∧ (-(2^63 : Int) ≤ a.now ∧ a.now < 2^63)) :
    ∃ c', Good (setRunId ver c.key ⟨t, runId⟩ c.mas as).1.t c' X d ∧ SameIds c c' ∧
      FieldOK c' (setRunId ver c.key ⟨t, runId⟩ c.mas as).1.runId ∧
      ((setRunId ver c.key ⟨t, runId⟩ c.mas as).2 = true →
        (setRunId ver c.key ⟨t, runId⟩ c.mas as).1.runId = c.mas ∧ c'.lab = c.mas) := by
  unfold setRunId
  by_cases hr : runId = c.mas
  · rw [if_pos hr]
    refine ⟨c, G, ⟨rfl, rfl, rfl, hp⟩, hf, fun _ => ⟨hr, ?_⟩⟩
    rcases hf with h | h
    · exact h.symm.trans hr
    · exact h.1
  · rw [if_neg hr]
    exact retryLoop_good ver (as.take 3) G hp runId hf hr (fun a ha => has a (List.mem_of_mem_take ha))

/-- **any sequence of calls in one process**, each with the master id and any fate of its attempts -/
theorem setRunIdCalls_good (ver : Bytes) (calls : List (Bytes × List Attempt)) :
    ∀ {t : Checkpoint.Target} {c : Ctl} {X : Int} {d : Nat} (G : Good t c X d) (hp : c.pend = none)
      (runId : Bytes) (hf : FieldOK c runId)
      (hcalls : ∀ cl ∈ calls, cl.1 = c.mas ∧ ∀ a ∈ cl.2, d ∈ a.o1 ∧ (-(2^63 : Int) ≤ a.now ∧ a.now < 2^63)),
      ∃ c', Good (setRunIdCalls ver c.key ⟨t, runId⟩ calls).t c' X d ∧ SameIds c c' ∧
        FieldOK c' (setRunIdCalls ver c.key ⟨t, runId⟩ calls).runId := by
  induction calls with
  | nil => intro t c X d G hp runId hf _; exact ⟨c, G, ⟨rfl, rfl, rfl, hp⟩, hf⟩
  | cons cl rest ih =>
    intro t c X d G hp runId hf hcalls
    obtain ⟨hid, has⟩ := hcalls cl (List.mem_cons_self ..)
    simp only [setRunIdCalls, hid]
    obtain ⟨c1, G1, ⟨k1, m1, s1, p1⟩, hf1, _⟩ := setRunId_good ver G hp runId hf cl.2 has
    have := ih G1 p1 _ hf1 (fun cl' hcl' => by
      obtain ⟨h1, h2⟩ := hcalls cl' (List.mem_cons_of_mem _ hcl')
      exact ⟨h1.trans m1.symm, h2⟩)
    rw [k1] at this
    obtain ⟨c', G', ⟨k2, m2, s2, p2⟩, hf'⟩ := this
    exact ⟨c', G', ⟨k2.trans k1, m2.trans m1, s2.trans s1, p2⟩, hf'⟩

/-- … hence, whatever the calls and their failed attempts did, the next start reads the SAME position under
    the ids the source reports -/
theorem setRunIdCalls_position (ver : Bytes) {t : Checkpoint.Target} {c : Ctl} (h : Reach ver true t c)
    (hp : c.pend = none) (runId : Bytes) (hf : FieldOK c runId) (calls : List (Bytes × List Attempt))
    (o : List Nat) (ho : Lists o t c.key)
    (hcalls : ∀ cl ∈ calls, cl.1 = c.mas ∧ ∀ a ∈ cl.2, a.o1 = o ∧ (-(2^63 : Int) ≤ a.now ∧ a.now < 2^63)) :
    ∃ X d, startPoint ver [c.mas, c.sec] o t = some (some (X, d)) ∧
      startPoint ver [c.mas, c.sec] o (setRunIdCalls ver c.key ⟨t, runId⟩ calls).t = some (some (X, d)) := by
  obtain ⟨X, d, G⟩ := reach_good ver h
  have hd := ho d G.nonempty
  obtain ⟨c', G', ⟨_, m, s, _⟩, _⟩ := setRunIdCalls_good ver calls G hp runId hf (fun cl hcl => by
    obtain ⟨h1, h2⟩ := hcalls cl hcl
    exact ⟨h1, fun a ha => ⟨(h2 a ha).1 ▸ hd, (h2 a ha).2⟩⟩)
  have := good_startPoint ver G' o hd
  rw [m, s] at this
  exact ⟨X, d, good_startPoint ver G o hd, this⟩

/-! non-vacuity: on the reachable state after the failover (`rx_reach2`: position 50@5 labelled "a", master id
    "b", field "a"): first call — three attempts failing after 1, 0 and 3 requests; second call — an attempt
    that completes (it finds the hash repointed: nothing left to do). -/
example : FieldOK { seedCtl rxLoc rxA rxZ with mas := rxB, sec := rxA, ids := rxB :: [rxA, rxZ] } rxA := Or.inl rfl
example := setRunIdCalls_position rxVer rx_reach2 rfl rxA (Or.inl rfl)
  [(rxB, [⟨1, 9, [0, 5], [0, 5]⟩, ⟨0, 10, [0, 5], [5, 0]⟩, ⟨3, 11, [0, 5], [5]⟩]), (rxB, [⟨9, 12, [0, 5], [0, 5]⟩])]
  [0, 5] rx_lists1
  (by
    intro cl hcl
    simp only [List.mem_cons, List.not_mem_nil, or_false] at hcl
    rcases hcl with rfl | rfl
    · refine ⟨rfl, ?_⟩
      intro a ha
      simp only [List.mem_cons, List.not_mem_nil, or_false] at ha
      rcases ha with rfl | rfl | rfl <;> exact ⟨rfl, by decide⟩
    · refine ⟨rfl, ?_⟩
      intro a ha
      simp only [List.mem_cons, List.not_mem_nil, or_false] at ha
      subst ha; exact ⟨rfl, by decide⟩)

end GunYu.Props.C17
