/-
  C14 — restarts INSIDE one process (the frontier-miss fast path of bisyncStartPoint), send loops
  that stop while the process lives on, clean-ups that give up: steps of the transition system
  (Model/FrontierProc.lean: `PSys` = the split-queue system `TSys` + the memory of the RedisOutput).

  Property theorems only (helper lemmas: Proofs/FrontierProc.lean).

  Quantifiers: all unit numberings `W.e` with strictly growing end offsets, all step lists of `PSys`
  (everything `TSys` does, plus: the loop returns at any moment and the same process calls StartPoint
  again — answered from memory or by the root without purge once a start has missed; a start whose
  purge failed half-way returns an error and is retried by the same process; a clean-up that gives
  up after any of its requests).
-/
import GunYu.Model.FrontierProc
import GunYu.Proofs.FrontierProc
import GunYu.Props.C14

namespace GunYu.Props.C14
open GunYu GunYu.Frontier

/-- the invariant holds before the first process starts on a fresh namespace -/
theorem proc_init_inv (W : World) (db : Nat) :
    PInv W { t := { ns := { root := some (W.rid, W.e 0, db) } } } :=
  ⟨traffic_init_inv W db, fun hn => absurd rfl hn, fun r hr => by simp at hr, fun r hr => by simp at hr,
   fun r hr => by simp at hr, fun m hm => by simp at hm, fun m hm => by simp at hm, fun _ => rfl, Int.le_refl _,
   fun r hr => by simp at hr, fun m hm => by simp at hm, fun _ => startSeqOf_nonneg _ _ _⟩

/-- every single step — those of the split-queue system, a loop that stops with the process alive, a
    start of the SAME process (answered by the fast path once armed), a clean-up that gives up —
    preserves the invariant -/
theorem proc_each_step_preserves (W : World) (hs : ∀ i j, i < j → W.e i < W.e j)
    (hvis : matchRun W.rid W.ids = true) (s : PSys) (h : PInv W s) (st : PStep) :
    PInv W (pstep W s st) := (pstep_pinv hs hvis h st).1

/-- `resume_monotone_traffic` for executions that INCLUDE restarts inside a process: whatever the
    live process does — its loop stops at any moment, it starts again and is answered from memory
    (behind units already committed) or by the root without purge, its purge fails half-way and the
    start is retried, its clean-up gives up — the point a FRESH start would resume from (what the
    next process gets after a crash at that moment) never moves backwards, neither the sequence
    number nor the offset, and names a committed prefix. -/
theorem resume_monotone_process (W : World) (hs : ∀ i j, i < j → W.e i < W.e j)
    (hvis : matchRun W.rid W.ids = true) (s₀ : PSys) (h₀ : PInv W s₀) (steps more : List PStep) :
    startSeqOf W.ver (prunSteps W s₀ steps).t.ns W.ids
        ≤ startSeqOf W.ver (prunSteps W s₀ (steps ++ more)).t.ns W.ids ∧
    startOffOf W.ver (prunSteps W s₀ steps).t.ns W.ids
        ≤ startOffOf W.ver (prunSteps W s₀ (steps ++ more)).t.ns W.ids ∧
    (∀ j, 0 < j → j ≤ startSeqOf W.ver (prunSteps W s₀ (steps ++ more)).t.ns W.ids →
        j ∈ (prunSteps W s₀ (steps ++ more)).t.committed) := by
  have hm := mono_of_strict hs
  obtain ⟨h1, _⟩ := prunSteps_pinv hs hvis steps h₀
  obtain ⟨h2, hle, _⟩ := prunSteps_pinv hs hvis more h1
  rw [← prunSteps_append] at h2 hle
  obtain ⟨r1, hr1⟩ := h1.ti.root
  obtain ⟨r2, hr2⟩ := h2.ti.root
  refine ⟨hle, ?_, ?_⟩
  · have e1 := startOff_eq (ns := (prunSteps W s₀ steps).t.ns) (consistent_of_sysInv hm h1.ti.hi) hr1
    have e2 := startOff_eq (ns := (prunSteps W s₀ (steps ++ more)).t.ns) (consistent_of_sysInv hm h2.ti.hi) hr2
    rw [e1, e2]
    exact hm _ _ hle
  · intro j hj0 hj
    cases hst : startFrontier W.ver (prunSteps W s₀ (steps ++ more)).t.ns W.ids with
    | mk st reqs =>
      cases st with
      | empty => simp only [startSeqOf, hst] at hj; omega
      | point db rid off seq =>
        simp only [startSeqOf, hst] at hj
        exact (start_sound h2.ti.hi db rid off seq reqs hst).1.2.2 j hj0 hj

/-- what a start of the live process hands to the send loop — read from the target or answered from
    memory by the fast path — is a committed prefix: the sequence number names units that are all
    committed, the offset is the end of the unit with that number; at every later moment of that run
    the coordinator's frontier (the memory the NEXT in-process start answers from) is one too and is
    not below the start. The in-memory answer never exceeds the contiguous committed prefix. -/
theorem inprocess_answer_is_committed_prefix (W : World) (hs : ∀ i j, i < j → W.e i < W.e j)
    (hvis : matchRun W.rid W.ids = true) (s₀ : PSys) (h₀ : PInv W s₀) (steps : List PStep) (r : Run)
    (hr : (prunSteps W s₀ steps).t.run = some r) :
    (∀ j, 0 < j → j ≤ r.startSeq → j ∈ (prunSteps W s₀ steps).t.committed) ∧
    r.startSeq ≤ r.coord.frontier.seq ∧
    r.coord.frontier.offset = W.e r.coord.frontier.seq ∧
    (∀ j, 0 < j → j ≤ r.coord.frontier.seq → j ∈ (prunSteps W s₀ steps).t.committed) := by
  obtain ⟨h1, _⟩ := prunSteps_pinv hs hvis steps h₀
  obtain ⟨hco, _, _⟩ := h1.ti.hi.co r (by simp [TSys.toSys, hr])
  have hadv := h1.adv r hr
  exact ⟨fun j h0 hj => hco.2.2 j h0 (by omega), hadv, hco.2.1, hco.2.2⟩

/-- the ghost `floor` is the number the latest start of the live process returned -/
theorem floor_is_latest_answer (W : World) (hs : ∀ i j, i < j → W.e i < W.e j)
    (hvis : matchRun W.rid W.ids = true) (s₀ : PSys) (h₀ : PInv W s₀) (steps : List PStep) (r : Run)
    (hr : (prunSteps W s₀ steps).t.run = some r) : (prunSteps W s₀ steps).floor = r.startSeq :=
  (prunSteps_pinv hs hvis steps h₀).1.flRun r hr

/-- what a start of the process answers: the run it creates begins at (offset, sequence number) with the
    offset the end of that unit (`W.e` of the number), and `floor` is that number. With
    `inprocess_start_never_below` and the monotone numbering: the OFFSET a start of the live process
    returns never goes below that of an earlier start either (`inprocess_start_offset_never_below`). -/
theorem start_answer_is_unit_end (W : World) (hs : ∀ i j, i < j → W.e i < W.e j)
    (hvis : matchRun W.rid W.ids = true) (s : PSys) (h : PInv W s) (hn : s.t.run = none) (r : Run)
    (hr : (pstep W s (.sys .start)).t.run = some r) :
    r.coord.frontier.seq = r.startSeq ∧ r.coord.frontier.offset = W.e r.startSeq ∧
    (pstep W s (.sys .start)).floor = r.startSeq := by
  obtain ⟨h1, _⟩ := pstep_pinv hs hvis h (.sys .start)
  have e0 : pstep W s (.sys .start) = pstart W s := by simp [pstep, hn]
  have hseq := pstart_run_seq W s hn r (by rw [← e0]; exact hr)
  obtain ⟨hco, _, _⟩ := h1.ti.hi.co r (by simp [TSys.toSys, hr])
  exact ⟨hseq, by rw [hco.2.1, hseq], h1.flRun r hr⟩

/-- As long as the process lives (no crash among `more`), what its starts return never goes below
    what an earlier start of the same process returned — whether the answer is read from the target or
    comes from memory (the contiguous reported prefix of the loop that just stopped), and also when a
    start failed in its purge and was retried. With `inprocess_answer_is_committed_prefix`: the
    in-memory answer lies between the previous answer and the committed prefix. This is about the
    SEQUENCE NUMBER (`floor`, `floor_is_latest_answer`); the offset: `inprocess_start_offset_never_below`. -/
theorem inprocess_start_never_below (W : World) (hs : ∀ i j, i < j → W.e i < W.e j)
    (hvis : matchRun W.rid W.ids = true) (s₀ : PSys) (h₀ : PInv W s₀) (steps more : List PStep)
    (hlive : ∀ st ∈ more, st ≠ PStep.sys .crash) :
    (prunSteps W s₀ steps).floor ≤ (prunSteps W s₀ (steps ++ more)).floor := by
  obtain ⟨h1, _⟩ := prunSteps_pinv hs hvis steps h₀
  obtain ⟨_, _, hfl⟩ := prunSteps_pinv hs hvis more h1
  rw [← prunSteps_append] at hfl
  exact hfl hlive

/-- … and neither does the offset: the offset a start answers is the end of the unit with the number it
    answers (`start_answer_is_unit_end`), and end offsets grow with the number -/
theorem inprocess_start_offset_never_below (W : World) (hs : ∀ i j, i < j → W.e i < W.e j)
    (hvis : matchRun W.rid W.ids = true) (s₀ : PSys) (h₀ : PInv W s₀) (steps more : List PStep)
    (hlive : ∀ st ∈ more, st ≠ PStep.sys .crash) :
    W.e (prunSteps W s₀ steps).floor ≤ W.e (prunSteps W s₀ (steps ++ more)).floor :=
  mono_of_strict hs _ _ (inprocess_start_never_below W hs hvis s₀ h₀ steps more hlive)

/-! ### non-vacuity -/

def exP0 : PSys := { t := exT0 }
theorem exW_strict : ∀ i j : Int, i < j → exW.e i < exW.e j := fun i j h => by simp only [exW]; omega

/-- a process on a fresh namespace: its first start misses (nothing stored) and arms the fast path;
    units 2, 1, 3 commit, 2 and 1 are reported, the loop stops (no flush yet); the SAME process starts
    again and is answered from memory: after unit 2 (offset 1020), without a request — a fresh start
    would resume after unit 3; unit 3 is sent again, reported, a tick saves frontier 3; crash. -/
def exPSteps : List PStep :=
  [.sys .start, .sys (.commit 2 7), .sys (.commit 1 8), .sys (.commit 3 9), .sys (.report 2 7 10), .sys (.report 1 8 20),
   .stop, .sys .start, .sys (.commit 3 11), .sys (.report 3 11 30), .sys (.tick 200000000), .sys .apply, .sys .crash]
example : PInv exW exP0 := proc_init_inv exW 0
example : (prunSteps exW exP0 (exPSteps.take 1)).mem = some { miss := [114], seq := 0, off := -1 } := by decide
example : (prunSteps exW exP0 (exPSteps.take 7)).mem = some { miss := [114], seq := 2, off := 1020 } := by decide
example : ((prunSteps exW exP0 (exPSteps.take 8)).t.run.map (fun r => (r.startSeq, r.coord.frontier.offset)),
           (prunSteps exW exP0 (exPSteps.take 8)).t.rq, (prunSteps exW exP0 (exPSteps.take 8)).floor)
    = (some (2, 1020), [], 2) := by decide
example : startSeqOf exW.ver (prunSteps exW exP0 (exPSteps.take 8)).t.ns exW.ids = 3 := by decide
example : [1, 4, 7, 8, 12, 13].map (fun k => startSeqOf exW.ver (prunSteps exW exP0 (exPSteps.take k)).t.ns exW.ids)
    = [0, 3, 3, 3, 3, 3] := by decide
example : (prunSteps exW exP0 exPSteps).t.ns.frontier = some ⟨[114], 3, 1030, 11, [49]⟩ := by decide
example : (prunSteps exW exP0 (exPSteps.take 1)).floor ≤ (prunSteps exW exP0 (exPSteps.take 1 ++ (exPSteps.drop 1).take 7)).floor :=
  inprocess_start_never_below exW exW_strict (by decide) exP0 (proc_init_inv exW 0) (exPSteps.take 1) ((exPSteps.drop 1).take 7)
    (by intro st hst
        simp only [exPSteps, List.drop, List.take, List.mem_cons, List.not_mem_nil, or_false] at hst
        rcases hst with rfl | rfl | rfl | rfl | rfl | rfl | rfl <;> simp)

/-- the theorems about the live process applied to that run: after its second start (step 8, answered from
    memory) a run exists (shown above: start 2 @ 1020), it is a committed prefix, `floor` is its number, and the
    start itself answered the end of unit 2 -/
example : ∀ r, (prunSteps exW exP0 (exPSteps.take 8)).t.run = some r →
    (∀ j, 0 < j → j ≤ r.startSeq → j ∈ (prunSteps exW exP0 (exPSteps.take 8)).t.committed) ∧
    (prunSteps exW exP0 (exPSteps.take 8)).floor = r.startSeq :=
  fun r hr => ⟨(inprocess_answer_is_committed_prefix exW exW_strict (by decide) exP0 (proc_init_inv exW 0) _ r hr).1,
    floor_is_latest_answer exW exW_strict (by decide) exP0 (proc_init_inv exW 0) _ r hr⟩
example : ∀ r, (pstep exW (prunSteps exW exP0 (exPSteps.take 7)) (.sys .start)).t.run = some r →
    r.coord.frontier.offset = exW.e r.startSeq :=
  fun r hr => (start_answer_is_unit_end exW exW_strict (by decide) _
    (prunSteps_pinv exW_strict (by decide) (exPSteps.take 7) (proc_init_inv exW 0)).1 (by decide) r hr).2.1
example : exW.e (prunSteps exW exP0 (exPSteps.take 1)).floor ≤ exW.e (prunSteps exW exP0 (exPSteps.take 1 ++ (exPSteps.drop 1).take 7)).floor :=
  inprocess_start_offset_never_below exW exW_strict (by decide) exP0 (proc_init_inv exW 0) (exPSteps.take 1) ((exPSteps.drop 1).take 7)
    (by intro st hst
        simp only [exPSteps, List.drop, List.take, List.mem_cons, List.not_mem_nil, or_false] at hst
        rcases hst with rfl | rfl | rfl | rfl | rfl | rfl | rfl <;> simp)

/-- a start whose purge fails half-way, retried by the same process: journal {2} (unit 1 never
    committed), a new process: the start reports a gap, arms the fast path and queues the purge
    [DEL 2, ZREM, DEL frontier]; the DEL is applied, the ZREM fails: StartPoint returns the error
    (`stop`), nothing is stored; the retry is answered by the fast path: the root, sequence 0, no
    request — the index member of unit 2 stays; units 1 and 2 are replayed. -/
def exPRetry : List PStep :=
  [.sys .start, .sys (.commit 2 7), .sys .crash, .sys .start, .sys .apply, .stop, .sys .start,
   .sys (.commit 1 8), .sys (.commit 2 9), .sys .crash]
example : (prunSteps exW exP0 (exPRetry.take 4)).t.rq = [.delRec 2, .zrem [2], .delFrontier] := by decide
example : (prunSteps exW exP0 (exPRetry.take 6)).mem = some { miss := [114], seq := 0, off := -1 } := by decide
example : ((prunSteps exW exP0 (exPRetry.take 7)).t.run.map (fun r => (r.startSeq, r.coord.frontier.offset)),
           (prunSteps exW exP0 (exPRetry.take 7)).t.rq, (prunSteps exW exP0 (exPRetry.take 7)).t.ns.index)
    = (some (0, 1000), [], [(2, 2)]) := by decide
example : [3, 6, 8, 9].map (fun k => startSeqOf exW.ver (prunSteps exW exP0 (exPRetry.take k)).t.ns exW.ids)
    = [0, 0, 1, 2] := by decide
example : startOffOf exW.ver (prunSteps exW exP0 (exPRetry.take 6)).t.ns exW.ids
      ≤ startOffOf exW.ver (prunSteps exW exP0 (exPRetry.take 6 ++ exPRetry.drop 6)).t.ns exW.ids :=
  (resume_monotone_process exW exW_strict (by decide) exP0 (proc_init_inv exW 0) (exPRetry.take 6) (exPRetry.drop 6)).2.1

/-- a clean-up that gives up: snapshot-less journal {1, 2} after a crash; the next process resumes after
    unit 2 and queues [save 2, DEL 1, DEL 2, ZREM]; the save is applied, the first DEL fails: the rest is
    dropped, the loop starts (unit 3 commits) -/
def exPGiveUp : List PStep :=
  [.sys .start, .sys (.commit 1 7), .sys (.commit 2 8), .sys .crash, .sys .start, .sys .apply, .giveUp,
   .sys (.commit 3 9), .sys .crash]
example : (prunSteps exW exP0 (exPGiveUp.take 5)).t.rq.length = 4 := by decide
example : ((prunSteps exW exP0 (exPGiveUp.take 7)).t.rq, (prunSteps exW exP0 exPGiveUp).t.committed) = ([], [3, 2, 1]) := by decide
example : [4, 6, 9].map (fun k => startSeqOf exW.ver (prunSteps exW exP0 (exPGiveUp.take k)).t.ns exW.ids) = [2, 2, 3] := by decide

end GunYu.Props.C14
