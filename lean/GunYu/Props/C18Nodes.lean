/-
  C18 — "refused or single-slot, never sent cross-slot" on a target whose nodes
  answer COMMAND GETKEYS DIFFERENTLY or with errors, and the cluster client's
  transaction flag.

  The agreement theorems of Props/C18.lean assumed that the builder's
  COMMAND GETKEYS (every node asked, first non-empty answer wins) and the
  cluster client's (one random node per Put) answer alike. Here nothing is
  assumed: `ans : node → cmd → args → answer` is arbitrary, the order in which
  the builder visits the nodes is arbitrary (`nodes`), the node each Put's
  query hits is arbitrary (`picks`).
-/
import GunYu.Props.C18
import GunYu.Proofs.ClusterNodes
import GunYu.Proofs.BisyncNames

namespace GunYu.Props.C18
open GunYu GunYu.Slot GunYu.BisyncUnit

private def twoViewsR : NodeAns := fun n _ args => if n = 0 then .keys (args.take 1) else .keys args
private def cFooABR : Cmd := ⟨[102,111,111], [[120,123,97,125], [121,123,98,125]]⟩
private def own3R : Nat → Option Nat := fun s => if s < 16384 then some (s / 5462) else none

/-- **Single slot, with the checkpoint name as the tool makes it.** `unit_single_slot`
    without the hypothesis on the name: for every generated name —
    `NewBisyncCheckpointName` for any random bytes, `redis-gunyu-checkpoint`, the
    slot-fitted `redis-gunyu-checkpoint-<letters>`, and hence (C13
    `resolved_names_generated`) every name a start reads back from the checkpoint
    hash — the control keys hash to the unit's slot by their `{tag}`. -/
theorem unit_single_slot_generated (r : Resolver) (cmds : List Cmd) (u : RUnit) (cp : Bytes) (k : CommitKind)
    (p : Payload) (hg : Bisync.GenCp cp) (h : buildUnit clusterMode r cmds = .ok u) :
    u.slot < 16384 ∧ ∀ key ∈ unitKeys r u ++ controlKeys cp k u p, hashSlotSpec key = u.slot :=
  unit_single_slot r cmds u cp k p (Bisync.genCp_nobrace cp hg) h

example (buf : Bytes) : Bisync.GenCp (Bisync.newCpName buf) := Or.inl ⟨buf, rfl⟩

/-- the marker SET is the first Put; accepted, it fixes the batcher's slot to
    the slot of the marker key, whatever the nodes answer (SET is in the static
    tables: no COMMAND GETKEYS is consulted for it) -/
theorem markerPut_slot (cv : ClusterView) (anyNode : Option Nat) (cp : Bytes) (u : RUnit) (p : Payload) (t1 : Txn)
    (h : txnPut cv anyNode {} (markerCmd cp u p) = .ok t1) :
    t1.slot = some (clusterHash (Gen.markerKey cp u.slotTag)) := by
  have hset : upperName wSet ∉ specialRouted := by decide +kernel
  have hplain : Plain (markerCmd cp u p) := ctl_plain _ _ _ hset
  have hres : resolverWith cv.getKeys (markerCmd cp u p).name (markerCmd cp u p).args = .ok [Gen.markerKey cp u.slotTag] :=
    ctl_routable cv.getKeys _ _ _ (set_keys _ _)
  unfold txnPut at h
  rw [chooseNode_plain cv anyNode _ hplain, hres] at h
  simp only at h
  cases hn : nodeOfKey cv (Gen.markerKey cp u.slotTag) with
  | none => rw [hn] at h; cases h
  | some n =>
    rw [hn] at h
    simp only [sameNodeLoop, List.any_nil, Bool.false_eq_true, ↓reduceIte] at h
    split at h
    · cases h
    · injection h with h
      rw [← h]

/-- **Diverging COMMAND GETKEYS answers: sent ⇒ single-slot in every view that
    was consulted.** Whatever each node answers (keys, nothing, an error), in
    whatever order the builder visits the nodes and whichever node each Put of
    the cluster client happens to ask: if the replay of a source transaction
    puts anything on the wire, then
    * the builder accepted it, and every business key AS THE BUILDER'S
      ITERATION NAMED THEM and every control key hashes to the unit's slot;
    * every command's keys AS THE NODE ASKED AT ITS PUT NAMED THEM (the static
      tables where they resolve the command) hash to that same slot;
    * what is sent is one MULTI … EXEC block of commands of the commit
      transaction, the marker SET first.
    Hence a transaction that is cross-slot in the builder's view OR in the view
    of any node the client consults is never sent — not in part, not
    approximately. -/
theorem divergent_getkeys_single_slot (ans : NodeAns) (nodes picks : List Nat) (owner : Nat → Option Nat)
    (anyNode : Option Nat) (cp : Bytes) (k : CommitKind) (p : Payload) (cmds w : List Cmd) (hcp : lbrace ∉ cp)
    (h : replayUnitN ans nodes picks owner anyNode cp k p cmds = some w) :
    ∃ u, buildUnit clusterMode (resolverWith (builderFb ans nodes)) cmds = .ok u ∧ u.slot < 16384 ∧
      (∀ key ∈ unitKeys (resolverWith (builderFb ans nodes)) u ++ controlKeys cp k u p, hashSlotSpec key = u.slot) ∧
      (∀ q ∈ assignPicks (commitCmds cp k u p) picks, ∀ key ∈ putKeys ⟨owner, ans q.2⟩ anyNode q.1,
        hashSlotSpec key = u.slot) ∧
      ∃ body, w = ⟨wMulti, []⟩ :: body ++ [⟨wExec, []⟩] ∧ body.head? = some (markerCmd cp u p) ∧
        ∀ c ∈ body, c ∈ commitCmds cp k u p := by
  unfold replayUnitN at h
  cases hb : buildUnit clusterMode (resolverWith (builderFb ans nodes)) cmds with
  | error e => rw [hb] at h; cases h
  | ok u =>
    rw [hb] at h
    simp only at h
    obtain ⟨hslot, hall⟩ := unit_single_slot _ cmds u cp k p hcp hb
    obtain ⟨_, _, _, htag, _⟩ := (buildUnit_cluster_iff _ cmds u).mp hb
    refine ⟨u, rfl, hslot, hall, ?_⟩
    -- the commit transaction starts with the marker SET
    obtain ⟨rest, hcc⟩ : ∃ rest, commitCmds cp k u p = markerCmd cp u p :: rest := by
      cases k <;> exact ⟨_, rfl⟩
    have hmk : hashSlotSpec (Gen.markerKey cp u.slotTag) = u.slot :=
      hall _ (List.mem_append.mpr (Or.inr (by cases k <;> simp [controlKeys])))
    unfold wireN at h
    cases ht : txnPutAllN owner ans anyNode {} (assignPicks (commitCmds cp k u p) picks) with
    | error e => rw [ht] at h; cases h
    | ok t =>
      rw [ht] at h
      simp only at h
      -- first Put: the marker
      have hap : ∃ n0 tl, assignPicks (commitCmds cp k u p) picks = (markerCmd cp u p, n0) :: tl := by
        rw [hcc]
        unfold assignPicks
        split <;> exact ⟨_, _, rfl⟩
      obtain ⟨n0, tl, hap⟩ := hap
      rw [hap] at ht
      simp only [txnPutAllN] at ht
      cases h1 : txnPut ⟨owner, ans n0⟩ anyNode {} (markerCmd cp u p) with
      | error e => rw [h1] at ht; cases ht
      | ok t1 =>
        rw [h1] at ht
        simp only at ht
        have hs1 := markerPut_slot ⟨owner, ans n0⟩ anyNode cp u p t1 h1
        obtain ⟨a1, a2, _⟩ := txnPut_inv _ anyNode {} t1 _ h1
        obtain ⟨b1, b2, b3, ext, hext⟩ := txnPutAllN_inv owner ans anyNode tl t1 t ht
        have hts : t.slot = some u.slot := by
          rw [b1 _ hs1, C11.clusterHash_eq_spec, hmk]
        have hcm : t1.cmds = [markerCmd cp u p] := by
          rcases txnPut_skip_or_slot _ anyNode {} t1 _ h1 with ⟨e, _⟩ | ⟨e, _⟩
          · rw [e] at hs1; cases hs1
          · simpa using e
        refine ⟨?_, ?_⟩
        · intro q hq key hk
          rw [hap] at hq
          rw [← C11.clusterHash_eq_spec]
          rcases List.mem_cons.mp hq with rfl | hq
          · have := a2 _ hs1 key hk
            rw [this, C11.clusterHash_eq_spec, hmk]
          · exact b2 _ hts q hq key hk
        · -- the wire
          have hne : t.cmds.isEmpty = false := by rw [hext, hcm]; rfl
          rw [hne] at h
          simp only [Bool.false_eq_true, ↓reduceIte] at h
          injection h with h
          refine ⟨t.cmds, h.symm, by rw [hext, hcm]; rfl, ?_⟩
          intro c hc
          rcases b3 c hc with hc | hc
          · rw [hcm] at hc
            rw [List.mem_singleton.mp hc, hcc]; simp
          · -- from the tail of the assignment
            have : c ∈ (assignPicks (commitCmds cp k u p) picks).map (·.1) := by
              rw [hap]; simp only [List.map_cons, List.mem_cons]; exact Or.inr hc
            have hmap : ∀ (l : List Cmd) (ps : List Nat), (assignPicks l ps).map (·.1) = l := by
              intro l
              induction l with
              | nil => intro ps; rfl
              | cons x xs ih =>
                intro ps
                unfold assignPicks
                split <;> simp [ih]
            rw [hmap] at this
            exact this

/-- the client's slot map names an owner for the marker's slot when the marker Put is accepted -/
theorem markerPut_owner (cv : ClusterView) (anyNode : Option Nat) (cp : Bytes) (u : RUnit) (p : Payload) (t1 : Txn)
    (h : txnPut cv anyNode {} (markerCmd cp u p) = .ok t1) :
    ∃ n, cv.owner (clusterHash (Gen.markerKey cp u.slotTag)) = some n := by
  have hset : upperName wSet ∉ specialRouted := by decide +kernel
  have hplain : Plain (markerCmd cp u p) := ctl_plain _ _ _ hset
  have hres : resolverWith cv.getKeys (markerCmd cp u p).name (markerCmd cp u p).args = .ok [Gen.markerKey cp u.slotTag] :=
    ctl_routable cv.getKeys _ _ _ (set_keys _ _)
  unfold txnPut at h
  rw [chooseNode_plain cv anyNode _ hplain, hres] at h
  simp only at h
  cases hn : nodeOfKey cv (Gen.markerKey cp u.slotTag) with
  | none => rw [hn] at h; cases h
  | some n => exact ⟨n, hn⟩

/-- **Sent ⇒ the RECEIVING node sees one slot, or it applies nothing.** The block
    goes to the owner of the unit's slot — in general a node that neither the
    builder's iteration settled on nor any Put consulted, and which may name
    other keys for a command outside the tables. That node checks the block
    itself (`nodeBlockOk`: trusted transcription of Redis Cluster's
    getNodeByQuery over MULTI … EXEC): either every key IT extracts from every
    queued command hashes to the unit's slot and it applies the whole block, or
    it refuses at queue time, EXEC aborts and NOTHING is applied (the commit
    then fails: `validateBisyncExecReplies`, the replay stops — loop monitors).
    Never a part of the unit, never a key on another slot. -/
theorem sent_receiver_single_slot_or_nothing_applied (ans : NodeAns) (nodes picks : List Nat)
    (owner : Nat → Option Nat) (anyNode : Option Nat) (cp : Bytes) (k : CommitKind) (p : Payload) (cmds w : List Cmd)
    (hcp : lbrace ∉ cp) (h : replayUnitN ans nodes picks owner anyNode cp k p cmds = some w) :
    ∃ u body n, buildUnit clusterMode (resolverWith (builderFb ans nodes)) cmds = .ok u ∧
      w = ⟨wMulti, []⟩ :: body ++ [⟨wExec, []⟩] ∧ owner u.slot = some n ∧
      (nodeApplies ans owner n body = [] ∨
        (nodeApplies ans owner n body = body ∧ ∀ key ∈ nodeKeys ans n body, hashSlotSpec key = u.slot)) := by
  obtain ⟨u, hu, hslot, hall, _, body, hw, hhead, _⟩ :=
    divergent_getkeys_single_slot ans nodes picks owner anyNode cp k p cmds w hcp h
  have hmk : hashSlotSpec (Gen.markerKey cp u.slotTag) = u.slot :=
    hall _ (List.mem_append.mpr (Or.inr (by cases k <;> simp [controlKeys])))
  -- the owner of the unit's slot
  have hown : ∃ n, owner u.slot = some n := by
    unfold replayUnitN at h
    rw [hu] at h
    simp only at h
    unfold wireN at h
    cases ht : txnPutAllN owner ans anyNode {} (assignPicks (commitCmds cp k u p) picks) with
    | error e => rw [ht] at h; cases h
    | ok t =>
      obtain ⟨rest, hcc⟩ : ∃ rest, commitCmds cp k u p = markerCmd cp u p :: rest := by
        cases k <;> exact ⟨_, rfl⟩
      have hap : ∃ n0 tl, assignPicks (commitCmds cp k u p) picks = (markerCmd cp u p, n0) :: tl := by
        rw [hcc]; unfold assignPicks; split <;> exact ⟨_, _, rfl⟩
      obtain ⟨n0, tl, hap⟩ := hap
      rw [hap] at ht
      simp only [txnPutAllN] at ht
      cases h1 : txnPut ⟨owner, ans n0⟩ anyNode {} (markerCmd cp u p) with
      | error e => rw [h1] at ht; cases ht
      | ok t1 =>
        obtain ⟨n, hn⟩ := markerPut_owner ⟨owner, ans n0⟩ anyNode cp u p t1 h1
        simp only at hn
        rw [C11.clusterHash_eq_spec, hmk] at hn
        exact ⟨n, hn⟩
  obtain ⟨n, hn⟩ := hown
  refine ⟨u, body, n, hu, hw, hn, ?_⟩
  unfold nodeApplies
  cases hok : nodeBlockOk ans owner n body with
  | false => left; rfl
  | true =>
    right
    refine ⟨rfl, ?_⟩
    -- the marker is in the block and the node reads its key from the static tables
    have hmem : markerCmd cp u p ∈ body := by
      cases body with
      | nil => cases hhead
      | cons b bs => simp only [List.head?_cons, Option.some.injEq] at hhead; rw [hhead]; simp
    have hsees : nodeSees ans n (markerCmd cp u p) = .keys [Gen.markerKey cp u.slotTag] := by
      unfold nodeSees
      have : commandKeys (markerCmd cp u p).name (markerCmd cp u p).args = some [Gen.markerKey cp u.slotTag] := set_keys _ _
      rw [this]
    have hmkk : Gen.markerKey cp u.slotTag ∈ nodeKeys ans n body := by
      unfold nodeKeys
      exact List.mem_flatMap.mpr ⟨_, hmem, by rw [hsees]; simp⟩
    unfold nodeBlockOk at hok
    rw [Bool.and_eq_true] at hok
    obtain ⟨_, hk⟩ := hok
    cases hks : nodeKeys ans n body with
    | nil => rw [hks] at hmkk; cases hmkk
    | cons k0 ks0 =>
      rw [hks] at hk hmkk
      simp only [Bool.and_eq_true, List.all_eq_true, beq_iff_eq] at hk
      obtain ⟨hsame, _⟩ := hk
      have hall0 : ∀ key ∈ k0 :: ks0, clusterHash key = clusterHash k0 := by
        intro key hkey
        rcases List.mem_cons.mp hkey with rfl | hkey
        · rfl
        · exact hsame key hkey
      have h0 : clusterHash k0 = u.slot := by
        rw [← hall0 _ hmkk, C11.clusterHash_eq_spec, hmk]
      intro key hkey
      rw [← C11.clusterHash_eq_spec, hall0 key hkey, h0]

-- the example of the file head: `foo x{a} y{b}`, builder and client consult node 0 (first argument only); the
-- block goes to node 2, which names BOTH arguments (slots 15495 and 3300): it applies nothing
example : (replayUnitN twoViewsR [0, 1, 2] [0] own3R (some 0) [99,112] .latest ⟨[], [], 1⟩ [cFooABR]).map
    (fun w => nodeApplies twoViewsR own3R 2 (w.drop 1).dropLast) = some [] := by decide +kernel
-- … and when node 2 too names the first argument only, it applies the whole block of three commands
example : (replayUnitN (fun _ _ args => .keys (args.take 1)) [0, 1, 2] [0] own3R (some 0) [99,112] .latest ⟨[], [], 1⟩ [cFooABR]).map
    (fun w => (nodeApplies (fun _ _ args => .keys (args.take 1)) own3R 2 (w.drop 1).dropLast).length) = some 3 := by decide +kernel

/-- **Refusal comes before anything is on the wire**, diverging nodes included:
    the builder refusing (its iteration found no keys for a command, met only
    errors, or the keys it was told span slots) or the client refusing a Put
    (the node it asked named no keys, failed, or named keys on another slot)
    each make the replay of the unit send nothing at all. -/
theorem divergent_refusal_sends_nothing (ans : NodeAns) (nodes picks : List Nat) (owner : Nat → Option Nat)
    (anyNode : Option Nat) (cp : Bytes) (k : CommitKind) (p : Payload) (cmds : List Cmd)
    (h : (∃ e, buildUnit clusterMode (resolverWith (builderFb ans nodes)) cmds = .error e) ∨
      (∃ u e, buildUnit clusterMode (resolverWith (builderFb ans nodes)) cmds = .ok u ∧
        txnPutAllN owner ans anyNode {} (assignPicks (commitCmds cp k u p) picks) = .error e)) :
    replayUnitN ans nodes picks owner anyNode cp k p cmds = none := by
  unfold replayUnitN
  rcases h with ⟨e, he⟩ | ⟨u, e, hu, he⟩
  · rw [he]
  · rw [hu]
    simp only
    unfold wireN
    rw [he]

/-- the key list a node names for a command the static tables do not resolve -/
def Names (ans : NodeAns) (n : Nat) (c : Cmd) (ks : List Bytes) : Prop :=
  commandKeys c.name c.args = none ∧ ans n c.name c.args = .keys ks ∧ ks ≠ []

/-- nodes that name keys for a command name THE SAME keys (a healthy cluster of
    one Redis version: errors and silence may differ from node to node — a node
    down, loading, an empty reply — key positions do not) -/
def Consistent (ans : NodeAns) : Prop :=
  ∀ n m c ks ks', Names ans n c ks → Names ans m c ks' → ks = ks'

/-- **With consistent nodes, sent ⇒ single-slot as EVERY answering node sees
    it** — in particular the node that receives the block. For each business
    command of a unit that went on the wire and every node `m` that names keys
    for it, those keys hash to the unit's slot. -/
theorem consistent_nodes_every_view_single_slot (ans : NodeAns) (hcons : Consistent ans) (nodes picks : List Nat)
    (owner : Nat → Option Nat) (anyNode : Option Nat) (cp : Bytes) (k : CommitKind) (p : Payload) (cmds w : List Cmd)
    (hcp : lbrace ∉ cp) (h : replayUnitN ans nodes picks owner anyNode cp k p cmds = some w) :
    ∃ u, buildUnit clusterMode (resolverWith (builderFb ans nodes)) cmds = .ok u ∧
      ∀ c ∈ u.cmds, ∀ m ks, Names ans m c ks → ∀ key ∈ ks, hashSlotSpec key = u.slot := by
  obtain ⟨u, hu, _, hall, _, _⟩ := divergent_getkeys_single_slot ans nodes picks owner anyNode cp k p cmds w hcp h
  refine ⟨u, hu, ?_⟩
  intro c hc m ks ⟨hnone, hans, hne⟩ key hkey
  obtain ⟨_, hrt, _, _, hcmds⟩ := (buildUnit_cluster_iff _ cmds u).mp hu
  -- the builder resolved `c` through its iteration: some visited node named keys, the same ones
  obtain ⟨bks, hb, hbne⟩ := hrt c (by rw [← hcmds]; exact hc)
  have hfb : builderFb ans nodes c.name c.args = .keys bks := by
    unfold resolverWith at hb
    rw [hnone] at hb
    simp only at hb
    cases hf : builderFb ans nodes c.name c.args with
    | err => rw [hf] at hb; cases hb
    | none => rw [hf] at hb; cases hb
    | keys xs =>
      rw [hf] at hb
      simp only at hb
      split at hb
      · cases hb
      · injection hb with hb; rw [hb]
  obtain ⟨n, _, hn, hnne⟩ := builderFb_keys ans nodes c.name c.args bks hfb
  have heq : bks = ks := hcons n m c bks ks ⟨hnone, hn, hnne⟩ ⟨hnone, hans, hne⟩
  apply hall
  apply List.mem_append.mpr
  left
  rw [unitKeys_eq]
  exact List.mem_flatMap.mpr ⟨c, hc, by rw [resolvedKeys_of_ok hb, heq]; exact hkey⟩

/-- **Uniform nodes: nothing changes.** When every node of a non-empty node list
    answers like `f`, the builder's iteration resolves exactly like the single
    fall-back `f` of the agreement theorems (`client_revalidation_agrees'`,
    `committed_txn_accepted`, `same_slot_replayed` then apply): diverging
    answers can only add refusals, a healthy cluster is never refused more. -/
theorem uniform_nodes_same_as_single (ans : NodeAns) (nodes : List Nat) (hne : nodes ≠ [])
    (f : Bytes → List Bytes → Fb) (hu : ∀ n ∈ nodes, ∀ cmd args, ans n cmd args = f cmd args) (cmds : List Cmd) :
    buildUnit clusterMode (resolverWith (builderFb ans nodes)) cmds = buildUnit clusterMode (resolverWith f) cmds := by
  apply buildUnit_congr
  intro c _
  unfold resolverWith
  cases commandKeys c.name c.args with
  | some ks => rfl
  | none =>
    simp only
    rw [builderFb_uniform ans nodes hne c.name c.args (f c.name c.args) (fun n hn => hu n hn c.name c.args)]
    cases f c.name c.args with
    | err => rfl
    | none => rfl
    | keys ks =>
      unfold normFb
      cases hk : ks.isEmpty <;> simp [hk]

/-- errors do not stop the builder while another node answers: a node that
    fails (down, LOADING) BEFORE a node that names keys is passed over -/
example : builderFb (fun n _ args => if n = 0 then .err else .keys (args.take 1)) [0, 1] [102] [[120]] = .keys [[120]] := by
  decide
/-- … only when no node names keys is the error reported (and the unit refused) -/
example : builderFb (fun n _ _ => if n = 0 then .err else .none) [1, 0] [102] [[120]] = .err := by decide

-- two nodes disagreeing about `foo x{a} y{b}`: node 0 names the first argument, node 1 both. Builder visiting
-- node 0 first accepts; the client asking node 1 refuses (cross-slot): nothing is sent. Asking node 0 it is sent,
-- and the keys it named are on the unit's slot.
private def twoViews : NodeAns := fun n _ args => if n = 0 then .keys (args.take 1) else .keys args
private def cFooAB : Cmd := ⟨[102,111,111], [[120,123,97,125], [121,123,98,125]]⟩
private def own3 : Nat → Option Nat := fun s => if s < 16384 then some (s / 5462) else none
example : replayUnitN twoViews [0, 1] [1] own3 (some 0) [99,112] .latest ⟨[], [], 1⟩ [cFooAB] = none := by decide +kernel
example : (replayUnitN twoViews [0, 1] [0] own3 (some 0) [99,112] .latest ⟨[], [], 1⟩ [cFooAB]).isSome = true := by
  decide +kernel
example : (replayUnitN twoViews [1, 0] [0] own3 (some 0) [99,112] .latest ⟨[], [], 1⟩ [cFooAB]) = none := by
  decide +kernel
example : ¬ Consistent twoViews := by
  intro h
  have := h 0 1 cFooAB [[120,123,97,125]] [[120,123,97,125], [121,123,98,125]]
    ⟨by decide +kernel, by decide, by decide⟩ ⟨by decide +kernel, by decide, by decide⟩
  revert this; decide

-- nodes that all name the first argument, one of them failing: consistent (errors and silence may differ)
example : Consistent (fun n _ args => if n = 2 then .err else .keys (args.take 1)) := by
  intro n m c ks ks' ⟨_, h1, _⟩ ⟨_, h2, _⟩
  by_cases hn : n = 2
  · simp [hn] at h1
  · by_cases hm : m = 2
    · simp [hm] at h2
    · simp only [hn, hm, ↓reduceIte] at h1 h2
      injection h1 with h1
      injection h2 with h2
      rw [← h1, ← h2]
-- uniform nodes: the iteration equals the single fall-back on a concrete transaction
example : buildUnit clusterMode (resolverWith (builderFb (fun _ _ args => .keys (args.take 1)) [2, 0, 1])) [cFooAB] =
    buildUnit clusterMode (resolverWith (fun _ args => .keys (args.take 1))) [cFooAB] :=
  uniform_nodes_same_as_single (fun _ _ args => .keys (args.take 1)) [2, 0, 1] (by simp)
    (fun _ args => .keys (args.take 1)) (fun _ _ _ _ => rfl) [cFooAB]

-- `consistent_nodes_every_view_single_slot` on a unit that WAS sent and whose command needs COMMAND GETKEYS: nodes 0 and
-- 1 name the first argument, node 2 fails; `foo x{a}` is built (node 2 visited first, passed over), put (node 0 asked),
-- sent; every answering node's view of it is on the unit's slot
private def consAns : NodeAns := fun n _ args => if n = 2 then .err else .keys (args.take 1)
private theorem consAns_consistent : Consistent consAns := by
  intro n m c ks ks' ⟨_, h1, _⟩ ⟨_, h2, _⟩
  unfold consAns at h1 h2
  by_cases hn : n = 2
  · simp [hn] at h1
  · by_cases hm : m = 2
    · simp [hm] at h2
    · simp only [hn, hm, ↓reduceIte] at h1 h2
      injection h1 with h1
      injection h2 with h2
      rw [← h1, ← h2]
private def cFooA : Cmd := ⟨[102,111,111], [[120,123,97,125]]⟩
example : (replayUnitN consAns [2, 0, 1] [0] own3R (some 0) [99,112] .latest ⟨[], [], 1⟩ [cFooA]).isSome = true := by decide +kernel
example (w : List Cmd) (h : replayUnitN consAns [2, 0, 1] [0] own3R (some 0) [99,112] .latest ⟨[], [], 1⟩ [cFooA] = some w) :
    ∃ u, buildUnit clusterMode (resolverWith (builderFb consAns [2, 0, 1])) [cFooA] = .ok u ∧
      ∀ c ∈ u.cmds, ∀ m ks, Names consAns m c ks → ∀ key ∈ ks, hashSlotSpec key = u.slot :=
  consistent_nodes_every_view_single_slot consAns consAns_consistent [2, 0, 1] [0] own3R (some 0) [99,112] .latest ⟨[], [], 1⟩
    [cFooA] w (by decide) h

/-! ### `Cluster.transactionEnable` -/

/-- **The bidirectional path never sets the cluster's transaction flag.** The
    flag is set only by putting a literal MULTI (source fact
    `c18_txn_enable_sites`). The commit transaction of a unit whose business
    commands are neither MULTI nor EXEC — units come from the parser, which
    consumes both (`GunYu.Props.C13.emitted_units_safe`), or from the snapshot
    object parsers — consists of such commands only (SET marker, the business
    commands, HSET record, ZADD index: source fact `c18_unit_put_names`); put
    through the batcher WITH the flag modelled, starting clear, the sequence
    behaves exactly like the flag-less model the other theorems use, and the
    flag is clear afterwards. -/
theorem txn_flag_never_set (cv : ClusterView) (anyNode : Option Nat) (cp : Bytes) (k : CommitKind) (u : RUnit)
    (p : Payload) (hu : ∀ c ∈ u.cmds, NotBracket c) :
    (∀ c ∈ commitCmds cp k u p, NotBracket c) ∧
    txnPutAllF cv anyNode {} {} (commitCmds cp k u p) = (txnPutAll cv anyNode {} (commitCmds cp k u p), {}) := by
  have hall : ∀ c ∈ commitCmds cp k u p, NotBracket c := by
    intro c hc
    have hs : NotBracket ⟨wSet, [Gen.markerKey cp u.slotTag, p.markerValue, wPx, natToDec Gen.bisyncMarkerTTLms]⟩ :=
      ⟨by show upperName wSet ≠ uMulti; decide +kernel, by show upperName wSet ≠ uExec; decide +kernel⟩
    have hh : ∀ args, NotBracket ⟨wHset, args⟩ :=
      fun _ => ⟨by show upperName wHset ≠ uMulti; decide +kernel, by show upperName wHset ≠ uExec; decide +kernel⟩
    have hz : ∀ args, NotBracket ⟨wZadd, args⟩ :=
      fun _ => ⟨by show upperName wZadd ≠ uMulti; decide +kernel, by show upperName wZadd ≠ uExec; decide +kernel⟩
    cases k <;>
      simp only [commitCmds, markerCmd, List.mem_cons, List.mem_append, List.not_mem_nil, or_false] at hc
    · rcases hc with (rfl | hc) | rfl
      · exact hs
      · exact hu c hc
      · exact hh _
    · rcases hc with (rfl | hc) | rfl | rfl
      · exact hs
      · exact hu c hc
      · exact hh _
      · exact hz _
    · rcases hc with rfl | hc
      · exact hs
      · exact hu c hc
  exact ⟨hall, txnPutAllF_clear cv anyNode _ {} hall⟩

-- the flag matters only for a literal MULTI: with it set, a second key on another NODE is refused by the
-- cluster-level pin (the batcher's own slot check refuses it as well)
example : ((txnPutAllF { owner := own3, getKeys := fun _ _ => .none } (some 0) {} {}
    [⟨[77,85,76,84,73], []⟩, ⟨[115,101,116], [[97], [118]]⟩]).2.enable,
    (txnPutAllF { owner := own3, getKeys := fun _ _ => .none } (some 0) {} {}
    [⟨[77,85,76,84,73], []⟩, ⟨[115,101,116], [[97], [118]]⟩]).2.node) = (true, some 2) := by decide +kernel
example : NotBracket ⟨[115,101,116], [[97], [118]]⟩ := ⟨by decide +kernel, by decide +kernel⟩
-- `txn_flag_never_set` on a concrete unit (`set a v`, journal commit): the flagged Put sequence ends with the flag clear
example : (txnPutAllF { owner := own3, getKeys := fun _ _ => .none } (some 0) {} {}
    (commitCmds [99,112] .journal ⟨15495, slotTag 15495, [⟨[115,101,116], [[97], [118]]⟩]⟩ ⟨[], [], 1⟩)).2 = {} := by
  rw [(txn_flag_never_set _ (some 0) [99,112] .journal ⟨15495, slotTag 15495, [⟨[115,101,116], [[97], [118]]⟩]⟩ ⟨[], [], 1⟩
    (by intro c hc; rw [List.mem_singleton.mp hc]; exact ⟨by decide +kernel, by decide +kernel⟩)).2]

end GunYu.Props.C18
