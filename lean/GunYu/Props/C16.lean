/-
  C16 — A follower's cache is a faithful copy of the leader's stream.

  Property theorems only (model: Model/Replica.lean, helper lemmas: Proofs/Replica.lean).

  Quantifier: all pairs of leader and follower cache states (any `Leader`, any
  well-formed follower `Store`: empty, prefix, equal, ahead, other id, position already
  collected at the leader are all instances), snapshot and log transfers of any chunking
  (`ch : List Nat`), interruption at any message (`cut : Nat`, with any number `lost` of
  received-but-unwritten bytes dropped), any number of metaSync rounds (`fuel`), and any
  sequence of such sessions against changing leaders.

  "Faithful" is relative to an arbitrary history `h : Hist β` (for every run id a byte at
  every offset and a snapshot at every offset). NO relation between the histories of two
  run ids is assumed, so the theorems say that the follower never keeps bytes of one id
  under another one. (With a PSYNC2 fail-over, history `new` agrees with history `old`
  below the switch offset; keeping the old bytes below that offset under the new id
  would then also be faithful — `relabel_faithful_iff_join` — but neither the follower
  nor the protocol knows the switch offset, so the repaired code discards; the property
  demands faithfulness, which discarding always satisfies.)
-/
import GunYu.Model.Replica
import GunYu.Proofs.Replica

namespace GunYu.Props.C16
open GunYu GunYu.Replica

/-- **follower_prefix_of_leader** (invariant, one session, any interruption point).
    If the leader's cache is a copy of history and everything the follower holds under
    run id `id` is a copy of history `id`, then after a session cut after ANY number of
    messages, with ANY chunking, the same holds — for every id separately, so bytes never
    move from one id to another — and the store stays well formed. -/
theorem follower_prefix_of_leader {β : Type} (h : Hist β) (bk : Backend) (L : Leader β)
    (F : Store β) (ch : List Nat) (cut lost fuel : Nat)
    (hL : L.Faithful h) (hq : L.cur ≠ "?") (hwf : WF bk F) (id : Id)
    (hF : FaithfulAt h F.dirs id) :
    FaithfulAt h (session bk L F ch cut lost fuel).store.dirs id ∧
      WF bk (session bk L F ch cut lost fuel).store :=
  (session_ok bk L F ch cut lost fuel id hL hq hwf hF).symm

/-- one follower session as a state transformer -/
def run {β : Type} (bk : Backend) (F : Store β) (r : Leader β × List Nat × Nat × Nat × Nat) : Store β :=
  (session bk r.1 F r.2.1 r.2.2.1 r.2.2.2.1 r.2.2.2.2).store

/-- **follower_prefix_of_leader**, any sequence of sessions: the follower retries against
    leaders in arbitrary (faithful) states — grown, collected, re-snapshotted, under
    another run id — each session interrupted anywhere. Whatever it stores under any id
    is byte-identical to history at the same offsets. -/
theorem follower_prefix_of_leader_runs {β : Type} (h : Hist β) (bk : Backend)
    (runs : List (Leader β × List Nat × Nat × Nat × Nat)) (F : Store β)
    (hL : ∀ r ∈ runs, r.1.Faithful h ∧ r.1.cur ≠ "?") (hwf : WF bk F)
    (hF : ∀ id, FaithfulAt h F.dirs id) :
    (∀ id, FaithfulAt h (runs.foldl (run bk) F).dirs id) ∧ WF bk (runs.foldl (run bk) F) := by
  induction runs generalizing F with
  | nil => exact ⟨hF, hwf⟩
  | cons r rs ih =>
    have hr := hL r (List.mem_cons_self ..)
    simp only [List.foldl_cons]
    apply ih
    · intro r' hr'; exact hL r' (List.mem_cons_of_mem _ hr')
    · exact (follower_prefix_of_leader h bk r.1 F _ _ _ _ hr.1 hr.2 hwf "" (hF "")).2
    · intro id; exact (follower_prefix_of_leader h bk r.1 F _ _ _ _ hr.1 hr.2 hwf id (hF id)).1

/-- the stream bytes of a faithful cache, spelled out: the byte stored at offset `o` of
    run id `id` is history's byte at `(id, o)`; stored bytes are one contiguous range
    `[base, base + n)` of one id (this is what `Data` is). -/
theorem faithful_bytes {β : Type} (h : Hist β) (id : Id) (d : Data β) (hd : d.Faithful h id)
    (i : Nat) (hi : i < d.bytes.length) : d.bytes[i] = h.byte id (d.base + i) := by
  have := hd.1
  have e : d.bytes[i] = (hseg h id d.base d.bytes.length)[i]'(by simpa using hi) := by
    congr 1
  rw [e]
  simp [hseg]

/-- **contiguous**: the follower never opens its stream writer anywhere but at the end of
    the data it holds (or on an empty cache) — for ANY leader state, faithful or not; the
    sentinel outcome `discont`, which stands for overlapping / disjoint segments on disk
    and for the memory backend's refusal, is unreachable. -/
theorem follower_contiguous {β : Type} (bk : Backend) (L : Leader β) (F : Store β)
    (ch : List Nat) (cut lost fuel : Nat) (hq : L.cur ≠ "?") (hwf : WF bk F) :
    (session bk L F ch cut lost fuel).cls ≠ .discont :=
  session_nodiscont bk L F ch cut lost fuel hq hwf

/-- **unjoinable_discards**: the follower's current copy belongs to run id `y`, the leader
    announces another id `x` for which the follower holds nothing. `preSync` then leaves
    no directory `y`, an empty cache under `x`, and asks for the leader's offset — the
    old bytes are discarded, not kept under the new id. -/
theorem unjoinable_discards {β : Type} (bk : Backend) (F : Store β) (x y : Id) (loff : Int)
    (hx1 : x ≠ "") (hx2 : x ≠ "?") (hy : y = F.cur) (hy0 : y ≠ "") (hyx : y ≠ x)
    (hwf : WF bk F) (hnox : getD F.dirs x = none) :
    (preSync bk F x loff).1.cur = x ∧ (preSync bk F x loff).1.curData = none ∧
      getD (preSync bk F x loff).1.dirs y = none ∧ (preSync bk F x loff).2 = (x, loff) := by
  have hsp := special_false hx1 hx2
  subst hy
  have hc : (F.cur ≠ "" && F.cur ≠ x) = true := by simp [hy0, hyx]
  cases bk with
  | disk =>
    obtain ⟨hcur, hq⟩ := hwf
    have hhc : F.has F.cur = true := hcur.resolve_left hy0
    have hg : F.get x = none := hnox
    have hst : startPoint .disk F x = (F, (F.cur, 0)) := by
      simp only [startPoint, hsp, Bool.false_eq_true, if_false, hg, hy0]
    have hnx : Store.has (⟨"", dropKey F.dirs F.cur⟩ : Store β) x = false := by
      rw [has_false_iff]
      simp only
      rw [getD_dropKey_ne _ (Ne.symm hyx)]
      exact hnox
    have hadopt : adopt .disk F x = ⟨x, dropKey F.dirs F.cur ++ [(x, none)]⟩ := by
      unfold adopt
      rw [hc]
      simp only [if_true]
      rw [delRunId_disk_has (special_false hy0 hq) hhc, setRunId_disk_nocur rfl,
        newRunIdDisk_new hsp hnx]
    have hpre : preSync .disk F x loff = (⟨x, dropKey F.dirs F.cur ++ [(x, none)]⟩, (x, loff)) := by
      unfold preSync
      simp only [hst, hyx, ne_eq, not_false_eq_true, decide_true, Bool.or_true, if_true, hadopt]
    rw [hpre]
    have hgx : getD (dropKey F.dirs F.cur ++ [(x, none)]) x = some none :=
      getD_append_none _ _ (by rw [getD_dropKey_ne _ (Ne.symm hyx)]; exact hnox)
    refine ⟨rfl, curData_none_of_get (Or.inr hgx), ?_, rfl⟩
    rw [getD_none]
    intro p hp
    simp only [List.mem_append, List.mem_singleton] at hp
    rcases hp with hp | rfl
    · exact (mem_dropKey.mp hp).2
    · exact Ne.symm hyx
  | mem =>
    have hne : ¬ (x = F.cur) := fun e => hyx e.symm
    have hst : startPoint .mem F x = (F, ("?", -1)) := by
      simp only [startPoint, hsp, hne, Bool.not_false, decide_false, Bool.and_false,
        Bool.false_eq_true, if_false]
    have hadopt : adopt .mem F x = ⟨x, []⟩ := by
      unfold adopt
      rw [hc]
      simp only [if_true]
      rw [delRunId_mem_cur]
      simp [setRunId]
    have hpre : preSync .mem F x loff = (⟨x, []⟩, (x, loff)) := by
      unfold preSync
      simp only [hst, decide_true, Bool.true_or, if_true, hadopt]
    rw [hpre]
    exact ⟨rfl, by simp [Store.curData, Store.get, getD], by simp [getD], rfl⟩

/-- keeping bytes under another id is faithful exactly when the two histories agree on
    the kept range (the PSYNC2 fail-over prefix) — which no history-independent rule can
    know -/
theorem relabel_faithful_iff_join {β : Type} (h : Hist β) (old new : Id) (d : Data β)
    (hsn : d.snap = none) (hd : d.Faithful h old) :
    d.Faithful h new ↔ hseg h old d.base d.bytes.length = hseg h new d.base d.bytes.length := by
  constructor
  · intro hn; rw [← hd.1, ← hn.1]
  · intro he; exact ⟨by rw [← he]; exact hd.1, fun s hs => by rw [hsn] at hs; cases hs⟩

/-- **ahead_gets_handover**: same run id, the follower holds more than the leader. The
    second message of the session is `HANDOVER`, the follower reports "take over
    leadership" and its cache is untouched. -/
theorem ahead_gets_handover {β : Type} (bk : Backend) (L : Leader β) (F : Store β)
    (ch : List Nat) (cut lost fuel : Nat) (x : Id) (tl : List Id) (d : Data β)
    (hs : L.started = true) (hi : L.inputIds = x :: tl) (hc : L.cur = x)
    (hx1 : x ≠ "") (hx2 : x ≠ "?") (hwf : WF bk F)
    (hF : F.get x = some (some d)) (hm : bk = .mem → F.cur = x)
    (hahead : (d.right : Int) > latest L.data) (hcut : 2 ≤ cut) (hfuel : 1 ≤ fuel) :
    (session bk L F ch cut lost fuel).cls = .takeover ∧
      (session bk L F ch cut lost fuel).stage = .msync ∧
      (session bk L F ch cut lost fuel).store.dirs = F.dirs ∧
      (session bk L F ch cut lost fuel).store.cur = x ∧
      (session bk L F ch cut lost fuel).trace.map (·.code) = [.info, .handover] := by
  obtain ⟨c, rfl⟩ : ∃ c, cut = c + 2 := ⟨cut - 2, by omega⟩
  obtain ⟨f, rfl⟩ : ∃ f, fuel = f + 1 := ⟨fuel - 1, by omega⟩
  have hsp := special_false hx1 hx2
  have hhx : F.has x = true := by simp [Store.has, hF]
  -- handshake
  have hh : L.handle "" 0 ch = ⟨[⟨.info, x, false, latest L.data, 0, []⟩], .eof, ch⟩ := by
    simp [Leader.handle, hs, hi, hc]
  -- preSync: the follower's own end offset is kept
  have hpre : preSync bk F x (latest L.data) = (⟨x, F.dirs⟩, (x, (d.right : Int))) := by
    have hst : startPoint bk F x = (⟨x, F.dirs⟩, (x, (d.right : Int))) := by
      cases bk with
      | disk =>
        simp only [startPoint, hsp, Bool.false_eq_true, if_false, hF]
        have : ¬ latest (some d) < 0 := by simp only [latest]; omega
        rw [if_neg this, setRunId_disk_has hsp hhx]
        rfl
      | mem =>
        have hcx := hm rfl
        have hcd : F.curData = some d := by simp [Store.curData, hcx, hF]
        simp only [startPoint, hsp, hcx, Bool.not_false, Bool.true_and, decide_true, if_true, hcd, latest]
        rw [← hcx]
    unfold preSync
    simp only [hst, hx1, hx2, decide_false, Bool.false_or, ne_eq, not_true_eq_false,
      Bool.false_eq_true, if_false]
    have : ¬ latest L.data - (d.right : Int) > 0 := by omega
    rw [if_neg this]
  -- metaSync: HANDOVER
  have hh2 : L.handle x (d.right : Int) ch = ⟨[⟨.handover, x, false, latest L.data, 0, []⟩], .err, ch⟩ := by
    have : ((x = "") || (x = "?")) = false := by simp [hx1, hx2]
    simp [Leader.handle, hs, hi, hc, this, hahead]
  simp only [session, hh, respErr, Out.pre, hx1, if_false, hpre, syncLoop, hh2]
  simp

/-! ### non-vacuity: concrete states meet the hypotheses and show the behaviours -/

section examples

/-- history A: byte at offset o is o, snapshot at o is [o, o]; history B: o + 500 -/
def hEx : Hist Nat where
  byte := fun id o => if id = "idA" then o else o + 500
  snap := fun id o => if id = "idA" then [o, o] else [o + 500]

def lEx : Leader Nat := ⟨true, ["idA"], "idA", some ⟨10, [10, 11, 12, 13, 14], some [10, 10]⟩, true, []⟩
/-- the same leader receiving two more bytes while its stream reader is open -/
def lGrow : Leader Nat := { lEx with tail := [15, 16] }
/-- the follower process was following run id B (bytes 8..15 of B) -/
def fOther : Store Nat := ⟨"idB", [("idB", some ⟨8, [508, 509, 510, 511, 512, 513, 514, 515], none⟩)]⟩
def fPrefix : Store Nat := ⟨"idA", [("idA", some ⟨9, [9, 10, 11], none⟩)]⟩
def fAhead : Store Nat := ⟨"idA", [("idA", some ⟨9, [9, 10, 11, 12, 13, 14, 15, 16], none⟩)]⟩
def fOld : Store Nat := ⟨"idA", [("idA", some ⟨2, [2, 3], none⟩)]⟩

example : lEx.Faithful hEx := by
  intro d hd; cases hd
  exact ⟨⟨by decide, fun s hs => by cases hs; decide⟩, by decide⟩
example : lGrow.Faithful hEx := by
  intro d hd; cases hd
  exact ⟨⟨by decide, fun s hs => by cases hs; decide⟩, by decide⟩
example : WF .disk fOther ∧ WF .mem fOther ∧ WF .disk fPrefix ∧ WF .mem fAhead := by
  refine ⟨⟨Or.inr (by decide), by decide⟩, ⟨by decide, by decide, by decide⟩,
    ⟨Or.inr (by decide), by decide⟩, ⟨by decide, by decide, by decide⟩⟩
example : FaithfulAt hEx fOther.dirs "idB" := by
  intro d hd
  simp only [fOther, List.mem_singleton, Prod.mk.injEq, Option.some.injEq, true_and] at hd
  subst hd
  exact ⟨by decide, fun s hs => by cases hs⟩

-- other id: the old copy is discarded, the leader's stream is fetched from its end
example : (session .disk lEx fOther [] 10 0 3).store.dirs = [("idA", none)] := by decide
example : (session .mem lEx fOther [] 10 0 3).store.dirs = [] ∧ (session .mem lEx fOther [] 10 0 3).store.cur = "idA" := by decide
-- prefix: continues at its own end; cut after every message keeps a prefix
example : (session .disk lEx fPrefix [1, 2] 10 0 3).store.dirs = [("idA", some ⟨9, [9, 10, 11, 12, 13, 14], none⟩)] := by decide
example : (session .disk lEx fPrefix [1, 2] 3 0 3).store.dirs = [("idA", some ⟨9, [9, 10, 11, 12], none⟩)] := by decide
example : (session .disk lEx fPrefix [1, 2] 4 1 3).store.dirs = [("idA", some ⟨9, [9, 10, 11, 12, 13], none⟩)] := by decide
-- a live leader: the bytes appended during the session arrive too
example : (session .disk lGrow fPrefix [] 10 0 3).store.dirs = [("idA", some ⟨9, [9, 10, 11, 12, 13, 14, 15, 16], none⟩)] := by decide
-- position below the leader's first offset: the snapshot is taken, then the stream
example : (session .disk lEx fOld [] 10 0 3).store.dirs = [("idA", some ⟨10, [10, 11, 12, 13, 14], some [10, 10]⟩)] := by decide
-- … and an interrupted snapshot transfer leaves nothing
example : (session .mem lEx fOld [1] 3 0 3).store.dirs = [("idA", none)] := by decide
-- ahead: HANDOVER, cache untouched
example : (session .disk lEx fAhead [] 10 0 3).cls = .takeover ∧ (session .disk lEx fAhead [] 10 0 3).store.dirs = fAhead.dirs := by decide
-- the unrepaired relabelling would not be faithful: B's bytes are not A's
example : ¬ (⟨8, [508, 509], none⟩ : Data Nat).Faithful hEx "idA" := by
  intro h; have := h.1; revert this; decide

end examples

end GunYu.Props.C16
