/-
  C16 — A follower's cache is a faithful copy of the leader's stream.

  Property theorems only (model: Model/Replica.lean, helper lemmas: Proofs/Replica.lean).

  Quantifier: all pairs of leader and follower cache states (any `Leader`, any
  well-formed follower `Store`: empty, prefix, equal, ahead, other id, position already
  collected at the leader are all instances), snapshot and log transfers of any chunking
  (`ch : List Nat`), interruption at any message (`cut : Nat`, with any `lost : Loss`:
  received-but-unwritten bytes dropped, a failing file write after any number of bytes), any number of metaSync rounds (`fuel`), and any
  sequence of such sessions against changing leaders.

  "Faithful" is relative to an arbitrary history `h : Hist β` (for every run id a byte at
  every offset and a snapshot at every offset). NO relation between the histories of two
  run ids is assumed, so the theorems say that the follower never keeps bytes of one id
  under another one. (With a PSYNC2 fail-over, history `new` agrees with history `old`
  below the switch offset; keeping the old bytes below that offset under the new id
  would then also be faithful — `relabel_faithful_iff_join` — but neither the follower
  nor the protocol knows the switch offset, so the repaired code discards; the property
  demands faithfulness, which discarding always satisfies.)

  Consequence to keep in mind: at every fail-over of the source the leader relabels its
  cache while every follower deletes its whole copy and restarts at the leader's newest
  offset without a snapshot; HANDOVER is not reachable across a fail-over, and an ahead
  follower that meets a leader whose input has already moved on gets CLEAR and deletes
  (`clear_deletes_any`).

  Hypothesis `hq : (V 0).l2b.cur ≠ "?"` of the session theorems (the leader's channel run id is
  never the literal "?") is discharged in Props/C16Id.lean (`follower_prefix_of_leader_src`:
  disk leader unconditionally, memory leader unless the source itself reports "?").
  `lost : Loss` carries, besides the bytes lost in the pipe, a write fault / failing commit of
  the follower's own store (Props/C16Fault.lean); open readers: Props/C16Reader.lean; restart
  from a crash image: Props/C16Restart.lean; promotion (C06's CacheOK): Props/C16Promote.lean.
  "Is offered leadership": follower side `ahead_gets_handover`, leader side
  `handover_leader_steps_down` (Sync stops the syncer); what runCluster does afterwards is
  outside the model (the check's `partial`).
-/
import GunYu.Model.Replica
import GunYu.Proofs.Replica

namespace GunYu.Props.C16
open GunYu GunYu.Replica

/-- **follower_prefix_of_leader** (invariant, one session, any interruption point, a leader
    that changes under the session). `V n` is the leader's state as the `n`-th request of
    the session reads it, at four separate points of `ServiceReplica`/`Handle` (gate and
    self inspection; input ids and `StartPoint`; `IsValidOffset`; `NewReader`) — the
    leader's own input may switch run id, re-snapshot or collect in between. If every cache
    a reader is opened on is a copy of history and everything the follower holds under run
    id `id` is a copy of history `id`, then after a session cut after ANY number of
    messages, with ANY chunking, the same holds — for every id separately, so bytes never
    move from one id to another — and the store stays well formed. -/
theorem follower_prefix_of_leader {β : Type} (h : Hist β) (bk : Backend) (V : Nat → View β)
    (F : Store β) (ch : List Nat) (cut : Nat) (lost : Loss) (fuel : Nat)
    (hL : ∀ n, (V n).l4.Faithful h) (hq : (V 0).l2b.cur ≠ "?") (hwf : WF bk F) (id : Id)
    (hF : FaithfulAt h F.dirs id) :
    FaithfulAt h (sessionV bk V F ch cut lost fuel).store.dirs id ∧
      WF bk (sessionV bk V F ch cut lost fuel).store :=
  (session_ok bk V F ch cut lost fuel id hL hq hwf hF).symm

/-- one follower session as a state transformer -/
def run {β : Type} (bk : Backend) (F : Store β) (r : (Nat → View β) × List Nat × Nat × Loss × Nat) :
    Store β :=
  (sessionV bk r.1 F r.2.1 r.2.2.1 r.2.2.2.1 r.2.2.2.2).store

/-- what can happen to a follower's cache between two looks at it -/
inductive Step (β : Type)
  /-- one pass of `ReplicaFollower.Run` (handshake … first error), any leader, any cut -/
  | sess (r : (Nat → View β) × List Nat × Nat × Loss × Nat)
  /-- (disk) the process restarts: the storer forgets its current id, directories stay -/
  | restart
  /-- the follower was leader for a while: its own input appended to the current id -/
  | ownAppend (p : List β)

def step {β : Type} (bk : Backend) (F : Store β) : Step β → Store β
  | .sess r => run bk F r
  | .restart => match bk with
    | .disk => { F with cur := "" }
    | .mem => ⟨"", []⟩
  | .ownAppend p => match F.curData with
    | some d => F.setCur (some { d with bytes := d.bytes ++ p })
    | none => F

/-- the step keeps faithfulness: sessions against faithful leaders; what the follower's own
    input appends as leader is history of the current id -/
def Step.Ok {β : Type} (h : Hist β) (F : Store β) : Step β → Prop
  | .sess r => (∀ n, (r.1 n).l4.Faithful h) ∧ (r.1 0).l2b.cur ≠ "?"
  | .restart => True
  | .ownAppend p => ∀ d, F.curData = some d → p = hseg h F.cur d.right p.length

theorem step_ok {β : Type} (h : Hist β) (bk : Backend) (F : Store β) (st : Step β)
    (hst : st.Ok h F) (hwf : WF bk F) (hF : ∀ id, FaithfulAt h F.dirs id) :
    (∀ id, FaithfulAt h (step bk F st).dirs id) ∧ WF bk (step bk F st) := by
  cases st with
  | sess r =>
    exact ⟨fun id => (follower_prefix_of_leader h bk r.1 F _ _ _ _ hst.1 hst.2 hwf id (hF id)).1,
      (follower_prefix_of_leader h bk r.1 F _ _ _ _ hst.1 hst.2 hwf "" (hF "")).2⟩
  | restart =>
    cases bk with
    | disk => exact ⟨hF, ⟨Or.inl rfl, by simp [step]⟩⟩
    | mem =>
      refine ⟨?_, ?_, fun _ => rfl, by simp [step]⟩
      · intro id d hd; cases hd
      · intro p hp; cases hp
  | ownAppend p =>
    simp only [step]
    cases hcd : F.curData with
    | none => exact ⟨hF, hwf⟩
    | some d =>
      simp only
      have hmem := curData_mem hcd
      refine ⟨fun id => setCur_faithful _ _ _ ?_ (hF id), ?_⟩
      · intro hid d' hd'
        cases hd'
        have hdf := hF id d (hid ▸ hmem)
        refine ⟨?_, hdf.2⟩
        simp only [List.length_append]
        rw [hseg_append, ← hdf.1, hid]
        congr 1
        exact hst d hcd
      · -- well-formedness: the current id keeps its directory
        cases bk with
        | disk =>
          refine ⟨Or.inr ?_, hwf.2⟩
          rw [has_iff_get, getD_isSome]
          exact ⟨(F.cur, some { d with bytes := d.bytes ++ p }), by simp [Store.setCur], rfl⟩
        | mem =>
          obtain ⟨hk, hn, hq⟩ := hwf
          refine ⟨?_, ?_, hq⟩
          · intro q hq'
            simp only [Store.setCur, List.mem_cons] at hq'
            rcases hq' with rfl | hq'
            · rfl
            · exact hk q (mem_dropKey.mp hq').1
          · intro h0
            have : F.dirs = [] := hn h0
            rw [this] at hmem; cases hmem

/-- **follower_prefix_of_leader**, any history of the follower: sessions against leaders in
    arbitrary (faithful, changing) states — grown, collected, re-snapshotted, under another
    run id — each interrupted anywhere, process restarts, and periods as leader in between.
    Whatever the follower stores under any id is byte-identical to history at the same
    offsets. -/
theorem follower_prefix_of_leader_runs {β : Type} (h : Hist β) (bk : Backend) :
    ∀ (steps : List (Step β)) (F : Store β),
      (∀ (pre : List (Step β)) (st : Step β) (post : List (Step β)), steps = pre ++ st :: post →
        st.Ok h (pre.foldl (step bk) F)) →
      WF bk F → (∀ id, FaithfulAt h F.dirs id) →
      (∀ id, FaithfulAt h (steps.foldl (step bk) F).dirs id) ∧ WF bk (steps.foldl (step bk) F) := by
  intro steps
  induction steps with
  | nil => intro F _ hwf hF; exact ⟨hF, hwf⟩
  | cons st rest ih =>
    intro F hok hwf hF
    have h1 := step_ok h bk F st (hok [] st rest rfl) hwf hF
    simp only [List.foldl_cons]
    apply ih _ _ h1.2 h1.1
    intro pre st' post he
    have := hok (st :: pre) st' post (by rw [he]; rfl)
    simpa using this

/-- the stream bytes of a faithful cache, spelled out: the byte stored at offset `o` of
    run id `id` is history's byte at `(id, o)`; stored bytes are one contiguous range
    `[base, base + n)` of one id (this is what `Data` is). -/
theorem faithful_bytes {β : Type} (h : Hist β) (id : Id) (d : Data β) (hd : d.Faithful h id)
    (i : Nat) (hi : i < d.bytes.length) : d.bytes[i] = h.byte id (d.base + i) := by
  have := hd.1
  have e : d.bytes[i] = (hseg h id d.base d.bytes.length)[i]'(by simpa using hi) := by
    congr 1
  rw [e]
  simp [hseg]

/-- **contiguous**: the follower never opens its stream writer anywhere but at the end of
    the data it holds (or on an empty cache) — for ANY leader state, faithful or not; the
    sentinel outcome `discont`, which stands for overlapping / disjoint segments on disk
    and for the memory backend's refusal, is unreachable. -/
theorem follower_contiguous {β : Type} (bk : Backend) (V : Nat → View β) (F : Store β)
    (ch : List Nat) (cut : Nat) (lost : Loss) (fuel : Nat) (hq : (V 0).l2b.cur ≠ "?") (hwf : WF bk F) :
    (sessionV bk V F ch cut lost fuel).cls ≠ .discont :=
  session_nodiscont bk V F ch cut lost fuel hq hwf

/-- **unjoinable_discards**: the follower's current copy belongs to run id `y`, the leader
    announces another id `x` for which the follower holds nothing. `preSync` then leaves
    no directory `y`, an empty cache under `x`, and asks for the leader's offset — the
    old bytes are discarded, not kept under the new id. -/
theorem unjoinable_discards {β : Type} (bk : Backend) (F : Store β) (x y : Id) (loff : Int)
    (hx1 : x ≠ "") (hx2 : x ≠ "?") (hy : y = F.cur) (hy0 : y ≠ "") (hyx : y ≠ x)
    (hwf : WF bk F) (hnox : getD F.dirs x = none) :
    (preSync bk F x loff).1.cur = x ∧ (preSync bk F x loff).1.curData = none ∧
      getD (preSync bk F x loff).1.dirs y = none ∧ (preSync bk F x loff).2 = (x, loff) := by
  have hsp := special_false hx1 hx2
  subst hy
  have hc : (F.cur ≠ "" && F.cur ≠ x) = true := by simp [hy0, hyx]
  cases bk with
  | disk =>
    obtain ⟨hcur, hq⟩ := hwf
    have hhc : F.has F.cur = true := hcur.resolve_left hy0
    have hg : F.get x = none := hnox
    have hst : startPoint .disk F x = (F, (F.cur, 0)) := by
      simp only [startPoint, hsp, Bool.false_eq_true, if_false, hg, hy0]
    have hnx : Store.has (⟨"", dropKey F.dirs F.cur⟩ : Store β) x = false := by
      rw [has_false_iff]
      simp only
      rw [getD_dropKey_ne _ (Ne.symm hyx)]
      exact hnox
    have hadopt : adopt .disk F x = ⟨x, dropKey F.dirs F.cur ++ [(x, none)]⟩ := by
      unfold adopt
      rw [hc]
      simp only [if_true]
      rw [delRunId_disk_has (special_false hy0 hq) hhc, setRunId_disk_nocur rfl,
        newRunIdDisk_new hsp hnx]
    have hpre : preSync .disk F x loff = (⟨x, dropKey F.dirs F.cur ++ [(x, none)]⟩, (x, loff)) := by
      unfold preSync
      simp only [hst, hyx, ne_eq, not_false_eq_true, decide_true, Bool.or_true, if_true, hadopt]
    rw [hpre]
    have hgx : getD (dropKey F.dirs F.cur ++ [(x, none)]) x = some none :=
      getD_append_none _ _ (by rw [getD_dropKey_ne _ (Ne.symm hyx)]; exact hnox)
    refine ⟨rfl, curData_none_of_get (Or.inr hgx), ?_, rfl⟩
    rw [getD_none]
    intro p hp
    simp only [List.mem_append, List.mem_singleton] at hp
    rcases hp with hp | rfl
    · exact (mem_dropKey.mp hp).2
    · exact Ne.symm hyx
  | mem =>
    have hne : ¬ (x = F.cur) := fun e => hyx e.symm
    have hst : startPoint .mem F x = (F, ("?", -1)) := by
      simp only [startPoint, hsp, hne, Bool.not_false, decide_false, Bool.and_false,
        Bool.false_eq_true, if_false]
    have hadopt : adopt .mem F x = ⟨x, []⟩ := by
      unfold adopt
      rw [hc]
      simp only [if_true]
      rw [delRunId_mem_cur]
      simp [setRunId]
    have hpre : preSync .mem F x loff = (⟨x, []⟩, (x, loff)) := by
      unfold preSync
      simp only [hst, decide_true, Bool.true_or, if_true, hadopt]
    rw [hpre]
    exact ⟨rfl, by simp [Store.curData, Store.get, getD], by simp [getD], rfl⟩

/-- **others_untouched**: whatever the leader does and wherever the session is cut, every
    directory of the follower afterwards is the one of the id announced in the handshake or
    is, unchanged, a directory it had before: a session never creates, fills or relabels a
    directory of another id. -/
theorem others_untouched {β : Type} (bk : Backend) (V : Nat → View β) (F : Store β)
    (ch : List Nat) (cut : Nat) (lost : Loss) (fuel : Nat) (hq : (V 0).l2b.cur ≠ "?") (hwf : WF bk F) :
    ∀ p ∈ (sessionV bk V F ch cut lost fuel).store.dirs, p.1 = (V 0).l2b.cur ∨ p ∈ F.dirs :=
  session_ksub bk V F ch cut lost fuel hq hwf

/-- **unjoinable_discards**, session level: the leader serves `x`, the follower's current
    copy is `y ≠ x` and it holds nothing for `x`. As soon as the handshake has been delivered
    (`cut ≥ 1`), and wherever the session is cut afterwards, no directory `y` is left — the
    old copy is gone for good, it does not come back under any id. (Static leader. When the
    disk follower DOES hold a directory `x`, `StartPoint` switches to it and the directory `y`
    stays on disk, unchanged and under its own id — `others_untouched` — it is merely no
    longer current.) -/
theorem unjoinable_discards_session {β : Type} (bk : Backend) (L : Leader β) (F : Store β)
    (ch : List Nat) (c : Nat) (lost : Loss) (fuel : Nat) (x y : Id) (hs : Serves L x)
    (hx1 : x ≠ "") (hx2 : x ≠ "?") (hy : y = F.cur) (hy0 : y ≠ "") (hyx : y ≠ x)
    (hwf : WF bk F) (hnox : getD F.dirs x = none) :
    getD (session bk L F ch (c + 1) lost fuel).store.dirs y = none := by
  rw [session_static hs hx1, Out.pre_store]
  have hp := preSync_ok bk F x (latest L.data) hx1 hx2 hwf
  have hu := unjoinable_discards bk F x y (latest L.data) hx1 hx2 hy hy0 hyx hwf hnox
  have hk := syncLoop_ksub bk (fun _ => View.const L) lost x hx1 hx2 fuel 1 c ch _ _ hp.1 hp.2.1
  rw [getD_none]
  intro p hp' hpy
  rcases hk p hp' with h | h
  · exact hyx (hpy ▸ h)
  · exact (getD_none.mp hu.2.2.1) p h hpy

/-- **gap_discards** (a lemma about the function `preSync`; the session-level consequence is
    `gap_discards_session`; the 10 MiB rule): same run id, the leader is more than
    10 MiB ahead of the follower's end: the follower deletes its copy and asks for the
    leader's offset. (At 10 MiB or less it keeps it and asks for its own end.) -/
theorem gap_discards {β : Type} (bk : Backend) (F : Store β) (x : Id) (e : Data β) (loff : Int)
    (hx1 : x ≠ "") (hx2 : x ≠ "?") (hwf : WF bk F) (hF : F.get x = some (some e))
    (hm : bk = .mem → F.cur = x) :
    (loff - (e.right : Int) > tenMB →
        (preSync bk F x loff).1.curData = none ∧ (preSync bk F x loff).1.cur = x ∧
          (preSync bk F x loff).2 = (x, loff)) ∧
      (¬ loff - (e.right : Int) > tenMB →
        (preSync bk F x loff).1 = ⟨x, F.dirs⟩ ∧ (preSync bk F x loff).2 = (x, (e.right : Int))) := by
  rw [preSync_sameid bk F x e loff hx1 hx2 hwf hF hm]
  constructor
  · intro hg
    rw [if_pos hg]
    have hr := reset_at bk ⟨x, F.dirs⟩ x hx1 hx2 (at_sameid bk F x e hwf hF hm)
    exact ⟨hr.2.2, hr.1.1, rfl⟩
  · intro hg
    rw [if_neg hg]
    exact ⟨rfl, rfl⟩

/-- **collected_discards**: same run id, but the follower's end lies before everything the
    leader still holds and the leader has no snapshot (the position was collected). With
    the handshake and the announcement delivered (`cut ≥ 2`), whatever the follower holds
    for `x` afterwards starts at the leader's newest offset: the old part, which could not
    be joined, is gone, and no snapshot is kept. -/
theorem collected_discards {β : Type} (bk : Backend) (L : Leader β) (F : Store β)
    (ch : List Nat) (c : Nat) (lost : Loss) (f : Nat) (x : Id) (d e : Data β) (hs : Serves L x)
    (hx1 : x ≠ "") (hx2 : x ≠ "?") (hd : L.data = some d) (hsn : d.snap = none)
    (hw : L.hasSegs d = true) (hwf : WF bk F) (hF : F.get x = some (some e))
    (hm : bk = .mem → F.cur = x) (hgap : e.right < d.base) :
    ∀ e', (session bk L F ch (c + 2) lost (f + 1)).store.curData = some e' →
      e'.base = d.right ∧ e'.snap = none := by
  have hlat : latest L.data = (d.right : Int) := by rw [hd]; rfl
  have hat := at_sameid bk F x e hwf hF hm
  have hdr : d.base ≤ d.right := by simp [Data.right]
  rw [session_static hs hx1, Out.pre_store, hlat, preSync_sameid bk F x e _ hx1 hx2 hwf hF hm]
  -- in both branches of preSync the answer is the stream from the leader's newest offset
  have key : ∀ (G : Store β) (roff : Int), At bk G x → (roff = (d.right : Int) ∨ roff = (e.right : Int)) →
      (∀ e0, G.curData = some e0 → (e0.right : Int) < (d.right : Int)) →
      ∀ e', (syncLoopV bk (fun _ => View.const L) lost x (f + 1) 1 (c + 1) ch G (x, roff)).store.curData = some e' →
        e'.base = d.right ∧ e'.snap = none := by
    intro G roff hG hroff hbey e' he'
    have hle : ¬ roff - latest L.data > 0 := by
      rw [hlat]; rcases hroff with h | h <;> rw [h] <;> omega
    have hoff : (if L.valid x roff then roff else latest L.data) = (d.right : Int) := by
      rcases hroff with h | h
      · rw [h, hlat]; split <;> rfl
      · have : L.valid x roff = false := by
          simp only [Leader.valid, hs.cur, decide_true, Bool.true_and, hd, Leader.inAof, inRdb, hsn,
            Option.isSome_none, Bool.false_and, Bool.or_false, h]
          have : ¬ ((d.base : Int) ≤ (e.right : Int)) := by omega
          simp [this]
        rw [this, hlat]; rfl
    obtain ⟨ms, fin, rest, hsd⟩ := sendData_newest hs.cur d hd hw ch
    unfold syncLoopV at he'
    simp only [meta_static hs hx1 hx2 roff ch hle, hoff, hsd, respErr,
      Out.pre_store, reduceCtorEq, if_false, if_true] at he'
    have := aofSync_fresh bk G x ⟨.info, "", true, d.right, -1, []⟩ ms fin c lost hx1 hx2 hG
      (by intro e0 h0; exact hbey e0 h0) e' he'
    simpa using this
  split
  · have hr := reset_at bk ⟨x, F.dirs⟩ x hx1 hx2 hat
    exact key _ _ hr.1 (Or.inl rfl) (by intro e0 h0; rw [hr.2.2] at h0; cases h0)
  · refine key _ _ hat (Or.inr rfl) ?_
    intro e0 h0
    rw [curData_sameid F x e hF] at h0
    cases h0
    omega

/-- **clear_deletes**: the leader answers the request with `CLEAR` (here: it holds nothing
    and no writer is open, so `NewReader` fails). The follower deletes the run id and ends
    the attempt: nothing is left under `x`, no snapshot is invented. -/
theorem clear_deletes {β : Type} (bk : Backend) (L : Leader β) (F : Store β)
    (ch : List Nat) (c : Nat) (lost : Loss) (f : Nat) (x : Id) (hs : Serves L x)
    (hx1 : x ≠ "") (hx2 : x ≠ "?") (hd : L.data = none) (hwf : WF bk F)
    (hnot : ∀ e, F.get x = some (some e) → False) :
    (session bk L F ch (c + 2) lost (f + 1)).cls = .clear ∧
      (session bk L F ch (c + 2) lost (f + 1)).store.cur = "" ∧
      ∀ e', (x, some e') ∉ (session bk L F ch (c + 2) lost (f + 1)).store.dirs := by
  have hlat : latest L.data = -1 := by rw [hd]; rfl
  have hp := preSync_ok bk F x (-1) hx1 hx2 hwf
  have hoff := preSync_nodata_off bk F x hx1 hx2 hwf hnot
  rw [session_static hs hx1, hlat]
  generalize preSync bk F x (-1) = P at hp hoff
  obtain ⟨G, fsp⟩ := P
  obtain ⟨hG, hfx, _⟩ := hp
  simp only at hG hfx hoff
  have hle : ¬ fsp.2 - latest L.data > 0 := by rw [hlat, hoff]; omega
  unfold syncLoopV
  rw [hfx]
  simp only [meta_static hs hx1 hx2 fsp.2 ch hle, Leader.sendData, hd, ctl, respErr, Out.pre, if_true]
  have hdel : (delRunId bk G x).cur = "" ∧ ∀ e', (x, some e') ∉ (delRunId bk G x).dirs := by
    cases bk with
    | disk =>
      rw [delRunId_disk_has (special_false hx1 hx2) (hG.2.1 rfl)]
      exact ⟨rfl, fun e' h => (mem_dropKey.mp h).2 rfl⟩
    | mem =>
      rw [← hG.1, delRunId_mem_cur]
      exact ⟨rfl, fun e' h => by cases h⟩
  exact ⟨by first | rfl | trivial, hdel.1, hdel.2⟩

/-- **clear_deletes**, the general form: the handshake of a serving leader announced `x`; the
    next request meets a leader whose input has already moved to another run id than its
    channel (selfInspection: "wait a moment", answered with `CLEAR` — this is what a source
    fail-over or resynchronisation looks like from outside). Whatever the follower holds —
    also a copy of `x` that is AHEAD of the leader — it deletes run id `x` and ends the
    attempt: `HANDOVER` is not offered in this situation (the ahead test comes after the
    self inspection), nothing is left under `x`, no snapshot is invented. -/
theorem clear_deletes_any {β : Type} (bk : Backend) (V : Nat → View β) (F : Store β)
    (ch : List Nat) (c : Nat) (lost : Loss) (f : Nat) (x : Id) (h0 : Serves (V 0).l1 x) (h01 : (V 0).l1b.cur = x)
    (h02 : (V 0).l2b.cur = x)
    (hx1 : x ≠ "") (hx2 : x ≠ "?") (h1g : (V 1).l1.serving = true) (h1s : (V 1).l1.started = true)
    (i0 : Id) (tl : List Id) (h1i : (V 1).l1.inputIds = i0 :: tl) (h1c : i0 ≠ (V 1).l1b.cur)
    (hwf : WF bk F) :
    (sessionV bk V F ch (c + 2) lost (f + 1)).cls = .clear ∧
      (sessionV bk V F ch (c + 2) lost (f + 1)).store.cur = "" ∧
      ∀ e', (x, some e') ∉ (sessionV bk V F ch (c + 2) lost (f + 1)).store.dirs := by
  obtain ⟨tl0, hi0⟩ := h0.ids
  have hh : (V 0).handle "" 0 ch = ⟨[⟨.info, x, false, latest (V 0).l2b.data, 0, []⟩], .eof, ch⟩ := by
    simp [View.handle, h0.gate, h0.started, hi0, h01, h02]
  have hp := preSync_ok bk F x (latest (V 0).l2b.data) hx1 hx2 hwf
  unfold sessionV
  simp only [hh, respErr, hx1, if_false]
  generalize preSync bk F x (latest (V 0).l2b.data) = P at hp
  obtain ⟨G, fsp⟩ := P
  obtain ⟨hG, hfx, _⟩ := hp
  simp only at hG hfx
  unfold syncLoopV
  have hm : ∃ ms fin rest, (V 1).handle fsp.1 fsp.2 ch = ⟨ctl .clear :: ms, fin, rest⟩ := by
    simp only [View.handle, h1g, h1s, Bool.not_true, Bool.false_eq_true, if_false, h1i, h1c, ne_eq,
      not_false_eq_true, if_true, List.cons_append, List.nil_append]
    exact ⟨_, _, _, rfl⟩
  obtain ⟨ms, fin, rest, hm⟩ := hm
  rw [hm, hfx]
  simp only [ctl, respErr, Out.pre, if_true]
  have hdel : (delRunId bk G x).cur = "" ∧ ∀ e', (x, some e') ∉ (delRunId bk G x).dirs := by
    cases bk with
    | disk =>
      rw [delRunId_disk_has (special_false hx1 hx2) (hG.2.1 rfl)]
      exact ⟨rfl, fun e' h => (mem_dropKey.mp h).2 rfl⟩
    | mem =>
      rw [← hG.1, delRunId_mem_cur]
      exact ⟨rfl, fun e' h => by cases h⟩
  exact ⟨by first | rfl | trivial, hdel.1, hdel.2⟩

/-- a session cut right after the handshake leaves exactly what `preSync` decided -/
theorem session_cut_after_handshake {β : Type} (bk : Backend) (L : Leader β) (F : Store β)
    (ch : List Nat) (lost : Loss) (fuel : Nat) (x : Id) (hs : Serves L x) (hx1 : x ≠ "") :
    (session bk L F ch 1 lost (fuel + 1)).store = (preSync bk F x (latest L.data)).1 := by
  rw [session_static hs hx1, Out.pre_store]
  unfold syncLoopV
  rfl

/-- **gap_discards**, session level: same run id, the leader more than 10 MiB ahead. Already
    when only the handshake has been delivered the follower's copy is gone. -/
theorem gap_discards_session {β : Type} (bk : Backend) (L : Leader β) (F : Store β) (ch : List Nat)
    (lost : Loss) (fuel : Nat) (x : Id) (e : Data β) (hs : Serves L x) (hx1 : x ≠ "") (hx2 : x ≠ "?")
    (hwf : WF bk F) (hF : F.get x = some (some e)) (hm : bk = .mem → F.cur = x)
    (hgap : latest L.data - (e.right : Int) > tenMB) :
    (session bk L F ch 1 lost (fuel + 1)).store.curData = none ∧
      (session bk L F ch 1 lost (fuel + 1)).store.cur = x := by
  rw [session_cut_after_handshake bk L F ch lost fuel x hs hx1]
  have := (gap_discards bk F x e (latest L.data) hx1 hx2 hwf hF hm).1 hgap
  exact ⟨this.1, this.2.1⟩

/-- **offered leadership**, the leader's half: whenever the leader answers a request with
    `HANDOVER` (whatever its state, changing or not), `ServiceReplica` returns a role error and
    `SyncerCmd.Sync` stops this input's syncer — which is what makes `runCluster` resign the
    lease so that the follower's next campaign can succeed. (What `runCluster` does with the
    stopped syncer is outside the model: see the check's `partial`.) -/
theorem handover_leader_steps_down {β : Type} (v : View β) (rid : Id) (roff : Int) (ch : List Nat)
    (h : ∃ m ∈ (v.handle rid roff ch).msgs, m.code = .handover) :
    syncReact (v.handle rid roff ch).fin = .stopSyncer :=
  handover_stops_leader v rid roff ch h

/-- the outcome "caught up": the session ended inside the stream transfer with nothing left
    to fetch, and the follower's current copy — if it holds one — ends exactly at the leader's
    end including what arrived during the session. NOTE what this does not say: a follower
    that had to discard (other id, collected position, more than 10 MiB behind, nothing held)
    starts at the leader's newest offset, so "caught up" can mean "positioned at the leader's
    tip holding only what arrived since" — possibly nothing (`curData = none`, then nothing
    arrived: `tail = []`). It holds the leader's older bytes only where its own copy joined. -/
def AtLeaderTip {β : Type} (L : Leader β) (d : Data β) (o : Out β) : Prop :=
  o.stage = .aof ∧ o.cls = .cut ∧
    (∀ e', o.store.curData = some e' → (e'.right : Int) = (d.right : Int) + L.tail.length) ∧
    (o.store.curData = none → L.tail = [])

/-- **resynchronises** (progress, not only safety): a leader that serves `x`, holds `d`, has
    stream segments and is not stopped; a follower that is not ahead of it — whatever else it
    holds: nothing, a prefix, a position already collected, another id, a copy more than
    10 MiB behind. If the session is not cut before everything the leader has was delivered
    and nothing is lost, it ends `AtLeaderTip` (after at most one snapshot transfer; `fuel ≥ 2`
    metaSync rounds are enough). See `AtLeaderTip` for what that does and does not mean. -/
theorem resynchronises {β : Type} (bk : Backend) (L : Leader β) (F : Store β) (ch : List Nat)
    (c fuel : Nat) (x : Id) (d : Data β) (hs : Serves L x) (hh : L.halt = none) (hx1 : x ≠ "")
    (hx2 : x ≠ "?") (hd : L.data = some d) (hw : L.hasSegs d = true) (hwf : WF bk F)
    (hna : ∀ e, F.get x = some (some e) → e.right ≤ d.right)
    (hc : (d.snap.getD []).length + 1 + d.bytes.length + L.tail.length ≤ c) :
    AtLeaderTip L d (session bk L F ch (c + 2) 0 (fuel + 2)) := by
  have hlat : latest L.data = (d.right : Int) := by rw [hd]; rfl
  rw [session_static hs hx1, hlat]
  have hp := preSync_ok bk F x (d.right : Int) hx1 hx2 hwf
  have hpos := preSync_pos bk F x (d.right : Int) hx1 hx2 hwf
  have hle := preSync_off_le bk F x (d.right : Int) hx1 hx2 hwf (by omega)
    (by intro e he; have := hna e he; omega)
  generalize preSync bk F x (d.right : Int) = P at hp hpos hle
  obtain ⟨G, fx, roff⟩ := P
  obtain ⟨hG, hfx, _⟩ := hp
  simp only at hG hfx hpos hle
  subst hfx
  have := syncLoop_reach bk L fx d hs hh hx1 hx2 hd hw fuel 1 c ch G roff hG hle
    (by intro e he; exact (hpos e he).symm) hc
  simpa [Reached, AtLeaderTip] using this

/-- … and where the follower's own copy joins the leader's (same id, its end inside the
    leader's stream, not more than 10 MiB behind) it KEEPS that copy and extends it: after the
    uncut session it holds `[e.base, leader's end)`. -/
theorem resynchronises_keeps_copy {β : Type} (bk : Backend) (L : Leader β) (F : Store β) (ch : List Nat)
    (c fuel : Nat) (x : Id) (d e : Data β) (hs : Serves L x) (hh : L.halt = none) (hx1 : x ≠ "")
    (hx2 : x ≠ "?") (hd : L.data = some d) (hw : L.hasSegs d = true) (hwf : WF bk F)
    (hF : F.get x = some (some e)) (hm : bk = .mem → F.cur = x)
    (hjoin : d.base ≤ e.right ∧ e.right ≤ d.right) (hnear : ¬ (d.right : Int) - (e.right : Int) > tenMB)
    (hc : d.bytes.length + L.tail.length ≤ c) :
    ∃ e', (session bk L F ch (c + 2) 0 (fuel + 1)).store.curData = some e' ∧ e'.base = e.base ∧
      e'.snap = e.snap ∧ (e'.right : Int) = (d.right : Int) + L.tail.length ∧
      e'.bytes.take e.bytes.length = e.bytes := by
  have hlat : latest L.data = (d.right : Int) := by rw [hd]; rfl
  have hat := at_sameid bk F x e hwf hF hm
  have hcd := curData_sameid F x e hF
  rw [session_static hs hx1, Out.pre_store, hlat, preSync_sameid bk F x e _ hx1 hx2 hwf hF hm,
    if_neg hnear]
  simp only
  -- the leader answers with the stream from the follower's own end
  have hin : L.inAof d (e.right : Int) = true := by
    simp only [Leader.inAof, hw, Bool.true_and, Bool.and_eq_true, Data.right]
    simp only [Data.right] at hjoin
    constructor <;> (apply decide_eq_true; omega)
  have hv : L.valid x (e.right : Int) = true := by
    simp only [Leader.valid, hs.cur, decide_true, Bool.true_and, hd, hin, Bool.true_or]
  have hnh : ¬ (e.right : Int) - latest L.data > 0 := by rw [hlat]; omega
  unfold syncLoopV
  simp only
  rw [meta_static hs hx1 hx2 _ ch hnh, hv]
  simp only [if_true]
  rw [sendData_aof_eval hs.cur hh d hd _ hin ch]
  simp only [respErr, reduceCtorEq, if_false, if_true, Out.pre_store]
  -- aofSync on the kept copy: the writer is opened at its end
  simp only [aofSync]
  rw [startPoint_at bk _ x hx1 hx2 hat, startPoint_at_off bk _ x hx1 hx2 hat e hcd]
  have : (decide ((e.right : Int) > (e.right : Int)) && decide (x ≠ "?")) = false := by simp
  simp only [this, Bool.false_eq_true, if_false, Int.toNat_natCast]
  have hk : ((e.right : Int) - (d.base : Int)).toNat ≤ d.bytes.length := by
    simp only [Data.right] at hjoin ⊢; omega
  have hlen := chop_length_le ch (d.bytes.drop ((e.right : Int) - (d.base : Int)).toNat ++ L.tail)
  have hfl := chop_flatten ch (d.bytes.drop ((e.right : Int) - (d.base : Int)).toNat ++ L.tail)
  generalize (chop ch (d.bytes.drop ((e.right : Int) - (d.base : Int)).toNat ++ L.tail)).1 = cs at hlen hfl
  simp only [List.length_append, List.length_drop] at hlen
  have ha := aofLoop_conts_all c (e.right : Int) cs (by omega)
  unfold aofRecv
  simp only [ha.1, Loss.zero_pipe, Loss.written_zero, Nat.sub_zero, List.take_length]
  unfold aofWrite
  simp only [hcd, if_true, setCur_curData]
  refine ⟨_, rfl, rfl, rfl, ?_, ?_⟩
  · simp only [Data.right, List.length_append, hfl, List.length_drop]
    simp only [Data.right] at hjoin
    omega
  · simp

/-- keeping bytes under another id is faithful exactly when the two histories agree on
    the kept range (the PSYNC2 fail-over prefix) — which no history-independent rule can
    know -/
theorem relabel_faithful_iff_join {β : Type} (h : Hist β) (old new : Id) (d : Data β)
    (hsn : d.snap = none) (hd : d.Faithful h old) :
    d.Faithful h new ↔ hseg h old d.base d.bytes.length = hseg h new d.base d.bytes.length := by
  constructor
  · intro hn; rw [← hd.1, ← hn.1]
  · intro he; exact ⟨by rw [← he]; exact hd.1, fun s hs => by rw [hsn] at hs; cases hs⟩

/-- **ahead_gets_handover**: same run id, the follower holds more than the leader. The
    second message of the session is `HANDOVER`, the follower reports "take over
    leadership" and its cache is untouched. -/
theorem ahead_gets_handover {β : Type} (bk : Backend) (L : Leader β) (F : Store β)
    (ch : List Nat) (cut : Nat) (lost : Loss) (fuel : Nat) (x : Id) (tl : List Id) (d : Data β)
    (hg : L.serving = true) (hs : L.started = true) (hi : L.inputIds = x :: tl) (hc : L.cur = x)
    (hx1 : x ≠ "") (hx2 : x ≠ "?") (hwf : WF bk F)
    (hF : F.get x = some (some d)) (hm : bk = .mem → F.cur = x)
    (hahead : (d.right : Int) > latest L.data) (hcut : 2 ≤ cut) (hfuel : 1 ≤ fuel) :
    (session bk L F ch cut lost fuel).cls = .takeover ∧
      (session bk L F ch cut lost fuel).stage = .msync ∧
      (session bk L F ch cut lost fuel).store.dirs = F.dirs ∧
      (session bk L F ch cut lost fuel).store.cur = x ∧
      (session bk L F ch cut lost fuel).trace.map (·.code) = [.info, .handover] := by
  obtain ⟨c, rfl⟩ : ∃ c, cut = c + 2 := ⟨cut - 2, by omega⟩
  obtain ⟨f, rfl⟩ : ∃ f, fuel = f + 1 := ⟨fuel - 1, by omega⟩
  have hsp := special_false hx1 hx2
  have hhx : F.has x = true := by simp [Store.has, hF]
  -- handshake
  have hh : L.handle "" 0 ch = ⟨[⟨.info, x, false, latest L.data, 0, []⟩], .eof, ch⟩ := by
    simp [Leader.handle, View.handle, View.const, hg, hs, hi, hc]
  -- preSync: the follower's own end offset is kept
  have hpre : preSync bk F x (latest L.data) = (⟨x, F.dirs⟩, (x, (d.right : Int))) := by
    have hst : startPoint bk F x = (⟨x, F.dirs⟩, (x, (d.right : Int))) := by
      cases bk with
      | disk =>
        simp only [startPoint, hsp, Bool.false_eq_true, if_false, hF]
        have : ¬ latest (some d) < 0 := by simp only [latest]; omega
        rw [if_neg this, setRunId_disk_has hsp hhx]
        rfl
      | mem =>
        have hcx := hm rfl
        have hcd : F.curData = some d := by simp [Store.curData, hcx, hF]
        simp only [startPoint, hsp, hcx, Bool.not_false, Bool.true_and, decide_true, if_true, hcd, latest]
        rw [← hcx]
    unfold preSync
    simp only [hst, hx1, hx2, decide_false, Bool.false_or, ne_eq, not_true_eq_false,
      Bool.false_eq_true, if_false]
    have : ¬ latest L.data - (d.right : Int) > 0 := by omega
    rw [if_neg this]
  -- metaSync: HANDOVER
  have hh2 : L.handle x (d.right : Int) ch = ⟨[⟨.handover, x, false, latest L.data, 0, []⟩], .err .role, ch⟩ := by
    have : ((x = "") || (x = "?")) = false := by simp [hx1, hx2]
    simp [Leader.handle, View.handle, View.const, hg, hs, hi, hc, this, hahead]
  have hh' : (View.const L).handle "" 0 ch = ⟨[⟨.info, x, false, latest L.data, 0, []⟩], .eof, ch⟩ := hh
  have hh2' : (View.const L).handle x (d.right : Int) ch =
      ⟨[⟨.handover, x, false, latest L.data, 0, []⟩], .err .role, ch⟩ := hh2
  simp only [session, sessionV, hh', respErr, Out.pre, hx1, if_false, hpre, syncLoopV, hh2']
  simp

/-! ### non-vacuity: concrete states meet the hypotheses and show the behaviours -/

section examples

/-- history A: byte at offset o is o, snapshot at o is [o, o]; history B: o + 500 -/
def hEx : Hist Nat where
  byte := fun id o => if id = "idA" then o else o + 500
  snap := fun id o => if id = "idA" then [o, o] else [o + 500]

def lEx : Leader Nat := ⟨true, true, ["idA"], "idA", some ⟨10, [10, 11, 12, 13, 14], some [10, 10]⟩, true, [], none⟩
/-- the same leader receiving two more bytes while its stream reader is open -/
def lGrow : Leader Nat := { lEx with tail := [15, 16] }
/-- the follower process was following run id B (bytes 8..15 of B) -/
def fOther : Store Nat := ⟨"idB", [("idB", some ⟨8, [508, 509, 510, 511, 512, 513, 514, 515], none⟩)]⟩
def fPrefix : Store Nat := ⟨"idA", [("idA", some ⟨9, [9, 10, 11], none⟩)]⟩
def fAhead : Store Nat := ⟨"idA", [("idA", some ⟨9, [9, 10, 11, 12, 13, 14, 15, 16], none⟩)]⟩
def fOld : Store Nat := ⟨"idA", [("idA", some ⟨2, [2, 3], none⟩)]⟩

example : lEx.Faithful hEx := by
  intro d hd; cases hd
  exact ⟨⟨by decide, fun s hs => by cases hs; decide⟩, by decide⟩
example : lGrow.Faithful hEx := by
  intro d hd; cases hd
  exact ⟨⟨by decide, fun s hs => by cases hs; decide⟩, by decide⟩
example : WF .disk fOther ∧ WF .mem fOther ∧ WF .disk fPrefix ∧ WF .mem fAhead := by
  refine ⟨⟨Or.inr (by decide), by decide⟩, ⟨by decide, by decide, by decide⟩,
    ⟨Or.inr (by decide), by decide⟩, ⟨by decide, by decide, by decide⟩⟩
example : FaithfulAt hEx fOther.dirs "idB" := by
  intro d hd
  simp only [fOther, List.mem_singleton, Prod.mk.injEq, Option.some.injEq, true_and] at hd
  subst hd
  exact ⟨by decide, fun s hs => by cases hs⟩

-- other id: the old copy is discarded, the leader's stream is fetched from its end
example : (session .disk lEx fOther [] 10 0 3).store.dirs = [("idA", none)] := by decide
example : (session .mem lEx fOther [] 10 0 3).store.dirs = [] ∧ (session .mem lEx fOther [] 10 0 3).store.cur = "idA" := by decide
-- prefix: continues at its own end; cut after every message keeps a prefix
example : (session .disk lEx fPrefix [1, 2] 10 0 3).store.dirs = [("idA", some ⟨9, [9, 10, 11, 12, 13, 14], none⟩)] := by decide
example : (session .disk lEx fPrefix [1, 2] 3 0 3).store.dirs = [("idA", some ⟨9, [9, 10, 11, 12], none⟩)] := by decide
example : (session .disk lEx fPrefix [1, 2] 4 1 3).store.dirs = [("idA", some ⟨9, [9, 10, 11, 12, 13], none⟩)] := by decide
-- a live leader: the bytes appended during the session arrive too
example : (session .disk lGrow fPrefix [] 10 0 3).store.dirs = [("idA", some ⟨9, [9, 10, 11, 12, 13, 14, 15, 16], none⟩)] := by decide
-- position below the leader's first offset: the snapshot is taken, then the stream
example : (session .disk lEx fOld [] 10 0 3).store.dirs = [("idA", some ⟨10, [10, 11, 12, 13, 14], some [10, 10]⟩)] := by decide
-- … and an interrupted snapshot transfer leaves nothing
example : (session .mem lEx fOld [1] 3 0 3).store.dirs = [("idA", none)] := by decide
-- position collected at a leader without snapshot: the old part is discarded
example : (session .disk { lEx with data := some ⟨10, [10, 11, 12], none⟩ } fOld [] 10 0 3).store.dirs
    = [("idA", some ⟨13, [], none⟩)] ∨ (session .disk { lEx with data := some ⟨10, [10, 11, 12], none⟩ } fOld [] 10 0 3).store.dirs
    = [("idA", none)] := by decide
example : (session .disk { lGrow with data := some ⟨10, [10, 11, 12, 13, 14], none⟩ } fOld [] 10 0 3).store.dirs
    = [("idA", some ⟨15, [15, 16], none⟩)] := by decide
-- bytes lost in the follower's pipe at an abrupt cut (memory backend): still a prefix
example : (session .mem lEx fPrefix [1, 2] 4 2 3).store.dirs = [("idA", some ⟨9, [9, 10, 11, 12], none⟩)] := by decide
-- the leader's input resynchronises under idB between StartPoint and NewReader of the second
-- request: the (repaired) leader answers ERROR, nothing of idB reaches the follower
example : (sessionV .disk (fun n => if n = 1 then ⟨lEx, lEx, lEx, lEx, { lEx with cur := "idB", inputIds := ["idB"], data := some ⟨20, [], some [520]⟩ },
      { lEx with cur := "idB", inputIds := ["idB"], data := some ⟨20, [], some [520]⟩ }⟩ else View.const lEx) ⟨"", []⟩ [] 10 0 3).cls = .error := by decide
-- the leader is stopped after one chunk of the stream: clean end of stream, or FAULT — a prefix either way
example : (session .disk { lEx with halt := some (1, .clean) } fPrefix [1, 1, 1] 10 0 3).store.dirs
    = [("idA", some ⟨9, [9, 10, 11, 12], none⟩)] ∧
    (session .disk { lEx with halt := some (1, .clean) } fPrefix [1, 1, 1] 10 0 3).cls = .eof := by decide
example : (session .mem { lEx with halt := some (2, .fault) } fPrefix [1, 1, 1] 10 0 3).store.dirs
    = [("idA", some ⟨9, [9, 10, 11, 12, 13], none⟩)] ∧
    (session .mem { lEx with halt := some (2, .fault) } fPrefix [1, 1, 1] 10 0 3).cls = .fault := by decide
-- … stopped in the middle of the snapshot: nothing is kept
example : (session .disk { lEx with halt := some (1, .clean) } fOld [1] 10 0 3).store.dirs = [("idA", none)] ∧
    (session .disk { lEx with halt := some (1, .clean) } fOld [1] 10 0 3).cls = .eof := by decide
-- "caught up" may mean holding nothing: another id is discarded, the leader has nothing new
example : AtLeaderTip lEx ⟨10, [10, 11, 12, 13, 14], some [10, 10]⟩ (session .disk lEx fOther [] 20 0 3) ∧
    (session .disk lEx fOther [] 20 0 3).store.curData = none := by
  have hn : (session .disk lEx fOther [] 20 0 3).store.curData = none := by decide
  refine ⟨⟨by decide, by decide, ?_, ?_⟩, hn⟩
  · intro e' he'; rw [hn] at he'; cases he'
  · intro _; decide
-- CLEAR ("wait a moment": the leader's input already follows idC) to a follower that is AHEAD: the copy is deleted
example : (sessionV .disk (fun n => if n = 0 then View.const lEx else View.const { lEx with inputIds := ["idC", "idA"] })
      fAhead [] 10 0 3).cls = .clear ∧
    (sessionV .disk (fun n => if n = 0 then View.const lEx else View.const { lEx with inputIds := ["idC", "idA"] })
      fAhead [] 10 0 3).store.dirs = [] := by decide
-- HANDOVER makes Sync stop the leader's syncer; an empty input id list restarts the process
example : syncReact ((View.const lEx).handle "idA" 99 []).fin = .stopSyncer := by decide
example : syncReact ((View.const { lEx with inputIds := [] }).handle "idA" 12 []).fin = .stopAll := by decide
example : syncReact ((View.const lEx).handle "idA" 12 []).fin = .nothing := by decide
-- the input switches the channel to idB between Handle's read of the input ids and StartPoint(nil):
-- the request negotiated idA, the reader would be idB's — ERROR, the follower's copy of idA stays as it is
example : (sessionV .disk (fun n => if n = 1 then
        ⟨lEx, lEx, lEx, { lEx with cur := "idB", inputIds := ["idB"], data := some ⟨10, [510, 511, 512, 513, 514, 515, 516], none⟩ },
          { lEx with cur := "idB", inputIds := ["idB"], data := some ⟨10, [510, 511, 512, 513, 514, 515, 516], none⟩ },
          { lEx with cur := "idB", inputIds := ["idB"], data := some ⟨10, [510, 511, 512, 513, 514, 515, 516], none⟩ }⟩
        else View.const lEx) fPrefix [] 10 0 3).cls = .error ∧
    (sessionV .disk (fun n => if n = 1 then
        ⟨lEx, lEx, lEx, { lEx with cur := "idB", inputIds := ["idB"], data := some ⟨10, [510, 511, 512, 513, 514, 515, 516], none⟩ },
          { lEx with cur := "idB", inputIds := ["idB"], data := some ⟨10, [510, 511, 512, 513, 514, 515, 516], none⟩ },
          { lEx with cur := "idB", inputIds := ["idB"], data := some ⟨10, [510, 511, 512, 513, 514, 515, 516], none⟩ }⟩
        else View.const lEx) fPrefix [] 10 0 3).store.dirs = fPrefix.dirs := by decide
-- ahead: HANDOVER, cache untouched
example : (session .disk lEx fAhead [] 10 0 3).cls = .takeover ∧ (session .disk lEx fAhead [] 10 0 3).store.dirs = fAhead.dirs := by decide
-- the unrepaired relabelling would not be faithful: B's bytes are not A's
example : ¬ (⟨8, [508, 509], none⟩ : Data Nat).Faithful hEx "idA" := by
  intro h; have := h.1; revert this; decide

end examples

end GunYu.Props.C16
