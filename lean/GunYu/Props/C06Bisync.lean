/-
  C06 in bidirectional mode — the position a bisync start feeds into `syncMeta`.

  In bisync mode `RedisOutput.StartPoint` answers with `bisyncStartPoint` (syncer/bisync.go:1451):
  the rebuilt frontier, the per-slot latest record, or the root checkpoint. C14 models that
  function (`Frontier.startFrontier`, `Frontier.startLatest`) and proves what its answer is in
  every state the bidirectional replay reaches, after a stop at any request: `(rid, off, seq)`
  with `off = e seq`, the end of unit `seq`, every unit `1..seq` committed on the target.

  This file composes the two models: C14's answer is the `sp` of C06's `run`, and the truth of
  the target that C06's `Truthful` speaks about - "history `rid` applied up to `off`" - is
  exactly C14's committed contiguous prefix. `bisync_outcome_continue_or_full`: whatever the
  bidirectional replay did before the stop, the (re)connection either continues the log exactly
  from the end of the committed contiguous prefix (bytes = the current history's, the prefix
  agrees with it), or delivers a complete snapshot (the source's own after FULLRESYNC, or the
  cached one, which lies beyond that prefix). `bisync_sync_mode_outcome`: the same for sync mode,
  where the units applied are exactly `1..n` and the position is the end of unit `n`.

  Hypothesis kept (it is `Truthful`'s second disjunct): a position still labelled with the
  source's PREVIOUS id meets a cache that holds nothing under the current id yet - in the
  non-bisync loop that is an invariant (`loop_inv`); for bisync it is assumed here, because
  the bisync bookkeeping (`SetRunId` -> root checkpoint re-keyed, recovery state keyed by run id)
  is C14/C17's model, not part of `Loop`.
-/
import GunYu.Props.C06Loop
import GunYu.Props.C14

namespace GunYu.Props.C06
open GunYu GunYu.Psync

/-- a stored position `(rid, off)` that tells the truth by construction -/
def tgtAt (rid : Id) (off : Int) : Tgt := ⟨⟨rid, off⟩, .at rid off⟩

theorem tgtAt_truthful (w : World) (s : Source) (c : Cache) (rid : Id) (off : Int)
    (hlab : rid = s.id2 → rid ≠ s.id1 → NotYetCurrent s c) : Truthful w s (tgtAt rid off) c := by
  intro hin _
  refine ⟨rid, rfl, ?_⟩
  by_cases e1 : rid = s.id1
  · left; intro n _ _; rw [e1]
  · right
    have e2 : rid = s.id2 := by
      rcases hin with h | h
      · exact absurd h e1
      · exact h
    exact ⟨e2, e1, fun n _ _ => by rw [e2], hlab e2 e1⟩

/-- one connection from a truthful position `(rid, off)`: continue exactly there, or a snapshot -/
theorem point_outcome (w : World) (s : Source) (c : Cache) (d : CData) (hs : SourceWF s) (hc : CacheWF c)
    (hok : CacheOK w s c d) (hag : Agree w s) (rid : Id) (off : Int)
    (hlab : rid = s.id2 → rid ≠ s.id1 → NotYetCurrent s c) :
    (∃ byte, (run w s ⟨rid, off⟩ c d).delivery = .stream off byte ∧ (run w s ⟨rid, off⟩ c d).mt.ps.full = false ∧
        AgreeBelow w rid s.id1 off ∧ ∀ n, off ≤ n → byte n = w.hist s.id1 n) ∨
    ((run w s ⟨rid, off⟩ c d).mt.ps.full = true ∧
        (run w s ⟨rid, off⟩ c d).delivery = .snapshot (s.id1, s.masterOff) s.masterOff s.snapLen) ∨
    ((run w s ⟨rid, off⟩ c d).mt.ps.full = false ∧ ∃ left size, c.rdb = some (left, size) ∧
        (run w s ⟨rid, off⟩ c d).delivery = .snapshot d.rdbTok left size ∧ (rid = qId ∨ off < left)) := by
  have htr := tgtAt_truthful w s c rid off hlab
  have key : ∀ byte, (run w s ⟨rid, off⟩ c d).delivery = .stream off byte →
      AgreeBelow w rid s.id1 off ∧ ∀ n, off ≤ n → byte n = w.hist s.id1 n := by
    intro byte hdel
    obtain ⟨_, tid, ht, hag', hb⟩ := continues_what_the_target_holds w s (tgtAt rid off) c d hs hc hok hag htr off byte hdel
    have : tid = rid := by
      simp only [tgtAt] at ht
      injection ht with h1 _
      exact h1.symm
    subst this
    exact ⟨hag', hb⟩
  rcases run_spec (w := w) (sp := ⟨rid, off⟩) (d := d) hs hc with hF | hK | hC
  · exact Or.inr (Or.inl ⟨hF.full, hF.delivery⟩)
  · rcases hK.read with ⟨_, hdel, _⟩ | ⟨left, size, hr, hcase, _, hdel⟩
    · exact Or.inl ⟨_, hdel, hK.full, key _ hdel⟩
    · refine Or.inr (Or.inr ⟨hK.full, left, size, hr, hdel, ?_⟩)
      rcases hcase with h | h
      · left; simpa [SP.isInitial] using h
      · exact Or.inr h.2
  · exact Or.inl ⟨_, hC.delivery, hC.full, key _ hC.delivery⟩

/-- **bisync, frontier modes (pipeline / parallel)**: after ANY step list of the bidirectional replay
    (commits in any lane order, reports, flushes, single requests reaching the target, starts, a crash
    anywhere) the point a start selects is the end of the contiguous committed prefix (C14), and the
    connection that `syncMeta` makes from it continues the log exactly there or takes a snapshot. -/
theorem bisync_outcome_continue_or_full (W : Frontier.World) (s₀ : Frontier.Sys) (hi : Frontier.SysInv W s₀)
    (steps : List Frontier.Step) (db : Nat) (rid : Bytes) (off seq : Int)
    (hstart : (Frontier.startFrontier W.ver (Frontier.runSteps W s₀ steps).ns W.ids).1 = .point db rid off seq)
    (w : World) (s : Source) (c : Cache) (d : CData) (hs : SourceWF s) (hc : CacheWF c)
    (hok : CacheOK w s c d) (hag : Agree w s)
    (hlab : rid = s.id2 → rid ≠ s.id1 → NotYetCurrent s c) :
    (0 ≤ seq ∧ off = W.e seq ∧ ∀ j, 0 < j → j ≤ seq → j ∈ (Frontier.runSteps W s₀ steps).committed) ∧
    ((∃ byte, (run w s ⟨rid, W.e seq⟩ c d).delivery = .stream (W.e seq) byte ∧
        (run w s ⟨rid, W.e seq⟩ c d).mt.ps.full = false ∧
        AgreeBelow w rid s.id1 (W.e seq) ∧ ∀ n, W.e seq ≤ n → byte n = w.hist s.id1 n) ∨
     ((run w s ⟨rid, W.e seq⟩ c d).mt.ps.full = true ∧
        (run w s ⟨rid, W.e seq⟩ c d).delivery = .snapshot (s.id1, s.masterOff) s.masterOff s.snapLen) ∨
     ((run w s ⟨rid, W.e seq⟩ c d).mt.ps.full = false ∧ ∃ left size, c.rdb = some (left, size) ∧
        (run w s ⟨rid, W.e seq⟩ c d).delivery = .snapshot d.rdbTok left size ∧ (rid = qId ∨ W.e seq < left))) := by
  have h14 := C14.resume_is_committed_prefix W s₀ hi steps db rid off seq hstart
  refine ⟨h14, ?_⟩
  have := point_outcome w s c d hs hc hok hag rid off hlab
  rw [h14.2.1] at this
  exact this

/-- **bisync, sync mode**: for every interleaving of commits and restarts the target applied exactly
    the units `1..n`, a start answers the end of unit `n` under the run id recorded, and the connection
    made from it continues the log exactly there or takes a snapshot. -/
theorem bisync_sync_mode_outcome (W : Frontier.World) (db : Nat) (steps : List Frontier.SyncStep)
    (hmono : ∀ i, 0 ≤ i → W.e 0 ≤ W.e i) (hrid : Frontier.matchRun W.rid W.ids = true)
    (w : World) (s : Source) (c : Cache) (d : CData) (hs : SourceWF s) (hc : CacheWF c)
    (hok : CacheOK w s c d) (hag : Agree w s)
    (hlab : W.rid = s.id2 → W.rid ≠ s.id1 → NotYetCurrent s c) :
    ∃ n : Nat,
      (Frontier.syncRun W { ns := { root := some (W.rid, W.e 0, db) }, cur := 0 } steps).applied = Frontier.upTo n ∧
      (∃ db', Frontier.startLatest (Frontier.syncRun W { ns := { root := some (W.rid, W.e 0, db) }, cur := 0 } steps).ns W.ids
        = .point db' W.rid (W.e n) n) ∧
      ((∃ byte, (run w s ⟨W.rid, W.e n⟩ c d).delivery = .stream (W.e n) byte ∧
          (run w s ⟨W.rid, W.e n⟩ c d).mt.ps.full = false ∧
          AgreeBelow w W.rid s.id1 (W.e n) ∧ ∀ m, W.e n ≤ m → byte m = w.hist s.id1 m) ∨
       ((run w s ⟨W.rid, W.e n⟩ c d).mt.ps.full = true ∧
          (run w s ⟨W.rid, W.e n⟩ c d).delivery = .snapshot (s.id1, s.masterOff) s.masterOff s.snapLen) ∨
       ((run w s ⟨W.rid, W.e n⟩ c d).mt.ps.full = false ∧ ∃ left size, c.rdb = some (left, size) ∧
          (run w s ⟨W.rid, W.e n⟩ c d).delivery = .snapshot d.rdbTok left size ∧ (W.rid = qId ∨ W.e n < left))) := by
  obtain ⟨n, happ, hst⟩ := C14.sync_mode_exact W db steps hmono hrid
  exact ⟨n, happ, hst, point_outcome w s c d hs hc hok hag W.rid (W.e n) hlab⟩

/-! ### non-vacuity: C14's example (units 2, 1, 3 committed out of order, a flush, a crash in the
    middle of the journal clean-up; a start resumes at 1030 after unit 3) meets a source under the
    same run id whose backlog holds 1031: the log is continued exactly from 1030 -/

def sBi : Source := ⟨[114], [112], 900, true, 1, 1100, 1100, 10, true⟩
def wBi : World := ⟨fun _ n => UInt8.ofNat n.toNat, fun _ _ _ => 0⟩
def cBi : Cache := ⟨.memory, [], none, none⟩

example : (Frontier.startFrontier C14.exW.ver C14.exS.ns C14.exW.ids).1 = .point 0 [114] 1030 3 := by decide
example : SourceWF sBi := by refine ⟨?_, ?_, ?_, ?_, ?_, ?_, ?_, ?_, ?_⟩ <;> decide
example : Agree wBi sBi := fun _ _ _ => rfl
example : CacheWF cBi := ⟨trivial, trivial, trivial, fun _ => ⟨rfl, rfl⟩⟩
example : ∃ byte, (run wBi sBi ⟨[114], C14.exW.e 3⟩ cBi CData.empty).delivery = .stream 1030 byte := ⟨_, rfl⟩

end GunYu.Props.C06
