/-
  C04, session 4 — the LZF decision of the frame model (Model/RdbLzf.lean, the code after D33 with its
  growing output buffer) IS the decision of C03's content-producing decoder (Model/Rdb/Str.lean
  `lzfDecompress`, a buffer of exactly the declared length): neither the growth policy of the buffer nor
  the guard on the declared length changes which compressed strings are accepted.
-/
import GunYu.Props.C04L
import GunYu.Proofs.RdbLzfBridge

namespace GunYu.Props.C04
open GunYu GunYu.RdbLzf

/-- the buffer-following reader accepts exactly the inputs the full-buffer decoder accepts -/
theorem lzf_decision_is_full_buffer_decision (step : Nat) (inp : Bytes) (outlen : Nat) :
    (run step inp outlen).ok = (Rdb.lzfDecompress inp outlen).isSome := by
  rw [run_agrees]
  by_cases hg : outlen ≤ inp.length * 264
  · simp [hg]
  · -- the guard refuses: the decoder refuses as well (an accepted input produces at most 264 bytes per byte)
    have hw := walk_agrees step outlen inp.length inp 0 (min outlen step) [] [] (init_inv step outlen) rfl
    obtain ⟨_, _, hle, hok⟩ := walk_inv step outlen inp.length inp 0 (min outlen step) [] (init_inv step outlen)
    simp only [Nat.sub_zero] at hw
    cases hs : (Rdb.lzfDecompress inp outlen).isSome with
    | false => simp [hg]
    | true =>
      unfold Rdb.lzfDecompress at hs
      rw [hs] at hw
      have := hok hw
      omega

/-- in the frame model: an LZF string is walked over iff C03's decoder yields a value for it -/
theorem lzf_frame_decision (inp : Bytes) (outlen : Nat) :
    decompressOk inp outlen = (Rdb.lzfDecompress inp outlen).isSome :=
  lzf_decision_is_full_buffer_decision stepBytes inp outlen

/-! non-vacuity -/
example : Rdb.lzfDecompress [0, 97, 0xE0, 0, 0] 10 = some (List.replicate 10 97) := by decide
example : decompressOk [0, 97, 0xE0, 0, 0] 10 = true := by decide +kernel
example : decompressOk [0, 97, 0xE0, 0, 1] 10 = false ∧ Rdb.lzfDecompress [0, 97, 0xE0, 0, 1] 10 = none := by decide +kernel

end GunYu.Props.C04
