/-
  C13 × C18 — the closed loop in CLUSTER mode, composed formally (session 5).

  The closed-loop histories of C13 run a standalone pair. In cluster mode the
  same two steps happen per node: the link builds a unit in `clusterMode`
  (C18: single-slot or refused), commits it as ONE transaction whose every key
  - marker, business keys, record, index - hashes to the unit's slot
  (`C18.unit_single_slot_generated`), i.e. on the one master that owns that
  slot; that master propagates the blocks of the commit into ITS replication
  stream; the opposite link reads that node's stream with a parser in cluster
  mode and passes the blocks over (`mirrored_recognised`, which holds for any
  slot mode). One theorem, for one client block met by a cluster-mode link:
-/
import GunYu.Props.C13
import GunYu.Props.C13Names
import GunYu.Props.C18Nodes

namespace GunYu.Props.C13
open GunYu GunYu.BisyncUnit GunYu.Bisync

/-- **Cluster mode: one slot, one node, recognised there.** A link whose parser
    runs in cluster mode (any key resolver - whatever `COMMAND GETKEYS` answers)
    meets a client block (forwardable commands outside the reserved namespace,
    any values). Either the builder refuses it and the replay stops (cross-slot,
    unroutable: allowed), or exactly one unit comes out holding exactly the
    block's commands, and for every way of committing it under a generated
    checkpoint name:

    1. the slot of the unit is a cluster slot and EVERY key of the commit
       transaction - the business keys the resolver names, the marker, the record
       and the index key - hashes to it: the transaction executes on one master;
    2. every block that master propagates for the commit - from any store contents
       and clock, under every propagation variant, the lazy expiry of the previous
       marker ahead of the SET included - is passed over by the opposite link's
       parser, in cluster mode or standalone, with any resolver: no unit, no
       error, idle, numbering untouched. -/
theorem cluster_commit_single_node_and_recognised (pc : PCfg) (hf : FOK pc.filter) (hm : pc.mode = clusterMode)
    (b : Block) (hb : ∀ c ∈ b.body, Fgn pc c) (hne : b.body ≠ []) (pst : PState) (hi : Idle pst) :
    (∃ pst' e, parseBlock pc pst b = ([], pst', some (.build e))) ∨
    (∃ pst' e, parseBlock pc pst b = ([e], pst', none) ∧ e.unit.cmds = b.body.map norm ∧
      ∀ (cp : Bytes) (k : CommitKind) (p : Payload), GenCp cp →
        (e.unit.slot < 16384 ∧
          ∀ key ∈ unitKeys pc.resolver e.unit ++ controlKeys cp k e.unit p, Slot.hashSlotSpec key = e.unit.slot) ∧
        ∀ (pc2 : PCfg), FOK pc2.filter → ∀ (rcfg : RedisCfg) (now : Nat) (st : Store) (pst2 : PState), Idle pst2 →
          ∀ blk ∈ toBlocks rcfg true (commitCmds cp k e.unit p).length (execCmds rcfg now st (commitCmds cp k e.unit p)).2,
            ∃ pst3, parseBlock pc2 pst2 blk = ([], pst3, none) ∧ Idle pst3 ∧ pst3.seq = pst2.seq) := by
  rcases foreign_block pc hf b hb hne pst hi with ⟨p2, e2, h2, _, _, _, hc, hbu⟩ | ⟨p2, e2, h2, _⟩
  · right
    refine ⟨p2, e2, h2, hc, ?_⟩
    intro cp k p hg
    rw [hm] at hbu
    refine ⟨C18.unit_single_slot_generated pc.resolver (b.body.map norm) e2.unit cp k p hg hbu, ?_⟩
    intro pc2 hf2 rcfg now st pst2 hi2
    have hsafe : ∀ c ∈ e2.unit.cmds, TxnSafe c := by
      rw [hc]
      intro c hcm
      obtain ⟨c0, hc0, rfl⟩ := List.mem_map.mp hcm
      exact norm_txnSafe c0 (hb c0 hc0).safe
    exact mirrored_recognised pc2 hf2 rcfg now st cp k e2.unit p hsafe pst2 hi2
  · exact Or.inl ⟨p2, e2, h2⟩

/-! ### non-vacuity -/

private def pcC : PCfg := ⟨Filter.buildOutput {}, clusterMode, defaultResolver⟩
private def setC (k v : Bytes) : Cmd := ⟨[83,69,84], [k, v]⟩      -- "SET" k v
private def kA : Bytes := [123,97,125,49]                           -- "{a}1"
private def kA2 : Bytes := [123,97,125,50]                          -- "{a}2"
private def kB : Bytes := [123,98,125,49]                           -- "{b}1"

private theorem setC_fgn (k v : Bytes) (hk : k.head? ≠ some 114 ∧ k.head? ≠ some 47) : Fgn pcC (setC k v) := by
  have hn : lower (setC k v).name = wSet := by show lower [83,69,84] = wSet; decide
  apply fgn_of_keys _ (setC k v) (txnSafe_of_name _ wSet hn safe_set) (by rw [hn]; decide) (by rw [hn]; decide)
    (by rw [hn]; exact default_filter_ok.setCmd) [0]
  · rw [hn]
    exact keyIndexes_generic wSet k [v] (by decide +kernel) (by decide +kernel)
  · intro i hi
    have : i = 0 := by simpa using hi
    rw [this]
    exact word_not_res _ hk
  · simp
  · intro h
    rw [hn] at h
    rcases h with h | h <;> exact absurd h (by decide)

-- a same-slot transaction comes out as one unit in the slot of {a}; a cross-slot one stops the replay
example : ((parseBlock pcC {} (.multi [setC kA [118], setC kA2 [118]])).1.map (fun e => (e.unit.slot, e.unit.cmds.length))) =
    [(15495, 2)] := by decide +kernel
example : (parseBlock pcC {} (.multi [setC kA [118], setC kB [118]])).2.2 ≠ none ∧
    (parseBlock pcC {} (.multi [setC kA [118], setC kB [118]])).1 = [] := by decide +kernel
-- the theorem applied to the same-slot transaction: its second disjunct is the one that holds
example : ∃ pst' e, parseBlock pcC {} (.multi [setC kA [118], setC kA2 [118]]) = ([e], pst', none) ∧
    ∀ key ∈ controlKeys (newCpName [1,2]) .journal e.unit ⟨[123,125], [[102],[118]], 4⟩, Slot.hashSlotSpec key = e.unit.slot := by
  have hb : ∀ c ∈ (Block.multi [setC kA [118], setC kA2 [118]]).body, Fgn pcC c := by
    intro c hc
    have : c = setC kA [118] ∨ c = setC kA2 [118] := by simpa [Block.body] using hc
    rcases this with rfl | rfl <;> exact setC_fgn _ _ (by decide)
  rcases cluster_commit_single_node_and_recognised pcC default_filter_ok rfl _ hb (by simp [Block.body]) {} ⟨rfl, rfl⟩ with
    ⟨p1, e1, h1⟩ | ⟨p1, e1, h1, _, h3⟩
  · exfalso
    have : (parseBlock pcC {} (.multi [setC kA [118], setC kA2 [118]])).2.2 = none := by decide +kernel
    rw [h1] at this
    cases this
  · refine ⟨p1, e1, h1, ?_⟩
    intro key hkey
    exact (h3 (newCpName [1,2]) .journal ⟨[123,125], [[102],[118]], 4⟩ (Or.inl ⟨[1,2], rfl⟩)).1.2 key
      (List.mem_append_right _ hkey)

end GunYu.Props.C13
