/-
  C09, the crash: "at no instant, including after a crash and restart at any point,
  has the target executed only part of a source transaction".

  `Props/C09.lean` proves that a source transaction goes out as ONE MULTI/EXEC
  block (`source_txn_is_one_block_src`). Here the target dies after ANY number of
  requests of ANY run that contains a complete source transaction:
  `crash_never_splits_txn` -- what it has executed is the forwarded stream up to
  a point that is NOT strictly inside the transaction: none of its commands, or
  all of them. With `Props.C02.lives_lose_nothing` (transactional lives: the
  target holds exactly the specification up to the stored position, and the next
  life re-reads the stream from there) this holds across any number of restarts:
  a transaction cut by a crash was not executed at all, lies wholly after the
  stored position, and is read again as a whole by the next life.
-/
import GunYu.Props.C09
import GunYu.Proofs.TxnShape
import GunYu.Proofs.TwoRuns
import GunYu.Proofs.ResumedDb

namespace GunYu.Props.C09
open GunYu GunYu.Sender GunYu.Target

theorem dataOut_take_prefix (out : List Batch) (m : Nat) : dataOut (out.take m) <+: dataOut out := by
  have : out = out.take m ++ out.drop m := (List.take_append_drop m out).symm
  conv => rhs; rw [this]
  rw [dataOut_append]
  exact List.prefix_append _ _

theorem allWF_take {out : List Batch} (h : AllWF out) (m : Nat) : AllWF (out.take m) :=
  fun b hb => h b (List.mem_of_mem_take hb)

/-- **A crash never leaves part of a source transaction on the target.**
    Transactional resumable mode, ANY batching limits, ANY schedule
    `pre ++ [MULTI] ++ body ++ [EXEC] ++ post` whose brackets are not nested
    (hypothesis on the source, `Props.C01.noNested_of_items`), ANY number `k` of
    requests after which the target dies. Then the data commands it has executed
    are `D`, applied in order from the connection's database, where `D` is either
    a prefix of what was forwarded BEFORE the transaction (nothing of the
    transaction executed) or extends everything forwarded before it by ALL the
    transaction's forwarded commands (the whole transaction executed). -/
theorem crash_never_splits_txn (c : SCfg) (hc : c.txnMode = true) (hres : c.resume = true)
    (pre : List Ev) (m : Item) (body : List Ev) (e : Item) (post : List Ev)
    (hndp : NoDone pre) (hndb : NoDone body)
    (hnn : C01.NoNested false (pre ++ ([Ev.item m] ++ body ++ [Ev.item e])))
    (hm : m.cmd = bMulti) (he : e.cmd = bExec)
    (hbody : ∀ ev ∈ body, ∀ it, ev = .item it → it.cmd ≠ bExec)
    (hne : fwd .begin_ body ≠ [])
    (hnneg : NonNeg (pre ++ [Ev.item m] ++ body ++ [Ev.item e] ++ post))
    (t : TState) (hq : t.queued = none) (k : Nat) :
    ∃ D, (applyLog t ((run c initS (pre ++ [Ev.item m] ++ body ++ [Ev.item e] ++ post)).2.flatten.take k)).applied
        = t.applied ++ (seqApplied t.cur D).2 ∧
      (D <+: fwd .no pre ∨ fwd .no pre ++ fwd .begin_ body <+: D) := by
  obtain ⟨outPre, s1, block, extra, hrun, hdpre, _, hdblock, _⟩ :=
    source_txn_is_one_block_src c hc pre m body e hndp hndb hnn hm he hbody hne
  -- the wire of the whole schedule
  have hnd4 : NoDone (pre ++ [Ev.item m] ++ body ++ [Ev.item e]) := by
    intro x hx
    rcases List.mem_append.mp hx with h | h
    · rcases List.mem_append.mp h with h | h
      · rcases List.mem_append.mp h with h | h
        · exact hndp x h
        · simp at h; subst h; simp
      · exact hndb x h
    · simp at h; subst h; simp
  generalize hevs : pre ++ [Ev.item m] ++ body ++ [Ev.item e] ++ post = evs at hnneg ⊢
  have hwire : (run c initS evs).2 = outPre ++ block :: (extra ++
      (run c (run c initS (pre ++ [Ev.item m] ++ body ++ [Ev.item e])).1 post).2) := by
    rw [← hevs, run_append c initS _ post hnd4]
    show (run c initS (pre ++ [Ev.item m] ++ body ++ [Ev.item e])).2 ++ _ = _
    rw [hrun]
    simp [List.append_assoc]
  have hwf := run_wf c initS evs
  have hshape := run_shape_txn c hc hres initS (Or.inl rfl) evs hnneg
  obtain ⟨n, E', hsame, hE', _⟩ := crash_whole_batches_prefix (run c initS evs).2 hwf t hq k
  -- an unbracketed batch carries no data in this mode
  have hE'data : dataB E' = [] := by
    rcases hE' with rfl | ⟨b, hb, hstrip, hpre⟩
    · rfl
    · rcases hshape b hb with hnd | ⟨⟨bd, _, hbb⟩, _⟩
      · have := prefix_filterMap cmdOfReq hpre
        unfold dataB at hnd ⊢
        rw [hnd] at this
        exact List.prefix_nil.mp this
      · exfalso
        rw [hbb, stripB_block] at hstrip
        have := congrArg List.length hstrip
        simp at this
        omega
  have hplain : ∀ r ∈ bodies ((run c initS evs).2.take n) ++ E', Plain r = true := by
    intro r hr
    rcases List.mem_append.mp hr with h | h
    · exact bodies_plain _ (allWF_take hwf n) r h
    · rcases hE' with rfl | ⟨b, hb, hstrip, hpre⟩
      · cases h
      · have hb' := bodies_plain [b] (fun x hx => by
          have hxb : x = b := by simpa using hx
          rw [hxb]; exact hwf b hb) r
        apply hb'
        simp only [bodies, List.flatMap_cons, List.flatMap_nil, List.append_nil, hstrip]
        exact hpre.subset h
  refine ⟨dataOut ((run c initS evs).2.take n), ?_, ?_⟩
  · rw [hsame.1, (foldl_execReq_seq _ hplain t).2, dataB_append, hE'data, List.append_nil,
      dataB_bodies _ (allWF_take hwf n)]
  · rw [hwire]
    by_cases hn : n ≤ outPre.length
    · left
      rw [List.take_append_of_le_length hn, ← hdpre]
      exact dataOut_take_prefix outPre n
    · right
      have hn' : outPre.length < n := by omega
      obtain ⟨j, hj⟩ : ∃ j, n = outPre.length + (j + 1) := ⟨n - outPre.length - 1, by omega⟩
      rw [hj, List.take_append, List.take_of_length_le (by omega)]
      have : outPre.length + (j + 1) - outPre.length = j + 1 := by omega
      rw [this, List.take_succ_cons, dataOut_append]
      have hcons : dataOut (block :: List.take j (extra ++
          (run c (run c initS (pre ++ [Ev.item m] ++ body ++ [Ev.item e])).1 post).2)) =
          dataB block ++ dataOut (List.take j (extra ++
          (run c (run c initS (pre ++ [Ev.item m] ++ body ++ [Ev.item e])).1 post).2)) := by
        simp [dataOut]
      rw [hcons, hdpre, hdblock, ← List.append_assoc]
      exact List.prefix_append _ _

/-! Non-vacuity: the example transaction of `Props/C09.lean` (three commands, batch
    count 2, ticks inside), followed by one more command; every hypothesis is
    discharged, and the executed commands at every crash point are computed: 1
    (before the transaction) up to request 11, then 4 (the whole transaction), never
    2 or 3. -/
def wPost : List Ev := [wSet 101 160, .batchTick]
example (k : Nat) : True := by
  have := crash_never_splits_txn wCfg rfl rfl wPre wM wBody wE wPost
    (by unfold NoDone; decide +kernel) (by unfold NoDone; decide +kernel)
    (by simp [C01.NoNested, wPre, wM, wBody, wE, wSet, bMulti, bExec])
    rfl rfl
    (by intro ev hev it hit; simp only [wBody, wSet, List.mem_cons, List.not_mem_nil, or_false] at hev
        rcases hev with rfl | rfl | rfl | rfl | rfl <;> (cases hit <;> decide))
    (by decide +kernel)
    (nonNegB_spec _ (by decide +kernel)) {} rfl k
  trivial
example : (List.range 20).map (fun k =>
    (applyLog {} ((run wCfg initS (wPre ++ [Ev.item wM] ++ wBody ++ [Ev.item wE] ++ wPost)).2.flatten.take k)).applied.length)
    = [0, 0, 0, 0, 0, 1, 1, 1, 1, 1, 1, 1, 1, 1, 4, 4, 4, 4, 5, 5] := by decide +kernel

end GunYu.Props.C09
