/-
  C08 — a stream writer left OPEN across an id-level operation (session 5).

  The callers' protocol closes the writers before an id switch (`Disk.okOp`), but the code does
  not depend on it: `newRunId` scans the new directory FIRST and closes the old index — hence the
  writer still attached to it — afterwards (`old.Close()`), `DelRunId` removes the directory and
  then resets the index. The writer's `closeAof` then runs AFTER the directory-level syscalls:

    * the header rewrite goes through the open DESCRIPTOR: it lands in the file wherever the
      rename moved it (`<base>/<new>/<left>.aof`), or in an unlinked inode (DelRunId: no effect);
    * the removal of an EMPTY live segment goes by the OLD PATH: after a rename it fails (ENOENT,
      the 16-byte file stays in the new directory, where the scan ignores it), after DelRunId too.

  `lateCloseRoot` is that effect on the base directory; `open_writer_switch_crash_true` /
  `open_writer_del_crash_true`: cut at every syscall of the switch and with the late header rewrite
  torn at every length, every id still serves only its own bytes.
-/
import GunYu.Props.C08Root

namespace GunYu.Props.C08
open GunYu GunYu.Store GunYu.StoreFs GunYu.StoreFsX

theorem dirOk_lateClose {src : Nat → UInt8} {fs : FS} (h : DirOk src fs) (g : DSeg) (k : Nat)
    (hlen : ∀ c, fs.get (aofName g.left) = some c → headerSize ≤ c.length) :
    DirOk src (fs.apply (lateCloseOp g k)) := by
  obtain ⟨h1, h2, h3⟩ := h
  unfold lateCloseOp
  split
  · exact ⟨FsTrue_applyX h1 _ trivial, nodup_apply h2 _, RdbOkP_apply h3 _ trivial⟩
  · refine ⟨FsTrue_applyX h1 _ ⟨?_, hlen⟩, nodup_apply h2 _, RdbOkP_apply h3 _ rfl⟩
    have : (closedHeader g.data).length = headerSize := by simp [closedHeader, leBytes, headerSize]
    rw [List.length_take]; omega

theorem rootOk_lateClose {srcOf : String → Nat → UInt8} {r : Root} (h : RootOk srcOf r) (tgt : Option String)
    (g : DSeg) (k : Nat)
    (hlen : ∀ id fs c, tgt = some id → r.get id = some fs → fs.get (aofName g.left) = some c → headerSize ≤ c.length) :
    RootOk srcOf (lateCloseRoot r tgt g k) := by
  unfold lateCloseRoot
  cases tgt with
  | none => exact h
  | some id =>
    simp only []
    cases hg : r.get id with
    | none => exact h
    | some fs => exact h.set id _ (dirOk_lateClose (h.get hg) g k (fun c hc => hlen id fs c rfl hg hc))

/-- **open_writer_switch_crash_true.** `SetRunId(new)` while a stream writer of the current id is
    still open on live segment `g`: the directory-level syscalls cut anywhere (`n`), and — when all
    of them were issued — the writer's late close, its header rewrite torn after any `k` bytes:
    every id serves only its own bytes. Hypotheses: the base directory was truthful; the rename
    hypothesis of `set_run_id_crash_true` (asked only if the operation renames); the live segment's
    file, where the late close finds it, has its 16-byte header (written when the writer was
    created; the driver checks it on every scripted instance). -/
theorem open_writer_switch_crash_true (srcOf : String → Nat → UInt8) (r : Root) (h : RootOk srcOf r) (cur new : String)
    (hcont : setRunIdRenames r cur new = true → ∀ fs, r.get cur = some fs → FsTrue (srcOf new) fs)
    (g : DSeg) (n k : Nat)
    (hlen : ∀ id fs c, lateCloseTarget r cur new g = some id →
      (r.applyAllSys ((setRunIdSys r cur new).take n)).get id = some fs →
      fs.get (aofName g.left) = some c → headerSize ≤ c.length)
    (id' : String) (verify : Bool) (off : Nat) (bs : Bytes) (e : ServeEnd)
    (hs : serveRoot (lateCloseRoot (r.applyAllSys ((setRunIdSys r cur new).take n))
      (lateCloseTarget r cur new g) g k) id' verify off = some (bs, e)) :
    ∀ j b, bs[j]? = some b → b = srcOf id' (off + j) :=
  rootOk_bytes_true srcOf _ (rootOk_lateClose (setRunId_crash_ok r h cur new hcont n) _ g k hlen) id' verify off bs e hs

/-- **open_writer_del_crash_true.** `DelRunId` with a writer still open: `os.RemoveAll` first (any
    order, cut anywhere), then the reset closes the writer — its header rewrite goes to an unlinked
    inode, the removal of an empty segment finds nothing: NO directory effect (`lateCloseRoot … none`),
    whatever was deleted stays deleted and every id serves only its own bytes. -/
theorem open_writer_del_crash_true (srcOf : String → Nat → UInt8) (r : Root) (h : RootOk srcOf r) (id : String)
    (order : List FName) (g : DSeg) (n k : Nat)
    (id' : String) (verify : Bool) (off : Nat) (bs : Bytes) (e : ServeEnd)
    (hs : serveRoot (lateCloseRoot (r.applyAllSys ((delRunIdSys r id order).take n)) none g k) id' verify off = some (bs, e)) :
    ∀ j b, bs[j]? = some b → b = srcOf id' (off + j) :=
  rootOk_bytes_true srcOf _ (delRunId_crash_ok r h id order n) id' verify off bs e hs

/-! ### non-vacuity -/

def exOpenRoot : Root := [("A", [(.aof 100, fixHeader ++ [1, 2, 3])])]
def exOpenSeg : DSeg := { left := 100, data := [1, 2, 3] }

-- the rename, then the late header rewrite lands in the NEW directory
example : setRunIdSys exOpenRoot "A" "C" = [.renameDir "A" "C"] := by decide +kernel
example : lateCloseTarget exOpenRoot "A" "C" exOpenSeg = some "C" := by decide +kernel
example : (lateCloseRoot (exOpenRoot.applyAllSys (setRunIdSys exOpenRoot "A" "C")) (some "C") exOpenSeg 16).get "C" =
    some [(.aof 100, closedHeader [1, 2, 3] ++ [1, 2, 3])] := by decide +kernel
-- … and the segment then passes verification under the new id
example : serveRoot (lateCloseRoot (exOpenRoot.applyAllSys (setRunIdSys exOpenRoot "A" "C")) (some "C") exOpenSeg 16)
    "C" true 101 = some ([2, 3], ServeEnd.eof) := by decide +kernel
-- torn after 5 bytes: served without verification, refused with it
example : serveRoot (lateCloseRoot (exOpenRoot.applyAllSys (setRunIdSys exOpenRoot "A" "C")) (some "C") exOpenSeg 5)
    "C" true 101 = some ([], ServeEnd.corrupt) := by decide +kernel
-- an EMPTY live segment after a rename: the removal by the old path hits nothing
example : lateCloseTarget [("A", [(.aof 100, fixHeader)])] "A" "C" { left := 100, data := [] } = none := by decide +kernel

end GunYu.Props.C08
