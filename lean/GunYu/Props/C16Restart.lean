/-
  C16 × C08 — a follower that is KILLED in the middle of a transfer and re-opens what the
  file operations issued so far left in its cache directories still holds, under every run
  id, only that id's history.

  Props/C16.lean's `Step.restart` is a CLEAN restart (directories unchanged, the storer
  forgets its current id). Here the restart is from a CRASH IMAGE: the directory of a run
  id is an arbitrary `fs : StoreFs.FS` (C08's directory images: whatever prefix of the
  writers' file operations was issued, the last append possibly torn, a `.rdb.tmp` possibly
  left behind), and the next process re-opens it with C08's `reopen` (`NewStorer` +
  `SetRunId` → `initDataSet` + `TruncateGap`).

  * `dataOfReopened`              : what `reopen fs` holds, in C16's vocabulary (`Replica.Data`)
  * `reopened_data_faithful`      : a truthful image (C08 `FsTrue` + the snapshot clause)
                                    re-opens to `Data.Faithful` contents
  * `StepC`, `stepC`, `StepC.Ok`  : C16's steps + `crash imgs`
  * `follower_prefix_of_leader_crash_runs` : `FaithfulAt` for every id and `WF` are kept
                                    through ANY list of sessions / clean restarts / own
                                    appends / crash restarts
  * `crash_image_step_ok`         : the hypothesis on an image is what C08 proves of every
                                    crash image of every writers' script
                                    (`crash_images_truthful` + `script_ops_true`,
                                    `crash_snapshot_true`), plus the explicit link
                                    `SnapRecvOk` (what the snapshot writer RECEIVED is the
                                    history's snapshot — C16's `Shape.rdb`).

  Quantifier: all directory images, all lists of images, all step lists; no bounds.
  Core Lean only.
-/
import GunYu.Model.Replica
import GunYu.Proofs.Replica
import GunYu.Props.C16
import GunYu.Model.StoreFs
import GunYu.Model.ReplicaReopen
import GunYu.Proofs.StoreFs
import GunYu.Proofs.StoreFsTrue
import GunYu.Props.C08
import GunYu.Proofs.ReplicaRestart

namespace GunYu.Props.C16
open GunYu GunYu.Replica GunYu.Store GunYu.StoreFs

/-! ### what a re-opened directory holds, in C16's vocabulary -/

/-- a directory image is a copy of history `id` (the hypothesis of the crash step): every
    stream file holds, after its header, bytes of history `id` at the file's offsets (C08's
    `FsTrue`), and a committed snapshot file that `reopen` OFFERS holds history `id`'s
    snapshot at the offset in its name. -/
def ImageOk (h : Hist UInt8) (id : Replica.Id) (fs : FS) : Prop :=
  FsTrue (fun o => h.byte id o) fs ∧
    ∀ L S c, (reopen fs).rdb = some (L, S) → fs.get (rdbName L S) = some c → c = h.snap id L

/-- **reopened_data_faithful** (C08 → C16). Whatever instant the process died at: if the
    image is truthful for `id` (C08 `FsTrue` against history `id`'s bytes) and the snapshot
    file it offers is history `id`'s snapshot, then what the fresh `Storer` holds after
    re-opening the directory is `Data.Faithful` — byte-identical to history `id` on one
    contiguous range, the snapshot taken at the range's base. Uses C08's
    `reopen_range_contiguous` (`reopen_contig`), `reopen_segs_true`, `reopen_snapshot_aligned`. -/
theorem reopened_data_faithful (h : Hist UInt8) (id : Replica.Id) (fs : FS)
    (ht : FsTrue (fun o => h.byte id o) fs)
    (hs : ∀ L S c, (reopen fs).rdb = some (L, S) → fs.get (rdbName L S) = some c → c = h.snap id L) :
    ∀ d, dataOfReopened fs = some d → d.Faithful h id := by
  intro d hd
  unfold dataOfReopened at hd
  simp only [] at hd
  cases hsegs : (reopen fs).segs with
  | nil =>
    rw [hsegs] at hd
    simp only [] at hd
    cases hr : (reopen fs).rdb with
    | none => rw [hr] at hd; simp at hd
    | some p =>
      obtain ⟨L, S⟩ := p
      rw [hr] at hd
      simp only [Option.some.injEq] at hd
      subst hd
      exact ⟨by simp [hseg], fun s hsn => hs L S s hr hsn⟩
  | cons g rest =>
    rw [hsegs] at hd
    simp only [Option.some.injEq] at hd
    subst hd
    refine ⟨?_, ?_⟩
    · have hc : Contig (g :: rest) := hsegs ▸ reopen_contig fs
      have htr : ∀ x ∈ g :: rest, SegTrue (fun o => h.byte id o) x :=
        fun x hx => reopen_segs_true ht x (hsegs ▸ hx)
      exact contig_true_hseg h id rest g hc htr
    · intro s hsn
      cases hr : (reopen fs).rdb with
      | none => rw [hr] at hsn; simp at hsn
      | some p =>
        obtain ⟨L, S⟩ := p
        rw [hr] at hsn
        have hal := Props.C08.reopen_snapshot_aligned fs L S g rest hr hsegs
        have := hs L S s hr hsn
        rw [this]
        show h.snap id L = h.snap id g.left
        rw [hal]

/-- the translation loses nothing (1): the result is `none` exactly when the re-opened
    store indexes no segment and offers no snapshot -/
theorem reopened_none_iff (fs : FS) :
    dataOfReopened fs = none ↔ (reopen fs).segs = [] ∧ (reopen fs).rdb = none := by
  unfold dataOfReopened
  simp only []
  cases hsegs : (reopen fs).segs with
  | cons g rest => simp
  | nil =>
    cases hr : (reopen fs).rdb with
    | none => simp
    | some p => obtain ⟨L, S⟩ := p; simp

/-- the translation loses nothing (2): the stream range of the translated contents is the
    range `[firstLeft, lastRight]` the re-opened index reports (C08's
    `reopen_range_contiguous` / `reopen_range_covered` speak about) -/
theorem reopened_data_range (fs : FS) (d : Replica.Data UInt8) (hd : dataOfReopened fs = some d)
    (hne : (reopen fs).segs ≠ []) :
    firstLeft (reopen fs).segs = some d.base ∧ lastRight (reopen fs).segs = some d.right ∧
      d.bytes = segsBytes (reopen fs).segs := by
  unfold dataOfReopened at hd
  simp only [] at hd
  cases hsegs : (reopen fs).segs with
  | nil => exact absurd hsegs hne
  | cons g rest =>
    rw [hsegs] at hd
    simp only [Option.some.injEq] at hd
    subst hd
    have hc : Contig (g :: rest) := hsegs ▸ reopen_contig fs
    exact ⟨rfl, contig_right rest g hc, rfl⟩

/-- the translation loses nothing (3): a snapshot that the re-opened store OFFERS is kept,
    with the content of the committed file, at the base of the contents -/
theorem reopened_snapshot_kept (fs : FS) (L S : Nat) (hr : (reopen fs).rdb = some (L, S)) :
    ∃ d c, dataOfReopened fs = some d ∧ d.base = L ∧ d.snap = some c ∧
      fs.get (rdbName L S) = some c := by
  obtain ⟨⟨content, hmem⟩, _⟩ := Props.C08.tmp_snapshot_not_offered fs L S hr
  obtain ⟨c, hget, _⟩ := get_some_of_mem hmem
  unfold dataOfReopened
  simp only []
  cases hsegs : (reopen fs).segs with
  | nil =>
    rw [hr]
    exact ⟨_, c, rfl, rfl, hget, hget⟩
  | cons g rest =>
    have hal := Props.C08.reopen_snapshot_aligned fs L S g rest hr hsegs
    rw [hr]
    exact ⟨_, c, rfl, hal.symm, hget, hget⟩

/-! ### the crash step -/

/-- what can happen to a follower's cache between two looks at it: C16's `Step`
    (session / clean restart / own append), or the process is KILLED — in the middle of a
    snapshot or stream transfer, of a rotation, of a reset — and restarts on what is on disk:
    `imgs` lists, for every run-id directory of the cache, the directory image the dead
    process left (C08's `FS`; for a writers' script: `crashImage`). The byte type is the
    driver's `UInt8` wherever a crash step is executed (`stepC`). -/
inductive StepC (β : Type)
  | plain (s : Step β)
  | crash (imgs : List (Replica.Id × FS))

/-- `step` extended by the crash restart. Disk backend: a fresh `Storer` over the directory
    tree — no current id (as after `Step.restart`), every run-id directory re-opened from
    its image (`dataOfReopened`, i.e. C08's `reopen`). Memory backend: a memory cache does
    not survive the process. -/
def stepC (bk : Backend) (F : Store UInt8) : StepC UInt8 → Store UInt8
  | .plain s => step bk F s
  | .crash imgs => match bk with
    | .disk => ⟨"", imgs.map (fun p => (p.1, dataOfReopened p.2))⟩
    | .mem => ⟨"", []⟩

/-- the step keeps faithfulness: C16's `Step.Ok` for the plain steps; for a crash, every
    directory image is a copy of the history of the id it is filed under (`ImageOk`: C08's
    `FsTrue` + the snapshot clause — discharged for the writers' own crash images by
    `crash_image_step_ok`). No relation between the images and the store before the crash
    is needed, and the ids need not be distinct. -/
def StepC.Ok (h : Hist UInt8) (F : Store UInt8) : StepC UInt8 → Prop
  | .plain s => s.Ok h F
  | .crash imgs => ∀ p ∈ imgs, ImageOk h p.1 p.2

/-- one step of the extended system keeps `FaithfulAt` for every id and `WF` -/
theorem stepC_ok (h : Hist UInt8) (bk : Backend) (F : Store UInt8) (st : StepC UInt8)
    (hst : st.Ok h F) (hwf : WF bk F) (hF : ∀ id, FaithfulAt h F.dirs id) :
    (∀ id, FaithfulAt h (stepC bk F st).dirs id) ∧ WF bk (stepC bk F st) := by
  cases st with
  | plain s => exact step_ok h bk F s hst hwf hF
  | crash imgs =>
    cases bk with
    | disk =>
      refine ⟨?_, Or.inl rfl, by simp [stepC]⟩
      intro id d hd
      simp only [stepC, List.mem_map, Prod.mk.injEq] at hd
      obtain ⟨p, hp, hid, hdp⟩ := hd
      have hok := hst p hp
      rw [hid] at hok
      exact reopened_data_faithful h id p.2 hok.1 hok.2 d hdp
    | mem =>
      refine ⟨?_, ?_, fun _ => rfl, by simp [stepC]⟩
      · intro id d hd; cases hd
      · intro p hp; cases hp

/-- **follower_prefix_of_leader**, any history of the follower INCLUDING process deaths:
    sessions against leaders in arbitrary (faithful, changing) states, each interrupted
    anywhere; clean restarts; periods as leader; and crash restarts — the process killed at
    any instant of a transfer, every directory re-opened from whatever the file operations
    issued so far (the last append torn, a temporary snapshot left behind) produced.
    Whatever the follower stores under any id is byte-identical to that id's history at the
    same offsets, and the store stays well formed. (`follower_prefix_of_leader_runs` over
    `StepC`; the crash case is `reopened_data_faithful`.) -/
theorem follower_prefix_of_leader_crash_runs (h : Hist UInt8) (bk : Backend) :
    ∀ (steps : List (StepC UInt8)) (F : Store UInt8),
      (∀ (pre : List (StepC UInt8)) (st : StepC UInt8) (post : List (StepC UInt8)),
        steps = pre ++ st :: post → st.Ok h (pre.foldl (stepC bk) F)) →
      WF bk F → (∀ id, FaithfulAt h F.dirs id) →
      (∀ id, FaithfulAt h (steps.foldl (stepC bk) F).dirs id) ∧
        WF bk (steps.foldl (stepC bk) F) := by
  intro steps
  induction steps with
  | nil => intro F _ hwf hF; exact ⟨hF, hwf⟩
  | cons st rest ih =>
    intro F hok hwf hF
    have h1 := stepC_ok h bk F st (hok [] st rest rfl) hwf hF
    simp only [List.foldl_cons]
    apply ih _ _ h1.2 h1.1
    intro pre st' post he
    have := hok (st :: pre) st' post (by rw [he]; rfl)
    simpa using this

/-- the extension is conservative: a list of plain steps runs exactly as in Props/C16.lean -/
theorem stepC_plain_runs (bk : Backend) (steps : List (Step UInt8)) (F : Store UInt8) :
    (steps.map StepC.plain).foldl (stepC bk) F = steps.foldl (step bk) F := by
  induction steps generalizing F with
  | nil => rfl
  | cons s rest ih => simp only [List.map_cons, List.foldl_cons]; exact ih _

/-- after a crash restart the follower's next session starts like a first contact: the
    storer has no current id, whatever the images hold -/
theorem crash_forgets_cur (bk : Backend) (F : Store UInt8) (imgs : List (Replica.Id × FS)) :
    (stepC bk F (.crash imgs)).cur = "" := by
  cases bk <;> rfl

/-! ### the hypothesis of the crash step is what C08 proves -/

/-- the link that is NOT C08's: every COMPLETE snapshot the follower's snapshot writer
    received along the script (C08's ghost `received`: `size` bytes announced at offset
    `L`, all `size` bytes seen, the writer detached) is history `id`'s snapshot at `L`.
    This is what C16's session theorem provides: the leader's snapshot reply has
    `Shape.rdb` (Proofs/Replica.lean, `sendData_shape`: the `CONTINUE` chunks after
    `META{offset = base, size = |snap|}` flatten to a prefix of `h.snap id base`), and
    `rdbLoop_complete_eq` says that a transfer that sees all `size` bytes received exactly
    that snapshot. Stated as a hypothesis because the writers' script (`DOp`s) and the
    session (`sessionV`) are two models of the same run; the harness ties them. -/
def SnapRecvOk (h : Hist UInt8) (id : Replica.Id) (ops : List DOp) : Prop :=
  ∀ j L S c, j ≤ ops.length → received (ops.take j) = some ⟨L, S, c, false⟩ → c.length = S →
    c = h.snap id L

/-- **crash_image_step_ok** (C08 re-exported in C16's terms). For EVERY script `ops` of the
    disk writers that respects the callers' protocol (`wf`) and appends history `id`'s bytes
    at the offsets they are appended at (`SrcOk` — for a follower: `aofRecv` appends the
    payload of `CONTINUE` messages, which `Shape.aof` says are history's), at EVERY instant
    the process may die (`n` file operations issued, the last one — if an append — torn
    after `k` bytes), the directory image satisfies the hypothesis of the crash step:
    `FsTrue` is C08's `crash_images_truthful` + `script_ops_true` (`crashImage_true`), the
    snapshot clause is C08's `crash_snapshot_true` (an offered snapshot is a committed file
    holding exactly what the snapshot writer RECEIVED, complete) + `SnapRecvOk`. -/
theorem crash_image_step_ok (h : Hist UInt8) (id : Replica.Id) (l m : Nat) (ops : List DOp)
    (hwf : (Disk.init l m).wf ops) (hsrc : SrcOk (fun o => h.byte id o) (Disk.init l m) ops)
    (hrecv : SnapRecvOk h id ops) (n k : Nat) :
    ImageOk h id (crashImage [] (scriptOps (Disk.init l m) ops) n k) := by
  refine ⟨crashImage_true _ l m ops hwf hsrc n k, ?_⟩
  intro L S c hr hg
  obtain ⟨c', hg', _, hlen, j, hj, hrc⟩ := Props.C08.crash_snapshot_true l m ops hwf n k L S hr
  rw [hg'] at hg
  cases hg
  exact hrecv j L S _ hj hrc hlen

/-- … hence what a killed follower re-opens from ANY crash image of ANY such script is a
    faithful copy of history `id` (`crash_image_step_ok` + `reopened_data_faithful`) -/
theorem crash_image_data_faithful (h : Hist UInt8) (id : Replica.Id) (l m : Nat) (ops : List DOp)
    (hwf : (Disk.init l m).wf ops) (hsrc : SrcOk (fun o => h.byte id o) (Disk.init l m) ops)
    (hrecv : SnapRecvOk h id ops) (n k : Nat) :
    ∀ d, dataOfReopened (crashImage [] (scriptOps (Disk.init l m) ops) n k) = some d →
      d.Faithful h id :=
  let ok := crash_image_step_ok h id l m ops hwf hsrc hrecv n k
  reopened_data_faithful h id _ ok.1 ok.2

/-- one run-id directory of a killed follower: the writers' script that produced it (from
    the empty directory `NewStorer` creates) and the instant of death -/
structure CrashDir where
  id : Replica.Id
  logSize : Nat
  maxSize : Nat
  ops : List DOp
  /-- file operations issued before the process died -/
  n : Nat
  /-- bytes of the last operation (if an append) that reached the file -/
  k : Nat

/-- the directory image the dead process left -/
def CrashDir.image (c : CrashDir) : FS :=
  crashImage [] (scriptOps (Disk.init c.logSize c.maxSize) c.ops) c.n c.k

/-- the script respects the callers' protocol and wrote what the session received -/
def CrashDir.Ok (h : Hist UInt8) (c : CrashDir) : Prop :=
  (Disk.init c.logSize c.maxSize).wf c.ops ∧
    SrcOk (fun o => h.byte c.id o) (Disk.init c.logSize c.maxSize) c.ops ∧ SnapRecvOk h c.id c.ops

/-- **crash_step_ok**: a crash step over the crash images of writers' scripts — any number
    of directories, any scripts, any instants of death, any torn lengths — satisfies
    `StepC.Ok`; so `follower_prefix_of_leader_crash_runs` applies to it with no hypothesis
    about the images left. -/
theorem crash_step_ok (h : Hist UInt8) (F : Store UInt8) (cs : List CrashDir)
    (hcs : ∀ c ∈ cs, c.Ok h) :
    (StepC.crash (cs.map (fun c => (c.id, c.image))) : StepC UInt8).Ok h F := by
  intro p hp
  obtain ⟨c, hc, rfl⟩ := List.mem_map.mp hp
  obtain ⟨hwf, hsrc, hrecv⟩ := hcs c hc
  exact crash_image_step_ok h c.id c.logSize c.maxSize c.ops hwf hsrc hrecv c.n c.k


/-! ### the hypotheses in recursive / decidable form -/

/-- `StepC.Ok` at every position of a step list, threaded through the run (the recursive
    form of the hypothesis of `follower_prefix_of_leader_crash_runs`, in the style of C08's
    `Disk.wf` / `SrcOk`) -/
def OkAll (h : Hist UInt8) (bk : Backend) : List (StepC UInt8) → Store UInt8 → Prop
  | [], _ => True
  | st :: rest, F => st.Ok h F ∧ OkAll h bk rest (stepC bk F st)

/-- `OkAll` is the hypothesis of `follower_prefix_of_leader_crash_runs` -/
theorem okAll_positions (h : Hist UInt8) (bk : Backend) :
    ∀ (steps : List (StepC UInt8)) (F : Store UInt8), OkAll h bk steps F →
      ∀ (pre : List (StepC UInt8)) (st : StepC UInt8) (post : List (StepC UInt8)),
        steps = pre ++ st :: post → st.Ok h (pre.foldl (stepC bk) F)
  | [], _, _, pre, st, post, he => by cases pre <;> cases he
  | s :: rest, F, hok, [], st, post, he => by
    cases he; exact hok.1
  | s :: rest, F, hok, p :: pre, st, post, he => by
    cases he
    exact okAll_positions h bk _ _ hok.2 pre st post rfl

/-- `follower_prefix_of_leader_crash_runs` with the hypothesis in recursive form -/
theorem follower_prefix_of_leader_crash_runs' (h : Hist UInt8) (bk : Backend)
    (steps : List (StepC UInt8)) (F : Store UInt8) (hok : OkAll h bk steps F) (hwf : WF bk F)
    (hF : ∀ id, FaithfulAt h F.dirs id) :
    (∀ id, FaithfulAt h (steps.foldl (stepC bk) F).dirs id) ∧ WF bk (steps.foldl (stepC bk) F) :=
  follower_prefix_of_leader_crash_runs h bk steps F (okAll_positions h bk steps F hok) hwf hF

/-- `SnapRecvOk` as a check over the points of a concrete script -/
def snapRecvOkB (h : Hist UInt8) (id : Replica.Id) (ops : List DOp) : Bool :=
  (List.range (ops.length + 1)).all fun j =>
    match received (ops.take j) with
    | some x => x.receiving || x.bytes.length != x.size || x.bytes == h.snap id x.left
    | none => true

/-- the check is sound -/
theorem snapRecvOk_of_check (h : Hist UInt8) (id : Replica.Id) (ops : List DOp)
    (hb : snapRecvOkB h id ops = true) : SnapRecvOk h id ops := by
  intro j L S c hj hr hl
  have := List.all_eq_true.mp hb j (List.mem_range.mpr (by omega))
  rw [hr] at this
  simpa [hl] using this

/-! ### non-vacuity: concrete crash images, what they re-open to, a crash step in a run -/

section examples

/-- history A: the byte at offset `o` is `o mod 256`, every snapshot is `[1, 2, 3]`;
    history B: `o + 100 mod 256`, snapshots `[4]` -/
def hCr : Hist UInt8 where
  byte := fun id o => if id = "idA" then UInt8.ofNat o else UInt8.ofNat (o + 100)
  snap := fun id _ => if id = "idA" then [1, 2, 3] else [4]

/-- directory `idA`: a snapshot `500_3.rdb` received completely and committed, then the
    stream from 500; the segment size makes the second append rotate (`500.aof` closed,
    `505.aof` opened) -/
def scSnap : List DOp :=
  [.setRunId "idA", .newRdbWriter 500 3, .rdbAppend [1, 2], .rdbAppend [3], .newAofWriter 500,
   .aofAppend [244, 245], .aofAppend [246, 247, 248], .aofAppend [249, 250, 251]]

/-- directory `idB`: the snapshot transfer was interrupted after 2 of 3 bytes and the writer
    never closed (the `.rdb.tmp` stays), then the stream from 500 -/
def scTmp : List DOp :=
  [.setRunId "idB", .newRdbWriter 500 3, .rdbAppend [4, 4], .newAofWriter 500,
   .aofAppend [88, 89], .aofAppend [90, 91, 92]]

/-- killed during the last append of `scSnap`: 1 of its 3 bytes reached `505.aof` -/
def dirA : CrashDir := ⟨"idA", 20, 0, scSnap, 12, 1⟩
/-- killed during the last append of `scTmp`: 2 of its 3 bytes reached `500.aof` -/
def dirB : CrashDir := ⟨"idB", 20, 0, scTmp, 6, 2⟩

-- the images: a torn last segment; a temporary snapshot next to a torn segment
example : dirA.image =
    [(.rdb 500 3, [1, 2, 3]),
     (.aof 500, closedHeader [244, 245, 246, 247, 248] ++ [244, 245, 246, 247, 248]),
     (.aof 505, fixHeader ++ [249])] := by decide +kernel
example : dirB.image = [(.rdbTmp 500 3, [4, 4]), (.aof 500, fixHeader ++ [88, 89, 90, 91])] := by decide
-- what they re-open to: the committed snapshot and both segments joined; the temporary
-- snapshot is not read
example : dataOfReopened dirA.image = some ⟨500, [244, 245, 246, 247, 248, 249], some [1, 2, 3]⟩ := by decide
example : dataOfReopened dirB.image = some ⟨500, [88, 89, 90, 91], none⟩ := by decide
-- killed before any stream byte and before the snapshot's commit: an empty directory
example : dataOfReopened (crashImage [] (scriptOps (Disk.init 20 0) scSnap) 3 0) = none := by decide
-- killed right after the commit: the snapshot alone
example : dataOfReopened (crashImage [] (scriptOps (Disk.init 20 0) scSnap) 4 0) = some ⟨500, [], some [1, 2, 3]⟩ := by decide
-- an image no writer produces: a gap (the older segment is discarded by `reopen`), the
-- snapshot below the gap is not offered
example : dataOfReopened [(.rdb 100 1, [9]), (.aof 100, fixHeader ++ [1, 2]), (.aof 105, fixHeader ++ [7])]
    = some ⟨105, [7], none⟩ := by decide

-- the hypotheses of `crash_image_step_ok` / `crash_step_ok` hold for both directories
example : dirA.Ok hCr :=
  ⟨by decide, srcOk_of_check _ _ _ (by decide), snapRecvOk_of_check _ _ _ (by decide)⟩
example : dirB.Ok hCr :=
  ⟨by decide, srcOk_of_check _ _ _ (by decide), snapRecvOk_of_check _ _ _ (by decide)⟩
-- … a script that wrote B's bytes into A's directory does not pass
example : srcOkB (fun o => hCr.byte "idA" o) (Disk.init 20 0) scTmp = false := by decide

/-- the leader serves `idA`: snapshot at 500, stream `[500, 509)` -/
def lCr : Leader UInt8 :=
  ⟨true, true, ["idA"], "idA", some ⟨500, [244, 245, 246, 247, 248, 249, 250, 251, 252], some [1, 2, 3]⟩,
    true, [], none⟩

example : lCr.Faithful hCr := by
  intro d hd; cases hd
  exact ⟨⟨by decide, fun s hs => by cases hs; decide⟩, by decide⟩

/-- a follower's life: killed (both directories re-opened from their crash images), then a
    session against the leader — it continues `idA` at its own end 506 — a clean restart,
    and a second kill that leaves `idA`'s directory as it was first found -/
def lifeCr : List (StepC UInt8) :=
  [.crash [(dirA.id, dirA.image), (dirB.id, dirB.image)],
   .plain (.sess (fun _ => View.const lCr, [2], 10, 0, 3)),
   .plain .restart,
   .crash [(dirA.id, dirA.image)]]

example : ([lifeCr[0]].foldl (stepC .disk) ⟨"idB", []⟩).dirs =
    [("idA", some ⟨500, [244, 245, 246, 247, 248, 249], some [1, 2, 3]⟩),
     ("idB", some ⟨500, [88, 89, 90, 91], none⟩)] := by decide
example : ((lifeCr.take 2).foldl (stepC .disk) ⟨"idB", []⟩).dirs =
    [("idA", some ⟨500, [244, 245, 246, 247, 248, 249, 250, 251, 252], some [1, 2, 3]⟩),
     ("idB", some ⟨500, [88, 89, 90, 91], none⟩)] ∧
    ((lifeCr.take 2).foldl (stepC .disk) ⟨"idB", []⟩).cur = "idA" := by decide
example : (lifeCr.foldl (stepC .disk) ⟨"idB", []⟩).cur = "" ∧
    (lifeCr.foldl (stepC .disk) ⟨"idB", []⟩).dirs =
      [("idA", some ⟨500, [244, 245, 246, 247, 248, 249], some [1, 2, 3]⟩)] := by decide
-- the memory backend keeps nothing through a kill
example : ((lifeCr.take 1).foldl (stepC .mem) ⟨"idB", []⟩).dirs = [] := by decide

/-- the hypothesis of `follower_prefix_of_leader_crash_runs` holds along this life … -/
theorem lifeCr_ok (F : Store UInt8) : OkAll hCr .disk lifeCr F := by
  have hA : dirA.Ok hCr :=
    ⟨by decide, srcOk_of_check _ _ _ (by decide), snapRecvOk_of_check _ _ _ (by decide)⟩
  have hB : dirB.Ok hCr :=
    ⟨by decide, srcOk_of_check _ _ _ (by decide), snapRecvOk_of_check _ _ _ (by decide)⟩
  have hL : lCr.Faithful hCr := by
    intro d hd; cases hd
    exact ⟨⟨by decide, fun s hs => by cases hs; decide⟩, by decide⟩
  refine ⟨?_, ⟨fun _ => hL, by decide⟩, trivial, ?_, trivial⟩
  · exact crash_step_ok hCr F [dirA, dirB] (by
      intro c hc
      simp only [List.mem_cons, List.not_mem_nil, or_false] at hc
      rcases hc with rfl | rfl
      · exact hA
      · exact hB)
  · exact crash_step_ok hCr _ [dirA] (by
      intro c hc
      simp only [List.mem_cons, List.not_mem_nil, or_false] at hc
      subst hc; exact hA)

/-- … so its conclusion holds for it, from any faithful well-formed start -/
example : (∀ id, FaithfulAt hCr (lifeCr.foldl (stepC .disk) ⟨"", []⟩).dirs id) ∧
    WF .disk (lifeCr.foldl (stepC .disk) ⟨"", []⟩) :=
  follower_prefix_of_leader_crash_runs' hCr .disk lifeCr ⟨"", []⟩ (lifeCr_ok _)
    ⟨Or.inl rfl, by decide⟩ (fun id d hd => by cases hd)

-- a lying image is rejected by the hypothesis, and what it re-opens to is not faithful:
-- B's bytes filed under `idA`
example : ¬ (⟨500, [88, 89, 90, 91], none⟩ : Replica.Data UInt8).Faithful hCr "idA" := by
  intro h; have := h.1; revert this; decide

end examples

end GunYu.Props.C16
