/-
  C04 — an incomplete snapshot replay is never recorded as a completed full sync.

  Part 1 (schedules, faults): the fan-out `parser → distributor → n workers`
  of `sendRdb` as an event system (Model/RdbFanout.lean, REPAIRED for D6): for
  every worker count, every pipe size, every routing function, every event
  schedule — target errors at any entry (`workFail`), cancellation at ANY
  position (`cancel`), in particular after the parser and the distributor have
  finished while workers still hold queued entries — the checkpoint is written
  (and `sendRdb` returns nil) only if the parser ended with `Done` and every
  entry it produced was applied. The same system is the plain and the
  bidirectional replay (their worker loops have the same shape).

  Part 2 (damaged input): the frame-level parser (Model/RdbFrame.lean, REPAIRED
  for D19: input exhausted after the footer): it is total with fuel = input
  length; every truncation of an accepted file is rejected; an accepted file
  ends with the EOF opcode and a footer that is zero or the CRC64 of everything
  before it — hence a single-byte alteration of a checksummed file is refused
  (`alteration_detected`: CRC-64/Jones separates strings that differ in one
  byte) unless the alteration turns the footer itself into eight zero bytes
  ("checksum disabled", `zero_footer_exception`). These theorems speak about inputs whose
  parse path stays inside the modelled grammar: outcome `unsup` is neither
  `done` nor `err` (see Model/RdbFrame.lean for what is outside).
-/
import GunYu.Proofs.RdbFanout
import GunYu.Proofs.RdbFrame
import GunYu.Proofs.Crc64Burst
import GunYu.Model.RdbAlloc
import GunYu.Model.RdbFeed

namespace GunYu.Props.C04
open GunYu

/-! ## Part 1 — fan-out, faults, cancellation -/
section Fanout
open GunYu.RdbFanout

/-- the snapshot as the parser delivers it: entries `es`, then a terminal
    (`Done`, or `Err` for damaged input / a lost source), then whatever -/
def parserOutput {α} (es : List α) (t : Term) (junk : List (Item α)) : List (Item α) :=
  es.map Item.entry ++ Item.term t :: junk

/-- **whatever the parser delivers** (no assumption on its output): the
    checkpoint is written only if the distributor took a `Done` and every entry
    before it was applied — or the channel was closed without ANY terminal entry
    (`!ok → return nil` in `distributeTask`), with every delivered entry applied.
    `rdb.ParseRdb` never does the latter as long as `Loader.Next` converts its
    panics into errors (`defer util.Xrecover(&err)`); the harness reports a
    channel closed without terminal as the violation `parser-no-terminal`. -/
theorem no_checkpoint_unless_terminated {α} (c : Cfg α) (hn : 0 < c.n)
    (items : List (Item α)) (sched : List Ev) :
    (run c (init items) sched).checkpoint = true →
      (∃ (es : List α) (junk : List (Item α)), items = es.map Item.entry ++ Item.term .done :: junk ∧
          ∀ a ∈ es, a ∈ (run c (init items) sched).applied)
      ∨ (∃ es : List α, items = es.map Item.entry ∧ ∀ a ∈ es, a ∈ (run c (init items) sched).applied) := by
  intro hcp
  have inv := run_inv c items hn sched _ (init_inv c _)
  obtain ⟨hterm, hall⟩ := inv.cp hcp
  have hfr := inv.frame
  rcases hterm with ht | ⟨ht, hp, htd⟩
  · left
    refine ⟨(run c (init items) sched).consumed,
      (run c (init items) sched).pipe0 ++ (run c (init items) sched).todo, ?_, hall⟩
    rw [ht] at hfr
    simp only [termList, List.append_assoc, List.singleton_append] at hfr
    exact hfr.symm
  · right
    refine ⟨(run c (init items) sched).consumed, ?_, hall⟩
    rw [ht, hp, htd] at hfr
    simpa [termList] using hfr.symm

theorem no_checkpoint_unless_all_applied {α} (c : Cfg α) (hn : 0 < c.n)
    (es : List α) (t : Term) (junk : List (Item α)) (sched : List Ev) :
    (run c (init (parserOutput es t junk)) sched).checkpoint = true →
      t = .done ∧ ∀ a ∈ es, a ∈ (run c (init (parserOutput es t junk)) sched).applied := by
  intro hcp
  rcases no_checkpoint_unless_terminated c hn _ sched hcp with ⟨es', junk', heq, hall⟩ | ⟨es', heq, _⟩
  · obtain ⟨hl, ht⟩ := entries_prefix_unique _ _ _ _ _ _ (show es.map Item.entry ++ Item.term t :: junk = _ from heq)
    exact ⟨ht, fun a ha => hall a (by rw [← hl]; exact ha)⟩
  · exact absurd heq.symm (map_entry_ne _ _ _ _)

/-- `sendRdb` returns nil only with the checkpoint written, hence only after a
    complete replay: anything else is reported as an error (failed or interrupted) -/
theorem ok_only_if_all_applied {α} (c : Cfg α) (hn : 0 < c.n)
    (es : List α) (t : Term) (junk : List (Item α)) (sched : List Ev) :
    (run c (init (parserOutput es t junk)) sched).ret = some .ok →
      t = .done ∧ ∀ a ∈ es, a ∈ (run c (init (parserOutput es t junk)) sched).applied := by
  intro hret
  have inv := run_inv c (parserOutput es t junk) hn sched _ (init_inv c _)
  exact no_checkpoint_unless_all_applied c hn es t junk sched (inv.retOk hret)

/-! non-vacuity: 2 workers, pipes of size 2/1, three entries routed 0,1,0 -/
def exCfg : Cfg Nat := { n := 2, cap0 := 2, capW := 1, route := fun a => a }
def exItems : List (Item Nat) := parserOutput [10, 11, 12] .done []

/-- a complete run reaches the checkpoint with everything applied -/
def exGood : List Ev :=
  [.parse, .parse, .dist, .dist, .parse, .work 0, .dist, .parse, .parse, .work 1, .work 0, .dist,
   .workClosed 0, .workClosed 1, .collectW 1, .collectD, .collectW 0, .finish true]
example : (run exCfg (init exItems) exGood).checkpoint = true := by decide
example : (run exCfg (init exItems) exGood).applied = [10, 11, 12] := by decide

/-- the D6 window: everything parsed and distributed, worker 0 still holds an
    entry, the parent context is cancelled, both workers return nil, all n+1
    results are nil — the repaired `finish` reports the context's error -/
def exD6 : List Ev :=
  [.parse, .parse, .dist, .dist, .parse, .parse, .work 0, .dist, .dist, .parse,
   .work 1, .cancel, .workCancel 0, .workCancel 1, .collectD, .collectW 0, .collectW 1, .finish true]
example : (run exCfg (init exItems) exD6).dist = some .ok := by decide
example : (run exCfg (init exItems) exD6).applied = [10, 11] := by decide
example : (run exCfg (init exItems) exD6).errs = false := by decide
example : (run exCfg (init exItems) exD6).checkpoint = false ∧ (run exCfg (init exItems) exD6).ret = some .err := by decide

/-- the hazard of the second disjunct: a channel closed without terminal entry
    (a parser goroutine that died) IS taken for a complete snapshot -/
def exNoTerm : List Ev :=
  [.parse, .parse, .dist, .dist, .parse, .work 0, .work 1, .dist, .workClosed 0, .workClosed 1,
   .collectD, .collectW 0, .collectW 1, .finish true]
example : (run exCfg (init [Item.entry 10, Item.entry 11]) exNoTerm).checkpoint = true := by decide
/-- damaged input as the parser reports it: entries, Err, then Done (ParseRdb sends both after a footer error) -/
example : (run exCfg (init (parserOutput [10, 11] .err [Item.term .done]))
    [.parse, .parse, .dist, .dist, .parse, .parse, .dist, .work 0, .work 1, .workCancel 0, .workClosed 0, .workClosed 1,
     .collectD, .collectW 0, .collectW 1, .finish true]).ret = some .err := by decide

/-- a target error at the second entry of worker 0 -/
def exFail : List Ev :=
  [.parse, .parse, .dist, .dist, .parse, .work 0, .dist, .parse, .workFail 0, .work 1, .collectW 0,
   .distCancel, .workCancel 1, .collectD, .collectW 1, .finish true]
example : (run exCfg (init exItems) exFail).checkpoint = false ∧ (run exCfg (init exItems) exFail).ret = some .err := by decide

end Fanout

/-! ## Part 2 — damaged input -/
section Frame
open GunYu.RdbFrame

/-- the parser is a total function and needs no more fuel than input bytes
    (the "no hang" part a theorem can carry) — for ANY sequential item reader -/
theorem parse_total_gen (it : Rd Item) (g : GoodItem it) (maxVer : Nat) (f : Bytes) :
    parseWith it maxVer f ≠ .fuelOut := by
  unfold parseWith
  split
  · exact body_fuel it g _ _ _ _ (by omega)
  · simp
  · simp

theorem parse_total (maxVer : Nat) (f : Bytes) : parse maxVer f ≠ .fuelOut :=
  parse_total_gen item item_good maxVer f

/-- every truncation of an accepted snapshot is rejected with an error — for
    ANY sequential item reader (whatever value encodings it walks over) -/
theorem truncation_errors_gen (it : Rd Item) (g : GoodItem it) (maxVer : Nat) (f : Bytes) (n : Nat)
    (h : parseWith it maxVer f = .done n) :
    ∀ k, k < f.length → ∃ m, parseWith it maxVer (f.take k) = .err m := by
  intro k hk
  unfold parseWith at h
  cases hh : header maxVer f with
  | err => rw [hh] at h; cases h
  | unsup => rw [hh] at h; cases h
  | ok u rest =>
    rw [hh] at h
    simp only at h
    obtain ⟨c, hc, hall, htr⟩ := header_seq maxVer f u rest hh
    by_cases hlt : k < c.length
    · have : f.take k = c.take k := by rw [hc]; exact List.take_append_of_le_length (by omega)
      exact ⟨0, by unfold parseWith; rw [this, htr k hlt]⟩
    · have hge : c.length ≤ k := by omega
      have hx : f.take k = c ++ rest.take (k - c.length) := by
        rw [hc, List.take_append, List.take_of_length_le hge]
      have hk' : k - c.length < rest.length := by
        rw [hc, List.length_append] at hk; omega
      obtain ⟨m, hm⟩ := body_trunc it g _ f rest 0 n h (k - c.length) hk'
        ((rest.take (k - c.length)).length + 1) (f.take k) 0 (by rw [List.length_take]; omega)
      exact ⟨m, by unfold parseWith; rw [hx, hall]; simp only; rw [← hx]; exact hm⟩

theorem truncation_errors (maxVer : Nat) (f : Bytes) (n : Nat) (h : parse maxVer f = .done n) :
    ∀ k, k < f.length → ∃ m, parse maxVer (f.take k) = .err m :=
  truncation_errors_gen item item_good maxVer f n h

/-- the bytes the checksum covers / the footer of a file -/
def covered (f : Bytes) : Bytes := f.take (f.length - 8)
def footerOf (f : Bytes) : Bytes := f.drop (f.length - 8)

theorem endsWithFooter_parts {g : Bytes} (h : EndsWithFooter g) :
    8 ≤ g.length ∧ (Rdb.ofLE (footerOf g) = 0 ∨ (Rdb.crc64Tab (covered g)).toNat = Rdb.ofLE (footerOf g)) := by
  obtain ⟨p, crc8, hg, hl, hc⟩ := h
  have hlen : g.length - 8 = (p ++ [0xFF]).length := by rw [hg]; simp [List.length_append]; omega
  have hg' : g = (p ++ [0xFF]) ++ crc8 := by rw [hg]; simp
  have h1 : covered g = p ++ [0xFF] := by
    unfold covered; rw [hlen]; rw [hg']; exact List.take_left' rfl
  have h2 : footerOf g = crc8 := by
    unfold footerOf; rw [hlen]; rw [hg']; exact List.drop_left' rfl
  rw [h1, h2]
  exact ⟨by rw [hg]; simp [List.length_append]; omega, hc⟩

/-- **accepted ⇒ footer at the very end**: `Done` is emitted only when the input
    ends with the EOF opcode and a footer that is zero ("checksum disabled") or
    the CRC64 of every byte before it. An EOF opcode followed by eight zero
    bytes anywhere earlier (D19) is an error: bytes remain. For ANY sequential
    item reader. -/
theorem done_ends_with_footer_gen (it : Rd Item) (g : GoodItem it) (maxVer : Nat) (f : Bytes) (m : Nat)
    (h : parseWith it maxVer f = .done m) :
    8 ≤ f.length ∧ (Rdb.ofLE (footerOf f) = 0 ∨ (Rdb.crc64Tab (covered f)).toNat = Rdb.ofLE (footerOf f)) := by
  unfold parseWith at h
  cases hh : header maxVer f with
  | err => rw [hh] at h; cases h
  | unsup => rw [hh] at h; cases h
  | ok u rest =>
    rw [hh] at h
    obtain ⟨c, hc, _, _⟩ := header_seq maxVer f u rest hh
    exact endsWithFooter_parts (body_done it g _ f c rest 0 m hc h)

theorem done_ends_with_footer (maxVer : Nat) (g : Bytes) (m : Nat) (h : parse maxVer g = .done m) :
    8 ≤ g.length ∧ (Rdb.ofLE (footerOf g) = 0 ∨ (Rdb.crc64Tab (covered g)).toNat = Rdb.ofLE (footerOf g)) :=
  done_ends_with_footer_gen item item_good maxVer g m h

theorem set_covered_of_lt (f : Bytes) (i : Nat) (b : UInt8) (hi : i < f.length - 8) :
    footerOf (f.set i b) = footerOf f := by
  unfold footerOf
  rw [List.length_set, List.drop_set_of_lt (by omega)]

/-- **single-byte alteration of a checksummed snapshot** (byte `i` among the
    bytes the checksum covers): the altered file is refused unless the CRC64 of
    its covered bytes equals the original CRC64 — a collision between two byte
    strings that differ in exactly one byte. -/
theorem alteration_needs_crc_collision_gen (it : Rd Item) (g : GoodItem it) (maxVer : Nat) (f : Bytes) (n m i : Nat) (b : UInt8)
    (hf : parseWith it maxVer f = .done n) (hnz : Rdb.ofLE (footerOf f) ≠ 0)
    (hi : i < f.length - 8) (hb : f[i]? ≠ some b)
    (hg : parseWith it maxVer (f.set i b) = .done m) :
    covered (f.set i b) ≠ covered f ∧ Rdb.crc64Tab (covered (f.set i b)) = Rdb.crc64Tab (covered f) := by
  constructor
  · intro h
    unfold covered at h
    rw [List.length_set] at h
    have h1 : (List.take (f.length - 8) (f.set i b))[i]? = (List.take (f.length - 8) f)[i]? := by rw [h]
    rw [List.getElem?_take_of_lt hi, List.getElem?_take_of_lt hi, List.getElem?_set_self (by omega)] at h1
    exact hb h1.symm
  · obtain ⟨_, hcf⟩ := done_ends_with_footer_gen it g maxVer f n hf
    obtain ⟨_, hcg⟩ := done_ends_with_footer_gen it g maxVer _ m hg
    rw [set_covered_of_lt f i b hi] at hcg
    rcases hcf with h | hcf
    · exact absurd h hnz
    · rcases hcg with h | hcg
      · exact absurd h hnz
      · exact BitVec.eq_of_toNat_eq (by rw [hcg, hcf])

theorem ofLE_inj : ∀ (a b : Bytes), a.length = b.length → Rdb.ofLE a = Rdb.ofLE b → a = b
  | [], [], _, _ => rfl
  | [], _ :: _, h, _ => by simp at h
  | _ :: _, [], h, _ => by simp at h
  | x :: a, y :: b, hl, h => by
    simp only [Rdb.ofLE] at h
    have hx := x.toNat_lt
    have hy := y.toNat_lt
    have h1 : x.toNat = y.toNat := by omega
    have h2 : Rdb.ofLE a = Rdb.ofLE b := by omega
    rw [UInt8.toNat_inj.mp h1, ofLE_inj a b (by simpa using hl) h2]

/-- **the stated exception**: altering a byte of the footer itself is refused
    too, unless the altered footer is eight zero bytes — which the format
    defines as "checksum disabled" (every entry is then applied unverified). -/
theorem zero_footer_exception_gen (it : Rd Item) (g : GoodItem it) (maxVer : Nat) (f : Bytes) (n m i : Nat) (b : UInt8)
    (hf : parseWith it maxVer f = .done n) (hnz : Rdb.ofLE (footerOf f) ≠ 0)
    (hi : f.length - 8 ≤ i) (hi2 : i < f.length) (hb : f[i]? ≠ some b)
    (hg : parseWith it maxVer (f.set i b) = .done m) :
    Rdb.ofLE (footerOf (f.set i b)) = 0 := by
  obtain ⟨h8, hcf⟩ := done_ends_with_footer_gen it g maxVer f n hf
  obtain ⟨_, hcg⟩ := done_ends_with_footer_gen it g maxVer _ m hg
  have hcov : covered (f.set i b) = covered f := by
    unfold covered; rw [List.length_set, List.take_set_of_le hi]
  rcases hcg with h | hcg
  · exact h
  · exfalso
    rcases hcf with h | hcf
    · exact hnz h
    · rw [hcov, hcf] at hcg
      have hlen : (footerOf f).length = (footerOf (f.set i b)).length := by
        unfold footerOf; simp [List.length_drop, List.length_set]
      have heq := ofLE_inj _ _ hlen hcg
      have h1 : (footerOf f)[i - (f.length - 8)]? = (footerOf (f.set i b))[i - (f.length - 8)]? := by rw [heq]
      unfold footerOf at h1
      rw [List.length_set, List.getElem?_drop, List.getElem?_drop] at h1
      have hidx : f.length - 8 + (i - (f.length - 8)) = i := by omega
      rw [hidx, List.getElem?_set_self hi2] at h1
      exact hb h1

/-- **every single-byte alteration of a byte covered by the checksum is refused**:
    `alteration_needs_crc_collision` + CRC-64/Jones (as the repo computes it)
    separates any two strings that differ in exactly one byte
    (Proofs/Crc64Burst.lean). -/
theorem alteration_detected_gen (it : Rd Item) (g : GoodItem it) (maxVer : Nat) (f : Bytes) (n i : Nat) (b : UInt8)
    (hf : parseWith it maxVer f = .done n) (hnz : Rdb.ofLE (footerOf f) ≠ 0)
    (hi : i < f.length - 8) (hb : f[i]? ≠ some b) :
    ∀ m, parseWith it maxVer (f.set i b) ≠ .done m := by
  intro m hg
  obtain ⟨_, hcrc⟩ := alteration_needs_crc_collision_gen it g maxVer f n m i b hf hnz hi hb hg
  have hlen : i < (covered f).length := by unfold covered; rw [List.length_take]; omega
  have hset : covered (f.set i b) = (covered f).set i b := by
    unfold covered; rw [List.length_set, List.take_set]
  have hx : (covered f)[i]'hlen ≠ b := by
    intro h
    apply hb
    have : (covered f)[i]? = some b := by rw [List.getElem?_eq_getElem hlen, h]
    unfold covered at this
    rw [List.getElem?_take_of_lt hi] at this
    exact this
  have h1 : covered f = (covered f).take i ++ (covered f)[i]'hlen :: (covered f).drop (i + 1) := by
    rw [List.getElem_cons_drop, List.take_append_drop]
  have h2 : (covered f).set i b = (covered f).take i ++ b :: (covered f).drop (i + 1) := by
    rw [List.set_eq_take_append_cons_drop, if_pos hlen]
  rw [hset, h2] at hcrc
  conv at hcrc => rhs; rw [h1]
  exact Rdb.crc64Tab_single_byte _ _ _ _ hx hcrc.symm

/-- for an item reader that decides every input (no "outside the model"
    answer) the altered file is not merely "not accepted": it is an ERROR -/
theorem alteration_is_error_gen (it : Rd Item) (g : GoodItem it) (ht : Total it) (maxVer : Nat) (f : Bytes)
    (n i : Nat) (b : UInt8)
    (hf : parseWith it maxVer f = .done n) (hnz : Rdb.ofLE (footerOf f) ≠ 0)
    (hi : i < f.length - 8) (hb : f[i]? ≠ some b) :
    ∃ m, parseWith it maxVer (f.set i b) = .err m := by
  have hnd := alteration_detected_gen it g maxVer f n i b hf hnz hi hb
  have hnf := parse_total_gen it g maxVer (f.set i b)
  have hnu : parseWith it maxVer (f.set i b) ≠ .unsup := by
    unfold parseWith
    cases hh : header maxVer (f.set i b) with
    | err => simp
    | unsup => exact absurd hh (header_ne_unsup maxVer _)
    | ok u rest => exact body_total it ht _ _ _ _
  cases hp : parseWith it maxVer (f.set i b) with
  | done m => exact absurd hp (hnd m)
  | err m => exact ⟨m, rfl⟩
  | unsup => exact absurd hp hnu
  | fuelOut => exact absurd hp hnf

/-! the same for the modelled opcode grammar (`parse = parseWith item`); there
    `unsup` (LZF, text floats, streams, modules on the parse path) is a third
    outcome, so the conclusion is "not accepted" -/
theorem alteration_needs_crc_collision (maxVer : Nat) (f : Bytes) (n m i : Nat) (b : UInt8)
    (hf : parse maxVer f = .done n) (hnz : Rdb.ofLE (footerOf f) ≠ 0)
    (hi : i < f.length - 8) (hb : f[i]? ≠ some b)
    (hg : parse maxVer (f.set i b) = .done m) :
    covered (f.set i b) ≠ covered f ∧ Rdb.crc64Tab (covered (f.set i b)) = Rdb.crc64Tab (covered f) :=
  alteration_needs_crc_collision_gen item item_good maxVer f n m i b hf hnz hi hb hg

theorem alteration_detected (maxVer : Nat) (f : Bytes) (n i : Nat) (b : UInt8)
    (hf : parse maxVer f = .done n) (hnz : Rdb.ofLE (footerOf f) ≠ 0)
    (hi : i < f.length - 8) (hb : f[i]? ≠ some b) :
    ∀ m, parse maxVer (f.set i b) ≠ .done m :=
  alteration_detected_gen item item_good maxVer f n i b hf hnz hi hb

theorem zero_footer_exception (maxVer : Nat) (f : Bytes) (n m i : Nat) (b : UInt8)
    (hf : parse maxVer f = .done n) (hnz : Rdb.ofLE (footerOf f) ≠ 0)
    (hi : f.length - 8 ≤ i) (hi2 : i < f.length) (hb : f[i]? ≠ some b)
    (hg : parse maxVer (f.set i b) = .done m) :
    Rdb.ofLE (footerOf (f.set i b)) = 0 :=
  zero_footer_exception_gen item item_good maxVer f n m i b hf hnz hi hi2 hb hg

/-! non-vacuity: a 2-key snapshot (REDIS0009, SELECTDB 0, "a"→"1" int-encoded,
    list "l" = [x, y], EOF, CRC64) -/
def exBody : Bytes :=
  [82, 69, 68, 73, 83, 48, 48, 48, 57, 0xFE, 0, 0, 1, 97, 0xC0, 1, 1, 1, 108, 2, 1, 120, 1, 121, 0xFF]
def exFile : Bytes := exBody ++ Rdb.le64 (Rdb.crc64Tab exBody).toNat
example : parse 13 exFile = .done 2 := by decide +kernel
example : Rdb.ofLE (footerOf exFile) ≠ 0 := by decide +kernel
example : parse 13 (exFile.take 20) = .err 1 := by decide +kernel
-- one flipped bit in the list length: the parser runs into the footer and fails
example : parse 13 (exFile.set 19 3) = .err 1 := by decide +kernel
-- a flipped value byte: same frames, the checksum refuses it
example : parse 13 (exFile.set 21 121) = .err 2 := by decide +kernel
-- D19: EOF opcode + eight zero bytes in the middle of the file is not an end
example : parse 13 (exBody.take 17 ++ [0xFF, 0, 0, 0, 0, 0, 0, 0, 0] ++ exBody.drop 17) = .err 1 := by decide +kernel
-- "checksum disabled": an all-zero footer is accepted as such
example : parse 13 (exBody ++ [0, 0, 0, 0, 0, 0, 0, 0]) = .done 2 := by decide +kernel
-- outside the grammar: an LZF string
example : parse 13 (exBody.take 12 ++ [1, 97, 0xC3, 1, 1, 0]) = .unsup := by decide +kernel

/-! non-vacuity of `alteration_is_error_gen`: a reader that is `GoodItem ∧ Total` and accepts a file —
    the modelled grammar with "outside the model" turned into an error (a parser that refuses what
    it does not know) -/
def itemT : Rd Item := fun xs => match item xs with
  | .unsup => .err
  | r => r

theorem itemT_ok {xs a rest} : itemT xs = .ok a rest ↔ item xs = .ok a rest := by
  unfold itemT; cases h : item xs <;> simp

theorem itemT_err {xs} (h : item xs = .err) : itemT xs = .err := by
  unfold itemT; rw [h]

theorem itemT_good : GoodItem itemT where
  seq := by
    intro xs a rest h
    obtain ⟨c, hc, hok, herr⟩ := item_good.seq xs a rest (itemT_ok.mp h)
    exact ⟨c, hc, fun ys => itemT_ok.mpr (hok ys), fun k hk => itemT_err (herr k hk)⟩
  consumes := fun xs a rest h => item_good.consumes xs a rest (itemT_ok.mp h)
  eof := fun xs rest h => item_good.eof xs rest (itemT_ok.mp h)

theorem itemT_total : Total itemT := by
  intro xs; unfold itemT; cases h : item xs <;> simp

example : parseWith itemT 13 exFile = .done 2 := by decide +kernel
/-- the general theorem, instantiated: every single-byte alteration of `exFile` before the footer is an ERROR -/
example (i : Nat) (b : UInt8) (hi : i < exFile.length - 8) (hb : exFile[i]? ≠ some b) :
    ∃ m, parseWith itemT 13 (exFile.set i b) = .err m :=
  alteration_is_error_gen itemT itemT_good itemT_total 13 exFile 2 i b (by decide +kernel) (by decide +kernel) hi hb

end Frame

/-! ## Part 3 — Part 2 feeds Part 1: from the BYTES of the snapshot to the checkpoint

  `feed` is what the goroutine of `rdb.ParseRdb` hands to the fan-out for input
  `f`: one item per entry the frame parser gets through (entry `i` is named
  `i`), then `Done` or `Err` — and after it anything (`junk`; after a footer
  error ParseRdb sends `Err` and then `Done`). An input outside the modelled
  grammar (`unsup`) has no `feed` here. -/
section EndToEnd
open GunYu.RdbFanout

def feed (it : RdbFrame.Rd RdbFrame.Item) (maxVer : Nat) (f : Bytes) (junk : List (Item Nat)) : Option (List (Item Nat)) :=
  match RdbFrame.parseWith it maxVer f with
  | .done n => some (parserOutput (List.range n) .done junk)
  | .err n => some (parserOutput (List.range n) .err junk)
  | _ => none

/-- **from bytes to checkpoint**: for every input, every worker count, pipe
    size, routing and EVERY schedule of parse / distribute / apply / fail /
    cancel events: the checkpoint is written, or nil returned, only if the input
    parses to `Done` and every one of its entries was applied. -/
theorem recorded_only_if_parsed_and_applied (it : RdbFrame.Rd RdbFrame.Item) (maxVer : Nat) (f : Bytes)
    (junk items : List (Item Nat)) (hfeed : feed it maxVer f junk = some items)
    (c : Cfg Nat) (hn : 0 < c.n) (sched : List Ev)
    (h : (run c (init items) sched).checkpoint = true ∨ (run c (init items) sched).ret = some .ok) :
    ∃ n, RdbFrame.parseWith it maxVer f = .done n ∧ ∀ a, a < n → a ∈ (run c (init items) sched).applied := by
  unfold feed at hfeed
  cases hp : RdbFrame.parseWith it maxVer f with
  | done n =>
    rw [hp] at hfeed; simp only [Option.some.injEq] at hfeed; subst hfeed
    refine ⟨n, rfl, ?_⟩
    intro a ha
    rcases h with h | h
    · exact (no_checkpoint_unless_all_applied c hn _ _ _ sched h).2 a (List.mem_range.mpr ha)
    · exact (ok_only_if_all_applied c hn _ _ _ sched h).2 a (List.mem_range.mpr ha)
  | err n =>
    rw [hp] at hfeed; simp only [Option.some.injEq] at hfeed; subst hfeed
    rcases h with h | h
    · exact absurd (no_checkpoint_unless_all_applied c hn _ _ _ sched h).1 (by simp)
    · exact absurd (ok_only_if_all_applied c hn _ _ _ sched h).1 (by simp)
  | unsup => rw [hp] at hfeed; cases hfeed
  | fuelOut => rw [hp] at hfeed; cases hfeed

/-- **a truncated snapshot is never recorded**: whatever prefix of an accepted
    snapshot arrives, the parser hands the fan-out an `Err`, and in NO schedule is
    the checkpoint written or nil returned. -/
theorem truncated_never_recorded (it : RdbFrame.Rd RdbFrame.Item) (g : RdbFrame.GoodItem it) (maxVer : Nat) (f : Bytes) (n : Nat)
    (hf : RdbFrame.parseWith it maxVer f = .done n) (k : Nat) (hk : k < f.length) (junk : List (Item Nat)) :
    ∃ items, feed it maxVer (f.take k) junk = some items ∧
      ∀ (c : Cfg Nat), 0 < c.n → ∀ sched : List Ev,
        (run c (init items) sched).checkpoint = false ∧ (run c (init items) sched).ret ≠ some .ok := by
  obtain ⟨m, hm⟩ := truncation_errors_gen it g maxVer f n hf k hk
  refine ⟨parserOutput (List.range m) .err junk, by simp [feed, hm], ?_⟩
  intro c hn sched
  constructor
  · cases hc : (run c (init (parserOutput (List.range m) .err junk)) sched).checkpoint with
    | false => rfl
    | true => exact absurd (no_checkpoint_unless_all_applied c hn _ _ _ sched hc).1 (by simp)
  · intro hr
    exact absurd (ok_only_if_all_applied c hn _ _ _ sched hr).1 (by simp)

/-- **an altered snapshot is never recorded** (checksummed file, one byte among
    the covered bytes changed, item reader that decides every input): the parser
    hands the fan-out an `Err`; no schedule writes the checkpoint. -/
theorem altered_never_recorded (it : RdbFrame.Rd RdbFrame.Item) (g : RdbFrame.GoodItem it) (ht : RdbFrame.Total it)
    (maxVer : Nat) (f : Bytes) (n i : Nat) (b : UInt8)
    (hf : RdbFrame.parseWith it maxVer f = .done n) (hnz : Rdb.ofLE (footerOf f) ≠ 0)
    (hi : i < f.length - 8) (hb : f[i]? ≠ some b) (junk : List (Item Nat)) :
    ∃ items, feed it maxVer (f.set i b) junk = some items ∧
      ∀ (c : Cfg Nat), 0 < c.n → ∀ sched : List Ev,
        (run c (init items) sched).checkpoint = false ∧ (run c (init items) sched).ret ≠ some .ok := by
  obtain ⟨m, hm⟩ := alteration_is_error_gen it g ht maxVer f n i b hf hnz hi hb
  refine ⟨parserOutput (List.range m) .err junk, by simp [feed, hm], ?_⟩
  intro c hn sched
  constructor
  · cases hc : (run c (init (parserOutput (List.range m) .err junk)) sched).checkpoint with
    | false => rfl
    | true => exact absurd (no_checkpoint_unless_all_applied c hn _ _ _ sched hc).1 (by simp)
  · intro hr
    exact absurd (ok_only_if_all_applied c hn _ _ _ sched hr).1 (by simp)

/-- for the modelled grammar (where `unsup` is a third outcome): an altered file
    that the parser does decide is never recorded -/
theorem altered_never_recorded_model (maxVer : Nat) (f : Bytes) (n i : Nat) (b : UInt8)
    (hf : RdbFrame.parse maxVer f = .done n) (hnz : Rdb.ofLE (footerOf f) ≠ 0)
    (hi : i < f.length - 8) (hb : f[i]? ≠ some b) (junk items : List (Item Nat))
    (hfeed : feed RdbFrame.item maxVer (f.set i b) junk = some items)
    (c : Cfg Nat) (hn : 0 < c.n) (sched : List Ev) :
    (run c (init items) sched).checkpoint = false ∧ (run c (init items) sched).ret ≠ some .ok := by
  have hnd := alteration_detected maxVer f n i b hf hnz hi hb
  constructor
  · cases hc : (run c (init items) sched).checkpoint with
    | false => rfl
    | true =>
      obtain ⟨m, hm, _⟩ := recorded_only_if_parsed_and_applied _ maxVer _ junk items hfeed c hn sched (Or.inl hc)
      exact absurd hm (hnd m)
  · intro hr
    obtain ⟨m, hm, _⟩ := recorded_only_if_parsed_and_applied _ maxVer _ junk items hfeed c hn sched (Or.inr hr)
    exact absurd hm (hnd m)

/-! the transcript, path by path (`RdbFeed.chanWith`): after a footer error the goroutine sends `Err` AND THEN `Done`.
    It is an instance of `feed` (junk = [Done]), so nothing that ends in a footer error is ever recorded. -/

def chanFeed (it : RdbFrame.Rd RdbFrame.Item) (maxVer : Nat) (f : Bytes) : Option (List (Item Nat)) :=
  (RdbFeed.chanWith it maxVer f).map (fun p => (List.range p.1).map Item.entry ++ p.2.map Item.term)

theorem bodyChan_agrees (it : RdbFrame.Rd RdbFrame.Item) :
    ∀ (fuel : Nat) (all xs : Bytes) (cnt n : Nat) (ts : List Term),
      RdbFeed.bodyChan it fuel all xs cnt = some (n, ts) →
        (ts = [.done] ∧ RdbFrame.bodyWith it fuel all xs cnt = .done n) ∨
        ((ts = [.err] ∨ ts = [.err, .done]) ∧ RdbFrame.bodyWith it fuel all xs cnt = .err n)
  | 0, _, _, _, _, _, h => by simp [RdbFeed.bodyChan] at h
  | fuel+1, all, xs, cnt, n, ts, h => by
    unfold RdbFeed.bodyChan at h
    unfold RdbFrame.bodyWith
    cases hi : it xs with
    | err => rw [hi] at h; simp only [Option.some.injEq, Prod.mk.injEq] at h; obtain ⟨rfl, rfl⟩ := h; simp
    | unsup => rw [hi] at h; cases h
    | ok a rest =>
      rw [hi] at h
      cases a with
      | entry => exact bodyChan_agrees it fuel all rest (cnt + 1) n ts h
      | other => exact bodyChan_agrees it fuel all rest cnt n ts h
      | eofOp =>
        simp only at h ⊢
        have hf : RdbFrame.footer all rest cnt = .done cnt ∨ RdbFrame.footer all rest cnt = .err cnt := by
          unfold RdbFrame.footer; split
          · split
            · exact Or.inr rfl
            · split
              · exact Or.inr rfl
              · exact Or.inl rfl
          · exact Or.inr rfl
        rcases hf with hf | hf
        · rw [hf] at h ⊢; simp only [Option.some.injEq, Prod.mk.injEq] at h; obtain ⟨rfl, rfl⟩ := h; simp
        · rw [hf] at h ⊢; simp only [Option.some.injEq, Prod.mk.injEq] at h; obtain ⟨rfl, rfl⟩ := h; simp

theorem chanFeed_is_feed (it : RdbFrame.Rd RdbFrame.Item) (maxVer : Nat) (f : Bytes) (items : List (Item Nat))
    (h : chanFeed it maxVer f = some items) : ∃ junk, feed it maxVer f junk = some items := by
  unfold chanFeed RdbFeed.chanWith at h
  unfold feed RdbFrame.parseWith
  cases hh : RdbFrame.header maxVer f with
  | unsup => rw [hh] at h; simp at h
  | err =>
    rw [hh] at h; simp only [Option.map_some, Option.some.injEq] at h; subst h
    exact ⟨[], by simp [parserOutput]⟩
  | ok u rest =>
    rw [hh] at h
    simp only at h ⊢
    cases hb : RdbFeed.bodyChan it (rest.length + 1) f rest 0 with
    | none => rw [hb] at h; simp at h
    | some p =>
      obtain ⟨n, ts⟩ := p
      rw [hb] at h; simp only [Option.map_some, Option.some.injEq] at h; subst h
      rcases bodyChan_agrees it _ _ _ _ n ts hb with ⟨rfl, hd⟩ | ⟨hts, he⟩
      · exact ⟨[], by rw [hd]; simp [parserOutput]⟩
      · rcases hts with rfl | rfl
        · exact ⟨[], by rw [he]; simp [parserOutput]⟩
        · exact ⟨[Item.term .done], by rw [he]; simp [parserOutput]⟩

/-- **from bytes to checkpoint, with the goroutine's transcript spelled out** (incl. Err-then-Done after a bad footer) -/
theorem recorded_only_if_parsed_and_applied_chan (it : RdbFrame.Rd RdbFrame.Item) (maxVer : Nat) (f : Bytes)
    (items : List (Item Nat)) (hfeed : chanFeed it maxVer f = some items)
    (c : Cfg Nat) (hn : 0 < c.n) (sched : List Ev)
    (h : (run c (init items) sched).checkpoint = true ∨ (run c (init items) sched).ret = some .ok) :
    ∃ n, RdbFrame.parseWith it maxVer f = .done n ∧ ∀ a, a < n → a ∈ (run c (init items) sched).applied := by
  obtain ⟨junk, hj⟩ := chanFeed_is_feed it maxVer f items hfeed
  exact recorded_only_if_parsed_and_applied it maxVer f junk items hj c hn sched h

/-! non-vacuity: the example file of Part 2 through the example schedules of Part 1 -/
example : feed RdbFrame.item 13 exFile [] = some (parserOutput [0, 1] .done []) := by decide +kernel
-- a footer that does not match: Err, then Done — never recorded (instance of the theorem, every schedule)
example : chanFeed RdbFrame.item 13 (exFile.set (exFile.length - 1) 0) = some [Item.entry 0, Item.entry 1, Item.term .err, Item.term .done] := by
  decide +kernel
example (c : Cfg Nat) (hn : 0 < c.n) (sched : List Ev) :
    (run c (init [Item.entry 0, Item.entry 1, Item.term .err, Item.term .done]) sched).checkpoint = false := by
  cases hc : (run c (init [Item.entry 0, Item.entry 1, Item.term .err, Item.term .done]) sched).checkpoint with
  | false => rfl
  | true =>
    obtain ⟨n, hp, _⟩ := recorded_only_if_parsed_and_applied_chan RdbFrame.item 13 (exFile.set (exFile.length - 1) 0) _
      (by decide +kernel) c hn sched (Or.inl hc)
    have he : RdbFrame.parseWith RdbFrame.item 13 (exFile.set (exFile.length - 1) 0) = .err 2 := by decide +kernel
    rw [he] at hp; cases hp
-- in-file instances of the two "never recorded" theorems (reader `itemT`, every cut / every altered byte)
example (k : Nat) (hk : k < exFile.length) : ∃ items, feed itemT 13 (exFile.take k) [] = some items ∧
    ∀ (c : Cfg Nat), 0 < c.n → ∀ sched : List Ev,
      (run c (init items) sched).checkpoint = false ∧ (run c (init items) sched).ret ≠ some .ok :=
  truncated_never_recorded itemT itemT_good 13 exFile 2 (by decide +kernel) k hk []
example (i : Nat) (b : UInt8) (hi : i < exFile.length - 8) (hb : exFile[i]? ≠ some b) :
    ∃ items, feed itemT 13 (exFile.set i b) [] = some items ∧
    ∀ (c : Cfg Nat), 0 < c.n → ∀ sched : List Ev,
      (run c (init items) sched).checkpoint = false ∧ (run c (init items) sched).ret ≠ some .ok :=
  altered_never_recorded itemT itemT_good itemT_total 13 exFile 2 i b (by decide +kernel) (by decide +kernel) hi hb []
example : feed RdbFrame.item 13 (exFile.take 20) [] = some (parserOutput [0] .err []) := by decide +kernel
example : feed itemT 13 (exFile.set 19 3) [Item.term .done] = some (parserOutput [0] .err [Item.term .done]) := by
  decide +kernel
/-- the intact file, a complete schedule: recorded, both entries applied -/
example : (run exCfg (init (parserOutput [0, 1] .done []))
    [.parse, .parse, .dist, .dist, .parse, .work 0, .work 1, .dist, .workClosed 0, .workClosed 1,
     .collectD, .collectW 0, .collectW 1, .finish true]).checkpoint = true := by decide
/-- the truncated file (one entry, then Err): the same eagerness never records it -/
example : (run exCfg (init (parserOutput [0] .err []))
    [.parse, .parse, .dist, .dist, .work 0, .workClosed 0, .workClosed 1,
     .collectD, .collectW 0, .collectW 1, .finish true]).checkpoint = false := by decide

end EndToEnd

/-! ## Part 4 — memory: what a length / count field of the input can make the parser allocate

  (first item of `partial`; see `alloc_bounded_partial` for what is and what is not covered) -/
section Alloc
open GunYu.RdbAlloc

theorem grow_le (step n avail : Nat) :
    ∀ (fuel len : Nat), len ≤ avail → len ≤ n → (grow step n avail fuel len).1 ≤ avail + step ∧ (grow step n avail fuel len).1 ≤ n
  | 0, len, h1, h2 => by simp only [grow]; omega
  | fuel+1, len, h1, h2 => by
    simp only [grow]
    split
    · split
      · exact grow_le step n avail fuel _ (by assumption) (by omega)
      · simp only; omega
    · simp only; omega

/-- **ReadBytes (D22)**: whatever length `n` a damaged field announces, the buffer
    never exceeds the bytes that are really there by more than one step (64 MiB),
    and never exceeds `n` -/
theorem readBytes_alloc_bounded (step n avail : Nat) :
    (readBytes step n avail).1 ≤ avail + step ∧ (readBytes step n avail).1 ≤ n := by
  unfold readBytes
  split
  · simp only; omega
  · exact grow_le step n avail (n + 1) 0 (by omega) (by omega)

/-- success means all `n` bytes were there, and then exactly `n` are held -/
theorem grow_ok (step n avail : Nat) :
    ∀ (fuel len : Nat), len ≤ avail → (grow step n avail fuel len).2 = true →
      n ≤ avail ∧ (len ≤ n → (grow step n avail fuel len).1 = n)
  | 0, len, h1, h => by simp only [grow, decide_eq_true_eq] at h ⊢; exact ⟨by omega, fun h' => by omega⟩
  | fuel+1, len, h1, h => by
    simp only [grow] at h ⊢
    split at h
    · rename_i hlt
      split at h
      · rename_i hle
        obtain ⟨a, b⟩ := grow_ok step n avail fuel _ hle h
        refine ⟨a, fun _ => ?_⟩
        simp only [hlt, hle, if_true]
        exact b (by omega)
      · cases h
    · exact ⟨by omega, fun h' => by simp only [*, if_false]; omega⟩

theorem readBytes_ok (step n avail : Nat) (h : (readBytes step n avail).2 = true) :
    n ≤ avail ∧ (readBytes step n avail).1 = n := by
  unfold readBytes at h ⊢
  split
  · rename_i hs; simp only [hs, if_true, decide_eq_true_eq] at h; exact ⟨h, rfl⟩
  · rename_i hs
    simp only [hs, if_false] at h
    obtain ⟨a, b⟩ := grow_ok step n avail (n + 1) 0 (by omega) h
    exact ⟨a, b (by omega)⟩

theorem lzfAlloc_bounded (outlen : Int) (inBytes c : Nat) (h : lzfAlloc outlen inBytes = some c) : c ≤ 264 * inBytes := by
  unfold lzfAlloc at h
  split at h
  · cases h
  · simp only [Option.some.injEq, Int.ofNat_eq_natCast] at *; omega

theorem fieldsAlloc_bounded (numFields : Int) (lp c : Nat) (h : fieldsAlloc numFields lp = some c) : c ≤ lp := by
  unfold fieldsAlloc at h
  split at h
  · cases h
  · simp only [Option.some.injEq, Int.ofNat_eq_natCast] at *; omega

/-- **what ReadBytes asks of the allocator** (not only the length it returns): with
    any `append` growth policy that at most doubles, no single request — the
    initial capacity, a chunk, a re-allocation — exceeds twice (bytes present + one
    step), whatever the length field says -/
theorem growC_le (g : Nat → Nat → Nat) (hg : GrowOK g) (step n avail : Nat) :
    ∀ (fuel len cap mx : Nat), len ≤ avail → cap ≤ 2 * (avail + step) → mx ≤ 2 * (avail + step) →
      growC g step n avail fuel len cap mx ≤ 2 * (avail + step)
  | 0, len, cap, mx, _, _, h3 => by simp only [growC]; exact h3
  | fuel+1, len, cap, mx, h1, h2, h3 => by
    simp only [growC]
    split
    · have hk : min (n - len) step ≤ step := Nat.min_le_right _ _
      have hreq : (if len + min (n - len) step ≤ cap then 0 else g cap (len + min (n - len) step)) ≤ 2 * (avail + step) := by
        split
        · omega
        · rename_i hc
          have := hg.le cap (len + min (n - len) step)
          have hm : max cap (len + min (n - len) step) = len + min (n - len) step := by omega
          rw [hm] at this; omega
      have hcap : (if len + min (n - len) step ≤ cap then cap else g cap (len + min (n - len) step)) ≤ 2 * (avail + step) := by
        split
        · exact h2
        · rename_i hc
          have := hg.le cap (len + min (n - len) step)
          have hm : max cap (len + min (n - len) step) = len + min (n - len) step := by omega
          rw [hm] at this; omega
      have hmx : max (max mx (min (n - len) step))
          (if len + min (n - len) step ≤ cap then 0 else g cap (len + min (n - len) step)) ≤ 2 * (avail + step) := by
        omega
      split
      · exact growC_le g hg step n avail fuel _ _ _ (by assumption) hcap hmx
      · exact hmx
    · exact h3

theorem readBytes_requests_bounded (g : Nat → Nat → Nat) (hg : GrowOK g) (step n avail : Nat) :
    readBytesMaxReq g step n avail ≤ 2 * (avail + step) := by
  unfold readBytesMaxReq
  split
  · omega
  · exact growC_le g hg step n avail (n + 1) 0 step step (by omega) (by omega) (by omega)

theorem lzfAlloc32_bounded (outlen inBytes c : Nat) (h : lzfAlloc32 outlen inBytes = some c) :
    c ≤ 264 * inBytes ∧ c < 4294967296 := by
  unfold lzfAlloc32 at h
  refine ⟨lzfAlloc_bounded _ _ _ h, ?_⟩
  unfold lzfAlloc at h
  split at h
  · cases h
  · simp only [Option.some.injEq, Int.ofNat_eq_natCast] at *; omega

/-- **memory, as far as a theorem reaches** (`_partial`): each of the three buffers
    that pkg/rdb sizes by a field of the input is bounded by a linear function of
    the bytes that are actually present (+ one 64 MiB step for ReadBytes) — no
    field value, however large, asks for more.
    NOT covered (the item stays under `partial`): that these three are ALL the
    input-sized allocations of the real parser and decoders (found by review and
    by the damaged-input sweep: D22, D32), the allocator's rounding, memory held
    across entries by the pipeline, and wall-clock time — `parse_total` bounds
    the steps of the frame MODEL by the input length; a loop of a value decoder
    that does not advance (D23) is outside it. -/
theorem alloc_bounded_partial (g : Nat → Nat → Nat) (hg : GrowOK g) (step n avail : Nat) (outlen numFields : Int) (inBytes lp : Nat) :
    (readBytes step n avail).1 ≤ avail + step ∧
    readBytesMaxReq g step n avail ≤ 2 * (avail + step) ∧
    (∀ c, lzfAlloc outlen inBytes = some c → c ≤ 264 * inBytes) ∧
    (∀ c, fieldsAlloc numFields lp = some c → c ≤ lp) :=
  ⟨(readBytes_alloc_bounded step n avail).1, readBytes_requests_bounded g hg step n avail,
   fun c h => lzfAlloc_bounded outlen inBytes c h,
   fun c h => fieldsAlloc_bounded numFields lp c h⟩

/-! non-vacuity: the D22 witness (a 2^40 length over 10 bytes), an honest large string, the D32 witness -/
example : readBytes 67108864 (2 ^ 40) 10 = (67108864, false) := by decide +kernel
example : readBytes 64 200 200 = (200, true) := by decide
example : readBytes 64 200 150 = (192, false) := by decide
example : readBytes 64 10 3 = (10, false) := by decide
example : fieldsAlloc 1768326401 46 = none := by decide
example : fieldsAlloc 1 46 = some 1 := by decide
example : lzfAlloc 40 5 = some 40 ∧ lzfAlloc 1321 5 = none := by decide
/-- the LZF bound as it is: linear, 264 per compressed byte, and below 4 GiB per string — which IS reached from 16.3 MB -/
example : lzfAlloc32 4294967295 16268816 = some 4294967295 := by decide +kernel
/-- a growth policy that doubles satisfies `GrowOK`; the D22 witness then asks for at most the initial 64 MiB -/
def growDouble (c m : Nat) : Nat := 2 * max c m
theorem growDouble_ok : GrowOK growDouble := ⟨fun c m => by unfold growDouble; omega, fun c m => Nat.le_refl _⟩
example : readBytesMaxReq growDouble 64 1000000 10 = 64 := by decide +kernel
example : readBytesMaxReq growDouble 64 200 200 = 256 := by decide +kernel

end Alloc

end GunYu.Props.C04
