/-
  C16 — the offset guards of the handshake, REGENERATED from syncer/replica.go on every run
  (harness/extract/c16guards.go → Gen/ReplicaGuards.lean: the conditions found by what their
  branch does, the operands named by where they are defined), are the guards of the hand model
  (Model/Replica.lean). A change of an operator, an operand or a constant in the code changes the
  generated definition and breaks these proofs; renamed locals, swapped operands (`0 < a-b`),
  `!(a <= b)` for `a > b` and the like are absorbed by the proofs (`omega`).

  * `gen_*_eq_model`       : each generated guard equals the model's expression, for all inputs
  * `handle_uses_gen`      : `View.handle` (ServiceReplica + Handle + sendData's start offset) is the
                             same function written with the generated `handleAhead` / `sendDataFallback`
  * `preSync_uses_gen`     : `preSync` … with `preSyncGap` / `preSyncGapPos` / `preSyncGapFar`
  * `aofSync_uses_gen`     : `aofSync` … with `aofSyncDiscard` (`IsInitial()` = run id `"?"`)
  Core Lean only.
-/
import GunYu.Model.Replica
import GunYu.Gen.ReplicaGuards

namespace GunYu.Props.C16
open GunYu GunYu.Replica

theorem gen_handleAhead_eq_model (roff loff : Int) : Gen.handleAhead roff loff = decide (roff - loff > 0) := by
  unfold Gen.handleAhead
  apply decide_eq_decide.mpr
  omega

theorem gen_sendDataFallback_eq_model (valid : Bool) (reqOff lOff : Int) :
    Gen.sendDataFallback valid reqOff lOff = !valid := by
  unfold Gen.sendDataFallback
  cases valid <;> rfl

theorem gen_preSyncGap_eq_model (loff foff : Int) : Gen.preSyncGap loff foff = loff - foff := by
  rfl

theorem gen_preSyncGapPos_eq_model (gap : Int) : Gen.preSyncGapPos gap = decide (gap > 0) := by
  unfold Gen.preSyncGapPos
  apply decide_eq_decide.mpr
  omega

theorem gen_preSyncGapFar_eq_model (gap : Int) : Gen.preSyncGapFar gap = decide (gap > tenMB) := by
  unfold Gen.preSyncGapFar tenMB Gen.replicaGapClear
  apply decide_eq_decide.mpr
  omega

theorem gen_aofSyncDiscard_eq_model (left foff : Int) (initial : Bool) :
    Gen.aofSyncDiscard left foff initial = (decide (left > foff) && !initial) := by
  unfold Gen.aofSyncDiscard
  cases initial <;> simp <;> omega

/-- `View.handle` written with the regenerated guards -/
def handleG (v : View β) (rid : Id) (roff : Int) (ch : List Nat) : Reply β :=
  if !v.l1.serving then ⟨[ctl .failure], .err .plain, ch⟩
  else if !v.l1.started then ⟨[], .err .plain, ch⟩
  else match v.l1.inputIds with
  | [] => ⟨[ctl .failure], .err .brk, ch⟩
  | i0 :: _ =>
    let pre : List (Msg β) := if i0 ≠ v.l1b.cur then [ctl .clear] else []
    let rp : Reply β :=
      if rid = "" || rid = "?" then
        ⟨[⟨.info, v.l2b.cur, false, latest v.l2b.data, 0, []⟩], .eof, ch⟩
      else if v.l2.inputIds.head? ≠ some rid then ⟨[ctl .error], .err .plain, ch⟩
      else if Gen.handleAhead roff (latest v.l2b.data) then
        ⟨[⟨.handover, v.l2b.cur, false, latest v.l2b.data, 0, []⟩], .err .role, ch⟩
      else v.l4.sendData rid
        (if Gen.sendDataFallback (v.l3.valid rid roff) roff (latest v.l2b.data) then latest v.l2b.data else roff) ch
    ⟨pre ++ rp.msgs, rp.fin, rp.rest⟩

/-- **handle_uses_gen.** the model's `ServiceReplica`/`Handle` decides with the regenerated
    hand-over test and the regenerated offset fallback -/
theorem handle_uses_gen (v : View β) (rid : Id) (roff : Int) (ch : List Nat) :
    v.handle rid roff ch = handleG v rid roff ch := by
  unfold View.handle handleG
  simp only [gen_handleAhead_eq_model, gen_sendDataFallback_eq_model, decide_eq_true_eq]
  cases hv : v.l3.valid rid roff <;>
    simp only [Bool.not_false, Bool.not_true, if_true, if_false, Bool.false_eq_true] <;> rfl

/-- `preSync` written with the regenerated guards -/
def preSyncG (bk : Backend) (F : Store β) (lid : Id) (loff : Int) : Store β × (Id × Int) :=
  let r := startPoint bk F lid
  let F1 := r.1
  let sp := r.2
  if sp.1 = "?" || sp.1 = "" || sp.1 ≠ lid then (adopt bk F1 lid, (lid, loff))
  else
    let gap := Gen.preSyncGap loff sp.2
    if Gen.preSyncGapPos gap then
      if Gen.preSyncGapFar gap then (setRunId bk (delRunId bk F1 sp.1) lid, (sp.1, loff))
      else (setRunId bk F1 lid, sp)
    else (F1, sp)

/-- **preSync_uses_gen.** -/
theorem preSync_uses_gen (bk : Backend) (F : Store β) (lid : Id) (loff : Int) :
    preSync bk F lid loff = preSyncG bk F lid loff := by
  unfold preSync preSyncG
  simp only [gen_preSyncGap_eq_model, gen_preSyncGapPos_eq_model, gen_preSyncGapFar_eq_model, decide_eq_true_eq]

/-- `aofSync` written with the regenerated guard; `StartPoint.IsInitial()` is `RunId == "?"` -/
def aofSyncG (bk : Backend) (F : Store β) (x : Id) (m : Msg β) (ms : List (Msg β)) (fin : Fin)
    (budget : Nat) (lost : Loss) : Out β :=
  let r := startPoint bk F x
  let sp := r.2
  let F1 := if Gen.aofSyncDiscard m.offset sp.2 (sp.1 == "?") then setRunId bk (delRunId bk r.1 x) x else r.1
  aofRecv F1 m.offset.toNat ms fin budget lost

/-- **aofSync_uses_gen.** -/
theorem aofSync_uses_gen (bk : Backend) (F : Store β) (x : Id) (m : Msg β) (ms : List (Msg β)) (fin : Fin)
    (budget : Nat) (lost : Loss) : aofSync bk F x m ms fin budget lost = aofSyncG bk F x m ms fin budget lost := by
  unfold aofSync aofSyncG
  simp only [gen_aofSyncDiscard_eq_model]
  congr 2
  by_cases h1 : m.offset > (startPoint bk F x).2.2 <;> by_cases h2 : (startPoint bk F x).2.1 = "?" <;> simp [h1, h2]

/-! ### non-vacuity: the guards decide both ways -/
example : Gen.handleAhead 11 10 = true ∧ Gen.handleAhead 10 10 = false ∧ Gen.handleAhead (-1) 10 = false := by decide
example : Gen.preSyncGapFar 10485761 = true ∧ Gen.preSyncGapFar 10485760 = false ∧ Gen.preSyncGapPos 1 = true ∧
    Gen.preSyncGapPos 0 = false := by decide
example : Gen.aofSyncDiscard 11 10 false = true ∧ Gen.aofSyncDiscard 10 10 false = false ∧
    Gen.aofSyncDiscard 11 10 true = false := by decide
example : Gen.sendDataFallback false 5 9 = true ∧ Gen.sendDataFallback true 5 9 = false := by decide

end GunYu.Props.C16
