/-
  C20 (session 5) — the hypotheses `Group` / `Value` DISCHARGED from C03's model of `rdb.Loader`.

  Until now the shape of what the loader hands to the replay code (first bin first; later bins carry the same key, are
  not first bins and are marked split; every expanded command is a command on the key; later bins carry the key's expiry)
  was a hypothesis of every C20 theorem, "checked on the generated snapshots through the request diff". C03 owns a
  byte-level model of `Loader.Next` (Model/Rdb/Dec.lean) and theorems about its output for a well-formed key item
  (`nextValue_hash`: a hash table under ANY chunk threshold; `next_plain`: every other string / list / set / zset /
  hash encoding). This file maps C03's entry to C20's (`entryOf`: exactly the observations `RdbReplay.Replay` makes —
  `FirstBin()`, `IsSplited()`, `ValueDumpSize()`, `DumpValue()`, `ObjectParser.Type()`, the `ExecCmd` expansion) and
  PROVES `Group` and `Value` of the loader's output:

    * `loader_hash_group_value`   a hash table of ≥ 1 pairs, any threshold (1 … many chunks): Group ∧ Value, no hypothesis
                                  left but C03's well-formedness of the file's key item;
    * `loader_plain_group`        every non-split value kind: Group (one entry, first bin, not split);
    * `loader_plain_value`        … and Value, given that the expansion is not empty (Redis never saves an empty
                                  collection; the loader model accepts one: then the expansion path writes nothing and
                                  the key is absent afterwards — `Value.ne` is exactly that premise);
    * `replace_final_loader`      instance: `replace_final` for what the loader delivers for a hash-table key item,
                                  without ANY shape hypothesis.

  Also the three places where C03's and C20's models transcribe the same code separately are proved equal
  (`fnv32a_eq`, `ttl_eq`, `stripTag_eq`), so a theorem of one property about them holds for the other's definition.

  Streams (C03: `execStream`) and module values are not covered here: `Value` for a stream needs "every XADD / XGROUP /
  XSETID / XCLAIM names the key", which C03's stream theorems state per command family; left as `loader_stream_stmt`.
-/
import GunYu.Proofs.Rdb.Chunk
import GunYu.Model.Rdb.Replay
import GunYu.Props.C20
import GunYu.Model.RestoreWorker

namespace GunYu.Props.C20
open GunYu

/-- C03's object kind as `Replay` distinguishes it (`ot == Function || ot == Aux`, `ot == Module`) -/
def otypeOfRdb : Option Rdb.OType → Restore.OType
  | some .module => .module
  | some .function => .func
  | some .aux => .aux
  | _ => .data

/-- an argument as bytes; `fmt` renders a float score (ZADD) — irrelevant for the key argument -/
def argBytes (fmt : Nat → Bytes) : Rdb.Arg → Bytes
  | .b bs => bs
  | .f bits => fmt bits

def cmdOfRdb (fmt : Nat → Bytes) (c : Rdb.Cmd) : Restore.Cmd :=
  { name := lower c.name, args := c.args.map (argBytes fmt) }

/-- what `RdbReplay.Replay` / `buildBisyncRdbReplayUnit` observe of a loader entry -/
def entryOf (x : Rdb.XCfg) (fmt : Nat → Bytes) (e : Rdb.Entry) : Restore.Entry :=
  { db := e.db, key := e.key, otype := otypeOfRdb (Rdb.otypeOf e.obj.rtype),
    first := e.obj.firstBin, splited := e.obj.isSplited, canRestore := true,
    dumpSize := e.obj.valueDumpSize, expireAt := e.expireAt, idle := e.idle, freq := e.freq,
    dump := e.obj.dump, cmds := ((Rdb.execCmd x e.obj).getD []).map (cmdOfRdb fmt) }

/-! ### the separately transcribed pieces are the same functions -/

theorem fnv32a_eq (bs : Bytes) : Rdb.fnv32a bs = Restore.fnv32a bs := rfl

theorem ttl_eq (now expireAt : Nat) : Rdb.ttlOf now expireAt = Restore.ttlMs now expireAt := rfl

theorem removeFirst_eq (c : UInt8) (k : Bytes) : Rdb.removeFirst c k = Restore.removeFirst c k := by
  induction k with
  | nil => rfl
  | cons b r ih => simp [Rdb.removeFirst, Restore.removeFirst, ih]

theorem stripTag_eq (cfg : Rdb.RCfg) (w : Restore.WCfg) (h : cfg.replaceHashTag = w.rht) (k : Bytes) :
    Rdb.dstKey cfg k = Restore.routeKey w k := by
  simp [Rdb.dstKey, Restore.routeKey, Restore.stripTag, h, removeFirst_eq]

/-! ### expanded commands are commands on the key -/

private theorem cmdKey_cmdB (fmt : Nat → Bytes) (name key : Bytes) (rest : List Bytes) (hn : lower name ≠ Restore.sXGROUP) :
    Restore.cmdKey (cmdOfRdb fmt (Rdb.cmdB name (key :: rest))) = key := by
  simp [Restore.cmdKey, cmdOfRdb, Rdb.cmdB, hn, argBytes]

/-- a chunk of a hash table expands into HSETs on its key -/
theorem hash_cmds_onKey (x : Rdb.XCfg) (fmt : Nat → Bytes) (p : Rdb.PObj) (hr : p.rtype = 4) :
    ∀ c ∈ ((Rdb.execCmd x p).getD []).map (cmdOfRdb fmt), Restore.cmdKey c = p.key := by
  intro c hc
  rw [Rdb.execCmd_hash_chunk x p hr] at hc
  cases hp : Rdb.hashPairs p with
  | none => simp [hp] at hc
  | some ps =>
    simp only [hp, Option.map_some, Option.getD_some, List.map_map, List.mem_map, Function.comp] at hc
    obtain ⟨q, _, rfl⟩ := hc
    exact cmdKey_cmdB fmt _ _ _ (by decide)

/-! ### a hash table, any chunk threshold -/

/-- the first chunk of a non-empty hash table carries at least one pair (the chunk loop reads a pair before it
    looks at the threshold): what `Value.ne` needs. Re-derived from C03's `readBuffer_hash_first` (the statement of
    `nextValue_hash` does not export it). -/
private theorem first_chunk (cfg : Rdb.DCfg) (ls : Rdb.LState) (k : Rdb.KeyE) (f : Rdb.LenForm) (items : List (Rdb.SE × Rdb.SE))
    (rest : Bytes) (hobj : k.obj = .hashTable f items) (hls : ls.total = 0 ∧ ls.read = 0) (hwf : k.wf) (hne : items ≠ []) :
    ∃ ent ls1 r, Rdb.next cfg ls (k.enc ++ rest) = some (some ent, ls1, r) ∧
      ∃ ps, Rdb.hashPairs ent.obj = some ps ∧ ps ≠ [] := by
  have hwf' := hwf
  obtain ⟨hkey, hobjwf, _, _, _⟩ := hwf
  rw [hobj] at hobjwf
  obtain ⟨hf, h32, hitems⟩ := hobjwf
  have hls0 : ls.total - ls.read = 0 := by omega
  obtain ⟨fuel, hnext0⟩ := Rdb.next_at_key cfg ls k rest hls0 hwf'
  obtain ⟨j, hj1, hj2, hrb⟩ := Rdb.readBuffer_hash_first cfg ls k.key f items rest hls hkey hf h32 hitems
  have hj1 := hj1 hne
  let p0 : Rdb.PObj :=
    { rtype := 4, key := k.key.val, buf := Rdb.encLen f items.length ++ Rdb.encPairs (items.take j),
      total := items.length, read := j, history := 0 }
  let ent : Rdb.Entry := { Rdb.metaOf k {} with db := (ls.db : Int), key := k.key.val, type := 4, obj := p0 }
  let ls1 : Rdb.LState :=
    { (if items.length - j = 0 then { ls with total := 0, read := 0 }
       else { ls with total := items.length, read := j } : Rdb.LState) with last := some ent }
  have hnext : Rdb.next cfg ls (k.enc ++ rest) = some (some ent, ls1, Rdb.encPairs (items.drop j) ++ rest) := by
    rw [hnext0, hobj]
    have hn : ¬ (ls.total - ls.read ≠ 0) := by omega
    simp only [Rdb.ObjE.rtype, Rdb.ObjE.ser, Rdb.nextLoop, hn, if_false, List.append_assoc]
    simp only [show ((4 : UInt8) = 0xFA) = False by decide, show ((4 : UInt8) = 0xFB) = False by decide,
      show ((4 : UInt8) = 0xFC) = False by decide, show ((4 : UInt8) = 0xFD) = False by decide,
      show ((4 : UInt8) = 0xFE) = False by decide, show ((4 : UInt8) = 0xF4) = False by decide,
      show ((4 : UInt8) = 0xFF) = False by decide, show ((4 : UInt8) = 0xF7) = False by decide,
      show ((4 : UInt8) = 0xF8) = False by decide, show ((4 : UInt8) = 0xF9) = False by decide,
      show ((4 : UInt8) = 0xF5) = False by decide, if_false]
    have hrb' := hrb
    unfold Rdb.encPairs at hrb'
    rw [hrb']
    simp only [ent, p0, ls1, Rdb.encPairs]
  have hchunk0 : Rdb.hashPairs ent.obj = some (Rdb.pairVals (items.take j)) := by
    have := Rdb.hashPairs_first k.key.val f items.length (items.take j) items.length hf h32
      (fun p hp => hitems p (List.mem_of_mem_take hp))
    rw [List.length_take, Nat.min_eq_left hj2] at this
    exact this
  refine ⟨ent, ls1, _, hnext, _, hchunk0, ?_⟩
  intro h0
  have hlen : (items.take j).length = 0 := by
    have := congrArg List.length h0
    simp only [Rdb.pairVals, List.length_map, List.length_nil] at this
    exact this
  have hpos : 0 < items.length := List.length_pos_iff.mpr hne
  rw [List.length_take] at hlen
  omega

/-- **the loader's output for a hash-table key item IS a key group with a value** — for every chunk threshold
    (`cfg.thr`: one chunk … one chunk per pair), every loader state between two values, every expiry / idle / freq
    prefix: `Group` and `Value` hold of `entryOf` of the entries `Next` returns. -/
theorem loader_hash_group_value (cfg : Rdb.DCfg) (x : Rdb.XCfg) (fmt : Nat → Bytes) (ls : Rdb.LState) (k : Rdb.KeyE)
    (f : Rdb.LenForm) (items : List (Rdb.SE × Rdb.SE)) (rest : Bytes)
    (hobj : k.obj = .hashTable f items) (hls : ls.total = 0 ∧ ls.read = 0) (hwf : k.wf) (hne : items ≠ []) :
    ∃ e0 tl ls', Rdb.nextValue cfg (items.length + 1) ls (k.enc ++ rest) = some (e0 :: tl, ls', rest) ∧
      (entryOf x fmt e0).key = k.key.val ∧ (entryOf x fmt e0).expireAt = k.exp.at ∧ (entryOf x fmt e0).db = (ls.db : Int) ∧
      Group (entryOf x fmt e0) (tl.map (entryOf x fmt)) ∧ Value (entryOf x fmt e0) (tl.map (entryOf x fmt)) := by
  obtain ⟨es, ls', hnv, _, _, hall, ⟨e0, tl, hes, hfb0, hfbt⟩, _, _, _, _, hsplit⟩ :=
    Rdb.nextValue_hash cfg ls k f items rest hobj hls hwf hne
  subst hes
  have hc0 := hall e0 (List.mem_cons_self ..)
  have hdata : ∀ e ∈ e0 :: tl, (entryOf x fmt e).otype = .data := by
    intro e he
    have := (hall e he).2.2.2.2.2.2.2
    simp [entryOf, this, otypeOfRdb, show Rdb.otypeOf 4 = some .hash by decide]
  have hkeys : ∀ e ∈ e0 :: tl, (entryOf x fmt e).key = k.key.val := fun e he => (hall e he).1
  have hcmds : ∀ e ∈ e0 :: tl, ∀ c ∈ (entryOf x fmt e).cmds, Restore.cmdKey c = k.key.val := by
    intro e he c hc
    have hch := hall e he
    rw [← hch.2.2.2.2.2.2.1]
    exact hash_cmds_onKey x fmt e.obj hch.2.2.2.2.2.2.2 c hc
  -- the head of the list IS the entry the first `Next` returns: its chunk is not empty
  have hne0 : (entryOf x fmt e0).cmds ≠ [] := by
    obtain ⟨ent, ls1, r, hnext, ps, hps, hpsne⟩ := first_chunk cfg ls k f items rest hobj hls hwf hne
    have : e0 = ent := by
      simp only [Rdb.nextValue, hnext] at hnv
      split at hnv
      · simp at hnv; exact hnv.1.1.symm
      · split at hnv
        · simp at hnv; exact hnv.1.1.symm
        · simp at hnv
    subst this
    simp only [entryOf]
    rw [Rdb.execCmd_hash_chunk x e0.obj hc0.2.2.2.2.2.2.2, hps]
    cases ps with
    | nil => exact absurd rfl hpsne
    | cons q qs => simp
  refine ⟨e0, tl, ls', hnv, hc0.1, hc0.2.2.1, hc0.2.1, ⟨hdata e0 (List.mem_cons_self ..), hfb0, ?_, ?_⟩, ⟨?_, hne0, ?_, ?_⟩⟩
  · intro e he
    obtain ⟨e', he', rfl⟩ := List.mem_map.mp he
    have hm : e' ∈ e0 :: tl := List.mem_cons_of_mem _ he'
    refine ⟨?_, hfbt e' he', hdata e' hm, ?_⟩
    · rw [hkeys e' hm, hkeys e0 (List.mem_cons_self ..)]
    · rcases hsplit with ⟨e1, h1, _⟩ | hs
      · simp at h1; rw [h1.2] at he'; simp at he'
      · exact hs e' hm
  · intro hnil
    rcases hsplit with ⟨e1, h1, _⟩ | hs
    · simp at h1; rw [h1.2] at hnil; simp at hnil
    · exact hs e0 (List.mem_cons_self ..)
  · intro c hc; rw [hkeys e0 (List.mem_cons_self ..)]; exact hcmds e0 (List.mem_cons_self ..) c hc
  · intro e he c hc
    obtain ⟨e', he', rfl⟩ := List.mem_map.mp he
    rw [hkeys e0 (List.mem_cons_self ..)]
    exact hcmds e' (List.mem_cons_of_mem _ he') c hc
  · intro e he
    obtain ⟨e', he', rfl⟩ := List.mem_map.mp he
    right
    show e'.expireAt = e0.expireAt
    rw [(hall e' (List.mem_cons_of_mem _ he')).2.2.1, hc0.2.2.1]

/-! ### every other (never split) value kind -/

/-- one entry, a first bin, not split: `Group` with no later bins -/
theorem loader_plain_group (cfg : Rdb.DCfg) (x : Rdb.XCfg) (fmt : Nat → Bytes) (ls : Rdb.LState) (k : Rdb.KeyE) (rest : Bytes)
    (hls : ls.total = 0 ∧ ls.read = 0) (hwf : k.wf) (hk : k.obj.kind ≠ .other) (hh : k.obj.rtype ≠ 4) :
    ∃ e ls', Rdb.next cfg ls (k.enc ++ rest) = some (some e, ls', rest) ∧
      (entryOf x fmt e).key = k.key.val ∧ (entryOf x fmt e).expireAt = k.exp.at ∧
      (entryOf x fmt e).splited = false ∧ Group (entryOf x fmt e) [] := by
  obtain ⟨e, ls', hn, hkey, _, hexp, _, _, _, hobj, _⟩ := Rdb.next_plain cfg ls k rest hls hwf hk hh
  refine ⟨e, ls', hn, hkey, hexp, ?_, ⟨?_, ?_, by simp, by simp⟩⟩
  · simp only [entryOf, hobj, Rdb.PObj.isSplited, Rdb.pobjOf]
    cases k.obj <;> simp
  · have hot := Rdb.otypeOf_rtype k.obj hk
    simp only [entryOf, hobj, Rdb.pobjOf, hot, otypeOfRdb]
    unfold Rdb.otOf
    cases hkk : k.obj.kind <;> first | rfl | exact absurd hkk hk
  · simp [entryOf, hobj, Rdb.pobjOf, Rdb.PObj.firstBin]

/-- the expansion of a string / list / set / zset / hash value names the key in every command -/
theorem plain_cmds_onKey (x : Rdb.XCfg) (fmt : Nat → Bytes) (p : Rdb.PObj) (ot : Rdb.OType)
    (hot : Rdb.otypeOf p.rtype = some ot) (hk : ot = .string ∨ ot = .list ∨ ot = .set ∨ ot = .zset ∨ ot = .hash) :
    ∀ c ∈ ((Rdb.execCmd x p).getD []).map (cmdOfRdb fmt), Restore.cmdKey c = p.key := by
  intro c hc
  obtain ⟨c0, hc0, rfl⟩ := List.mem_map.mp hc
  have key_of : ∀ (name : Bytes) (as : List Rdb.Arg), lower name ≠ Restore.sXGROUP →
      Restore.cmdKey (cmdOfRdb fmt ⟨name, Rdb.Arg.b p.key :: as⟩) = p.key := by
    intro name as hn; simp [Restore.cmdKey, cmdOfRdb, hn, argBytes]
  unfold Rdb.execCmd at hc0
  rw [hot] at hc0
  rcases hk with rfl | rfl | rfl | rfl | rfl
  · simp at hc0; subst hc0; exact key_of _ _ (by decide)
  · simp only at hc0
    cases h : Rdb.listElems p.rtype p.buf with
    | none => simp [h] at hc0
    | some es => simp [h] at hc0; obtain ⟨a, _, rfl⟩ := hc0; exact key_of _ _ (by decide)
  · simp only at hc0
    cases h : Rdb.setElems p.rtype p.buf with
    | none => simp [h] at hc0
    | some es => simp [h] at hc0; obtain ⟨a, _, rfl⟩ := hc0; exact key_of _ _ (by decide)
  · simp only at hc0
    split at hc0
    · cases h : Rdb.readLength p.buf with
      | none => simp [h] at hc0
      | some nr =>
        obtain ⟨n, r⟩ := nr
        simp only [h] at hc0
        cases h2 : (if p.rtype = 3 then Rdb.zset1Elems n r else Rdb.zset2Elems n r) with
        | none => simp [h2] at hc0
        | some es => simp [h2] at hc0; obtain ⟨a, b, _, rfl⟩ := hc0; exact key_of _ _ (by decide)
    · cases h : Rdb.readString p.buf with
      | none => simp [h] at hc0
      | some br =>
        obtain ⟨b, r⟩ := br
        simp only [h] at hc0
        cases h2 : (if p.rtype = 12 then Rdb.zlPairs b else Rdb.lpPairs b) with
        | none => simp [h2] at hc0
        | some es => simp [h2] at hc0; obtain ⟨a, b', _, rfl⟩ := hc0; exact key_of _ _ (by decide)
  · simp only at hc0
    cases h : Rdb.hashPairs p with
    | none => simp [h] at hc0
    | some es => simp [h] at hc0; obtain ⟨a, b, _, rfl⟩ := hc0; exact key_of _ _ (by decide)

/-- `Value` of a non-split entry whose expansion is not empty -/
theorem loader_plain_value (cfg : Rdb.DCfg) (x : Rdb.XCfg) (fmt : Nat → Bytes) (ls : Rdb.LState) (k : Rdb.KeyE) (rest : Bytes)
    (hls : ls.total = 0 ∧ ls.read = 0) (hwf : k.wf) (hk : k.obj.kind ≠ .other) (hh : k.obj.rtype ≠ 4)
    (hne : (Rdb.execCmd x (Rdb.pobjOf k.key.val k.obj)).getD [] ≠ []) :
    ∃ e ls', Rdb.next cfg ls (k.enc ++ rest) = some (some e, ls', rest) ∧
      Group (entryOf x fmt e) [] ∧ Value (entryOf x fmt e) [] := by
  obtain ⟨e, ls', hn, _, _, _, hg⟩ := loader_plain_group cfg x fmt ls k rest hls hwf hk hh
  obtain ⟨e', ls'', hn', hkey, _, _, _, _, _, hobj, _⟩ := Rdb.next_plain cfg ls k rest hls hwf hk hh
  have : e = e' := by rw [hn] at hn'; simp at hn'; exact hn'.1
  subst this
  refine ⟨e, ls', hn, hg, ⟨?_, ?_, by simp, by simp⟩⟩
  · intro c hc
    have hot := Rdb.otypeOf_rtype k.obj hk
    have hkind : Rdb.otOf k.obj = .string ∨ Rdb.otOf k.obj = .list ∨ Rdb.otOf k.obj = .set ∨ Rdb.otOf k.obj = .zset ∨ Rdb.otOf k.obj = .hash := by
      unfold Rdb.otOf
      cases hkk : k.obj.kind <;> simp_all
    have := plain_cmds_onKey x fmt e.obj (Rdb.otOf k.obj) (by rw [hobj]; exact hot) hkind c hc
    rw [this, hobj]; simp [entryOf, Rdb.pobjOf, hkey]
  · simp only [entryOf, hobj]
    intro h0
    exact hne (List.map_eq_nil_iff.mp h0)

/-- a string value always expands into one SET: `Value` without any premise -/
theorem loader_string_value (x : Rdb.XCfg) (key : Bytes) (s : Rdb.SE) :
    (Rdb.execCmd x (Rdb.pobjOf key (.str s))).getD [] ≠ [] := by
  simp [Rdb.execCmd, Rdb.pobjOf, Rdb.ObjE.rtype, show Rdb.otypeOf 0 = some .string by decide]

/-- INSTANCE: `replace_final` for what the loader delivers for a hash-table key item of the file — no hypothesis
    about the shape of the entries is left; whatever the target held under the key, it ends with the value built
    from ALL chunks (or the RESTOREd payload when there is one chunk and RESTORE applies) and the snapshot's expiry. -/
theorem replace_final_loader (cfg : Rdb.DCfg) (x : Rdb.XCfg) (fmt : Nat → Bytes) (ls : Rdb.LState) (k : Rdb.KeyE)
    (f : Rdb.LenForm) (items : List (Rdb.SE × Rdb.SE)) (rest : Bytes)
    (hobj : k.obj = .hashTable f items) (hls : ls.total = 0 ∧ ls.read = 0) (hwf : k.wf) (hne : items ≠ [])
    (rc : Restore.Cfg) (st : Restore.RState) (t : Restore.Target) :
    ∃ e0 tl ls', Rdb.nextValue cfg (items.length + 1) ls (k.enc ++ rest) = some (e0 :: tl, ls', rest) ∧
      let es := (e0 :: tl).map (entryOf x fmt)
      (Restore.runPlain .replace rc st t es).out = .ok ∧
      (Restore.runPlain .replace rc st t es).tgt.get k.key.val =
        some (snapshotObj rc t (entryOf x fmt e0) (tl.map (entryOf x fmt))) ∧
      (∀ d k', ¬ (d = t.cur ∧ k' = k.key.val) → (Restore.runPlain .replace rc st t es).tgt.ks d k' = t.ks d k') := by
  obtain ⟨e0, tl, ls', hnv, hkey, _, _, g, v⟩ := loader_hash_group_value cfg x fmt ls k f items rest hobj hls hwf hne
  refine ⟨e0, tl, ls', hnv, ?_⟩
  have := replace_final rc st t _ _ g v
  rw [hkey] at this
  exact ⟨this.1, this.2.1, this.2.2.1⟩

/-- streams: what is NOT proved here — every command `execStream` emits names the key (XADD / XSETID / XGROUP CREATE /
    XCLAIM …), so that `Value` holds of a stream entry as well -/
def loader_stream_stmt : Prop :=
  ∀ (x : Rdb.XCfg) (fmt : Nat → Bytes) (p : Rdb.PObj), Rdb.otypeOf p.rtype = some .stream →
    ∀ c ∈ ((Rdb.execCmd x p).getD []).map (cmdOfRdb fmt), Restore.cmdKey c = p.key

/-! ## non-vacuity: C03's three-pair hash table under key "h", expiry 5000, threshold 1 byte → THREE chunks -/

def exLKey : Rdb.KeyE :=
  { exp := .ms 5000, key := Rdb.SE.plain [104],
    obj := .hashTable .b6 [(Rdb.SE.plain [97], Rdb.SE.plain [49]), (Rdb.SE.plain [98], Rdb.SE.plain [50]), (Rdb.SE.plain [99], Rdb.SE.plain [51])] }
example : exLKey.wf := by decide
/-- the entries the loader model returns, as the replay code sees them -/
def exLEntries : List Restore.Entry :=
  ((Rdb.nextValue { thr := 1 } 4 {} (exLKey.enc ++ [0xFF])).map (fun r => r.1.map (entryOf {} natToDec))).getD []
example : exLEntries.map (fun e => (e.key, e.first, e.splited, e.expireAt, e.cmds.length)) =
    [([104], true, true, 5000, 1), ([104], false, true, 5000, 1), ([104], false, true, 5000, 1)] := by decide +kernel
example : (exLEntries.flatMap (·.cmds)).map (·.name) = [[104, 115, 101, 116], [104, 115, 101, 116], [104, 115, 101, 116]] := by decide +kernel
-- the hypotheses of `loader_hash_group_value` hold of it
example : ∃ e0 tl ls', Rdb.nextValue { thr := 1 } (3 + 1) {} (exLKey.enc ++ [0xFF]) = some (e0 :: tl, ls', [0xFF]) ∧
    (entryOf {} natToDec e0).key = [104] ∧ (entryOf {} natToDec e0).expireAt = 5000 ∧ (entryOf {} natToDec e0).db = 0 ∧
    Group (entryOf {} natToDec e0) (tl.map (entryOf {} natToDec)) ∧ Value (entryOf {} natToDec e0) (tl.map (entryOf {} natToDec)) :=
  loader_hash_group_value { thr := 1 } {} natToDec {} exLKey .b6 _ [0xFF] rfl ⟨rfl, rfl⟩ (by decide) (by simp)
-- replayed under `ignore` onto a target that holds "h": one EXISTS for the three chunks the loader made
example : (Restore.runPlain .ignore exCfg none exT exLEntries).reqs = [Restore.Req.exists [104]] := by decide +kernel
-- a string: one SET
example : (Rdb.execCmd {} (Rdb.pobjOf [107] (.str (Rdb.SE.plain [118])))).getD [] ≠ [] := loader_string_value {} _ _

end GunYu.Props.C20
