/-
  C06, second part: the retry loop and the collector.

  `GunYu.Props.C06` proves the property for one connection and for sequences of
  completed connections (`Reach`). Here:

  * the collector is C05's (`GunYu.Store.Disk.gc`, `GunYu.Store.Mem.gc`, imported,
    not copied): one pass of it is a `Collected` step on what the cache reports
    (`GunYu.Proofs.PsyncStore`), and a `Collected` step keeps `CacheWF` —
    including `contig`: equality on disk, `left ≤ l` in memory, where the
    snapshot's own offset stops being valid once the log no longer starts there —
    and `CacheOK` (`gc_keeps_disk`, `gc_keeps_memory`);
  * `RedisInput.Run`'s loop is the state machine `Loop` (Model/Psync.lean §9):
    attempts that fail at any call of `syncMeta` or later, `ErrCorrupted` followed
    by `DelRunId`, attempts whose INFO and PSYNC were answered by different
    sources (+CONTINUE under another id than INFO reported), with source changes,
    collector passes, cache and position losses in between. `loop_inv` shows the
    hypotheses of the single-connection theorems in every state it reaches,
    `loop_safe` / `loop_safe_stale` the property's statement for the next attempt.
-/
import GunYu.Props.C06
import GunYu.Props.C05
import GunYu.Proofs.PsyncStore

namespace GunYu.Props.C06
open GunYu GunYu.Psync GunYu.Store

/-! ## small facts -/

theorem holds_empty (w : World) (h : Id) {c : Cache} (d : CData) (hr : c.rdb = none) (ha : c.aof = none) :
    Holds w h c d := by
  refine ⟨?_, ?_⟩
  · rw [ha]; trivial
  · rw [hr]; trivial

theorem ok_empty (w : World) (s : Source) {c : Cache} (d : CData) (hr : c.rdb = none) (ha : c.aof = none) :
    CacheOK w s c d :=
  ⟨fun _ => holds_empty w _ d hr ha, fun _ => Or.inl (holds_empty w _ d hr ha)⟩

theorem wf_empty (be : Backend) (id : Id) : CacheWF ⟨be, id, none, none⟩ :=
  ⟨trivial, trivial, trivial, fun _ => ⟨rfl, rfl⟩⟩

/-- `DelRunId(RunId())` leaves a cache without data -/
theorem delOwn {c : Cache} (hc : CacheWF c) :
    CacheWF (c.delRunId c.runId) ∧ (c.delRunId c.runId).rdb = none ∧ (c.delRunId c.runId).aof = none := by
  obtain ⟨be, rid, rdb, aof⟩ := c
  cases be
  · simp only [Cache.delRunId]
    by_cases h : rid = [] ∨ rid = qId ∨ rid ≠ rid
    · rw [if_pos h]
      have hl := hc.label (by rcases h with h | h | h; exact Or.inl h; exact Or.inr h; exact absurd rfl h)
      exact ⟨hc, hl.1, hl.2⟩
    · rw [if_neg h]
      exact ⟨wf_empty _ _, rfl, rfl⟩
  · simp only [Cache.delRunId]
    rw [if_neg (by intro h; exact h.2.2.2 rfl)]
    exact ⟨wf_empty _ _, rfl, rfl⟩

theorem left_le_latest {c : Cache} (hc : CacheWF c) {left size : Int} (hr : c.rdb = some (left, size)) :
    left ≤ c.latest := by
  obtain ⟨wa, _, wc, _⟩ := hc
  obtain ⟨be, rid, rdb, aof⟩ := c
  simp only at hr; subst hr
  rcases aof with _ | ⟨l, r⟩
  · simp [Cache.latest]
  · simp only [Cache.latest] at wa wc ⊢
    split at wc <;> omega

theorem relabel_wf {c : Cache} (hc : CacheWF c) {id : Id} (h1 : id ≠ []) (h2 : id ≠ qId) :
    CacheWF { c with runId := id } :=
  ⟨hc.aof_ok, hc.rdb_ok, hc.contig, fun h => by rcases h with h | h; exact absurd h h1; exact absurd h h2⟩

theorem relabel_holds {w : World} {h : Id} {c : Cache} {d : CData} (hh : Holds w h c d) (id : Id) :
    Holds w h { c with runId := id } d := ⟨hh.aof_hist, hh.rdb_tok⟩

/-- a world is needed to name a run; its contents do not matter for `syncMeta` -/
def wAny : World := ⟨fun _ _ => 0, fun _ _ _ => 0⟩

/-! ## what a granted continuation says about the stored position -/

/-- when the source answered CONTINUE the stored position's id is one the source
    serves (or nothing was stored), and a position under the previous id, with the
    cache holding nothing under the current one, was checked against the switch
    offset by the source -/
theorem meta_cont_facts {s : Source} {sp : SP} {c : Cache} (hs : SourceWF s) (hc : CacheWF c)
    (hsp : SpWF sp) (hnf : (syncMeta s sp c).ps.full = false) (h0 : 0 ≤ sp.offset) :
    (sp.runId = s.id1 ∨ sp.runId = s.id2) ∧
      (sp.runId ≠ s.id1 → NotYetCurrent s c → sp.offset ≤ s.switchOff) := by
  have hm := run_mt wAny s sp c CData.empty
  rcases run_spec (w := wAny) (sp := sp) (d := CData.empty) hs hc with hF | hK | hC
  · have := hF.full; rw [hm, hnf] at this; cases this
  · have hny : NotYetCurrent s c → c.runId = s.id2 ∧ c.latest ≤ s.switchOff := by
      intro hn
      rcases hK.cid with e | e
      · rcases hn with hn | ⟨hr, ha⟩
        · exact absurd e hn
        · have := hK.lat_nonneg; rw [latest_none ha hr] at this; omega
      · exact e
    rcases hK.read with ⟨_, _, hout, hle, _⟩ | ⟨left, size, hr, hcase, _, _⟩
    · exact ⟨hout, fun _ hn => by have := (hny hn).2; omega⟩
    · rcases hcase with hi | ⟨hout, hlt⟩
      · have : sp.runId = qId := by simpa [SP.isInitial] using hi
        have := hsp this
        omega
      · refine ⟨hout, fun _ hn => ?_⟩
        have := (hny hn).2
        have := left_le_latest hc hr
        omega
  · refine ⟨?_, fun h1 _ => ?_⟩
    · rcases hC.sid with e | ⟨e, _⟩
      · exact Or.inl e
      · exact Or.inr e
    · rcases hC.sid with e | ⟨_, h⟩
      · exact absurd e h1
      · exact h

/-- … hence the target's data is a prefix of the current history up to exactly the
    stored offset, whatever label the position carries -/
theorem d1_of_meta {w : World} {s : Source} {t : Tgt} {c : Cache} (hs : SourceWF s) (hc : CacheWF c)
    (hag : Agree w s) (htr : Truthful w s t c) (hsp : SpWF t.stored)
    (hnf : (syncMeta s t.stored c).ps.full = false) (h0 : 0 ≤ t.stored.offset) :
    ∃ tid, t.truth = .at tid t.stored.offset ∧ AgreeBelow w tid s.id1 t.stored.offset := by
  obtain ⟨hin, hsw⟩ := meta_cont_facts hs hc hsp hnf h0
  obtain ⟨tid, ht, hd⟩ := htr hin h0
  refine ⟨tid, ht, ?_⟩
  rcases hd with d1 | ⟨_, ln1, ag, hcn⟩
  · exact d1
  · have := hsw ln1 hcn
    exact fun n h0 hn => (ag n h0 hn).trans (hag n h0 (by omega))

/-- any position with the stored offset, under any label, next to any cache, is then truthful -/
theorem truthful_of_d1 {w : World} {s : Source} {tr : Truth} {x : Int}
    (h : 0 ≤ x → ∃ tid, tr = .at tid x ∧ AgreeBelow w tid s.id1 x) (l : Id) (c' : Cache) :
    Truthful w s ⟨⟨l, x⟩, tr⟩ c' := by
  intro _ h0
  obtain ⟨tid, ht, hd⟩ := h h0
  exact ⟨tid, ht, Or.inl hd⟩

theorem truthful_afterMeta (resume : Bool) {w : World} {s : Source} {t : Tgt} {c : Cache}
    (hs : SourceWF s) (hc : CacheWF c) (hag : Agree w s) (htr : Truthful w s t c) (hsp : SpWF t.stored)
    (c' : Cache) : Truthful w s (t.afterMeta resume (syncMeta s t.stored c)) c' := by
  unfold Tgt.afterMeta
  cases hf : (syncMeta s t.stored c).ps.full
  · simp only [Bool.false_eq_true, if_false]
    cases resume
    · simp only [Bool.false_eq_true, if_false]
      exact truthful_of_d1 (fun h0 => d1_of_meta hs hc hag htr hsp hf h0) _ c'
    · simp only [if_true]
      exact truthful_of_d1 (fun h0 => d1_of_meta hs hc hag htr hsp hf h0) _ c'
  · simp only [if_true]
    apply truthful_forget
    right
    cases resume <;> simp [SP.initial]

theorem spwf_afterMeta (resume : Bool) {s : Source} {t : Tgt} {c : Cache} (hs : SourceWF s) (hc : CacheWF c)
    (hsp : SpWF t.stored) : SpWF (t.afterMeta resume (syncMeta s t.stored c)).stored := by
  have hrid : (syncMeta s t.stored c).runId = s.id1 := by
    have hm := run_mt wAny s t.stored c CData.empty
    rcases run_spec (w := wAny) (sp := t.stored) (d := CData.empty) hs hc with hF | hK | hC
    · rw [← hm]; exact hF.runId
    · rw [← hm]; exact hK.runId
    · rw [← hm]; exact hC.runId
  unfold Tgt.afterMeta SpWF
  cases hf : (syncMeta s t.stored c).ps.full <;> cases resume <;>
    simp only [Bool.false_eq_true, if_false, if_true, hrid, SP.initial]
  · exact hsp
  · intro h; exact absurd h hs.id1_nq
  · intro _; omega
  · intro _; omega

theorem spwf_step (resume : Bool) {w : World} {s : Source} {t : Tgt} {c : Cache} {d : CData}
    (hs : SourceWF s) (hc : CacheWF c) (hok : CacheOK w s c d) (hag : Agree w s) (hsp : SpWF t.stored)
    (done : Bool) (e : Int) : SpWF (step resume w s t c d done e).stored := by
  have hm := run_mt w s t.stored c d
  have hA := spwf_afterMeta resume hs hc hsp
  have hrid : (run w s t.stored c d).mt.runId = s.id1 := by
    rcases run_spec (w := w) (sp := t.stored) (d := d) hs hc with hF | hK | hC
    · exact hF.runId
    · exact hK.runId
    · exact hC.runId
  unfold step
  rw [hm] at hrid ⊢
  cases hdel : (run w s t.stored c d).delivery with
  | none => simp only [Tgt.afterSend, hdel]; exact hA
  | snapshot tok left size =>
    simp only [Tgt.afterSend, hdel]
    cases done
    · simp only [Bool.false_eq_true, if_false, SpWF, SP.initial]; intro _; omega
    · simp only [if_true, SpWF, hm, hrid]; intro h; exact absurd h hs.id1_nq
  | stream start byte =>
    obtain ⟨_, _, hfull, hin, _, _⟩ := stream_facts hs hc hok hag hdel
    rw [hm] at hfull
    simp only [Tgt.afterSend, hdel]
    by_cases he : e > start
    · rw [if_pos he]
      simp only [SpWF, hm, hrid]
      cases resume
      · simp only [Bool.false_eq_true, if_false, Tgt.afterMeta, hfull]
        intro h
        rcases hin with x | x <;> rw [x] at h
        · exact absurd h hs.id1_nq
        · exact absurd h hs.id2_nq
      · simp only [if_true]; intro h; exact absurd h hs.id1_nq
    · rw [if_neg he]; exact hA

/-! ## one attempt, as far as it gets -/

/-- `syncMeta`'s cache (after `DelRunId` / `SetRunId`) and the bytes it describes -/
theorem meta_cache {w : World} {s : Source} {sp : SP} {c : Cache} {d : CData}
    (hs : SourceWF s) (hc : CacheWF c) (hok : CacheOK w s c d) (hag : Agree w s) :
    CacheWF (syncMeta s sp c).cache ∧
      CacheOK w s (syncMeta s sp c).cache (if (syncMeta s sp c).deleted then CData.empty else d) ∧
      ((syncMeta s sp c).ps.full = true ∨ (syncMeta s sp c).deleted = true →
        (syncMeta s sp c).cache.rdb = none ∧ (syncMeta s sp c).cache.aof = none) := by
  rw [← run_mt w s sp c d]
  rcases run_spec (w := w) (sp := sp) (d := d) hs hc with hF | hK | hC
  · rw [hF.cache, hF.deleted]
    exact ⟨wf_empty _ _, ok_empty w s _ rfl rfl, fun _ => ⟨rfl, rfl⟩⟩
  · rw [hK.cache, hK.deleted, hK.full]
    refine ⟨relabel_wf hc hs.id1_ne hs.id1_nq, ⟨fun _ => ?_, fun _ => ?_⟩, fun h => by rcases h with h | h <;> cases h⟩
    · exact relabel_holds (keep_holds hc hok hag hK.cid) _
    · exact Or.inr (relabel_holds (keep_holds hc hok hag hK.cid) _)
  · rw [hC.cache, hC.deleted]
    exact ⟨wf_empty _ _, ok_empty w s _ rfl rfl, fun _ => ⟨rfl, rfl⟩⟩

/-- the stored position, untouched, stays truthful next to `syncMeta`'s cache -/
theorem truthful_meta_cache {w : World} {s : Source} {t : Tgt} {c : Cache}
    (hs : SourceWF s) (hc : CacheWF c) (hag : Agree w s) (htr : Truthful w s t c) (hsp : SpWF t.stored) :
    Truthful w s t (syncMeta s t.stored c).cache := by
  cases hf : (syncMeta s t.stored c).ps.full
  · exact truthful_of_d1 (fun h0 => d1_of_meta hs hc hag htr hsp hf h0) _ _
  · have hm := run_mt wAny s t.stored c CData.empty
    rcases run_spec (w := wAny) (sp := t.stored) (d := CData.empty) hs hc with hF | hK | hC
    · exact truthful_cache_change w s t c _ htr (fun _ => Or.inr (by rw [← hm, hF.cache]; exact ⟨rfl, rfl⟩))
    · have := hK.full; rw [hm, hf] at this; cases this
    · have := hC.full; rw [hm, hf] at this; cases this

/-- **every attempt, however far it gets, keeps the invariant** -/
theorem attempt_inv (resume : Bool) (w : World) (σ : Sys) (st : Stage) (h : Inv w σ) (hfit : st.fits σ.s) :
    Inv w (attempt resume w σ st) := by
  obtain ⟨hs, hag, hc, hok, htr, hsp⟩ := h
  have hmc := meta_cache (sp := σ.t.stored) hs hc hok hag
  cases st with
  | early => exact ⟨hs, hag, hc, hok, htr, hsp⟩
  | cleared =>
    simp only [attempt]
    split
    · obtain ⟨a, b, c'⟩ := delOwn hc
      exact ⟨hs, hag, a, ok_empty w _ _ b c', truthful_cache_change w _ _ _ _ htr (fun _ => Or.inr ⟨b, c'⟩), hsp⟩
    · exact ⟨hs, hag, hc, hok, htr, hsp⟩
  | relabelled =>
    exact ⟨hs, hag, hmc.1, hmc.2.1, truthful_meta_cache hs hc hag htr hsp, hsp⟩
  | reset =>
    simp only [attempt]
    cases hf : (syncMeta σ.s σ.t.stored σ.c).ps.full
    · exact ⟨hs, hag, hmc.1, hmc.2.1, truthful_meta_cache hs hc hag htr hsp, hsp⟩
    · refine ⟨hs, hag, hmc.1, hmc.2.1, ?_, ?_⟩
      · exact truthful_forget w _ _ _ _ (Or.inr (by simp [SP.initial]))
      · intro _; simp [Tgt.afterReset, SP.initial]
  | metaDone =>
    exact ⟨hs, hag, hmc.1, hmc.2.1, truthful_afterMeta resume hs hc hag htr hsp _, spwf_afterMeta resume hs hc hsp⟩
  | written k =>
    obtain ⟨a, b, _⟩ := cache_consistent_after w σ.s σ.t.stored σ.c σ.d hs hc hok hag k hfit.1 hfit.2 _ rfl
    refine ⟨hs, hag, a, b, ?_, ?_⟩
    · simp only [attempt, run_mt]; exact truthful_afterMeta resume hs hc hag htr hsp _
    · simp only [attempt, run_mt]; exact spwf_afterMeta resume hs hc hsp
  | delivered done e k =>
    obtain ⟨a, b, _⟩ := cache_consistent_after w σ.s σ.t.stored σ.c σ.d hs hc hok hag k hfit.1 hfit.2 _ rfl
    exact ⟨hs, hag, a, b, truthful_preserved resume w σ.s σ.t σ.c σ.d hs hc hok hag htr done e k,
      spwf_step resume hs hc hok hag hsp done e⟩

/-- `ErrCorrupted` → `DelRunId(RunId())`: the cache is dropped, nothing else changes -/
theorem corrupted_inv (w : World) (σ : Sys) (h : Inv w σ) : Inv w σ.corrupted := by
  obtain ⟨hs, hag, hc, _, htr, hsp⟩ := h
  obtain ⟨a, b, c'⟩ := delOwn hc
  exact ⟨hs, hag, a, ok_empty w _ _ b c', truthful_cache_change w _ _ _ _ htr (fun _ => Or.inr ⟨b, c'⟩), hsp⟩

/-! ## an attempt answered FULLRESYNC, whatever made it so -/

theorem truthful_afterSend (resume : Bool) {w : World} {s : Source} (hs : SourceWF s) {t : Tgt} {c' : Cache}
    (htr : Truthful w s t c') (r : Result) (done : Bool) (e : Int) :
    Truthful w s (t.afterSend resume s r done e) c' := by
  unfold Tgt.afterSend
  split
  · split
    · intro _ _; exact ⟨s.id1, rfl, Or.inl (fun _ _ _ => rfl)⟩
    · exact htr
  · cases done
    · simp only [Bool.false_eq_true, if_false]
      intro hin _
      rcases hin with x | x
      · exact absurd x.symm hs.id1_nq
      · exact absurd x.symm hs.id2_nq
    · simp only [if_true]
      intro _ _; exact ⟨s.id1, rfl, Or.inl (fun _ _ _ => rfl)⟩
  · exact htr

theorem fresh_wf_ok (w : World) {s : Source} (hs : SourceWF s) (be : Backend) {k : Int} (hk : 0 ≤ k)
    (hb : s.masterOff + k ≤ maxInt64) :
    CacheWF ⟨be, s.id1, some (s.masterOff, s.snapLen), if k > 0 then some (s.masterOff, s.masterOff + k) else none⟩ ∧
    CacheOK w s ⟨be, s.id1, some (s.masterOff, s.snapLen), if k > 0 then some (s.masterOff, s.masterOff + k) else none⟩
      ⟨fun n => w.hist s.id1 n, (s.id1, s.masterOff)⟩ := by
  have h0 := hs.master_nonneg
  have hp := hs.snap_pos
  have hH : Holds w s.id1 ⟨be, s.id1, some (s.masterOff, s.snapLen), if k > 0 then some (s.masterOff, s.masterOff + k) else none⟩
      ⟨fun n => w.hist s.id1 n, (s.id1, s.masterOff)⟩ := by
    refine ⟨?_, ?_⟩
    · simp only; split <;> simp
    · simp
  refine ⟨⟨?_, ?_, ?_, ?_⟩, ⟨fun _ => hH, fun _ => Or.inr hH⟩⟩
  · simp only; split
    · rename_i hh; split at hh
      · cases hh; exact ⟨h0, by omega, hb⟩
      · cases hh
    · trivial
  · simp only; exact ⟨h0, hp, by omega⟩
  · simp only; split
    · rename_i h1 h2; cases h1
      split at h2
      · cases h2; split <;> omega
      · cases h2
    · trivial
  · intro h; rcases h with h | h
    · exact absurd h hs.id1_ne
    · exact absurd h hs.id1_nq

/-- the explicit outcome of a FULLRESYNC keeps the invariant at every stage -/
theorem fullAttempt_inv (resume : Bool) (w : World) (s : Source) (σ : Sys) (st : Stage)
    (h : Inv w ⟨s, σ.t, σ.c, σ.d⟩) (hfit : st.fits s) : Inv w (fullAttempt resume w s σ st) := by
  obtain ⟨hs, hag, hc, hok, htr, hsp⟩ := h
  simp only at hs hag hc hok htr hsp
  have hneg : ∀ tr c', Truthful w s ⟨if resume then ⟨s.id1, -1⟩ else SP.initial, tr⟩ c' := by
    intro tr c'
    apply truthful_forget; right; cases resume <;> simp [SP.initial]
  have hspn : SpWF (if resume then (⟨s.id1, -1⟩ : SP) else SP.initial) := by
    intro _; cases resume <;> simp [SP.initial]
  cases st with
  | early => exact ⟨hs, hag, hc, hok, htr, hsp⟩
  | cleared =>
    obtain ⟨a, b, c'⟩ := delOwn hc
    exact ⟨hs, hag, a, ok_empty w _ _ b c', truthful_cache_change w _ _ _ _ htr (fun _ => Or.inr ⟨b, c'⟩), hsp⟩
  | relabelled =>
    exact ⟨hs, hag, wf_empty _ _, ok_empty w _ _ rfl rfl,
      truthful_cache_change w _ _ _ _ htr (fun _ => Or.inr ⟨rfl, rfl⟩), hsp⟩
  | reset =>
    refine ⟨hs, hag, wf_empty _ _, ok_empty w _ _ rfl rfl, ?_, ?_⟩
    · exact truthful_forget w _ _ _ _ (Or.inr (by simp [SP.initial]))
    · intro _; show (-1 : Int) < 0; omega
  | metaDone => exact ⟨hs, hag, wf_empty _ _, ok_empty w _ _ rfl rfl, hneg _ _, hspn⟩
  | written k =>
    obtain ⟨a, b⟩ := fresh_wf_ok w hs σ.c.backend hfit.1 hfit.2
    exact ⟨hs, hag, a, b, hneg _ _, hspn⟩
  | delivered done e k =>
    obtain ⟨a, b⟩ := fresh_wf_ok w hs σ.c.backend hfit.1 hfit.2
    refine ⟨hs, hag, a, b, ?_, ?_⟩
    · cases done
      · simp only [fullAttempt, Bool.false_eq_true, if_false]
        exact truthful_forget w _ _ _ _ (Or.inr (by simp [SP.initial]))
      · simp only [fullAttempt, if_true]
        intro _ _; exact ⟨s.id1, rfl, Or.inl (fun _ _ _ => rfl)⟩
    · cases done
      · simp only [fullAttempt, Bool.false_eq_true, if_false]; intro _; simp [SP.initial]
      · simp only [fullAttempt, if_true]; intro h; exact absurd h hs.id1_nq

/-- … and it is what `attempt` computes whenever the source answers FULLRESYNC -/
theorem attempt_full_eq (resume : Bool) (w : World) (σ : Sys) (st : Stage) (hs : SourceWF σ.s) (hc : CacheWF σ.c)
    (hf : (syncMeta σ.s σ.t.stored σ.c).ps.full = true) :
    attempt resume w σ st = fullAttempt resume w σ.s σ st := by
  have hm := run_mt w σ.s σ.t.stored σ.c σ.d
  rcases run_spec (w := w) (sp := σ.t.stored) (d := σ.d) hs hc with hF | hK | hC
  · have h1 := hF.cache; have h2 := hF.deleted; have h3 := hF.runId; have h4 := hF.after; have h5 := hF.data
    have h6 := hF.delivery
    rw [hm] at h1 h2 h3 h4
    cases st with
    | early => rfl
    | cleared => simp only [attempt, fullAttempt, h2, if_true]
    | relabelled => simp only [attempt, fullAttempt, h1, h2, if_true]
    | reset => simp only [attempt, fullAttempt, h1, h2, hf, if_true]
    | metaDone => simp only [attempt, fullAttempt, h1, h2, if_true, Tgt.afterMeta, hf, h3]
    | written k => simp only [attempt, fullAttempt, hm, h4, h5, Tgt.afterMeta, hf, if_true, h3]
    | delivered done e k =>
      simp only [attempt, fullAttempt, step, hm, h4, h5, Tgt.afterSend, h6, h3]
  · have := hK.full; rw [hm, hf] at this; cases this
  · have := hC.full; rw [hm, hf] at this; cases this

/-! ## INFO answered by one source, PSYNC by its successor -/

theorem mix_wf {sI sP : Source} (hI : SourceWF sI) (hP : SourceWF sP) : SourceWF (mix sI sP) := by
  have h1 := hP.first_pos
  have h2 := hP.len_nonneg
  refine ⟨hI.id1_ne, hI.id1_nq, hI.id2_ne, hI.id2_nq, h1, ?_, ?_, ?_, hP.snap_pos⟩
  · simp only [mix]
    split
    · rename_i hok
      simp only [Bool.and_eq_true, decide_eq_true_eq] at hok
      split <;> omega
    · omega
  · intro hb
    simp only [mix] at hb ⊢
    rw [if_pos hb, if_pos hb]
    omega
  · simp only [mix]
    split
    · rename_i hok
      simp only [Bool.and_eq_true, decide_eq_true_eq] at hok
      split <;> omega
    · omega

theorem mix_agree (w : World) (sI sP : Source) : Agree (viewWorld w sI sP) (mix sI sP) := by
  intro n h0 hn
  simp only [mix] at hn
  omega

/-- the view's backlog ends at the answering source's switch offset -/
theorem mix_bounds {sI sP : Source} (hP : SourceWF sP) (hb : (mix sI sP).backlog = true) :
    (mix sI sP).masterOff ≤ sP.switchOff ∧ (mix sI sP).masterOff ≤ sP.masterOff := by
  have hb' := hb
  simp only [mix, Bool.and_eq_true, decide_eq_true_eq] at hb'
  have ht := hP.tail hb'.1
  have hm : (mix sI sP).masterOff = sP.backlogFirst +
      (if sP.backlogFirst + sP.backlogLen ≤ sP.switchOff + 1 then sP.backlogLen
        else sP.switchOff + 1 - sP.backlogFirst) - 1 := by
    simp only [mix] at hb ⊢
    rw [if_pos hb]
  rw [hm]
  split <;> omega

/-- **the view answers PSYNC as the answering source does**: for every request the
    attempt can make (under one of INFO's ids, or "?"), the view grants a
    continuation exactly when `sP` does -/
theorem mix_admits {sI sP : Source} (hP : SourceWF sP) (h2 : sP.id2 = sI.id1)
    (hB1 : sP.id1 ≠ sI.id1) (hB2 : sP.id1 ≠ sI.id2) (id : Id) (off : Int)
    (hid : id = sI.id1 ∨ id = sI.id2 ∨ id = qId) :
    (∃ n, admitPsync (mix sI sP) id off = .cont n) ↔ (∃ n, admitPsync sP id off = .cont n) := by
  have hf := hP.first_pos
  have hl := hP.len_nonneg
  by_cases hA : id = sI.id1
  · subst hA
    constructor
    · rintro ⟨n, hn⟩
      obtain ⟨_, hb, h3, h4⟩ := admit_cont hn
      have hb' := hb
      simp only [mix, Bool.and_eq_true, decide_eq_true_eq] at hb' h3 h4
      have hbk : (sP.backlog && decide (sP.backlogFirst ≤ sP.switchOff + 1)) = true := by
        simp only [Bool.and_eq_true, decide_eq_true_eq]; exact hb'
      rw [if_pos hb'] at h4
      refine ⟨if sP.capaId then sP.id1 else [], ?_⟩
      unfold admitPsync
      rw [if_neg (by intro h; rcases h.2 with x | x; exact x h2.symm; split at h4 <;> omega)]
      rw [if_neg (by
        intro h
        rcases h with x | x | x
        · rw [hb'.1] at x; cases x
        · omega
        · split at h4 <;> omega)]
    · rintro ⟨n, hn⟩
      obtain ⟨hid', hb, h3, h4⟩ := admit_cont hn
      have hsw : off ≤ sP.switchOff + 1 := by
        rcases hid' with x | ⟨_, x⟩
        · exact absurd x.symm hB1
        · exact x
      have hbk : (sP.backlog && decide (sP.backlogFirst ≤ sP.switchOff + 1)) = true := by
        simp only [Bool.and_eq_true, decide_eq_true_eq]; exact ⟨hb, by omega⟩
      refine ⟨if (mix sI sP).capaId then (mix sI sP).id1 else [], ?_⟩
      unfold admitPsync
      rw [if_neg (by intro h; exact h.1 rfl)]
      rw [if_neg (by
        simp only [mix]
        rw [if_pos hbk]
        intro h
        rcases h with x | x | x
        · rw [hbk] at x; cases x
        · omega
        · split at x <;> omega)]
  · have hnB : id ≠ sP.id1 := by
      rcases hid with x | x | x
      · exact absurd x hA
      · rw [x]; exact fun y => hB2 y.symm
      · rw [x]; exact fun y => hP.id1_nq y.symm
    have hn2 : id ≠ sP.id2 := by rw [h2]; exact hA
    constructor
    · rintro ⟨n, hn⟩
      obtain ⟨hid', _, h3, _⟩ := admit_cont hn
      rcases hid' with x | ⟨_, x⟩
      · exact absurd x hA
      · simp only [mix] at x h3; omega
    · rintro ⟨n, hn⟩
      obtain ⟨hid', _⟩ := admit_cont hn
      rcases hid' with x | ⟨x, _⟩
      · exact absurd x hnB
      · exact absurd x hn2

theorem holds_view_in {w : World} {sI sP : Source} (hag : Agree w sP) (h2 : sP.id2 = sI.id1) {c : Cache} {d : CData}
    (hc : CacheWF c) (hh : Holds w sI.id1 c d) (hle : c.latest ≤ sP.switchOff) :
    Holds (viewWorld w sI sP) sI.id1 c d := by
  obtain ⟨ha, hr⟩ := hh
  obtain ⟨wa, wr, wc, _⟩ := hc
  obtain ⟨be, rid, rdb, aof⟩ := c
  have hAB : ∀ n, 0 ≤ n → n < sP.switchOff → w.hist sI.id1 n = w.hist sP.id1 n := by
    intro n h0 hn; rw [← h2]; exact hag n h0 hn
  simp only at ha hr wa wr wc
  rcases rdb with _ | ⟨left, size⟩ <;> rcases aof with _ | ⟨l, r⟩ <;>
    simp only [Cache.latest] at hle ha hr wa wr wc <;> refine ⟨?_, ?_⟩ <;> simp only [viewWorld, if_true]
  · intro n h1 h3; rw [ha n h1 h3]; exact hAB n (by omega) (by omega)
  · refine ⟨hr.1, fun n h0 hn => ?_⟩
    split
    · rfl
    · rw [hr.2 n h0 hn]; exact hAB n h0 (by omega)
  · intro n h1 h3; rw [ha n h1 h3]; exact hAB n (by omega) (by omega)
  · have : left ≤ l := by split at wc <;> omega
    refine ⟨hr.1, fun n h0 hn => ?_⟩
    split
    · rfl
    · rw [hr.2 n h0 hn]; exact hAB n h0 (by omega)

theorem holds_view_out {w : World} {sI sP : Source} (hag : Agree w sP) (h2 : sP.id2 = sI.id1) {c : Cache} {d : CData}
    (hh : Holds (viewWorld w sI sP) sI.id1 c d)
    (hr : ∀ left size, c.rdb = some (left, size) → left ≤ sP.switchOff) : Holds w sP.id1 c d := by
  obtain ⟨ha, hrd⟩ := hh
  obtain ⟨be, rid, rdb, aof⟩ := c
  have hAB : ∀ n, 0 ≤ n → n < sP.switchOff → w.hist sI.id1 n = w.hist sP.id1 n := by
    intro n h0 hn; rw [← h2]; exact hag n h0 hn
  simp only at ha hrd hr
  refine ⟨?_, ?_⟩
  · rcases aof with _ | ⟨l, r⟩
    · trivial
    · simp only [viewWorld, if_true] at ha ⊢
      exact ha
  · rcases rdb with _ | ⟨left, size⟩
    · trivial
    · simp only [viewWorld, if_true] at hrd ⊢
      have hl := hr left size rfl
      refine ⟨hrd.1, fun n h0 hn => ?_⟩
      have := hrd.2 n h0 hn
      split at this
      · rename_i e; rw [e]; exact hAB n h0 (by omega)
      · exact this

/-- the premises of a stale attempt: `sP` is `σ.s`'s successor under a new id -/
structure Successor (σ : Sys) (sP : Source) : Prop where
  prev : sP.id2 = σ.s.id1
  new1 : sP.id1 ≠ σ.s.id1
  new2 : sP.id1 ≠ σ.s.id2
  new3 : sP.id1 ≠ σ.t.stored.runId
  new4 : sP.id1 ≠ σ.c.runId

/-- the state seen from the successor, nothing done yet -/
theorem successor_inv {w : World} {σ : Sys} {sP : Source} (h : Inv w σ) (hP : SourceWF sP) (hagP : Agree w sP)
    (hS : Successor σ sP) : Inv w ⟨sP, σ.t, σ.c, σ.d⟩ := by
  obtain ⟨_, _, hc, hok, htr, hsp⟩ := h
  refine ⟨hP, hagP, hc, ⟨fun e => absurd e.symm hS.new4, fun e => ?_⟩, ?_, hsp⟩
  · left
    have e1 : σ.c.runId = σ.s.id1 := e.trans hS.prev
    have := hok.cur e1
    simp only at e ⊢
    rw [hS.prev]; exact this
  · exact truthful_source_change w σ.s sP σ.t σ.c htr hS.new3 hS.new4 (fun e => (e.symm.trans hS.prev))

/-- in a stale attempt granted CONTINUE the target's data is a prefix of the history
    INFO reported, up to exactly the stored offset -/
theorem stale_d1 {w : World} {σ : Sys} {sP : Source} (h : Inv w σ) (hP : SourceWF sP)
    (hnf : (syncMeta (mix σ.s sP) σ.t.stored σ.c).ps.full = false) (h0 : 0 ≤ σ.t.stored.offset) :
    ∃ tid, σ.t.truth = .at tid σ.t.stored.offset ∧ AgreeBelow w tid σ.s.id1 σ.t.stored.offset := by
  obtain ⟨hs, _, hc, _, htr, hsp⟩ := h
  obtain ⟨hin, hsw⟩ := meta_cont_facts (mix_wf hs hP) hc hsp hnf h0
  obtain ⟨tid, ht, hd⟩ := htr hin h0
  refine ⟨tid, ht, ?_⟩
  rcases hd with d1 | ⟨_, ln1, _, hcn⟩
  · exact d1
  · have := hsw ln1 hcn
    simp only [mix] at this
    omega

/-- … so the position, under the old label or INFO's current id, is truthful for the
    successor next to any cache that holds nothing under the successor's id -/
theorem stale_truthful {w : World} {σ : Sys} {sP : Source} (h : Inv w σ) (hP : SourceWF sP) (hS : Successor σ sP)
    (hnf : (syncMeta (mix σ.s sP) σ.t.stored σ.c).ps.full = false)
    (l : Id) (hl : l = σ.t.stored.runId ∨ l = σ.s.id1) (c' : Cache) (hny : NotYetCurrent sP c') :
    Truthful w sP ⟨⟨l, σ.t.stored.offset⟩, σ.t.truth⟩ c' := by
  intro hin h0
  obtain ⟨tid, ht, hd⟩ := stale_d1 h hP hnf h0
  have hl2 : l = sP.id2 := by
    rcases hl with e | e
    · rcases hin with x | x
      · exact absurd (x.symm.trans e) hS.new3
      · exact x
    · exact e.trans hS.prev.symm
  refine ⟨tid, ht, Or.inr ⟨hl2, ?_, ?_, hny⟩⟩
  · show l ≠ sP.id1
    rw [hl2, hS.prev]; exact fun x => hS.new1 x.symm
  · show AgreeBelow w tid sP.id2 σ.t.stored.offset
    rw [hS.prev]; exact hd

/-- what a stale attempt granted CONTINUE leaves in the cache, seen from the successor -/
theorem stale_pack {w : World} {σ : Sys} {sP : Source} (h : Inv w σ) (hP : SourceWF sP) (hagP : Agree w sP)
    (hS : Successor σ sP)
    (hnf : (run (viewWorld w σ.s sP) (mix σ.s sP) σ.t.stored σ.c σ.d).mt.ps.full = false) :
    let r := run (viewWorld w σ.s sP) (mix σ.s sP) σ.t.stored σ.c σ.d
    r.mt.runId = σ.s.id1 ∧ CacheWF r.mt.cache ∧
      CacheOK w sP r.mt.cache (if r.mt.deleted then CData.empty else σ.d) ∧ r.mt.cache.runId = σ.s.id1 ∧
      (∀ k, 0 ≤ k → sP.masterOff + k ≤ maxInt64 →
        CacheWF (cacheAfter r.mt k) ∧ CacheOK w sP (cacheAfter r.mt k) r.data ∧ (cacheAfter r.mt k).runId = σ.s.id1) ∧
      (∀ start byte, r.delivery = .stream start byte → σ.t.stored.runId ≠ qId) := by
  obtain ⟨hs, hag, hc, hok, htr, hsp⟩ := h
  have hsv := mix_wf hs hP
  have hagv := mix_agree w σ.s sP
  have hAB : σ.s.id1 ≠ sP.id1 := fun x => hS.new1 x.symm
  have okA : ∀ {c' : Cache} {d' : CData}, c'.runId = σ.s.id1 → Holds w sP.id1 c' d' → CacheOK w sP c' d' :=
    fun e hh => ⟨fun x => absurd (e.symm.trans x) hAB, fun _ => Or.inr hh⟩
  intro r
  rcases run_spec (w := viewWorld w σ.s sP) (sp := σ.t.stored) (d := σ.d) hsv hc with hF | hK | hC
  · have := hF.full; rw [hnf] at this; cases this
  · have hcA : σ.c.runId = σ.s.id1 := by
      rcases hK.cid with e | ⟨_, e⟩
      · exact e
      · have := hK.lat_nonneg; simp only [mix] at e; omega
    obtain ⟨hb1, hb2⟩ := mix_bounds (sI := σ.s) hP hK.backlog
    have hlat : σ.c.latest ≤ sP.switchOff := by have := hK.lat_le; omega
    have hHA := hok.cur hcA
    have hHv := holds_view_in hagP hS.prev hc hHA hlat
    have hokv : CacheOK (viewWorld w σ.s sP) (mix σ.s sP) σ.c σ.d := ⟨fun _ => hHv, fun _ => Or.inr hHv⟩
    have hrdb : ∀ left size, σ.c.rdb = some (left, size) → left ≤ sP.switchOff := by
      intro left size e; have := left_le_latest hc e; omega
    refine ⟨hK.runId, ?_, ?_, ?_, ?_, ?_⟩
    · show CacheWF r.mt.cache
      rw [hK.cache]; exact relabel_wf hc hs.id1_ne hs.id1_nq
    · show CacheOK w sP r.mt.cache (if r.mt.deleted then CData.empty else σ.d)
      rw [hK.cache, hK.deleted]
      simp only [Bool.false_eq_true, if_false]
      refine ⟨fun x => absurd x hAB, fun _ => Or.inl ?_⟩
      rw [hS.prev]; exact relabel_holds hHA _
    · show r.mt.cache.runId = σ.s.id1
      rw [hK.cache]; rfl
    · intro k hk hb
      obtain ⟨a, b, c1⟩ := cache_consistent_after (viewWorld w σ.s sP) (mix σ.s sP) σ.t.stored σ.c σ.d hsv hc hokv hagv
        k hk (by omega) r rfl
      refine ⟨a, okA c1 (holds_view_out hagP hS.prev (b.cur c1) ?_), c1⟩
      intro left size e
      rw [hK.after k] at e
      exact hrdb left size e
    · intro start byte hd
      rcases hK.read with ⟨_, _, hout, _⟩ | ⟨_, _, _, _, _, hdel⟩
      · intro x
        rcases hout with y | y <;> rw [x] at y
        · exact hs.id1_nq y.symm
        · exact hs.id2_nq y.symm
      · rw [hdel] at hd; cases hd
  · obtain ⟨hb1, hb2⟩ := mix_bounds (sI := σ.s) hP hC.backlog
    have hX0 := hC.off_nonneg
    have hXle := hC.off_le
    refine ⟨hC.runId, ?_, ?_, ?_, ?_, ?_⟩
    · show CacheWF r.mt.cache
      rw [hC.cache]; exact wf_empty _ _
    · show CacheOK w sP r.mt.cache (if r.mt.deleted then CData.empty else σ.d)
      rw [hC.cache]; exact ok_empty w sP _ rfl rfl
    · show r.mt.cache.runId = σ.s.id1
      rw [hC.cache]; rfl
    · intro k hk hb
      show CacheWF (cacheAfter r.mt k) ∧ CacheOK w sP (cacheAfter r.mt k) r.data ∧ (cacheAfter r.mt k).runId = σ.s.id1
      rw [hC.after k, hC.data]
      refine ⟨⟨?_, trivial, ?_, ?_⟩, okA rfl ⟨?_, trivial⟩, rfl⟩
      · simp only; split
        · rename_i hh; split at hh
          · cases hh; exact ⟨hX0, by omega, by omega⟩
          · cases hh
        · trivial
      · simp only
      · intro x; rcases x with x | x
        · exact absurd x hs.id1_ne
        · exact absurd x hs.id1_nq
      · simp only; split
        · rename_i hh; split at hh
          · cases hh
            intro n h1 _
            simp only [viewWorld, mix, if_true]
            rw [if_pos h1]; congr 1; omega
          · cases hh
        · trivial
    · intro start byte _ x
      rcases hC.sid with y | ⟨y, _⟩ <;> rw [x] at y
      · exact hs.id1_nq y.symm
      · exact hs.id2_nq y.symm

theorem spwf_afterSend_stale (resume : Bool) {sP : Source} {t : Tgt} (hsp : SpWF t.stored) (r : Result)
    (hrid : r.mt.runId ≠ qId) (hstream : ∀ start byte, r.delivery = .stream start byte → t.stored.runId ≠ qId)
    (done : Bool) (e : Int) : SpWF (t.afterSend resume sP r done e).stored := by
  unfold Tgt.afterSend
  split
  · rename_i start byte hd
    split
    · intro x
      simp only at x
      cases resume
      · simp only [Bool.false_eq_true, if_false] at x; exact absurd x (hstream _ _ hd)
      · simp only [if_true] at x; exact absurd x hrid
    · exact hsp
  · cases done
    · simp only [Bool.false_eq_true, if_false]; intro _; simp [SP.initial]
    · simp only [if_true]; intro x; exact absurd x hrid
  · exact hsp

/-- **a stale attempt, however far it gets, keeps the invariant** — for the source
    that answered PSYNC -/
theorem stale_inv (resume : Bool) (w : World) (σ : Sys) (sP : Source) (st : Stage) (h : Inv w σ)
    (hP : SourceWF sP) (hagP : Agree w sP) (hS : Successor σ sP) (hfit : st.fits sP) :
    Inv w (staleAttempt resume w σ sP st) := by
  have hsucc := successor_inv h hP hagP hS
  unfold staleAttempt
  simp only
  split
  · exact fullAttempt_inv resume w sP σ st hsucc hfit
  · rename_i hnf'
    have hnf : (run (viewWorld w σ.s sP) (mix σ.s sP) σ.t.stored σ.c σ.d).mt.ps.full = false := by
      cases hx : (run (viewWorld w σ.s sP) (mix σ.s sP) σ.t.stored σ.c σ.d).mt.ps.full
      · rfl
      · exact absurd hx hnf'
    obtain ⟨hrid, hmwf, hmok, hmid, hafter, hstream⟩ := stale_pack h hP hagP hS hnf
    have hm := run_mt (viewWorld w σ.s sP) (mix σ.s sP) σ.t.stored σ.c σ.d
    rw [hm] at hnf hrid hmwf hmok hmid
    have hsv := mix_wf h.src hP
    have hAB : σ.s.id1 ≠ sP.id1 := fun x => hS.new1 x.symm
    have hnyA : ∀ c' : Cache, c'.runId = σ.s.id1 → NotYetCurrent sP c' := fun c' e => Or.inl (by rw [e]; exact hAB)
    have htr0 : ∀ c', NotYetCurrent sP c' → Truthful w sP σ.t c' :=
      fun c' hny => stale_truthful h hP hS hnf _ (Or.inl rfl) c' hny
    have htrM : ∀ c', NotYetCurrent sP c' →
        Truthful w sP (σ.t.afterMeta resume (syncMeta (mix σ.s sP) σ.t.stored σ.c)) c' := by
      intro c' hny
      unfold Tgt.afterMeta
      rw [hnf]
      simp only [Bool.false_eq_true, if_false]
      cases resume
      · exact htr0 c' hny
      · simp only [if_true]
        exact stale_truthful h hP hS hnf _ (Or.inr hrid) c' hny
    have hspM := spwf_afterMeta resume hsv h.cwf h.sp
    cases st with
    | early => exact hsucc
    | cleared =>
      simp only [attempt]
      split
      · obtain ⟨a, b, c'⟩ := delOwn h.cwf
        exact ⟨hP, hagP, a, ok_empty w _ _ b c', htr0 _ (Or.inr ⟨b, c'⟩), h.sp⟩
      · exact hsucc
    | relabelled => exact ⟨hP, hagP, hmwf, hmok, htr0 _ (hnyA _ hmid), h.sp⟩
    | reset =>
      simp only [attempt, hnf, Bool.false_eq_true, if_false]
      exact ⟨hP, hagP, hmwf, hmok, htr0 _ (hnyA _ hmid), h.sp⟩
    | metaDone => exact ⟨hP, hagP, hmwf, hmok, htrM _ (hnyA _ hmid), hspM⟩
    | written k =>
      obtain ⟨a, b, c1⟩ := hafter k hfit.1 hfit.2
      refine ⟨hP, hagP, a, b, ?_, ?_⟩
      · simp only [attempt, hm]; rw [hm] at c1; exact htrM _ (hnyA _ c1)
      · simp only [attempt, hm]; exact hspM
    | delivered done e k =>
      obtain ⟨a, b, c1⟩ := hafter k hfit.1 hfit.2
      refine ⟨hP, hagP, a, b, ?_, ?_⟩
      · simp only [hm]; rw [hm] at c1
        exact truthful_afterSend resume hP (htrM _ (hnyA _ c1)) _ done e
      · simp only [hm]
        refine spwf_afterSend_stale resume hspM _ ?_ ?_ done e
        · rw [hm, hrid]; exact h.src.id1_nq
        · intro start byte hd
          have := hstream start byte hd
          unfold Tgt.afterMeta
          rw [hnf]
          cases resume
          · exact this
          · simp only [Bool.false_eq_true, if_false, if_true, hrid]; exact h.src.id1_nq

/-! ## every sequence of attempts and faults -/

/-- the source turns into another one whose current id is new -/
theorem change_inv {w : World} {σ : Sys} (ih : Inv w σ) {s' : Source} (hs' : SourceWF s') (hag' : Agree w s')
    (h1 : s'.id1 ≠ σ.t.stored.runId) (h2 : s'.id1 ≠ σ.c.runId)
    (h3 : s'.id2 = σ.t.stored.runId → σ.t.stored.runId = σ.s.id1)
    (h4 : s'.id2 = σ.c.runId → σ.c.runId = σ.s.id1) : Inv w ⟨s', σ.t, σ.c, σ.d⟩ := by
  obtain ⟨_, _, hc, hok, htr, hsp⟩ := ih
  refine ⟨hs', hag', hc, ⟨fun e => absurd e.symm h2, fun e => ?_⟩,
    truthful_source_change w σ.s s' σ.t σ.c htr h1 h2 h3, hsp⟩
  have e1 := h4 e.symm
  left
  simp only at e ⊢
  rw [← e, e1]
  exact hok.cur e1

/-- one pass of the collector, as a `Collected` step, keeps the invariant -/
theorem collected_inv {w : World} {σ : Sys} (h : Inv w σ) {c' : Cache} (hcol : Collected σ.c c') :
    Inv w ⟨σ.s, σ.t, c', σ.d⟩ :=
  ⟨h.src, h.agree, collected_wf h.cwf hcol, collected_ok h.cok hcol,
    truthful_cache_change w σ.s σ.t σ.c c' h.tr (collected_notYetCurrent hcol), h.sp⟩

/-- **invariant of the retry loop**: in every state reachable by attempts that fail
    at any stage (with or without `ErrCorrupted`), stale attempts, source changes,
    collector passes, cache and position losses, the hypotheses of the
    single-connection theorems hold. -/
theorem loop_inv (w : World) (σ : Sys) (h : Loop w σ) : Inv w σ := by
  induction h with
  | init s be hs hag =>
    exact ⟨hs, hag, wf_empty _ _, ok_empty w _ _ rfl rfl, truthful_initially w s hs _, fun _ => by simp [SP.initial]⟩
  | attempt σ resume st corrupted _ hfit ih =>
    cases corrupted
    · exact attempt_inv resume w σ st ih hfit
    · exact corrupted_inv w _ (attempt_inv resume w σ st ih hfit)
  | stale σ sP resume st corrupted _ hP hagP h2 h3 h4 h5 h6 hfit ih =>
    cases corrupted
    · exact stale_inv resume w σ sP st ih hP hagP ⟨h2, h3, h4, h5, h6⟩ hfit
    · exact corrupted_inv w _ (stale_inv resume w σ sP st ih hP hagP ⟨h2, h3, h4, h5, h6⟩ hfit)
  | fullBy σ s' resume st corrupted _ hs' hag' h1 h2 h3 h4 hfit ih =>
    have hch := change_inv ih hs' hag' h1 h2 h3 h4
    cases corrupted
    · exact fullAttempt_inv resume w s' σ st hch hfit
    · exact corrupted_inv w _ (fullAttempt_inv resume w s' σ st hch hfit)
  | same σ s' _ hs' hag' h1 h2 ih =>
    obtain ⟨_, _, hc, hok, htr, hsp⟩ := ih
    exact ⟨hs', hag', hc, ⟨fun e => by rw [h1] at e ⊢; exact hok.cur e, fun e => by rw [h1, h2] at *; exact hok.prev e⟩,
      truthful_same_ids w σ.s s' σ.t σ.c htr h1 h2, hsp⟩
  | change σ s' _ hs' hag' h1 h2 h3 h4 ih => exact change_inv ih hs' hag' h1 h2 h3 h4
  | gc σ c' _ hcol ih => exact collected_inv ih hcol
  | cache σ c' d' _ hc' hok' hl ih =>
    exact ⟨ih.src, ih.agree, hc', hok', truthful_cache_change w σ.s σ.t σ.c c' ih.tr hl, ih.sp⟩
  | forget σ sp' _ hf ih =>
    refine ⟨ih.src, ih.agree, ih.cwf, ih.cok, truthful_forget w σ.s sp' σ.t.truth σ.c ?_, ?_⟩
    · rcases hf with ⟨a, b, _⟩ | a
      · exact Or.inl ⟨a, b⟩
      · exact Or.inr a
    · intro e
      rcases hf with ⟨_, _, c⟩ | a
      · exact absurd e c
      · exact a

/-- **the property over every sequence of attempts and faults**: whatever the next
    attempt hands the sender as log starts exactly at the offset the target's data
    ends at (the stored offset: the one it asked for), the target's data is a prefix
    of the source's current history up to there, and every byte from there on is
    that history's — no gap, no other history. Anything else it hands over is a
    snapshot (`loop_next_outcomes`). -/
theorem loop_safe (w : World) (σ : Sys) (h : Loop w σ) (start : Int) (byte : Int → UInt8)
    (hd : (run w σ.s σ.t.stored σ.c σ.d).delivery = .stream start byte) :
    start = σ.t.stored.offset ∧
    ∃ tid, σ.t.truth = .at tid start ∧ AgreeBelow w tid σ.s.id1 start ∧
      ∀ n, start ≤ n → byte n = w.hist σ.s.id1 n := by
  obtain ⟨hs, hag, hc, hok, htr, _⟩ := loop_inv w σ h
  exact continues_what_the_target_holds w σ.s σ.t σ.c σ.d hs hc hok hag htr start byte hd

/-- the next attempt's outcomes: a log from the stored offset granted under an id
    the source serves (the id asked for: the cache's when the cache is kept, the
    stored position's when it is cleared), or a snapshot: the source's own after
    FULLRESYNC, or the cached one followed by the cached log, which the stored
    position does not reach beyond -/
theorem loop_next_outcomes (w : World) (σ : Sys) (h : Loop w σ) :
    let r := run w σ.s σ.t.stored σ.c σ.d
    (r.mt.ps.full = true ∧ r.delivery = .snapshot (σ.s.id1, σ.s.masterOff) σ.s.masterOff σ.s.snapLen) ∨
    (r.mt.ps.full = false ∧
      ((r.mt.ps.reqId = σ.c.runId ∧ r.mt.ps.wireOff = σ.c.latest + 1) ∨
        (r.mt.ps.reqId = σ.t.stored.runId ∧ r.mt.ps.wireOff = σ.t.stored.offset + 1)) ∧
      ((∃ byte, r.delivery = .stream σ.t.stored.offset byte) ∨
        (∃ left size, σ.c.rdb = some (left, size) ∧ r.delivery = .snapshot σ.d.rdbTok left size ∧
          (σ.t.stored.isInitial = true ∨ σ.t.stored.offset < left)))) := by
  obtain ⟨hs, _, hc, _, _, _⟩ := loop_inv w σ h
  intro r
  rcases run_spec (w := w) (sp := σ.t.stored) (d := σ.d) hs hc with hF | hK | hC
  · exact Or.inl ⟨hF.full, hF.delivery⟩
  · refine Or.inr ⟨hK.full, Or.inl ⟨hK.reqId, hK.wire⟩, ?_⟩
    rcases hK.read with ⟨_, hdel, _⟩ | ⟨left, size, hr, hcase, _, hdel⟩
    · exact Or.inl ⟨_, hdel⟩
    · exact Or.inr ⟨left, size, hr, hdel, hcase.imp id And.right⟩
  · exact Or.inr ⟨hC.full, Or.inr ⟨hC.reqId, hC.wire⟩, Or.inl ⟨_, hC.delivery⟩⟩

/-- **the same for an attempt whose INFO and PSYNC were answered by different
    sources** (the successor `sP` grants +CONTINUE under its own new id; the attempt
    keeps the id INFO reported): the log handed over starts exactly where the
    target's data ends, that data is a prefix of the *successor's* current history
    (it lies within the prefix the two histories share), and every byte from there
    on is the successor's. Otherwise the attempt ends in a FULLRESYNC from the
    successor (`staleAttempt`, `fullAttempt`) or replays the cached snapshot, which
    lies in the shared prefix too. -/
theorem loop_safe_stale (w : World) (σ : Sys) (h : Loop w σ) (sP : Source) (hP : SourceWF sP) (hagP : Agree w sP)
    (hS : Successor σ sP)
    (hnf : (run (viewWorld w σ.s sP) (mix σ.s sP) σ.t.stored σ.c σ.d).mt.ps.full = false) :
    let r := run (viewWorld w σ.s sP) (mix σ.s sP) σ.t.stored σ.c σ.d
    (∀ start byte, r.delivery = .stream start byte →
      start = σ.t.stored.offset ∧ start ≤ sP.switchOff ∧
      ∃ tid, σ.t.truth = .at tid start ∧ AgreeBelow w tid sP.id1 start ∧
        ∀ n, start ≤ n → byte n = w.hist sP.id1 n) ∧
    (∀ tok left size, r.delivery = .snapshot tok left size →
      tok = σ.d.rdbTok ∧ tok.2 = left ∧ left ≤ sP.switchOff ∧ AgreeBelow w tok.1 sP.id1 left) := by
  have hinv := loop_inv w σ h
  obtain ⟨hs, hag, hc, hok, htr, hsp⟩ := hinv
  have hsv := mix_wf hs hP
  have hAB : ∀ n, 0 ≤ n → n < sP.switchOff → w.hist σ.s.id1 n = w.hist sP.id1 n := by
    intro n h0 hn; rw [← hS.prev]; exact hagP n h0 hn
  have hm := run_mt (viewWorld w σ.s sP) (mix σ.s sP) σ.t.stored σ.c σ.d
  have hd1 := fun h0 => stale_d1 ⟨hs, hag, hc, hok, htr, hsp⟩ hP (by rw [← hm]; exact hnf) h0
  intro r
  rcases run_spec (w := viewWorld w σ.s sP) (sp := σ.t.stored) (d := σ.d) hsv hc with hF | hK | hC
  · have := hF.full; rw [hnf] at this; cases this
  · have hcA : σ.c.runId = σ.s.id1 := by
      rcases hK.cid with e | ⟨_, e⟩
      · exact e
      · have := hK.lat_nonneg; simp only [mix] at e; omega
    obtain ⟨hb1, _⟩ := mix_bounds (sI := σ.s) hP hK.backlog
    have hlat : σ.c.latest ≤ sP.switchOff := by have := hK.lat_le; omega
    have hHA := hok.cur hcA
    rcases hK.read with ⟨_, hdel, _, hle, hlow⟩ | ⟨left, size, hr, _, _, hdel⟩
    · refine ⟨fun start byte hd => ?_, fun tok left size hd => by rw [hdel] at hd; cases hd⟩
      rw [hdel] at hd; cases hd
      have h0 : 0 ≤ σ.t.stored.offset := by
        cases ha : σ.c.aof with
        | none => rw [ha] at hlow; simp only at hlow; have := hK.lat_nonneg; omega
        | some p =>
          obtain ⟨l, rr⟩ := p
          rw [ha] at hlow; simp only at hlow
          have h2 := hc.aof_ok; rw [ha] at h2; simp only at h2
          omega
      obtain ⟨tid, ht, hag1⟩ := hd1 h0
      refine ⟨rfl, by omega, tid, ht, fun n hn0 hn => (hag1 n hn0 hn).trans (hAB n hn0 (by omega)), ?_⟩
      intro n hn
      rw [hK.data]
      simp only
      by_cases hl : σ.c.latest ≤ n
      · rw [if_pos hl]; simp only [viewWorld, mix, if_true]; congr 1; omega
      · rw [if_neg hl]
        cases ha : σ.c.aof with
        | none => rw [ha] at hlow; simp only at hlow; omega
        | some p =>
          obtain ⟨l, rr⟩ := p
          rw [ha] at hlow; simp only at hlow
          have h1 := hHA.aof_hist; rw [ha] at h1; simp only at h1
          have hlatr := latest_aof ha
          rw [h1 n (by omega) (by omega)]
          exact hAB n (by omega) (by omega)
    · refine ⟨fun start byte hd => (by rw [hdel] at hd; cases hd), fun tok left' size' hd => ?_⟩
      rw [hdel] at hd; cases hd
      have hll := left_le_latest hc hr
      have h1 := hHA.rdb_tok; rw [hr] at h1; simp only at h1
      exact ⟨rfl, h1.1, by omega, fun n h0 hn => (h1.2 n h0 hn).trans (hAB n h0 (by omega))⟩
  · obtain ⟨hb1, _⟩ := mix_bounds (sI := σ.s) hP hC.backlog
    have hXle := hC.off_le
    refine ⟨fun start byte hd => ?_, fun tok left size hd => by rw [hC.delivery] at hd; cases hd⟩
    rw [hC.delivery] at hd; cases hd
    obtain ⟨tid, ht, hag1⟩ := hd1 hC.off_nonneg
    refine ⟨rfl, by omega, tid, ht, fun n hn0 hn => (hag1 n hn0 hn).trans (hAB n hn0 (by omega)), ?_⟩
    intro n hn
    rw [hC.data]
    simp only
    rw [if_pos hn]; simp only [viewWorld, mix, if_true]; congr 1; omega

/-! ## the collector is C05's

  `Store.Disk` / `Store.Mem` are C05's models of the two cache backends; their
  collectors are `Disk.gc` (operation `.gc`) and `Mem.gc` (run by `ensureLocked`
  inside every append). `ofDisk` / `ofMem` compute what the channel's query API
  reports of such a state — the `Cache` that `syncMeta` works on. -/

/-- **disk**: in every state C05's operation lists reach, one collector pass is a
    `Collected` step on what the channel reports, the reported log starts exactly at
    the reported snapshot's offset (`contig`, disk form), and the pass keeps
    `CacheWF` (all of it, `contig` included) and `CacheOK` for any source -/
theorem gc_keeps_disk (l m : Nat) (ops : List DOp) (hwf : (Disk.init l m).wf ops) :
    let s := (Disk.init l m).run ops
    (s.step .gc).1 = s.gc ∧ Collected (ofDisk s) (ofDisk s.gc) ∧
    (match (ofDisk s).rdb, (ofDisk s).aof with
      | some (left, _), some (lo, _) => lo = left
      | _, _ => True) ∧
    ∀ (w : World) (src : Source) (d : CData), CacheWF (ofDisk s) → CacheOK w src (ofDisk s) d →
      CacheWF (ofDisk s.gc) ∧ CacheOK w src (ofDisk s.gc) d := by
  intro s
  have hi : DInv s := (DInv.init l m).run ops hwf
  exact ⟨rfl, disk_gc_collected hi, disk_contig hi, fun w src d hc hok => disk_gc_keeps hi hc hok⟩

/-- **memory**: the same for `Mem.gc`, for any amount `need` it is asked to free. Here
    the log's first offset may move past the snapshot's (`CacheWF.contig`, memory
    form `left ≤ lo`): the collector drops the oldest log segments and keeps the
    snapshot offered, whose own offset `inRange` then no longer accepts. -/
theorem gc_keeps_memory (l m : Nat) (ops : List MOp) (need : Nat) :
    let s := (Mem.init l m).run ops
    Collected (ofMem s) (ofMem (s.gc need)) ∧
    ∀ (w : World) (src : Source) (d : CData), CacheWF (ofMem s) → CacheOK w src (ofMem s) d →
      CacheWF (ofMem (s.gc need)) ∧ CacheOK w src (ofMem (s.gc need)) d := by
  intro s
  have hi : MemInv s := C05.mem_invariant l m ops
  exact ⟨mem_gc_collected hi need, fun w src d hc hok => mem_gc_keeps hi need hc hok⟩

/-- the reported log range is C05's abstract log, and the bytes in it are the bytes
    written at those offsets (`disk_refines`): what `CacheOK` says about the cached
    log is a statement about what the writer was handed -/
theorem disk_log_is_written (l m : Nat) (ops : List DOp) (hwf : (Disk.init l m).wf ops) :
    let s := (Disk.init l m).run ops
    ∀ lo hi, (ofDisk s).aof = some (lo, hi) →
      lo = (s.abs.base : Int) ∧ hi = ((s.abs.base + s.abs.bytes.length : Nat) : Int) ∧
      s.hbase ≤ s.abs.base ∧ s.abs.bytes = s.hist.drop (s.abs.base - s.hbase) := by
  intro s
  have hi' : DInv s := (DInv.init l m).run ops hwf
  have hR : s.all ≠ [] → s.hbase ≤ s.abs.base ∧ s.abs.bytes = s.hist.drop (s.abs.base - s.hbase) :=
    C05.disk_refines l m ops hwf
  clear_value s
  intro lo hi h
  simp only [ofDisk] at h
  cases hf : firstLeft s.all with
  | none => rw [hf] at h; cases h
  | some a =>
    cases hr : lastRight s.all with
    | none => rw [hf, hr] at h; cases h
    | some b =>
      rw [hf, hr] at h
      cases h
      have hne : s.all ≠ [] := by intro e; rw [e] at hf; cases hf
      obtain ⟨h1, h2⟩ := hR hne
      have hb : s.abs.base = a := by simp only [Disk.abs, hf]
      have he := hi'.lastEnd b hr
      have hlen : s.abs.bytes.length = s.hist.length - (s.abs.base - s.hbase) := by
        rw [h2, List.length_drop]
      have hemb : a ≤ b := by
        obtain ⟨g, hg⟩ : ∃ g, g ∈ s.all := List.exists_mem_of_ne_nil _ hne
        have := contig_first_le hi'.contig hg hf
        have := contig_right_le_last hi'.contig hg hr
        have : g.left ≤ g.right := Nat.le_add_right _ _
        omega
      refine ⟨by rw [hb], ?_, h1, h2⟩
      have : s.abs.base + s.abs.bytes.length = b := by omega
      rw [this]

/-- the same for the memory cache (`mem_refines`) -/
theorem mem_log_is_written (l m : Nat) (ops : List MOp) :
    let s := (Mem.init l m).run ops
    ∀ lo hi, (ofMem s).aof = some (lo, hi) →
      lo = (s.abs.base : Int) ∧ hi = ((s.abs.base + s.abs.bytes.length : Nat) : Int) ∧
      s.hbase ≤ s.abs.base ∧ s.abs.bytes = s.hist.drop (s.abs.base - s.hbase) := by
  intro s
  have hi' : MemInv s := C05.mem_invariant l m ops
  have hR : s.segs ≠ [] → s.abs.id = s.runId ∧ s.hbase ≤ s.abs.base ∧
      s.abs.bytes = s.hist.drop (s.abs.base - s.hbase) ∧
      s.abs.base + s.abs.bytes.length = s.hbase + s.hist.length := C05.mem_refines l m ops
  clear_value s
  intro lo hi h
  simp only [ofMem] at h
  cases hl : s.runRev.getLast? with
  | none => rw [hl] at h; cases h
  | some oldest =>
    cases hh : s.runRev.head? with
    | none => rw [hl, hh] at h; cases h
    | some newest =>
      rw [hl, hh] at h
      cases h
      have hne : s.segs ≠ [] := by
        intro e
        have := runRev_eq s hi'
        rw [e] at this
        rw [this] at hh
        cases hh
      obtain ⟨_, h1, h2, h3⟩ := hR hne
      have hb : s.abs.base = oldest.left := by simp only [Mem.abs, hl]
      have hlast : s.segs.getLast? = some newest := by
        have := runRev_eq s hi'
        rw [this, List.head?_reverse] at hh
        exact hh
      have he := hi'.stream.lastEnd newest hlast
      refine ⟨by rw [hb], ?_, h1, h2⟩
      rw [h3, he]

/-- a collector pass of C05's disk cache between two attempts is a step of the loop -/
theorem loop_gc_disk (w : World) (σ : Sys) (l m : Nat) (ops : List DOp) (hwf : (Disk.init l m).wf ops)
    (hc : σ.c = ofDisk ((Disk.init l m).run ops)) (h : Loop w σ) :
    Loop w ⟨σ.s, σ.t, ofDisk ((Disk.init l m).run ops).gc, σ.d⟩ :=
  Loop.gc σ _ h (by rw [hc]; exact (gc_keeps_disk l m ops hwf).2.1)

/-- … and of C05's memory cache -/
theorem loop_gc_memory (w : World) (σ : Sys) (l m : Nat) (ops : List MOp) (need : Nat)
    (hc : σ.c = ofMem ((Mem.init l m).run ops)) (h : Loop w σ) :
    Loop w ⟨σ.s, σ.t, ofMem (((Mem.init l m).run ops).gc need), σ.d⟩ :=
  Loop.gc σ _ h (by rw [hc]; exact (gc_keeps_memory l m ops need).1)

/-! ## Non-vacuity -/

/-- 1. a first attempt: FULLRESYNC at 200, the replay completes, 30 further bytes are cached -/
def l1 : Sys := attempt true w0 σA (.delivered true 0 30)
/-- the source moves on to 230 -/
def l2 : Sys := ⟨s0b, l1.t, l1.c, l1.d⟩
/-- 2. the memory collector drops the log's first 10 bytes and keeps the snapshot -/
def cG : Cache := ⟨.memory, [1], some (200, 10), some (210, 230)⟩
def l3 : Sys := ⟨l2.s, l2.t, cG, l2.d⟩
/-- 3. a second attempt: the stored offset 200 is no longer valid in the cache (its
    log starts at 210), so the cache is cleared and PSYNC [1] 201 is granted; the
    log is replayed up to 215, 20 bytes are cached, then the attempt ends with
    `ErrCorrupted` and the loop drops the cache -/
def l4 : Sys := (attempt true w0 l3 (.delivered false 215 20)).corrupted

theorem s0b_wf : SourceWF s0b := by refine ⟨?_, ?_, ?_, ?_, ?_, ?_, ?_, ?_, ?_⟩ <;> decide
theorem w0_agree_b : Agree w0 s0b := by
  intro n _ hn
  have : ¬ (100 ≤ n) := by simp only [s0b, s0] at hn; omega
  simp [w0, s0b, s0, this]

/-- two attempts with a collector pass in between and one `ErrCorrupted`: the loop
    reaches `l4`, and the third attempt continues exactly at 215 -/
theorem loop_example :
    Loop w0 l4 ∧
    l2.t.stored = ⟨[1], 200⟩ ∧ l2.c = ⟨.memory, [1], some (200, 10), some (200, 230)⟩ ∧ Collected l2.c cG ∧
    (run w0 l3.s l3.t.stored l3.c l3.d).mt.clearLocal = true ∧
    (∃ byte, (run w0 l3.s l3.t.stored l3.c l3.d).delivery = .stream 200 byte) ∧
    l4.t.stored = ⟨[1], 215⟩ ∧ l4.c = ⟨.memory, [], none, none⟩ ∧
    ∃ byte, (run w0 l4.s l4.t.stored l4.c l4.d).delivery = .stream 215 byte := by
  have e2 : l2.c = ⟨.memory, [1], some (200, 10), some (200, 230)⟩ := by decide
  have hcol : Collected l2.c cG := by
    rw [e2]
    exact ⟨rfl, rfl, Or.inl rfl, Or.inr ⟨210, rfl, by decide, by decide⟩, fun h => by cases h⟩
  have h1 : Loop w0 l1 :=
    Loop.attempt σA true (.delivered true 0 30) false (Loop.init s0 .memory s0_wf w0_agree) ⟨by decide, by decide⟩
  have h2 : Loop w0 l2 := Loop.same l1 s0b h1 s0b_wf w0_agree_b rfl rfl
  have h3 : Loop w0 l3 := Loop.gc l2 cG h2 hcol
  have h4 : Loop w0 l4 := Loop.attempt l3 true (.delivered false 215 20) true h3 ⟨by decide, by decide⟩
  exact ⟨h4, by decide, e2, hcol, by decide, ⟨_, rfl⟩, by decide, by decide, ⟨_, rfl⟩⟩

/-- the successor of `s0b`: new id [3], previous id [1] valid up to 240, backlog [50,251) -/
def sP0 : Source := ⟨[3], [1], 240, true, 50, 200, 249, 10, true⟩
/-- a stale attempt from `l2`: INFO by `s0b` (ids [1],[2]), PSYNC [1] 231 granted by
    `sP0` with `+CONTINUE [3]`; the log is replayed up to 235, 10 bytes are cached -/
def l5 : Sys := staleAttempt true w0 l2 sP0 (.delivered false 235 10)

theorem sP0_wf : SourceWF sP0 := by refine ⟨?_, ?_, ?_, ?_, ?_, ?_, ?_, ?_, ?_⟩ <;> decide
theorem w0_agree_P : Agree w0 sP0 := by
  intro n _ _
  simp [w0, sP0]

/-- +CONTINUE under another id than INFO reported: the loop reaches `l5`, the cache
    keeps INFO's label [1] over the successor's bytes, and the next attempt —
    INFO now by the successor — continues under the previous id exactly at 235 -/
theorem loop_example_stale :
    Loop w0 l5 ∧ l5.s = sP0 ∧
    (run (viewWorld w0 l2.s sP0) (mix l2.s sP0) l2.t.stored l2.c l2.d).mt.ps.full = false ∧
    (∃ byte, (run (viewWorld w0 l2.s sP0) (mix l2.s sP0) l2.t.stored l2.c l2.d).delivery = .stream 200 byte) ∧
    l5.t.stored = ⟨[1], 235⟩ ∧ l5.c = ⟨.memory, [1], some (200, 10), some (200, 240)⟩ ∧
    (run w0 l5.s l5.t.stored l5.c l5.d).mt.ps.reqId = [1] ∧
    (run w0 l5.s l5.t.stored l5.c l5.d).mt.ps.wireOff = 241 ∧
    ∃ byte, (run w0 l5.s l5.t.stored l5.c l5.d).delivery = .stream 235 byte := by
  have h1 : Loop w0 l1 :=
    Loop.attempt σA true (.delivered true 0 30) false (Loop.init s0 .memory s0_wf w0_agree) ⟨by decide, by decide⟩
  have h2 : Loop w0 l2 := Loop.same l1 s0b h1 s0b_wf w0_agree_b rfl rfl
  have h5 : Loop w0 l5 :=
    Loop.stale l2 sP0 true (.delivered false 235 10) false h2 sP0_wf w0_agree_P rfl (by decide) (by decide)
      (by decide) (by decide) ⟨by decide, by decide⟩
  exact ⟨h5, by decide, by decide, ⟨_, rfl⟩, by decide, by decide, by decide, by decide, ⟨_, rfl⟩⟩

end GunYu.Props.C06
