/-
  C16 × C08 — a kill in a SECOND (third, …) process life (session 5).

  Props/C16Restart.lean's `crash_image_step_ok` speaks of crash images of scripts that START FROM
  THE EMPTY DIRECTORY (`Disk.init`, `crashImage []`). A follower that was killed, re-opened its
  directory, went on receiving and is killed AGAIN was an instance only through the
  arbitrary-image theorem (`reopened_data_faithful` + the hypothesis `ImageOk`). Here the image
  hypothesis is an INVARIANT of process lives, over C08's model of life after the restart
  (Model/StoreRoot.lean `XDisk.reopened`, Props/C08Root.lean `resume_*`: re-open ANY directory,
  run ANY script of the writers WITH FAULTS — failed header rewrites, failed opens, SHORT
  WRITES, failed removals —, die at ANY instant with the last write torn):

  * `DirOk h id fs`          : stream files truthful for history `id` (C08 `FsTrue`), names unique,
                               committed snapshots complete (C08 `SnapOk`) AND holding history
                               `id`'s snapshot at the offset in their name
  * `dirOk_imageOk`          : `DirOk → ImageOk` (the hypothesis of the crash step)
  * `second_life_dir_ok`     : `DirOk` is kept by a life: from ANY `DirOk` directory, any script
                               with faults whose stream chunks are history's (`SrcOkX`) and whose
                               snapshot writers are handed history's snapshot (`SnapSrcOkFrom`,
                               Props/C16Snap.lean), killed at any instant
  * `lives_dir_ok`, `lives_reopened_faithful` : any NUMBER of lives, from the empty directory or
                               from any reachable one; what the next process re-opens is faithful
  * `crash_step_ok_lives`    : `StepC.Ok` for a crash step whose images are such directories, so
                               `follower_prefix_of_leader_crash_runs` applies to kills in any life
  * `resume_stream_life_ok`  : the hypotheses discharged for the script a re-opened follower's
                               stream transfer induces — `NewAofWritter(a)` at the END of what it
                               re-opened (C16: the stream writer is only ever opened there), the
                               chunks history `id` from `a` (C16: `session_stream_payload_is_history`),
                               the last one possibly SHORT-written (`aofAppendShort`)
  Quantifier: all directories, all scripts with faults, all crash instants, any number of lives.
  Core Lean only.
-/
import GunYu.Props.C16Snap
import GunYu.Props.C08Root

namespace GunYu.Props.C16
open GunYu GunYu.Replica GunYu.Store GunYu.StoreFs GunYu.StoreFsX

/-- a directory a process may find under run id `id` -/
def DirOk (h : Hist UInt8) (id : Replica.Id) (fs : FS) : Prop :=
  FsTrue (fun o => h.byte id o) fs ∧ NodupNames fs ∧ SnapOk fs ∧
    RdbOkP (fun L _ c => c = h.snap id L) fs

theorem mem_of_get {fs : FS} {n : FName} {c : Bytes} (hg : fs.get n = some c) : (n, c) ∈ fs := by
  unfold FS.get at hg
  cases hf : fs.find? (·.1 == n) with
  | none => rw [hf] at hg; cases hg
  | some e =>
    rw [hf] at hg
    simp only [Option.map_some, Option.some.injEq] at hg
    have h1 := List.find?_some hf
    have h2 := List.mem_of_find?_eq_some hf
    have : e.1 = n := by simpa using h1
    obtain ⟨e1, e2⟩ := e
    simp only at this hg
    subst this; subst hg
    exact h2

/-- the empty directory (`NewStorer` on a new id) -/
theorem dirOk_empty (h : Hist UInt8) (id : Replica.Id) : DirOk h id [] := by
  refine ⟨?_, ?_, ?_, ?_⟩
  · intro e he; cases he
  · simp [NodupNames]
  · intro e he; cases he
  · intro e he; cases he

/-- **dirOk_imageOk.** such a directory satisfies the hypothesis of the crash step -/
theorem dirOk_imageOk {h : Hist UInt8} {id : Replica.Id} {fs : FS} (hd : DirOk h id fs) : ImageOk h id fs := by
  refine ⟨hd.1, ?_⟩
  intro L S c _ hg
  exact hd.2.2.2 _ (mem_of_get hg) L S rfl

/-- the ghost a restart begins with (the snapshot the re-opened index offers counts as received
    completely) satisfies the ghost invariant -/
theorem ghostOk_reopened {h : Hist UInt8} {id : Replica.Id} {fs : FS} (hd : DirOk h id fs) :
    GhostOk h id (reopenGhost fs id) := by
  intro x hx
  unfold reopenGhost at hx
  cases hr : (reopen fs).rdb with
  | none => rw [hr] at hx; cases hx
  | some p =>
    obtain ⟨l, s⟩ := p
    rw [hr] at hx
    simp only [Option.some.injEq] at hx
    subst hx
    obtain ⟨c, hg, _, hl⟩ := reopened_rdb hd.2.2.1 hr
    have hc : c = h.snap id l := hd.2.2.2 _ (mem_of_get hg) l s rfl
    simp only [hg, Option.getD_some]
    subst hc
    exact ⟨List.prefix_refl _, hl.symm⟩

/-- **second_life_dir_ok.** A NEW process on ANY directory that is `DirOk` for `id` — whatever
    crash, fault or interrupted removal produced it — re-opens it (`initDataSet` + `TruncateGap`),
    the writers run ANY script with faults from the re-built index (stream chunks history's:
    `SrcOkX`; snapshot writers handed history's snapshot: `SnapSrcOkFrom` from the restart's
    ghost), the process dies at ANY instant with the last write torn: the directory it leaves is
    `DirOk` again. (C08 `resume_closed` + `resume_received` with C16's snapshot-content predicate.) -/
theorem second_life_dir_ok (h : Hist UInt8) (id : Replica.Id) (fs : FS) (hd : DirOk h id fs)
    (l m : Nat) (xs : List XOp) (hwf : wfX (XDisk.reopened fs l m id) xs)
    (hsrc : SrcOkX (fun o => h.byte id o) (XDisk.reopened fs l m id) xs)
    (hsn : SnapSrcOkFrom h id (reopenGhost fs id) (xs.map recvOp)) (n k : Nat) :
    DirOk h id (crashImageX (reopenFs fs) (xScriptOps (XDisk.reopened fs l m id) xs) n k) := by
  obtain ⟨ht, hn, hs, h0⟩ := hd
  obtain ⟨c1, c2, c3⟩ := resume_closed fs ht hn hs l m id xs hwf hsrc n k
  refine ⟨c1, c2, c3, ?_⟩
  have hr := resume_received (P0 := fun L _ c => c = h.snap id L) fs hs h0 l m id xs hwf n k
  intro e he L S hp
  rcases hr e he L S hp with h1 | h1
  · exact h1
  · obtain ⟨_, hl, j, _, hj⟩ := h1
    have hg : GhostOk h id (recvFrom (reopenGhost fs id) ((xs.map recvOp).take j)) :=
      ghostOk_run _ _ (ghostOk_reopened ⟨ht, hn, hs, h0⟩) (snapSrcOkFrom_take _ _ j hsn)
    exact ghostOk_complete hg hj hl

/-- one process life on a directory: sizes of the store's configuration, the writers' script with
    faults, the instant of death (`n` file operations issued, the last write torn after `k` bytes) -/
structure Life where
  logSize : Nat
  maxSize : Nat
  xs : List XOp
  n : Nat
  k : Nat

/-- the directory the life leaves -/
def Life.next (id : String) (fs : FS) (lf : Life) : FS :=
  crashImageX (reopenFs fs) (xScriptOps (XDisk.reopened fs lf.logSize lf.maxSize id) lf.xs) lf.n lf.k

/-- the life respects the callers' protocol and writes what the sessions received -/
def Life.Ok (h : Hist UInt8) (id : Replica.Id) (fs : FS) (lf : Life) : Prop :=
  wfX (XDisk.reopened fs lf.logSize lf.maxSize id) lf.xs ∧
    SrcOkX (fun o => h.byte id o) (XDisk.reopened fs lf.logSize lf.maxSize id) lf.xs ∧
    SnapSrcOkFrom h id (reopenGhost fs id) (lf.xs.map recvOp)

def LivesOk (h : Hist UInt8) (id : Replica.Id) : FS → List Life → Prop
  | _, [] => True
  | fs, lf :: rest => lf.Ok h id fs ∧ LivesOk h id (lf.next id fs) rest

/-- **lives_dir_ok.** any number of lives, each killed anywhere -/
theorem lives_dir_ok (h : Hist UInt8) (id : Replica.Id) : ∀ (lives : List Life) (fs : FS),
    DirOk h id fs → LivesOk h id fs lives → DirOk h id (lives.foldl (Life.next id) fs)
  | [], _, hd, _ => hd
  | lf :: rest, fs, hd, hl =>
    lives_dir_ok h id rest _
      (second_life_dir_ok h id fs hd lf.logSize lf.maxSize lf.xs hl.1.1 hl.1.2.1 hl.1.2.2 lf.n lf.k) hl.2

/-- **lives_reopened_faithful.** A follower's directory of run id `id` through ANY number of
    process lives — each: re-open, any script with faults, killed at any instant —, starting from
    the empty directory or from any `DirOk` one: what the NEXT process re-opens is a faithful copy
    of history `id` (stream bytes at their offsets, the snapshot history's at its base). -/
theorem lives_reopened_faithful (h : Hist UInt8) (id : Replica.Id) (lives : List Life) (fs : FS)
    (hd : DirOk h id fs) (hl : LivesOk h id fs lives) :
    ∀ d, dataOfReopened (lives.foldl (Life.next id) fs) = some d → d.Faithful h id :=
  let ok := dirOk_imageOk (lives_dir_ok h id lives fs hd hl)
  reopened_data_faithful h id _ ok.1 ok.2

/-- one run-id directory of a follower killed in its n-th life -/
structure LivedDir where
  id : Replica.Id
  lives : List Life

def LivedDir.image (c : LivedDir) : FS := c.lives.foldl (Life.next c.id) []

/-- **crash_step_ok_lives.** A crash step whose images are what ANY number of lives left — not
    only the first life from the empty directory — satisfies `StepC.Ok`: so
    `follower_prefix_of_leader_crash_runs` covers a kill in a second (any) process life with no
    hypothesis about the image. -/
theorem crash_step_ok_lives (h : Hist UInt8) (F : Replica.Store UInt8) (cs : List LivedDir)
    (hcs : ∀ c ∈ cs, LivesOk h c.id [] c.lives) :
    (StepC.crash (cs.map (fun c => (c.id, c.image))) : StepC UInt8).Ok h F := by
  intro p hp
  obtain ⟨c, hc, rfl⟩ := List.mem_map.mp hp
  exact dirOk_imageOk (lives_dir_ok h c.id c.lives [] (dirOk_empty h c.id) (hcs c hc))

/-! ### the hypotheses discharged for a re-opened follower's stream transfer -/

/-- where a re-opened follower's stream writer may be opened: at the end of the segments it
    re-opened; with no segment, at the snapshot's offset; anywhere when nothing is held
    (C08's `okOp` for `NewAofWritter`, read on the re-built index) -/
def ResumeAt (fs : FS) (a : Nat) : Prop :=
  match lastRight (reopen fs).segs, (reopen fs).rdb with
  | some r, _ => a = r
  | none, some (l, _) => a = l
  | none, none => True

/-- … which is the end of what C16 says the follower holds (`dataOfReopened`): the position
    `aofWrite` insists on (`d.right = left`, theorem `follower_contiguous`) -/
theorem resumeAt_of_data (fs : FS) (a : Nat) (ha : ∀ d, dataOfReopened fs = some d → a = d.right) :
    ResumeAt fs a := by
  unfold ResumeAt
  cases hsegs : (reopen fs).segs with
  | nil =>
    cases hr : (reopen fs).rdb with
    | none => simp [lastRight]
    | some p =>
      obtain ⟨L, S⟩ := p
      obtain ⟨d, c, hd, hb, _, _⟩ := reopened_snapshot_kept fs L S hr
      have := ha d hd
      have hbytes : d.bytes = [] := by
        unfold dataOfReopened at hd
        simp only [hsegs, hr, Option.some.injEq] at hd
        subst hd; rfl
      simp only [lastRight]
      rw [this, Data.right, hbytes, hb]; simp
  | cons g rest =>
    have hne : (reopen fs).segs ≠ [] := by rw [hsegs]; simp
    cases hd : dataOfReopened fs with
    | none =>
      have := (reopened_none_iff fs).mp hd
      exact absurd this.1 hne
    | some d =>
      obtain ⟨_, h2, _⟩ := reopened_data_range fs d hd hne
      rw [hsegs] at h2
      rw [h2]
      exact ha d hd

/-- the script: `NewAofWritter(a)`, the chunks, optionally a last chunk SHORT-written (`k` of its
    bytes reach the file, the write returns an error, the writer ends) -/
def shortOps : Option (Bytes × Nat) → List XOp
  | some (c, k) => [XOp.aofAppendShort c k]
  | none => []

def shortBytes : Option (Bytes × Nat) → Bytes
  | some (c, _) => c
  | none => []

def resumeScript (a : Nat) (chunks : List Bytes) (short : Option (Bytes × Nat)) : List XOp :=
  XOp.op (.newAofWriter a) :: (chunks.map (fun c => XOp.op (.aofAppend c)) ++ shortOps short)

theorem xstep_append_d (s : XDisk) (c : Bytes) :
    (xstep s (.op (.aofAppend c))).1.d = (s.d.step (.aofAppend c)).1 := rfl

theorem xappends_ok (src : Nat → UInt8) : ∀ (chunks : List Bytes) (tail : List XOp) (s : XDisk),
    (∀ c ∈ chunks, c ≠ []) → s.d.live.isSome = true →
    (∀ i b, chunks.flatten[i]? = some b → b = src (s.d.hbase + s.d.hist.length + i)) →
    (∀ s' : XDisk, s'.d.live.isSome = true → s'.d.hbase + s'.d.hist.length = s.d.hbase + s.d.hist.length + chunks.flatten.length →
      wfX s' tail ∧ SrcOkX src s' tail) →
    wfX s (chunks.map (fun c => XOp.op (.aofAppend c)) ++ tail) ∧
      SrcOkX src s (chunks.map (fun c => XOp.op (.aofAppend c)) ++ tail)
  | [], tail, s, _, hl, _, ht => by simpa using ht s hl (by simp)
  | c :: rest, tail, s, hne, hl, hfl, ht => by
    obtain ⟨g, hg⟩ := Option.isSome_iff_exists.mp hl
    have hstep : ((s.d.step (.aofAppend c)).1.live.isSome = true) ∧ (s.d.step (.aofAppend c)).1.hbase = s.d.hbase ∧
        (s.d.step (.aofAppend c)).1.hist = s.d.hist ++ c := by
      simp only [Disk.step, Disk.appendLive, hg]
      split <;> simp
    have ih := xappends_ok src rest tail (xstep s (.op (.aofAppend c))).1
      (fun c' hc' => hne c' (List.mem_cons_of_mem _ hc'))
      (by rw [xstep_append_d]; exact hstep.1)
      (by
        intro i b hb
        rw [xstep_append_d, hstep.2.1, hstep.2.2, List.length_append]
        have := hfl (c.length + i) b (by
          simp only [List.flatten_cons]
          rw [List.getElem?_append_right (by omega)]
          simpa using hb)
        rw [this]; congr 1; omega)
      (by
        intro s' hl' he
        apply ht s' hl'
        rw [he, xstep_append_d, hstep.2.1, hstep.2.2]
        simp only [List.flatten_cons, List.length_append]
        omega)
    refine ⟨⟨hne c (by simp), ih.1⟩, ⟨?_, ih.2⟩⟩
    intro i b hb
    apply hfl i b
    simp only [List.flatten_cons]
    have hi : i < c.length := (List.getElem?_eq_some_iff.mp hb).1
    rw [List.getElem?_append_left hi]; exact hb

/-- **resume_stream_life_ok.** The life of a re-opened follower that continues the stream: the
    writer opened at the end of what was re-opened (`ResumeAt`), the payload — all chunks and the
    short-written one — history `id` from `a` on (C16's `session_stream_payload_is_history`),
    every chunk non-empty. C08's `wfX`, `SrcOkX` and C16's `SnapSrcOkFrom` hold for it: nothing is
    left to assume about the second life's script, for EVERY chunking and every short write. -/
theorem resume_stream_life_ok (h : Hist UInt8) (id : Replica.Id) (fs : FS) (l m : Nat) (a : Nat)
    (ha : ResumeAt fs a) (chunks : List Bytes) (short : Option (Bytes × Nat))
    (hne : ∀ c ∈ chunks, c ≠ [])
    (hshort : ∀ c k, short = some (c, k) → 0 < k ∧ k < c.length)
    (hp : ∀ i b, (chunks.flatten ++ shortBytes short)[i]? = some b → b = h.byte id (a + i)) (n k : Nat) :
    (⟨l, m, resumeScript a chunks short, n, k⟩ : Life).Ok h id fs := by
  show wfX (XDisk.reopened fs l m id) (resumeScript a chunks short) ∧
    SrcOkX (fun o => h.byte id o) (XDisk.reopened fs l m id) (resumeScript a chunks short) ∧
    SnapSrcOkFrom h id (reopenGhost fs id) ((resumeScript a chunks short).map recvOp)
  -- the index the life begins with
  have hlive : (reopenDisk fs l m id).live = none := rfl
  have hsegs : (reopenDisk fs l m id).segs = (reopen fs).segs := rfl
  have hcl : (reopenDisk fs l m id).closeLive = reopenDisk fs l m id := by simp [Disk.closeLive, hlive]
  -- the state after `NewAofWritter(a)`
  have hpos : ((reopenDisk fs l m id).step (.newAofWriter a)).1.live.isSome = true ∧
      ((reopenDisk fs l m id).step (.newAofWriter a)).1.hbase +
        ((reopenDisk fs l m id).step (.newAofWriter a)).1.hist.length = a := by
    simp only [Disk.step, hcl]
    refine ⟨rfl, ?_⟩
    unfold ResumeAt at ha
    cases hlr : lastRight (reopen fs).segs with
    | none =>
      simp [hsegs, hlr]
    | some r =>
      rw [hlr] at ha
      simp only at ha
      subst ha
      simp only [hsegs, hlr, beq_self_eq_true, if_true]
      cases hfl : firstLeft (reopen fs).segs with
      | none =>
        cases hs : (reopen fs).segs with
        | nil => rw [hs] at hlr; simp [lastRight] at hlr
        | cons g rest => rw [hs] at hfl; simp [firstLeft] at hfl
      | some f =>
        have := contig_lastRight _ f a (reopen_contig fs) hfl hlr
        simp only [reopenDisk, hfl, Option.getD_some]
        omega
  have hxd : (xstep (XDisk.reopened fs l m id) (.op (.newAofWriter a))).1.d =
      ((reopenDisk fs l m id).step (.newAofWriter a)).1 := rfl
  have hmain := xappends_ok (fun o => h.byte id o) chunks (shortOps short)
    (xstep (XDisk.reopened fs l m id) (.op (.newAofWriter a))).1 hne
    (by rw [hxd]; exact hpos.1)
    (by
      intro i b hb
      rw [hxd, hpos.2]
      apply hp i b
      have hi : i < chunks.flatten.length := (List.getElem?_eq_some_iff.mp hb).1
      rw [List.getElem?_append_left hi]; exact hb)
    (by
      intro s' _ he
      cases short with
      | none => exact ⟨trivial, trivial⟩
      | some p =>
        obtain ⟨c, k'⟩ := p
        refine ⟨⟨hshort c k' rfl, trivial⟩, ?_, trivial⟩
        intro i b hb
        show b = h.byte id (s'.d.hbase + s'.d.hist.length + i)
        rw [he, hxd, hpos.2]
        have := hp (chunks.flatten.length + i) b (by
          rw [List.getElem?_append_right (by omega)]
          simpa [shortBytes] using hb)
        rw [this]; congr 1; omega)
  refine ⟨⟨?_, hmain.1⟩, ⟨trivial, hmain.2⟩, ?_⟩
  · -- C08's `okOp` of `NewAofWritter(a)` on the re-built index
    show (reopenDisk fs l m id).okOp (.newAofWriter a)
    simp only [Disk.okOp, hcl, hsegs]
    unfold ResumeAt at ha
    cases hlr : lastRight (reopen fs).segs with
    | some r => rw [hlr] at ha; exact ha
    | none =>
      rw [hlr] at ha
      cases hr : (reopen fs).rdb with
      | none => simp [reopenDisk, hr]
      | some p =>
        obtain ⟨L, S⟩ := p
        rw [hr] at ha
        simp only [reopenDisk, hr]
        exact ha
  · -- no snapshot writer occurs in the script
    apply snapSrcOk_noSnap
    intro op ho
    simp only [resumeScript, List.map_cons, List.map_append, List.map_map, List.mem_cons, List.mem_append,
      List.mem_map, Function.comp] at ho
    rcases ho with rfl | ⟨c, _, rfl⟩ | ho
    · exact ⟨fun _ _ hh => DOp.noConfusion hh, fun _ hh => DOp.noConfusion hh⟩
    · exact ⟨fun _ _ hh => DOp.noConfusion hh, fun _ hh => DOp.noConfusion hh⟩
    · cases short with
      | none => simp [shortOps] at ho
      | some p =>
        obtain ⟨c, k'⟩ := p
        simp only [shortOps, List.map_cons, List.map_nil, List.mem_singleton, recvOp] at ho
        obtain ⟨_, rfl, rfl⟩ := ho
        exact ⟨fun _ _ hh => DOp.noConfusion hh, fun _ hh => DOp.noConfusion hh⟩

/-! ### the hypotheses discharged for a life that takes a NEW snapshot (on ANY directory) -/

theorem xstep_op_d (s : XDisk) (o : DOp) (hng : o ≠ .gc) : (xstep s (.op o)).1.d = (s.d.step o).1 := by
  cases o <;> first | rfl | exact absurd rfl hng

/-- a script without faults and without collector passes: C08's extended protocol / source
    conditions are the plain ones on the index -/
theorem wfX_srcOkX_ops (src : Nat → UInt8) : ∀ (ops : List DOp) (s : XDisk), (∀ o ∈ ops, o ≠ .gc) →
    s.d.wf ops → SrcOk src s.d ops → wfX s (ops.map XOp.op) ∧ SrcOkX src s (ops.map XOp.op)
  | [], _, _, _, _ => ⟨trivial, trivial⟩
  | o :: rest, s, hng, hwf, hsrc => by
    have hd := xstep_op_d s o (hng o (by simp))
    have ih := wfX_srcOkX_ops src rest (xstep s (.op o)).1 (fun o' ho' => hng o' (List.mem_cons_of_mem _ ho'))
      (by rw [hd]; exact hwf.2) (by rw [hd]; exact hsrc.2)
    exact ⟨⟨hwf.1, ih.1⟩, ⟨hsrc.1, ih.2⟩⟩

/-- the writers' calls of a session that takes the snapshot and then the stream, in a process
    that already holds the directory open under `id` (any life but the first contact):
    `NewRdbWriter(left, size)` — which resets the data set itself (`resetDataSet`: rdbSync's
    `DelRunId; SetRunId` before it either removed the whole directory, then this is a life on the
    empty one, or is redundant) —, the chunks, `Close`, `SetRunId(id)` again (StartPoint →
    VerifyRunId), `NewAofWritter(a)`, the chunks -/
def snapLifeOps (id : String) (left size : Nat) (rchunks : List Bytes) (a : Nat) (achunks : List Bytes) : List DOp :=
  [.newRdbWriter left size] ++ rchunks.map DOp.rdbAppend ++
    ([.rdbClose, .setRunId id, .newAofWriter a] ++ achunks.map DOp.aofAppend)

theorem snapLifeOps_no_gc (id : String) (left size : Nat) (rchunks : List Bytes) (a : Nat) (achunks : List Bytes) :
    ∀ o ∈ snapLifeOps id left size rchunks a achunks, o ≠ .gc := by
  intro o ho
  simp only [snapLifeOps, List.cons_append, List.nil_append, List.mem_cons, List.mem_append, List.mem_map] at ho
  rcases ho with rfl | ⟨c, _, rfl⟩ | rfl | rfl | rfl | ⟨c, _, rfl⟩ <;> exact fun hh => DOp.noConfusion hh

/-- C08's `wf` and `SrcOk` for those calls on ANY index that carries the id -/
theorem snapLife_disk_ok (h : Hist UInt8) (d0 : Disk) (id : String) (hid : d0.runId = id) (hx : id ≠ "")
    (left size : Nat) (hsz : 0 < size) (rchunks : List Bytes) (hrne : ∀ c ∈ rchunks, c ≠ [])
    (hfit : rchunks.flatten.length ≤ size) (a : Nat) (ha : a = left ∨ rchunks.flatten.length < size)
    (achunks : List Bytes) (hane : ∀ c ∈ achunks, c ≠ [])
    (hp : achunks.flatten = hseg h id a achunks.flatten.length) :
    d0.wf (snapLifeOps id left size rchunks a achunks) ∧
      SrcOk (fun o => h.byte id o) d0 (snapLifeOps id left size rchunks a achunks) := by
  unfold snapLifeOps
  have h0 : SnapSt id left size rchunks.flatten.length (d0.run [.newRdbWriter left size]) rchunks.flatten.length := by
    refine ⟨?_, ?_, ?_, ?_⟩
    · simp [Disk.run, Disk.step, Disk.reset]
    · simp [Disk.run, Disk.step, Disk.reset]
    · simp [Disk.run, Disk.step, Disk.reset, hid]
    · exact ⟨_, rfl, rfl, rfl, fun _ => ⟨by simp, hfit⟩, fun hf => by simp at hf⟩
  have h1 := snapSt_run rchunks _ hrne h0
  have h2 := streamPart_ok h hx h1.2 a ha achunks hane hp
  refine ⟨?_, ?_⟩
  · rw [Disk.wf_append, Disk.wf_append]
    refine ⟨⟨⟨hsz, trivial⟩, h1.1⟩, ?_⟩
    rw [Disk.run_append]
    exact h2.1
  · rw [srcOk_append, srcOk_append]
    refine ⟨⟨⟨trivial, trivial⟩, rdbAppends_srcOk _ _ _⟩, ?_⟩
    rw [Disk.run_append]
    exact h2.2

/-- … and `SnapSrcOkFrom` from ANY ghost (a new snapshot writer forgets what was received before) -/
theorem snapLife_snapSrcOk (h : Hist UInt8) (id : String) (g0 : RecvG) (left size : Nat)
    (hsz : size = (h.snap id left).length) (rchunks : List Bytes) (hpre : rchunks.flatten <+: h.snap id left)
    (a : Nat) (achunks : List Bytes) : SnapSrcOkFrom h id g0 (snapLifeOps id left size rchunks a achunks) := by
  unfold snapLifeOps
  rw [snapSrcOkFrom_append, snapSrcOkFrom_append]
  refine ⟨⟨⟨hsz, trivial⟩, ?_⟩, ?_⟩
  · apply rdbAppends_snapSrcOk
    intro y hy _
    simp only [List.foldl_cons, List.foldl_nil, recvStep, Option.some.injEq] at hy
    subst hy
    simpa using hpre
  · apply snapSrcOk_noSnap
    intro op ho
    simp only [List.cons_append, List.nil_append, List.mem_cons, List.mem_map] at ho
    rcases ho with rfl | rfl | rfl | ⟨c, _, rfl⟩ <;>
      exact ⟨fun _ _ hh => DOp.noConfusion hh, fun _ hh => DOp.noConfusion hh⟩

/-- **snapshot_life_ok.** A life — the second, the n-th, on ANY directory, whatever earlier lives
    left in it — in which the follower takes history `id`'s snapshot at `left` (any chunking of any
    prefix of it) and then the stream from `a` (the snapshot's offset; anywhere when the snapshot did
    not complete) satisfies `Life.Ok`: C08's `wfX`, `SrcOkX` and C16's `SnapSrcOkFrom` are PROVED
    for its script. With `resume_stream_life_ok` every kind of transfer a re-opened follower makes
    is covered; `lives_reopened_faithful` then needs no hypothesis about such lives. -/
theorem snapshot_life_ok (h : Hist UInt8) (id : Replica.Id) (hx : id ≠ "") (fs : FS) (l m : Nat) (left : Nat)
    (hsz : 0 < (h.snap id left).length) (rchunks : List Bytes) (hrne : ∀ c ∈ rchunks, c ≠ [])
    (hpre : rchunks.flatten <+: h.snap id left) (a : Nat)
    (ha : a = left ∨ rchunks.flatten.length < (h.snap id left).length)
    (achunks : List Bytes) (hane : ∀ c ∈ achunks, c ≠ [])
    (hp : achunks.flatten = hseg h id a achunks.flatten.length) (n k : Nat) :
    (⟨l, m, (snapLifeOps id left (h.snap id left).length rchunks a achunks).map XOp.op, n, k⟩ : Life).Ok h id fs := by
  show wfX (XDisk.reopened fs l m id) ((snapLifeOps id left _ rchunks a achunks).map XOp.op) ∧
    SrcOkX (fun o => h.byte id o) (XDisk.reopened fs l m id) ((snapLifeOps id left _ rchunks a achunks).map XOp.op) ∧
    SnapSrcOkFrom h id (reopenGhost fs id) (((snapLifeOps id left _ rchunks a achunks).map XOp.op).map recvOp)
  have hd := snapLife_disk_ok h (reopenDisk fs l m id) id rfl hx left _ hsz rchunks hrne hpre.length_le a ha achunks hane hp
  have hxo := wfX_srcOkX_ops (fun o => h.byte id o) _ (XDisk.reopened fs l m id)
    (snapLifeOps_no_gc id left _ rchunks a achunks) hd.1 hd.2
  refine ⟨hxo.1, hxo.2, ?_⟩
  have : ((snapLifeOps id left (h.snap id left).length rchunks a achunks).map XOp.op).map recvOp =
      snapLifeOps id left (h.snap id left).length rchunks a achunks := by
    rw [List.map_map]
    conv => rhs; rw [← List.map_id (snapLifeOps id left (h.snap id left).length rchunks a achunks)]
    apply List.map_congr_left
    intro o _
    rfl
  rw [this]
  exact snapLife_snapSrcOk h id _ left _ rfl rchunks hpre a achunks

/-! ### non-vacuity: a follower killed in its FIRST life, re-opened, killed again in its SECOND -/

section examples
/-- stream byte at `o` is `o`, every snapshot `[7, 8, 9]` -/
def hLv : Hist UInt8 := ⟨fun _ o => UInt8.ofNat o, fun _ _ => [7, 8, 9]⟩

/-- first life: snapshot at 100 (3 bytes, two chunks), then the stream 100, 101 | 102; killed while
    the last append had written nothing -/
def life1 : Life :=
  ⟨20, 0, [.op (.newRdbWriter 100 3), .op (.rdbAppend [7]), .op (.rdbAppend [8, 9]), .op (.newAofWriter 100),
           .op (.aofAppend [100, 101]), .op (.aofAppend [102])], 99, 0⟩
/-- second life: the stream continued at 102 with `103 104` SHORT-written after 1 byte; killed at the end -/
def life2 : Life := ⟨20, 0, resumeScript 102 [[102]] (some ([103, 104], 1)), 99, 9⟩

example : life1.next "idA" [] = [(.rdb 100 3, [7, 8, 9]), (.aof 100, fixHeader ++ [100, 101])] := by decide
example : dataOfReopened (life1.next "idA" []) = some ⟨100, [100, 101], some [7, 8, 9]⟩ := by decide
example : dataOfReopened ([life1, life2].foldl (Life.next "idA") []) =
    some ⟨100, [100, 101, 102, 103], some [7, 8, 9]⟩ := by decide +kernel

theorem life1_ok : life1.Ok hLv "idA" [] := by
  refine ⟨by decide, srcOkXB_sound _ _ _ (by decide), ?_⟩
  have he : life1.xs.map recvOp = [DOp.newRdbWriter 100 3] ++ (([[7], [8, 9]] : List Bytes).map DOp.rdbAppend ++
      [.newAofWriter 100, .aofAppend [100, 101], .aofAppend [102]]) := by decide
  rw [he, snapSrcOkFrom_append, snapSrcOkFrom_append]
  refine ⟨⟨(by show 3 = (hLv.snap "idA" 100).length; decide), trivial⟩,
    rdbAppends_snapSrcOk _ _ ?_, snapSrcOk_noSnap _ _ ?_⟩
  · intro y hy _
    simp only [List.foldl_cons, List.foldl_nil, recvStep, Option.some.injEq] at hy
    subst hy
    decide
  · intro op ho
    simp only [List.mem_cons, List.not_mem_nil, or_false] at ho
    rcases ho with rfl | rfl | rfl <;>
      exact ⟨fun _ _ hh => DOp.noConfusion hh, fun _ hh => DOp.noConfusion hh⟩

theorem life2_ok : life2.Ok hLv "idA" (life1.next "idA" []) :=
  resume_stream_life_ok hLv "idA" _ 20 0 102
    (resumeAt_of_data _ _ (by
      intro d hd
      have : dataOfReopened (life1.next "idA" []) = some ⟨100, [100, 101], some [7, 8, 9]⟩ := by decide
      rw [this] at hd; cases hd; rfl))
    [[102]] (some ([103, 104], 1)) (by decide) (by intro c k hh; cases hh; decide)
    (by
      intro i b hb
      match i, hb with
      | 0, hb => simp [shortBytes] at hb; subst hb; decide
      | 1, hb => simp [shortBytes] at hb; subst hb; decide
      | 2, hb => simp [shortBytes] at hb; subst hb; decide
      | _ + 3, hb => simp [shortBytes] at hb) 99 9

/-- the theorem applied: what the third process re-opens is faithful -/
example : ∀ d, dataOfReopened ([life1, life2].foldl (Life.next "idA") []) = some d → d.Faithful hLv "idA" :=
  lives_reopened_faithful hLv "idA" [life1, life2] [] (dirOk_empty _ _) ⟨life1_ok, life2_ok, trivial⟩

/-- third life: the leader has collected the follower's position — a NEW snapshot at 200 (cut after 2 of
    its 3 bytes is also covered: see `snapshot_life_ok`'s `ha`), then the stream from 200; killed during
    the last append -/
def life3 : Life := ⟨20, 0, (snapLifeOps "idA" 200 3 [[7, 8], [9]] 200 [[200], [201, 202]]).map XOp.op, 99, 1⟩

theorem life3_ok (fs : FS) : life3.Ok hLv "idA" fs :=
  snapshot_life_ok hLv "idA" (by decide) fs 20 0 200 (by decide) [[7, 8], [9]] (by decide) (by decide) 200
    (Or.inl rfl) [[200], [201, 202]] (by decide) (by decide) 99 1

example : dataOfReopened ([life1, life2, life3].foldl (Life.next "idA") []) =
    some ⟨200, [200, 201], some [7, 8, 9]⟩ := by decide +kernel

example : ∀ d, dataOfReopened ([life1, life2, life3].foldl (Life.next "idA") []) = some d → d.Faithful hLv "idA" :=
  lives_reopened_faithful hLv "idA" [life1, life2, life3] [] (dirOk_empty _ _) ⟨life1_ok, life2_ok, life3_ok _, trivial⟩

-- a second life that appends ANOTHER history's bytes is rejected by `SrcOkX`
example : srcOkXB (fun o => hLv.byte "idA" o) (XDisk.reopened (life1.next "idA" []) 20 0 "idA")
    (resumeScript 102 [[55]] none) = false := by decide
end examples

end GunYu.Props.C16
