/-
  C16 × C08 — `SnapRecvOk` discharged for SNAPSHOT transfers (session 5).

  Props/C16Restart.lean's `crash_image_step_ok` needs, besides C08's `wf` and `SrcOk`, the link
  `SnapRecvOk`: every snapshot the follower's snapshot writer RECEIVED completely along the
  writers' script is the history's snapshot. Props/C16Script.lean proved it for scripts without a
  snapshot writer (stream transfers). Here:

  * `SnapChunkOk` / `SnapSrcOkFrom` / `SnapSrcOk` : the snapshot twin of C08's `ChunkOk` / `SrcOk`:
      a snapshot writer is created with the announced size = the size of history's snapshot at the
      announced offset, and every chunk handed to an attached writer keeps what it has been handed
      a prefix of that snapshot — per CALL, threaded through C08's ghost `recvStep`
  * `snapRecvOk_of_snapSrcOk`       : `SnapSrcOk → SnapRecvOk`, for EVERY script (any number of
      snapshot writers, resets, id switches, closes in between; induction on the script, ghost
      invariant `GhostOk`)
  * `session_snapshot_payload_is_history` : what `rdbSync`'s receive loop hands to the follower's
      snapshot writer — under any cut and any write fault — is a prefix of history `x`'s snapshot at
      the announced offset, and the announced size is that snapshot's length (from `Shape.rdb`,
      the leader's reply when its cache is a copy of history: `sendData_shape`)
  * `transferScript`                : the writers' script of ONE follower session that takes the
      snapshot and then the stream: `DelRunId; SetRunId x; NewRdbWriter(left,size); chunk …;
      Close; SetRunId x (StartPoint → VerifyRunId); NewAofWritter(a); chunk …`
  * `transfer_script_wf / _srcOk / _snapSrcOk` : C08's hypotheses and `SnapSrcOk` hold for it for
      EVERY chunking, complete or interrupted snapshot
  * `snapshot_transfer_crash_image_faithful` : hence a follower killed at ANY instant of a
      snapshot(+stream) transfer — the `.rdb.tmp` half written, between the last chunk and the
      rename, after the commit, in the middle of a stream append — re-opens a faithful copy.
      No `SrcOk` / `SnapRecvOk` hypothesis left.
  Quantifier: all histories, offsets, chunkings, interruption points, crash instants. Core Lean only.
-/
import GunYu.Props.C16Script
import GunYu.Proofs.ReplicaReader

namespace GunYu.Props.C16
open GunYu GunYu.Replica GunYu.Store GunYu.StoreFs

/-! ### the snapshot twin of `SrcOk` -/

/-- per call of the snapshot writer: created with the size of history `id`'s snapshot at the
    announced offset; a chunk handed to an attached writer keeps the received bytes a prefix of
    that snapshot -/
def SnapChunkOk (h : Hist UInt8) (id : Replica.Id) (g : RecvG) : DOp → Prop
  | .newRdbWriter off size => size = (h.snap id off).length
  | .rdbAppend chunk =>
    match g.cur with
    | some x => x.receiving = true → (x.bytes ++ chunk) <+: h.snap id x.left
    | none => True
  | _ => True

/-- … for every call of a script, the ghost threaded through -/
def SnapSrcOkFrom (h : Hist UInt8) (id : Replica.Id) : RecvG → List DOp → Prop
  | _, [] => True
  | g, op :: rest => SnapChunkOk h id g op ∧ SnapSrcOkFrom h id (recvStep g op) rest

def SnapSrcOk (h : Hist UInt8) (id : Replica.Id) (ops : List DOp) : Prop :=
  SnapSrcOkFrom h id ⟨"", none⟩ ops

/-- ghost invariant: what has been received so far is a prefix of history's snapshot at the
    announced offset, announced with that snapshot's size -/
def GhostOk (h : Hist UInt8) (id : Replica.Id) (g : RecvG) : Prop :=
  ∀ x, g.cur = some x → x.bytes <+: h.snap id x.left ∧ x.size = (h.snap id x.left).length

theorem ghostOk_stop {h : Hist UInt8} {id : Replica.Id} {r : String} {c : Option SnapRecv}
    (hg : GhostOk h id ⟨r, c⟩) (r' : String) : GhostOk h id ⟨r', stopRecv c⟩ := by
  intro x hx
  cases c with
  | none => cases hx
  | some y =>
    simp only [stopRecv, Option.some.injEq] at hx
    subst hx
    exact hg y rfl

theorem ghostOk_step {h : Hist UInt8} {id : Replica.Id} (g : RecvG) (op : DOp)
    (hg : GhostOk h id g) (hc : SnapChunkOk h id g op) : GhostOk h id (recvStep g op) := by
  obtain ⟨r, c⟩ := g
  cases op with
  | setRunId i =>
    simp only [recvStep]
    split
    · exact ghostOk_stop hg _
    · split
      · exact hg
      · exact ghostOk_stop hg _
  | delRunId =>
    simp only [recvStep]
    split
    · exact hg
    · exact ghostOk_stop hg _
  | newRdbWriter off size =>
    intro x hx
    simp only [recvStep, Option.some.injEq] at hx
    subst hx
    exact ⟨List.nil_prefix, hc⟩
  | rdbAppend chunk =>
    cases c with
    | none => exact hg
    | some y =>
      simp only [recvStep]
      by_cases hr : y.receiving = true
      · simp only [hr, if_true]
        intro x hx
        simp only [Option.some.injEq] at hx
        subst hx
        exact ⟨hc hr, (hg y rfl).2⟩
      · simp only [hr]
        exact hg
  | rdbClose => exact ghostOk_stop hg _
  | newAofWriter _ => exact hg
  | aofAppend _ => exact hg
  | aofClose => exact hg
  | gc => exact hg
  | openReader _ _ _ => exact hg
  | read _ _ => exact hg
  | advAcquire _ => exact hg
  | advRelease _ => exact hg
  | closeReader _ => exact hg

theorem ghostOk_run {h : Hist UInt8} {id : Replica.Id} :
    ∀ (ops : List DOp) (g : RecvG), GhostOk h id g → SnapSrcOkFrom h id g ops →
      GhostOk h id (ops.foldl recvStep g)
  | [], _, hg, _ => hg
  | op :: rest, g, hg, hs => ghostOk_run rest _ (ghostOk_step g op hg hs.1) hs.2

theorem snapSrcOkFrom_take {h : Hist UInt8} {id : Replica.Id} :
    ∀ (ops : List DOp) (g : RecvG) (j : Nat), SnapSrcOkFrom h id g ops → SnapSrcOkFrom h id g (ops.take j)
  | [], _, j, _ => by simp [SnapSrcOkFrom]
  | _ :: _, _, 0, _ => trivial
  | op :: rest, g, j + 1, hs => ⟨hs.1, snapSrcOkFrom_take rest _ j hs.2⟩

theorem snapSrcOkFrom_append {h : Hist UInt8} {id : Replica.Id} :
    ∀ (a b : List DOp) (g : RecvG),
      SnapSrcOkFrom h id g (a ++ b) ↔ SnapSrcOkFrom h id g a ∧ SnapSrcOkFrom h id (a.foldl recvStep g) b
  | [], b, g => by simp [SnapSrcOkFrom]
  | op :: a, b, g => by
    simp only [List.cons_append, SnapSrcOkFrom, List.foldl_cons]
    rw [snapSrcOkFrom_append a b]
    exact and_assoc.symm

/-- a complete reception from a ghost that satisfies the invariant is history's snapshot -/
theorem ghostOk_complete {h : Hist UInt8} {id : Replica.Id} {g : RecvG} (hg : GhostOk h id g)
    {L S : Nat} {c : Bytes} {r : Bool} (hc : g.cur = some ⟨L, S, c, r⟩) (hl : c.length = S) :
    c = h.snap id L := by
  obtain ⟨hp, hs⟩ := hg _ hc
  exact hp.eq_of_length (by simp only at hs hl ⊢; omega)

/-- **snapRecvOk_of_snapSrcOk.** For EVERY script of the disk writers: when every snapshot writer
    is created with history's snapshot size and is handed prefixes of history's snapshot
    (`SnapSrcOk`, per call), every snapshot the script has received COMPLETELY at any of its points
    is history's snapshot (`SnapRecvOk`, the hypothesis of `crash_image_step_ok`). -/
theorem snapRecvOk_of_snapSrcOk (h : Hist UInt8) (id : Replica.Id) (ops : List DOp)
    (hs : SnapSrcOk h id ops) : SnapRecvOk h id ops := by
  intro j L S c _ hr hl
  have hg : GhostOk h id (recvRun (ops.take j)) :=
    ghostOk_run (ops.take j) ⟨"", none⟩ (fun x hx => by cases hx) (snapSrcOkFrom_take ops _ j hs)
  exact ghostOk_complete hg hr hl

/-! ### what the session hands to the snapshot writer -/

/-- **session_snapshot_payload_is_history.** The leader's reply to a data request is a snapshot
    (`Shape.rdb`: `META{offset = base, size = |s|}`, then `conts off cs ++ tl` with `cs.flatten` a
    prefix of `s = h.snap x base`). Whatever the cut (`budget`), the way the stream ends (`fin`)
    and the write fault, the bytes `rdbSync`'s loop hands to the follower's snapshot writer — and
    those that reach its file — are a prefix of history `x`'s snapshot at the announced offset. -/
theorem session_snapshot_payload_is_history {β : Type} (h : Hist β) (x : Id) (off : Int) (base : Nat)
    (s : List β) (cs : List (List β)) (tl ms : List (Msg β)) (fin : Fin) (budget : Nat) (lost : Loss)
    (hms : ms = conts off cs ++ tl) (htl : Tail tl) (hs : s = h.snap x base) (hb : cs.flatten <+: s) :
    (rdbLoop fin budget s.length ms).2.1 <+: h.snap x base ∧
      (lost.written (rdbLoop fin budget s.length ms).2.1).1 <+: h.snap x base := by
  have h1 : (rdbLoop fin budget s.length ms).2.1 <+: h.snap x base := by
    have := rdbLoop_prefix fin budget s.length ms
    rw [hms, pay_conts_tail _ _ htl] at this
    rw [hms]
    exact hs ▸ this.trans hb
  refine ⟨h1, ?_⟩
  obtain ⟨n, hn⟩ := lost.written_take (rdbLoop fin budget s.length ms).2.1
    (rdbLoop fin budget s.length ms).2.1.length
  rw [List.take_length] at hn
  rw [hn]
  exact (List.take_prefix _ _).trans h1

/-! ### the writers' script of a snapshot (+ stream) transfer -/

/-- one follower session that takes the snapshot and then the stream, on the directory a fresh
    follower has: `rdbSync` = `DelRunId(x); SetRunId(x); NewRdbWriter(left, size)`, the chunks,
    `writer.Close()`; `Run` state 4 → `StartPoint` (`VerifyRunId`: `SetRunId(x)` again);
    `aofSync` = `NewAofWritter(a)`, the chunks. -/
def transferScript (x : String) (left size : Nat) (rchunks : List Bytes) (a : Nat) (achunks : List Bytes) :
    List DOp :=
  [.delRunId, .setRunId x, .newRdbWriter left size] ++ rchunks.map DOp.rdbAppend ++
    ([.rdbClose, .setRunId x, .newAofWriter a] ++ achunks.map DOp.aofAppend)

/-- the directory state while / after the snapshot chunks are written: nothing but the snapshot,
    `n` bytes of the `total` still to come -/
structure SnapSt (x : String) (left size total : Nat) (s : Disk) (n : Nat) : Prop where
  segs : s.segs = []
  live : s.live = none
  rid : s.runId = x
  rdb : ∃ r, s.rdb = some r ∧ r.left = left ∧ r.size = size ∧
    (r.writing = true → r.data.length + n = total ∧ total ≤ size) ∧ (r.writing = false → size ≤ total)

theorem snapSt_step {x : String} {left size total : Nat} {s : Disk} {n : Nat} (c : Bytes) (hc : c ≠ [])
    (hs : SnapSt x left size total s (c.length + n)) :
    s.okOp (.rdbAppend c) ∧ SnapSt x left size total (s.step (.rdbAppend c)).1 n := by
  obtain ⟨hsegs, hlive, hrid, r, hr, hl, hsz, hw, hnw⟩ := hs
  refine ⟨⟨hc, ?_⟩, ?_⟩
  · rw [hr]; intro hwr; have := hw hwr; omega
  · simp only [Disk.step, hr]
    by_cases hwr : r.writing = true
    · simp only [hwr, if_true]
      have hh := hw hwr
      split
      · next hfull =>
        refine ⟨hsegs, hlive, hrid, _, rfl, hl, hsz, by simp, ?_⟩
        intro _
        simp only [List.length_append] at hfull
        omega
      · refine ⟨hsegs, hlive, hrid, _, rfl, hl, hsz, ?_, ?_⟩
        · intro _; simp only [List.length_append]; omega
        · intro hf; simp at hf
    · simp only [hwr]
      refine ⟨hsegs, hlive, hrid, r, hr, hl, hsz, fun hf => absurd hf hwr, ?_⟩
      intro _
      exact hnw (by simpa using hwr)

theorem snapSt_run {x : String} {left size total : Nat} :
    ∀ (chunks : List Bytes) (s : Disk), (∀ c ∈ chunks, c ≠ []) →
      SnapSt x left size total s chunks.flatten.length →
      s.wf (chunks.map DOp.rdbAppend) ∧ SnapSt x left size total (s.run (chunks.map DOp.rdbAppend)) 0
  | [], s, _, hs => ⟨trivial, by simpa [Disk.run] using hs⟩
  | c :: rest, s, hne, hs => by
    have h1 := snapSt_step (n := rest.flatten.length) c (hne c (by simp))
      (by simpa [List.flatten_cons, List.length_append] using hs)
    have h2 := snapSt_run rest _ (fun c' hc' => hne c' (List.mem_cons_of_mem _ hc')) h1.2
    exact ⟨⟨h1.1, h2.1⟩, h2.2⟩

/-- the state after `DelRunId; SetRunId x; NewRdbWriter(left, size)` on the empty directory -/
theorem snapSt_init (l m : Nat) (x : String) (hx : x ≠ "") (left size total : Nat) (ht : total ≤ size) :
    SnapSt x left size total
      ((Disk.init l m).run [.delRunId, .setRunId x, .newRdbWriter left size]) total := by
  refine ⟨?_, ?_, ?_, ?_⟩ <;>
    simp [Disk.run, Disk.step, Disk.init, Disk.reset, ht]

theorem srcOk_append (src : Nat → UInt8) : ∀ (a b : List DOp) (s : Disk),
    SrcOk src s (a ++ b) ↔ SrcOk src s a ∧ SrcOk src (s.run a) b
  | [], b, s => by simp [SrcOk, Disk.run]
  | op :: a, b, s => by
    simp only [List.cons_append, SrcOk, Disk.run]
    rw [srcOk_append src a b]
    exact and_assoc.symm

theorem rdbAppends_srcOk (src : Nat → UInt8) : ∀ (chunks : List Bytes) (s : Disk),
    SrcOk src s (chunks.map DOp.rdbAppend)
  | [], _ => trivial
  | _ :: rest, _ => ⟨trivial, rdbAppends_srcOk src rest _⟩

/-- the part of the script after the snapshot chunks: `Close; SetRunId x; NewAofWritter(a)`, the
    stream chunks — from any state `SnapSt … 0` -/
theorem streamPart_ok (h : Hist UInt8) {x : String} (hx : x ≠ "") {left size total : Nat} {s : Disk}
    (hs : SnapSt x left size total s 0) (a : Nat) (ha : a = left ∨ total < size)
    (achunks : List Bytes) (hne : ∀ c ∈ achunks, c ≠ [])
    (hp : achunks.flatten = hseg h x a achunks.flatten.length) :
    s.wf ([.rdbClose, .setRunId x, .newAofWriter a] ++ achunks.map DOp.aofAppend) ∧
      SrcOk (fun o => h.byte x o) s ([.rdbClose, .setRunId x, .newAofWriter a] ++ achunks.map DOp.aofAppend) := by
  obtain ⟨hsegs, hlive, hrid, r, hr, hl, hsz, hw, hnw⟩ := hs
  -- the state after `rdbClose`
  have hc : ∃ s1 : Disk, (s.step .rdbClose).1 = s1 ∧ s1.segs = [] ∧ s1.live = none ∧ s1.runId = x ∧
      (∀ r1, s1.rdb = some r1 → a = r1.left) := by
    refine ⟨_, rfl, ?_⟩
    simp only [Disk.step, hr]
    by_cases hwr : r.writing = true
    · simp [hwr, hsegs, hlive, hrid]
    · simp only [hwr]
      refine ⟨hsegs, hlive, hrid, ?_⟩
      intro r1 hr1
      have hwf : r.writing = false := by simpa using hwr
      simp only [hwf, Bool.false_eq_true, if_false] at hr1
      rw [hr] at hr1
      cases hr1
      rcases ha with ha | ha
      · rw [ha, hl]
      · have := hnw (by simpa using hwr); omega
  obtain ⟨s1, hs1, hsegs1, hlive1, hrid1, hrdb1⟩ := hc
  have hs2 : (s1.step (.setRunId x)).1 = s1 := by
    simp [Disk.step, hrid1, hx]
  have hlr : lastRight s1.closeLive.segs = none := by
    simp [Disk.closeLive, hlive1, hsegs1, lastRight]
  have hs3 : ((s1.step (.newAofWriter a)).1.live.isSome = true) ∧ (s1.step (.newAofWriter a)).1.hbase = a ∧
      (s1.step (.newAofWriter a)).1.hist = [] := by
    simp [Disk.step, Disk.closeLive, hlive1, hsegs1, lastRight]
  refine ⟨⟨trivial, ?_, ?_, ?_⟩, trivial, trivial, trivial, ?_⟩
  · rw [hs1]; intro _ hne'; exact absurd hrid1.symm hne'
  · rw [hs1, hs2]
    show match lastRight s1.closeLive.segs, s1.rdb with
      | some r, _ => a = r | none, some rd => a = rd.left | none, none => True
    rw [hlr]
    cases hrd : s1.rdb with
    | none => trivial
    | some r1 => exact hrdb1 r1 hrd
  · rw [hs1, hs2]; exact appends_wf achunks hne _
  · rw [hs1, hs2]
    apply appends_srcOk _ _ _ hs3.1
    intro i b hb
    rw [hs3.2.1, hs3.2.2]
    rw [hp] at hb
    have hi : i < achunks.flatten.length := by
      have := (List.getElem?_eq_some_iff.mp hb).1
      simpa using this
    simp only [hseg, List.getElem?_map, List.getElem?_range hi, Option.map_some, Option.some.injEq] at hb
    simp [← hb]

/-- **transfer_script_wf / transfer_script_srcOk.** C08's callers' protocol and `SrcOk` hold for
    the script of a snapshot (+ stream) transfer: for EVERY chunking of a prefix of the snapshot
    (complete or not) and of the stream. `a` is where the stream writer is opened: the
    snapshot's offset — or anywhere when the snapshot did not complete (nothing is held then). -/
theorem transfer_script_wf_srcOk (h : Hist UInt8) (l m : Nat) (x : String) (hx : x ≠ "") (left size : Nat)
    (hsz : 0 < size) (rchunks : List Bytes) (hrne : ∀ c ∈ rchunks, c ≠ [])
    (hfit : rchunks.flatten.length ≤ size) (a : Nat) (ha : a = left ∨ rchunks.flatten.length < size)
    (achunks : List Bytes) (hane : ∀ c ∈ achunks, c ≠ [])
    (hp : achunks.flatten = hseg h x a achunks.flatten.length) :
    (Disk.init l m).wf (transferScript x left size rchunks a achunks) ∧
      SrcOk (fun o => h.byte x o) (Disk.init l m) (transferScript x left size rchunks a achunks) := by
  unfold transferScript
  have h0 := snapSt_init l m x hx left size rchunks.flatten.length hfit
  have h1 := snapSt_run rchunks _ hrne h0
  have h2 := streamPart_ok h hx h1.2 a ha achunks hane hp
  have hpre : (Disk.init l m).wf [.delRunId, .setRunId x, .newRdbWriter left size] := by
    refine ⟨trivial, ?_, ?_, trivial⟩
    · simp [Disk.okOp, Disk.step, Disk.init]
    · exact hsz
  refine ⟨?_, ?_⟩
  · rw [Disk.wf_append, Disk.wf_append]
    refine ⟨⟨hpre, h1.1⟩, ?_⟩
    rw [Disk.run_append]
    exact h2.1
  · rw [srcOk_append, srcOk_append]
    refine ⟨⟨⟨trivial, trivial, trivial, trivial⟩, rdbAppends_srcOk _ _ _⟩, ?_⟩
    rw [Disk.run_append]
    exact h2.2

theorem snapSrcOk_noSnap {h : Hist UInt8} {id : Replica.Id} : ∀ (ops : List DOp) (g : RecvG),
    (∀ op ∈ ops, (∀ o s, op ≠ .newRdbWriter o s) ∧ (∀ c, op ≠ .rdbAppend c)) → SnapSrcOkFrom h id g ops
  | [], _, _ => trivial
  | op :: rest, g, hno => by
    refine ⟨?_, snapSrcOk_noSnap rest _ (fun o ho => hno o (List.mem_cons_of_mem _ ho))⟩
    have := hno op (by simp)
    cases op <;> first | trivial | (exfalso; first | exact this.1 _ _ rfl | exact this.2 _ rfl)

theorem rdbAppends_snapSrcOk {h : Hist UInt8} {id : Replica.Id} : ∀ (chunks : List Bytes) (g : RecvG),
    (∀ y, g.cur = some y → y.receiving = true → (y.bytes ++ chunks.flatten) <+: h.snap id y.left) →
      SnapSrcOkFrom h id g (chunks.map DOp.rdbAppend)
  | [], _, _ => trivial
  | c :: rest, g, hg => by
    obtain ⟨r, cur⟩ := g
    refine ⟨?_, rdbAppends_snapSrcOk rest _ ?_⟩
    · cases cur with
      | none => trivial
      | some y =>
        intro hr
        have := hg y rfl hr
        simp only [List.flatten_cons, ← List.append_assoc] at this
        exact (List.prefix_append _ _).trans this
    · cases cur with
      | none => intro y hy; simp [recvStep] at hy
      | some y0 =>
        intro y hy hry
        by_cases hr : y0.receiving = true
        · simp only [recvStep, hr, if_true, Option.some.injEq] at hy
          subst hy
          have := hg y0 rfl hr
          simpa [List.flatten_cons, List.append_assoc] using this
        · simp only [recvStep, hr] at hy
          simp only [Option.some.injEq, Bool.false_eq_true, if_false] at hy
          subst hy
          exact absurd hry hr

/-- **transfer_script_snapSrcOk.** … and `SnapSrcOk`: the writer is created with the snapshot's
    size and is handed a prefix of it (what `session_snapshot_payload_is_history` says of every
    session against a faithful leader). -/
theorem transfer_script_snapSrcOk (h : Hist UInt8) (x : String) (left size : Nat)
    (hsz : size = (h.snap x left).length) (rchunks : List Bytes) (hpre : rchunks.flatten <+: h.snap x left)
    (a : Nat) (achunks : List Bytes) : SnapSrcOk h x (transferScript x left size rchunks a achunks) := by
  unfold SnapSrcOk transferScript
  rw [snapSrcOkFrom_append, snapSrcOkFrom_append]
  refine ⟨⟨⟨trivial, trivial, hsz, trivial⟩, ?_⟩, ?_⟩
  · apply rdbAppends_snapSrcOk
    intro y hy _
    simp only [List.foldl_cons, List.foldl_nil, recvStep, if_true, stopRecv, Option.some.injEq] at hy
    subst hy
    simpa using hpre
  · apply snapSrcOk_noSnap
    intro op ho
    simp only [List.cons_append, List.nil_append, List.mem_cons, List.mem_map] at ho
    rcases ho with rfl | rfl | rfl | ⟨c, _, rfl⟩ <;>
      exact ⟨fun _ _ hh => DOp.noConfusion hh, fun _ hh => DOp.noConfusion hh⟩

/-- **snapshot_transfer_crash_image_faithful.** A fresh follower takes history `x`'s snapshot at
    `left` (any chunking of any prefix of it: the transfer may be cut anywhere) and then the stream
    from `a` (the snapshot's offset; anywhere when the snapshot did not complete), and is KILLED
    at any instant: `n` file operations issued, the last append torn after `k` bytes — the
    temporary snapshot half written, all of it written but not yet renamed, committed, the stream
    segment torn, a rotation half done. What the next process re-opens is a faithful copy of
    history `x`: stream bytes at their offsets, and a snapshot only when it is the complete
    history's snapshot. C08's theorems applied with C16's own conclusions as `SrcOk` AND
    `SnapRecvOk`: nothing is assumed about the script any more. -/
theorem snapshot_transfer_crash_image_faithful (h : Hist UInt8) (l m : Nat) (x : String) (hx : x ≠ "")
    (left : Nat) (hsz : 0 < (h.snap x left).length) (rchunks : List Bytes) (hrne : ∀ c ∈ rchunks, c ≠ [])
    (hpre : rchunks.flatten <+: h.snap x left) (a : Nat)
    (ha : a = left ∨ rchunks.flatten.length < (h.snap x left).length)
    (achunks : List Bytes) (hane : ∀ c ∈ achunks, c ≠ [])
    (hp : achunks.flatten = hseg h x a achunks.flatten.length) (n k : Nat) :
    ∀ d, dataOfReopened (crashImage [] (scriptOps (Disk.init l m)
        (transferScript x left (h.snap x left).length rchunks a achunks)) n k) = some d →
      d.Faithful h x :=
  let w := transfer_script_wf_srcOk h l m x hx left _ hsz rchunks hrne hpre.length_le a ha achunks hane hp
  crash_image_data_faithful h x l m _ w.1 w.2
    (snapRecvOk_of_snapSrcOk h x _ (transfer_script_snapSrcOk h x left _ rfl rchunks hpre a achunks)) n k

/-! ### non-vacuity -/

section examples
/-- stream byte at `o` is `o`, every snapshot is `[7, 8, 9]` -/
def hSn : Hist UInt8 := ⟨fun _ o => UInt8.ofNat o, fun _ _ => [7, 8, 9]⟩

def exT : List DOp := transferScript "idA" 100 3 [[7], [8, 9]] 100 [[100, 101], [102]]

example : SnapSrcOk hSn "idA" exT :=
  transfer_script_snapSrcOk hSn "idA" 100 3 (by decide) [[7], [8, 9]] (by decide) 100 _
example : (Disk.init 20 0).wf exT := by decide
-- a chunk that is not the snapshot's is rejected by `SnapSrcOk`
example : ¬ SnapSrcOk hSn "idA" (transferScript "idA" 100 3 [[7], [9, 9]] 100 []) := by
  intro hs
  have := snapRecvOk_of_snapSrcOk _ _ _ hs 5 100 3 [7, 9, 9] (by decide) (by decide) (by decide)
  revert this; decide
-- killed when 2 of the 3 snapshot bytes are in the temporary file: nothing is re-opened
example : dataOfReopened (crashImage [] (scriptOps (Disk.init 20 0) exT) 3 1) = none := by decide
-- killed after the last snapshot byte but BEFORE the rename: nothing either
example : dataOfReopened (crashImage [] (scriptOps (Disk.init 20 0) exT) 3 2) = none := by decide
-- killed after the rename: the snapshot; at the end: snapshot + stream
example : dataOfReopened (crashImage [] (scriptOps (Disk.init 20 0) exT) 4 0) = some ⟨100, [], some [7, 8, 9]⟩ := by decide
example : dataOfReopened (crashImage [] (scriptOps (Disk.init 20 0) exT) 99 9) =
    some ⟨100, [100, 101, 102], some [7, 8, 9]⟩ := by decide
-- the theorem applied: every crash instant of the script re-opens faithfully
example (n k : Nat) : ∀ d, dataOfReopened (crashImage [] (scriptOps (Disk.init 20 0) exT) n k) = some d →
    d.Faithful hSn "idA" :=
  snapshot_transfer_crash_image_faithful hSn 20 0 "idA" (by decide) 100 (by decide) [[7], [8, 9]] (by decide)
    (by decide) 100 (Or.inl rfl) [[100, 101], [102]] (by decide) (by decide) n k
-- an interrupted snapshot (1 of 3 bytes), then the stream from the leader's newest offset 500
example (n k : Nat) : ∀ d, dataOfReopened (crashImage [] (scriptOps (Disk.init 20 0)
    (transferScript "idA" 100 3 [[7]] 500 [[244, 245]])) n k) = some d → d.Faithful hSn "idA" :=
  snapshot_transfer_crash_image_faithful hSn 20 0 "idA" (by decide) 100 (by decide) [[7]] (by decide)
    (by decide) 500 (Or.inr (by decide)) [[244, 245]] (by decide) (by decide) n k
end examples

end GunYu.Props.C16
