/-
  C05, disk backend — (1) the callers' protocol for stream writers derived from what
  the callers pass (the ANSWER of an earlier `LatestOffset()` query, an empty cache,
  or the offset of the snapshot just announced) instead of assumed in the state of
  the call; (2) progress as safety: a reader below the writer's end always has a
  delivering move.
-/
import GunYu.Proofs.StoreCaller
import GunYu.Proofs.StoreProgress

namespace GunYu.Props.C05
open GunYu GunYu.Store

/-! ## The callers' protocol -/

/-- **disk_answer_is_continuation.** On a cache without an open stream writer, what
    `LatestOffset()` answers is an offset at which a stream writer continues the held
    stream (`Disk.okOp (.newAofWriter q)`), … -/
theorem disk_answer_is_continuation (s : Disk) (hl : s.live = none) (q : Nat) (hq : s.latestNat = some q) :
    Continues q s ∧ s.okOp (.newAofWriter q) :=
  ⟨latest_continues hl hq, continues_okOp (latest_continues hl hq)⟩

/-- **disk_answer_stays_continuation.** … and it STAYS one through every operation
    that does not create a writer — reads, rotation steps, readers opened and closed,
    COLLECTOR PASSES, snapshot appends / close, `SetRunId` (the same id or a switch),
    `DelRunId` — in any reachable state: the time between the query and
    `NewAofWritter` (the whole of `syncMeta`, the collector's timer) does not matter. -/
theorem disk_answer_stays_continuation (s : Disk) (hi : DInv s) (q : Nat) (h : Continues q s) (op : DOp)
    (hop : op.opensWriter = false) : Continues q (s.step op).1 :=
  step_continues hi h op hop

/-- a collector pass leaves the end of the stream where it is or removes stream and
    snapshot together (any state) -/
theorem disk_gc_keeps_end_or_clears (s : Disk) (q : Nat) (h : Continues q s) : Continues q s.gc :=
  gc_continues h

/-- **disk_callers_respect_protocol.** Every run the callers produce (`callerOk`: a
    stream writer is created at the offset ANSWERED earlier in the run, on a cache that
    holds nothing, or at the offset of the snapshot just announced; anything else —
    readers, collector, run-id operations, snapshot chunks — interleaved anywhere)
    satisfies the protocol `Disk.wf` the disk theorems assume. -/
theorem disk_callers_respect_protocol (l m : Nat) (cops : List COp) (h : callerOk .none (Disk.init l m) cops) :
    (Disk.init l m).wf (COp.erase cops) :=
  caller_wf cops .none _ (DInv.init l m) trivial h

/-- hence the disk theorems hold for the callers' runs; the two central ones restated -/
theorem disk_reader_delivers_for_callers (l m : Nat) (cops : List COp) (h : callerOk .none (Disk.init l m) cops) :
    let s := (Disk.init l m).run (COp.erase cops)
    ∀ r ∈ s.readers, r.isOpen = true → r.isAof = true →
      s.hbase ≤ r.start ∧ r.start ≤ r.pos ∧ r.pos ≤ s.hbase + s.hist.length ∧
      r.out = (s.hist.drop (r.start - s.hbase)).take (r.pos - r.start) := by
  intro s r hr ho ha
  have hinv : DInv s := (DInv.init l m).run _ (disk_callers_respect_protocol l m cops h)
  obtain ⟨⟨g, hg, _, _, hpr⟩, _, hs, hp, hout⟩ := (hinv.readersOk r hr ho).1 ha
  have := (hinv.embed g hg).2.1
  exact ⟨hs, hp, by omega, hout⟩

theorem disk_refines_for_callers (l m : Nat) (cops : List COp) (h : callerOk .none (Disk.init l m) cops) :
    let s := (Disk.init l m).run (COp.erase cops)
    s.all ≠ [] → s.hbase ≤ s.abs.base ∧ s.abs.bytes = s.hist.drop (s.abs.base - s.hbase) :=
  fun hne => abs_bytes_eq ((DInv.init l m).run _ (disk_callers_respect_protocol l m cops h)) hne

/-! ### non-vacuity: a run in which the collector empties the cache between the
    answer and the writer's creation, and one in which it does not -/

def exCallerRun : List COp :=
  [ .op (.setRunId "id1"), .ask, .op (.newAofWriter 100),          -- empty cache: `ask` answers -1
    .op (.aofAppend [1,2,3,4,5,6,7,8,9,10]), .op (.aofAppend [11,12,13,14,15,16,17,18,19,20]), .op .aofClose,
    .ask,                                                          -- answers 120
    .op (.openReader 0 105 false), .op (.read 0 3), .op .gc, .op (.setRunId "id1"), .op (.read 0 100),
    .op (.newAofWriter 120), .op (.aofAppend [21,22]) ]

example : callerOk .none (Disk.init 24 40) exCallerRun := by decide
example : ((Disk.init 24 40).run (COp.erase exCallerRun)).segs.map (fun g => (g.left, g.data.length)) = [(100, 10), (110, 10)] ∧
    ((Disk.init 24 40).run (COp.erase exCallerRun)).live.map (fun g => (g.left, g.data)) = some (120, [21, 22]) := by decide

/-- the collector removes EVERYTHING between the answer (120) and the writer's creation:
    the writer at 120 starts a new history on the empty cache -/
def exCallerRunGc : List COp :=
  [ .op (.setRunId "id1"), .ask, .op (.newAofWriter 100),
    .op (.aofAppend [1,2,3,4,5,6,7,8,9,10]), .op (.aofAppend [11,12,13,14,15,16,17,18,19,20]), .op .aofClose,
    .ask, .op .gc, .op (.newAofWriter 120), .op (.aofAppend [21,22]) ]

example : callerOk .none (Disk.init 24 5) exCallerRunGc := by decide
example : ((Disk.init 24 5).run ((COp.erase exCallerRunGc).take 6)).all = [] := by decide
example : ((Disk.init 24 5).run (COp.erase exCallerRunGc)).abs.base = 120 ∧
    ((Disk.init 24 5).run (COp.erase exCallerRunGc)).abs.bytes = [21, 22] := by decide

/-- a writer at an offset that was NOT answered is not a run of the callers -/
example : ¬ callerOk .none (Disk.init 24 40) (exCallerRun.take 12 ++ [.op (.newAofWriter 200)]) := by decide

/-- what the disk backend does with such a writer (it does not refuse it, the memory
    backend does: `mem_refuses_discontinuous`): the gap between the held stream and the
    new segment is reported VALID although no reader can be opened there — the reason
    the protocol is needed, and why it is derived for the callers above. -/
example :
    let s := (Disk.init 64 0).run [.setRunId "a", .newAofWriter 100, .aofAppend [1,2,3], .aofClose,
      .newAofWriter 200, .aofAppend [9]]
    s.inRange 150 = true ∧ (s.open 0 150 true).2 = Out.notExist := by decide

/-! ## Progress as safety (disk) -/

/-- **disk_reader_delivers_next.** In every reachable state, an open stream reader
    that is not in the middle of a rotation step and stands below the writer's end
    has a delivering move: `AofRotateReader.read` (`Disk.follow`: open the next file
    when the current one is exhausted and the next exists, then ONE `file.Read`)
    returns at least one byte — also with a collector pass inside the rotation
    (`Disk.followGc`) — and the bytes are the appended bytes at its position. No
    reachable state leaves a reader behind the writer without a delivering step. -/
theorem disk_reader_delivers_next (l m : Nat) (ops : List DOp) (hwf : (Disk.init l m).wf ops) (withGc : Bool) :
    let s := (Disk.init l m).run ops
    ∀ r ∈ s.readers, r.isOpen = true → r.isAof = true → r.prev = none →
      r.pos < s.hbase + s.hist.length → ∀ n, 0 < n →
      ∃ bs, (if withGc then s.followGc r.id n else s.follow r.id n).2 = Out.data bs ∧ bs ≠ [] ∧
        bs = (s.hist.drop (r.pos - s.hbase)).take bs.length := by
  intro s r hr ho ha hp hlt n hn
  exact follow_delivers ((DInv.init l m).run ops hwf) hr ho ha hp hlt n hn withGc

/-- **disk_valid_offset_has_delivering_move.** A VALID offset covered by the stream and
    below the writer's end can be opened, and the reader opened there delivers at
    least one byte with its first `read` — the bytes appended at that offset. -/
theorem disk_valid_offset_has_delivering_move (l m : Nat) (ops : List DOp) (hwf : (Disk.init l m).wf ops)
    (rid off : Nat) (crc : Bool) :
    let s := (Disk.init l m).run ops
    findReader s.readers rid = none → s.inRange off = true → (indexAof s.all off).isSome = true →
      off < s.hbase + s.hist.length → ∀ n, 0 < n →
      (s.open rid off crc).2 = Out.aof off ∧
      ∃ bs, ((s.open rid off crc).1.follow rid n).2 = Out.data bs ∧ bs ≠ [] ∧
        bs = (s.hist.drop (off - s.hbase)).take bs.length := by
  intro s hfresh hin hidx hlt n hn
  have hinv : DInv s := (DInv.init l m).run ops hwf
  obtain ⟨g, hg⟩ := Option.isSome_iff_exists.mp hidx
  let r0 : DReader := { id := rid, isAof := true, cur := g.left, prev := none, pos := off, isOpen := true,
                        start := off, out := [] }
  have hopen : s.open rid off crc = (({ s with readers := s.readers ++ [r0] } : Disk), Out.aof off) := by
    simp [Disk.open, hfresh, hin, hg, r0]
  have hi1 : DInv (s.open rid off crc).1 := hinv.step (.openReader rid off crc) trivial
  rw [hopen] at hi1 ⊢
  refine ⟨rfl, ?_⟩
  have := follow_delivers hi1 (r := r0) (by simp) rfl rfl rfl hlt n hn false
  simpa using this

/-- **disk_snapshot_reader_delivers_next.** Progress for offsets SERVED BY THE SNAPSHOT:
    in every reachable state an open snapshot reader that has not delivered everything
    the snapshot file holds gets at least one byte from its next `read` — the snapshot's
    bytes at its position; and a snapshot without a writer holds all `size` bytes
    (`disk_snapshot_offered_iff_complete`), so the replay reaches the end. -/
theorem disk_snapshot_reader_delivers_next (l m : Nat) (ops : List DOp) (hwf : (Disk.init l m).wf ops) :
    let s := (Disk.init l m).run ops
    ∀ r ∈ s.readers, r.isOpen = true → r.isAof = false → ∀ rd, s.rdb = some rd → r.pos < rd.data.length →
      ∀ n, 0 < n → ∃ bs, (s.step (.read r.id n)).2 = Out.data bs ∧ bs ≠ [] ∧ bs = (rd.data.drop r.pos).take n ∧
        (rd.writing = false → rd.data.length = rd.size) := by
  intro s r hr ho ha rd hrd hlt n hn
  have hinv : DInv s := (DInv.init l m).run ops hwf
  have hf := findReader_of_mem hinv.ids hr
  have hlen : 0 < ((rd.data.drop r.pos).take n).length := by simp; omega
  have hne : ((rd.data.drop r.pos).take n) ≠ [] := List.length_pos_iff.mp hlen
  have he : ((rd.data.drop r.pos).take n).isEmpty = false := by simpa [List.isEmpty_iff] using hne
  refine ⟨_, ?_, hne, rfl, fun hw => ((hinv.rdbShape rd hrd).2.2 hw).2⟩
  simp only [Disk.step, Disk.read, hf, ho, Bool.not_true, Bool.false_eq_true, if_false, ha, hrd, he]

/-- **disk_valid_snapshot_offset_has_delivering_move.** A VALID offset the stream does
    not cover is served by the snapshot: a reader can be opened there (checksum accepted),
    and as soon as the snapshot file holds a byte its first `read` delivers — no valid
    offset, stream- or snapshot-served, is without a delivering move. -/
theorem disk_valid_snapshot_offset_has_delivering_move (l m : Nat) (ops : List DOp) (hwf : (Disk.init l m).wf ops)
    (rid off : Nat) :
    let s := (Disk.init l m).run ops
    findReader s.readers rid = none → s.inRange off = true → indexAof s.all off = none →
      ∃ rd, s.rdb = some rd ∧ off ≤ rd.left ∧ (s.open rid off true).2 = Out.rdb rd.left rd.size ∧
        (rd.data ≠ [] → ∀ n, 0 < n →
          ∃ bs, ((s.open rid off true).1.step (.read rid n)).2 = Out.data bs ∧ bs ≠ [] ∧ bs = rd.data.take n) := by
  intro s hfresh hin hidx
  have hinv : DInv s := (DInv.init l m).run ops hwf
  have hne := (inRange_iff_open hinv rid off hfresh).mp hin
  unfold Disk.open at hne ⊢
  simp only [hfresh, Option.isSome_none, Bool.false_eq_true, if_false, hin, Bool.not_true, hidx] at hne ⊢
  cases hrd : s.rdb with
  | none => rw [hrd] at hne; simp at hne
  | some rd =>
    rw [hrd] at hne
    dsimp only at hne ⊢
    by_cases hle : off ≤ rd.left
    · simp only [hle, if_true, Bool.not_true, Bool.and_false, Bool.false_eq_true, if_false] at hne ⊢
      refine ⟨rd, rfl, hle, rfl, ?_⟩
      intro hd n hn
      let r0 : DReader := { id := rid, isAof := false, cur := 0, prev := none, pos := 0, isOpen := true, start := 0, out := [] }
      have hfr : findReader (s.readers ++ [r0]) rid = some r0 := by
        unfold findReader at hfresh ⊢
        rw [List.find?_append, hfresh]; simp [r0]
      have hlen : 0 < (rd.data.take n).length := by
        have := List.length_pos_iff.mpr hd
        simp; omega
      have hne2 : rd.data.take n ≠ [] := List.length_pos_iff.mp hlen
      have he : (rd.data.take n).isEmpty = false := by simpa [List.isEmpty_iff] using hne2
      refine ⟨_, ?_, hne2, rfl⟩
      simp [Disk.step, Disk.read, hfr, hrd, he, r0]
    · simp [hle] at hne

/-- non-vacuity: the reader of `exOps`-like history standing at the end of a closed
    segment: the follow step rotates and delivers from the next segment -/
example :
    let s := (Disk.init 24 0).run [.setRunId "id1", .newAofWriter 100, .aofAppend [1,2,3,4,5,6,7,8,9,10],
      .aofAppend [11,12,13], .openReader 0 103 false, .read 0 100]
    (s.readers.map (fun r => (r.cur, r.pos))) = [(100, 110)] ∧ (s.follow 0 2).2 = Out.data [11, 12] ∧
      (s.followGc 0 5).2 = Out.data [11, 12, 13] := by decide

end GunYu.Props.C05
