/-
  C05, memory backend — the two-lock-section window of `NewAofWritter`
  (Model/StoreMemWindow.lean): whatever happens in it, readers deliver the SOURCE's
  bytes.

  Quantifier: all lists of `WOp` — every operation of the memory model, and at any
  point the three steps of a writer replacement taken apart: `install` (first lock
  section), `oldWake` (the replaced writer, woken on capacity, appends its piece to its
  no longer last segment), `finishOld` (second lock section). Hypothesis `SrcOkW src`:
  every chunk handed to a stream writer is the source's bytes at the end of that
  writer's segment (both connections carry the same replication stream).
-/
import GunYu.Proofs.StoreMemWindow

namespace GunYu.Props.C05
open GunYu GunYu.Store

/-- **mem_window_readers_true.** After ANY such list, every copy loop that holds an
    indexed segment has written to its pipe exactly the source's bytes `[start, pos)`:
    contiguous from `start`, byte `i` is `src (start + i)`. The stray append of a
    replaced writer does not change a single byte a reader delivers. -/
theorem mem_window_readers_true (src : Nat → UInt8) (l m : Nat) (ops : List WOp) (hs : SrcOkW src (MemW.init l m) ops) :
    let w := (MemW.init l m).run ops
    ∀ r ∈ w.s.readers, r.isAof = true → r.released = false → (∃ g ∈ w.s.segs, g.sid = r.seg) →
      r.pos = r.start + r.out.length ∧ ∀ i b, r.out[i]? = some b → b = src (r.start + i) := by
  intro w r hr ha hrel hex
  exact ((WInv.init src l m).run ops hs).core.readers r hr ha hrel hex

/-- … every indexed segment holds the source's bytes at its offsets (also the two
    overlapping ones the stray append leaves behind), … -/
theorem mem_window_segments_true (src : Nat → UInt8) (l m : Nat) (ops : List WOp) (hs : SrcOkW src (MemW.init l m) ops) :
    let w := (MemW.init l m).run ops
    ∀ g ∈ w.s.segs, ∀ i b, g.data[i]? = some b → b = src (g.left + i) := by
  intro w g hg
  exact ((WInv.init src l m).run ops hs).core.segs g hg

/-- … and what a blocked writer is waiting to append — the current one, or a replaced
    one that has not been finished — is the source's bytes at the end of its segment. -/
theorem mem_window_pending_true (src : Nat → UInt8) (l m : Nat) (ops : List WOp) (hs : SrcOkW src (MemW.init l m) ops) :
    let w := (MemW.init l m).run ops
    (∀ buf cur, w.s.pendA = some buf → w.s.aofW = some cur → ∀ g ∈ w.s.segs, g.sid = cur → BytesTrue src g.right buf) ∧
    (∀ o piece, w.old = some ⟨o, some piece⟩ → ∀ g ∈ w.s.segs, g.sid = o → BytesTrue src g.right piece) := by
  intro w
  have h := (WInv.init src l m).run ops hs
  exact ⟨h.pend.res, fun o piece ho => (h.old o (some piece) ho).2.2 piece rfl⟩

/-- **the window with nothing in it is the atomic step.** `install` directly followed by
    `finishOld` is `.newAofWriter` of Model/Store.lean (the step the correspondence harness
    drives): the window model extends the tied model, it does not replace it. -/
theorem mem_window_no_wake_is_atomic (w : MemW) (off : Nat) (hold : w.old = none) :
    ((w.step (.install off)).1.step .finishOld).1.s = (w.s.step (.newAofWriter off)).1 ∧
    ((w.step (.install off)).1.step .finishOld).1.old = none :=
  window_atomic w off hold

/-! ### non-vacuity: a replaced writer blocked on capacity is woken inside the window -/

instance (src : Nat → UInt8) (off : Nat) (bs : Bytes) : Decidable (BytesTrue src off bs) :=
  decidable_of_iff (∀ i : Fin bs.length, bs[i] = src (off + i)) (by
    constructor
    · intro h i b hb
      obtain ⟨hi, e⟩ := List.getElem?_eq_some_iff.mp hb
      rw [← e]; exact h ⟨i, hi⟩
    · intro h i
      exact h i.1 _ (List.getElem?_eq_getElem i.2))

instance (src : Nat → UInt8) (segs : List MSeg) (sid : Nat) (bs : Bytes) : Decidable (Res src segs sid bs) := by
  unfold Res; infer_instance

instance (src : Nat → UInt8) (w : MemW) (op : WOp) : Decidable (ChunkTrueW src w op) := by
  cases op with
  | base o =>
    cases o <;> simp only [ChunkTrueW, ChunkTrue] <;> infer_instance
  | install off => exact isTrue trivial
  | oldWake => exact isTrue trivial
  | finishOld => exact isTrue trivial

instance SrcOkW.dec (src : Nat → UInt8) : (w : MemW) → (ops : List WOp) → Decidable (SrcOkW src w ops)
  | _, [] => isTrue trivial
  | w, op :: rest =>
    have := SrcOkW.dec src (w.step op).1 rest
    inferInstanceAs (Decidable (ChunkTrueW src w op ∧ SrcOkW src (w.step op).1 rest))

/-- the source: offset 100 carries byte 1, 101 byte 2, … -/
def exSrc : Nat → UInt8 := fun n => (n - 99).toUInt8

/-- writer at 100 fills two segments; reader 0 (never started) pins the first, reader 1
    follows from 108; the third append blocks on capacity. The writer is REPLACED
    (`install 116`); in the window reader 0 is closed, the replaced writer is woken and
    appends its 4 bytes to its segment [116,120) — which now overlaps the new writer's
    segment at 116; `finishOld`; the new writer appends the source's bytes from 116. -/
def exWindowOps : List WOp :=
  [ .base (.setRunId "id1"), .base (.newAofWriter 100), .base (.aofAppend [1,2,3,4,5,6,7,8]),
    .base (.openReader 0 100), .base (.aofAppend [9,10,11,12,13,14,15,16]),
    .base (.openReader 1 108), .base (.startReader 1), .base (.copyStep 1),
    .base (.aofAppend [17,18,19,20]),
    .install 116, .base (.closeReader 0), .oldWake, .base (.copyStep 1), .base (.copyStep 1), .finishOld,
    .base (.aofAppend [17,18,19,20,21,22]), .base (.copyStep 1), .base (.copyStep 1), .base (.copyStep 1) ]

example : SrcOkW exSrc (MemW.init 8 16) exWindowOps := by decide
-- the third append is blocked (4 bytes wait), the replaced writer takes them into the window
example : ((MemW.init 8 16).run (exWindowOps.take 9)).s.pendA = some [17,18,19,20] ∧
    ((MemW.init 8 16).run (exWindowOps.take 10)).old = some ⟨2, some [17,18,19,20]⟩ := by decide
-- after the stray append the index is NOT contiguous: [116,120) is followed by the segment at 116
example : ((MemW.init 8 16).run (exWindowOps.take 15)).s.segs.map (fun g => (g.sid, g.left, g.data.length, g.closed)) =
    [(1, 108, 8, true), (2, 116, 4, true), (3, 116, 0, false)] := by decide
-- the reader that followed through the window delivered the source's bytes 108 … 121, each once
example : ((MemW.init 8 16).run exWindowOps).s.readers.map (fun r => (r.id, r.start, r.pos, r.out)) =
    [(0, 100, 100, []), (1, 108, 122, [9,10,11,12,13,14,15,16,17,18,19,20,21,22])] := by decide

end GunYu.Props.C05
