/-
  C16 → C06, the promotion as it really happens on the DISK backend: the follower's syncer
  ends, `NewSyncer` makes a NEW channel over the same directory tree (a fresh Storer: no current
  id), and the new leader's input begins with `channel.StartPoint(inputIds)` → `VerifyRunId`,
  which picks the directory (Model/ReplicaIdSrc.lean `verifyRunId`). And over lives that include
  crash restarts (Props/C16Restart.lean `StepC`).

  * `verifyRunId_dirs`, `verifyRunId_cur`   : `VerifyRunId` changes no directory; the id it leaves
      current is "" or one of the listed ids whose directory exists
  * `promoted_new_storer_cache_ok`          : whatever directory the new Storer picks, the cache
      C06 starts from (`cacheOfData .disk x _`) satisfies C06's `CacheOK` (and `CacheWF` under the
      int64 / non-empty-snapshot side conditions) — after ANY life of the follower including
      kills and restarts from crash images
  The memory backend is void here by the property's own `memory_cache_lost_at_promotion`: the
  promoted syncer gets a new EMPTY memory channel (`promoted_cache_wf_none` is all there is to say).
-/
import GunYu.Props.C16Promote
import GunYu.Props.C16Restart
import GunYu.Model.ReplicaIdSrc

namespace GunYu.Props.C16
open GunYu GunYu.Replica GunYu.StoreFs

theorem verifyRunId_dirs {β : Type} (ids : List Id) (F : Store β) : (verifyRunId F ids).dirs = F.dirs := by
  induction ids generalizing F with
  | nil => rfl
  | cons id rest ih =>
    simp only [verifyRunId]
    split
    · exact ih F
    · next hsp =>
      have hsp' : special id = false := by simpa using hsp
      split
      · exact ih F
      · next v hv =>
        have hh : F.has id = true := by simp [Store.has, hv]
        rw [setRunId_disk_has hsp' hh]
        split
        · exact ih _
        · rfl

theorem verifyRunId_cur {β : Type} (ids : List Id) (F : Store β) :
    (verifyRunId F ids).cur = F.cur ∨ ((verifyRunId F ids).cur ∈ ids ∧ F.has (verifyRunId F ids).cur = true) := by
  induction ids generalizing F with
  | nil => exact Or.inl rfl
  | cons id rest ih =>
    simp only [verifyRunId]
    split
    · rcases ih F with h | h
      · exact Or.inl h
      · exact Or.inr ⟨List.mem_cons_of_mem _ h.1, h.2⟩
    · next hsp =>
      have hsp' : special id = false := by simpa using hsp
      split
      · rcases ih F with h | h
        · exact Or.inl h
        · exact Or.inr ⟨List.mem_cons_of_mem _ h.1, h.2⟩
      · next v hv =>
        have hh : F.has id = true := by simp [Store.has, hv]
        rw [setRunId_disk_has hsp' hh]
        split
        · rcases ih ({ F with cur := id }) with h | h
          · exact Or.inr ⟨by rw [h]; simp, by rw [h]; exact hh⟩
          · exact Or.inr ⟨List.mem_cons_of_mem _ h.1, h.2⟩
        · exact Or.inr ⟨by simp, hh⟩

/-- **promoted_new_storer_cache_ok.** A disk follower lived ANY life (`StepC`: sessions against
    any faithful, changing leaders cut anywhere, clean restarts, periods as leader, kills with
    restarts from crash images); it is promoted: a NEW Storer over its directories (no current
    id) runs `VerifyRunId(ids)` with the source's ids. Whatever directory `x` that leaves
    current, the cache C06's `syncMeta` starts from satisfies C06's `CacheOK` for every source
    and every world agreeing with the history, and `CacheWF` under the side conditions. -/
theorem promoted_new_storer_cache_ok (h : Hist UInt8) (steps : List (StepC UInt8)) (F : Store UInt8)
    (hok : ∀ (pre : List (StepC UInt8)) (st : StepC UInt8) (post : List (StepC UInt8)),
      steps = pre ++ st :: post → st.Ok h (pre.foldl (stepC .disk) F))
    (hwf : WF .disk F) (hF : ∀ id, FaithfulAt h F.dirs id) (ids : List Id) :
    let G := steps.foldl (stepC .disk) F
    let N := verifyRunId (⟨"", G.dirs⟩ : Store UInt8) ids
    (N.cur = "" ∨ N.cur ∈ ids) ∧
    (∀ (w : Psync.World) (src : Psync.Source), Agrees w h →
      Psync.CacheOK w src (cacheOfData .disk N.cur N.curData) (cdataOfData N.cur N.curData)) ∧
    (N.cur ≠ "" → N.cur ≠ "?" →
      (∀ d, N.curData = some d → (d.right : Int) ≤ Psync.maxInt64 ∧ ∀ s, d.snap = some s → s ≠ []) →
      Psync.CacheWF (cacheOfData .disk N.cur N.curData)) := by
  intro G N
  have hmain := (follower_prefix_of_leader_crash_runs h .disk steps F hok hwf hF).1
  have hdirs : N.dirs = G.dirs := verifyRunId_dirs ids _
  have hfa : ∀ d, N.curData = some d → d.Faithful h N.cur := by
    intro d hd
    have hm := curData_mem hd
    rw [hdirs] at hm
    exact hmain N.cur d hm
  refine ⟨?_, ?_, ?_⟩
  · rcases verifyRunId_cur ids (⟨"", G.dirs⟩ : Store UInt8) with h0 | h1
    · exact Or.inl h0
    · exact Or.inr h1.1
  · intro w src hag
    exact cacheOK_of_holds w src .disk N.cur _ (promoted_cache_holds_opt h w .disk N.cur _ hfa hag)
  · intro hx1 hx2 hside
    cases hd : N.curData with
    | none => exact promoted_cache_wf_none .disk N.cur
    | some d => exact promoted_cache_wf .disk N.cur d hx1 hx2 (hside d hd).1 (hside d hd).2

/-! ### non-vacuity: the life `lifeCr` of Props/C16Restart.lean (crash, session, clean restart,
    crash), then the promotion with the source's ids -/
example : (verifyRunId (⟨"", (lifeCr.foldl (stepC .disk) ⟨"", []⟩).dirs⟩ : Store UInt8) ["idA", "idZ"]).cur = "idA" := by decide
example : ∀ (w : Psync.World) (src : Psync.Source), Agrees w hCr →
    Psync.CacheOK w src
      (cacheOfData .disk "idA" (verifyRunId (⟨"", (lifeCr.foldl (stepC .disk) ⟨"", []⟩).dirs⟩ : Store UInt8) ["idA", "idZ"]).curData)
      (cdataOfData "idA" (verifyRunId (⟨"", (lifeCr.foldl (stepC .disk) ⟨"", []⟩).dirs⟩ : Store UInt8) ["idA", "idZ"]).curData) := by
  have := (promoted_new_storer_cache_ok hCr lifeCr ⟨"", []⟩ (okAll_positions hCr .disk lifeCr _ (lifeCr_ok _))
    ⟨Or.inl rfl, by decide⟩ (fun id d hd => by cases hd) ["idA", "idZ"]).2.1
  have hc : (verifyRunId (⟨"", (lifeCr.foldl (stepC .disk) ⟨"", []⟩).dirs⟩ : Store UInt8) ["idA", "idZ"]).cur = "idA" := by decide
  rw [hc] at this
  exact this

end GunYu.Props.C16
