/-
  C12 — Stream decoding is lossless and its offsets equal the bytes consumed.

  Property theorems only (helper lemmas: Proofs/Decimal.lean, Proofs/Resp.lean).
  Quantifier: all sequences of multi-bulk commands, arbitrary binary / empty /
  arbitrarily long arguments, any argument count ≥ 1, any start offset.
  `WF c` only says what every Go value satisfies (slice lengths below 2^63)
  plus "the command name is not empty" (`ParseArgs` rejects an empty name) and
  "the command name is ASCII" (Go lower-cases it with `strings.ToLower`, which
  is byte-wise only on ASCII; the model and the harness are restricted to the
  same domain). Arguments are arbitrary bytes.
  Buffer sizes and read fragmentation: Props/C12Frag.lean (the same decoder over a
  model of bufio.Reader in front of a reader that cuts the stream into arbitrary
  pieces computes exactly what the functions below compute on the plain bytes).
-/
import GunYu.Model.Resp
import GunYu.Proofs.Decimal
import GunYu.Proofs.Resp

namespace GunYu.Props.C12
open GunYu GunYu.Resp

/-- decimal rendering then strict decimal parsing is the identity, every `n` -/
theorem dec_natToDec (n : Nat) : decToNat? (natToDec n) = some n :=
  Decimal.decToNat?_natToDec n

/-- the decoder's `strconv.ParseInt` reads back every length a Go slice can have -/
theorem parseInt64_natToDec (n : Nat) (h : n < 2^63) : parseInt64 (natToDec n) = some (n : Int) :=
  Resp.parseInt64_natToDec n h

/-- … and every int64 rendered by `strconv.AppendInt` (integer arguments of `WriteArgs`) -/
theorem parseInt64_intToDec (i : Int) (lo : -(2^63 : Int) ≤ i) (hi : i < 2^63) :
    parseInt64 (intToDec i) = some i :=
  Resp.parseInt64_intToDec i lo hi

/-- **Lossless, exact count, nothing over-read.** A fresh decoder on the
    encoding of any command followed by any bytes `rest` returns the lower-cased
    name, exactly the argument bytes sent, an offset equal to the length of the
    encoding, and leaves exactly `rest` unread. -/
theorem decodeOne_encode (c : List Bytes) (rest : Bytes) (h : WF c) :
    decodeOne (encodeCmd c ++ rest) = .ok (cmdOf c, (encodeCmd c).length, rest) :=
  decodeOne_enc c rest h

/-- newline bytes in front of a command (the source's keep-alive `\n`) are
    skipped and counted: the offset is still the number of stream bytes consumed -/
theorem decodeOne_newlines_encode (k : Nat) (c : List Bytes) (rest : Bytes) (h : WF c) :
    decodeOne (List.replicate k 10 ++ (encodeCmd c ++ rest)) =
      .ok (cmdOf c, k + (encodeCmd c).length, rest) :=
  decodeOne_nl_enc k c rest h

/-- `boundaries` is DESIGN §3's `boundary s start (i+1)`: start plus the encoded
    length of the first `i+1` commands -/
theorem boundaries_getElem? (start : Nat) (s : List (List Bytes)) (i : Nat) (h : i < s.length) :
    (boundaries start s)[i]? = some (start + ((s.take (i + 1)).flatMap encodeCmd).length) :=
  Resp.boundaries_getElem? start s i h

/-- **Offsets = boundaries.** The parser loop (`startOffset + incrOffset` after
    each `MustDecodeOpt`) on the concatenated encodings of any command sequence,
    from any start offset, reports every command with exactly its arguments and
    the offset of its end, and then ends with `io.EOF`. -/
theorem decodeAll_offsets (start : Nat) (s : List (List Bytes)) (h : ∀ c ∈ s, WF c) :
    decodeAll start (s.flatMap encodeCmd) = ((s.map cmdOf).zip (boundaries start s), .eof) :=
  decodeAll_stream start s h

/-- the same for a stream that is cut or damaged anywhere after the first
    `s.length` commands: what was completely received is reported exactly -/
theorem decodeAll_prefix (start : Nat) (s : List (List Bytes)) (tail : Bytes) (h : ∀ c ∈ s, WF c) :
    (decodeAll start (s.flatMap encodeCmd ++ tail)).1.take s.length
      = (s.map cmdOf).zip (boundaries start s) :=
  decodeAll_stream_prefix start s tail h

/-- **Truncation.** A command cut anywhere before its last byte is never
    reported as a command: the decoder ends with `io.EOF` or `io.ErrUnexpectedEOF`. -/
theorem decodeOne_truncated (c : List Bytes) (h : WF c) (k : Nat) (hk : k < (encodeCmd c).length) :
    decodeOne ((encodeCmd c).take k) = .error .eof ∨ decodeOne ((encodeCmd c).take k) = .error .ueof :=
  decodeOne_trunc c h k hk

/-- a stream cut inside its last command: exactly the complete commands are
    reported, with their boundaries, nothing is invented from the partial one,
    and the loop ends with an end-of-input error -/
theorem decodeAll_truncated (start : Nat) (s : List (List Bytes)) (c : List Bytes) (k : Nat)
    (hs : ∀ c ∈ s, WF c) (hc : WF c) (hk : k < (encodeCmd c).length) :
    decodeAll start (s.flatMap encodeCmd ++ (encodeCmd c).take k)
        = ((s.map cmdOf).zip (boundaries start s), .eof) ∨
    decodeAll start (s.flatMap encodeCmd ++ (encodeCmd c).take k)
        = ((s.map cmdOf).zip (boundaries start s), .ueof) :=
  decodeAllFrom_trunc start 0 s c k hs hc hk

/-- a decoder whose counter already stands at `pre` (a long-lived connection)
    keeps exact offsets: boundaries are simply shifted by `pre` -/
theorem decodeAllFrom_offsets (start pre : Nat) (s : List (List Bytes)) (h : ∀ c ∈ s, WF c) :
    decodeAllFrom start pre (s.flatMap encodeCmd)
      = ((s.map cmdOf).zip (boundaries (start + pre) s), .eof) :=
  decodeAllFrom_stream start pre s h

/-- every reported offset lies between the start offset and the end of the
    stream (a statement over natural numbers: by itself it says nothing about
    Go's int64 arithmetic — that is the next three theorems) -/
theorem decodeAll_offsets_le_end (start : Nat) (s : List (List Bytes)) (h : ∀ c ∈ s, WF c) :
    ∀ p ∈ (decodeAll start (s.flatMap encodeCmd)).1,
      start ≤ p.2 ∧ p.2 ≤ start + (s.flatMap encodeCmd).length := by
  intro p hp
  rw [decodeAll_offsets start s h] at hp
  exact ⟨expected_snd_ge start s p hp, expected_snd_le start s p hp⟩

/-- Go's wrapping `int64` addition is the mathematical sum when both operands
    are non-negative and the sum is below 2^63 (explicit no-overflow hypothesis) -/
theorem int64_add_exact (x y : Int64) (hx : 0 ≤ x.toInt) (hy : 0 ≤ y.toInt)
    (h : x.toInt + y.toInt < 2^63) : (x + y).toInt = x.toInt + y.toInt :=
  Resp.int64_add_exact x y hx hy h

/-- the decoder's counter as Go computes it (`d.offset++`, `d.offset += int64(len(b))`
    in wrapping int64, from any preset) equals the natural-number count of the
    model as long as the true total stays below 2^63 -/
theorem counter_int64_exact (pre : Nat) (ks : List Nat) (h : pre + ks.sum < 2^63) :
    (count64 (Int64.ofNat pre) ks).toInt = (pre + ks.sum : Nat) :=
  count64_exact pre ks h

/-- the parser's `startOffset + incrOffset`, computed in wrapping int64, is the
    model's offset for every command of every well-formed stream whose end lies
    below 2^63 -/
theorem parser_sum_int64_exact (start : Nat) (s : List (List Bytes)) (h : ∀ c ∈ s, WF c)
    (hb : start + (s.flatMap encodeCmd).length < 2^63) :
    ∀ p ∈ (decodeAll start (s.flatMap encodeCmd)).1,
      (Int64.ofNat start + Int64.ofNat (p.2 - start)).toInt = (p.2 : Nat) := by
  intro p hp
  obtain ⟨h1, h2⟩ := decodeAll_offsets_le_end start s h p hp
  rw [Resp.int64_add_exact _ _ (by rw [int64_ofNat_toInt start (by omega)]; omega)
        (by rw [int64_ofNat_toInt (p.2 - start) (by omega)]; omega)
        (by rw [int64_ofNat_toInt start (by omega), int64_ofNat_toInt (p.2 - start) (by omega)]; omega),
      int64_ofNat_toInt start (by omega), int64_ofNat_toInt (p.2 - start) (by omega)]
  omega

/-- `proto.Writer.WriteArgs` produces the RESP framing of the arguments' payloads -/
theorem writeArgs_eq_encodeCmd (as : List Arg) : writeArgs as = encodeCmd (as.map Arg.payload) :=
  Resp.writeArgs_eq_encodeCmd as

/-- **Encode for the target, decode again.** The bytes `WriteArgs` sends decode
    to the same command and arguments, with offset = bytes written. -/
theorem decode_writeArgs (as : List Arg) (rest : Bytes) (h : WF (as.map Arg.payload)) :
    decodeOne (writeArgs as ++ rest) =
      .ok (cmdOf (as.map Arg.payload), (writeArgs as).length, rest) := by
  rw [writeArgs_eq_encodeCmd]; exact decodeOne_enc _ rest h

/-- **Offset = bytes consumed for everything the decoder accepts** as a typed
    value (not only canonical encodings: signed or zero-padded lengths, `$-1`,
    nested arrays, newlines): the unread input is a suffix of the input and the
    counter advanced by exactly the length of what was consumed. -/
theorem decodeResp_offset_exact (fuel depth : Nat) (inp : Bytes) (off : Nat)
    (v : Resp.Resp) (off' : Nat) (rest : Bytes)
    (hty : typed inp) (h : decodeResp fuel depth inp off = .ok (v, off', rest)) :
    ∃ pre, inp = pre ++ rest ∧ off' = off + pre.length :=
  Resp.decodeResp_consumed fuel depth inp off v off' rest hty h

/-! ## Non-vacuity -/

-- SET k "\r\n$" : a binary argument containing protocol bytes; followed by more stream
example : WF [[83,69,84],[107],[13,10,36]] := by
  refine ⟨by decide, by decide, ?_, ?_⟩
  · intro a ha; simp at ha; rcases ha with rfl | rfl | rfl <;> decide
  · intro b hb; simp at hb; rcases hb with rfl | rfl | rfl <;> decide
-- cut after 19 of 29 bytes (inside the second bulk): io.ErrUnexpectedEOF; cut inside a length line: io.EOF
example : decodeOne ((encodeCmd [[83,69,84],[107],[13,10,36]]).take 19) = .error .ueof := by decide
example : decodeOne ((encodeCmd [[83,69,84],[107],[13,10,36]]).take 15) = .error .eof := by decide
-- a decoder that has already counted 2^32 - 3 bytes
example : decodeAllFrom 0 4294967293 (encodeCmd [[80,73,78,71]]) =
    ([(⟨[112,105,110,103], []⟩, 4294967307)], .eof) := by decide
example : decodeOne (encodeCmd [[83,69,84],[107],[13,10,36]] ++ [42,49]) =
    .ok (⟨[115,101,116], [[107],[13,10,36]]⟩, 29, [42,49]) := by decide
-- empty argument
example : decodeOne (encodeCmd [[71,69,84],[]]) = .ok (⟨[103,101,116], [[]]⟩, 19, []) := by decide
-- two commands from offset 1000: boundaries 1014 and 1035
example : decodeAll 1000 ([[[80,73,78,71]], [[71,69,84],[107,49]]].flatMap encodeCmd) =
    ([(⟨[112,105,110,103], []⟩, 1014), (⟨[103,101,116], [[107,49]]⟩, 1035)], .eof) := by decide
-- a truncated second command: the first is still reported exactly, then io.ErrUnexpectedEOF
example : decodeAll 0 (encodeCmd [[80,73,78,71]] ++ [42,49,13,10,36,52,13,10,80]) =
    ([(⟨[112,105,110,103], []⟩, 14)], .ueof) := by decide
-- WriteArgs of (string "SET", []byte "k", int64 -5)
example : decodeOne (writeArgs [.str [83,69,84], .bytes [107], .int (-5)]) =
    .ok (⟨[115,101,116], [[107],[45,53]]⟩, 28, []) := by decide
-- observation (outside the property): an inline command `PING\r\n` (6 bytes) is
-- reported with offset 7 — its first byte is counted by decodeType and again with the line
example : decodeOne [80,73,78,71,13,10] = .ok (⟨[112,105,110,103], []⟩, 7, []) := by decide

end GunYu.Props.C12
