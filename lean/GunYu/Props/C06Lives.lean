/-
  C06 — the coupling with the sender's target over ANY number of lives and (re)connections (session 5).

  `afterSend_coupled` (Props/C06Send.lean) keeps `Coupled` - C06's stored offset IS the sender's unique
  largest record, and C06 calls exactly that offset the truth - across ONE resumed life of the sender on
  one attempt's log. `Lives6` is everything the retry loop and the sender do between and during such
  lives while the source goes on granting continuations:

    * `life`       an attempt of the loop hands over the log from the stored offset; the sender runs one
                   resumed life on the stream decoded from there and dies after ANY wire prefix
                   (`afterSend_coupled`'s hypotheses, any configuration / schedule)
    * `reconnect`  the sender's connection to the target is a new one (database 0 selected)
    * `quiet`      an attempt that ends before `Send` and was NOT answered FULLRESYNC, at any stage
                   (with or without ErrCorrupted): the position and the target's data are untouched
    * `gc`, `same` a collector pass; the source moves on under the same ids

      * `snapshot`   a snapshot (after FULLRESYNC, or the cached one) is handed over and its replay completes:
                   the sender's target is whatever the replay leaves, holding `(id, left)` as its unique largest
                   record (premise: `sendRdb` / C03/C04), and the stretch of continuations starts again

  `lives6_coupled`: in every such state the loop's state is a `Loop` state, the coupling holds AND the
  target's applied list is `base ++ A`: what it was when the last snapshot completed, then life after life the
  commands up to the position stored plus the overshoot - by induction over the sequence.
-/
import GunYu.Props.C06Send
import GunYu.Props.C06Att

namespace GunYu.Props.C06
open GunYu GunYu.Psync
open GunYu.Sender GunYu.Target GunYu.Props.C02

/-- an attempt that does not reach `Send` and is not answered FULLRESYNC keeps the stored offset -/
theorem offset_unchanged_before_send (resume : Bool) (w : World) (σ : Sys) (st : Stage) (h : st.reachedSend = false)
    (hnf : (syncMeta σ.s σ.t.stored σ.c).ps.full = false) :
    (attempt resume w σ st).t.stored.offset = σ.t.stored.offset := by
  have hm := run_mt w σ.s σ.t.stored σ.c σ.d
  cases st with
  | early => rfl
  | cleared => simp only [attempt]; split <;> rfl
  | relabelled => rfl
  | reset => simp only [attempt, hnf, Bool.false_eq_true, if_false]
  | metaDone => simp only [attempt, Tgt.afterMeta, hnf, Bool.false_eq_true, if_false]; cases resume <;> rfl
  | written k => simp only [attempt, Tgt.afterMeta, hm, hnf, Bool.false_eq_true, if_false]; cases resume <;> rfl
  | delivered d e k => simp [Stage.reachedSend] at h

/-- every state of the loop together with a sender's target: `base` is the target's applied list when the
    current stretch of continuations began (at `start`, or when the last snapshot replay completed), `A` what
    the lives since then added to it -/
inductive Lives6 (w : World) : List Applied → Sys → TState → Int → List Applied → Prop
  | start (σ : Sys) (T : TState) (d : Int) : Loop w σ → Coupled σ.t T d → Lives6 w T.applied σ T d []
  | reconnect (base : List Applied) (σ : Sys) (T : TState) (d : Int) (A : List Applied) :
      Lives6 w base σ T d A → Lives6 w base σ { T with cur := 0 } d A
  | quiet (base : List Applied) (σ : Sys) (T : TState) (d : Int) (A : List Applied) (resume : Bool) (st : Stage) (corrupted : Bool) :
      Lives6 w base σ T d A →
      st.fits σ.s → st.reachedSend = false → (syncMeta σ.s σ.t.stored σ.c).ps.full = false →
      Lives6 w base (if corrupted then (attempt resume w σ st).corrupted else attempt resume w σ st) T d A
  | gc (base : List Applied) (σ : Sys) (T : TState) (d : Int) (A : List Applied) (c' : Cache) :
      Lives6 w base σ T d A → Collected σ.c c' → Lives6 w base ⟨σ.s, σ.t, c', σ.d⟩ T d A
  | same (base : List Applied) (σ : Sys) (T : TState) (d : Int) (A : List Applied) (s' : Source) :
      Lives6 w base σ T d A → SourceWF s' → Agree w s' →
      s'.id1 = σ.s.id1 → s'.id2 = σ.s.id2 → Lives6 w base ⟨s', σ.t, σ.c, σ.d⟩ T d A
  /-- a snapshot (the source's own after FULLRESYNC - `syncMeta`'s ResetStartPoint has deleted the sender's
      records - or the cached one) is handed over and its replay COMPLETES: the target is whatever the replay
      makes of it (`T'`: C03/C04/C20's subject), with the position `(run id, left)` that `sendRdb` stores as its
      unique largest record (the premise); the stretch starts again from `T'.applied` -/
  | snapshot (base : List Applied) (σ : Sys) (T : TState) (d : Int) (A : List Applied) (resume : Bool)
      (tok : Id × Int) (left size e k : Int) (T' : TState) (d' : Int) :
      Lives6 w base σ T d A →
      (Psync.run w σ.s σ.t.stored σ.c σ.d).delivery = .snapshot tok left size →
      UniqueMax T'.cps d' left → 0 ≤ k → σ.s.masterOff + k ≤ maxInt64 →
      Lives6 w T'.applied (attempt resume w σ (.delivered true e k)) T' d' []
  | life (base : List Applied) (σ : Sys) (T : TState) (d0 : Int) (A : List Applied) (resume : Bool) (start : Int) (byte : Int → UInt8)
      (pc : PCfg) (sc : SCfg) (raws : List Raw) (evs : List Ev) (E E1 E2 : List Req) (o d k : Int) :
      Lives6 w base σ T d0 A →
      (Psync.run w σ.s σ.t.stored σ.c σ.d).delivery = .stream start byte →
      itemsOf evs = parserItems { pc with startDbId := d0 } start raws →
      (raws.map (·.off)).Pairwise (· < ·) → (∀ r ∈ raws, start < r.off) → C01.NoDone evs →
      ItemsNoNested false (parseAll pc { lastSent := start } raws) →
      parseFails pc { lastSent := start } raws = false →
      (∀ x ∈ raws, x.cmd = bSelect → ∀ a n, x.args = [a] → atoi? a = some n → 0 ≤ n) →
      (∀ n : Int, 0 ≤ n → mapDb pc n ≠ -1) →
      T.cur = 0 → 0 ≤ d0 →
      E <+: bodies (Sender.run sc initS evs).2 → E = E1 ++ Req.cpOffset o :: E2 → cpOffsetsB E2 = [] →
      d = (E1.foldl execReq T).cur → 0 ≤ d → 0 ≤ k → σ.s.masterOff + k ≤ maxInt64 →
      Lives6 w base (attempt resume w σ (.delivered true o k)) (E.foldl execReq T) d
        (A ++ (seqApplied d0 (itemCmds (parseAll pc { lastSent := start } (raws.filter (fun r => decide (r.off ≤ o)))))).2 ++
          (seqApplied d (dataB E2)).2)

/-- **the coupling is an invariant of the loop and the sender together**: after any number of lives,
    reconnections, failed attempts, collector passes, source moves AND completed snapshot replays in between,
    the state is a state of `Loop` (so `loop_safe` holds for the next attempt), the offset C06 stores - and
    calls the truth - is the sender's unique largest record, and the target's applied list is what it was
    when the last snapshot replay completed (or at the start) followed by, life after life, the commands of
    the stream up to the position that life stored and the overshoot the next life repeats. -/
theorem lives6_coupled (w : World) (base : List Applied) (σ : Sys) (T : TState) (d : Int) (A : List Applied)
    (h : Lives6 w base σ T d A) :
    Loop w σ ∧ Coupled σ.t T d ∧ T.applied = base ++ A := by
  induction h with
  | start σ T d hl hc => exact ⟨hl, hc, by simp⟩
  | reconnect base σ T d A _ ih => exact ⟨ih.1, ⟨ih.2.1.pos, ih.2.1.truth⟩, ih.2.2⟩
  | quiet base σ T d A resume st corrupted _ hfit hns hnf ih =>
    refine ⟨Loop.attempt σ resume st corrupted ih.1 hfit, ?_, ih.2.2⟩
    have ho := offset_unchanged_before_send resume w σ st hns hnf
    have ht := truth_unchanged_before_send resume w σ st hns
    have hc : Coupled (attempt resume w σ st).t T d := by
      refine ⟨by rw [ho]; exact ih.2.1.pos, ?_⟩
      obtain ⟨tid, htid⟩ := ih.2.1.truth
      exact ⟨tid, by rw [ht, ho]; exact htid⟩
    cases corrupted
    · exact hc
    · exact hc
  | gc base σ T d A c' _ hcol ih => exact ⟨Loop.gc σ c' ih.1 hcol, ih.2⟩
  | same base σ T d A s' _ hs' hag h1 h2 ih => exact ⟨Loop.same σ s' ih.1 hs' hag h1 h2, ih.2⟩
  | snapshot base σ T d A resume tok left size e k T' d' _ hdel hU hk hm ih =>
    refine ⟨Loop.attempt σ resume (.delivered true e k) false ih.1 ⟨hk, hm⟩, ?_, by simp⟩
    have ht : (attempt resume w σ (.delivered true e k)).t =
        ⟨⟨(Psync.run w σ.s σ.t.stored σ.c σ.d).mt.runId, left⟩, .at σ.s.id1 left⟩ := by
      simp only [attempt, Psync.step, Tgt.afterSend, hdel, if_true]
    exact ⟨by rw [ht]; exact hU, ⟨σ.s.id1, by rw [ht]⟩⟩
  | life base σ T d0 A resume start byte pc sc raws evs E E1 E2 o d k _ hdel hitems hraw hlo hnd hnn hnf hsel hmap hcur hd0 hE hsplit hlast hdd hdpos hk hm ih =>
    have := afterSend_coupled resume w σ ih.1 start byte hdel pc d0 sc raws evs hitems hraw hlo hnd hnn hnf hsel hmap
      T hcur hd0 ih.2.1 E E1 E2 o hE hsplit hlast d hdd hdpos k hk hm
    refine ⟨Loop.attempt σ resume (.delivered true o k) false ih.1 ⟨hk, hm⟩, this.1, ?_⟩
    rw [this.2.2.2.2.1, ih.2.2]
    simp only [List.append_assoc]

/-- hence the next attempt, after any number of lives and snapshots, continues exactly on the sender's record -/
theorem lives6_next_start (w : World) (base : List Applied) (σ : Sys) (T : TState) (d : Int) (A : List Applied)
    (h : Lives6 w base σ T d A)
    (start : Int) (byte : Int → UInt8) (hd : (Psync.run w σ.s σ.t.stored σ.c σ.d).delivery = .stream start byte) :
    UniqueMax T.cps d start ∧ ∃ tid, σ.t.truth = .at tid start ∧ AgreeBelow w tid σ.s.id1 start ∧
      ∀ n, start ≤ n → byte n = w.hist σ.s.id1 n := by
  obtain ⟨hl, hc, _⟩ := lives6_coupled w base σ T d A h
  obtain ⟨hs, hrest⟩ := loop_safe w σ hl start byte hd
  exact ⟨by rw [hs]; exact hc.pos, hrest⟩

/-- non-vacuity: a coupled state, a reconnection, a failed attempt that was granted a continuation; then a
    completed snapshot replay that stores (id, left) - the coupling holds again at `left` with an empty stretch -/
example (w : World) (σ : Sys) (hl : Loop w σ) (T : TState) (hc : Coupled σ.t T 5)
    (hnf : (syncMeta σ.s σ.t.stored σ.c).ps.full = false) :
    Coupled (attempt true w σ .metaDone).t { T with cur := 0 } 5 :=
  (lives6_coupled w _ _ _ _ _
    (Lives6.quiet _ σ _ 5 _ true .metaDone false (Lives6.reconnect _ σ T 5 _ (Lives6.start σ T 5 hl hc)) trivial rfl hnf)).2.1

example (w : World) (σ : Sys) (hl : Loop w σ) (T T' : TState) (hc : Coupled σ.t T 5) (tok : Id × Int) (left size : Int)
    (hd : (Psync.run w σ.s σ.t.stored σ.c σ.d).delivery = .snapshot tok left size) (hU : UniqueMax T'.cps 0 left)
    (hm : σ.s.masterOff ≤ maxInt64) :
    Coupled (attempt true w σ (.delivered true 0 0)).t T' 0 ∧ T'.applied = T'.applied ++ [] :=
  (lives6_coupled w _ _ _ _ _
    (Lives6.snapshot _ σ T 5 _ true tok left size 0 0 T' 0 (Lives6.start σ T 5 hl hc) hd hU (by omega) (by omega))).2

end GunYu.Props.C06
