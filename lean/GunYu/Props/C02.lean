/-
  C02 — A crash at any instant loses no source write; transactional mode
  repeats none.

  The proof is about ORDER ON THE WIRE. Give each forwarded data command the key
  2·(stream offset at which it ends) and each checkpoint write `<rid>_offset o`
  the key 2·o+1 (`keys`, Proofs/SenderWire.lean). `wire_ordered` shows that for
  every configuration and every schedule the key sequence the target receives is
  non-decreasing. Everything else follows from that and from MULTI/EXEC atomicity
  on the target (Model/Target.lean):

   * a command received AFTER a checkpoint write o has offset > o, and whatever
     is still queued or not yet received has offset > o: the stored position
     never covers a write (or database switch: SELECT items are commands too)
     the target has not received — so a restart, which re-reads the stream from
     the stored position, skips nothing, at ANY crash point (any wire prefix);
   * a command received BEFORE a checkpoint write o has offset ≤ o, and in
     transactional mode a command and the checkpoint write that covers it are in
     the same MULTI/EXEC block, which a crash applies entirely or not at all: a
     restart from the stored position repeats nothing.
-/
import GunYu.Proofs.SenderWire
import GunYu.Proofs.TargetSeq
import GunYu.Proofs.Crash
import GunYu.Proofs.TxnShape
import GunYu.Proofs.ResumeDb
import GunYu.Proofs.Parser
import GunYu.Proofs.Restart
import GunYu.Proofs.ResumedDb
import GunYu.Proofs.ResumedWire

namespace GunYu.Props.C02
open GunYu GunYu.Sender GunYu.Target

/-- item offsets increase along the schedule (every item is the end of a
    distinct source command), starting above `last`; only an item the sender
    does not queue -- a transaction bracket -- may repeat the offset of the item
    before it (the parser hands a bracket over from inside a filtered database
    with the offset of the last forwarded item, `Props.C01.parser_keeps_order`).
    `t` is the sender's transaction status before the schedule. -/
def SMono : Txn → Int → List Ev → Prop
  | _, _, [] => True
  | t, last, .item it :: rest =>
      last ≤ it.offset ∧
      (it.cmd ≠ bPing → forwards (txnStatus it.cmd t).1 = true → last < it.offset) ∧
      SMono (fwd1 t (.item it)).2 it.offset rest
  | t, last, _ :: rest => SMono t last rest

theorem smono_step (s : SState) (ev : Ev) (rest : List Ev) (h : SMono s.txn s.lastOffset (ev :: rest)) :
    (∀ it, ev = .item it → s.lastOffset ≤ it.offset ∧
      (it.cmd ≠ bPing → forwards (txnStatus it.cmd s.txn).1 = true → s.lastOffset < it.offset)) ∧
    SMono (fwd1 s.txn ev).2 (newLast s ev) rest := by
  cases ev with
  | item it =>
    refine ⟨?_, h.2.2⟩
    intro it' he; cases he; exact ⟨h.1, h.2.1⟩
  | batchTick => exact ⟨fun _ he => (nomatch he), h⟩
  | keepaliveTick => exact ⟨fun _ he => (nomatch he), h⟩
  | cpTick => exact ⟨fun _ he => (nomatch he), h⟩
  | done => exact ⟨fun _ he => (nomatch he), h⟩

theorem smono_of_itemsMono (t : Txn) (last : Int) (evs : List Ev) (h : ItemsMono t last (itemsOf evs)) :
    SMono t last evs := by
  induction evs generalizing t last with
  | nil => trivial
  | cons ev rest ih =>
    cases ev with
    | item it =>
      refine ⟨h.1, h.2.1, ?_⟩
      have : (fwd1 t (.item it)).2 = txnAfter t it := by
        simp only [fwd1, txnAfter]; split <;> rfl
      rw [this]; exact ih _ _ h.2.2
    | batchTick => exact ih _ _ h
    | keepaliveTick => exact ih _ _ h
    | cpTick => exact ih _ _ h
    | done => exact ih _ _ h

theorem smono_weaken {a b : Int} (t : Txn) (hab : a ≤ b) (evs : List Ev) (h : SMono t b evs) :
    SMono t a evs := by
  induction evs generalizing t with
  | nil => trivial
  | cons ev rest ih =>
    cases ev with
    | item it =>
      exact ⟨by have := h.1; omega, fun hp hf => by have := h.2.1 hp hf; omega, h.2.2⟩
    | batchTick => exact ih t h
    | keepaliveTick => exact ih t h
    | cpTick => exact ih t h
    | done => exact ih t h

/-- **The hypothesis of every theorem below is what the real parser delivers**:
    for ANY filter / mapping configuration, any source stream whose commands end
    at strictly increasing offsets above the start offset, and any schedule whose
    items are the parser's output for it, `SMono` holds. -/
theorem parser_feeds_smono (pc : PCfg) (raws : List Raw) (start : Int) (evs : List Ev)
    (hitems : itemsOf evs = parseAll pc { lastSent := start } raws)
    (hraw : (raws.map (·.off)).Pairwise (· < ·)) (hlo : ∀ r ∈ raws, start < r.off)
    (hstart : 0 ≤ start) :
    SMono initS.txn initS.lastOffset evs :=
  smono_weaken _ (by simp only [initS]; omega) evs (smono_of_itemsMono _ start evs (by
    rw [hitems]; exact parseAll_itemsMono pc raws { lastSent := start } initS.txn rfl hraw hlo))

/-- the same for a RESUMED run: `parserItems` = the optional initial `select
    <startDbId>` carrying the start offset, then the parser's output -/
theorem resumed_parser_feeds_smono (pc : PCfg) (raws : List Raw) (start : Int) (evs : List Ev)
    (hitems : itemsOf evs = parserItems pc start raws)
    (hraw : (raws.map (·.off)).Pairwise (· < ·)) (hlo : ∀ r ∈ raws, start < r.off)
    (hstart : 0 ≤ start) :
    SMono initS.txn initS.lastOffset evs := by
  apply smono_of_itemsMono
  rw [hitems]
  unfold parserItems
  have hbase := parseAll_itemsMono pc raws { lastSent := start }
  split
  · -- the initial select: queued, above the loop's initial offset −1, leaves status `barrier`
    have hsp : bSelect ≠ bPing := by decide
    simp only [List.singleton_append, ItemsMono, selectItem, initS]
    refine ⟨by omega, fun _ _ => by omega, ?_⟩
    have hta : txnAfter Txn.no { cmd := bSelect, args := [intToDec pc.startDbId], offset := start, db := pc.startDbId } = Txn.barrier := by
      simp [txnAfter, hsp, txnStatus, cmdClass]
    rw [hta]
    exact hbase Txn.barrier rfl hraw hlo
  · simp only [List.nil_append]
    have := hbase initS.txn rfl hraw hlo
    exact (by
      -- weaken the starting offset from `start` to the loop's initial −1
      have hw : ∀ (t : Txn) (a b : Int) (l : List Item), a ≤ b → ItemsMono t b l → ItemsMono t a l := by
        intro t a b l hab h
        cases l with
        | nil => trivial
        | cons i rest => exact ⟨by have := h.1; omega, fun hp hf => by have := h.2.1 hp hf; omega, h.2.2⟩
      exact hw _ _ _ _ (by simp only [initS]; omega) this)

/-- the whole run keeps the wire ordered, and bounded by what is still pending -/
theorem run_ok (c : SCfg) (s : SState) (evs : List Ev) (hq : QOk s.queue s.lastOffset)
    (hm : SMono s.txn s.lastOffset evs) :
    StepOK s.queue s.lastOffset (run c s evs).1.queue (run c s evs).1.lastOffset
      (keys (run c s evs).2) := by
  induction evs generalizing s with
  | nil => exact ⟨hq, within_nil _ _, Int.le_refl _⟩
  | cons ev rest ih =>
    obtain ⟨hlt, hrest⟩ := smono_step s ev rest hm
    have h1 := step_ok c s ev hq hlt
    simp only [run]
    split
    · exact h1
    · have hl := (step_cp c s ev).1
      have h2 := ih (step c s ev).1 h1.1 (by rw [hl, (step_data c s ev).2]; exact hrest)
      rw [keys_append]
      exact stepOK_trans h1 h2

/-- **The wire is ordered**: for every configuration, every stream with
    increasing offsets and every schedule of ticks, the key sequence is
    non-decreasing. -/
theorem wire_ordered (c : SCfg) (evs : List Ev) (hm : SMono initS.txn initS.lastOffset evs) :
    (keys (run c initS evs).2).Pairwise (· ≤ ·) :=
  (run_ok c initS evs (qok_nil _) hm).2.1.1

/-- **Nothing received after a stored position is covered by it** (no write
    skipped): wherever `<rid>_offset o` sits on the wire, every data command
    after it ends at an offset > o. -/
theorem nothing_skipped (c : SCfg) (evs : List Ev) (hm : SMono initS.txn initS.lastOffset evs)
    (A B : List Int) (o : Int) (hsplit : keys (run c initS evs).2 = A ++ (2 * o + 1) :: B) :
    ∀ y, 2 * y ∈ B → o < y := by
  intro y hy
  have h := wire_ordered c evs hm
  rw [hsplit, List.pairwise_append] at h
  have := (List.pairwise_cons.mp h.2.1).1 _ hy
  omega

/-- **Everything received before a stored position is covered by it** (no write
    repeated once the position is durable): every data command before
    `<rid>_offset o` on the wire ends at an offset ≤ o. -/
theorem nothing_left_uncovered (c : SCfg) (evs : List Ev) (hm : SMono initS.txn initS.lastOffset evs)
    (A B : List Int) (o : Int) (hsplit : keys (run c initS evs).2 = A ++ (2 * o + 1) :: B) :
    ∀ y, 2 * y ∈ A → y ≤ o := by
  intro y hy
  have h := wire_ordered c evs hm
  rw [hsplit, List.pairwise_append] at h
  have := h.2.2 _ hy (2 * o + 1) (List.mem_cons_self ..)
  omega

/-- **What is still queued is beyond every stored position**: a command the
    loop holds but has not sent (e.g. the SELECT or the commands of an open
    transaction) ends after every checkpoint offset written so far. -/
theorem pending_not_covered (c : SCfg) (evs : List Ev) (hm : SMono initS.txn initS.lastOffset evs) :
    ∀ o ∈ cpOffsets (run c initS evs).2, ∀ i ∈ (run c initS evs).1.queue, o < i.offset := by
  intro o ho i hi
  obtain ⟨hqok, hw, _⟩ := run_ok c initS evs (qok_nil _) hm
  -- the key of that checkpoint write is on the wire
  have hk : 2 * o + 1 ∈ keys (run c initS evs).2 := by
    unfold cpOffsets at ho
    unfold keys
    obtain ⟨b, hb, hob⟩ := List.mem_flatMap.mp ho
    refine List.mem_flatMap.mpr ⟨b, hb, ?_⟩
    unfold cpOffsetsB at hob
    unfold keysB
    obtain ⟨r, hr, hro⟩ := List.mem_filterMap.mp hob
    refine List.mem_filterMap.mpr ⟨r, hr, ?_⟩
    cases r <;> simp_all [cpOfReq, keyOfReq]
  have hle := (hw.2 _ hk).2
  -- lowkey of a non-empty queue is twice its head, and the head is the smallest
  cases hq : (run c initS evs).1.queue with
  | nil => rw [hq] at hi; cases hi
  | cons j q =>
    rw [hq] at hle hi hqok
    simp only [lowkey] at hle
    rcases List.mem_cons.mp hi with rfl | hiq
    · omega
    · have : j.offset < i.offset := by
        have hs := hqok.1
        simp only [List.map_cons, List.pairwise_cons] at hs
        exact hs.1 _ (List.mem_map.mpr ⟨i, hiq, rfl⟩)
      omega

/-! ### Atomicity on the target: the crash points of transactional mode -/

/-- A crash inside a MULTI/EXEC block (after MULTI and any `j` of its requests,
    before EXEC) leaves data, checkpoint and selected DB exactly as they were
    before the block: crash points inside a batch collapse to the batch
    boundary before it. -/
theorem crash_inside_block_is_boundary (done : List Batch) (hwf : AllWF done) (body : List Req)
    (hb : ∀ r ∈ body, Plain r = true) (t : TState) (hq : t.queued = none) (j : Nat)
    (hj : j ≤ body.length) :
    let before := applyLog t done.flatten
    let crashed := applyLog t (done.flatten ++ ([Req.multi] ++ body ++ [Req.exec]).take (j + 1))
    crashed.applied = before.applied ∧ crashed.cps = before.cps := by
  simp only
  have hq' := (applyLog_out done hwf t hq).1
  have : applyLog t (done.flatten ++ ([Req.multi] ++ body ++ [Req.exec]).take (j + 1)) =
      applyLog (applyLog t done.flatten) (([Req.multi] ++ body ++ [Req.exec]).take (j + 1)) := by
    simp [applyLog, List.foldl_append]
  rw [this]
  -- inside the block nothing is applied
  have htake : ([Req.multi] ++ body ++ [Req.exec]).take (j + 1) = [Req.multi] ++ body.take j := by
    simp only [List.cons_append, List.take_succ_cons, List.nil_append]
    rw [List.take_append_of_le_length hj]
  rw [htake]
  unfold applyLog
  rw [List.foldl_append]
  have h1 : [Req.multi].foldl applyReq (done.flatten.foldl applyReq t) =
      { (done.flatten.foldl applyReq t) with queued := some [] } := by
    have : (done.flatten.foldl applyReq t).queued = none := hq'
    simp [applyReq, this]
  rw [h1]
  have h2 := applyLog_queue (body.take j) (fun r hr => hb r (List.mem_of_mem_take hr))
    { (done.flatten.foldl applyReq t) with queued := some [] } [] rfl
  unfold applyLog at h2
  rw [h2]
  exact ⟨rfl, rfl⟩

/-- every offset found in the checkpoint hashes after executing `E` was either
    there before or was written by a `<rid>_offset` request of `E` -/
theorem stored_comes_from (E : List Req) (t : TState) (d : Int) (o : Int)
    (h : (getCp (E.foldl execReq t).cps d).offset = some o) :
    (getCp t.cps d).offset = some o ∨ o ∈ cpOffsetsB E := by
  induction E generalizing t with
  | nil => exact Or.inl h
  | cons r E ih =>
    rw [List.foldl_cons] at h
    rcases ih (execReq t r) h with h1 | h1
    · cases r with
      | cpOffset o' =>
        simp only [execReq] at h1
        by_cases hd : d = t.cur
        · subst hd
          rw [getCp_setCp_eq] at h1
          right; simp only at h1; simp [cpOffsetsB, cpOfReq]; left; injection h1 with h1; exact h1.symm
        · left; rw [getCp_setCp_ne _ _ _ _ hd] at h1; exact h1
      | cpMeta =>
        left
        simp only [execReq] at h1
        by_cases hd : d = t.cur
        · subst hd; rw [getCp_setCp_eq] at h1; exact h1
        · rw [getCp_setCp_ne _ _ _ _ hd] at h1; exact h1
      | cmd n a off =>
        left
        have : (execReq t (.cmd n a off)).cps = t.cps := by
          simp only [execReq]; split
          · split
            · split <;> rfl
            · rfl
          · split <;> rfl
        rw [this] at h1; exact h1
      | multi => left; exact h1
      | exec => left; exact h1
    · right
      simp only [cpOffsetsB, List.filterMap_cons] at h1 ⊢
      cases cpOfReq r <;> simp_all

/-- **A crash at any instant loses no write.** Let the target die after ANY
    number `k` of the requests of ANY run. Then the requests it executed are a
    prefix `E` of the batch bodies (`R` = what it did not execute), and every
    position `o` that this run stored on it — in whichever database — lies
    strictly below every data command (SELECT items included) it did not
    execute: restarting from a stored position re-reads every such command. -/
theorem crash_loses_no_write (c : SCfg) (evs : List Ev) (hm : SMono initS.txn initS.lastOffset evs)
    (t : TState) (hq : t.queued = none) (k : Nat) :
    let out := (run c initS evs).2
    ∃ E R, bodies out = E ++ R ∧
      SameData (applyLog t (out.flatten.take k)) (E.foldl execReq t) ∧
      ∀ o ∈ cpOffsetsB E, ∀ y, 2 * y ∈ keysB R → o < y := by
  simp only
  obtain ⟨E, ⟨R, hER⟩, hsame⟩ := crash_executes_body_prefix (run c initS evs).2
    (run_wf c initS evs) t hq k
  refine ⟨E, R, hER.symm, hsame, ?_⟩
  intro o ho y hy
  have hsorted := wire_ordered c evs hm
  rw [← keys_bodies _ (run_wf c initS evs), ← hER, keysB_append, List.pairwise_append] at hsorted
  have hk : 2 * o + 1 ∈ keysB E := by
    unfold cpOffsetsB at ho
    unfold keysB
    obtain ⟨r, hr, hro⟩ := List.mem_filterMap.mp ho
    refine List.mem_filterMap.mpr ⟨r, hr, ?_⟩
    cases r <;> simp_all [cpOfReq, keyOfReq]
  have := hsorted.2.2 _ hk _ hy
  omega

/-! ### Transactional mode: nothing executed is left uncovered (nothing repeats) -/

theorem datakey_mem {l : List Req} {y : Int} (h : 2 * y ∈ keysB l) : dataB l ≠ [] := by
  unfold keysB at h
  obtain ⟨r, hr, hk⟩ := List.mem_filterMap.mp h
  cases r with
  | cmd n a off =>
    simp only [keyOfReq] at hk
    by_cases hp : n = bPing
    · simp [hp] at hk
    · intro hnil
      have : (n, a) ∈ dataB l := by
        unfold dataB
        exact List.mem_filterMap.mpr ⟨_, hr, by simp [cmdOfReq, hp]⟩
      rw [hnil] at this; cases this
  | cpOffset o => simp only [keyOfReq] at hk; injection hk with hk; omega
  | multi => simp [keyOfReq] at hk
  | exec => simp [keyOfReq] at hk
  | cpMeta => simp [keyOfReq] at hk

theorem cpkey_mem {l : List Req} {o : Int} (h : 2 * o + 1 ∈ keysB l) : o ∈ cpOffsetsB l := by
  unfold keysB at h
  obtain ⟨r, hr, hk⟩ := List.mem_filterMap.mp h
  unfold cpOffsetsB
  refine List.mem_filterMap.mpr ⟨r, hr, ?_⟩
  cases r with
  | cmd n a off =>
    simp only [keyOfReq] at hk
    split at hk
    · cases hk
    · injection hk with hk; omega
  | cpOffset o' => simp only [keyOfReq] at hk; injection hk with hk; simp [cpOfReq]; omega
  | multi => simp [keyOfReq] at hk
  | exec => simp [keyOfReq] at hk
  | cpMeta => simp [keyOfReq] at hk

theorem keysB_sublist_keys {b : Batch} {out : List Batch} (h : b ∈ out) :
    List.Sublist (keysB b) (keys out) := by
  induction out with
  | nil => cases h
  | cons x rest ih =>
    simp only [keys, List.flatMap_cons]
    rcases List.mem_cons.mp h with rfl | h'
    · exact List.sublist_append_left _ _
    · exact (ih h').trans (List.sublist_append_right _ _)

theorem cp_bodies_of_mem {b : Batch} {l : List Batch} (hwf : AllWF l) (h : b ∈ l) :
    ∀ o ∈ cpOffsetsB b, o ∈ cpOffsetsB (bodies l) := by
  intro o ho
  induction l with
  | nil => cases h
  | cons x rest ih =>
    have hx : cpOffsetsB (stripB x) = cpOffsetsB x := by
      obtain ⟨body, _, hs, hsh⟩ := stripB_wf x (hwf x (List.mem_cons_self ..))
      rw [hs]
      rcases hsh with e | e
      · rw [e]
      · rw [e]; simp [cpOffsetsB, cpOfReq, List.filterMap_append, List.filterMap]
    simp only [bodies, List.flatMap_cons, cpOffsetsB_append]
    rcases List.mem_cons.mp h with rfl | h'
    · exact List.mem_append_left _ (by rw [hx]; exact ho)
    · exact List.mem_append_right _ (ih (fun y hy => hwf y (List.mem_cons_of_mem _ hy)) h')

/-- **Transactional mode: a crash at any instant repeats nothing.** In
    transactional, resumable mode let the target die after ANY number `k` of the
    requests of ANY run. Every data command it executed (key `2·y`) is covered
    by a checkpoint write `o ≥ y` that it executed as well — so the position the
    next start finds is at or beyond every executed command, and nothing is
    replayed twice. (With `crash_loses_no_write`: the stored position is exactly
    the boundary between executed and not executed.) -/
theorem txn_crash_repeats_nothing_prefix (c : SCfg) (hc : c.txnMode = true) (hres : c.resume = true)
    (evs : List Ev) (hm : SMono initS.txn initS.lastOffset evs) (hnn : NonNeg evs)
    (t : TState) (hq : t.queued = none) (k : Nat) :
    let out := (run c initS evs).2
    ∃ E, E <+: bodies out ∧ SameData (applyLog t (out.flatten.take k)) (E.foldl execReq t) ∧
      ∀ y, 2 * y ∈ keysB E → ∃ o ∈ cpOffsetsB E, y ≤ o := by
  simp only
  have hwf := run_wf c initS evs
  have hshape := run_shape_txn c hc hres initS (Or.inl rfl) evs hnn
  have hsorted := wire_ordered c evs hm
  obtain ⟨m, E', hsame, hE', hpre⟩ := crash_whole_batches_prefix (run c initS evs).2 hwf t hq k
  refine ⟨_, hpre, hsame, ?_⟩
  intro y hy
  rw [keysB_append] at hy
  have hwfm : AllWF ((run c initS evs).2.take m) := fun b hb => hwf b (List.mem_of_mem_take hb)
  rcases List.mem_append.mp hy with hy1 | hy2
  · -- the command sits in one of the completely executed batches
    rw [keys_bodies _ hwfm] at hy1
    obtain ⟨b, hbm, hyb⟩ := List.mem_flatMap.mp hy1
    have hb : b ∈ (run c initS evs).2 := List.mem_of_mem_take hbm
    rcases hshape b hb with hnd | ⟨_, K, o, hK⟩
    · exact absurd hnd (datakey_mem hyb)
    · have hsb : (keysB b).Pairwise (· ≤ ·) := hsorted.sublist (keysB_sublist_keys hb)
      have ho : o ∈ cpOffsetsB b := cpkey_mem (by rw [hK]; simp)
      refine ⟨o, ?_, ?_⟩
      · rw [cpOffsetsB_append]
        exact List.mem_append_left _ (cp_bodies_of_mem hwfm hbm o ho)
      · rw [hK] at hyb hsb
        rcases List.mem_append.mp hyb with h1 | h1
        · have := (List.pairwise_append.mp hsb).2.2 _ h1 (2 * o + 1) (by simp)
          omega
        · simp at h1; omega
  · -- a prefix of an unbracketed batch: such a batch carries no data
    rcases hE' with rfl | ⟨b, hb, hstrip, hpre⟩
    · simp [keysB] at hy2
    · exfalso
      rcases hshape b hb with hnd | ⟨⟨body, _, hbb⟩, _⟩
      · obtain ⟨tl, rfl⟩ := hpre
        have : 2 * y ∈ keysB (E' ++ tl) := by rw [keysB_append]; exact List.mem_append_left _ hy2
        exact datakey_mem this hnd
      · rw [hbb, stripB_block] at hstrip
        have := congrArg List.length hstrip
        simp at this
        omega

/-- `txn_crash_repeats_nothing_prefix` without the wire-prefix component -/
theorem txn_crash_repeats_nothing (c : SCfg) (hc : c.txnMode = true) (hres : c.resume = true)
    (evs : List Ev) (hm : SMono initS.txn initS.lastOffset evs) (hnn : NonNeg evs)
    (t : TState) (hq : t.queued = none) (k : Nat) :
    let out := (run c initS evs).2
    ∃ E, SameData (applyLog t (out.flatten.take k)) (E.foldl execReq t) ∧
      ∀ y, 2 * y ∈ keysB E → ∃ o ∈ cpOffsetsB E, y ≤ o := by
  obtain ⟨E, _, h1, h2⟩ := txn_crash_repeats_nothing_prefix c hc hres evs hm hnn t hq k
  exact ⟨E, h1, h2⟩

/-- **The next start resumes in the database the position was written in.** Let a
    target that held no checkpoint die after ANY number `k` of the requests of ANY
    run, and let `<rid>_offset o` be the last checkpoint write it executed
    (`E = E1 ++ [cp o] ++ E2`). Then `o` is stored in the database `d` the
    connection had selected at that write — i.e. after every forwarded SELECT that
    precedes it, and by `nothing_skipped` no SELECT that follows it is covered by
    `o` — and every other database holds a strictly smaller offset: the largest
    offset (what `GetCheckpoint` picks) identifies exactly that database. -/
theorem crash_resume_db (c : SCfg) (evs : List Ev) (hm : SMono initS.txn initS.lastOffset evs)
    (t : TState) (hfresh : t.cps = []) (k : Nat)
    (E : List Req) (hE : E <+: bodies (run c initS evs).2)
    (hsame : SameData (applyLog t ((run c initS evs).2.flatten.take k)) (E.foldl execReq t))
    (E1 E2 : List Req) (o : Int) (hsplit : E = E1 ++ Req.cpOffset o :: E2)
    (hlast : cpOffsetsB E2 = []) :
    let crashed := applyLog t ((run c initS evs).2.flatten.take k)
    let d := (E1.foldl execReq t).cur
    (getCp crashed.cps d).offset = some o ∧
    ∀ d', d' ≠ d → ∀ o', (getCp crashed.cps d').offset = some o' → o' < o := by
  simp only
  rw [hsame.2]
  obtain ⟨R, hER⟩ := hE
  have hok := run_ok c initS evs (qok_nil _) hm
  have hkeys : keysB E ++ keysB R = keys (run c initS evs).2 := by
    rw [← keysB_append, hER, keys_bodies _ (run_wf c initS evs)]
  have hsortedE : (keysB E).Pairwise (· ≤ ·) := by
    have := hok.2.1.1
    rw [← hkeys] at this
    exact (List.pairwise_append.mp this).1
  have hlow : ∀ k ∈ keysB E, 2 * (-1 : Int) ≤ k := by
    intro k hk
    have := (hok.2.1.2 k (by rw [← hkeys]; exact List.mem_append_left _ hk)).1
    simp [lowkey, initS] at this
    omega
  subst hsplit
  exact resume_db_unique E1 E2 o t hfresh hsortedE (-1) hlow hlast

/-! ### The same on a target that already holds records of earlier runs -/

/-- what the wire of a RESUMED run looks like (the hypotheses of
    `Target.resumed_unique_max`), for the real parser's items: keys ordered, every
    stored position at or above the start, and the commands begin with the initial
    `select <startDbId>` carrying the start offset (when `startDbId > 0`; if
    nothing was forwarded yet, no position was written either), everything else
    ends above the start. -/
theorem resumed_wire (c : SCfg) (pc : PCfg) (raws : List Raw) (start : Int) (evs : List Ev)
    (hitems : itemsOf evs = parserItems pc start raws)
    (hraw : (raws.map (·.off)).Pairwise (· < ·)) (hlo : ∀ r ∈ raws, start < r.off)
    (hstart : 0 ≤ start) :
    (keysB (bodies (run c initS evs).2)).Pairwise (· ≤ ·) ∧
    (∀ o ∈ cpOffsetsB (bodies (run c initS evs).2), start ≤ o) ∧
    (if 0 < pc.startDbId then
        (dataBO (bodies (run c initS evs).2) = [] ∧ cpOffsetsB (bodies (run c initS evs).2) = []) ∨
        (∃ rest, dataBO (bodies (run c initS evs).2) = (bSelect, [intToDec pc.startDbId], start) :: rest ∧
          ∀ x ∈ rest, start < x.2.2)
      else ∀ x ∈ dataBO (bodies (run c initS evs).2), start < x.2.2) := by
  have hwf := run_wf c initS evs
  have hm := resumed_parser_feeds_smono pc raws start evs hitems hraw hlo hstart
  have hbase := parseAll_itemsMono pc raws { lastSent := start }
  rw [cpOffsetsB_bodies _ hwf, dataBO_bodies _ hwf, keys_bodies _ hwf]
  -- conservation, on the schedule up to `done`
  have hcons := run_dataO c initS (cut evs)
  rw [← run_cut, fwdO_cut_items] at hcons
  have hq0 : qdO initS = [] := rfl
  rw [hq0, List.nil_append] at hcons
  have ht0 : initS.txn = Txn.no := rfl
  rw [ht0] at hcons
  have hpre := itemsOf_cut_prefix evs
  rw [hitems] at hpre
  have horigin := run_cp_origin c initS evs
  have hcpcut := run_cp_origin c initS (cut evs)
  rw [← run_cut] at hcpcut
  -- stored positions are item offsets, and those are at or above the start
  have hge : ∀ o ∈ cpOffsets (run c initS evs).2, start ≤ o := by
    intro o ho
    rcases horigin o ho with ⟨he, hp⟩ | ⟨i, hi, he⟩
    · simp only [initS] at he; omega
    · rw [hitems] at hi
      unfold parserItems at hi
      rcases List.mem_append.mp hi with h1 | h2
      · split at h1
        · simp only [List.mem_singleton] at h1; subst h1; simp [selectItem, he]
        · cases h1
      · have := itemsMono_ge (hbase .no rfl hraw hlo) i h2
        simp only at this; omega
  refine ⟨wire_ordered c evs hm, hge, ?_⟩
  · unfold parserItems at hpre
    split
    · rename_i hpos
      simp only [hpos, ↓reduceIte, List.singleton_append] at hpre
      -- the items consumed: none, or the initial select and a prefix of the parser's
      cases hi' : itemsOf (cut evs) with
      | nil =>
        left
        rw [hi'] at hcons
        simp only [fwdItemsO] at hcons
        refine ⟨(List.append_eq_nil_iff.mp hcons).1, ?_⟩
        apply List.eq_nil_iff_forall_not_mem.mpr
        intro o ho
        rcases hcpcut o ho with ⟨he, hp⟩ | ⟨i, hi, _⟩
        · simp only [initS] at he; omega
        · rw [hi'] at hi; cases hi
      | cons it more =>
        rw [hi'] at hpre hcons
        obtain ⟨hit, hmore⟩ := List.cons_prefix_cons.mp hpre
        subst hit
        have hsp : bSelect ≠ bPing := by decide
        have hF : fwdItemsO Txn.no (selectItem pc.startDbId start :: more) =
            (bSelect, [intToDec pc.startDbId], start) :: fwdItemsO Txn.barrier more := by
          simp [fwdItemsO, fwd1O, selectItem, hsp, txnStatus, cmdClass, forwards]
        rw [hF] at hcons
        have habove : ∀ x ∈ fwdItemsO Txn.barrier more, start < x.2.2 :=
          fwdItemsO_above _ _ _ (itemsMono_prefix (hbase Txn.barrier rfl hraw hlo) hmore)
        cases hd : dataOutO (run c initS evs).2 with
        | nil =>
          left
          refine ⟨rfl, ?_⟩
          rw [hd, List.nil_append] at hcons
          -- the select is still queued: every stored position is below it
          obtain ⟨i, hi, hio⟩ := qdO_mem_offset (s := (run c initS evs).1)
            (x := (bSelect, [intToDec pc.startDbId], start)) (by rw [hcons]; exact List.mem_cons_self ..)
          apply List.eq_nil_iff_forall_not_mem.mpr
          intro o ho
          have h1 := pending_not_covered c evs hm o ho i hi
          have h2 : start ≤ o := hge o ho
          simp only at hio
          omega
        | cons x xs =>
          right
          rw [hd, List.cons_append] at hcons
          injection hcons with hx hxs
          refine ⟨xs, by rw [hx], ?_⟩
          intro y hy
          exact habove y (by rw [← hxs]; exact List.mem_append_left _ hy)
    · rename_i hpos
      simp only [hpos, ↓reduceIte, List.nil_append] at hpre
      intro x hx
      have habove : ∀ x ∈ fwdItemsO Txn.no (itemsOf (cut evs)), start < x.2.2 :=
        fwdItemsO_above _ _ _ (itemsMono_prefix (hbase Txn.no rfl hraw hlo) hpre)
      exact habove x (by rw [← hcons]; exact List.mem_append_left _ hx)

/-- **The next start resumes in the database the position was written in -- on ANY
    target, at ANY restart.** Let the target hold records of earlier runs with the
    largest offset `start` in exactly one database `startDbId` (`UniqueMax`: what
    `StartPoint` read; a target without records is `crash_resume_db`), let the run
    be resumed from there (the real parser's items for any stream above `start`,
    any configuration, any schedule, on a new connection), and let the target die
    after ANY number `k` of its requests. Then either no position was written and
    every stored offset is what it was, or the last position write `o ≥ start` sits
    in the database the connection was in at that write and every other database
    holds a strictly smaller offset: `UniqueMax` again. By induction over restarts
    `GetCheckpoint` therefore never faces a tie, and the database it reports is
    the one the position was written in. -/
theorem crash_resume_db_resumed (c : SCfg) (pc : PCfg) (raws : List Raw) (start : Int) (evs : List Ev)
    (hitems : itemsOf evs = parserItems pc start raws)
    (hraw : (raws.map (·.off)).Pairwise (· < ·)) (hlo : ∀ r ∈ raws, start < r.off)
    (hstart : 0 ≤ start) (hdb : 0 ≤ pc.startDbId)
    (t : TState) (hq : t.queued = none) (hcur : t.cur = 0)
    (hu : UniqueMax t.cps pc.startDbId start) (k : Nat) :
    ∃ E, E <+: bodies (run c initS evs).2 ∧
      SameData (applyLog t ((run c initS evs).2.flatten.take k)) (E.foldl execReq t) ∧
      ((cpOffsetsB E = [] ∧
          ∀ d, (getCp (applyLog t ((run c initS evs).2.flatten.take k)).cps d).offset
            = (getCp t.cps d).offset) ∨
       (∃ E1 o E2, E = E1 ++ Req.cpOffset o :: E2 ∧ cpOffsetsB E2 = [] ∧ start ≤ o ∧
          UniqueMax (applyLog t ((run c initS evs).2.flatten.take k)).cps
            (E1.foldl execReq t).cur o)) := by
  obtain ⟨E, hE, hsame⟩ := crash_executes_body_prefix (run c initS evs).2 (run_wf c initS evs) t hq k
  obtain ⟨hs, hcp, hdata⟩ := resumed_wire c pc raws start evs hitems hraw hlo hstart
  refine ⟨E, hE, hsame, ?_⟩
  rw [hsame.2]
  exact resumed_unique_max _ t pc.startDbId start hu hcur hdb hs hcp hdata E hE

/-- the unique maximum is preserved in both cases of `crash_resume_db_resumed`:
    whatever the crash point, the next `GetCheckpoint` finds exactly one database -/
theorem resumed_crash_keeps_unique_max (c : SCfg) (pc : PCfg) (raws : List Raw) (start : Int)
    (evs : List Ev) (hitems : itemsOf evs = parserItems pc start raws)
    (hraw : (raws.map (·.off)).Pairwise (· < ·)) (hlo : ∀ r ∈ raws, start < r.off)
    (hstart : 0 ≤ start) (hdb : 0 ≤ pc.startDbId)
    (t : TState) (hq : t.queued = none) (hcur : t.cur = 0)
    (hu : UniqueMax t.cps pc.startDbId start) (k : Nat) :
    ∃ d o, start ≤ o ∧ UniqueMax (applyLog t ((run c initS evs).2.flatten.take k)).cps d o := by
  obtain ⟨E, _, _, h⟩ := crash_resume_db_resumed c pc raws start evs hitems hraw hlo hstart hdb t hq hcur hu k
  rcases h with ⟨_, hsame⟩ | ⟨E1, o, E2, _, _, ho, hum⟩
  · exact ⟨pc.startDbId, start, Int.le_refl _,
      by rw [hsame]; exact hu.1, fun d' hd' o' h' => hu.2 d' hd' o' (by rw [← hsame]; exact h')⟩
  · exact ⟨_, o, ho, hum⟩

/-- the checkpoint offset is written into the database the connection is in -/
theorem cp_lands_in_current_db (t : TState) (o : Int) :
    (getCp (execReq t (.cpOffset o)).cps t.cur).offset = some o ∧
    (execReq t (.cpOffset o)).cur = t.cur := by
  simp [execReq, getCp, setCp]

/-! Non-vacuity: transactional run with a SELECT barrier and a transaction;
    the key sequence is sorted, commands and checkpoints interleaved. -/
def exCfg : SCfg := { txnMode := true, resume := true, batchCount := 2, batchBytes := 1000 }
def exEvs : List Ev :=
  [ .item { cmd := [115,101,116], args := [[97],[98]], offset := 1030, db := 0 },
    .item { cmd := bSelect, args := [[49]], offset := 1053, db := 1 },
    .keepaliveTick,
    .item { cmd := bMulti, args := [], offset := 1068, db := 1 },
    .item { cmd := [115,101,116], args := [[99],[100]], offset := 1095, db := 1 },
    .item { cmd := bExec, args := [], offset := 1109, db := 1 } ]

example : SMono initS.txn initS.lastOffset exEvs := by
  simp [SMono, exEvs, initS, fwd1, forwards, txnStatus, cmdClass]
example : NonNeg exEvs := by simp [NonNeg, exEvs]
example : exCfg.txnMode = true ∧ exCfg.resume = true := ⟨rfl, rfl⟩
example : keys (run exCfg initS exEvs).2 = [2060, 2061, 2106, 2107, 2107, 2190, 2219] := by decide +kernel

/-! ### The restart itself (parser / specification level)

The per-run theorems above say what a stored position covers. These two say what
the RESUMED run does: a fresh parser (it has forgotten the database and any
filter state) that starts at a stored offset and first re-selects the database
the position was found in executes exactly the rest of the one-pass
specification `specStream` of C01 -- nothing skipped, nothing repeated, every
resumed command in the database the source intended. The cut may be after ANY
command the parser handed over with its own offset; the offsets the sender
stores are such offsets or the start offset (`stored_comes_from`; a bracket
handed over inside a filtered database carries an earlier such offset,
`Props.C01.bypass_forwards_only_brackets`). That the database a position is
found in is the connection's database at the cut is `cp_lands_in_current_db` /
`crash_resume_db`; that link and the choice of the maximum by the real
GetCheckpoint are exercised on the real code by the resumed-run monitor. -/

theorem restart_completes_spec (c : PCfg) (s0 : PState) (cur0 : Int) (pre : List Raw) (r : Raw)
    (r2 : List Raw) (i : Item) (o : Int)
    (hnf : parseFails c s0 (pre ++ [r]) = false)
    (hemit : (parseStep c (parseState c s0 pre) r).2 = POut.emit i)
    (hown : passBracket (parseState c s0 pre) r.cmd = false)
    (hinv0 : s0.currentDB = cur0 ∨ s0.currentDB = -1)
    (hsel : ∀ x ∈ (pre ++ [r]) ++ r2, x.cmd = bSelect → ∀ a n, x.args = [a] → atoi? a = some n → 0 ≤ n)
    (hmap : ∀ n : Int, 0 ≤ n → mapDb c n ≠ -1)
    (hd : c.startDbId = (seqApplied cur0 (itemCmds (parseAll c s0 (pre ++ [r])))).1)
    (hd0 : 0 ≤ c.startDbId) :
    specStream c s0.bypass cur0 ((pre ++ [r]) ++ r2) =
      (seqApplied cur0 (itemCmds (parseAll c s0 (pre ++ [r])))).2 ++
      (seqApplied 0 (itemCmds (parserItems c o r2))).2 :=
  Sender.restart_completes_spec c s0 cur0 pre r r2 i o hnf hemit hown hinv0 hsel hmap hd hd0

theorem restart_at_start_is_spec (c : PCfg) (r2 : List Raw) (o : Int)
    (hsel : ∀ x ∈ r2, x.cmd = bSelect → ∀ a n, x.args = [a] → atoi? a = some n → 0 ≤ n)
    (hmap : ∀ n : Int, 0 ≤ n → mapDb c n ≠ -1) (hd0 : 0 ≤ c.startDbId) :
    (seqApplied 0 (itemCmds (parserItems c o r2))).2 = specStream c false c.startDbId r2 :=
  Sender.restart_at_start_is_spec c r2 o hsel hmap hd0

/-- a command handed over with its own offset leaves the parser outside a filtered
    database: every offset the sender can store is a safe place to resume without
    any filter state -/
theorem stored_offsets_are_unbypassed (c : PCfg) (s : PState) (r : Raw) (i : Item)
    (h : (parseStep c s r).2 = POut.emit i) (hown : passBracket s r.cmd = false) :
    (parseStep c s r).1.bypass = false :=
  emit_own_offset_unbypassed c s r i h hown

/-! Non-vacuity: db 1 filtered, db 2 mapped to 5. Cut after `set a 1` (offset 50,
    connection in db 5), resume with startDbId = 5: the transaction that wanders
    through the filtered database, and the rest, are executed by the resumed run. -/
def rsPc : PCfg :=
  { filterDb := fun d => d == 1, filterCmd := fun _ => false, filterCmdKey := fun _ a => some a,
    targetDb := -1, dbMap := [(2, 5)], startDbId := 5 }
def rsPre : List Raw := [ { cmd := bSelect, args := [[50]], off := 23 } ]            -- SELECT 2 (→ 5)
def rsCut : Raw := { cmd := [115,101,116], args := [[97],[49]], off := 50 }          -- set a 1
def rsRest : List Raw :=
  [ { cmd := bSelect, args := [[49]], off := 73 },                                   -- SELECT 1 (filtered)
    { cmd := bMulti, args := [], off := 88 },
    { cmd := [115,101,116], args := [[120],[50]], off := 115 },                      -- set x 2 (bypassed)
    { cmd := bSelect, args := [[50]], off := 138 },                                  -- SELECT 2 (→ 5)
    { cmd := [100,101,108], args := [[98]], off := 160 },                            -- del b
    { cmd := bExec, args := [], off := 174 } ]
example : parseFails rsPc {} (rsPre ++ [rsCut]) = false := by decide +kernel
example : (parseStep rsPc (parseState rsPc {} rsPre) rsCut).2 =
    POut.emit { cmd := [115,101,116], args := [[97],[49]], offset := 50, db := 5 } := by decide +kernel
example : passBracket (parseState rsPc {} rsPre) rsCut.cmd = false := by decide +kernel
example : rsPc.startDbId = (seqApplied 0 (itemCmds (parseAll rsPc {} (rsPre ++ [rsCut])))).1 := by
  decide +kernel
example : (seqApplied 0 (itemCmds (parserItems rsPc 50 rsRest))).2 =
    [ { db := 5, name := [100,101,108], args := [[98]] } ] := by decide +kernel

/-! Non-vacuity of `crash_resume_db_resumed`: a target holding records of earlier
    runs (largest offset 50 in database 5, an older 23 in database 0), a run resumed
    from there whose stream moves on to database 7: the hypotheses hold, and after
    the crash the largest offset (119) sits in database 7 only. -/
def rdPc : PCfg :=
  { filterDb := fun d => d == 1, filterCmd := fun _ => false, filterCmdKey := fun _ a => some a,
    targetDb := -1, dbMap := [(2, 5), (3, 7)], startDbId := 5 }
def rdRaws : List Raw :=
  [ { cmd := [115,101,116], args := [[97],[49]], off := 73 },      -- set a 1   (db 5)
    { cmd := bSelect, args := [[51]], off := 96 },                  -- SELECT 3 (→ 7)
    { cmd := [115,101,116], args := [[98],[50]], off := 119 } ]     -- set b 2   (db 7)
def rdCfg : SCfg := { txnMode := false, resume := true, batchCount := 2, batchBytes := 1000 }
def rdEvs : List Ev := .keepaliveTick :: ((parserItems rdPc 50 rdRaws).map Ev.item ++ [.cpTick, .done])
def rdT : TState := { cps := [(5, { offset := some 50, hasRunId := true }), (0, { offset := some 23, hasRunId := true })] }
example : itemsOf rdEvs = parserItems rdPc 50 rdRaws := by decide +kernel
example : UniqueMax rdT.cps rdPc.startDbId 50 := by
  refine ⟨by decide +kernel, ?_⟩
  intro d' hd' o' h
  by_cases h0 : d' = 0
  · subst h0; have : o' = 23 := by simpa [getCp, rdT, List.lookup] using h.symm
    omega
  · exfalso
    have h5 : (d' == 5) = false := by simpa [rdPc] using hd'
    have h0' : (d' == 0) = false := by simpa using h0
    simp [getCp, rdT, List.lookup, h5, h0'] at h
example : bodies (run rdCfg initS rdEvs).2 =
      (bodies (run rdCfg initS rdEvs).2).take 7 ++ Req.cpOffset 119 :: [] ∧
    (((bodies (run rdCfg initS rdEvs).2).take 7).foldl execReq rdT).cur = 7 := by decide +kernel
example : (applyLog rdT ((run rdCfg initS rdEvs).2.flatten.take 8)).cps =
    [(7, { offset := some 119, hasRunId := true }), (5, { offset := some 50, hasRunId := true }),
     (0, { offset := some 23, hasRunId := true })] := by decide +kernel

end GunYu.Props.C02
