import GunYu.Model.Sender
import GunYu.Model.Target
namespace GunYu.Props.C02
end GunYu.Props.C02
