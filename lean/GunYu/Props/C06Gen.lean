/-
  C06 — `SendPSync`'s offset arithmetic and reply shapes REGENERATED from /repo (Gen/C06Psync.lean, written by
  harness/extract/c06psync.go on every run) and proved equal to the hand model for all inputs.

  * `gen_wireOf_eq_model`     the number sent: `if offset >= G { offset += A }` is `wireOf`
  * `gen_wireOf64_eq_model`   the same in Go's int64 (`wireOf64`)
  * `gen_contOff_eq_model`    `+CONTINUE`: the offset returned is the model's (`sendPSync … .off`, `sendPSync64`)
  * `gen_reply_shape`         the words and fields of the two replies are the ones the model's `Reply` was
                              written for (`continue [id]`, `fullresync <id> <offset>` parsed base 10 into int64)
-/
import GunYu.Gen.C06Psync
import GunYu.Props.C06Att

namespace GunYu.Props.C06
open GunYu GunYu.Psync

theorem gen_wireOf_eq_model (off : Int) : Gen.C06Psync.wireOf off = wireOf off := rfl

theorem gen_wireOf64_eq_model (off : Int) :
    (if off ≥ Gen.C06Psync.wireGuard then wrap64 (off + Gen.C06Psync.wireAdd) else off) = wireOf64 off := rfl

/-- on `+CONTINUE` the code returns what the model returns, in both arithmetics -/
theorem gen_contOff_eq_model (s : Source) (id : Id) (off : Int) (nid : Id)
    (h : admitPsync s id (wireOf off) = .cont nid) :
    (sendPSync s id off).off = Gen.C06Psync.contOff (Gen.C06Psync.wireOf off) := by
  unfold sendPSync
  rw [h]
  rfl

theorem gen_contOff64_eq_model (s : Source) (id : Id) (off : Int) (nid : Id)
    (h : admitPsync s id (wireOf64 off) = .cont nid) :
    (sendPSync64 s id off).off = wrap64 (Gen.C06Psync.contOff (wireOf64 off)) := by
  unfold sendPSync64
  rw [h]
  rfl

theorem gen_reply_shape :
    Gen.C06Psync.contIdField = 1 ∧ Gen.C06Psync.fullMinFields = 3 ∧ Gen.C06Psync.fullIdField = 1 ∧
      Gen.C06Psync.fullOffField = 2 ∧ Gen.C06Psync.parseBase = 10 ∧ Gen.C06Psync.parseBits = 64 := by decide

/-- non-vacuity: a stored offset 180 is asked for as 181 and a granted continuation returns 180; "?" -1 goes out as -1 -/
example : Gen.C06Psync.wireOf 180 = 181 ∧ Gen.C06Psync.contOff (Gen.C06Psync.wireOf 180) = 180 ∧ Gen.C06Psync.wireOf (-1) = -1 := by decide

end GunYu.Props.C06
