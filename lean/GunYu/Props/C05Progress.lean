/-
  C05, memory backend — progress as safety: no reachable state leaves a copy loop
  behind the writer without a delivering step.
-/
import GunYu.Proofs.StoreMemProgress

namespace GunYu.Props.C05
open GunYu GunYu.Store

/-- **mem_tail_invariant.** After ANY operation list every indexed stream segment other
    than the writer's current one is CLOSED and NON-EMPTY: a reader that reaches the end
    of such a segment finds it closed and a successor holding bytes — it never waits on
    a segment nobody will write to. -/
theorem mem_tail_invariant (l m : Nat) (ops : List MOp) : TailInv ((Mem.init l m).run ops) :=
  run_tail _ ops (MemInv.init l m) (TailInv.init l m)

/-- **mem_reader_delivers_next.** After ANY operation list, a started copy loop that has
    not returned, was not closed, holds an indexed segment and stands below the end of
    what was appended, delivers at least one more byte within TWO iterations
    (`Mem.pump2`: the first delivers, or moves to the next segment and the second
    delivers). What it delivers are the appended bytes (`mem_reader_delivers` holds in
    the state after the two iterations as in every reachable state). -/
theorem mem_reader_delivers_next (l m : Nat) (ops : List MOp) (rid : Nat) :
    let s := (Mem.init l m).run ops
    ∀ r, mFindReader s.readers rid = some r → r.isAof = true → r.started = true → r.released = false →
      r.closedByUser = false → (∃ g ∈ s.segs, g.sid = r.seg) → r.pos < s.hbase + s.hist.length →
      ∃ r', mFindReader (s.pump2 rid).readers rid = some r' ∧ r.out.length < r'.out.length := by
  intro s r hf ha hst hrel hcu hg hlt
  obtain ⟨g, hg, hs⟩ := hg
  exact pump2_delivers (run_inv _ ops (MemInv.init l m)) (mem_tail_invariant l m ops) hf ha hst hrel hcu hg hs hlt

/-- the two iterations are two operations of the model: the state after them is a
    reachable state (so every global theorem applies to it) -/
theorem mem_pump2_is_two_steps (l m : Nat) (ops : List MOp) (rid : Nat) :
    ((Mem.init l m).run ops).pump2 rid = (Mem.init l m).run (ops ++ [.copyStep rid, .copyStep rid]) := by
  have : ∀ (s : Mem) (a b : List MOp), s.run (a ++ b) = (s.run a).run b := by
    intro s a
    induction a generalizing s with
    | nil => intro b; rfl
    | cons x t ih => intro b; simp only [List.cons_append, Mem.run]; exact ih _ b
  rw [this]
  simp [Mem.run, Mem.step, Mem.pump2]

/-- **mem_valid_offset_has_delivering_move.** After ANY operation list: an offset the
    log covers, below the end of what was appended, can be opened (fresh reader id), and the
    reader opened and started there delivers at least one byte within two iterations of
    its copy loop. No reachable state reports a covered offset for which no delivering
    step exists. -/
theorem mem_valid_offset_has_delivering_move (l m : Nat) (ops : List MOp) (rid off : Nat) :
    let s := (Mem.init l m).run ops
    mFindReader s.readers rid = none → (s.indexAof off).isSome = true → off < s.hbase + s.hist.length →
      (s.open rid off).2 = Out.aof off ∧
      let s2 := ((s.step (.openReader rid off)).1.step (.startReader rid)).1
      ∃ r', mFindReader (s2.pump2 rid).readers rid = some r' ∧ 0 < r'.out.length := by
  intro s hfresh hidx hlt
  obtain ⟨g, hg⟩ := Option.isSome_iff_exists.mp hidx
  have hi : MemInv s := run_inv _ ops (MemInv.init l m)
  have ht : TailInv s := mem_tail_invariant l m ops
  have hin : s.inRange (off : Int) = true := by
    unfold Mem.inRange
    simp [hg]
  let r0 : MReader := { id := rid, isAof := true, seg := g.sid, pos := off, size := 0, st := .running, started := false,
                        released := false, closedByUser := false, buf := [], bbuf := [], start := off, out := [] }
  have hopen : s.open rid off = (({ s with readers := s.readers ++ [r0] } : Mem), Out.aof off) := by
    simp [Mem.open, hfresh, hin, hg, r0]
  refine ⟨by rw [hopen], ?_⟩
  have hs1 : (s.step (.openReader rid off)).1 = ({ s with readers := s.readers ++ [r0] } : Mem) := by
    show (s.open rid off).1 = _; rw [hopen]
  have hf1 : mFindReader (s.readers ++ [r0]) rid = some r0 := by
    unfold mFindReader at hfresh ⊢
    rw [List.find?_append, hfresh]
    simp [r0]
  let r1 : MReader := { r0 with started := true }
  have hs2 : ((s.step (.openReader rid off)).1.step (.startReader rid)).1 =
      ({ s with readers := mSetReader (s.readers ++ [r0]) r1 } : Mem) := by
    rw [hs1]
    simp [Mem.step, hf1, r0, r1]
  have hi2 : MemInv ((s.step (.openReader rid off)).1.step (.startReader rid)).1 :=
    step_inv _ _ (step_inv _ _ hi)
  have ht2 : TailInv ((s.step (.openReader rid off)).1.step (.startReader rid)).1 :=
    step_tail _ _ (step_inv _ _ hi) (step_tail _ _ hi ht)
  intro s2
  have hf2 : mFindReader s2.readers rid = some r1 := by
    show mFindReader ((s.step (.openReader rid off)).1.step (.startReader rid)).1.readers rid = some r1
    rw [hs2]
    exact mFindReader_mSetReader hf1 rfl
  have hgm : g ∈ s2.segs := by
    show g ∈ ((s.step (.openReader rid off)).1.step (.startReader rid)).1.segs
    rw [hs2]
    exact (mem_indexAof_some hi.stream.contig hg).1
  have hh : s2.hbase = s.hbase ∧ s2.hist = s.hist := by
    show ((s.step (.openReader rid off)).1.step (.startReader rid)).1.hbase = _ ∧
      ((s.step (.openReader rid off)).1.step (.startReader rid)).1.hist = _
    rw [hs2]; exact ⟨rfl, rfl⟩
  obtain ⟨r', hr', hlen⟩ := pump2_delivers hi2 ht2 hf2 rfl rfl rfl rfl hgm rfl (by rw [hh.1, hh.2]; exact hlt)
  exact ⟨r', hr', by simpa [r1, r0] using hlen⟩

/-! ### non-vacuity: the reader stands at the end of a closed segment; the first
    iteration moves it to the successor, the second delivers -/

def exPumpOps : List MOp :=
  [ .setRunId "id1", .newAofWriter 100, .aofAppend [1,2,3,4,5,6,7,8],
    .openReader 0 100, .startReader 0, .copyStep 0, .aofAppend [9,10,11] ]

example : ((Mem.init 8 0).run exPumpOps).segs.map (fun g => (g.sid, g.left, g.data.length, g.closed)) =
    [(0, 100, 8, true), (1, 108, 3, false)] := by decide
example : ((Mem.init 8 0).run exPumpOps).readers.map (fun r => (r.seg, r.pos, r.out)) =
    [(0, 108, [1,2,3,4,5,6,7,8])] := by decide
example : (((Mem.init 8 0).run exPumpOps).pump2 0).readers.map (fun r => (r.seg, r.pos, r.out)) =
    [(1, 111, [1,2,3,4,5,6,7,8,9,10,11])] := by decide

end GunYu.Props.C05
