/-
  C01 / C02 / C07 / C09 — the DECISIONS of the `sendCmdsBatch` loop, REGENERATED from
  syncer/output.go on every run (harness/extract/c01guards.go → Gen/SenderGuards.lean),
  are the ones the hand model `Model/Sender.lean` / `Model/SenderMem.lean` uses. An edit
  of one of these conditions in /repo (`>` for `>=` in the batch-limit test, a dropped
  `!inTransaction`, `lastOffset <= 0` in the D4 guard, `shouldUpdateCP || …` in setMemCP)
  changes the generated definition and breaks the equivalence proof below.
-/
import GunYu.Gen.SenderGuards
import GunYu.Proofs.SenderMem

namespace GunYu.Props.C01
open GunYu GunYu.Sender

/-- the batch-limit test at the end of every iteration (`tail`; `Proofs/SenderMem.lean`
    `tail_hit` / `tail_flag` / `tail_none` state `tail` through `sizeHit`) -/
theorem gen_sgSize_eq_model (c : SCfg) (s : SState) :
    Gen.sgSize s.needFlush s.inTxn s.queue.length c.batchCount s.qbytes c.batchBytes = sizeHit c s := by
  simp only [Gen.sgSize, sizeHit, ge_iff_le, Int.ofNat_le]

theorem isEmpty_eq_length (q : List Item) : q.isEmpty = decide ((q.length : Int) = 0) := by
  cases q with
  | nil => simp
  | cons a r =>
    simp only [List.isEmpty_cons, List.length_cons]
    symm
    simp only [decide_eq_false_iff_not]
    omega

/-- case `<-batchTicker.C` -/
theorem gen_sgBatchTick_eq_model (s : SState) :
    Gen.sgBatchTick s.needFlush s.inTxn s.queue.length = (!s.needFlush && !s.inTxn && !s.queue.isEmpty) := by
  cases h : s.queue <;> simp [Gen.sgBatchTick]

theorem gen_step_batchTick (c : SCfg) (s : SState) :
    step c s .batchTick =
      tail c (if Gen.sgBatchTick s.needFlush s.inTxn s.queue.length then { s with needFlush := true } else s)
        c.txnMode (c.resume && c.txnMode) [] := by
  rw [gen_sgBatchTick_eq_model]; rfl

/-- case `<-keepaliveTicker.C` -/
theorem gen_sgKeepalive_eq_model (s : SState) :
    Gen.sgKeepalive s.inTxn s.needFlush = (!s.inTxn && !s.needFlush) := rfl

theorem gen_sgKeepaliveEmpty_eq_model (s : SState) :
    Gen.sgKeepaliveEmpty s.queue.length = s.queue.isEmpty := by
  rw [isEmpty_eq_length]; rfl

theorem gen_step_keepaliveTick (c : SCfg) (s : SState) :
    step c s .keepaliveTick =
      if Gen.sgKeepalive s.inTxn s.needFlush then
        (if Gen.sgKeepaliveEmpty s.queue.length then
          tail c { s with queue := [pingItem s.lastOffset], needFlush := true } false (c.resume && c.txnMode) []
        else tail c { s with needFlush := true } c.txnMode (c.resume && c.txnMode) [])
      else tail c s c.txnMode (c.resume && c.txnMode) [] := by
  rw [gen_sgKeepalive_eq_model, gen_sgKeepaliveEmpty_eq_model]; rfl

/-- cases `<-updateCpTicker.C` and `<-replayWait.Done()` -/
theorem gen_step_cpTick (c : SCfg) (s : SState) :
    step c s .cpTick =
      if Gen.sgCpTick s.inTxn c.txnMode then tail c { s with needFlush := true } c.txnMode true []
      else tail c s c.txnMode (c.resume && c.txnMode) [] := rfl

theorem gen_step_done (c : SCfg) (s : SState) :
    step c s .done =
      if Gen.sgDone s.inTxn c.txnMode then tail c { s with needFlush := true } c.txnMode true []
      else tail c s c.txnMode (c.resume && c.txnMode) [] := rfl

/-- `setMemCP` behind the D4 guard: the condition of `memOnce` (`upG` = Go's shouldUpdateCP at the call) -/
theorem gen_memOnce_eq_model (c : SCfg) (s : SState) (upG : Bool) (off : Int) (m : Mem) :
    memOnce c s upG off m =
      if Gen.sgMem (upG && !Gen.sgD4 off) c.resume then { off := off, db := dbAfter s.connDb s.queue } else m := by
  unfold memOnce Gen.sgMem Gen.sgD4
  have : (!decide (off < (0 : Int))) = decide (0 ≤ off) := by
    by_cases h : off < 0 <;> simp [h] <;> omega
  rw [this]

/-- the early return of `sendFuncOnce` on an empty queue: the first test of `sendOnce`
    (the model folds `EnableResumeFromBreakPoint` into the flag it passes: `upG && c.resume`) -/
theorem gen_sgEarly_eq_model (c : SCfg) (s : SState) (tb upG : Bool) (off : Int) :
    Gen.sgEarly s.queue.length tb (upG && !Gen.sgD4 off) c.resume =
      (s.queue.isEmpty && tb && !((upG && c.resume) && decide (0 ≤ off))) := by
  rw [isEmpty_eq_length]
  unfold Gen.sgEarly Gen.sgD4
  have : (!decide (off < (0 : Int))) = decide (0 ≤ off) := by
    by_cases h : off < 0 <;> simp [h] <;> omega
  rw [this]
  cases upG <;> cases c.resume <;> cases tb <;> simp

/-! non-vacuity: the generated batch-limit test on concrete values -/
example : Gen.sgSize false false 2 2 0 1000 = true := by decide
example : Gen.sgSize false true 5 2 0 1000 = false := by decide
example : Gen.sgD4 (-1) = true ∧ Gen.sgD4 0 = false := by decide

end GunYu.Props.C01
