/-
  C06 — the truth of the target after a `Send`, DERIVED from the sender's theorems.

  `Tgt.afterSend` (Model/Psync.lean §7) sets, for a log delivery that starts at `start`,
  the stored position to `e` and the truth of the target to `.at id1 e` ("history id1
  applied up to e") for a free parameter `e`. Until now that the two coincide was an
  assumption on the sender (C01/C07). Here it is a consequence of the sender's own
  theorems over the sender's own models (Model/Sender.lean, Model/Target.lean):

  * `AppliedUpTo` says what `.at id1 o` means on the sender's target: the one-pass
    specification of the whole decoded stream is `P ++ spec(stream after o)`, `P` executed
    in order, whatever else was executed being life-by-life overshoots that the next run
    repeats (`C02.Replayed`);
  * `send_position_is_truth` (from `C02.lives_lose_nothing`, any number of sender lives with
    any configuration, schedule and crash point, resumed by the real parser): the offset `o`
    that `StartPoint` reads afterwards (`C02.StartsAt`) satisfies `start ≤ o` and
    `AppliedUpTo … o` - the stored offset IS what the target holds;
  * `stored_is_boundary` (C07 `stored_position_is_command_end`): within a run every stored
    offset is `start` or the end of a delivered command;
  * `afterSend_coupled` (the derivation, one resumed life): C06's bookkeeping and the sender's
    target are `Coupled` through the position (the sender's unique largest record IS C06's stored
    offset, which C06 calls the truth); one resumed life of the sender (C02 `life_step`, resume
    mode: `UniqueMax`, any configuration / schedule / executed wire prefix) on the stream decoded
    from the reader's start keeps them coupled at the new position `o`, the loop invariant holds,
    and the specification splits at `o` on the sender's side;
  * `sender_lives_beside_attempt`: C02 `lives_lose_nothing` (many lives, but from a target WITHOUT
    any position) put beside the attempt - a juxtaposition, kept for the in-memory / first-run case.

  What stays a parameter: that `raws` IS the decoding of the bytes the reader delivers
  (C12's decoder: offsets = bytes consumed) - the theorem holds for every `raws` above `start`.
-/
import GunYu.Props.C06Loop
import GunYu.Props.C02Lives
import GunYu.Props.C07Source

namespace GunYu.Props.C06
open GunYu GunYu.Psync

/-- what "the target holds the stream up to `o`" means for the sender's target `T` (started
    as `t0`), `d` the database the position is found in -/
def AppliedUpTo (pc : Sender.PCfg) (raws : List Sender.Raw) (t0 T : Target.TState) (o d : Int) : Prop :=
  ∃ P Q, T.applied = t0.applied ++ Q ∧ List.Sublist P Q ∧
    Sender.specStream pc false 0 raws = P ++ Sender.specStream pc false d (raws.filter (fun r => decide (o < r.off))) ∧
    C02.Replayed (Sender.specStream pc false 0 raws) P Q

/-- the hypotheses of the sender's theorems: on the decoded source stream and the configuration only -/
structure StreamOK (pc : Sender.PCfg) (raws : List Sender.Raw) (start : Int) : Prop where
  sorted : (raws.map (·.off)).Pairwise (· < ·)
  above : ∀ r ∈ raws, start < r.off
  nonneg : 0 ≤ start
  nest : Sender.RawNoNested false raws
  pass : ∀ r ∈ raws, (r.cmd = Sender.bMulti ∨ r.cmd = Sender.bExec) →
    pc.filterCmd r.cmd = false ∧ (pc.filterCmdKey r.cmd r.args).isSome
  parses : Sender.parseFails pc { lastSent := start } raws = false
  sel : ∀ x ∈ raws, x.cmd = Sender.bSelect → ∀ a n, x.args = [a] → Sender.atoi? a = some n → 0 ≤ n
  map : ∀ n : Int, 0 ≤ n → 0 ≤ Sender.mapDb pc n

/-- **the position the sender leaves is what its target holds** - after any number of lives -/
theorem send_position_is_truth (pc : Sender.PCfg) (raws : List Sender.Raw) (start : Int) (t0 : Target.TState) (txn : Bool)
    (hok : StreamOK pc raws start) (hno : C02.NoOffsets t0.cps)
    (T : Target.TState) (o d : Int) (h : C02.Lives pc raws start t0 txn T o d) :
    C02.StartsAt T.cps start o d ∧ start ≤ o ∧ AppliedUpTo pc raws t0 T o d := by
  obtain ⟨h1, h2, _, P, Q, h4, h5, h6, _, h8⟩ :=
    C02.lives_lose_nothing pc raws start t0 txn hok.sorted hok.above hok.nonneg hok.nest hok.pass hok.parses hok.sel hok.map
      hno T o d h
  exact ⟨h1, h2, P, Q, h4, h5, h6, h8⟩

/-- within one run every stored offset is the start or the end of a delivered command -/
theorem stored_is_boundary (pc : Sender.PCfg) (sc : Sender.SCfg) (raws : List Sender.Raw) (start : Int)
    (evs : List Sender.Ev) (hitems : Sender.itemsOf evs = Sender.parserItems pc start raws)
    (hraw : (raws.map (·.off)).Pairwise (· < ·)) (hlo : ∀ r ∈ raws, start < r.off) :
    ∀ o ∈ Sender.cpOffsets (Sender.run sc Sender.initS evs).2, o = start ∨ ∃ r ∈ raws, r.off = o :=
  C07.stored_position_is_command_end pc sc raws start evs hitems hraw hlo

/-- what `afterSend` does for a log delivery, spelled out -/
theorem attempt_delivered_stream (resume : Bool) (w : World) (σ : Sys) (start : Int) (byte : Int → UInt8)
    (hd : (run w σ.s σ.t.stored σ.c σ.d).delivery = .stream start byte) (o k : Int) :
    (start < o → (attempt resume w σ (.delivered true o k)).t.stored.offset = o ∧
      (attempt resume w σ (.delivered true o k)).t.truth = .at σ.s.id1 o) ∧
    (o ≤ start → (attempt resume w σ (.delivered true o k)).t = σ.t.afterMeta resume (run w σ.s σ.t.stored σ.c σ.d).mt) := by
  simp only [attempt, step, Tgt.afterSend, hd]
  constructor
  · intro h
    rw [if_pos (by omega)]
    exact ⟨rfl, rfl⟩
  · intro h
    rw [if_neg (by omega)]

/-- **the attempt and the sender's lives, side by side** (NOT a derivation: the C06 conjuncts hold for
    every `o`; the sender's half starts from a target without any position, `hno`, which in resume mode
    is not the target of a continued stream - see `afterSend_coupled` for the coupled, resumed statement).
    In every state of the retry loop, a log delivery starts at
    `start` = the stored offset = what the target holds (`loop_safe`); the sender then runs - any
    number of lives, any configuration, schedule and crash point - on the stream decoded from there
    and leaves `StartPoint` reading `o`. Then: `start ≤ o`; the attempt `.delivered true o k` stores
    `o` with truth `.at id1 o` (nothing new when `o = start`); the state keeps the loop invariant,
    `Truthful` included; and `.at id1 o` holds of the sender's target in the sender's own terms. -/
theorem sender_lives_beside_attempt (resume : Bool) (w : World) (σ : Sys) (hσ : Loop w σ) (start : Int) (byte : Int → UInt8)
    (hd : (run w σ.s σ.t.stored σ.c σ.d).delivery = .stream start byte)
    (pc : Sender.PCfg) (raws : List Sender.Raw) (t0 : Target.TState) (txn : Bool)
    (hok : StreamOK pc raws start) (hno : C02.NoOffsets t0.cps)
    (T : Target.TState) (o d : Int) (hl : C02.Lives pc raws start t0 txn T o d)
    (k : Int) (hk : 0 ≤ k) (hm : σ.s.masterOff + k ≤ maxInt64) :
    start = σ.t.stored.offset ∧ start ≤ o ∧
    Inv w (attempt resume w σ (.delivered true o k)) ∧
    (start < o → (attempt resume w σ (.delivered true o k)).t.stored.offset = o ∧
      (attempt resume w σ (.delivered true o k)).t.truth = .at σ.s.id1 o) ∧
    AppliedUpTo pc raws t0 T o d ∧ C02.StartsAt T.cps start o d := by
  obtain ⟨hs1, hs2, hs3⟩ := send_position_is_truth pc raws start t0 txn hok hno T o d hl
  refine ⟨(loop_safe w σ hσ start byte hd).1, hs2, ?_, (attempt_delivered_stream resume w σ start byte hd o k).1, hs3, hs1⟩
  exact attempt_inv resume w σ _ (loop_inv w σ hσ) ⟨hk, hm⟩

/-! ### one resumed life, the two models coupled through the position -/

section CoupledSend
open GunYu.Sender GunYu.Target GunYu.Props.C02

/-- C06's bookkeeping and the sender's target describe the same position: what the sender's target
    would answer `StartPoint` with (its unique largest record, in database `d`) IS the offset C06
    holds as stored, and C06 calls exactly that offset the truth. (Resume mode: the record is on the
    target; this is `life_step`'s `UniqueMax` hypothesis, dischargeable where `NoOffsets` is not.) -/
structure Coupled (t : Tgt) (T : TState) (d : Int) : Prop where
  pos : UniqueMax T.cps d t.stored.offset
  truth : ∃ tid, t.truth = .at tid t.stored.offset

/-- **the coupling survives a Send.** In every state of the retry loop whose bookkeeping is coupled with
    a sender's target `T`, let the attempt deliver the log from `start` and the sender run ONE resumed
    life on the stream decoded from there (any configuration, any schedule, the real parser's items, a
    new connection), the target having executed ANY wire prefix `E` whose last position write is `o`
    (database `d`). Then C06's attempt `.delivered true o k` and the sender's target `E.foldl execReq T`
    are coupled again - C06 stores `o` and calls `.at id1 o` the truth, the sender's target answers
    `o` as its unique largest record - the loop invariant (`Truthful` included) holds, and what
    `.at id1 o` means is proved on the sender's side: the specification of the stream splits at `o`
    into what the target gained (plus an overshoot `X` the next run repeats) and what a run resumed
    from `(o, d)` executes. -/
theorem afterSend_coupled (resume : Bool) (w : World) (σ : Sys) (hσ : Loop w σ) (start : Int) (byte : Int → UInt8)
    (hdel : (Psync.run w σ.s σ.t.stored σ.c σ.d).delivery = .stream start byte)
    (pc : PCfg) (d0 : Int) (sc : SCfg) (raws : List Raw) (evs : List Ev)
    (hitems : itemsOf evs = parserItems { pc with startDbId := d0 } start raws)
    (hraw : (raws.map (·.off)).Pairwise (· < ·)) (hlo : ∀ r ∈ raws, start < r.off)
    (hnd : C01.NoDone evs)
    (hnn : ItemsNoNested false (parseAll pc { lastSent := start } raws))
    (hnf : parseFails pc { lastSent := start } raws = false)
    (hsel : ∀ x ∈ raws, x.cmd = bSelect → ∀ a n, x.args = [a] → atoi? a = some n → 0 ≤ n)
    (hmap : ∀ n : Int, 0 ≤ n → mapDb pc n ≠ -1)
    (T : TState) (hcur : T.cur = 0) (hd0 : 0 ≤ d0) (hc : Coupled σ.t T d0)
    (E E1 E2 : List Req) (o : Int) (hE : E <+: bodies (Sender.run sc initS evs).2)
    (hsplit : E = E1 ++ Req.cpOffset o :: E2) (hlast : cpOffsetsB E2 = [])
    (d : Int) (hdd : d = (E1.foldl execReq T).cur) (hdpos : 0 ≤ d)
    (k : Int) (hk : 0 ≤ k) (hm : σ.s.masterOff + k ≤ maxInt64) :
    Coupled (attempt resume w σ (.delivered true o k)).t (E.foldl execReq T) d ∧
    Inv w (attempt resume w σ (.delivered true o k)) ∧ start ≤ o ∧
    specStream pc false d0 raws =
      (seqApplied d0 (itemCmds (parseAll pc { lastSent := start } (raws.filter (fun r => decide (r.off ≤ o)))))).2 ++
        specStream pc false d (raws.filter (fun r => decide (o < r.off))) ∧
    (E.foldl execReq T).applied = T.applied ++
      (seqApplied d0 (itemCmds (parseAll pc { lastSent := start } (raws.filter (fun r => decide (r.off ≤ o)))))).2 ++
        (seqApplied d (dataB E2)).2 ∧
    (seqApplied d (dataB E2)).2 <+: specStream pc false d (raws.filter (fun r => decide (o < r.off))) := by
  have hinv := loop_inv w σ hσ
  obtain ⟨hs, hag, hcw, hok, _, _⟩ := hinv
  obtain ⟨hst, h0, hfull, _, _, _⟩ := stream_facts hs hcw hok hag hdel
  have hpos : UniqueMax T.cps d0 start := by rw [hst]; exact hc.pos
  have hL := life_step pc d0 sc raws start evs hitems hraw hlo (by omega) hnd hnn hnf hsel hmap T hcur hd0
    (Or.inr hpos) E E1 E2 o hE hsplit hlast d hdd hdpos
  simp only at hL
  obtain ⟨hU, hle, hspec, happ, hX⟩ := hL
  obtain ⟨hA, hB⟩ := attempt_delivered_stream resume w σ start byte hdel o k
  refine ⟨?_, attempt_inv resume w σ _ (loop_inv w σ hσ) ⟨hk, hm⟩, hle, hspec, happ, hX⟩
  by_cases hlt : start < o
  · obtain ⟨ho, htr⟩ := hA hlt
    exact ⟨by rw [ho]; exact hU, ⟨σ.s.id1, by rw [htr, ho]⟩⟩
  · have heq : o = start := by omega
    have ht := hB (by omega)
    have hoff : (σ.t.afterMeta resume (Psync.run w σ.s σ.t.stored σ.c σ.d).mt).stored.offset = σ.t.stored.offset := by
      simp only [Tgt.afterMeta, hfull, Bool.false_eq_true, if_false]
      cases resume <;> rfl
    have htruth : (σ.t.afterMeta resume (Psync.run w σ.s σ.t.stored σ.c σ.d).mt).truth = σ.t.truth := by
      simp only [Tgt.afterMeta, hfull, Bool.false_eq_true, if_false]
    refine ⟨?_, ?_⟩
    · rw [ht, hoff, ← hst, ← heq]; exact hU
    · obtain ⟨tid, htid⟩ := hc.truth
      exact ⟨tid, by rw [ht, htruth, hoff]; exact htid⟩

end CoupledSend

/-! ### non-vacuity -/

/-- the sender's side: C02's two lives (life 1 dies one command beyond the position it stored, life 2
    resumes there) satisfy the hypotheses; the position read is 160 and `AppliedUpTo … 160` holds -/
example : AppliedUpTo C02.trPc C02.trRaws C02.trT C02.lvT2 160 7 :=
  (send_position_is_truth C02.trPc C02.trRaws 0 C02.trT false
    ⟨by decide +kernel, by decide +kernel, by omega,
     by simp [Sender.RawNoNested, C02.trRaws, Sender.bSelect, Sender.bMulti, Sender.bExec], fun r _ _ => ⟨rfl, rfl⟩,
     by decide +kernel, Sender.selOK_spec C02.trRaws (by decide +kernel),
     Sender.mapDb_nonneg C02.trPc rfl (by decide +kernel)⟩
    (fun d => rfl) C02.lvT2 160 7 C02.lvLives).2.2

/-- C06's side: the loop state `l2` (target at 200 after a completed snapshot, the source at 230)
    delivers the log from 200; a sender that stored nothing yet (`Lives.init`) leaves `o = 200` -/
example : ∃ byte, (run w0 l2.s l2.t.stored l2.c l2.d).delivery = .stream 200 byte ∧
    StreamOK C02.trPc [] 200 ∧ C02.Lives C02.trPc [] 200 C02.trT false C02.trT 200 0 := by
  refine ⟨_, rfl, ⟨by simp, by simp, by omega, by simp [Sender.RawNoNested], by simp, by decide +kernel, by simp,
    Sender.mapDb_nonneg C02.trPc rfl (by decide +kernel)⟩, C02.Lives.init⟩

/-- the coupling is satisfiable on a target holding a position (C02's target after its first life:
    position 50, in database 5, unique largest record) - the hypothesis `NoOffsets` could not be met
    there. (A full instance of `afterSend_coupled` - a C06 loop state streaming from 50 together with
    C02's second life - is not spelled out; see `partial`.) -/
example : Coupled ⟨⟨[1], 50⟩, .at [1] 50⟩ C02.lvT1 5 :=
  ⟨C02.uniqueMaxB_spec _ _ _ (by decide +kernel), ⟨[1], rfl⟩⟩

end GunYu.Props.C06
