/-
  C15 — At most one instance holds a source's leader lease at any time.

  Property theorems only (helper lemmas: Proofs/Lease.lean). Quantifier: every
  list of events `campaign | renew | resign | leader | tick δ | lost call
  (script applied or not)` by any number of instances on any number of
  election keys, from any initial store contents and clock. The two Lua
  scripts are the ASTs regenerated from pkg/cluster/redis_election.go
  (Gen/LeaseScripts.lean); `cfg id` is instance `id`'s ttl in seconds.

  Assumptions (named in the evidence): one `evalLua` is atomic and the lease
  store has one authoritative clock; instance ids are distinct; ttl ≥ 1 s
  (`lease_bounds` below gives ttl ≥ 3 for every configuration `fix` accepts).
-/
import GunYu.Model.Lease
import GunYu.Proofs.Lease
import GunYu.Model.LeaseTimed
import GunYu.Proofs.LeaseTimed

namespace GunYu.Props.C15
open GunYu GunYu.Lease

/-! ### at most one holder -/

/-- For EVERY list of events, from any initial store and clock, two instances
    that both were told "leader" for `key` and whose lease (counted from their
    last successful campaign/renew) has not run out are the same instance. -/
theorem at_most_one_holder (cfg : Bytes → Nat) (hcfg : ∀ id, 1 ≤ cfg id)
    (st : Store) (now : Nat) (evs : List Ev) (key i j : Bytes)
    (hi : holder (run cfg (Sys.init st now) evs) key i)
    (hj : holder (run cfg (Sys.init st now) evs) key j) : i = j := by
  have hinv : Inv cfg (run cfg (Sys.init st now) evs) :=
    inv_run evs (inv_init cfg st now) (fun ev _ => by cases ev <;> simp [Ev.ttlOk, hcfg])
  exact holder_unique_of_inv hinv hi hj

/-- "at any time": the same at every point of the schedule -/
theorem at_most_one_holder_always (cfg : Bytes → Nat) (hcfg : ∀ id, 1 ≤ cfg id)
    (st : Store) (now : Nat) (evs : List Ev) (n : Nat) (key i j : Bytes)
    (hi : holder (run cfg (Sys.init st now) (evs.take n)) key i)
    (hj : holder (run cfg (Sys.init st now) (evs.take n)) key j) : i = j :=
  at_most_one_holder cfg hcfg st now (evs.take n) key i j hi hj

/-- a holder's value is what the lease store shows for the key, unexpired -/
theorem holder_is_in_store (cfg : Bytes → Nat) (hcfg : ∀ id, 1 ≤ cfg id)
    (st : Store) (now : Nat) (evs : List Ev) (key i : Bytes)
    (hi : holder (run cfg (Sys.init st now) evs) key i) :
    ∃ e, lookup (run cfg (Sys.init st now) evs).store (run cfg (Sys.init st now) evs).now key = some e
         ∧ e.val = i := by
  have hinv : Inv cfg (run cfg (Sys.init st now) evs) :=
    inv_run evs (inv_init cfg st now) (fun ev _ => by cases ev <;> simp [Ev.ttlOk, hcfg])
  obtain ⟨d, ht, hd⟩ := hi
  obtain ⟨e, hs, hv, hde⟩ := (hinv key i d ht).2 hd
  exact ⟨e, lookup_of_live hs (Nat.le_trans hd hde), hv⟩

/-! Non-vacuity: instances a = "a", b = "b" on key "k", ttl 3 s. -/
section examples
def exCfg : Bytes → Nat := fun _ => 3
def kK : Bytes := [107]
def iA : Bytes := [97]
def iB : Bytes := [98]
def exRun (evs : List Ev) : Sys := run exCfg (Sys.init Store.empty 5) evs

-- a wins, b is refused, both believe the right thing
example : isHolder (exRun [.campaign kK iA, .campaign kK iB]) kK iA = true := by decide
example : isHolder (exRun [.campaign kK iA, .campaign kK iB]) kK iB = false := by decide
-- a stops; 3001 ms later b takes over and a no longer counts
example : isHolder (exRun [.campaign kK iA, .tick 3001, .campaign kK iB]) kK iB = true := by decide
example : isHolder (exRun [.campaign kK iA, .tick 3001, .campaign kK iB]) kK iA = false := by decide
-- exactly at the expiry instant the key is still live: b is refused
example : (step exCfg (exRun [.campaign kK iA, .tick 3000]) (.campaign kK iB)).2 = .role .follower .ok := by decide
-- a lost-but-applied campaign of b blocks a although nobody believes to lead
example : (step exCfg (exRun [.lostCampaign kK iB true]) (.campaign kK iA)).2 = .role .follower .ok := by decide
example : isHolder (exRun [.lostCampaign kK iB true, .campaign kK iA]) kK iB = false := by decide
-- the hypothesis of the theorem is met by a state with a holder
example : holder (exRun [.campaign kK iA, .renew kK iA]) kK iA := ⟨3005, by decide, by decide⟩
end examples

/-! ### a campaign or renewal succeeds only for the current holder or when no unexpired lease exists -/

theorem success_only_holder_or_free (cfg : Bytes → Nat) (s : Sys) (key id : Bytes) (h1 : 1 ≤ cfg id) :
    ((step cfg s (.campaign key id)).2 = .role .leader .ok ↔
      (lookup s.store s.now key = none ∨ ∃ e, lookup s.store s.now key = some e ∧ e.val = id)) ∧
    ((step cfg s (.renew key id)).2 = .err .ok ↔
      (lookup s.store s.now key = none ∨ ∃ e, lookup s.store s.now key = some e ∧ e.val = id)) := by
  rcases campaign_cases s.store s.now key id (cfg id) h1 with ⟨hf, hc⟩ | ⟨⟨e, hl, hv⟩, hc⟩
  · simp only [step, hc, campaignResult, replyInt, renewResult, ↓reduceIte, true_iff]
    exact ⟨hf, hf⟩
  · simp only [step, hc, campaignResult, replyInt, renewResult, hl]
    simp [hv]

/-- otherwise the answer is "follower" (campaign) / ErrNotLeader (renew), never leader -/
theorem refused_when_foreign (cfg : Bytes → Nat) (s : Sys) (key id : Bytes) (h1 : 1 ≤ cfg id)
    (e : Entry) (hl : lookup s.store s.now key = some e) (hv : e.val ≠ id) :
    (step cfg s (.campaign key id)).2 = .role .follower .ok ∧
    (step cfg s (.renew key id)).2 = .err .notLeader ∧
    (step cfg s (.campaign key id)).1.store = s.store := by
  rcases campaign_cases s.store s.now key id (cfg id) h1 with ⟨hf, _⟩ | ⟨_, hc⟩
  · rcases hf with hf | ⟨e2, hf, hv2⟩
    · rw [hf] at hl; cases hl
    · rw [hf] at hl; cases hl; exact absurd hv2 hv
  · simp [step, hc, campaignResult, replyInt, renewResult]

-- non-vacuity: free, own, foreign
example : (step exCfg (exRun []) (.campaign kK iA)).2 = .role .leader .ok := by decide
example : (step exCfg (exRun [.campaign kK iA, .tick 2000]) (.renew kK iA)).2 = .err .ok := by decide
example : lookup (exRun [.campaign kK iA]).store (exRun [.campaign kK iA]).now kK = some ⟨iA, 3005⟩ := by decide

/-! ### a failed renewal is reported as loss of leadership -/

/-- A renewal either extends the caller's lease to a full ttl from now and
    returns nil, or — exactly when an unexpired lease of somebody else
    exists — changes nothing in the store, returns ErrNotLeader, and the
    caller no longer counts as holder. -/
theorem failed_renew_reports_loss (cfg : Bytes → Nat) (s : Sys) (key id : Bytes) (h1 : 1 ≤ cfg id) :
    ((step cfg s (.renew key id)).2 = .err .ok ∧
      (step cfg s (.renew key id)).1.store key = some ⟨id, s.now + cfg id * 1000⟩ ∧
      holder (step cfg s (.renew key id)).1 key id) ∨
    ((step cfg s (.renew key id)).2 = .err .notLeader ∧
      (∃ e, lookup s.store s.now key = some e ∧ e.val ≠ id) ∧
      (step cfg s (.renew key id)).1.store = s.store ∧
      ¬ holder (step cfg s (.renew key id)).1 key id) := by
  rcases campaign_cases s.store s.now key id (cfg id) h1 with ⟨_, hc⟩ | ⟨hf, hc⟩
  · left
    simp only [step, hc, campaignResult, replyInt, renewResult, ↓reduceIte, toldAfter, set_same,
      true_and]
    exact ⟨_, setTold_same _ _ _ _, Nat.le_add_right _ _⟩
  · right
    simp only [step, hc, campaignResult, replyInt, renewResult, toldAfter]
    simp only [show ¬ ((0:Nat) = 1) by decide, ↓reduceIte, true_and]
    refine ⟨hf, ?_⟩
    rintro ⟨d, ht, _⟩
    simp [setTold_same] at ht

-- non-vacuity: b took over after a's lease ran out; a's renewal fails and is reported
example : (step exCfg (exRun [.campaign kK iA, .tick 3001, .campaign kK iB]) (.renew kK iA)).2
    = .err .notLeader := by decide
example : isHolder (exRun [.campaign kK iA, .tick 3001, .campaign kK iB, .renew kK iA]) kK iA = false := by
  decide

/-! ### resigning releases only one's own lease -/

theorem resign_only_own (cfg : Bytes → Nat) (s : Sys) (key id : Bytes) :
    (∀ k, k ≠ key → (step cfg s (.resign key id)).1.store k = s.store k) ∧
    ((∃ e, lookup s.store s.now key = some e ∧ e.val = id) →
        lookup (step cfg s (.resign key id)).1.store s.now key = none) ∧
    (¬ (∃ e, lookup s.store s.now key = some e ∧ e.val = id) →
        (step cfg s (.resign key id)).1.store = s.store) ∧
    (step cfg s (.resign key id)).1.now = s.now := by
  simp only [step, resignCall_eq_spec]
  unfold resignSpec
  cases hl : lookup s.store s.now key with
  | none => simp
  | some e =>
    by_cases hv : e.val = id
    · simp only [hv, ↓reduceIte]
      refine ⟨fun k hk => del_other _ _ _ hk, fun _ => ?_, fun h => absurd ⟨e, rfl, hv⟩ h, trivial⟩
      simp [lookup, del_same]
    · simp only [hv, ↓reduceIte]
      refine ⟨?_, ?_, ?_, ?_⟩
      · intro _ _; trivial
      · rintro ⟨e2, h2, hv2⟩
        cases h2; exact absurd hv2 hv
      · intro _; trivial
      · trivial

/-- the same holds for a resign whose reply was lost but whose script ran -/
theorem lost_resign_only_own (cfg : Bytes → Nat) (s : Sys) (key id : Bytes) (applied : Bool) :
    (step cfg s (.lostResign key id applied)).1.store = s.store ∨
    (step cfg s (.lostResign key id applied)).1.store = (step cfg s (.resign key id)).1.store := by
  cases applied <;> simp [step]

-- non-vacuity: b's resign leaves a's lease alone; a's own resign frees the key
example : lookup (exRun [.campaign kK iA, .resign kK iB]).store 5 kK = some ⟨iA, 3005⟩ := by decide
example : lookup (exRun [.campaign kK iA, .resign kK iA]).store 5 kK = none := by decide
example : (step exCfg (exRun [.campaign kK iA, .resign kK iA]) (.campaign kK iB)).2 = .role .leader .ok := by
  decide

/-! ### an instance that stops renewing ceases to be the holder within one lease period -/

/-- After a successful campaign/renew of `id` at store time `s.now`, if `id`
    issues no further call for `key`, then whatever everybody else does, once
    the store's clock is past `s.now + ttl·1000` the instance is not a holder,
    and the store no longer shows an unexpired lease with its value. -/
theorem expiry_bound (cfg : Bytes → Nat) (s : Sys) (key id : Bytes) (h1 : 1 ≤ cfg id)
    (hok : (step cfg s (.renew key id)).2 = .err .ok)
    (evs : List Ev) (hstop : ∀ ev ∈ evs, ev.isBy key id = false)
    (hlate : s.now + cfg id * 1000 < (run cfg (step cfg s (.renew key id)).1 evs).now) :
    ¬ holder (run cfg (step cfg s (.renew key id)).1 evs) key id ∧
    ∀ e, lookup (run cfg (step cfg s (.renew key id)).1 evs).store
           (run cfg (step cfg s (.renew key id)).1 evs).now key = some e → e.val ≠ id := by
  rcases campaign_cases s.store s.now key id (cfg id) h1 with ⟨_, hc⟩ | ⟨_, hc⟩
  · have htold : (step cfg s (.renew key id)).1.told key id = some (s.now + cfg id * 1000) := by
      simp only [step, hc, campaignResult, replyInt, ↓reduceIte, toldAfter, setTold_same]
    have hbound : OwnBound (step cfg s (.renew key id)).1 key id (s.now + cfg id * 1000) := by
      intro e he _
      simp only [step, hc, set_same] at he
      cases he; exact Nat.le_refl _
    constructor
    · rintro ⟨d, ht, hd⟩
      rw [told_run_notBy cfg evs _ key id hstop, htold] at ht
      cases ht; omega
    · intro e hl hv
      obtain ⟨hs, hle⟩ := lookup_some hl
      have := ownBound_run cfg evs _ key id _ hstop hbound e hs hv
      omega
  · simp [step, hc, campaignResult, replyInt, renewResult] at hok

/-- …and until then it IS the holder, whatever the others do: between two of
    its own calls an instance counts as holder exactly while the store's clock
    is within one ttl of its last successful renewal. (What the instance DOES
    in that time — keep `RunLeader` going until an answer tells it otherwise —
    is cmd/syncer.go `clusterTicker`, see `ticker_failed_renewal_stops_leader`;
    an instance whose renewal call never returns is outside this model.) -/
theorem holder_until_deadline (cfg : Bytes → Nat) (s : Sys) (key id : Bytes) (h1 : 1 ≤ cfg id)
    (hok : (step cfg s (.renew key id)).2 = .err .ok)
    (evs : List Ev) (hstop : ∀ ev ∈ evs, ev.isBy key id = false) :
    holder (run cfg (step cfg s (.renew key id)).1 evs) key id ↔
      (run cfg (step cfg s (.renew key id)).1 evs).now ≤ s.now + cfg id * 1000 := by
  have htold : (run cfg (step cfg s (.renew key id)).1 evs).told key id
      = some (s.now + cfg id * 1000) := by
    rw [told_run_notBy cfg evs _ key id hstop]
    rcases campaign_cases s.store s.now key id (cfg id) h1 with ⟨_, hc⟩ | ⟨_, hc⟩
    · simp only [step, hc, campaignResult, replyInt, ↓reduceIte, toldAfter, setTold_same]
    · simp [step, hc, campaignResult, replyInt, renewResult] at hok
  constructor
  · rintro ⟨d, ht, hd⟩
    rw [htold] at ht; cases ht; exact hd
  · intro h; exact ⟨_, htold, h⟩

/-- same statement for a successful campaign -/
theorem expiry_bound_campaign (cfg : Bytes → Nat) (s : Sys) (key id : Bytes) (h1 : 1 ≤ cfg id)
    (hok : (step cfg s (.campaign key id)).2 = .role .leader .ok)
    (evs : List Ev) (hstop : ∀ ev ∈ evs, ev.isBy key id = false)
    (hlate : s.now + cfg id * 1000 < (run cfg (step cfg s (.campaign key id)).1 evs).now) :
    ¬ holder (run cfg (step cfg s (.campaign key id)).1 evs) key id ∧
    ∀ e, lookup (run cfg (step cfg s (.campaign key id)).1 evs).store
           (run cfg (step cfg s (.campaign key id)).1 evs).now key = some e → e.val ≠ id := by
  have hsame : (step cfg s (.campaign key id)).1 = (step cfg s (.renew key id)).1 := by simp [step]
  have hok' : (step cfg s (.renew key id)).2 = .err .ok :=
    ((success_only_holder_or_free cfg s key id h1).2).2 (((success_only_holder_or_free cfg s key id h1).1).1 hok)
  rw [hsame] at hlate ⊢
  exact expiry_bound cfg s key id h1 hok' evs hstop hlate

/-- Takeover: once the instance that stopped calling is one lease period past
    its last successful renewal, a campaign of any other instance `j` is
    answered "leader" — unless a THIRD party's unexpired lease is in the way. -/
theorem takeover_possible (cfg : Bytes → Nat) (s : Sys) (key id j : Bytes)
    (h1 : 1 ≤ cfg id) (hj : 1 ≤ cfg j)
    (hok : (step cfg s (.renew key id)).2 = .err .ok) (evs : List Ev)
    (hstop : ∀ ev ∈ evs, ev.isBy key id = false)
    (hlate : s.now + cfg id * 1000 < (run cfg (step cfg s (.renew key id)).1 evs).now) :
    (step cfg (run cfg (step cfg s (.renew key id)).1 evs) (.campaign key j)).2 = .role .leader .ok ∨
    ∃ e, lookup (run cfg (step cfg s (.renew key id)).1 evs).store
           (run cfg (step cfg s (.renew key id)).1 evs).now key = some e ∧ e.val ≠ id ∧ e.val ≠ j := by
  have hb := (expiry_bound cfg s key id h1 hok evs hstop hlate).2
  have hiff := (success_only_holder_or_free cfg (run cfg (step cfg s (.renew key id)).1 evs) key j hj).1
  cases hl : lookup (run cfg (step cfg s (.renew key id)).1 evs).store
      (run cfg (step cfg s (.renew key id)).1 evs).now key with
  | none => exact Or.inl (hiff.2 (Or.inl hl))
  | some e =>
    by_cases hv : e.val = j
    · exact Or.inl (hiff.2 (Or.inr ⟨e, hl, hv⟩))
    · exact Or.inr ⟨e, rfl, hb e hl, hv⟩

-- non-vacuity: a renews at t=5, then only others act and time passes
example : (step exCfg (exRun [.campaign kK iA]) (.renew kK iA)).2 = .err .ok := by decide
example : ∀ ev ∈ [Ev.campaign kK iB, .tick 3001, .campaign kK iB], ev.isBy kK iA = false := by decide
example : (exRun [.campaign kK iA, .renew kK iA, .campaign kK iB, .tick 3001, .campaign kK iB]).now = 3006 := by
  decide

-- takeover: nobody else around, b wins 3001 ms after a's last renewal
example : (step exCfg (exRun [.campaign kK iA, .renew kK iA, .tick 3001]) (.campaign kK iB)).2
    = .role .leader .ok := by decide

/-! ### what the instance does with the answers (cmd/syncer.go clusterTicker) -/

/-- For EVERY script of election answers — failures, late successes, calls
    that never return — every renew period, hold, observation length and
    initial deadline: when the leader's `clusterTicker` returns, the send
    instant of its last successful call lies at most `hold` back (`deadline`
    = that instant + hold), and if it has not returned within the observed
    horizon, the horizon is still inside that window. -/
theorem ticker_returns_by_deadline (R H hor : Nat) :
    ∀ (n i dl : Nat) (script : List TRes) (calls : List Nat),
      (∀ r, (tickerLeader R H hor i n dl script calls).returned = some r →
          r ≤ (tickerLeader R H hor i n dl script calls).deadline) ∧
      ((tickerLeader R H hor i n dl script calls).returned = none →
          hor < (tickerLeader R H hor i n dl script calls).deadline) := by
  have hw : ∀ (calls : List Nat) (dl : Nat),
      (∀ r, (watchdogOut calls dl hor).returned = some r → r ≤ (watchdogOut calls dl hor).deadline) ∧
      ((watchdogOut calls dl hor).returned = none → hor < (watchdogOut calls dl hor).deadline) := by
    intro calls dl
    unfold watchdogOut
    by_cases h : dl ≤ hor
    · simp only [h, ↓reduceIte]
      refine ⟨fun r hr => ?_, fun hr => ?_⟩
      · simp only [Option.some.injEq] at hr; omega
      · simp at hr
    · simp only [h, ↓reduceIte]
      refine ⟨fun r hr => ?_, fun _ => by omega⟩
      simp at hr
  intro n
  induction n with
  | zero => intro i dl script calls; simp only [tickerLeader]; exact hw calls dl
  | succ n ih =>
    intro i dl script calls
    simp only [tickerLeader]
    by_cases h1 : dl < i * R
    · simp only [h1, ↓reduceIte]; exact hw calls dl
    · simp only [h1, ↓reduceIte]
      by_cases h2 : script.headD .ok = .blk
      · simp only [h2, ↓reduceIte]; exact hw _ dl
      · simp only [h2, ↓reduceIte]
        by_cases h3 : renewErr (script.headD .ok) = .ok
        · simp only [h3, ↓reduceIte]; exact ih _ _ _ _
        · simp only [h3, ↓reduceIte]
          by_cases h4 : script.tail.headD .ok = .blk
          · simp only [h4, ↓reduceIte]; exact hw _ dl
          · simp only [h4, ↓reduceIte]
            by_cases h5 : renewErr (script.tail.headD .ok) = .ok
            · simp only [h5, ↓reduceIte]; exact ih _ _ _ _
            · simp only [h5, ↓reduceIte]
              refine ⟨fun r hr => ?_, fun hr => ?_⟩
              · simp only [Option.some.injEq] at hr; omega
              · simp at hr

/-- the same for the whole ticker: it returns within `H` of the send of the
    campaign that made it leader (`ago` before it started) or of its last
    successful renewal; this is the schedule condition `TAllowed` of the
    timed system model, for calls that answer at once or never return
    (`tickerRun`); calls of ANY duration: `tickd_leads_within_hold`
    (Props/C15Ticker.lean). -/
theorem ticker_leads_within_hold (R H ago n : Nat) (script : List TRes) :
    (∀ r, (tickerRun true R H ago n script).returned = some r →
        r ≤ (tickerRun true R H ago n script).deadline) ∧
    ((tickerRun true R H ago n script).returned = none →
        n * R + R / 2 < (tickerRun true R H ago n script).deadline) := by
  simp only [tickerRun, ↓reduceIte]
  exact ticker_returns_by_deadline R H _ n 1 _ script []

theorem tickerLeader_stops (R H hor : Nat) (hRH : R ≤ H) (k : Nat) :
    ∀ (i n dl : Nat) (a1 a2 : TRes) (rest : List TRes) (calls : List Nat),
      renewErr a1 ≠ .ok → renewErr a2 ≠ .ok → a1 ≠ .blk → a2 ≠ .blk → k < n → i * R ≤ dl →
      (tickerLeader R H hor i n dl (List.replicate k .ok ++ a1 :: a2 :: rest) calls).closed
        = some ((i + k) * R, renewErr a2) ∧
      (tickerLeader R H hor i n dl (List.replicate k .ok ++ a1 :: a2 :: rest) calls).returned
        = some ((i + k) * R) := by
  induction k with
  | zero =>
    intro i n dl a1 a2 rest calls h1 h2 b1 b2 hn hdl
    obtain ⟨m, rfl⟩ : ∃ m, n = m + 1 := ⟨n - 1, by omega⟩
    have : ¬ dl < i * R := by omega
    simp [tickerLeader, h1, h2, b1, b2, this]
  | succ k ih =>
    intro i n dl a1 a2 rest calls h1 h2 b1 b2 hn hdl
    obtain ⟨m, rfl⟩ : ∃ m, n = m + 1 := ⟨n - 1, by omega⟩
    have hlt : ¬ dl < i * R := by omega
    have := ih (i + 1) m (i * R + H) a1 a2 rest (i * R :: calls) h1 h2 b1 b2 (by omega)
      (by rw [Nat.add_mul]; omega)
    simp only [List.replicate_succ, List.cons_append, tickerLeader, List.headD_cons, hlt,
      show (TRes.ok = TRes.blk) = False by simp, show renewErr .ok = .ok from rfl, ↓reduceIte,
      List.tail_cons]
    rw [this.1, this.2, show i + 1 + k = i + (k + 1) by omega]
    exact ⟨rfl, rfl⟩

/-- A leader whose renewal fails (both attempts of one tick, whatever the
    error: ErrNotLeader or an I/O error) after `k` good ticks closes its
    syncer's wait and returns at that very tick, with that error (the lease
    timer has not fired: renew period ≤ hold, first tick inside the hold of
    the campaign). -/
theorem ticker_failed_renewal_stops_leader (R H ago k n : Nat) (a1 a2 : TRes) (rest : List TRes)
    (h1 : renewErr a1 ≠ .ok) (h2 : renewErr a2 ≠ .ok) (b1 : a1 ≠ .blk) (b2 : a2 ≠ .blk) (hk : k < n)
    (hRH : R ≤ H) (h0 : ago + R ≤ H) :
    (tickerRun true R H ago n (List.replicate k .ok ++ a1 :: a2 :: rest)).closed
      = some ((k + 1) * R, renewErr a2) ∧
    (tickerRun true R H ago n (List.replicate k .ok ++ a1 :: a2 :: rest)).returned = some ((k + 1) * R) ∧
    renewErr a2 ≠ .ok := by
  have := tickerLeader_stops R H (n * R + R / 2) hRH k 1 n (H - ago) a1 a2 rest [] h1 h2 b1 b2 hk (by omega)
  simp only [tickerRun, ↓reduceIte, this, show 1 + k = k + 1 by omega]
  exact ⟨trivial, trivial, h2⟩

/-- …and that instant lies before the deadline of the lease it last renewed
    (`k·R + T`, last success sent at tick `k`, or the campaign) whenever the
    renew period is shorter than the lease, which every fixed configuration
    satisfies (`two_renewals_within_ttl`). -/
theorem ticker_stops_before_lease_deadline (R H T ago k n : Nat) (a1 a2 : TRes) (rest : List TRes)
    (h1 : renewErr a1 ≠ .ok) (h2 : renewErr a2 ≠ .ok) (b1 : a1 ≠ .blk) (b2 : a2 ≠ .blk) (hk : k < n)
    (hRH : R ≤ H) (h0 : ago + R ≤ H) (hRT : R < T) :
    ∃ t e, (tickerRun true R H ago n (List.replicate k .ok ++ a1 :: a2 :: rest)).closed = some (t, e)
      ∧ e ≠ .ok ∧ t < k * R + T := by
  refine ⟨(k + 1) * R, renewErr a2,
    (ticker_failed_renewal_stops_leader R H ago k n a1 a2 rest h1 h2 b1 b2 hk hRH h0).1, h2, ?_⟩
  rw [Nat.add_mul]; omega

/-- A renewal that never returns: the lease timer ends the leader's ticker at
    `hold` after the send of the last successful call — it does not wait for
    the call. (Before /repo 8b531f9 the ticker never returned in this case.) -/
theorem watchdogOut_returned (calls : List Nat) (dl hor : Nat) :
    (watchdogOut calls dl hor).returned = if dl ≤ hor then some dl else none := by
  unfold watchdogOut; split <;> rfl

theorem tickerLeader_blocked (R H hor : Nat) (hRH : R ≤ H) (rest : List TRes) (k : Nat) :
    ∀ (i m dl : Nat) (calls : List Nat), k < m → i * R ≤ dl →
      (tickerLeader R H hor i m dl (List.replicate k .ok ++ .blk :: rest) calls).returned
        = if (if k = 0 then dl else (i + k - 1) * R + H) ≤ hor
          then some (if k = 0 then dl else (i + k - 1) * R + H) else none := by
  induction k with
  | zero =>
    intro i m dl calls hm hdl
    obtain ⟨m', rfl⟩ : ∃ m', m = m' + 1 := ⟨m - 1, by omega⟩
    have : ¬ dl < i * R := by omega
    simp [tickerLeader, this, watchdogOut_returned]
  | succ k ih =>
    intro i m dl calls hm hdl
    obtain ⟨m', rfl⟩ : ∃ m', m = m' + 1 := ⟨m - 1, by omega⟩
    have hlt : ¬ dl < i * R := by omega
    have := ih (i + 1) m' (i * R + H) (i * R :: calls) (by omega) (by rw [Nat.add_mul]; omega)
    simp only [List.replicate_succ, List.cons_append, tickerLeader, List.headD_cons, hlt,
      show (TRes.ok = TRes.blk) = False by simp, show renewErr .ok = .ok from rfl, ↓reduceIte,
      List.tail_cons]
    rw [this]
    by_cases hk' : k = 0
    · subst hk'; simp
    · have e2 : (i + 1 + k - 1) = (i + (k + 1) - 1) := by omega
      simp [hk', e2]

/-- A renewal that never returns: the lease timer ends the leader's ticker at
    `hold` after the send of the last successful call — it does not wait for
    the call. (Before /repo 8b531f9 the ticker never returned in this case.) -/
theorem ticker_blocked_renewal_stops_leader (R H ago k n : Nat) (rest : List TRes)
    (hk : k < n) (hRH : R ≤ H) (h0 : ago + R ≤ H) (hk0 : 0 < k) (hhor : k * R + H ≤ n * R + R / 2) :
    (tickerRun true R H ago n (List.replicate k .ok ++ .blk :: rest)).returned = some (k * R + H) := by
  have := tickerLeader_blocked R H (n * R + R / 2) hRH rest k 1 n (H - ago) [] hk (by omega)
  have hk1 : ¬ k = 0 := by omega
  have e : 1 + k - 1 = k := by omega
  simp only [tickerRun, ↓reduceIte, this, hk1, e, hhor]

-- non-vacuity (R = 1.5 s, hold 3.5 s = lease 5 s − R, campaign sent 200 ms before the ticker started)
-- two good ticks, then ErrNotLeader twice: closed and returned at 4.5 s
example : tickerRun true 1500 3500 200 6 [.ok, .ok, .notLeader, .notLeader]
    = { calls := [1500, 3000, 4500, 4500], closed := some (4500, .notLeader), returned := some 4500,
        deadline := 6500 } := by decide
-- a failed first attempt that succeeds on the retry keeps the leader running
example : (tickerRun true 1500 3500 200 3 [.err, .ok]).returned = none := by decide
-- the first renewal never returns: the lease timer ends the ticker at -200 + 3500
example : tickerRun true 1500 3500 200 6 [.blk]
    = { calls := [1500], closed := some (3300, .notLeader), returned := some 3300, deadline := 3300 } := by
  decide
-- one good renewal at 1.5 s, the next never returns: ended at 1500 + 3500
example : (tickerRun true 1500 3500 200 7 [.ok, .blk]).returned = some 5000 := by decide
-- a follower that wins closes the wait with nil (restart as leader)
example : (tickerRun false 1500 3500 200 5 [.follower, .leader]).closed = some (3000, .ok) := by decide

/-! ### at most one instance RUNS RunLeader — election calls of any duration -/

/-- For EVERY schedule of sends, script executions, answers (arbitrarily late
    or never), abandoned calls, stray executions, stops, crashes, resigns and
    clock ticks, by any number of instances on any number of keys, from any
    initial store — subject only to `TAllowed`: real time does not pass beyond
    `okSent + hold id` while instance `id` leads, with `hold id ≤ ttl` — two
    instances that both run RunLeader for `key` are the same instance. -/
theorem at_most_one_acting (cfg hold : Bytes → Nat) (hcfg : ∀ id, 1 ≤ cfg id)
    (hh : ∀ id, hold id ≤ cfg id * 1000) (st : Store) (now : Nat) (evs : List TEv)
    (hok : trunOk cfg hold (TSys.init st now) evs) (key i j : Bytes)
    (hi : ((trun cfg hold (TSys.init st now) evs).inst key i).acting = true)
    (hj : ((trun cfg hold (TSys.init st now) evs).inst key j).acting = true) : i = j := by
  have h := tinv_run hcfg hh evs (tinv_init cfg hold st now) hok
  exact holder_unique_of_inv h.1 (acting_holder hh h hi) (acting_holder hh h hj)

theorem trunOk_take (cfg hold : Bytes → Nat) (evs : List TEv) :
    ∀ (s : TSys) (n : Nat), trunOk cfg hold s evs → trunOk cfg hold s (evs.take n) := by
  induction evs with
  | nil => intro s n h; simp [trunOk]
  | cons ev rest ih =>
    intro s n h
    cases n with
    | zero => simp [trunOk]
    | succ n => simp only [List.take_succ_cons, trunOk]; exact ⟨h.1, ih _ n h.2⟩

/-- the acting intervals of two different instances are disjoint in real time:
    at NO point of the schedule do two of them lead -/
theorem acting_intervals_disjoint (cfg hold : Bytes → Nat) (hcfg : ∀ id, 1 ≤ cfg id)
    (hh : ∀ id, hold id ≤ cfg id * 1000) (st : Store) (now : Nat) (evs : List TEv)
    (hok : trunOk cfg hold (TSys.init st now) evs) (n : Nat) (key i j : Bytes)
    (hi : ((trun cfg hold (TSys.init st now) (evs.take n)).inst key i).acting = true)
    (hj : ((trun cfg hold (TSys.init st now) (evs.take n)).inst key j).acting = true) : i = j :=
  at_most_one_acting cfg hold hcfg hh st now (evs.take n) (trunOk_take cfg hold evs _ n hok) key i j hi hj

/-- an instance that leads holds the lease at the store: its value, unexpired -/
theorem acting_has_lease (cfg hold : Bytes → Nat) (hcfg : ∀ id, 1 ≤ cfg id)
    (hh : ∀ id, hold id ≤ cfg id * 1000) (st : Store) (now : Nat) (evs : List TEv)
    (hok : trunOk cfg hold (TSys.init st now) evs) (key i : Bytes)
    (hi : ((trun cfg hold (TSys.init st now) evs).inst key i).acting = true) :
    ∃ e, lookup (trun cfg hold (TSys.init st now) evs).base.store
            (trun cfg hold (TSys.init st now) evs).base.now key = some e ∧ e.val = i := by
  have h := tinv_run hcfg hh evs (tinv_init cfg hold st now) hok
  obtain ⟨d, ht, hd⟩ := acting_holder hh h hi
  obtain ⟨e, hs, hv, hde⟩ := (h.1 key i d ht).2 hd
  exact ⟨e, lookup_of_live hs (Nat.le_trans hd hde), hv⟩

/-- with the code's quantities: `H` = leaseHold on the instance's clock, `D` =
    drift of that clock against the store's over one lease, `S` = time to stop
    the syncer after the ticker returned. Enough: `H + D + S ≤ ttl` — with
    `H = ttl − renew period` (cmd/syncer.go leaseHold): `D + S ≤ renew period`. -/
theorem at_most_one_acting_with_drift (cfg H D S : Bytes → Nat) (hcfg : ∀ id, 1 ≤ cfg id)
    (hh : ∀ id, H id + D id + S id ≤ cfg id * 1000) (st : Store) (now : Nat) (evs : List TEv)
    (hok : trunOk cfg (fun id => H id + D id + S id) (TSys.init st now) evs) (key i j : Bytes)
    (hi : ((trun cfg (fun id => H id + D id + S id) (TSys.init st now) evs).inst key i).acting = true)
    (hj : ((trun cfg (fun id => H id + D id + S id) (TSys.init st now) evs).inst key j).acting = true) :
    i = j :=
  at_most_one_acting cfg _ hcfg hh st now evs hok key i j hi hj

section timedExamples
def exHold : Bytes → Nat := fun _ => 2000      -- ttl 3 s − renew period 1 s
def tRun (evs : List TEv) : TSys := trun exCfg exHold (TSys.init Store.empty 5) evs

-- the hypotheses are met by a schedule with a slow call: a campaigns at 5, the script runs at 405,
-- the answer arrives at 905; a leads; renewal sent at 1805, answered at 1905; time moves on to 3705 ≤ 1805 + 2000
def okEvs : List TEv := [.send kK iA, .tick 400, .exec kK iA, .tick 500, .answer kK iA, .tick 900,
  .send kK iA, .tick 50, .exec kK iA, .tick 50, .answer kK iA, .tick 1800]
example : ((tRun okEvs).inst kK iA).acting = true := by decide
example : ((tRun okEvs).inst kK iA).okSent = 1805 := by decide
example : (tRun okEvs).base.now = 3705 := by decide
-- an answer "leader" that arrives later than `hold` after its send does not make a leader
example : ((tRun [.send kK iA, .exec kK iA, .tick 2001, .answer kK iA]).inst kK iA).acting = false := by decide
example : trunOk exCfg exHold (TSys.init Store.empty 5) okEvs :=
  trunOk_of_B exCfg exHold [(kK, iA)] okEvs _ (fun _ _ _ => rfl) (by decide) (by decide)
end timedExamples

/-- COUNTER-WITNESS without the schedule condition: a's renewal never returns
    (sent at 1005, no answer), real time passes the end of a's lease (3005),
    b campaigns and is answered "leader": both run RunLeader. This is what the
    code did before /repo 8b531f9 (clusterTicker blocked in the call). -/
def blockedEvs : List TEv := [.send kK iA, .exec kK iA, .answer kK iA, .tick 1000, .send kK iA,
  .tick 2001, .send kK iB, .exec kK iB, .answer kK iB]

example : ((tRun blockedEvs).inst kK iA).acting = true ∧ ((tRun blockedEvs).inst kK iB).acting = true := by
  decide
-- …and it is exactly the tick past okSent + hold that `TAllowed` forbids
example : ¬ trunOk exCfg exHold (TSys.init Store.empty 5) blockedEvs := by
  intro h
  have h6 := h.2.2.2.2.2.1 kK iA (by decide)
  exact absurd h6 (by decide)

/-! ### election identity (config ServerConfig.fix + cluster-mode check) -/

/-- In cluster mode an accepted configuration contends under an address that
    was written in the configuration (listenPeer, else listen) — never under a
    built-in default — and whose host part is not empty / 0.0.0.0 / ::.
    (Little more than the definition of `electionId` read backwards; its
    content is the tie of `electionId` to the real configuration code.) -/
theorem election_id_configured (listen peer id : Bytes)
    (h : electionId true listen peer = some id) :
    ((peer ≠ [] ∧ id = peer) ∨ (peer = [] ∧ listen ≠ [] ∧ id = listen)) ∧
    ∃ host, hostOf id = some host ∧ unspecHost host = false := by
  unfold electionId at h
  simp only [↓reduceIte] at h
  by_cases hd : listen = [] ∧ peer = []
  · simp [hd] at h
  · simp only [hd, ↓reduceIte] at h
    cases hh : hostOf (peerAddr listen peer) with
    | none => simp [hh] at h
    | some host =>
      simp only [hh] at h
      by_cases hu : unspecHost host = true
      · simp [hu] at h
      · simp only [hu, Bool.false_eq_true, ↓reduceIte, Option.some.injEq] at h
        subst h
        refine ⟨?_, host, hh, by simpa using hu⟩
        unfold peerAddr
        by_cases hp : peer = []
        · have hl : listen ≠ [] := fun hl => hd ⟨hl, hp⟩
          simp [hp, hl]
        · simp [hp]

/-- Two hosts whose configured peer addresses differ contend under different
    ids: the hypothesis "ids are distinct" of `at_most_one_holder` is REDUCED
    to "the configured peer strings are distinct" (not discharged: two hosts
    given the same string, e.g. `localhost:18001`, are one contender). -/
theorem distinct_addresses_distinct_ids (l1 p1 l2 p2 i1 i2 : Bytes)
    (h1 : electionId true l1 p1 = some i1) (h2 : electionId true l2 p2 = some i2)
    (hne : (if p1 = [] then l1 else p1) ≠ (if p2 = [] then l2 else p2)) : i1 ≠ i2 := by
  obtain ⟨c1, _⟩ := election_id_configured l1 p1 i1 h1
  obtain ⟨c2, _⟩ := election_id_configured l2 p2 i2 h2
  rcases c1 with ⟨hp1, rfl⟩ | ⟨hp1, _, rfl⟩ <;> rcases c2 with ⟨hp2, rfl⟩ | ⟨hp2, _, rfl⟩ <;>
    simp_all

-- non-vacuity: default server section refused in cluster mode, accepted otherwise;
-- "1.2.3.4:1" is its own id; 0.0.0.0 / empty host / [::] refused; a host name passes
example : electionId true [] [] = none := by decide
example : electionId false [] [] = some defaultListen := by decide
example : electionId true [49,46,50,46,51,46,52,58,49] [] = some [49,46,50,46,51,46,52,58,49] := by decide
example : electionId true [49,46,50,46,51,46,52,58,49] [53,46,54,46,55,46,56,58,50] = some [53,46,54,46,55,46,56,58,50] := by decide
example : electionId true [48,46,48,46,48,46,48,58,49] [] = none := by decide
example : electionId true [58,49] [] = none := by decide
example : electionId true [] [91,58,58,93,58,49] = none := by decide
example : electionId true [] [108,111,99,97,108,104,111,115,116,58,49] = some [108,111,99,97,108,104,111,115,116,58,49] := by decide

/-! ### lease / renew bounds of the configuration -/

/-- `(*ClusterConfig).fix`: for EVERY pair of input durations,
    3 s ≤ lease ≤ 600 s and 1 s ≤ renew ≤ lease/3; the ttl handed to the lease
    store is between 3 and 600 seconds. -/
theorem renew_le_third (c : Cfg) :
    3 * second ≤ (fixCfg c).lease ∧ (fixCfg c).lease ≤ 600 * second ∧
    second ≤ (fixCfg c).renew ∧ (fixCfg c).renew ≤ (fixCfg c).lease / 3 ∧
    3 ≤ ttlSeconds (fixCfg c) ∧ ttlSeconds (fixCfg c) ≤ 600 := by
  simp only [fixCfg, ttlSeconds, second]
  split <;> split <;> split <;> (try split) <;> (try split) <;> (try split) <;> omega

/-- the ttl of every fixed configuration meets the hypothesis of
    `at_most_one_holder` -/
theorem lease_bounds (c : Cfg) : 1 ≤ (ttlSeconds (fixCfg c)).toNat := by
  have := (renew_le_third c).2.2.2.2.1
  omega

/-- a leader gets at least two renewal attempts before its lease (in whole
    seconds, as the store counts it) runs out -/
theorem two_renewals_within_ttl (c : Cfg) :
    2 * (fixCfg c).renew < ttlSeconds (fixCfg c) * second := by
  have h := renew_le_third c
  simp only [ttlSeconds, second] at h ⊢
  omega

/-- `fix` is idempotent (applying it to an already fixed configuration
    changes nothing) -/
theorem fixCfg_idem (c : Cfg) : fixCfg (fixCfg c) = fixCfg c := by
  have h := renew_le_third c
  simp only [second] at h
  generalize fixCfg c = f at h
  obtain ⟨l, r⟩ := f
  simp only at h
  simp only [fixCfg, second, Cfg.mk.injEq]
  have hl : ¬ l = 0 := by omega
  have hr : ¬ r = 0 := by omega
  have h1 : ¬ l < 3 * 1000000000 := by omega
  have h2 : ¬ l > 600 * 1000000000 := by omega
  simp only [hl, hr, h1, h2, ↓reduceIte]
  have h3 : ¬ r < 1 * 1000000000 := by omega
  have h4 : ¬ r > l / 3 := by omega
  simp only [h3, h4, ↓reduceIte, and_self]

-- non-vacuity: defaults, clamping, odd values
example : fixCfg ⟨0, 0⟩ = ⟨10 * second, 3333333333⟩ := by decide
example : fixCfg ⟨1, 5 * second⟩ = ⟨3 * second, second⟩ := by decide
example : fixCfg ⟨700 * second, 300 * second⟩ = ⟨600 * second, 200 * second⟩ := by decide
example : fixCfg ⟨-5, -5⟩ = ⟨3 * second, second⟩ := by decide
example : ttlSeconds (fixCfg ⟨3900000000, 0⟩) = 3 := by decide

end GunYu.Props.C15
