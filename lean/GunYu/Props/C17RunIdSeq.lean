/-
  C17 — `RedisOutput.SetRunId` over the life of ONE RedisOutput when the source fails over AGAIN between two
  calls (Model/BookRunIdSeq.lean `srRun`): calls with different ids in sequence, every attempt with any fate,
  including the fate `rfail` (the attempt reports an error although all its writes were applied: dial error, error
  reply to a read request - the only way an attempt with nothing left to write can fail).

  `setRunIdSeq_partial`: when every failover is learnt while the in-memory field `cfg.RunId` equals the master id
  (the call before it returned nil, `setRunIdF_nil_field`), the SAME position stays readable under the reported ids
  after any number of failovers and calls, whatever the attempts did.
  `setRunIdSeq_stmt`: the statement one wants - a failover whenever the HASH maps the master id, i.e. whenever the
  position is readable under the ids reported after it (`Reach.failover`'s own side condition) - is FALSE for the
  code as it is (`setRunIdSeq_stmt_refuted`): a call that failed after it had repointed the hash and deleted the
  old records leaves the field behind the label; the next call, `UpdateCheckpoint(key, [new id, stale field])`,
  finds no record of either id, writes the placeholder offset −1 under the new id into database 0 and repoints the
  hash to it; when the position lives in database 0 the fields of the two ids are merged by `fetchCheckpoint`
  (last field wins) and the next start reads −1: the position is lost (finding C17-F1, executed on the real code
  by op c17sq).
-/
import GunYu.Props.C17RunId
import GunYu.Model.BookRunIdSeq

namespace GunYu.Props.C17
open GunYu GunYu.Checkpoint GunYu.BookSys

theorem relabelCtl_fields (c : Ctl) (k : Nat) :
    (relabelCtl c k).key = c.key ∧ (relabelCtl c k).mas = c.mas ∧ (relabelCtl c k).sec = c.sec ∧
      (relabelCtl c k).pend = c.pend ∧ (relabelCtl c k).ids = c.ids := by
  unfold relabelCtl; split <;> exact ⟨rfl, rfl, rfl, rfl, rfl⟩

theorem retryLoopF_good (ver : Bytes) (as : List AttemptF) :
    ∀ {t : Checkpoint.Target} {c : Ctl} {X : Int} {d : Nat} (G : Good t c X d) (hp : c.pend = none)
      (runId : Bytes) (hf : FieldOK c runId) (hr : runId ≠ c.mas)
      (has : ∀ a ∈ as, d ∈ a.a.o1 ∧ (-(2^63 : Int) ≤ a.a.now ∧ a.a.now < 2^63)),
      ∃ c', Good (retryLoopF ver c.key c.mas ⟨t, runId⟩ as).1.t c' X d ∧ SameIds c c' ∧ c'.ids = c.ids ∧
        FieldOK c' (retryLoopF ver c.key c.mas ⟨t, runId⟩ as).1.runId ∧
        ((retryLoopF ver c.key c.mas ⟨t, runId⟩ as).2 = true →
          (retryLoopF ver c.key c.mas ⟨t, runId⟩ as).1.runId = c.mas ∧ c'.lab = c.mas) := by
  induction as with
  | nil =>
    intro t c X d G hp runId hf hr _
    exact ⟨c, G, ⟨rfl, rfl, rfl, hp⟩, rfl, hf, fun h => by simp [retryLoopF] at h⟩
  | cons a rest ih =>
    intro t c X d G hp runId hf hr has
    obtain ⟨ho1, hnow⟩ := has a (List.mem_cons_self ..)
    have hrest : ∀ a' ∈ rest, d ∈ a'.a.o1 ∧ (-(2^63 : Int) ≤ a'.a.now ∧ a'.a.now < 2^63) :=
      fun a' ha' => has a' (List.mem_cons_of_mem _ ha')
    by_cases hl : c.lab = c.mas
    · -- the hash already maps the master id: the attempt has nothing to write
      have hrs : runId = c.sec := by
        rcases hf with h | h
        · exact absurd (h.trans hl) hr
        · exact h.2
      have hnoop : updateReqs ver t c.key [c.mas, runId] a.a.o1 a.a.o2 a.a.now = [] := by
        rw [hrs]; exact updateReqs_noop ver a.a.o1 a.a.o2 a.a.now (hl ▸ G.hashEq)
      by_cases hfail : a.rfail = true
      · -- … and fails all the same (dial error, error reply to a read): nothing changed, the next attempt
        have : retryLoopF ver c.key c.mas ⟨t, runId⟩ (a :: rest) = retryLoopF ver c.key c.mas ⟨t, runId⟩ rest := by
          simp [retryLoopF, attemptOnceF, attemptOnce, hnoop, applyAll, hfail]
        rw [this]
        exact ih G hp runId hf hr hrest
      · have : retryLoopF ver c.key c.mas ⟨t, runId⟩ (a :: rest) = (⟨t, c.mas⟩, true) := by
          simp [retryLoopF, attemptOnceF, attemptOnce, hnoop, applyAll, hfail]
        rw [this]
        exact ⟨c, G, ⟨rfl, rfl, rfl, hp⟩, rfl, Or.inl hl.symm, fun _ => ⟨rfl, hl⟩⟩
    · have hls : c.lab = c.sec := by rcases G.ctl.lab with h | h; exact absurd h hl; exact h
      have hrs : runId = c.sec := by
        rcases hf with h | h
        · exact h.trans hls
        · exact absurd h.1 hl
      have G' := good_relabel ver G hl hp a.a.o1 a.a.o2 ho1 a.a.now hnow a.a.k
      have hlen := relabel_len ver G hl a.a.o1 a.a.o2 ho1 a.a.now hnow
      by_cases hdone : (updateReqs ver t c.key [c.mas, c.sec] a.a.o1 a.a.o2 a.a.now).length ≤ a.a.k ∧ a.rfail = false
      · -- the attempt completed
        have : retryLoopF ver c.key c.mas ⟨t, runId⟩ (a :: rest) =
            (⟨applyAll t ((updateReqs ver t c.key [c.mas, c.sec] a.a.o1 a.a.o2 a.a.now).take a.a.k), c.mas⟩, true) := by
          simp [retryLoopF, attemptOnceF, attemptOnce, hrs, hdone.1, hdone.2]
        rw [this]
        have h2 : 2 ≤ a.a.k := by omega
        have hc : relabelCtl c a.a.k = { c with lab := c.mas } := by unfold relabelCtl; rw [if_pos h2]
        rw [hc] at G'
        exact ⟨_, G', ⟨rfl, rfl, rfl, hp⟩, rfl, Or.inl rfl, fun _ => ⟨rfl, rfl⟩⟩
      · -- it failed (after `a.a.k` requests, or with all of them applied): the next attempt runs on what it left
        have hnd : (decide ((updateReqs ver t c.key [c.mas, c.sec] a.a.o1 a.a.o2 a.a.now).length ≤ a.a.k) && !a.rfail) = false := by
          by_cases h1 : (updateReqs ver t c.key [c.mas, c.sec] a.a.o1 a.a.o2 a.a.now).length ≤ a.a.k
          · have : a.rfail = true := by
              cases hr' : a.rfail
              · exact absurd ⟨h1, hr'⟩ hdone
              · rfl
            simp [this]
          · simp [h1]
        have : retryLoopF ver c.key c.mas ⟨t, runId⟩ (a :: rest) =
            retryLoopF ver c.key c.mas
              ⟨applyAll t ((updateReqs ver t c.key [c.mas, c.sec] a.a.o1 a.a.o2 a.a.now).take a.a.k), runId⟩ rest := by
          simp only [retryLoopF, attemptOnceF, attemptOnce, hrs, hnd]
          simp
        rw [this]
        have hf' : FieldOK (relabelCtl c a.a.k) runId := by
          unfold relabelCtl
          split
          · exact Or.inr ⟨rfl, hrs⟩
          · exact Or.inl (hrs.trans hls.symm)
        obtain ⟨k1, k2, k3, k4, k5⟩ := relabelCtl_fields c a.a.k
        obtain ⟨c', G'', hs, hi, hf'', hok⟩ := ih G' (k4.trans hp) runId hf' (by rw [k2]; exact hr) hrest
        rw [k1, k2] at G'' hf'' hok
        refine ⟨c', G'', ?_, hi.trans k5, hf'', hok⟩
        obtain ⟨s1, s2, s3, s4⟩ := hs
        exact ⟨s1.trans k1, s2.trans k2, s3.trans k3, s4⟩

/-- one call of `SetRunId(master id)`, attempts with any fate incl. `rfail` -/
theorem setRunIdF_good (ver : Bytes) {t : Checkpoint.Target} {c : Ctl} {X : Int} {d : Nat} (G : Good t c X d)
    (hp : c.pend = none) (runId : Bytes) (hf : FieldOK c runId) (as : List AttemptF)
    (has : ∀ a ∈ as, d ∈ a.a.o1 ∧ (-(2^63 : Int) ≤ a.a.now ∧ a.a.now < 2^63)) :
    ∃ c', Good (setRunIdF ver c.key ⟨t, runId⟩ c.mas as).1.t c' X d ∧ SameIds c c' ∧ c'.ids = c.ids ∧
      FieldOK c' (setRunIdF ver c.key ⟨t, runId⟩ c.mas as).1.runId ∧
      ((setRunIdF ver c.key ⟨t, runId⟩ c.mas as).2 = true →
        (setRunIdF ver c.key ⟨t, runId⟩ c.mas as).1.runId = c.mas ∧ c'.lab = c.mas) := by
  unfold setRunIdF
  by_cases hr : runId = c.mas
  · rw [if_pos hr]
    refine ⟨c, G, ⟨rfl, rfl, rfl, hp⟩, rfl, hf, fun _ => ⟨hr, ?_⟩⟩
    rcases hf with h | h
    · exact h.symm.trans hr
    · exact h.1
  · rw [if_neg hr]
    exact retryLoopF_good ver (as.take 3) G hp runId hf hr (fun a ha => has a (List.mem_of_mem_take ha))

/-- a call that returned nil left the field equal to the master id: the side condition of the next failover in
    `StepsOK` holds after it -/
theorem setRunIdF_nil_field (ver loc : Bytes) (s : RunIdSt) (id : Bytes) (as : List AttemptF)
    (h : (setRunIdF ver loc s id as).2 = true) : (setRunIdF ver loc s id as).1.runId = id := by
  unfold setRunIdF at h ⊢
  by_cases hr : s.runId = id
  · rw [if_pos hr]; exact hr
  · rw [if_neg hr] at h ⊢
    generalize as.take 3 = l at h ⊢
    induction l generalizing s with
    | nil => simp [retryLoopF] at h
    | cons a rest ih =>
      unfold retryLoopF at h ⊢
      by_cases hd : (attemptOnceF ver loc s id a).2 = true
      · simp only [hd, if_true]
      · simp only [hd] at h ⊢
        exact ih _ hr h

/-- the steps the partial theorem covers: a failover is learnt while the in-memory field equals the master id
    (e.g. the call before returned nil), its id was never used on this target -/
def StepsOK (ver loc : Bytes) (d : Nat) : RunIdSt → Bytes → List Bytes → List SrStep → Prop
  | _, _, _, [] => True
  | s, m, ids, .call as :: r =>
    (∀ a ∈ as, d ∈ a.a.o1 ∧ (-(2^63 : Int) ≤ a.a.now ∧ a.a.now < 2^63)) ∧
      StepsOK ver loc d (setRunIdF ver loc s m as).1 m ids r
  | s, m, ids, .failover N :: r =>
    s.runId = m ∧ N ∉ ids ∧ N ≠ [] ∧ N ≠ qmark ∧ StepsOK ver loc d s N (N :: ids) r

/-- **calls with different ids in sequence**: any number of failovers and `SetRunId` calls of one RedisOutput,
    every attempt with any fate, each failover learnt while the field equals the master id: `Good` for the SAME
    position, for a control state that reports the ids the source reports after the steps -/
theorem setRunIdSeq_partial (ver : Bytes) (steps : List SrStep) :
    ∀ {t : Checkpoint.Target} {c : Ctl} {X : Int} {d : Nat} (G : Good t c X d) (hp : c.pend = none)
      (runId : Bytes) (hf : FieldOK c runId) (hok : StepsOK ver c.key d ⟨t, runId⟩ c.mas c.ids steps),
      ∃ c', Good (srRun ver c.key ⟨t, runId⟩ c.mas steps).1.t c' X d ∧ c'.key = c.key ∧ c'.pend = none ∧
        c'.mas = (srRun ver c.key ⟨t, runId⟩ c.mas steps).2 ∧ c'.sec = srSec c.mas c.sec steps ∧
        FieldOK c' (srRun ver c.key ⟨t, runId⟩ c.mas steps).1.runId := by
  induction steps with
  | nil => intro t c X d G hp runId hf _; exact ⟨c, G, rfl, hp, rfl, rfl, hf⟩
  | cons st rest ih =>
    intro t c X d G hp runId hf hok
    cases st with
    | call as =>
      obtain ⟨has, hok'⟩ := hok
      obtain ⟨c1, G1, ⟨k1, m1, s1, p1⟩, i1, hf1, _⟩ := setRunIdF_good ver G hp runId hf as has
      simp only [srRun, srSec]
      have := ih G1 p1 _ hf1 (by rw [k1, m1, i1]; exact hok')
      rw [k1, m1, s1] at this
      exact this
    | failover N =>
      obtain ⟨hfm, hN, hN0, hNq, hok'⟩ := hok
      have hrm : runId = c.mas := hfm
      have hl : c.lab = c.mas := by
        rcases hf with h | h
        · exact h.symm.trans hrm
        · exact h.1
      have G1 := good_failover G hl N hN hN0 hNq
      simp only [srRun, srSec]
      exact ih G1 hp runId (Or.inl (hrm.trans hl.symm)) hok'

/-- … hence the next start reads the SAME position under the ids the source reports after the steps -/
theorem setRunIdSeq_position (ver : Bytes) {t : Checkpoint.Target} {c : Ctl} (h : Reach ver true t c)
    (hp : c.pend = none) (runId : Bytes) (hf : FieldOK c runId) (steps : List SrStep) (o : List Nat)
    (ho : Lists o t c.key)
    (hok : ∀ X d, startPoint ver [c.mas, c.sec] o t = some (some (X, d)) →
      StepsOK ver c.key d ⟨t, runId⟩ c.mas c.ids steps) :
    ∃ X d, startPoint ver [c.mas, c.sec] o t = some (some (X, d)) ∧
      startPoint ver [(srRun ver c.key ⟨t, runId⟩ c.mas steps).2, srSec c.mas c.sec steps] o
        (srRun ver c.key ⟨t, runId⟩ c.mas steps).1.t = some (some (X, d)) := by
  obtain ⟨X, d, G⟩ := reach_good ver h
  have hd := ho d G.nonempty
  have h0 := good_startPoint ver G o hd
  obtain ⟨c', G', _, _, m, s, _⟩ := setRunIdSeq_partial ver steps G hp runId hf (hok X d h0)
  have := good_startPoint ver G' o hd
  rw [m, s] at this
  exact ⟨X, d, h0, this⟩

/-! ### the statement one wants, and why it fails on the code as it is -/

/-- a failover whenever the HASH maps the master id to the key (the position is then readable under the ids
    reported after the failover: `Reach.failover`'s side condition `lab = mas`) -/
def StepsOKH (ver loc : Bytes) (d : Nat) : RunIdSt → Bytes → List Bytes → List SrStep → Prop
  | _, _, _, [] => True
  | s, m, ids, .call as :: r =>
    (∀ a ∈ as, d ∈ a.a.o1 ∧ (-(2^63 : Int) ≤ a.a.now ∧ a.a.now < 2^63)) ∧
      StepsOKH ver loc d (setRunIdF ver loc s m as).1 m ids r
  | s, m, ids, .failover N :: r =>
    hlookup s.t.hash m = some loc ∧ N ∉ ids ∧ N ≠ [] ∧ N ≠ qmark ∧ StepsOKH ver loc d s N (N :: ids) r

def setRunIdSeq_stmt : Prop :=
  ∀ (ver : Bytes) (steps : List SrStep) (t : Checkpoint.Target) (c : Ctl) (X : Int) (d : Nat), Good t c X d →
    c.pend = none → ∀ runId, FieldOK c runId → StepsOKH ver c.key d ⟨t, runId⟩ c.mas c.ids steps →
    ∀ o, d ∈ o →
      startPoint ver [(srRun ver c.key ⟨t, runId⟩ c.mas steps).2, srSec c.mas c.sec steps] o
        (srRun ver c.key ⟨t, runId⟩ c.mas steps).1.t = some (some (X, d))

/-! the witness (finding C17-F1): position 7@0 labelled "a" (`rx_reach0s`), failover to "b"; `SetRunId("b")`: its
    only attempt applies 3 of its 4 requests (entry of "b", hash repointed, the record of "a" deleted) and fails at
    the hash clean-up - the field stays "a"; failover to "e"; `SetRunId("e")` = `UpdateCheckpoint(c, [e, a])`
    completes: placeholder −1 under "e" beside the 7 of "b" in database 0; the start with [e, b] reads −1. -/

def rxE : Bytes := [101]
def rxCtlB : Ctl := { seedCtl rxLoc rxA rxZ with mas := rxB, sec := rxA, ids := rxB :: [rxA, rxZ] }
def rxSeq : List SrStep :=
  [.call [⟨⟨3, 9, [0], [0]⟩, false⟩], .failover rxE, .call [⟨⟨9, 10, [0], [0]⟩, false⟩]]

theorem rx_reachB : Reach rxVer true rxT0s rxCtlB := Reach.failover rx_reach0s rfl rxB (by decide) (by decide) (by decide)

theorem rx_seq_lost : startPoint rxVer [(srRun rxVer rxLoc ⟨rxT0s, rxA⟩ rxB rxSeq).2, srSec rxB rxA rxSeq] [0]
    (srRun rxVer rxLoc ⟨rxT0s, rxA⟩ rxB rxSeq).1.t = some (some (-1, 0)) := by decide +kernel

theorem setRunIdSeq_stmt_refuted : ¬ setRunIdSeq_stmt := by
  intro H
  obtain ⟨X, d, G⟩ := reach_good rxVer rx_reachB
  have hd : d ∈ [0] := rx_lists0s [0] (by decide) d G.nonempty
  have h0 := good_startPoint rxVer G [0] hd
  have h7 : startPoint rxVer [rxB, rxA] [0] rxT0s = some (some (7, 0)) := by decide +kernel
  rw [show rxCtlB.mas = rxB from rfl, show rxCtlB.sec = rxA from rfl, h7] at h0
  injection h0 with h0; injection h0 with h0; injection h0 with hX hd0
  subst hX; subst hd0
  have := H rxVer rxSeq rxT0s rxCtlB 7 0 G rfl rxA (Or.inl rfl)
    (by
      refine ⟨?_, ?_, by decide, by decide, by decide, ?_, trivial⟩
      · intro a ha
        simp only [List.mem_cons, List.not_mem_nil, or_false] at ha
        subst ha; exact ⟨by decide, by decide⟩
      · show hlookup (setRunIdF rxVer rxLoc ⟨rxT0s, rxA⟩ rxB [⟨⟨3, 9, [0], [0]⟩, false⟩]).1.t.hash rxB = some rxLoc
        decide +kernel
      · intro a ha
        simp only [List.mem_cons, List.not_mem_nil, or_false] at ha
        subst ha; exact ⟨by decide, by decide⟩)
    [0] (by decide)
  rw [show rxCtlB.key = rxLoc from rfl, show rxCtlB.mas = rxB from rfl, show rxCtlB.sec = rxA from rfl, rx_seq_lost] at this
  exact absurd this (by decide)

/-! non-vacuity of `setRunIdSeq_partial` / `setRunIdSeq_position`: on the same reachable state the first call
    fails after one request, the second finds the entry rewritten and completes (`rfail` on an attempt in
    between: a dial error), then the failover to "e" and a call that completes: the position 7@0 stays. -/

def rxSeqOk : List SrStep :=
  [.call [⟨⟨1, 9, [0], [0]⟩, false⟩, ⟨⟨0, 10, [0], [0]⟩, true⟩], .call [⟨⟨9, 11, [0], [0]⟩, false⟩], .failover rxE,
   .call [⟨⟨9, 12, [0], [0]⟩, true⟩, ⟨⟨9, 13, [0], [0]⟩, false⟩]]

theorem rx_seq_ok (X : Int) (d : Nat) (hsp : startPoint rxVer [rxB, rxA] [0] rxT0s = some (some (X, d))) :
    StepsOK rxVer rxLoc d ⟨rxT0s, rxA⟩ rxB (rxB :: [rxA, rxZ]) rxSeqOk := by
  have h7 : startPoint rxVer [rxB, rxA] [0] rxT0s = some (some (7, 0)) := by decide +kernel
  rw [h7] at hsp
  injection hsp with hsp; injection hsp with hsp; injection hsp with _ hd
  subst hd
  refine ⟨?_, ?_, ?_, by decide, by decide, by decide, ?_, trivial⟩
  · intro a ha
    simp only [List.mem_cons, List.not_mem_nil, or_false] at ha
    rcases ha with rfl | rfl <;> exact ⟨by decide, by decide⟩
  · intro a ha
    simp only [List.mem_cons, List.not_mem_nil, or_false] at ha
    subst ha; exact ⟨by decide, by decide⟩
  · decide +kernel
  · intro a ha
    simp only [List.mem_cons, List.not_mem_nil, or_false] at ha
    rcases ha with rfl | rfl <;> exact ⟨by decide, by decide⟩

example := setRunIdSeq_position rxVer rx_reachB rfl rxA (Or.inl rfl) rxSeqOk [0] (rx_lists0s [0] (by decide)) rx_seq_ok

example : startPoint rxVer [(srRun rxVer rxLoc ⟨rxT0s, rxA⟩ rxB rxSeqOk).2, srSec rxB rxA rxSeqOk] [0]
    (srRun rxVer rxLoc ⟨rxT0s, rxA⟩ rxB rxSeqOk).1.t = some (some (7, 0)) := by decide +kernel

end GunYu.Props.C17
