/-
  C20 — the whole run of the worker loop AS IT IS IN THE CODE: `runWorkerF` (Model/RestoreWorker.lean) has the
  filter branch (FilterDb before SELECT, key / slot / namespace filters after it), `selectDB` with TargetDb and
  TargetDbMap, and replays the entry rewritten by replaceHashTag.

  A snapshot is a list `gs` of key groups (one DB each); the worker's stream `es` is any list whose keyed entries
  are their chunks in order (`StreamOf es gs`: AUX fields and function libraries anywhere). What reaches the
  target is `targetGroups w gs`: the groups that pass the filters, each rewritten by replaceHashTag and put into
  its mapped DB. The policy is stated per TARGET cell (mapped DB, rewritten key):

    * `whole_workerF_plain` / `whole_workerF_bisync`: target cells pairwise distinct — every key gets its policy's
      effect on what the cell held at the START, every other cell (in particular everything a filtered entry
      names) is untouched;
    * `seq_workerF_plain` / `seq_workerF_bisync`: NO distinctness assumption — outcome and keyspace are the policy
      applied literally group after group (`polSeq`); for the collisions see Props/C20Collide.lean.
-/
import GunYu.Props.C20Whole
import GunYu.Proofs.RestoreWorker
import GunYu.Proofs.RestoreSeq

namespace GunYu.Props.C20
open GunYu GunYu.Restore

/-- the group passes the worker's filters (`FilterDb` on its DB, key / slot / namespace filters on its SOURCE key) -/
def keptG (w : WCfg) (g : KGroup) : Bool := !(w.filterDb g.dbn) && !(w.filterKey g.key)

/-- an entry as `Replay` / the unit builder handle it: key rewritten by replaceHashTag, in its target DB -/
def mapE (w : WCfg) (e : Entry) : Entry := { retag w.rht e with db := w.mapDbI e.db }

def mapG (w : WCfg) (g : KGroup) : KGroup := (mapE w g.1, g.2.map (mapE w))

/-- what the run writes: the groups that pass the filters, rewritten and mapped -/
def targetGroups (w : WCfg) (gs : List KGroup) : List KGroup := (gs.filter (keptG w)).map (mapG w)

/-- every expanded command has its key argument (needed by replaceHashTag's rewriting only) -/
def ArgsOK (g : KGroup) : Prop :=
  ∀ c ∈ g.1.cmds ++ g.2.flatMap (·.cmds), c.args ≠ [] ∧ (c.name = sXGROUP → 2 ≤ c.args.length)

/-! ### a group through `wmap` -/

theorem retag_db (b : Bool) (e : Entry) : (retag b e).db = e.db := by unfold retag; split <;> rfl

theorem retag_otype (b : Bool) (e : Entry) : (retag b e).otype = e.otype := by unfold retag; split <;> rfl

theorem keyless_mapE (w : WCfg) (e : Entry) : keyless (mapE w e) = keyless e := by
  simp [keyless, mapE, retag_otype]

theorem wmap_keyless (w : WCfg) (e : Entry) (h : keyless e = true) : ∀ x, wmap w e = some x → keyless x = true := by
  intro x hx
  unfold wmap at hx
  split at hx
  · cases hx
  · split at hx
    · cases hx; simp [keyless]
    · cases hx
      have : keyless (mapE w e) = true := by rw [keyless_mapE]; exact h
      exact this

/-- the keyed entries of the mapped stream are the mapped keyed entries -/
theorem strip_wmap (w : WCfg) :
    ∀ es : List Entry, (es.filterMap (wmap w)).filter (fun e => !keyless e)
      = ((es.filter (fun e => !keyless e)).filterMap (wmap w)).filter (fun e => !keyless e)
  | [] => rfl
  | e :: es => by
    have ih := strip_wmap w es
    cases hk : keyless e with
    | true =>
      simp only [List.filter_cons, hk, Bool.not_true, Bool.false_eq_true, if_false, List.filterMap_cons]
      cases hm : wmap w e with
      | none => exact ih
      | some x =>
        have := wmap_keyless w e hk x hm
        simp only [List.filter_cons, this, Bool.not_true, Bool.false_eq_true, if_false]
        exact ih
    | false =>
      simp only [List.filter_cons, hk, Bool.not_false, if_true, List.filterMap_cons]
      cases hm : wmap w e with
      | none => exact ih
      | some x => simp only [List.filter_cons]; rw [ih]

theorem wmap_dbFiltered (w : WCfg) (e : Entry) (d : Nat) (h1 : e.db = Int.ofNat d) (hf : w.filterDb d = true) :
    wmap w e = none := by
  unfold wmap; rw [h1]; simp [hf]

theorem wmap_keyFiltered (w : WCfg) (e : Entry) (d : Nat) (h1 : e.db = Int.ofNat d) (hf : ¬ w.filterDb d = true)
    (hk : w.filterKey e.key = true) : ∃ x, wmap w e = some x ∧ keyless x = true := by
  unfold wmap; rw [h1]; simp [hf, hk, keyless]

theorem wmap_kept (w : WCfg) (e : Entry) (d : Nat) (h1 : e.db = Int.ofNat d) (hf : ¬ w.filterDb d = true)
    (hk : ¬ w.filterKey e.key = true) : wmap w e = some (mapE w e) := by
  unfold wmap; rw [h1]; simp [hf, hk, mapE, h1]

/-- the chunks of one key share DB and key, so the filters decide for the whole group -/
theorem wmap_group (w : WCfg) (g : KGroup) (hg : GoodGroup g) (hd : g.oneDb) :
    (g.entries.filterMap (wmap w)).filter (fun e => !keyless e) = if keptG w g = true then (mapG w g).entries else [] := by
  have hdb : ∀ e ∈ g.entries, e.db = Int.ofNat g.dbn := hd
  have hkey : ∀ e ∈ g.entries, e.key = g.key := by
    intro e he
    rcases List.mem_cons.mp he with rfl | he
    · rfl
    · exact (hg.1.later e he).key
  have hot : ∀ e ∈ g.entries, keyless e = false := by
    intro e he
    rcases List.mem_cons.mp he with rfl | he
    · simp [keyless, hg.1.data]
    · simp [keyless, (hg.1.later e he).data]
  have hall : ∀ l : List Entry, (∀ e ∈ l, e ∈ g.entries) →
      (l.filterMap (wmap w)).filter (fun e => !keyless e) = if keptG w g = true then l.map (mapE w) else [] := by
    intro l
    induction l with
    | nil => intro _; simp
    | cons e l ih =>
      intro hl
      have he := hl e (List.mem_cons_self ..)
      have ih' := ih (fun x hx => hl x (List.mem_cons_of_mem _ hx))
      have h1 := hdb e he
      have h2 := hkey e he
      have h3 := hot e he
      rw [List.filterMap_cons]
      by_cases hfd : w.filterDb g.dbn = true
      · have hkp : keptG w g = false := by simp [keptG, hfd]
        rw [wmap_dbFiltered w e g.dbn h1 hfd]
        simp only [hkp] at ih' ⊢
        exact ih'
      · by_cases hfk : w.filterKey g.key = true
        · have hkp : keptG w g = false := by simp [keptG, hfk]
          obtain ⟨x, hx, hxk⟩ := wmap_keyFiltered w e g.dbn h1 hfd (by rw [h2]; exact hfk)
          rw [hx]
          simp only [hkp, List.filter_cons, hxk, Bool.not_true] at ih' ⊢
          exact ih'
        · have hkp : keptG w g = true := by simp [keptG, hfd, hfk]
          have hm : keyless (mapE w e) = false := by rw [keyless_mapE]; exact h3
          rw [wmap_kept w e g.dbn h1 hfd (by rw [h2]; exact hfk)]
          simp only [hkp, if_true, List.filter_cons, hm, Bool.not_false, List.map_cons] at ih' ⊢
          rw [ih']
  have := hall g.entries (fun e he => he)
  rw [this]
  rfl

theorem stream_targetGroups (w : WCfg) (gs : List KGroup) (es : List Entry) (hs : StreamOf es gs)
    (hg : ∀ g ∈ gs, GoodGroup g ∧ g.oneDb) : StreamOf (es.filterMap (wmap w)) (targetGroups w gs) := by
  unfold StreamOf at hs ⊢
  rw [strip_wmap, hs]
  clear hs
  induction gs with
  | nil => rfl
  | cons g gs ih =>
    have ih' := ih (fun x hx => hg x (List.mem_cons_of_mem _ hx))
    obtain ⟨h1, h2⟩ := hg g (List.mem_cons_self ..)
    rw [flat_cons, List.filterMap_append, List.filter_append, ih', wmap_group w g h1 h2]
    unfold targetGroups
    by_cases hk : keptG w g = true
    · simp [hk, List.filter_cons, flat_cons]
    · simp [hk, List.filter_cons]

/-! ### a good group stays good in its target DB -/

theorem mapDbI_ofNat (w : WCfg) (d : Nat) : w.mapDbI (Int.ofNat d) = Int.ofNat (w.mapDb d) := by
  simp [WCfg.mapDbI]

theorem mapG_good (w : WCfg) (g : KGroup) (hg : GoodGroup g) (ha : w.rht = true → ArgsOK g) : GoodGroup (mapG w g) := by
  have hr : GoodGroup (retagG w.rht g) := by
    cases hb : w.rht with
    | true => exact retagG_good true g hg (ha hb)
    | false =>
      have h0 : ∀ e : Entry, retag false e = e := fun e => by simp [retag]
      have : retagG false g = g := by
        simp only [retagG, h0]
        rw [show retag false = id from funext h0, List.map_id]
      rw [this]; exact hg
  obtain ⟨⟨gd, gf, gl, gs'⟩, ⟨vc0, vne, vcr, vexp⟩⟩ := hr
  refine ⟨⟨gd, gf, ?_, ?_⟩, ⟨vc0, vne, ?_, ?_⟩⟩
  · intro e he
    obtain ⟨e', he', rfl⟩ := List.mem_map.mp he
    have := gl (retag w.rht e') (List.mem_map_of_mem (f := retag w.rht) he')
    exact ⟨this.key, this.notFirst, this.data, this.split⟩
  · intro hne
    apply gs'
    intro h
    apply hne
    simp only [retagG, List.map_eq_nil_iff] at h
    simp [mapG, h]
  · intro e he c hc
    obtain ⟨e', he', rfl⟩ := List.mem_map.mp he
    exact vcr (retag w.rht e') (List.mem_map_of_mem (f := retag w.rht) he') c hc
  · intro e he
    obtain ⟨e', he', rfl⟩ := List.mem_map.mp he
    exact vexp (retag w.rht e') (List.mem_map_of_mem (f := retag w.rht) he')

theorem mapG_dbn (w : WCfg) (g : KGroup) (hd : g.oneDb) : (mapG w g).dbn = w.mapDb g.dbn := by
  have h1 : g.1.db = Int.ofNat g.dbn := hd g.1 (List.mem_cons_self ..)
  show (w.mapDbI g.1.db).toNat = w.mapDb g.dbn
  rw [h1, mapDbI_ofNat]
  exact Int.toNat_natCast _

theorem mapG_oneDb (w : WCfg) (g : KGroup) (hd : g.oneDb) : (mapG w g).oneDb := by
  intro e he
  rw [mapG_dbn w g hd]
  have hx : ∀ x ∈ g.entries, (mapE w x).db = Int.ofNat (w.mapDb g.dbn) := by
    intro x hx
    simp only [mapE]
    rw [hd x hx, mapDbI_ofNat]
  rcases List.mem_cons.mp he with rfl | he
  · exact hx g.1 (List.mem_cons_self ..)
  · obtain ⟨e', he', rfl⟩ := List.mem_map.mp he
    exact hx e' (List.mem_cons_of_mem _ he')

/-- the target key of a group: its key without the first `{` and the first `}` when replaceHashTag is on -/
theorem mapG_key (w : WCfg) (g : KGroup) (hg : GoodGroup g) : (mapG w g).key = if w.rht then stripTag g.key else g.key := by
  simp only [KGroup.key, mapG, mapE, retag, hg.1.data]
  cases w.rht <;> simp

theorem targetGroups_good (w : WCfg) (gs : List KGroup) (hg : ∀ g ∈ gs, GoodGroup g ∧ g.oneDb)
    (ha : w.rht = true → ∀ g ∈ gs, ArgsOK g) : ∀ x ∈ targetGroups w gs, GoodGroup x ∧ x.oneDb := by
  intro x hx
  obtain ⟨g, hgm, rfl⟩ := List.mem_map.mp hx
  have hgin := (List.mem_filter.mp hgm).1
  exact ⟨mapG_good w g (hg g hgin).1 (fun h => ha h g hgin), mapG_oneDb w g (hg g hgin).2⟩

/-! ### target cells pairwise distinct: the policy per (mapped DB, rewritten key), filtered entries touch nothing -/

theorem whole_workerF_plain (w : WCfg) (pol : Policy) (cfg : Cfg) (c : Nat) (st : RState) (t : Target) (gs : List KGroup)
    (es : List Entry) (hs : StreamOf es gs) (hc : t.cur = c) (hg : ∀ g ∈ gs, GoodGroup g ∧ g.oneDb)
    (ha : w.rht = true → ∀ g ∈ gs, ArgsOK g) (hk : ((targetGroups w gs).map KGroup.cell).Nodup) :
    (∀ d k, (d, k) ∉ (targetGroups w gs).map KGroup.cell →
      (workerTarget t (runWorkerF w false pol cfg c st t es)).ks d k = t.ks d k) ∧
    ((∀ g ∈ targetGroups w gs, (plainEff pol cfg (t.inDb g.dbn) g).isStop = false) →
      lastOut (runWorkerF w false pol cfg c st t es) = .ok ∧
      ∀ g ∈ targetGroups w gs, (workerTarget t (runWorkerF w false pol cfg c st t es)).ks g.dbn g.key
        = (plainEff pol cfg (t.inDb g.dbn) g).result (t.ks g.dbn g.key)) ∧
    (∀ pre g post out, targetGroups w gs = pre ++ g :: post →
      (∀ p ∈ pre, (plainEff pol cfg (t.inDb p.dbn) p).isStop = false) →
      plainEff pol cfg (t.inDb g.dbn) g = .stop out →
      lastOut (runWorkerF w false pol cfg c st t es) = out ∧
      (∀ p ∈ pre, (workerTarget t (runWorkerF w false pol cfg c st t es)).ks p.dbn p.key
        = (plainEff pol cfg (t.inDb p.dbn) p).result (t.ks p.dbn p.key)) ∧
      (∀ d k, (d, k) ∉ pre.map KGroup.cell →
        (workerTarget t (runWorkerF w false pol cfg c st t es)).ks d k = t.ks d k)) := by
  rw [runWorkerF_eq]
  exact whole_worker_plain_stream pol cfg c st t (targetGroups w gs) _ (stream_targetGroups w gs es hs hg) hc
    (targetGroups_good w gs hg ha) hk

theorem whole_workerF_bisync (w : WCfg) (pol : Policy) (cfg : Cfg) (c : Nat) (st : RState) (t : Target) (gs : List KGroup)
    (es : List Entry) (hs : StreamOf es gs) (hc : t.cur = c) (hg : ∀ g ∈ gs, GoodGroup g ∧ g.oneDb)
    (ha : w.rht = true → ∀ g ∈ gs, ArgsOK g) (hk : ((targetGroups w gs).map KGroup.cell).Nodup) :
    (∀ d k, (d, k) ∉ (targetGroups w gs).map KGroup.cell →
      (workerTarget t (runWorkerF w true pol cfg c st t es)).ks d k = t.ks d k) ∧
    ((∀ g ∈ targetGroups w gs, (bisyncEff pol cfg (t.inDb g.dbn) g).isStop = false) →
      lastOut (runWorkerF w true pol cfg c st t es) = .ok ∧
      ∀ g ∈ targetGroups w gs, (workerTarget t (runWorkerF w true pol cfg c st t es)).ks g.dbn g.key
        = (bisyncEff pol cfg (t.inDb g.dbn) g).result (t.ks g.dbn g.key)) ∧
    (∀ pre g post out, targetGroups w gs = pre ++ g :: post →
      (∀ p ∈ pre, (bisyncEff pol cfg (t.inDb p.dbn) p).isStop = false) →
      bisyncEff pol cfg (t.inDb g.dbn) g = .stop out →
      lastOut (runWorkerF w true pol cfg c st t es) = out ∧
      (∀ p ∈ pre, (workerTarget t (runWorkerF w true pol cfg c st t es)).ks p.dbn p.key
        = (bisyncEff pol cfg (t.inDb p.dbn) p).result (t.ks p.dbn p.key)) ∧
      (∀ d k, (d, k) ∉ pre.map KGroup.cell →
        (workerTarget t (runWorkerF w true pol cfg c st t es)).ks d k = t.ks d k)) := by
  rw [runWorkerF_eq]
  exact whole_worker_bisync_stream pol cfg c st t (targetGroups w gs) _ (stream_targetGroups w gs es hs hg) hc
    (targetGroups_good w gs hg ha) hk

/-- the worker loop over a real stream, as the groups' effects in order (`seqW`): no distinctness, no assumption on payloads -/
theorem seqW_workerF (w : WCfg) (b : Bool) (pol : Policy) (cfg : Cfg) (c : Nat) (st : RState) (t : Target) (gs : List KGroup)
    (es : List Entry) (hs : StreamOf es gs) (hc : t.cur = c) (hg : ∀ g ∈ gs, GoodGroup g ∧ g.oneDb)
    (ha : w.rht = true → ∀ g ∈ gs, ArgsOK g) :
    (workerTarget t (runWorkerF w b pol cfg c st t es)).ks
      = (seqW (if b then bisyncEff pol cfg else plainEff pol cfg) t (targetGroups w gs)).2 := by
  rw [runWorkerF_eq]
  have hs' := stream_targetGroups w gs es hs hg
  have hg' := targetGroups_good w gs hg ha
  cases b
  · obtain ⟨_, b2, _⟩ := runWorker_is_runWG_plain pol cfg (es.filterMap (wmap w)) c st t
    obtain ⟨_, _, s3⟩ := runWG_strip (runPlain pol cfg)
      (fun st t e h => by
        obtain ⟨a, b, c'⟩ := runPlain_keyless pol cfg st t e [] h
        exact ⟨by rw [a]; rfl, by rw [b]; rfl, by rw [c']; rfl⟩)
      (fun st t e => (runPlain_inv pol cfg [e] st t).1)
      (es.filterMap (wmap w)) c c st t t hc hc rfl rfl rfl (stream_keyed_db _ _ hs' hg')
    obtain ⟨_, q2⟩ := (plain_runner pol cfg).seqW_spec (targetGroups w gs) c st t t hc rfl rfl rfl hg'
    rw [b2, s3, hs', q2]; rfl
  · obtain ⟨_, b2, _⟩ := runWorker_is_runWG_bisync pol cfg (es.filterMap (wmap w)) c st t
    obtain ⟨_, _, s3⟩ := runWG_strip (runBisync pol cfg)
      (fun st t e h => by
        obtain ⟨a, b, c'⟩ := runBisync_keyless pol cfg st t e [] h
        exact ⟨by rw [a]; rfl, by rw [b]; rfl, by rw [c']; rfl⟩)
      (fun st t e => (runBisync_inv pol cfg [e] st t).1)
      (es.filterMap (wmap w)) c c st t t hc hc rfl rfl rfl (stream_keyed_db _ _ hs' hg')
    obtain ⟨_, q2⟩ := (bisync_runner pol cfg).seqW_spec (targetGroups w gs) c st t t hc rfl rfl rfl hg'
    rw [b2, s3, hs', q2]; rfl

/-- **filtered entries touch nothing** — and nothing else is touched either: a cell that no group passing the filters is
    replayed to is exactly as it was. Both loops, any policy; NO distinctness of the target cells, no assumption on the
    payloads. In particular whatever a filtered group names — its own (DB, key), the cell it would have been mapped to. -/
theorem filtered_untouched (w : WCfg) (bisync : Bool) (pol : Policy) (cfg : Cfg) (c : Nat) (st : RState) (t : Target)
    (gs : List KGroup) (es : List Entry) (hs : StreamOf es gs) (hc : t.cur = c) (hg : ∀ g ∈ gs, GoodGroup g ∧ g.oneDb)
    (ha : w.rht = true → ∀ g ∈ gs, ArgsOK g)
    (d : Nat) (k : Bytes) (hfree : (d, k) ∉ (targetGroups w gs).map KGroup.cell) :
    (workerTarget t (runWorkerF w bisync pol cfg c st t es)).ks d k = t.ks d k := by
  rw [seqW_workerF w bisync pol cfg c st t gs es hs hc hg ha]
  exact seqW_frame _ _ t d k hfree

/-- **replace**, the real worker loop: every target cell ends with the snapshot's value and expiry -/
theorem replace_whole_workerF (w : WCfg) (cfg : Cfg) (c : Nat) (st : RState) (t : Target) (gs : List KGroup)
    (es : List Entry) (hs : StreamOf es gs) (hc : t.cur = c) (hg : ∀ g ∈ gs, GoodGroup g ∧ g.oneDb)
    (ha : w.rht = true → ∀ g ∈ gs, ArgsOK g) (hk : ((targetGroups w gs).map KGroup.cell).Nodup) :
    lastOut (runWorkerF w false .replace cfg c st t es) = .ok ∧
    ∀ g ∈ targetGroups w gs, (workerTarget t (runWorkerF w false .replace cfg c st t es)).ks g.dbn g.key
      = some (snapshotObj cfg t g.1 g.2) := by
  obtain ⟨_, h2, _⟩ := whole_workerF_plain w .replace cfg c st t gs es hs hc hg ha hk
  obtain ⟨o1, o2⟩ := h2 (fun g _ => rfl)
  exact ⟨o1, fun g hg' => o2 g hg'⟩

/-- **ignore**, the real worker loop: a target cell the target held is exactly as it was; the run succeeds -/
theorem ignore_whole_workerF (w : WCfg) (cfg : Cfg) (c : Nat) (st : RState) (t : Target) (gs : List KGroup)
    (es : List Entry) (hs : StreamOf es gs) (hc : t.cur = c) (hg : ∀ g ∈ gs, GoodGroup g ∧ g.oneDb)
    (ha : w.rht = true → ∀ g ∈ gs, ArgsOK g) (hk : ((targetGroups w gs).map KGroup.cell).Nodup) :
    lastOut (runWorkerF w false .ignore cfg c st t es) = .ok ∧
    (∀ g ∈ targetGroups w gs, ∀ o, t.ks g.dbn g.key = some o →
      (workerTarget t (runWorkerF w false .ignore cfg c st t es)).ks g.dbn g.key = some o) ∧
    (∀ g ∈ targetGroups w gs, t.ks g.dbn g.key = none →
      (workerTarget t (runWorkerF w false .ignore cfg c st t es)).ks g.dbn g.key = some (snapshotObj cfg t g.1 g.2)) := by
  obtain ⟨_, h2, _⟩ := whole_workerF_plain w .ignore cfg c st t gs es hs hc hg ha hk
  obtain ⟨o1, o2⟩ := h2 (fun g _ => by simp only [plainEff]; split <;> rfl)
  refine ⟨o1, ?_, ?_⟩
  · intro g hg' o ho
    have : (t.inDb g.dbn).get g.key = some o := ho
    rw [o2 g hg']; simp [plainEff, this, Eff.result, ho]
  · intro g hg' ho
    have : (t.inDb g.dbn).get g.key = none := ho
    have hs' : snapshotObj cfg (t.inDb g.dbn) g.1 g.2 = snapshotObj cfg t g.1 g.2 := rfl
    rw [o2 g hg']; simp [plainEff, this, Eff.result, hs']

/-- **replace**, the real BIDIRECTIONAL worker loop (`hb`: where the RESTORE path is taken the target can load the payload) -/
theorem replace_whole_workerF_bisync (w : WCfg) (cfg : Cfg) (c : Nat) (st : RState) (t : Target) (gs : List KGroup)
    (es : List Entry) (hs : StreamOf es gs) (hc : t.cur = c) (hg : ∀ g ∈ gs, GoodGroup g ∧ g.oneDb)
    (ha : w.rht = true → ∀ g ∈ gs, ArgsOK g) (hk : ((targetGroups w gs).map KGroup.cell).Nodup)
    (hb : ∀ g ∈ targetGroups w gs, useRestore cfg g.1 = true → t.bad g.key = false) :
    lastOut (runWorkerF w true .replace cfg c st t es) = .ok ∧
    ∀ g ∈ targetGroups w gs, (workerTarget t (runWorkerF w true .replace cfg c st t es)).ks g.dbn g.key
      = some (snapshotObj cfg t g.1 g.2) := by
  obtain ⟨_, h2, _⟩ := whole_workerF_bisync w .replace cfg c st t gs es hs hc hg ha hk
  have he : ∀ g ∈ targetGroups w gs, bisyncEff .replace cfg (t.inDb g.dbn) g = .set (snapshotObj cfg t g.1 g.2) := by
    intro g hg'
    have hnb : ¬ (useRestore cfg g.1 = true ∧ (t.inDb g.dbn).bad g.key = true) := by
      rintro ⟨hu, hbd⟩
      have : t.bad g.key = false := hb g hg' hu
      rw [show (t.inDb g.dbn).bad = t.bad from rfl, this] at hbd; cases hbd
    have hso : snapshotObj cfg (t.inDb g.dbn) g.1 g.2 = snapshotObj cfg t g.1 g.2 := rfl
    simp [bisyncEff, hnb, hso]
  obtain ⟨o1, o2⟩ := h2 (fun g hg' => by rw [he g hg']; rfl)
  exact ⟨o1, fun g hg' => by rw [o2 g hg', he g hg']; rfl⟩

/-- **ignore**, the real BIDIRECTIONAL worker loop: a target cell the target held is exactly as it was; the run succeeds -/
theorem ignore_whole_workerF_bisync (w : WCfg) (cfg : Cfg) (c : Nat) (st : RState) (t : Target) (gs : List KGroup)
    (es : List Entry) (hs : StreamOf es gs) (hc : t.cur = c) (hg : ∀ g ∈ gs, GoodGroup g ∧ g.oneDb)
    (ha : w.rht = true → ∀ g ∈ gs, ArgsOK g) (hk : ((targetGroups w gs).map KGroup.cell).Nodup)
    (hb : ∀ g ∈ targetGroups w gs, useRestore cfg g.1 = true → t.bad g.key = false) :
    lastOut (runWorkerF w true .ignore cfg c st t es) = .ok ∧
    (∀ g ∈ targetGroups w gs, ∀ o, t.ks g.dbn g.key = some o →
      (workerTarget t (runWorkerF w true .ignore cfg c st t es)).ks g.dbn g.key = some o) ∧
    (∀ g ∈ targetGroups w gs, t.ks g.dbn g.key = none →
      (workerTarget t (runWorkerF w true .ignore cfg c st t es)).ks g.dbn g.key = some (snapshotObj cfg t g.1 g.2)) := by
  obtain ⟨_, h2, _⟩ := whole_workerF_bisync w .ignore cfg c st t gs es hs hc hg ha hk
  have hnb : ∀ g ∈ targetGroups w gs, ¬ (useRestore cfg g.1 = true ∧ (t.inDb g.dbn).bad g.key = true) := by
    intro g hg'
    rintro ⟨hu, hbd⟩
    have : t.bad g.key = false := hb g hg' hu
    rw [show (t.inDb g.dbn).bad = t.bad from rfl, this] at hbd; cases hbd
  have he1 : ∀ g ∈ targetGroups w gs, ∀ o, t.ks g.dbn g.key = some o → bisyncEff .ignore cfg (t.inDb g.dbn) g = .keep := by
    intro g _ o ho
    have : (t.inDb g.dbn).get g.key = some o := ho
    simp [bisyncEff, this]
  have he2 : ∀ g ∈ targetGroups w gs, t.ks g.dbn g.key = none →
      bisyncEff .ignore cfg (t.inDb g.dbn) g = .set (snapshotObj cfg t g.1 g.2) := by
    intro g hg' ho
    have : (t.inDb g.dbn).get g.key = none := ho
    have hso : snapshotObj cfg (t.inDb g.dbn) g.1 g.2 = snapshotObj cfg t g.1 g.2 := rfl
    simp [bisyncEff, this, hnb g hg', hso]
  obtain ⟨o1, o2⟩ := h2 (fun g hg' => by
    cases ho : t.ks g.dbn g.key with
    | none => rw [he2 g hg' ho]; rfl
    | some o => rw [he1 g hg' o ho]; rfl)
  refine ⟨o1, ?_, ?_⟩
  · intro g hg' o ho; rw [o2 g hg', he1 g hg' o ho, ho]; rfl
  · intro g hg' ho; rw [o2 g hg', he2 g hg' ho]; rfl

/-! ### no distinctness assumption: the policy applied group after group -/

theorem plainEff_polEff (pol : Policy) (cfg : Cfg) (t t' : Target) (g : KGroup) (h1 : t'.now = t.now) (h2 : t'.bad = t.bad) :
    plainEff pol cfg t' g = polEff pol (snapshotObj cfg t g.1 g.2) (t'.get g.key) := by
  have hs : snapshotObj cfg t' g.1 g.2 = snapshotObj cfg t g.1 g.2 := by simp only [snapshotObj, h1, h2]
  cases pol <;> cases hx : t'.get g.key <;> simp [plainEff, polEff, hs, hx]

theorem bisyncEff_polEff (pol : Policy) (cfg : Cfg) (t t' : Target) (g : KGroup) (h1 : t'.now = t.now) (h2 : t'.bad = t.bad)
    (hb : useRestore cfg g.1 = true → t.bad g.key = false) :
    bisyncEff pol cfg t' g = polEff pol (snapshotObj cfg t g.1 g.2) (t'.get g.key) := by
  have hs : snapshotObj cfg t' g.1 g.2 = snapshotObj cfg t g.1 g.2 := by simp only [snapshotObj, h1, h2]
  have hnb : ¬ (useRestore cfg g.1 = true ∧ t'.bad g.key = true) := by
    rintro ⟨hu, hbd⟩; rw [h2, hb hu] at hbd; cases hbd
  cases pol <;> cases hx : t'.get g.key <;> simp [bisyncEff, polEff, hs, hx, hnb]

/-- the snapshot's objects on target `t` -/
def snapObj (cfg : Cfg) (t : Target) (g : KGroup) : Obj := snapshotObj cfg t g.1 g.2

theorem seq_worker_plain_stream (pol : Policy) (cfg : Cfg) (c : Nat) (st : RState) (t : Target) (gs : List KGroup)
    (es : List Entry) (hs : StreamOf es gs) (hc : t.cur = c) (hg : ∀ g ∈ gs, GoodGroup g ∧ g.oneDb) :
    lastOut (runWorker false pol cfg c st t es) = (polSeq pol (snapObj cfg t) t.ks gs).1 ∧
    (workerTarget t (runWorker false pol cfg c st t es)).ks = (polSeq pol (snapObj cfg t) t.ks gs).2 := by
  obtain ⟨_, b2, b3⟩ := runWorker_is_runWG_plain pol cfg es c st t
  obtain ⟨s1, _, s3⟩ := runWG_strip (runPlain pol cfg)
    (fun st t e h => by
      obtain ⟨a, b, c'⟩ := runPlain_keyless pol cfg st t e [] h
      exact ⟨by rw [a]; rfl, by rw [b]; rfl, by rw [c']; rfl⟩)
    (fun st t e => (runPlain_inv pol cfg [e] st t).1)
    es c c st t t hc hc rfl rfl rfl (stream_keyed_db gs es hs hg)
  obtain ⟨q1, q2⟩ := (plain_runner pol cfg).seqW_spec gs c st t t hc rfl rfl rfl hg
  have he := seqW_eq_polSeq pol (snapObj cfg t) (plainEff pol cfg) gs t
    (fun g _ t' h1 h2 => plainEff_polEff pol cfg t t' g h1 h2)
  rw [b2, b3, s1, s3, hs, q1, q2, he]
  exact ⟨rfl, rfl⟩

theorem seq_worker_bisync_stream (pol : Policy) (cfg : Cfg) (c : Nat) (st : RState) (t : Target) (gs : List KGroup)
    (es : List Entry) (hs : StreamOf es gs) (hc : t.cur = c) (hg : ∀ g ∈ gs, GoodGroup g ∧ g.oneDb)
    (hb : ∀ g ∈ gs, useRestore cfg g.1 = true → t.bad g.key = false) :
    lastOut (runWorker true pol cfg c st t es) = (polSeq pol (snapObj cfg t) t.ks gs).1 ∧
    (workerTarget t (runWorker true pol cfg c st t es)).ks = (polSeq pol (snapObj cfg t) t.ks gs).2 := by
  obtain ⟨_, b2, b3⟩ := runWorker_is_runWG_bisync pol cfg es c st t
  obtain ⟨s1, _, s3⟩ := runWG_strip (runBisync pol cfg)
    (fun st t e h => by
      obtain ⟨a, b, c'⟩ := runBisync_keyless pol cfg st t e [] h
      exact ⟨by rw [a]; rfl, by rw [b]; rfl, by rw [c']; rfl⟩)
    (fun st t e => (runBisync_inv pol cfg [e] st t).1)
    es c c st t t hc hc rfl rfl rfl (stream_keyed_db gs es hs hg)
  obtain ⟨q1, q2⟩ := (bisync_runner pol cfg).seqW_spec gs c st t t hc rfl rfl rfl hg
  have he := seqW_eq_polSeq pol (snapObj cfg t) (bisyncEff pol cfg) gs t
    (fun g hg' t' h1 h2 => bisyncEff_polEff pol cfg t t' g h1 h2 (hb g hg'))
  rw [b2, b3, s1, s3, hs, q1, q2, he]
  exact ⟨rfl, rfl⟩

/-- **the real plain worker loop, any snapshot, any configuration of filters / DB mapping / replaceHashTag**: outcome
    and final keyspace are the policy applied, group after group in snapshot order, to the TARGET cell of every group
    that passes the filters — each decision taken on what the cell holds when the group is reached -/
theorem seq_workerF_plain (w : WCfg) (pol : Policy) (cfg : Cfg) (c : Nat) (st : RState) (t : Target) (gs : List KGroup)
    (es : List Entry) (hs : StreamOf es gs) (hc : t.cur = c) (hg : ∀ g ∈ gs, GoodGroup g ∧ g.oneDb)
    (ha : w.rht = true → ∀ g ∈ gs, ArgsOK g) :
    lastOut (runWorkerF w false pol cfg c st t es) = (polSeq pol (snapObj cfg t) t.ks (targetGroups w gs)).1 ∧
    (workerTarget t (runWorkerF w false pol cfg c st t es)).ks = (polSeq pol (snapObj cfg t) t.ks (targetGroups w gs)).2 := by
  rw [runWorkerF_eq]
  exact seq_worker_plain_stream pol cfg c st t (targetGroups w gs) _ (stream_targetGroups w gs es hs hg) hc
    (targetGroups_good w gs hg ha)

/-- the same for the bidirectional worker loop (`hb`: where the RESTORE path is taken the target can load the payload) -/
theorem seq_workerF_bisync (w : WCfg) (pol : Policy) (cfg : Cfg) (c : Nat) (st : RState) (t : Target) (gs : List KGroup)
    (es : List Entry) (hs : StreamOf es gs) (hc : t.cur = c) (hg : ∀ g ∈ gs, GoodGroup g ∧ g.oneDb)
    (ha : w.rht = true → ∀ g ∈ gs, ArgsOK g)
    (hb : ∀ g ∈ targetGroups w gs, useRestore cfg g.1 = true → t.bad g.key = false) :
    lastOut (runWorkerF w true pol cfg c st t es) = (polSeq pol (snapObj cfg t) t.ks (targetGroups w gs)).1 ∧
    (workerTarget t (runWorkerF w true pol cfg c st t es)).ks = (polSeq pol (snapObj cfg t) t.ks (targetGroups w gs)).2 := by
  rw [runWorkerF_eq]
  exact seq_worker_bisync_stream pol cfg c st t (targetGroups w gs) _ (stream_targetGroups w gs es hs hg) hc
    (targetGroups_good w gs hg ha) hb

end GunYu.Props.C20
