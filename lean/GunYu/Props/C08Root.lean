/-
  C08 — above one directory, and life after the restart (session 4).
  Model: Model/StoreRoot.lean (base directory, `SetRunId`/`VerifyRunId`/`DelRunId` as
  directory-level syscalls, the index a new process builds from a directory);
  lemmas: Proofs/StoreFsXResume.lean, Proofs/StoreRoot.lean.

  `srcOf id` = the bytes of replication id `id`'s history. The one hypothesis about
  ids: when `SetRunId` RENAMES a directory to a new id (`changeReplId`), what the
  directory holds is history of the new id as well (the source continued the same
  stream under a new replication id; which offsets that covers is C06's).
-/
import GunYu.Props.C08Verify
import GunYu.Proofs.StoreRoot

namespace GunYu.Props.C08
open GunYu GunYu.Store GunYu.StoreFs GunYu.StoreFsX

/-- **resume_crash_bytes_true.** Life after the restart: a NEW process on ANY directory
    whose stream files are truthful (whatever crash, failed removal or interrupted
    RemoveAll produced it) re-opens it (`initDataSet` + `TruncateGap`, removals
    included), the writers run ANY script with faults from the re-built index, the
    process dies at ANY instant with the last write torn — and every byte a reader of
    the cache re-opened once more delivers is the source's byte at that offset. -/
theorem resume_crash_bytes_true (src : Nat → UInt8) (fs : FS) (ht : FsTrue src fs) (hn : NodupNames fs) (hs : SnapOk fs)
    (l m : Nat) (id : String) (xs : List XOp) (hwf : wfX (XDisk.reopened fs l m id) xs)
    (hsrc : SrcOkX src (XDisk.reopened fs l m id) xs) (n k : Nat) (verify : Bool) (off : Nat) (bs : Bytes) (e : ServeEnd)
    (hserve : serve (crashImageX (reopenFs fs) (xScriptOps (XDisk.reopened fs l m id) xs) n k) verify off = some (bs, e)) :
    ∀ j b, bs[j]? = some b → b = src (off + j) :=
  reopen_bytes_true src _ (resume_true fs ht hn hs l m id xs hwf hsrc n k) verify off bs e hserve

/-- **resume_crash_snapshot_complete.** … and a snapshot the cache then offers is
    complete: it was complete in the directory the life began with, or it holds
    exactly the bytes a snapshot writer of this life received. -/
theorem resume_crash_snapshot_complete (fs : FS) (hs : SnapOk fs) (l m : Nat) (id : String) (xs : List XOp)
    (hwf : wfX (XDisk.reopened fs l m id) xs) (n k L S : Nat) :
    let img := crashImageX (reopenFs fs) (xScriptOps (XDisk.reopened fs l m id) xs) n k
    (reopen img).rdb = some (L, S) → ∃ c, img.get (rdbName L S) = some c ∧ 0 < S ∧ c.length = S := by
  intro img h
  obtain ⟨⟨content, hmem⟩, _⟩ := tmp_snapshot_not_offered img L S h
  obtain ⟨c', hget, hmem'⟩ := get_some_of_mem hmem
  have := resume_received (P0 := fun _ S c => 0 < S ∧ c.length = S) fs hs hs l m id xs hwf n k _ hmem' L S rfl
  rcases this with h1 | h1
  · exact ⟨c', hget, h1.1, h1.2⟩
  · exact ⟨c', hget, h1.1, h1.2.1⟩

/-- **resume_image_reopenable.** The directory the next death leaves satisfies the
    hypotheses again: any number of restarts. -/
theorem resume_image_reopenable (src : Nat → UInt8) (fs : FS) (ht : FsTrue src fs) (hn : NodupNames fs) (hs : SnapOk fs)
    (l m : Nat) (id : String) (xs : List XOp) (hwf : wfX (XDisk.reopened fs l m id) xs)
    (hsrc : SrcOkX src (XDisk.reopened fs l m id) xs) (n k : Nat) :
    let img := crashImageX (reopenFs fs) (xScriptOps (XDisk.reopened fs l m id) xs) n k
    FsTrue src img ∧ NodupNames img ∧ SnapOk img :=
  resume_closed fs ht hn hs l m id xs hwf hsrc n k

/-- what a reader gets under id `id` is `srcOf id`'s, in every base directory whose
    directories hold their own id's bytes -/
theorem rootOk_bytes_true (srcOf : String → Nat → UInt8) (r : Root) (h : RootOk srcOf r) (id : String) (verify : Bool)
    (off : Nat) (bs : Bytes) (e : ServeEnd) (hs : serveRoot r id verify off = some (bs, e)) :
    ∀ j b, bs[j]? = some b → b = srcOf id (off + j) := by
  unfold serveRoot at hs
  cases hg : r.get id with
  | none => simp [hg] at hs
  | some fs =>
    simp only [hg] at hs
    exact reopen_bytes_true (srcOf id) fs (h.get hg).1 verify off bs e hs

/-- **del_run_id_crash_true.** `DelRunId` = `os.RemoveAll`: the entries are unlinked in
    the order `readdir` returns them — ANY order — and the process may die after any
    unlink (any subset survives): whatever id is opened afterwards serves only its own
    id's bytes. -/
theorem del_run_id_crash_true (srcOf : String → Nat → UInt8) (r : Root) (h : RootOk srcOf r) (id : String)
    (order : List FName) (n : Nat) (id' : String) (verify : Bool) (off : Nat) (bs : Bytes) (e : ServeEnd)
    (hs : serveRoot (r.applyAllSys ((delRunIdSys r id order).take n)) id' verify off = some (bs, e)) :
    ∀ j b, bs[j]? = some b → b = srcOf id' (off + j) :=
  rootOk_bytes_true srcOf _ (delRunId_crash_ok r h id order n) id' verify off bs e hs

/-- **set_run_id_crash_true.** `SetRunId(new)` from current id `cur` — directory
    created, or the current directory RENAMED to the new id (`changeReplId`), then
    re-scanned and `TruncateGap`'s leftovers unlinked — cut at any syscall: every id
    serves only its own bytes. The one hypothesis is asked ONLY IF the operation renames
    (`setRunIdRenames`: there is a current directory and the new id has none): what the
    renamed directory holds is history of the new id too. -/
theorem set_run_id_crash_true (srcOf : String → Nat → UInt8) (r : Root) (h : RootOk srcOf r) (cur new : String)
    (hcont : setRunIdRenames r cur new = true → ∀ fs, r.get cur = some fs → FsTrue (srcOf new) fs) (n : Nat)
    (id' : String) (verify : Bool) (off : Nat) (bs : Bytes) (e : ServeEnd)
    (hs : serveRoot (r.applyAllSys ((setRunIdSys r cur new).take n)) id' verify off = some (bs, e)) :
    ∀ j b, bs[j]? = some b → b = srcOf id' (off + j) :=
  rootOk_bytes_true srcOf _ (setRunId_crash_ok r h cur new hcont n) id' verify off bs e hs

/-- **set_run_id_rename_agree.** … and that hypothesis follows from what PSYNC2 gives (C06,
    Model/Psync.lean `Agree`: after `+CONTINUE <new id>` the new id's history equals the old
    one's below the switch offset `x`) together with the directory holding no stream byte at or
    beyond `x` (C06 `cache_consistent_after` / `Holds`: a cache labelled with an id holds only
    bytes of that id's history; `reach_safe` is the end-to-end statement). The composition with
    C06's `World` is by this lemma, not by import (a broken C06 must not break C08). -/
theorem set_run_id_rename_agree (srcOf : String → Nat → UInt8) (r : Root) (h : RootOk srcOf r) (cur new : String) (x : Nat)
    (hag : ∀ n, n < x → srcOf new n = srcOf cur n) (hbelow : ∀ fs, r.get cur = some fs → HeldBelow x fs) (n : Nat)
    (id' : String) (verify : Bool) (off : Nat) (bs : Bytes) (e : ServeEnd)
    (hs : serveRoot (r.applyAllSys ((setRunIdSys r cur new).take n)) id' verify off = some (bs, e)) :
    ∀ j b, bs[j]? = some b → b = srcOf id' (off + j) :=
  set_run_id_crash_true srcOf r h cur new
    (fun _ fs hg => renOk_of_agree x (h.get hg).1 hag (hbelow fs hg)) n id' verify off bs e hs

/-- **verify_run_id_right_id.** `VerifyRunId(ids)` among several directories takes an id by
    exactly the code's rule (`Chosen`: ids that are not real or have no directory are skipped; a
    real id with a directory is entered and taken unless its newest offset is 0, then the search
    goes on), the id taken is one of those asked for, and — also when it is cut at any syscall —
    what is served under any id afterwards is that id's (no hypothesis: it never renames). -/
theorem verify_run_id_right_id (srcOf : String → Nat → UInt8) (r : Root) (h : RootOk srcOf r) (cur : String)
    (ids : List String) :
    (∀ id, (verifyRunId r cur ids).2.2.2 = some id ↔ Chosen r cur ids id) ∧
    (∀ id, (verifyRunId r cur ids).2.2.2 = some id → id ∈ ids ∧ realId id = true) ∧
    ∀ n id' verify off bs e,
      serveRoot (r.applyAllSys ((verifyRunId r cur ids).1.take n)) id' verify off = some (bs, e) →
      ∀ j b, bs[j]? = some b → b = srcOf id' (off + j) := by
  obtain ⟨h1, _, h3⟩ := verifyRunId_spec ids r cur
  refine ⟨fun id => verifyRunId_rule ids r cur id, h3, ?_⟩
  intro n id' verify off bs e hs
  exact rootOk_bytes_true srcOf _ (sys_crash_ok r h _ (renOk_of_no_rename _ _ h1) n) id' verify off bs e hs

/-- **root_bytes_true.** Everything together, any number of times in any order: lives of
    the writers on any id's directory (re-opening, any script with faults, death at any
    instant, the last write torn) and id-level operations cut at any syscall (directory
    created, renamed on an id change, entries unlinked in any order, directory
    removed): whatever a reader gets under id `id` after the next restart is the byte
    the source sent under THAT id at that offset. -/
theorem root_bytes_true (srcOf : String → Nat → UInt8) (r : Root) (h : RootReach srcOf r) (id : String) (verify : Bool)
    (off : Nat) (bs : Bytes) (e : ServeEnd) (hs : serveRoot r id verify off = some (bs, e)) :
    ∀ j b, bs[j]? = some b → b = srcOf id (off + j) :=
  rootOk_bytes_true srcOf r (rootReach_ok h) id verify off bs e hs

/-- **root_snapshot_complete.** … and a snapshot offered under any id is a committed
    file with exactly the announced number of bytes. -/
theorem root_snapshot_complete (srcOf : String → Nat → UInt8) (r : Root) (h : RootReach srcOf r) (id : String) (fs : FS)
    (hg : r.get id = some fs) (L S : Nat) (hr : (reopen fs).rdb = some (L, S)) :
    ∃ c, fs.get (rdbName L S) = some c ∧ 0 < S ∧ c.length = S :=
  reopened_rdb ((rootReach_ok h).get hg).2.2 hr

/-! ### non-vacuity -/

def exDir : FS := [(.aof 100, fixHeader ++ [100, 101, 102]), (.aof 103, fixHeader ++ [103]), (.rdb 100 2, [7, 7])]
def exRoot : Root := [("A", exDir), ("B", [(.aof 500, fixHeader ++ [9])])]

-- an id change renames the directory; nothing is re-created, the bytes are now served under the new id
example : setRunIdSys exRoot "A" "C" = [.renameDir "A" "C"] := by decide
example : (exRoot.applyAllSys (setRunIdSys exRoot "A" "C")).get "A" = none ∧
    serveRoot (exRoot.applyAllSys (setRunIdSys exRoot "A" "C")) "C" false 101 = some ([101, 102, 103], ServeEnd.eof) := by
  decide
-- switching to an id that has a directory: no rename
example : setRunIdSys exRoot "A" "B" = [] := by decide
-- VerifyRunId skips "?" and ids without a directory and takes the first that has one
example : (verifyRunId exRoot "" ["?", "Z", "B", "A"]).2.2.2 = some "B" := by decide
-- DelRunId in some readdir order, the process dies after two unlinks: what is left is served truthfully
example : ((exRoot.applyAllSys ((delRunIdSys exRoot "A" [.aof 103, .rdb 100 2, .aof 100]).take 2)).get "A") =
    some [(.aof 100, fixHeader ++ [100, 101, 102])] := by decide
-- … complete: the directory is gone
example : (exRoot.applyAllSys (delRunIdSys exRoot "A" [.aof 103, .rdb 100 2, .aof 100])).get "A" = none := by decide
-- a new process on a directory with a gap: the older segment is unlinked, the writer goes on from 104
def exGap : FS := [(.aof 90, fixHeader ++ [1, 2]), (.aof 100, fixHeader ++ [100, 101, 102, 103])]
example : reopenOps exGap = [.remove (.aof 90)] := by decide
example : wfX (XDisk.reopened exGap 32 0 "A") [.op (.newAofWriter 104), .op (.aofAppend [104, 105])] := by decide
example : (xScriptOps (XDisk.reopened exGap 32 0 "A") [.op (.newAofWriter 104), .op (.aofAppend [104, 105])]).length = 3 := by
  decide
example : serve (crashImageX (reopenFs exGap) (xScriptOps (XDisk.reopened exGap 32 0 "A")
    [.op (.newAofWriter 104), .op (.aofAppend [104, 105])]) 3 1) false 101 = some ([101, 102, 103, 104], ServeEnd.eof) := by
  decide +kernel


/-! ### instances that DISCHARGE the hypotheses -/

/-- the source: offset `i` carries byte `i` -/
def exSrc : Nat → UInt8 := fun i => UInt8.ofNat i

/-- a directory a crash left: a segment [100,103) with a zero header and a committed snapshot -/
def exDirR : FS := [(.aof 100, fixHeader ++ [100, 101, 102]), (.rdb 100 2, [7, 7])]

theorem exDirR_true : FsTrue exSrc exDirR := by
  intro e he l hp i b hb
  simp [exDirR] at he
  rcases he with rfl | rfl
  · simp [parseAofName] at hp; subst hp
    have hd : (fixHeader ++ [100, 101, 102] : Bytes).drop headerSize = [100, 101, 102] := by decide
    rw [hd] at hb
    match i, hb with
    | 0, hb => simp at hb; subst hb; decide
    | 1, hb => simp at hb; subst hb; decide
    | 2, hb => simp at hb; subst hb; decide
    | n + 3, hb => simp at hb
  · simp [parseAofName] at hp

theorem exDirR_nodup : NodupNames exDirR := by unfold NodupNames; decide

theorem exDirR_snap : SnapOk exDirR := by
  intro e he L S hp
  simp [exDirR] at he
  rcases he with rfl | rfl
  · simp [parseRdbName] at hp
  · simp [parseRdbName] at hp; obtain ⟨_, rfl⟩ := hp; exact ⟨by decide, rfl⟩

/-- the next life: the writer resumes at 103, appends, its close's header rewrite fails after 5 bytes -/
def exLifeR : List XOp := [.op (.newAofWriter 103), .op (.aofAppend [103, 104]), .aofCloseHdrFail 5]

theorem exLifeR_wf : wfX (XDisk.reopened exDirR 32 0 "A") exLifeR := by decide
theorem exLifeR_src : SrcOkX exSrc (XDisk.reopened exDirR 32 0 "A") exLifeR :=
  srcOkXB_sound exSrc _ _ (by decide)

-- `resume_crash_bytes_true` APPLIED: all hypotheses discharged, the process dies in the middle of the
-- failing header rewrite (3 of its 5 bytes written), the cache re-opened once more serves [101, 105)
example : ∀ j b, ([101, 102, 103, 104] : Bytes)[j]? = some b → b = exSrc (101 + j) :=
  resume_crash_bytes_true exSrc exDirR exDirR_true exDirR_nodup exDirR_snap 32 0 "A" exLifeR exLifeR_wf exLifeR_src
    4 3 false 101 [101, 102, 103, 104] ServeEnd.eof (by decide +kernel)

/-- one history under every id: the source continued the stream under a new replication id -/
def exSrcOf : String → Nat → UInt8 := fun _ => exSrc

def exLifeA : List XOp := [.op (.newAofWriter 100), .op (.aofAppend [100, 101, 102]), .op .aofClose]
theorem exLifeA_wf : wfX (XDisk.reopened [] 32 0 "A") exLifeA := by decide
theorem exLifeA_src : SrcOkX exSrc (XDisk.reopened [] 32 0 "A") exLifeA := srcOkXB_sound exSrc _ _ (by decide)

/-- a base directory reached by: a life of the writers under id A on an empty store … -/
def exRootA : Root :=
  Root.set [] "A" (crashImageX (reopenFs ((Root.get [] "A").getD []))
    (xScriptOps (XDisk.reopened ((Root.get [] "A").getD []) 32 0 "A") exLifeA) 99 99)

theorem exRootA_reach : RootReach exSrcOf exRootA :=
  RootReach.life [] "A" 32 0 exLifeA 99 99 RootReach.empty exLifeA_wf exLifeA_src

theorem exRename : setRunIdSys exRootA "A" "C" = [.renameDir "A" "C"] := by decide +kernel

/-- … then `SetRunId("C")`: the directory is renamed; `RenOk` proved (the new id continues the history) -/
theorem exRootC_reach : RootReach exSrcOf (exRootA.applyAllSys ((setRunIdSys exRootA "A" "C").take 1)) := by
  apply RootReach.sys exRootA _ 1 exRootA_reach
  rw [exRename]
  exact ⟨fun fs hg => ((rootReach_ok exRootA_reach).get hg).1, trivial⟩

-- `root_bytes_true` APPLIED to it: under the new id the renamed cache serves the source's bytes
example : ∀ j b, ([101, 102] : Bytes)[j]? = some b → b = exSrcOf "C" (101 + j) :=
  root_bytes_true exSrcOf _ exRootC_reach "C" true 101 [101, 102] ServeEnd.eof (by decide +kernel)

end GunYu.Props.C08
