/-
  C08 — verification of a cached SNAPSHOT file (session 5, seeded round 8): `RdbReader.checkHeader`,
  run when a snapshot reader is opened with `channel.verifyCrc` on a snapshot nobody is writing.
  Model: `StoreFs.rdbFooterOk` (files of at most 8 bytes pass; otherwise the last 8 bytes, little
  endian, are the CRC64 of everything before them AND are not zero — /repo 98e548e: the CRC64 of an
  all-zero payload is zero, so a right-length file reading back as zeros passed the check).
  The CRC64 is the regenerated one: `gen_crc64_eq_model` (Props/C08GenS5.lean) ties `StoreFs.crc64`
  to `digest.update` as translated from pkg/digest/crc64.go on every run.

  `serveSnap` is what a verifying / non-verifying snapshot reader of the re-opened cache delivers.
-/
import GunYu.Props.C08Commit

namespace GunYu.Props.C08
open GunYu GunYu.Store GunYu.StoreFs GunYu.StoreFsX

/-- `GetReader(off ≤ snapshot left, verify)` on the re-opened cache, read to the announced size:
    `none` = nothing offered or the reader refused (`ErrCorrupted`) -/
def serveSnap (fs : FS) (verify : Bool) : Option (Nat × Nat × Bytes) :=
  match (reopen fs).rdb with
  | none => none
  | some (l, s) =>
    let file := (fs.get (rdbName l s)).getD []
    if verify && !rdbFooterOk file then none else some (l, s, file.take s)

/-- a snapshot file as the writer commits it when the source appends the checksum -/
def footered (payload : Bytes) : Bytes := payload ++ leBytes 8 (crc64 payload)

theorem rdbFooterOk_split (payload trailer : Bytes) (ht : trailer.length = 8) (hp : payload ≠ []) :
    rdbFooterOk (payload ++ trailer) = (ofLE trailer != 0 && ofLE trailer == crc64 payload) := by
  have hl : ¬ (payload ++ trailer).length ≤ 8 := by
    have : 0 < payload.length := List.length_pos_iff.mpr hp
    simp [ht]; omega
  have e1 : (payload ++ trailer).length - 8 = payload.length := by simp [ht]
  simp only [rdbFooterOk, hl, if_false, e1, List.drop_left, List.take_left]

/-- **altered_snapshot_accepted_iff.** Whatever a committed snapshot file has become (same or
    other length): a verifying reader accepts `payload' ++ trailer'` iff the trailer is NOT zero and
    is the CRC64 of the payload before it. -/
theorem altered_snapshot_accepted_iff (payload' trailer' : Bytes) (ht : trailer'.length = 8) (hp : payload' ≠ []) :
    rdbFooterOk (payload' ++ trailer') = true ↔ ofLE trailer' ≠ 0 ∧ ofLE trailer' = crc64 payload' := by
  rw [rdbFooterOk_split payload' trailer' ht hp]
  simp

/-- **zero_trailer_refused.** A snapshot file whose last 8 bytes read as zero — the tail lost by a
    power loss, a zero-filled copy, a source running `rdbchecksum no` — is refused by a verifying
    reader WHATEVER the payload is (also an all-zero payload, whose CRC64 is zero). -/
theorem zero_trailer_refused (payload' : Bytes) (hp : payload' ≠ []) :
    rdbFooterOk (payload' ++ List.replicate 8 0) = false := by
  rw [rdbFooterOk_split payload' _ (by simp) hp]
  have h0 : ofLE (List.replicate 8 (0 : UInt8)) = 0 := by decide
  rw [h0]
  rfl

/-- the trailer kept, the payload altered: accepted only on a CRC64 collision -/
theorem altered_payload_accepted_iff (payload payload' : Bytes) (hp : payload' ≠ []) :
    rdbFooterOk (payload' ++ leBytes 8 (crc64 payload)) = true ↔
      crc64 payload ≠ 0 ∧ crc64 payload' = crc64 payload := by
  rw [altered_snapshot_accepted_iff payload' _ (leBytes_length 8 _) hp, ofLE_leBytes]
  have hlt : crc64 payload < 256 ^ 8 := by
    unfold crc64
    exact (UInt64.toNat_lt _)
  rw [Nat.mod_eq_of_lt hlt]
  constructor
  · rintro ⟨h1, h2⟩; exact ⟨h1, h2.symm⟩
  · rintro ⟨h1, h2⟩; exact ⟨h1, h2.symm⟩

/-- no false refusal: what the writer committed verifies, unless its CRC64 is zero (2^-64 for a
    real RDB; an all-zero payload) -/
theorem footered_verifies (payload : Bytes) (hp : payload ≠ []) (h0 : crc64 payload ≠ 0) :
    rdbFooterOk (footered payload) = true :=
  (altered_payload_accepted_iff payload payload hp).mpr ⟨h0, rfl⟩

/-- **altered_snapshot_never_served.** With verification on, for ANY directory image: whatever a
    snapshot reader of the re-opened cache delivers comes from a file of exactly the announced
    length (`reopen_snapshot_sized`) that PASSES the footer check — a file that fails it is refused,
    none of it is served. Together with `altered_snapshot_accepted_iff`: an altered snapshot is
    served only if its trailer is non-zero and is the CRC64 of the (altered) payload. -/
theorem altered_snapshot_never_served (fs : FS) (l s : Nat) (bs : Bytes)
    (h : serveSnap fs true = some (l, s, bs)) :
    ∃ file, fs.get (rdbName l s) = some file ∧ file.length = s ∧ rdbFooterOk file = true ∧ bs = file := by
  unfold serveSnap at h
  cases hr : (reopen fs).rdb with
  | none => simp [hr] at h
  | some p =>
    obtain ⟨l', s'⟩ := p
    simp only [hr] at h
    split at h
    · cases h
    · rename_i hv
      simp only [Option.some.injEq, Prod.mk.injEq] at h
      obtain ⟨rfl, rfl, hb⟩ := h
      obtain ⟨c, hget, hlen⟩ := reopen_snapshot_sized fs l' s' hr
      refine ⟨c, hget, hlen, ?_, ?_⟩
      · simpa [hget] using hv
      · rw [← hb, hget]; simp [← hlen]

/-! ### non-vacuity (the witness of 98e548e and of seeded mutation C08-r8-m1) -/

-- an all-zero file of the right length: refused now (its CRC64 is zero = its trailer)
example : crc64 (List.replicate 20 0) = 0 := by decide +kernel
example : serveSnap [(rdbName 305 28, List.replicate 28 0)] true = none := by decide +kernel
example : (serveSnap [(rdbName 305 28, List.replicate 28 0)] false).isSome = true := by decide +kernel
-- payload intact, trailer zeroed (r8-m1's torn tail): refused
example : serveSnap [(rdbName 7 11, [82, 69, 68] ++ List.replicate 8 0)] true = none := by decide +kernel
-- the committed file verifies and is served in full
example : serveSnap [(rdbName 7 11, footered [82, 69, 68])] true = some (7, 11, footered [82, 69, 68]) := by
  decide +kernel

end GunYu.Props.C08
