/-
  C14 — Bidirectional replay resumes from the contiguous committed prefix.

  Property theorems only (helper lemmas: Proofs/Frontier.lean,
  Proofs/FrontierSys.lean, Proofs/FrontierRestart.lean).

  Quantifiers: all snapshots and ALL record lists (hence every subset of
  surviving journal records, duplicates, seq <= 0); all unit numberings `W.e`;
  all step lists of the replay system (Model/FrontierSys.lean) — any completion
  order across lanes, any flush timing, every crash point of the target's request
  sequence including each single recovery / clean-up request; any number of
  stop/start cycles, each stopped after any number of its recovery requests.
-/
import GunYu.Model.Frontier
import GunYu.Model.FrontierSys
import GunYu.Proofs.Frontier
import GunYu.Proofs.FrontierSys
import GunYu.Proofs.FrontierRestart
import GunYu.Proofs.FrontierTraffic

namespace GunYu.Props.C14
open GunYu GunYu.Frontier

/-- `RebuildBisyncFrontier` never passes a missing sequence number: the rebuilt
    frontier is not before the snapshot, EVERY sequence number between the
    snapshot and the result is carried by a record of the list, and the offset /
    run id are those of a record carrying the resulting number. `recs` is any list
    (any subset of the journal that survived, in any order, with duplicates). -/
theorem rebuild_contiguous (ver : Bytes) (snap : Option Snap) (recs : List Rec) (res : Snap)
    (h : rebuild ver snap recs = .ok (some res)) :
    baseSeq snap ≤ res.seq ∧
    (∀ m, baseSeq snap < m → m ≤ res.seq → ∃ r ∈ recs, r.seq = m ∧ 0 < r.seq) ∧
    (baseSeq snap < res.seq → ∃ r ∈ recs, r.seq = res.seq ∧ r.endOff = res.offset ∧ r.runId = res.runId) ∧
    (res.seq = baseSeq snap → snap = some res ∨ (snap = none ∧ res.seq = 0)) :=
  rebuild_spec ver snap recs res h

/-- … in particular for any subset `sub` of a journal `recs`: what is rebuilt from the
    survivors only passes numbers the journal really contained. -/
theorem rebuild_survivors (ver : Bytes) (snap : Option Snap) (recs sub : List Rec) (res : Snap)
    (hsub : ∀ r ∈ sub, r ∈ recs) (h : rebuild ver snap sub = .ok (some res)) :
    ∀ m, baseSeq snap < m → m ≤ res.seq → ∃ r ∈ recs, r.seq = m := by
  intro m h1 h2
  obtain ⟨r, hr, hs, _⟩ := (rebuild_spec ver snap sub res h).2.1 m h1 h2
  exact ⟨r, hsub r hr, hs⟩

/-- a journal that does not start at 1 right after an absent OR seq-0 snapshot is reported as
    ErrBisyncJournalGap by `RebuildBisyncFrontier`, never guessed over (what `bisyncStartPoint`
    does with that error: see `startFrontier`) -/
theorem rebuild_gap_is_error (ver : Bytes) (snap : Option Snap) (recs : List Rec) (hne : recs.isEmpty = false)
    (h0 : baseSeq snap = 0) (hgap : minSeq recs ≠ 1) : rebuild ver snap recs = .error (minSeq recs) := by
  unfold rebuild; cases snap <;> simp_all [baseSeq]

/-- the invariant holds in a fresh namespace (only the root checkpoint exists) -/
theorem init_inv (W : World) (db : Nat) :
    SysInv W { ns := { root := some (W.rid, W.e 0, db) } } :=
  ⟨by intro x hx; simp only [Option.some.injEq] at hx; rw [← hx], by simp, by simp, by simp, by simp⟩

/-- every single step — a unit's transaction, a completion report, a flush tick, ONE
    request reaching the target (frontier save, each journal DEL, each ZREM, each
    recovery request), a start, a crash — preserves the invariant -/
theorem each_request_preserves (W : World) (s : Sys) (hi : SysInv W s) (st : Step) :
    SysInv W (step W s st) := step_inv hi st

/-- After a stop at ANY moment (any step list, i.e. any crash point), the point a start
    selects ends a unit the target has committed, and every unit before it has been
    committed (`off = e seq`, units `1..seq` all in `committed`): later units may repeat,
    none is skipped. -/
theorem resume_is_committed_prefix (W : World) (s₀ : Sys) (hi : SysInv W s₀) (steps : List Step)
    (db : Nat) (rid : Bytes) (off seq : Int)
    (h : (startFrontier W.ver (runSteps W s₀ steps).ns W.ids).1 = .point db rid off seq) :
    0 ≤ seq ∧ off = W.e seq ∧ ∀ j, 0 < j → j ≤ seq → j ∈ (runSteps W s₀ steps).committed := by
  have hinv := runSteps_inv (W := W) steps hi
  cases hst : startFrontier W.ver (runSteps W s₀ steps).ns W.ids with
  | mk st reqs =>
    rw [hst] at h
    simp only at h
    subst h
    exact (start_sound hinv db rid off seq reqs hst).1

/-- the frontier the coordinator holds in memory (handed to the next send loop as
    bisyncSeq / bisyncOffset) is a committed prefix as well, at every moment -/
theorem coordinator_frontier_is_committed_prefix (W : World) (s₀ : Sys) (hi : SysInv W s₀)
    (steps : List Step) (r : Run) (h : (runSteps W s₀ steps).run = some r) :
    r.coord.frontier.offset = W.e r.coord.frontier.seq ∧
    ∀ j, 0 < j → j ≤ r.coord.frontier.seq → j ∈ (runSteps W s₀ steps).committed :=
  let hc := ((runSteps_inv (W := W) steps hi).co r h).1
  ⟨hc.2.1, hc.2.2⟩

/-- Sync mode, with restarts that really re-read the target: a process sends unit
    `bisyncSeq+1` next, a restart sets `bisyncSeq` from what `bisyncStartPoint` (latest record,
    root fall-back) returns. For EVERY interleaving of commits and restarts the units the target
    applied are exactly 1, 2, …, n in order — none twice, none skipped — and a start resumes
    at the end of unit n. -/
theorem sync_mode_exact (W : World) (db : Nat) (steps : List SyncStep)
    (hmono : ∀ i, 0 ≤ i → W.e 0 ≤ W.e i) (hrid : matchRun W.rid W.ids = true) :
    ∃ n : Nat,
      (syncRun W { ns := { root := some (W.rid, W.e 0, db) }, cur := 0 } steps).applied = upTo n ∧
      ∃ db', startLatest (syncRun W { ns := { root := some (W.rid, W.e 0, db) }, cur := 0 } steps).ns W.ids
        = .point db' W.rid (W.e n) n := by
  have h0 : SyncInv W { ns := { root := some (W.rid, W.e 0, db) }, cur := 0 } 0 :=
    ⟨⟨db, rfl⟩, rfl, rfl, fun _ => rfl, by intro r hr; simp at hr⟩
  obtain ⟨n, hi⟩ := syncRun_inv hmono hrid steps h0
  exact ⟨n, hi.applied, startLatest_of_inv hi hmono hrid⟩

/-- no step touches the root checkpoint -/
theorem root_unchanged (W : World) (steps : List Step) :
    ∀ s : Sys, (runSteps W s steps).ns.root = s.ns.root := by
  induction steps with
  | nil => intro s; rfl
  | cons st rest ih =>
    intro s
    show (runSteps W (step W s st) rest).ns.root = s.ns.root
    rw [ih]
    cases st with
    | start =>
      simp only [step]
      cases s.run with
      | some _ => rfl
      | none =>
        simp only [startRun]
        cases startFrontier W.ver s.ns W.ids with
        | mk st reqs => cases st <;> rfl
    | commit i mt =>
      simp only [step]
      cases s.run with
      | none => rfl
      | some r => simp only; split <;> rfl
    | report i mt now =>
      simp only [step]
      cases s.run with
      | none => rfl
      | some r => simp only; split <;> rfl
    | tick now =>
      simp only [step]
      cases s.run <;> rfl
    | apply =>
      simp only [step]
      cases s.queue with
      | nil => rfl
      | cons q rest' => cases q <;> rfl
    | crash => rfl

/-- After a stop at ANY moment a start succeeds: with the root checkpoint in place
    `bisyncStartPoint` always returns a position (a journal gap behind an absent snapshot is a
    fall-back to the root, D26) — there is no reachable state from which every start fails. -/
theorem start_always_resumes (W : World) (s₀ : Sys) (steps : List Step) (root : Bytes × Int × Nat)
    (hroot : s₀.ns.root = some root) :
    IsPoint (startFrontier W.ver (runSteps W s₀ steps).ns W.ids).1 := by
  have hr : (runSteps W s₀ steps).ns.root = some root := by rw [root_unchanged]; exact hroot
  rcases startFrontier_cases W.ver (runSteps W s₀ steps).ns W.ids with ⟨h, _⟩ | ⟨r', reqs, _, hst, _⟩ |
      ⟨r', f, _, _, _, _, hst⟩
  · rw [hr] at h; exact absurd h (by simp)
  · rw [hst]; trivial
  · rw [hst]; trivial

/-- the stored offsets of every reachable state follow the one numbering (bridge from the
    system invariant to the hypothesis of `resume_monotone`) -/
theorem consistent_of_inv (W : World) (s : Sys) (hi : SysInv W s)
    (hm : ∀ i j, i ≤ j → W.e i ≤ W.e j) : Consistent W s.ns :=
  ⟨hm, fun j hj => by rw [(hi.jr j hj).2.1, (hi.jr j hj).1], fun f hf => (hi.fr f hf).2.1, hi.root⟩

/-- Stopping and starting again — any number of times, each process stopped after any
    number `ks[i]` of its recovery requests, no traffic in between — never moves the resume
    point backwards (neither the offset nor the sequence number), from EVERY state the replay
    system can reach (any step list: any crash point of a run with traffic). -/
theorem resume_monotone (W : World) (s₀ : Sys) (hi : SysInv W s₀) (steps : List Step)
    (hm : ∀ i j, i ≤ j → W.e i ≤ W.e j)
    (hp : IsPoint (startFrontier W.ver (runSteps W s₀ steps).ns W.ids).1) (ks : List Nat) :
    Ascending (restarts W.ver W.ids (runSteps W s₀ steps).ns ks) :=
  restarts_ascending ks (consistent_of_inv W _ (runSteps_inv steps hi) hm) hp

/-- ... and with a root checkpoint no hypothesis on the start is left: from every reachable state
    every chain of restarts resumes, and never earlier than the restart before it. -/
theorem resume_monotone_rooted (W : World) (s₀ : Sys) (hi : SysInv W s₀) (steps : List Step)
    (hm : ∀ i j, i ≤ j → W.e i ≤ W.e j) (root : Bytes × Int × Nat) (hroot : s₀.ns.root = some root)
    (ks : List Nat) :
    Ascending (restarts W.ver W.ids (runSteps W s₀ steps).ns ks) :=
  resume_monotone W s₀ hi steps hm (start_always_resumes W s₀ steps root hroot) ks

/-- the same for any namespace state whose stored offsets follow one monotone numbering -/
theorem resume_monotone_of_consistent (W : World) (ns : NS) (hc : Consistent W ns)
    (hp : IsPoint (startFrontier W.ver ns W.ids).1) (ks : List Nat) :
    Ascending (restarts W.ver W.ids ns ks) :=
  restarts_ascending ks hc hp

/-! ### executions WITH traffic (Model/FrontierTraffic.lean: the recovery requests of a start are
    applied before the first unit of that process commits, as in the code)

    `TInv` = the invariant of `SysInv` plus: index members are scored with their key's number; a root
    checkpoint exists; an idle system has nothing queued; while a process runs, either a purge
    (deletes, then the snapshot) is outstanding and a start would still return the root, or every
    queued save is visible and not below the snapshot / the save before it, every queued delete
    names numbers the snapshot in force covers, and the coordinator's frontier is not below any of
    them. -/

/-- the invariant holds in a fresh namespace (only the root checkpoint exists) -/
theorem traffic_init_inv (W : World) (db : Nat) :
    TInv W { ns := { root := some (W.rid, W.e 0, db) } } :=
  ⟨init_inv W db, by simp, ⟨_, rfl⟩, fun _ => ⟨rfl, rfl⟩, fun r hr => by simp at hr⟩

/-- every single step preserves it -/
theorem traffic_each_step_preserves (W : World) (hm : ∀ i j, i ≤ j → W.e i ≤ W.e j)
    (hvis : matchRun W.rid W.ids = true) (s : TSys) (h : TInv W s) (st : Step) :
    TInv W (tstep W s st) := (tstep_tinv hm hvis h st).1

/-- Along EVERY execution — units committing on any lanes in any order, completion reports in any
    order, flush ticks at any time under any flush policy, every coordinator / recovery request
    applied on its own, crashes after any request, restarts — the point a fresh start would resume
    from never moves backwards: for any two moments (`steps`, then `more`) the later one resumes at
    a sequence number and a source offset not smaller; and at both it names a committed prefix
    (`resume_is_committed_prefix`, restated here for the split-queue system).
    `hm`: end offsets grow with the unit number; `hvis`: the source still reports the run id the
    units are recorded under. -/
theorem resume_monotone_traffic (W : World) (hm : ∀ i j, i ≤ j → W.e i ≤ W.e j)
    (hvis : matchRun W.rid W.ids = true) (s₀ : TSys) (h₀ : TInv W s₀) (steps more : List Step) :
    startSeqOf W.ver (trunSteps W s₀ steps).ns W.ids
        ≤ startSeqOf W.ver (trunSteps W s₀ (steps ++ more)).ns W.ids ∧
    startOffOf W.ver (trunSteps W s₀ steps).ns W.ids
        ≤ startOffOf W.ver (trunSteps W s₀ (steps ++ more)).ns W.ids ∧
    (∀ j, 0 < j → j ≤ startSeqOf W.ver (trunSteps W s₀ (steps ++ more)).ns W.ids →
        j ∈ (trunSteps W s₀ (steps ++ more)).committed) := by
  obtain ⟨h1, _⟩ := trunSteps_tinv hm hvis steps h₀
  obtain ⟨h2, hle⟩ := trunSteps_tinv hm hvis more h1
  rw [← trunSteps_append] at h2 hle
  obtain ⟨r1, hr1⟩ := h1.root
  obtain ⟨r2, hr2⟩ := h2.root
  refine ⟨hle, ?_, ?_⟩
  · have e1 := startOff_eq (ns := (trunSteps W s₀ steps).ns) (consistent_of_sysInv hm h1.hi) hr1
    have e2 := startOff_eq (ns := (trunSteps W s₀ (steps ++ more)).ns) (consistent_of_sysInv hm h2.hi) hr2
    rw [e1, e2]
    exact hm _ _ hle
  · intro j hj0 hj
    cases hst : startFrontier W.ver (trunSteps W s₀ (steps ++ more)).ns W.ids with
    | mk st reqs =>
      cases st with
      | empty =>
        simp only [startSeqOf, hst] at hj; omega
      | point db rid off seq =>
        simp only [startSeqOf, hst] at hj
        exact (start_sound h2.hi db rid off seq reqs hst).1.2.2 j hj0 hj

/-! ### non-vacuity -/

def exW : World := { e := fun i => 1000 + 10 * i, rid := [114], ids := [[114], [112]], ver := [49] }
def exR (i m : Int) : Rec := { seq := i, endOff := 1000 + 10 * i, mtime := m, runId := [114] }

/-- rebuild: snapshot seq 2, journal {3, 4, 6} in any order → stops at 4 (5 is missing) -/
example : (rebuild [49] (some ⟨[114], 2, 1020, 5, [49]⟩) [exR 6 1, exR 4 2, exR 3 3]).toOption
    = some (some ⟨[114], 4, 1040, 5, [49]⟩) := by decide
example : (match rebuild [49] none [exR 3 1, exR 2 1] with | .error m => m | .ok _ => 0) = 2 := by decide

/-- a run with out-of-order completion, a flush, and a crash in the middle of the journal
    clean-up: start; units 2 and 1 commit (lane order 2, 1); both are reported (2 first);
    the flush at t=2·10⁸ saves frontier 2 and queues DEL 1, DEL 2, ZREM; only the save and
    the first DEL reach the target before the crash. -/
def exSteps : List Step :=
  [.start, .commit 2 7, .commit 1 8, .commit 3 9, .report 2 7 10, .report 1 8 200000000, .apply, .apply, .crash]
def exS : Sys := runSteps exW { ns := { root := some ([114], 1000, 0) } } exSteps
example : exS.ns.frontier = some ⟨[114], 2, 1020, 7, [49]⟩ := by decide
example : exS.ns.journal.map (·.kseq) = [2, 3] := by decide
example : exS.committed = [3, 1, 2] := by decide
/-- a fresh start there resumes after unit 3 (units 1..3 committed) and re-saves first -/
example : startFrontier exW.ver exS.ns exW.ids
    = (.point 0 [114] 1030 3, [.saveFrontier ⟨[114], 3, 1030, 9, [49]⟩, .delRec 3, .zrem [3]]) := by decide
example : SysInv exW { ns := { root := some ([114], 1000, 0) } } := init_inv exW 0

/-- stop/start cycles from that state: stopped after 1, then 0, then 3 recovery requests -/
example : restarts exW.ver exW.ids exS.ns [1, 0, 3]
    = [.point 0 [114] 1030 3, .point 0 [114] 1030 3, .point 0 [114] 1030 3, .point 0 [114] 1030 3] := by decide
example : Consistent exW exS.ns :=
  ⟨fun i j h => by simp only [exW]; omega,
   by decide,
   by intro f hf; have : exS.ns.frontier = some ⟨[114], 2, 1020, 7, [49]⟩ := by decide
      rw [this] at hf; simp only [Option.some.injEq] at hf; subst hf; decide,
   by intro x hx; have : exS.ns.root = some ([114], 1000, 0) := by decide
      rw [this] at hx; simp only [Option.some.injEq] at hx; subst hx; decide⟩

/-- the state the reviewer found: fresh namespace, the lane of unit 1 is slow, unit 2 commits,
    crash. `RebuildBisyncFrontier` reports a gap (journal {2}, no snapshot); the start falls back
    to the root checkpoint and purges that journal instead of failing for ever. -/
def exGap : Sys := runSteps exW { ns := { root := some ([114], 1000, 0) } } [.start, .commit 2 7, .crash]
example : exGap.ns.journal.map (·.kseq) = [2] := by decide
example : startFrontier exW.ver exGap.ns exW.ids
    = (.point 0 [114] 1000 0, [.delRec 2, .zrem [2], .delFrontier]) := by decide

/-- executions with traffic in the split-queue system: the same run as `exSteps`, then a restart
    (whose three recovery requests are applied before anything else), units 5 and 4, a report, a crash
    in the middle: the resume number at successive moments is 0, 0 (unit 2 alone: a gap), 3, 3, 3, 5 —
    never smaller than before -/
def exT0 : TSys := { ns := { root := some ([114], 1000, 0) } }
def exTSteps : List Step := exSteps ++ [.start, .commit 4 1, .apply, .apply, .apply, .commit 5 2, .commit 4 3, .report 4 3 11, .crash]
example : TInv exW exT0 := traffic_init_inv exW 0
example : [2, 4, 9, 10, 13, 18].map (fun k => startSeqOf exW.ver (trunSteps exW exT0 (exTSteps.take k)).ns exW.ids)
    = [0, 3, 3, 3, 3, 5] := by decide
/-- the unit committed while the recovery requests of the restart were outstanding was not accepted
    (step 11, `.commit 4 1`): the send loop has not started yet -/
example : (trunSteps exW exT0 (exTSteps.take 11)).committed = [3, 1, 2] := by decide
example : (trunSteps exW exT0 exTSteps).committed = [4, 5, 3, 1, 2] := by decide
example : startOffOf exW.ver (trunSteps exW exT0 (exTSteps.take 4)).ns exW.ids
      ≤ startOffOf exW.ver (trunSteps exW exT0 (exTSteps.take 4 ++ exTSteps.drop 4)).ns exW.ids :=
  (resume_monotone_traffic exW (fun i j h => by simp only [exW]; omega) (by decide) exT0
    (traffic_init_inv exW 0) (exTSteps.take 4) (exTSteps.drop 4)).2.1

/-- sync mode: units committed one after the other with restarts in between -/
def exSync : SyncSys := syncRun exW { ns := { root := some ([114], 1000, 0) }, cur := 0 }
  [.restart, .commitNext 5, .commitNext 6, .restart, .commitNext 7, .restart]
example : exSync.applied = [1, 2, 3] := by decide
example : startLatest exSync.ns exW.ids = .point 0 [114] 1030 3 := by decide

end GunYu.Props.C14
