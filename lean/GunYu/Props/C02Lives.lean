/-
  C02 over ANY NUMBER of crashes and restarts. `Props/C02TwoRuns.lean` joins a first
  run on a target without position and one resumed run. Here the step is made
  general -- the crashed run may itself be a resumed one, on a target that holds
  the records of all earlier lives -- and iterated:

  `crash_cut_resumed`  what the crashed target executed, relative to the position
                       it stored, when the run was resumed from `(start0, d0)`;
  `life_step`          one life: from a target whose unique largest offset is
                       `(d0, start0)` (or without any), after ANY crash the unique
                       largest offset is `(d, o)`, the target gained `S1 ++ X`, and
                       `specStream d0 (stream after start0) = S1 ++ specStream d
                       (stream after o)`, `X` a prefix of the latter;
  `Lives`              the states reachable by any number of such lives;
  `lives_lose_nothing` for every reachable state: the specification of the whole
                       stream splits into a part `P` that the target has executed
                       (as a subsequence of what it executed since the beginning,
                       in order) and exactly what a run resumed from the stored
                       position will execute -- NO WRITE IS EVER LOST, whatever
                       the number of crashes;
  `lives_txn_exact`    if every life ran in transactional resumable mode the
                       target has executed exactly `P`: NOTHING IS EVER REPEATED.
-/
import GunYu.Props.C02TwoRuns
import GunYu.Props.C09

namespace GunYu.Props.C02
open GunYu GunYu.Sender GunYu.Target

/-- `crash_cut` for a run resumed from `(start0, pc.startDbId)` (with
    `startDbId ≤ 0` this is `crash_cut`): the commands executed before the last
    position write are exactly the forwarded commands of the resumed parser's items
    for the source commands ending at or before `o` -- the initial select included. -/
theorem crash_cut_resumed (pc : PCfg) (sc : SCfg) (raws : List Raw) (start0 : Int) (evs : List Ev)
    (hitems : itemsOf evs = parserItems pc start0 raws)
    (hraw : (raws.map (·.off)).Pairwise (· < ·)) (hlo : ∀ r ∈ raws, start0 < r.off)
    (hstart : 0 ≤ start0) (hnd : C01.NoDone evs)
    (hnn : ItemsNoNested false (parseAll pc { lastSent := start0 } raws))
    (hnf : parseFails pc { lastSent := start0 } raws = false)
    (E E1 E2 : List Req) (o : Int) (hE : E <+: bodies (run sc initS evs).2)
    (hsplit : E = E1 ++ Req.cpOffset o :: E2) :
    raws = raws.filter (fun r => decide (r.off ≤ o)) ++ raws.filter (fun r => decide (o < r.off)) ∧
    parseFails pc { lastSent := start0 } (raws.filter (fun r => decide (r.off ≤ o))) = false ∧
    (parseState pc { lastSent := start0 } (raws.filter (fun r => decide (r.off ≤ o)))).bypass = false ∧
    start0 ≤ o ∧
    dataBO E1 = itemCmdsO (parserItems pc start0 (raws.filter (fun r => decide (r.off ≤ o)))) ∧
    dataBO E2 <+: itemCmdsO (parseAll pc
      (parseState pc { lastSent := start0 } (raws.filter (fun r => decide (r.off ≤ o))))
      (raws.filter (fun r => decide (o < r.off)))) := by
  have hAB := sorted_split raws o hraw
  generalize hA : raws.filter (fun r => decide (r.off ≤ o)) = A at hAB ⊢
  generalize hB : raws.filter (fun r => decide (o < r.off)) = B at hAB ⊢
  have hAle : ∀ r ∈ A, r.off ≤ o := by
    intro r hr; rw [← hA] at hr; simpa using (List.mem_filter.mp hr).2
  have hBgt : ∀ r ∈ B, o < r.off := by
    intro r hr; rw [← hB] at hr; simpa using (List.mem_filter.mp hr).2
  have hnfA : parseFails pc { lastSent := start0 } A = false := by
    rw [hAB] at hnf; exact parseFails_append_left pc _ A B hnf
  have hwf := run_wf sc initS evs
  have hm : SMono initS.txn initS.lastOffset evs :=
    resumed_parser_feeds_smono pc raws start0 evs hitems hraw hlo hstart
  obtain ⟨R, hR⟩ := hE
  have hocp : o ∈ cpOffsets (run sc initS evs).2 := by
    rw [← cpOffsetsB_bodies _ hwf, ← hR, hsplit, cpOffsetsB_append, cpOffsetsB_append]
    apply List.mem_append_left; apply List.mem_append_right
    simp [cpOffsetsB, cpOfReq]
  -- the position is at or above the start
  have hso : start0 ≤ o := by
    have := (resumed_wire sc pc raws start0 evs hitems hraw hlo hstart).2.1
    rw [cpOffsetsB_bodies _ hwf] at this
    exact this o hocp
  -- 1. the cut is safe
  have hnil : o = start0 → A = [] := by
    intro h
    rw [← hA]
    apply List.filter_eq_nil_iff.mpr
    intro x hx
    have := hlo x hx
    simp only [decide_eq_true_eq]; omega
  have hbyp : (parseState pc { lastSent := start0 } A).bypass = false := by
    rcases run_cp_origin sc initS evs o hocp with ⟨he, hp⟩ | ⟨i, hi, he⟩
    · simp only [initS] at he; omega
    · rw [hitems] at hi
      unfold parserItems at hi
      rcases List.mem_append.mp hi with hi1 | hi2
      · -- the initial select: the position is the start offset
        split at hi1
        · simp only [List.mem_singleton] at hi1
          rw [hnil (by rw [he, hi1]; rfl)]; rfl
        · cases hi1
      · rcases offset_cut_unbypassed pc raws { lastSent := start0 } hraw hlo i hi2 with h | ⟨pre, r, post, hr, hro, _, hb⟩
        · rw [hnil (by rw [he, h])]; rfl
        · have hsorted := hraw
          rw [hr, show pre ++ r :: post = (pre ++ [r]) ++ post by simp, List.map_append,
            List.pairwise_append] at hsorted
          have h1 : ∀ x ∈ pre ++ [r], x.off ≤ o := by
            intro x hx
            rcases List.mem_append.mp hx with hx' | hx'
            · have hs := hsorted.1
              rw [List.map_append, List.pairwise_append] at hs
              have := hs.2.2 _ (List.mem_map.mpr ⟨x, hx', rfl⟩) r.off (by simp)
              omega
            · simp only [List.mem_singleton] at hx'; subst hx'; omega
          have h2 : ∀ x ∈ post, ¬ x.off ≤ o := by
            intro x hx
            have := hsorted.2.2 r.off (List.mem_map.mpr ⟨r, by simp, rfl⟩) _ (List.mem_map.mpr ⟨x, hx, rfl⟩)
            omega
          have heq : A ++ B = (pre ++ [r]) ++ post := by rw [← hAB, hr]; simp
          have := (split_unique (fun x : Raw => x.off ≤ o) heq hAle
            (fun x hx => by have := hBgt x hx; omega) h1 h2).1
          rw [this]; exact hb
  -- 2. conservation with offsets
  have hcons := run_dataO sc initS evs
  have hq0 : qdO initS = [] := rfl
  have ht0 : initS.txn = Txn.no := rfl
  rw [hq0, List.nil_append, ht0, ← cut_of_noDone evs hnd, fwdO_cut_items, cut_of_noDone evs hnd,
    hitems, fwdItemsO_eq Txn.no _ (itemsNoNested_parserItems pc start0 raws hnn),
    ← dataBO_bodies _ hwf, ← hR, hsplit] at hcons
  rw [hAB, parserItems_append pc start0 A B hnfA, itemCmdsO_append] at hcons
  simp only [dataBO_append, dataBO_cons_cp, List.append_assoc] at hcons
  have hsorted := wire_ordered sc evs hm
  rw [← keys_bodies _ hwf, ← hR, hsplit] at hsorted
  simp only [keysB_append, List.append_assoc] at hsorted
  have hkcp : keysB (Req.cpOffset o :: E2) = (2 * o + 1) :: keysB E2 := by
    rw [keysB_cons]; simp [keyOfReq]
  rw [hkcp] at hsorted
  have hs1 := (List.pairwise_append.mp hsorted)
  have hs2 := List.pairwise_cons.mp hs1.2.1
  have hsplit' := split_unique (fun x : CmdO => x.2.2 ≤ o) hcons
    (by
      intro x hx
      have := hs1.2.2 _ (dataBO_key hx) (2 * o + 1) (List.mem_cons_self ..)
      omega)
    (by
      intro x hx
      rcases List.mem_append.mp hx with h | h
      · have := hs2.1 _ (List.mem_append_left _ (dataBO_key h)); omega
      · rcases List.mem_append.mp h with h | h
        · have := hs2.1 _ (List.mem_append_right _ (dataBO_key h)); omega
        · obtain ⟨i, hi, hio⟩ := qdO_mem_offset h
          have := pending_not_covered sc evs hm o hocp i hi
          omega)
    (itemCmdsO_parserItems_le pc start0 o A hso hAle)
    (by
      intro x hx
      obtain ⟨r, hr, hxr⟩ := itemCmdsO_own pc _ B x hx
      have := hBgt r hr; omega)
  exact ⟨hAB, hnfA, hbyp, hso, hsplit'.1, ⟨_, hsplit'.2⟩⟩

theorem parserItems_ge (pc : PCfg) (start : Int) (raws : List Raw)
    (hraw : (raws.map (·.off)).Pairwise (· < ·)) (hlo : ∀ r ∈ raws, start < r.off) :
    ∀ i ∈ parserItems pc start raws, start ≤ i.offset := by
  intro i hi
  unfold parserItems at hi
  rcases List.mem_append.mp hi with h | h
  · split at h
    · simp only [List.mem_singleton] at h; subst h; simp [selectItem]
    · cases h
  · have := itemsMono_ge (parseAll_itemsMono pc raws { lastSent := start } .no rfl hraw hlo) i h
    simpa using this

/-- no position is stored (hashes may exist: the run-id fields are written first) -/
def NoOffsets (cps : List (Int × CpRec)) : Prop := ∀ d, (getCp cps d).offset = none

/-- `crash_resume_db` for a target that holds no POSITION (rather than no hash) -/
theorem crash_resume_db_nooff (c : SCfg) (evs : List Ev) (hm : SMono initS.txn initS.lastOffset evs)
    (t : TState) (hno : NoOffsets t.cps)
    (E : List Req) (hE : E <+: bodies (run c initS evs).2)
    (E1 E2 : List Req) (o : Int) (hsplit : E = E1 ++ Req.cpOffset o :: E2)
    (hlast : cpOffsetsB E2 = []) :
    UniqueMax (E.foldl execReq t).cps (E1.foldl execReq t).cur o := by
  obtain ⟨R, hER⟩ := hE
  have hok := run_ok c initS evs (qok_nil _) hm
  have hkeys : keysB E ++ keysB R = keys (run c initS evs).2 := by
    rw [← keysB_append, hER, keys_bodies _ (run_wf c initS evs)]
  have hsortedE : (keysB E).Pairwise (· ≤ ·) := by
    have := hok.2.1.1
    rw [← hkeys] at this
    exact (List.pairwise_append.mp this).1
  have hlow : ∀ k ∈ keysB E, 2 * (-1 : Int) ≤ k := by
    intro k hk
    have := (hok.2.1.2 k (by rw [← hkeys]; exact List.mem_append_left _ hk)).1
    simp [lowkey, initS] at this
    omega
  subst hsplit
  exact resume_db_unique_from E1 E2 o t (2 * (-1)) (2 * (-1))
    ⟨(by intro d o' h; rw [hno d] at h; cases h), (by intro d _ o' h; rw [hno d] at h; cases h),
      Int.le_refl _, -1, rfl⟩ hsortedE hlow hlast

/-- what `StartPoint` reads on a target: nothing (then the run starts at `start`,
    in database 0), or the unique largest offset and its database -/
def StartsAt (cps : List (Int × CpRec)) (start : Int) (o d : Int) : Prop :=
  (NoOffsets cps ∧ o = start ∧ d = 0) ∨ UniqueMax cps d o

/-- **One life.** Resume from what `StartPoint` read (`StartsAt`: nothing, or the
    unique largest offset `start0` in database `d0`) with the real parser's items
    for the stream after `start0`, any configuration, any schedule, a new
    connection; the target dies after ANY number of requests, having executed the
    wire prefix `E` whose last position write is `o` in database `d`. Then `(d, o)`
    is again the unique largest offset, and with `A`/`B` the source commands ending
    at or before / after `o`:
    `specStream d0 (stream) = S1 ++ specStream d B`, the target gained `S1 ++ X`,
    `X` a prefix of `specStream d B`. -/
theorem life_step (pc : PCfg) (d0 : Int) (sc : SCfg) (raws : List Raw) (start0 : Int) (evs : List Ev)
    (hitems : itemsOf evs = parserItems { pc with startDbId := d0 } start0 raws)
    (hraw : (raws.map (·.off)).Pairwise (· < ·)) (hlo : ∀ r ∈ raws, start0 < r.off)
    (hstart : 0 ≤ start0) (hnd : C01.NoDone evs)
    (hnn : ItemsNoNested false (parseAll pc { lastSent := start0 } raws))
    (hnf : parseFails pc { lastSent := start0 } raws = false)
    (hsel : ∀ x ∈ raws, x.cmd = bSelect → ∀ a n, x.args = [a] → atoi? a = some n → 0 ≤ n)
    (hmap : ∀ n : Int, 0 ≤ n → mapDb pc n ≠ -1)
    (t : TState) (hcur : t.cur = 0) (hd0 : 0 ≤ d0)
    (ht : (NoOffsets t.cps ∧ d0 = 0) ∨ UniqueMax t.cps d0 start0)
    (E E1 E2 : List Req) (o : Int) (hE : E <+: bodies (run sc initS evs).2)
    (hsplit : E = E1 ++ Req.cpOffset o :: E2) (hlast : cpOffsetsB E2 = [])
    (d : Int) (hd : d = (E1.foldl execReq t).cur) (hdpos : 0 ≤ d) :
    let A := raws.filter (fun r => decide (r.off ≤ o))
    let B := raws.filter (fun r => decide (o < r.off))
    let S1 := (seqApplied d0 (itemCmds (parseAll pc { lastSent := start0 } A))).2
    UniqueMax (E.foldl execReq t).cps d o ∧ start0 ≤ o ∧
    specStream pc false d0 raws = S1 ++ specStream pc false d B ∧
    (E.foldl execReq t).applied = t.applied ++ S1 ++ (seqApplied d (dataB E2)).2 ∧
    (seqApplied d (dataB E2)).2 <+: specStream pc false d B := by
  simp only
  have hnn0 : ItemsNoNested false (parseAll { pc with startDbId := d0 } { lastSent := start0 } raws) := by
    rw [parseAll_setDb]; exact hnn
  have hnf0 : parseFails { pc with startDbId := d0 } { lastSent := start0 } raws = false := by
    rw [parseFails_setDb]; exact hnf
  obtain ⟨hAB, hnfA, hbyp, hso, hd1, hd2⟩ := crash_cut_resumed { pc with startDbId := d0 } sc raws start0 evs
    hitems hraw hlo hstart hnd hnn0 hnf0 E E1 E2 o hE hsplit
  rw [parseFails_setDb] at hnfA
  rw [parseState_setDb] at hbyp
  rw [parseState_setDb, parseAll_setDb] at hd2
  generalize hA : raws.filter (fun r => decide (r.off ≤ o)) = A at hAB hnfA hbyp hd1 hd2 ⊢
  generalize hB : raws.filter (fun r => decide (o < r.off)) = B at hAB hd2 ⊢
  have hwf := run_wf sc initS evs
  have hm : SMono initS.txn initS.lastOffset evs :=
    resumed_parser_feeds_smono _ raws start0 evs hitems hraw hlo hstart
  have hplainE : ∀ r ∈ E, Plain r = true := fun r hr => bodies_plain _ hwf r (hE.subset hr)
  have hplain1 : ∀ r ∈ E1, Plain r = true := fun r hr => hplainE r (by rw [hsplit]; exact List.mem_append_left _ hr)
  have hdb1 : dataB E1 = itemCmds (parserItems { pc with startDbId := d0 } start0 A) := by
    rw [← dataBO_proj, hd1, itemCmdsO_proj]
  have hdb2 : dataB E2 <+: itemCmds (parseAll pc (parseState pc { lastSent := start0 } A) B) := by
    rw [← dataBO_proj, ← itemCmdsO_proj]
    obtain ⟨z, hz⟩ := hd2
    exact ⟨z.map dropOff, by rw [← List.map_append, hz]⟩
  -- the database at the position write
  have hdb : d = (seqApplied d0 (itemCmds (parseAll pc { lastSent := start0 } A))).1 := by
    rw [hd, (foldl_execReq_seq E1 hplain1 t).1, hcur, hdb1, seq_parserItems pc d0 start0 hd0 A]
  have hselAB : ∀ x ∈ A ++ B, x.cmd = bSelect → ∀ a n, x.args = [a] → atoi? a = some n → 0 ≤ n := by
    rw [← hAB]; exact hsel
  have hselB : ∀ x ∈ B, x.cmd = bSelect → ∀ a n, x.args = [a] → atoi? a = some n → 0 ≤ n :=
    fun x hx => hselAB x (List.mem_append_right _ hx)
  -- the specification splits at the position (configuration of the NEXT run: startDbId = d)
  obtain ⟨hspec, hres⟩ := restart_completes_spec_gen { pc with startDbId := d } { lastSent := start0 } d0 A B o
    (by rw [parseFails_setDb]; exact hnfA) (by rw [parseState_setDb]; exact hbyp)
    (Or.inr rfl) hselAB (fun n hn => by rw [mapDb_setDb]; exact hmap n hn)
    (by rw [parseAll_setDb]; exact hdb) hdpos
  have hstartspec := restart_at_start_is_spec { pc with startDbId := d } B o hselB
    (fun n hn => by rw [mapDb_setDb]; exact hmap n hn) hdpos
  rw [specStream_setDb] at hstartspec
  rw [specStream_setDb, parseAll_setDb, hstartspec, ← hAB] at hspec
  rw [parseState_setDb, parseAll_setDb, hstartspec] at hres
  refine ⟨?_, hso, hspec, ?_, ?_⟩
  · -- the unique largest offset
    rcases ht with ⟨hno, _⟩ | hu
    · rw [hd]; exact crash_resume_db_nooff sc evs hm t hno E hE E1 E2 o hsplit hlast
    · obtain ⟨hs, hcp, hdata⟩ := resumed_wire sc { pc with startDbId := d0 } raws start0 evs hitems hraw hlo hstart
      rcases resumed_unique_max _ t d0 start0 hu hcur hd0 hs hcp hdata E hE with ⟨hnone, _⟩ | ⟨E1', o', E2', hs', hl', _, hum⟩
      · exfalso
        rw [hsplit, cpOffsetsB_append] at hnone
        have : o ∈ cpOffsetsB E1 ++ cpOffsetsB (Req.cpOffset o :: E2) := by
          apply List.mem_append_right; simp [cpOffsetsB, cpOfReq]
        rw [hnone] at this; cases this
      · rw [hsplit] at hs'
        obtain ⟨h1, h2, _⟩ := last_cp_unique hs' hlast hl'
        rw [hd, h1, h2, hsplit]
        rw [hsplit] at hum
        exact hum
  · rw [(foldl_execReq_seq E hplainE t).2, hcur, hsplit]
    have : dataB (E1 ++ Req.cpOffset o :: E2) = dataB E1 ++ dataB E2 := by
      rw [dataB_append, dataB_cons_cp]
    rw [this, seqApplied_append, hdb1, seq_parserItems pc d0 start0 hd0 A, ← hdb, List.append_assoc]
  · rw [← hres]
    exact seqApplied_prefix _ hdb2


/-- the position part of `life_step` needs no assumption on the database id -/
theorem life_position (pc : PCfg) (d0 : Int) (sc : SCfg) (raws : List Raw) (start0 : Int) (evs : List Ev)
    (hitems : itemsOf evs = parserItems { pc with startDbId := d0 } start0 raws)
    (hraw : (raws.map (·.off)).Pairwise (· < ·)) (hlo : ∀ r ∈ raws, start0 < r.off)
    (hstart : 0 ≤ start0)
    (t : TState) (hcur : t.cur = 0) (hd0 : 0 ≤ d0)
    (ht : (NoOffsets t.cps ∧ d0 = 0) ∨ UniqueMax t.cps d0 start0)
    (E E1 E2 : List Req) (o : Int) (hE : E <+: bodies (run sc initS evs).2)
    (hsplit : E = E1 ++ Req.cpOffset o :: E2) (hlast : cpOffsetsB E2 = []) :
    UniqueMax (E.foldl execReq t).cps (E1.foldl execReq t).cur o := by
  have hm : SMono initS.txn initS.lastOffset evs :=
    resumed_parser_feeds_smono _ raws start0 evs hitems hraw hlo hstart
  rcases ht with ⟨hno, _⟩ | hu
  · exact crash_resume_db_nooff sc evs hm t hno E hE E1 E2 o hsplit hlast
  · obtain ⟨hs, hcp, hdata⟩ := resumed_wire sc { pc with startDbId := d0 } raws start0 evs hitems hraw hlo hstart
    rcases resumed_unique_max _ t d0 start0 hu hcur hd0 hs hcp hdata E hE with ⟨hnone, _⟩ | ⟨E1', o', E2', hs', hl', _, hum⟩
    · exfalso
      rw [hsplit, cpOffsetsB_append] at hnone
      have : o ∈ cpOffsetsB E1 ++ cpOffsetsB (Req.cpOffset o :: E2) := by
        apply List.mem_append_right; simp [cpOffsetsB, cpOfReq]
      rw [hnone] at this; cases this
    · rw [hsplit] at hs'
      obtain ⟨h1, h2, _⟩ := last_cp_unique hs' hlast hl'
      rw [h1, h2, hsplit]
      rw [hsplit] at hum
      exact hum

/-- a life that dies before any position write: every stored offset is what it
    was, and what the target gained is a prefix of what the run had to execute -/
theorem life_nocp (pc : PCfg) (d0 : Int) (sc : SCfg) (raws : List Raw) (start0 : Int) (evs : List Ev)
    (hitems : itemsOf evs = parserItems { pc with startDbId := d0 } start0 raws)
    (hnd : C01.NoDone evs)
    (hnn : ItemsNoNested false (parseAll pc { lastSent := start0 } raws))
    (hsel : ∀ x ∈ raws, x.cmd = bSelect → ∀ a n, x.args = [a] → atoi? a = some n → 0 ≤ n)
    (hmap : ∀ n : Int, 0 ≤ n → mapDb pc n ≠ -1)
    (t : TState) (hcur : t.cur = 0) (hd0 : 0 ≤ d0)
    (E : List Req) (hE : E <+: bodies (run sc initS evs).2) (hnone : cpOffsetsB E = []) :
    (∀ d, (getCp (E.foldl execReq t).cps d).offset = (getCp t.cps d).offset) ∧
    (E.foldl execReq t).applied = t.applied ++ (seqApplied 0 (dataB E)).2 ∧
    (seqApplied 0 (dataB E)).2 <+: specStream pc false d0 raws := by
  have hwf := run_wf sc initS evs
  have hplainE : ∀ r ∈ E, Plain r = true := fun r hr => bodies_plain _ hwf r (hE.subset hr)
  refine ⟨fun d => fold_no_cp_offsets E hnone t d, ?_, ?_⟩
  · rw [(foldl_execReq_seq E hplainE t).2, hcur]
  · have hnn0 : ItemsNoNested false (parseAll { pc with startDbId := d0 } { lastSent := start0 } raws) := by
      rw [parseAll_setDb]; exact hnn
    have hnn' : C01.NoNested (inT .no) evs :=
      C01.noNested_of_items _ evs (by rw [hitems]; exact itemsNoNested_parserItems _ start0 raws hnn0)
    have h1 : dataB E <+: itemCmds (parserItems { pc with startDbId := d0 } start0 raws) := by
      have : dataB E <+: dataB (bodies (run sc initS evs).2) := prefix_filterMap _ hE
      rw [dataB_bodies _ hwf] at this
      have h2 := C01.wire_prefix sc evs
      rw [C01.fwd_eq_plainItems .no evs hnd hnn', C01.plainItems_eq_itemCmds, hitems] at h2
      exact this.trans h2
    have h3 := restart_at_start_is_spec { pc with startDbId := d0 } raws start0 hsel
      (fun n hn => by rw [mapDb_setDb]; exact hmap n hn) hd0
    rw [specStream_setDb] at h3
    rw [← h3]
    exact seqApplied_prefix 0 h1

theorem startsAt_unique {cps : List (Int × CpRec)} {s o d o' d' : Int}
    (h : StartsAt cps s o d) (h' : StartsAt cps s o' d') : o = o' ∧ d = d' := by
  rcases h with ⟨hn, ho, hd⟩ | hu
  · rcases h' with ⟨_, ho', hd'⟩ | hu'
    · exact ⟨by rw [ho, ho'], by rw [hd, hd']⟩
    · have := hu'.1; rw [hn d'] at this; cases this
  · rcases h' with ⟨hn', _, _⟩ | hu'
    · have := hu.1; rw [hn' d] at this; cases this
    · by_cases hdd : d = d'
      · subst hdd
        have := hu.1; rw [hu'.1] at this
        injection this with this
        exact ⟨this.symm, rfl⟩
      · have h1 := hu.2 d' (fun h => hdd h.symm) o' hu'.1
        have h2 := hu'.2 d hdd o hu.1
        omega

/-- `StartsAt` only reads the stored offsets -/
theorem startsAt_congr {cps cps' : List (Int × CpRec)} {s o d : Int}
    (h : ∀ x, (getCp cps' x).offset = (getCp cps x).offset) (hs : StartsAt cps s o d) :
    StartsAt cps' s o d := by
  rcases hs with ⟨hn, ho, hd⟩ | hu
  · exact Or.inl ⟨fun x => by rw [h x]; exact hn x, ho, hd⟩
  · exact Or.inr ⟨by rw [h d]; exact hu.1, fun d' hd' o' ho' => hu.2 d' hd' o' (by rw [← h d']; exact ho')⟩


/-! ### What a life of `Lives` stands for

A life of `Lives` has a schedule without `done` that contains ALL remaining items.
A real life receives some prefix of the stream, may end its loop by `done`, and
dies after `k` requests. The two lemmas below say that nothing is lost by the
restriction: the first `k` requests of a schedule do not depend on what follows
it (so the remaining items can be appended), and a `done` does to the loop what a
checkpoint tick does and ends it (so it can be replaced by one, dropping what
follows). -/

theorem life_received_prefix_wlog (c : SCfg) (evs1 more : List Ev) (k : Nat) (hnd : C01.NoDone evs1)
    (hk : k ≤ (run c initS evs1).2.flatten.length) :
    (run c initS (evs1 ++ more)).2.flatten.take k = (run c initS evs1).2.flatten.take k := by
  rw [C09.run_append c initS evs1 more hnd]
  simp only [List.flatten_append]
  exact List.take_append_of_le_length hk

theorem done_is_cpTick (c : SCfg) (s : SState) : step c s .done = step c s .cpTick := rfl

theorem run_done_as_cpTick (c : SCfg) (pre post : List Ev) (hnd : C01.NoDone pre) :
    run c initS (pre ++ Ev.done :: post) = run c initS (pre ++ [Ev.cpTick]) := by
  rw [C09.run_append c initS pre _ hnd, C09.run_append c initS pre _ hnd]
  have h1 : run c (run c initS pre).1 (Ev.done :: post) = step c (run c initS pre).1 .done := by
    simp [run]
  rw [h1, C09.run_single, done_is_cpTick]

/-- **The states reachable by any number of lives.** `Lives pc raws start t0 txn T o d`:
    starting from the target `t0` (no position stored), after some number of lives
    the target is `T` and the next `StartPoint` reads position `o` in database `d`.
    A life: ANY batching configuration, ANY schedule of ticks around the real
    parser's items for the stream after the position read (resumed in its
    database, new connection), and the target dies after ANY number `k` of
    requests. `txn = true` restricts every life to transactional resumable mode. -/
inductive Lives (pc : PCfg) (raws : List Raw) (start : Int) (t0 : TState) (txn : Bool) :
    TState → Int → Int → Prop
  | init : Lives pc raws start t0 txn t0 start 0
  | life {T : TState} {o d : Int} (h : Lives pc raws start t0 txn T o d)
      (sc : SCfg) (evs : List Ev) (k : Nat) (o' d' : Int)
      (hitems : itemsOf evs =
        parserItems { pc with startDbId := d } o (raws.filter (fun r => decide (o < r.off))))
      (hnd : C01.NoDone evs)
      (htx : txn = true → sc.txnMode = true ∧ sc.resume = true)
      (hpos : StartsAt (applyLog (crash T) ((run sc initS evs).2.flatten.take k)).cps start o' d') :
      Lives pc raws start t0 txn (applyLog (crash T) ((run sc initS evs).2.flatten.take k)) o' d'

/-- `Replayed S P Q`: the history `Q` of a target is the part `P` of the specification
    `S` executed life by life -- each life executes the NEXT piece `S1` of the
    specification (from where `P` ended) and possibly an overshoot `X`, a prefix of
    what the specification continues with; the overshoot is what the next life
    executes again. Nothing else is ever in `Q`. -/
inductive Replayed (S : List Applied) : List Applied → List Applied → Prop
  | nil : Replayed S [] []
  | life {P Q : List Applied} (h : Replayed S P Q) (S1 X : List Applied)
      (hS : P ++ S1 <+: S) (hX : X <+: S.drop (P ++ S1).length) :
      Replayed S (P ++ S1) (Q ++ S1 ++ X)

theorem Replayed.sublist {S P Q : List Applied} (h : Replayed S P Q) : List.Sublist P Q := by
  induction h with
  | nil => exact List.Sublist.refl _
  | life _ S1 X _ _ ih =>
    exact (ih.append (List.Sublist.refl S1)).trans (List.sublist_append_left _ _)

theorem filter_gt_filter (raws : List Raw) (o o' : Int) (h : o ≤ o') :
    (raws.filter (fun r => decide (o < r.off))).filter (fun r => decide (o' < r.off)) =
      raws.filter (fun r => decide (o' < r.off)) := by
  rw [List.filter_filter]
  apply List.filter_congr
  intro x _
  by_cases hx : o' < x.off
  · have : o < x.off := by omega
    simp [hx, this]
  · simp [hx]

/-- **No write is ever lost, whatever the number of crashes; transactional mode
    never repeats one.** For every state reachable by lives: the next `StartPoint`
    reads `(o, d)` (`StartsAt`), and the one-pass specification of the WHOLE stream
    is `P ++ specStream d (stream after o)` where `P` has been executed by the
    target -- in order, as a subsequence of what it executed since the beginning
    (`Q`; the rest of `Q` are repetitions) -- and the second part is exactly what a
    run resumed from `(o, d)` executes. If every life was transactional and
    resumable, `Q = P`: nothing was executed twice. What else `Q` holds is said
    exactly by `Replayed`: life by life the next piece of the specification and an
    overshoot that is a prefix of what the specification continues with -- every
    extra command is a repetition-to-be of the next life, nothing is invented.
    (`Props/C02Start.lean` `lives_startPoint`: `StartsAt` is what the modelled
    `GetCheckpoint` returns in every reachable state.) -/
theorem lives_lose_nothing (pc : PCfg) (raws : List Raw) (start : Int) (t0 : TState) (txn : Bool)
    (hraw : (raws.map (·.off)).Pairwise (· < ·)) (hlo : ∀ r ∈ raws, start < r.off)
    (hstart : 0 ≤ start)
    (hnest : RawNoNested false raws)
    (hpass : ∀ r ∈ raws, (r.cmd = bMulti ∨ r.cmd = bExec) →
      pc.filterCmd r.cmd = false ∧ (pc.filterCmdKey r.cmd r.args).isSome)
    (hnf : parseFails pc { lastSent := start } raws = false)
    (hsel : ∀ x ∈ raws, x.cmd = bSelect → ∀ a n, x.args = [a] → atoi? a = some n → 0 ≤ n)
    (hmapnn : ∀ n : Int, 0 ≤ n → 0 ≤ mapDb pc n)
    (hno : NoOffsets t0.cps)
    (T : TState) (o d : Int) (h : Lives pc raws start t0 txn T o d) :
    StartsAt T.cps start o d ∧ start ≤ o ∧ 0 ≤ d ∧
    ∃ P Q, T.applied = t0.applied ++ Q ∧ List.Sublist P Q ∧
      specStream pc false 0 raws = P ++ specStream pc false d (raws.filter (fun r => decide (o < r.off))) ∧
      (txn = true → Q = P) ∧ Replayed (specStream pc false 0 raws) P Q := by
  have hmap := mapDb_ne_of_nonneg pc hmapnn
  induction h with
  | init =>
    refine ⟨Or.inl ⟨hno, rfl, rfl⟩, Int.le_refl _, Int.le_refl _, [], [], by simp, List.Sublist.refl _, ?_,
      fun _ => rfl, Replayed.nil⟩
    have : raws.filter (fun r => decide (start < r.off)) = raws := by
      apply List.filter_eq_self.mpr
      intro x hx; simpa using hlo x hx
    rw [this]; rfl
  | @life T o d hL sc evs k o' d' hitems hnd htx hpos ih =>
    obtain ⟨hsa, hso, hd0, P, Q, happ, hsub, hspec, hexact, hrep⟩ := ih
    -- the stream this life reads
    generalize hB : raws.filter (fun r => decide (o < r.off)) = B at hitems hspec
    have hBsub : List.Sublist B raws := by rw [← hB]; exact List.filter_sublist
    have hrawB : (B.map (·.off)).Pairwise (· < ·) := hraw.sublist (hBsub.map _)
    have hloB : ∀ r ∈ B, o < r.off := by
      intro r hr; rw [← hB] at hr; simpa using (List.mem_filter.mp hr).2
    have ho0 : 0 ≤ o := by omega
    have hnnB : ItemsNoNested false (parseAll pc { lastSent := o } B) := by
      rw [← hB]; exact run2_items_noNested_src pc raws o hraw hnest hpass
    have hnfB : parseFails pc { lastSent := o } B = false := parseFails_sublist pc _ _ hBsub hnf
    have hselB : ∀ x ∈ B, x.cmd = bSelect → ∀ a n, x.args = [a] → atoi? a = some n → 0 ≤ n :=
      fun x hx => hsel x (hBsub.subset hx)
    -- the target at the start of this life
    have hcur : (crash T).cur = 0 := rfl
    have hq : (crash T).queued = none := rfl
    have hcps : (crash T).cps = T.cps := rfl
    have happc : (crash T).applied = T.applied := rfl
    have ht : (NoOffsets (crash T).cps ∧ d = 0) ∨ UniqueMax (crash T).cps d o := by
      rw [hcps]
      rcases hsa with ⟨h1, _, h3⟩ | h
      · exact Or.inl ⟨h1, h3⟩
      · exact Or.inr h
    have hm : SMono initS.txn initS.lastOffset evs :=
      resumed_parser_feeds_smono _ B o evs hitems hrawB hloB ho0
    -- what the dead target executed: a wire prefix (whole blocks in transactional mode)
    have hEx : ∃ E, E <+: bodies (run sc initS evs).2 ∧
        SameData (applyLog (crash T) ((run sc initS evs).2.flatten.take k)) (E.foldl execReq (crash T)) ∧
        (txn = true → ∀ y, 2 * y ∈ keysB E → ∃ o ∈ cpOffsetsB E, y ≤ o) := by
      cases htxn : txn with
      | false =>
        obtain ⟨E, hE, hs⟩ := crash_executes_body_prefix (run sc initS evs).2 (run_wf sc initS evs)
          (crash T) hq k
        exact ⟨E, hE, hs, fun h => by cases h⟩
      | true =>
        obtain ⟨h1, h2⟩ := htx htxn
        have h3 : NonNeg evs := nonNeg_of_items evs (fun i hi => by
          rw [hitems] at hi
          have := parserItems_ge _ o B hrawB hloB i hi
          omega)
        obtain ⟨E, hE, hs, hc⟩ := txn_crash_repeats_nothing_prefix sc h1 h2 evs hm h3 (crash T) hq k
        exact ⟨E, hE, hs, fun _ => hc⟩
    obtain ⟨E, hE, hsame, hcov⟩ := hEx
    generalize hT1 : applyLog (crash T) ((run sc initS evs).2.flatten.take k) = T1 at hpos hsame ⊢
    by_cases hnone : cpOffsetsB E = []
    · -- no position written in this life
      obtain ⟨hoff, happE, hpre⟩ := life_nocp pc d sc B o evs hitems hnd hnnB hselB hmap (crash T) hcur hd0
        E hE hnone
      have hsa1 : StartsAt T1.cps start o d := by
        apply startsAt_congr (cps := T.cps) _ hsa
        intro x; rw [hsame.2, hoff x]; rfl
      obtain ⟨ho', hdd'⟩ := startsAt_unique hpos hsa1
      subst ho'; subst hdd'
      refine ⟨hpos, hso, hd0, P, Q ++ (seqApplied 0 (dataB E)).2, ?_, ?_, ?_, ?_, ?_⟩
      · rw [hsame.1, happE, happc, happ, List.append_assoc]
      · exact hsub.trans (List.sublist_append_left _ _)
      · rw [hB]; exact hspec
      rotate_left
      · -- a life without position write: no new piece, only an overshoot
        have := Replayed.life hrep [] (seqApplied 0 (dataB E)).2
          (by rw [List.append_nil, hspec]; exact List.prefix_append _ _)
          (by rw [List.append_nil, hspec, List.drop_left]; exact hpre)
        simpa using this
      · intro htxn
        have hdE : dataB E = [] := by
          apply List.eq_nil_iff_forall_not_mem.mpr
          intro x hx
          unfold dataB at hx
          obtain ⟨r, hr, hxr⟩ := List.mem_filterMap.mp hx
          cases r with
          | cmd n a off =>
            simp only [cmdOfReq] at hxr
            split at hxr
            · cases hxr
            · rename_i hp
              have hkey : 2 * off ∈ keysB E := List.mem_filterMap.mpr ⟨_, hr, by simp [keyOfReq, hp]⟩
              obtain ⟨o1, ho1, _⟩ := hcov htxn off hkey
              rw [hnone] at ho1; cases ho1
          | cpOffset o => cases hxr
          | multi => cases hxr
          | exec => cases hxr
          | cpMeta => cases hxr
        rw [hdE, hexact htxn]; simp [seqApplied]
    · -- the last position write of this life
      obtain ⟨E1, oE, E2, hsplit, hlast⟩ := split_last_cp E hnone
      have hum := life_position pc d sc B o evs hitems hrawB hloB ho0 (crash T) hcur hd0 ht E E1 E2 oE hE
        hsplit hlast
      have hsa1 : StartsAt T1.cps start oE (E1.foldl execReq (crash T)).cur := by
        right; rw [hsame.2]; exact hum
      obtain ⟨ho', hdd'⟩ := startsAt_unique hpos hsa1
      -- the database of the new position is a real one
      have hd' : 0 ≤ d' := by
        have hnn0 : ItemsNoNested false (parseAll { pc with startDbId := d } { lastSent := o } B) := by
          rw [parseAll_setDb]; exact hnnB
        have hnf0 : parseFails { pc with startDbId := d } { lastSent := o } B = false := by
          rw [parseFails_setDb]; exact hnfB
        obtain ⟨_, _, _, _, hd1, _⟩ := crash_cut_resumed { pc with startDbId := d } sc B o evs
          hitems hrawB hloB ho0 hnd hnn0 hnf0 E E1 E2 oE hE hsplit
        have hwf := run_wf sc initS evs
        have hplain1 : ∀ r ∈ E1, Plain r = true := fun r hr =>
          bodies_plain _ hwf r (hE.subset (by rw [hsplit]; exact List.mem_append_left _ hr))
        rw [hdd', (foldl_execReq_seq E1 hplain1 (crash T)).1, hcur, ← dataBO_proj, hd1, itemCmdsO_proj,
          seq_parserItems pc d o hd0]
        apply seqApplied_db_nonneg _ _ hd0
        apply parseAll_select_db_nonneg pc _ _ _ hmapnn
        intro x hx
        exact hselB x (List.mem_filter.mp hx).1
      obtain ⟨_, hoE, hspecB, happE, hX⟩ := life_step pc d sc B o evs hitems hrawB hloB ho0 hnd hnnB hnfB
        hselB hmap (crash T) hcur hd0 ht E E1 E2 oE hE hsplit hlast d' hdd' hd'
      rw [← ho'] at hoE hspecB happE hX
      rw [← hB, filter_gt_filter raws o o' hoE] at hspecB hX
      rw [hB] at hspecB
      refine ⟨hpos, by omega, hd',
        P ++ (seqApplied d (itemCmds (parseAll pc { lastSent := o } (B.filter (fun r => decide (r.off ≤ o')))))).2,
        Q ++ (seqApplied d (itemCmds (parseAll pc { lastSent := o } (B.filter (fun r => decide (r.off ≤ o')))))).2
          ++ (seqApplied d' (dataB E2)).2, ?_, ?_, ?_, ?_, ?_⟩
      · rw [hsame.1, happE, happc, happ]; simp [List.append_assoc]
      · exact ((hsub.append (List.Sublist.refl _)).trans (List.sublist_append_left _ _))
      · rw [hspec, hspecB, List.append_assoc]
      rotate_left
      · -- the next piece of the specification, then the overshoot
        have hS : specStream pc false 0 raws =
            (P ++ (seqApplied d (itemCmds (parseAll pc { lastSent := o }
              (B.filter (fun r => decide (r.off ≤ o')))))).2) ++
            specStream pc false d' (raws.filter (fun r => decide (o' < r.off))) := by
          rw [hspec, hspecB, List.append_assoc]
        exact Replayed.life hrep _ _ (by rw [hS]; exact List.prefix_append _ _)
          (by rw [hS, List.drop_left]; exact hX)
      · intro htxn
        -- transactional: nothing executed after the last position write
        have hdE2 : dataB E2 = [] := by
          -- keys of E are ordered
          have hwf := run_wf sc initS evs
          obtain ⟨R, hR⟩ := hE
          have hsorted := wire_ordered sc evs hm
          rw [← keys_bodies _ hwf, ← hR, hsplit] at hsorted
          simp only [keysB_append, List.append_assoc] at hsorted
          have hkcp : keysB (Req.cpOffset oE :: E2) = (2 * oE + 1) :: keysB E2 := by
            rw [keysB_cons]; simp [keyOfReq]
          rw [hkcp] at hsorted
          have hs1 := List.pairwise_append.mp hsorted
          have hs2 := List.pairwise_cons.mp hs1.2.1
          apply List.eq_nil_iff_forall_not_mem.mpr
          intro x hx
          unfold dataB at hx
          obtain ⟨r, hr, hxr⟩ := List.mem_filterMap.mp hx
          cases r with
          | cmd n a off =>
            simp only [cmdOfReq] at hxr
            split at hxr
            · cases hxr
            · rename_i hp
              have hkey : 2 * off ∈ keysB E2 := List.mem_filterMap.mpr ⟨_, hr, by simp [keyOfReq, hp]⟩
              have h1 := hs2.1 _ (List.mem_append_left _ hkey)
              obtain ⟨o1, ho1, hle⟩ := hcov htxn off (by
                rw [hsplit, keysB_append, hkcp]
                exact List.mem_append_right _ (List.mem_cons_of_mem _ hkey))
              rw [hsplit, cpOffsetsB_append] at ho1
              rcases List.mem_append.mp ho1 with h | h
              · have hk' : 2 * o1 + 1 ∈ keysB E1 := by
                  unfold cpOffsetsB at h
                  obtain ⟨r', hr', hro⟩ := List.mem_filterMap.mp h
                  refine List.mem_filterMap.mpr ⟨r', hr', ?_⟩
                  cases r' <;> simp_all [cpOfReq, keyOfReq]
                have := hs1.2.2 _ hk' (2 * oE + 1) (List.mem_cons_self ..)
                omega
              · have : cpOffsetsB (Req.cpOffset oE :: E2) = oE :: cpOffsetsB E2 := by
                  simp [cpOffsetsB, cpOfReq]
                rw [this, hlast] at h
                simp only [List.mem_singleton] at h
                omega
          | cpOffset o => cases hxr
          | multi => cases hxr
          | exec => cases hxr
          | cpMeta => cases hxr
        rw [hdE2, hexact htxn]; simp [seqApplied]


/-- **... and a run that finishes completes the stream.** After any number of
    lives, let one more resumed run finish (ticker mode, any schedule, closed by
    `done`): the target then holds, since the beginning, `Q ++ S` where the
    specification of the WHOLE stream `P ++ S` is a subsequence of it, in order --
    every source write has been executed, in its database; and after
    transactional resumable lives the target holds EXACTLY the specification. -/
theorem lives_then_complete (pc : PCfg) (raws : List Raw) (start : Int) (t0 : TState) (txn : Bool)
    (hraw : (raws.map (·.off)).Pairwise (· < ·)) (hlo : ∀ r ∈ raws, start < r.off)
    (hstart : 0 ≤ start)
    (hnest : RawNoNested false raws)
    (hpass : ∀ r ∈ raws, (r.cmd = bMulti ∨ r.cmd = bExec) →
      pc.filterCmd r.cmd = false ∧ (pc.filterCmdKey r.cmd r.args).isSome)
    (hnf : parseFails pc { lastSent := start } raws = false)
    (hsel : ∀ x ∈ raws, x.cmd = bSelect → ∀ a n, x.args = [a] → atoi? a = some n → 0 ≤ n)
    (hmapnn : ∀ n : Int, 0 ≤ n → 0 ≤ mapDb pc n)
    (hno : NoOffsets t0.cps)
    (T : TState) (o d : Int) (h : Lives pc raws start t0 txn T o d)
    (sc : SCfg) (hsc : sc.txnMode = false) (evs : List Ev)
    (hitems : itemsOf evs =
      parserItems { pc with startDbId := d } o (raws.filter (fun r => decide (o < r.off))))
    (hnd : C01.NoDone evs) :
    ∃ Q', (applyLog (crash T) (run sc initS (evs ++ [.done])).2.flatten).applied = t0.applied ++ Q' ∧
      List.Sublist (specStream pc false 0 raws) Q' ∧
      (txn = true → Q' = specStream pc false 0 raws) := by
  obtain ⟨_, _, hd0, P, Q, happ, hsub, hspec, hexact, _⟩ := lives_lose_nothing pc raws start t0 txn hraw hlo
    hstart hnest hpass hnf hsel hmapnn hno T o d h
  have hmap := mapDb_ne_of_nonneg pc hmapnn
  have hBsub : List.Sublist (raws.filter (fun r => decide (o < r.off))) raws := List.filter_sublist
  have hnnB := run2_items_noNested_src pc raws o hraw hnest hpass
  have hnnB' : ItemsNoNested false (parseAll { pc with startDbId := d } { lastSent := o }
      (raws.filter (fun r => decide (o < r.off)))) := by rw [parseAll_setDb]; exact hnnB
  have hall := resumed_executed_all { pc with startDbId := d } sc hsc _ evs o hitems hnd hnnB' (crash T) rfl
  have hs := restart_at_start_is_spec { pc with startDbId := d } (raws.filter (fun r => decide (o < r.off))) o
    (fun x hx => hsel x (hBsub.subset hx)) (fun n hn => by rw [mapDb_setDb]; exact hmap n hn) hd0
  rw [specStream_setDb] at hs
  have hc : (crash T).cur = 0 := rfl
  have ha : (crash T).applied = T.applied := rfl
  rw [hc, hs, ha, happ, List.append_assoc] at hall
  refine ⟨_, hall, ?_, ?_⟩
  · rw [hspec]; exact hsub.append (List.Sublist.refl _)
  · intro htxn; rw [hexact htxn, hspec]


/-! ### Non-vacuity: two lives of the example stream of `Props/C02TwoRuns.lean` -/

theorem lookup_some_mem (l : List (Int × CpRec)) (n : Int) (r : CpRec) (h : l.lookup n = some r) :
    (n, r) ∈ l := by
  induction l with
  | nil => simp [List.lookup] at h
  | cons p rest ih =>
    obtain ⟨a, b⟩ := p
    by_cases hab : n = a
    · subst hab
      simp only [List.lookup, beq_self_eq_true] at h
      injection h with h
      subst h
      exact List.mem_cons_self ..
    · have : (n == a) = false := by simpa using hab
      simp only [List.lookup, this] at h
      exact List.mem_cons_of_mem _ (ih h)

/-- decidable form of `UniqueMax` for a concrete checkpoint table -/
def uniqueMaxB (cps : List (Int × CpRec)) (d o : Int) : Bool :=
  decide ((getCp cps d).offset = some o) &&
  cps.all (fun p => p.1 == d ||
    (match (getCp cps p.1).offset with
     | some o' => decide (o' < o)
     | none => true))

theorem uniqueMaxB_spec (cps : List (Int × CpRec)) (d o : Int) (h : uniqueMaxB cps d o = true) :
    UniqueMax cps d o := by
  simp only [uniqueMaxB, Bool.and_eq_true, decide_eq_true_eq] at h
  refine ⟨h.1, ?_⟩
  intro d' hd' o' ho'
  cases hl : cps.lookup d' with
  | none => simp [getCp, hl] at ho'
  | some r =>
    have hm := lookup_some_mem cps d' r hl
    have := List.all_eq_true.mp h.2 (d', r) hm
    have hne : (d' == d) = false := by simpa using hd'
    simp only [hne, Bool.false_or, ho', decide_eq_true_eq] at this
    exact this

def lvT1 : TState := applyLog (crash trT) ((run trCfg initS trEvs1).2.flatten.take 5)
def lvEvs2 : List Ev :=
  (parserItems { trPc with startDbId := 5 } 50 (trRaws.filter (fun r => decide (50 < r.off)))).map Ev.item
    ++ [.cpTick, .batchTick]
def lvT2 : TState := applyLog (crash lvT1) ((run trCfg initS lvEvs2).2.flatten.take 6)

/-- life 1 dies one command beyond the position 50 it stored in database 5; life 2,
    resumed there, dies right after storing 160 in database 7 -/
theorem lvLives : Lives trPc trRaws 0 trT false lvT2 160 7 := by
  have h1 : Lives trPc trRaws 0 trT false lvT1 50 5 :=
    Lives.life Lives.init trCfg trEvs1 5 50 5 (by decide +kernel)
      (by unfold GunYu.Props.C01.NoDone; decide +kernel) (fun h => by cases h)
      (Or.inr (uniqueMaxB_spec _ _ _ (by decide +kernel)))
  exact Lives.life h1 trCfg lvEvs2 6 160 7 (by decide +kernel)
    (by unfold GunYu.Props.C01.NoDone; decide +kernel) (fun h => by cases h)
    (Or.inr (uniqueMaxB_spec _ _ _ (by decide +kernel)))

example : lvT2.cps = [(7, { offset := some 160, hasRunId := true }), (5, { offset := some 50, hasRunId := true })] := by
  decide +kernel
/-- what the target executed over both lives: `set b 2` twice (the `X` of life 1) -/
example : lvT2.applied =
    [ { db := 5, name := [115,101,116], args := [[97],[49]] },
      { db := 5, name := [115,101,116], args := [[98],[50]] },
      { db := 5, name := [115,101,116], args := [[98],[50]] },
      { db := 7, name := [100,101,108], args := [[98]] } ] := by decide +kernel
example : RawNoNested false trRaws := by
  simp [RawNoNested, trRaws, bSelect, bMulti, bExec]
example : ∀ r ∈ trRaws, (r.cmd = bMulti ∨ r.cmd = bExec) →
    trPc.filterCmd r.cmd = false ∧ (trPc.filterCmdKey r.cmd r.args).isSome := by
  intro r _ _; exact ⟨rfl, rfl⟩
/-- `lives_lose_nothing` instantiated on the two lives -/
example : True := by
  have := lives_lose_nothing trPc trRaws 0 trT false (by decide +kernel) (by decide +kernel) (by omega)
    (by simp [RawNoNested, trRaws, bSelect, bMulti, bExec]) (fun r _ _ => ⟨rfl, rfl⟩) (by decide +kernel)
    (selOK_spec trRaws (by decide +kernel)) (mapDb_nonneg trPc rfl (by decide +kernel))
    (fun d => rfl) lvT2 160 7 lvLives
  trivial


/-! More instances (asked for by the third review): a transactional `Lives`, the
    branch without any stored position (`life_nocp`), `lives_then_complete`, and
    `crash_then_resume_txn_exact`. -/

def lvT1tx : TState := applyLog (crash trT) ((run trCfgTx initS trEvs1).2.flatten.take 10)
/-- a transactional life: dies inside its second block, position 77 in database 5 -/
theorem lvLivesTx : Lives trPc trRaws 0 trT true lvT1tx 77 5 :=
  Lives.life Lives.init trCfgTx trEvs1 10 77 5 (by decide +kernel)
    (by unfold GunYu.Props.C01.NoDone; decide +kernel)
    (fun _ => ⟨rfl, rfl⟩)
    (Or.inr (uniqueMaxB_spec _ _ _ (by decide +kernel)))
example : True := by
  have := lives_lose_nothing trPc trRaws 0 trT true (by decide +kernel) (by decide +kernel) (by omega)
    (by simp [RawNoNested, trRaws, bSelect, bMulti, bExec]) (fun r _ _ => ⟨rfl, rfl⟩) (by decide +kernel)
    (selOK_spec trRaws (by decide +kernel)) (mapDb_nonneg trPc rfl (by decide +kernel))
    (fun d => rfl) lvT1tx 77 5 lvLivesTx
  trivial
/-- exactly the specification up to 77, nothing twice -/
example : lvT1tx.applied =
    [ { db := 5, name := [115,101,116], args := [[97],[49]] },
      { db := 5, name := [115,101,116], args := [[98],[50]] } ] := by decide +kernel

/-- a life that dies after ONE request: no position stored (`StartsAt`'s first
    branch, `life_nocp`); the next life starts at the beginning again -/
def lvT0 : TState := applyLog (crash trT) ((run trCfg initS trEvs1).2.flatten.take 1)
theorem lvLivesNone : Lives trPc trRaws 0 trT false lvT0 0 0 :=
  Lives.life Lives.init trCfg trEvs1 1 0 0 (by decide +kernel)
    (by unfold GunYu.Props.C01.NoDone; decide +kernel) (fun h => by cases h)
    (Or.inl ⟨by
      have hc : (applyLog (crash trT) ((run trCfg initS trEvs1).2.flatten.take 1)).cps = [] := by decide +kernel
      intro d; rw [hc]; rfl, rfl, rfl⟩)

/-- `lives_then_complete` after life 1: the run resumed at (5, 50) finishes -/
example : True := by
  have h1 : Lives trPc trRaws 0 trT false lvT1 50 5 :=
    Lives.life Lives.init trCfg trEvs1 5 50 5 (by decide +kernel)
      (by unfold GunYu.Props.C01.NoDone; decide +kernel) (fun h => by cases h)
      (Or.inr (uniqueMaxB_spec _ _ _ (by decide +kernel)))
  have := lives_then_complete trPc trRaws 0 trT false (by decide +kernel) (by decide +kernel) (by omega)
    (by simp [RawNoNested, trRaws, bSelect, bMulti, bExec]) (fun r _ _ => ⟨rfl, rfl⟩) (by decide +kernel)
    (selOK_spec trRaws (by decide +kernel)) (mapDb_nonneg trPc rfl (by decide +kernel))
    (fun d => rfl) lvT1 50 5 h1 trCfg rfl lvEvs2 (by decide +kernel)
    (by unfold GunYu.Props.C01.NoDone; decide +kernel)
  trivial

/-- `crash_then_resume_txn_exact` on the example stream -/
example : True := by
  have := crash_then_resume_txn_exact trPc trCfgTx rfl rfl trRaws 0 trEvs1 (by decide +kernel)
    (by decide +kernel) (by decide +kernel) (by omega)
    (by unfold GunYu.Props.C01.NoDone; decide +kernel) (nonNegB_spec trEvs1 (by decide +kernel))
    (run1_items_noNested_src trPc trRaws 0 (by simp [RawNoNested, trRaws, bSelect, bMulti, bExec])
      (fun r _ _ => ⟨rfl, rfl⟩))
    (by decide +kernel) (selOK_spec trRaws (by decide +kernel)) (mapDb_ok trPc rfl (by decide +kernel))
    trT rfl rfl rfl 10
  trivial

end GunYu.Props.C02
