/-
  C15 — the etcd-based election (cluster.metaEtcd configured): at most one
  instance holds a source's leader lease at any time.

  Property theorems only (helper lemmas: Proofs/Etcd*.lean). Quantifier: every
  list of events `grant | keepAlive | revoke | campaign | campTxn | campDel |
  renew | resign | leader | tick δ` with every fault flag (request lost before
  / after it was applied), by any number of sessions (one per instance) on any
  number of election prefixes, from an empty key space at any revision and
  clock. The requests are the ASTs regenerated from
  pkg/cluster/etcd_election.go (Gen/EtcdElection.lean); `idOf L` is the
  election id (server.listenPeer) of the instance whose session holds lease L.

  Assumptions (named in the evidence): etcd's transaction / lease semantics as
  transcribed in Model/EtcdLease.lean; the server grants a lease id once;
  ONE authoritative clock at the store.
-/
import GunYu.Model.EtcdLease
import GunYu.Proofs.EtcdInv2
import GunYu.Proofs.EtcdExpiry
import GunYu.Proofs.EtcdCalls

set_option linter.unusedSimpArgs false
set_option linter.unusedVariables false

namespace GunYu.Props.C15
open GunYu GunYu.Etcd

/-! ### at most one holder -/

/-- For EVERY list of events, two sessions that both were told "leader" for
    prefix `p` and whose election key is still in the store (lease unexpired,
    not revoked, not resigned) are the same session. -/
theorem etcd_at_most_one_holder (idOf : Nat → Bytes) (rev now : Nat) (evs : List Etcd.Ev) (p : Bytes)
    (L1 L2 : Nat)
    (h1 : Etcd.holder (Etcd.run idOf (Etcd.Sys.init rev now) evs) p L1)
    (h2 : Etcd.holder (Etcd.run idOf (Etcd.Sys.init rev now) evs) p L2) : L1 = L2 :=
  Etcd.holder_unique_of_inv (Etcd.inv_run idOf evs (Etcd.inv_init rev now)) h1 h2

/-- "at any time": the same at every point of the schedule -/
theorem etcd_at_most_one_holder_always (idOf : Nat → Bytes) (rev now : Nat) (evs : List Etcd.Ev) (n : Nat)
    (p : Bytes) (L1 L2 : Nat)
    (h1 : Etcd.holder (Etcd.run idOf (Etcd.Sys.init rev now) (evs.take n)) p L1)
    (h2 : Etcd.holder (Etcd.run idOf (Etcd.Sys.init rev now) (evs.take n)) p L2) : L1 = L2 :=
  etcd_at_most_one_holder idOf rev now (evs.take n) p L1 L2 h1 h2

/-- a holder's key is the first-created key under the prefix, and `Leader`
    names its value -/
theorem etcd_holder_is_first_created (idOf : Nat → Bytes) (rev now : Nat) (evs : List Etcd.Ev) (p : Bytes)
    (L : Nat) (hp : p ≠ [])
    (h : Etcd.holder (Etcd.run idOf (Etcd.Sys.init rev now) evs) p L) :
    ∃ kv, firstCreate (Etcd.run idOf (Etcd.Sys.init rev now) evs).st.kvs p = some kv ∧
      kv.key = keyOf p L ∧
      leaderStep (Etcd.run idOf (Etcd.Sys.init rev now) evs) p = .leader kv.val .ok := by
  have hinv := Etcd.inv_run idOf evs (Etcd.inv_init rev now)
  generalize Etcd.run idOf (Etcd.Sys.init rev now) evs = s at h hinv
  obtain ⟨ht, kv, hm, hk, hc⟩ := h
  obtain ⟨ek, hmin⟩ := hinv.told p L ht
  rw [ek] at hk
  have hpre : p.isPrefixOf kv.key = true := by rw [hk]; exact keyOf_prefix p L
  cases hfc : firstCreate s.st.kvs p with
  | none => exact absurd hpre (fun hh => firstCreate_none hfc kv hm hh)
  | some m =>
    obtain ⟨hmm, hmp, hmmin⟩ := firstCreate_some hfc
    have a := hmin kv hm hk hc m hmm hmp
    have b := hmmin kv hm hpre
    have e : m = kv := hinv.wf.eq_of_create hmm hm (by omega)
    refine ⟨m, rfl, by rw [e]; exact hk, ?_⟩
    unfold leaderStep
    dsimp only
    rw [leaderGet_eval]
    simp [hp, hfc, Option.toList]

/-! Non-vacuity: sessions 1 and 2 (ttl 3 s) on the prefix "k/". -/
section examples
def eId : Nat → Bytes := fun L => [97 + UInt8.ofNat L]
def eP : Bytes := [107, 47]
def eRun (evs : List Etcd.Ev) : Etcd.Sys := Etcd.run eId (Etcd.Sys.init 10 5) evs

-- 1 wins, 2 is refused (and deletes its key again); both believe the right thing
example : Etcd.isHolder (eRun [.grant 1 3, .grant 2 3, .campaign eP 1 0, .campaign eP 2 0]) eP 1 = true := by decide
example : Etcd.isHolder (eRun [.grant 1 3, .grant 2 3, .campaign eP 1 0, .campaign eP 2 0]) eP 2 = false := by decide
example : (eRun [.grant 1 3, .grant 2 3, .campaign eP 1 0, .campaign eP 2 0]).st.kvs.length = 1 := by decide
-- 1 gets no keep-alive; 3001 ms later its key is gone, 2 takes over, 1 no longer counts
example : Etcd.isHolder (eRun [.grant 1 3, .campaign eP 1 0, .tick 2000, .grant 2 3, .tick 1001, .campaign eP 2 0]) eP 2 = true := by
  decide
example : Etcd.isHolder (eRun [.grant 1 3, .campaign eP 1 0, .tick 2000, .grant 2 3, .tick 1001, .campaign eP 2 0]) eP 1 = false := by
  decide
-- with keep-alives 1 stays the holder past its first deadline
example : Etcd.isHolder (eRun [.grant 1 3, .campaign eP 1 0, .tick 2000, .keepAlive 1, .tick 2000, .renew eP 1 0]) eP 1 = true := by
  decide
-- exactly at the deadline the lease is still live
example : Etcd.isHolder (eRun [.grant 1 3, .campaign eP 1 0, .tick 3000]) eP 1 = true := by decide
-- the hypothesis of the theorem is met by a state with a holder
example : Etcd.holder (eRun [.grant 1 3, .campaign eP 1 0]) eP 1 := by
  refine ⟨by decide, ⟨keyOf eP 1, eId 1, 11, 1⟩, by decide, by decide, by decide⟩
-- a Campaign of 2 cut between its transaction and its Delete: its key is in the store, it leads nothing
example : (Etcd.step eId (eRun [.grant 1 3, .grant 2 3, .campaign eP 1 0]) (.campTxn eP 2 0)).2 = .pending := by decide
example : (eRun [.grant 1 3, .grant 2 3, .campaign eP 1 0, .campTxn eP 2 0]).st.kvs.length = 2 := by decide
-- 1 resigns inside that window: 2's key is now first-created, its Renew would succeed, its Delete still removes it
example : (Etcd.step eId (eRun [.grant 1 3, .grant 2 3, .campaign eP 1 0, .campTxn eP 2 0, .resign eP 1 0]) (.renew eP 2 0)).2
    = .err .ok := by decide
example : (eRun [.grant 1 3, .grant 2 3, .campaign eP 1 0, .campTxn eP 2 0, .resign eP 1 0, .campDel eP 2 0]).st.kvs.length = 0 := by
  decide
end examples

/-! ### a campaign succeeds only for the first-created key or when the prefix is free -/

/-- A fault-free Campaign of a live session answers "leader" exactly when no
    foreign key under the prefix is older than the caller's own key (or the
    caller has none and the prefix is free); otherwise it answers "follower",
    the caller's own key is removed again, no other key is touched and the
    caller does not count as told. -/
theorem etcd_success_only_first_or_free (idOf : Nat → Bytes) (rev now : Nat) (evs : List Etcd.Ev) (p : Bytes)
    (L : Nat) (hp : p ≠ [])
    (hlive : (Etcd.run idOf (Etcd.Sys.init rev now) evs).st.leaseLive L = true) :
    ((campaignStep idOf (Etcd.run idOf (Etcd.Sys.init rev now) evs) p L 0).2 = .role .leader .ok ↔
      ¬ foreignFirst (Etcd.run idOf (Etcd.Sys.init rev now) evs) p L) ∧
    (foreignFirst (Etcd.run idOf (Etcd.Sys.init rev now) evs) p L →
      (campaignStep idOf (Etcd.run idOf (Etcd.Sys.init rev now) evs) p L 0).2 = .role .follower .ok ∧
      (campaignStep idOf (Etcd.run idOf (Etcd.Sys.init rev now) evs) p L 0).1.told p L = false ∧
      ∀ kv ∈ (Etcd.run idOf (Etcd.Sys.init rev now) evs).st.kvs, kv.key ≠ keyOf p L →
        kv ∈ (campaignStep idOf (Etcd.run idOf (Etcd.Sys.init rev now) evs) p L 0).1.st.kvs) := by
  have hinv := Etcd.inv_run idOf evs (Etcd.inv_init rev now)
  generalize Etcd.run idOf (Etcd.Sys.init rev now) evs = s at hlive hinv
  have hiff := campTxn0_leader_iff idOf hinv p L hp hlive
  have hout := campTxn0_out idOf hinv p L hp hlive
  have hkvs : ∀ kv ∈ s.st.kvs, kv ∈ (campTxn idOf s p L 0).1.st.kvs := by
    intro kv hkv
    rw [campTxn0_eq idOf s p L (fun kv hkv => (hinv.wf.pos kv hkv).1) hp]
    unfold campTxnSpec0
    cases findKey s.st.kvs (keyOf p L) with
    | none =>
      dsimp only
      by_cases hl : s.st.leaseLive L = true
      · simp only [hl, ↓reduceIte]
        split <;> exact List.mem_append_left _ hkv
      · simp only [hl, Bool.false_eq_true, ↓reduceIte]; exact hkv
    | some own =>
      dsimp only
      split <;> exact hkv
  unfold campaignStep
  dsimp only
  rcases hout with hl | ⟨hpd, hpend, hkey⟩
  · have hne : ¬ ((campTxn idOf s p L 0).2 = Out.pending) := by rw [hl]; simp
    simp only [hne, ↓reduceIte]
    refine ⟨hiff, fun hf => ?_⟩
    exact absurd hl (fun hh => (hiff.1 hh) hf)
  · simp only [hpd, ↓reduceIte]
    obtain ⟨d1, d2, d3⟩ := campDel0 idOf (campTxn idOf s p L 0).1 p L hpend hkey
    have hnl : ¬ ((campTxn idOf s p L 0).2 = .role .leader .ok) := by rw [hpd]; simp
    have hff : foreignFirst s p L := Classical.not_not.1 (fun hn => hnl (hiff.2 hn))
    refine ⟨⟨fun hh => ?_, fun hn => absurd hff hn⟩, fun _ => ⟨d1, d3, fun kv hkv hne => ?_⟩⟩
    · rw [d1] at hh; cases hh
    · rw [d2]
      unfold delKV
      rw [List.mem_filter]
      exact ⟨hkvs kv hkv, by simpa using hne⟩

/-- …and a Renew in that situation answers ErrNotLeader -/
theorem etcd_refused_when_foreign (idOf : Nat → Bytes) (rev now : Nat) (evs : List Etcd.Ev) (p : Bytes)
    (L : Nat) (hp : p ≠ [])
    (hf : foreignFirst (Etcd.run idOf (Etcd.Sys.init rev now) evs) p L) :
    (renewStep idOf (Etcd.run idOf (Etcd.Sys.init rev now) evs) p L 0).2 = .err .notLeader ∧
    (renewStep idOf (Etcd.run idOf (Etcd.Sys.init rev now) evs) p L 0).1.told p L = false := by
  have hinv := Etcd.inv_run idOf evs (Etcd.inv_init rev now)
  generalize Etcd.run idOf (Etcd.Sys.init rev now) evs = s at hf hinv
  obtain ⟨ow, hom, hop, hone, holt⟩ := hf
  unfold renewStep
  dsimp only
  rw [renewGet_eval]
  simp only [show ¬ (0 = 1) by decide, ↓reduceIte, hp]
  cases hfc : firstCreate s.st.kvs p with
  | none => exact absurd hop (fun hh => firstCreate_none hfc ow hom hh)
  | some m =>
    obtain ⟨hmm, hmp, hmmin⟩ := firstCreate_some hfc
    simp only [Option.toList, List.head?_cons]
    have hnot : ¬ (m.key = (s.el L p).key ∧ some m.create = (s.el L p).rev) := by
      rintro ⟨hk, _⟩
      have hkey : m.key = keyOf p L := by
        rcases hinv.elKey L p with h0 | h0 | h0
        · exact absurd (hk.trans h0) (hinv.wf.names m hmm).1
        · exact absurd (hk.trans h0) (hinv.wf.names m hmm).2
        · exact hk.trans h0
      have := holt m hmm hkey
      have := hmmin ow hom hop
      omega
    simp only [hnot, ↓reduceIte]
    exact ⟨trivial, setTold_same _ _ _ _⟩

-- non-vacuity: free prefix, own key first, foreign key first
example : (Etcd.step eId (eRun [.grant 1 3]) (.campaign eP 1 0)).2 = .role .leader .ok := by decide
example : (Etcd.step eId (eRun [.grant 1 3, .campaign eP 1 0]) (.campaign eP 1 0)).2 = .role .leader .ok := by decide
example : (Etcd.step eId (eRun [.grant 1 3, .grant 2 3, .campaign eP 1 0]) (.campaign eP 2 0)).2 = .role .follower .ok := by
  decide
example : foreignFirst (eRun [.grant 1 3, .grant 2 3, .campaign eP 1 0]) eP 2 :=
  ⟨⟨keyOf eP 1, eId 1, 11, 1⟩, by decide, by decide, by decide, by decide⟩
example : (eRun [.grant 1 3, .grant 2 3, .campaign eP 1 0]).st.leaseLive 2 = true := by decide

/-! ### a failed renewal is reported as loss of leadership -/

/-- A Renew changes nothing in the store. It returns nil exactly when the
    first-created key under the prefix is the caller's key at the revision it
    remembers — the caller then is a holder; otherwise it returns ErrNotLeader
    or ErrNoLeader and the caller no longer counts as told. -/
theorem etcd_failed_renew_reports_loss (idOf : Nat → Bytes) (s : Etcd.Sys) (p : Bytes) (L : Nat) (hp : p ≠ []) :
    (renewStep idOf s p L 0).1.st = s.st ∧
    (((renewStep idOf s p L 0).2 = .err .ok ∧ Etcd.holder (renewStep idOf s p L 0).1 p L) ∨
     (((renewStep idOf s p L 0).2 = .err .notLeader ∨ (renewStep idOf s p L 0).2 = .err .noLeader) ∧
      (renewStep idOf s p L 0).1.told p L = false ∧ ¬ Etcd.holder (renewStep idOf s p L 0).1 p L)) := by
  unfold renewStep
  dsimp only
  rw [renewGet_eval]
  simp only [show ¬ (0 = 1) by decide, ↓reduceIte, hp]
  cases hfc : firstCreate s.st.kvs p with
  | none =>
    simp only [Option.toList, List.head?_nil]
    refine ⟨trivial, Or.inr ⟨Or.inr trivial, setTold_same _ _ _ _, ?_⟩⟩
    rintro ⟨ht, _⟩
    dsimp only at ht
    rw [setTold_same] at ht
    cases ht
  | some m =>
    obtain ⟨hmm, _, _⟩ := firstCreate_some hfc
    simp only [Option.toList, List.head?_cons]
    by_cases hown : m.key = (s.el L p).key ∧ some m.create = (s.el L p).rev
    · simp only [hown, and_self, ↓reduceIte]
      exact ⟨trivial, Or.inl ⟨trivial, setTold_same _ _ _ _, m, hmm, hown.1, hown.2⟩⟩
    · simp only [hown, ↓reduceIte]
      refine ⟨trivial, Or.inr ⟨Or.inl trivial, setTold_same _ _ _ _, ?_⟩⟩
      rintro ⟨ht, _⟩
      dsimp only at ht
      rw [setTold_same] at ht
      cases ht

-- non-vacuity: 2 took over after 1's lease ran out; 1's renewal fails and is reported
example : (Etcd.step eId (eRun [.grant 1 3, .campaign eP 1 0, .tick 2000, .grant 2 3, .tick 1001, .campaign eP 2 0])
    (.renew eP 1 0)).2 = .err .notLeader := by decide
example : (Etcd.step eId (eRun [.grant 1 3, .campaign eP 1 0, .tick 3001]) (.renew eP 1 0)).2 = .err .noLeader := by decide

/-! ### resigning releases only one's own lease -/

/-- Whatever the fault, a Resign removes at most the key the election object
    names, and only if it is there at the create revision the object
    remembers; every other entry stays, nothing is added, and the caller no
    longer counts as told. -/
theorem etcd_resign_only_own (idOf : Nat → Bytes) (rev now : Nat) (evs : List Etcd.Ev) (p : Bytes) (L f : Nat) :
    (∀ kv ∈ (resignStep idOf (Etcd.run idOf (Etcd.Sys.init rev now) evs) p L f).1.st.kvs,
        kv ∈ (Etcd.run idOf (Etcd.Sys.init rev now) evs).st.kvs) ∧
    (∀ kv ∈ (Etcd.run idOf (Etcd.Sys.init rev now) evs).st.kvs,
        ¬ (kv.key = ((Etcd.run idOf (Etcd.Sys.init rev now) evs).el L p).key ∧
           some kv.create = ((Etcd.run idOf (Etcd.Sys.init rev now) evs).el L p).rev) →
        kv ∈ (resignStep idOf (Etcd.run idOf (Etcd.Sys.init rev now) evs) p L f).1.st.kvs) ∧
    (resignStep idOf (Etcd.run idOf (Etcd.Sys.init rev now) evs) p L f).1.told p L = false := by
  have hinv := Etcd.inv_run idOf evs (Etcd.inv_init rev now)
  generalize Etcd.run idOf (Etcd.Sys.init rev now) evs = s at hinv
  unfold resignStep
  dsimp only
  rw [resignTxn_eval]
  unfold resignTxnSpec
  by_cases hf1 : f = 1
  · simp only [hf1, ↓reduceIte]
    exact ⟨fun kv hkv => hkv, fun kv hkv _ => hkv, setTold_same _ _ _ _⟩
  simp only [hf1, ↓reduceIte]
  by_cases hk : (s.el L p).key = []
  · simp only [hk, ↓reduceIte]
    exact ⟨fun kv hkv => hkv, fun kv hkv _ => hkv, setTold_same _ _ _ _⟩
  simp only [hk, ↓reduceIte]
  by_cases hc : some (createRevOf s.st.kvs (s.el L p).key) = (s.el L p).rev
  · simp only [hc, ↓reduceIte]
    refine ⟨fun kv hkv => mem_delKV hkv, fun kv hkv hne => ?_, setTold_same _ _ _ _⟩
    unfold delKV
    rw [List.mem_filter]
    refine ⟨hkv, ?_⟩
    simp only [ne_eq, decide_not, Bool.not_eq_eq_eq_not, Bool.not_true, decide_eq_false_iff_not]
    intro hkk
    apply hne
    refine ⟨hkk, ?_⟩
    rw [← hc, ← hkk, createRevOf_of_mem hinv.wf hkv]
  · simp only [hc, ↓reduceIte]
    exact ⟨fun kv hkv => hkv, fun kv hkv _ => hkv, setTold_same _ _ _ _⟩

-- non-vacuity: 2's resign leaves 1's key alone; 1's own resign frees the prefix
example : (eRun [.grant 1 3, .grant 2 3, .campaign eP 1 0, .campaign eP 2 0, .resign eP 2 0]).st.kvs.length = 1 := by
  decide
example : (eRun [.grant 1 3, .campaign eP 1 0, .resign eP 1 0]).st.kvs.length = 0 := by decide
example : (Etcd.step eId (eRun [.grant 1 3, .grant 2 3, .campaign eP 1 0, .resign eP 1 0]) (.campaign eP 2 0)).2
    = .role .leader .ok := by decide

/-! ### a session that gets no keep-alive ceases to be the holder within one lease period -/

/-- If lease `L` has deadline `l.dl` (= the store time of its grant or last
    keep-alive + ttl) and no further `keepAlive L` reaches the store, then
    whatever everybody does — campaigns, renewals and resigns of any session
    incl. `L`'s own, faults, other sessions' leases — once the store's clock is
    past `l.dl` no key attached to `L` is left in the store and the instance is
    not a holder of any ('/'-terminated) prefix.
    Keep-alives are sent by the etcd client library's lessor, NEVER by the
    election code (`Renew` is a Get and extends nothing): what is attributable
    to the code is that its put carries the session's lease and that nothing it
    does prolongs a lease. This is a statement about the STORE ("holder" = told
    and key still there); it gives NO bound on how long the instance goes on
    ACTING as leader after its key has vanished — see the witness below. -/
theorem etcd_expiry_bound (idOf : Nat → Bytes) (rev now : Nat) (evs0 evs : List Etcd.Ev) (L : Nat) (l : LeaseRec)
    (hp0 : ∀ ev ∈ evs0, ev.pfxOk) (hp : ∀ ev ∈ evs, ev.pfxOk)
    (hl : (Etcd.run idOf (Etcd.Sys.init rev now) evs0).st.leases L = some l)
    (hstop : ∀ ev ∈ evs, ev.isKeepAlive L = false)
    (hlate : l.dl < (Etcd.run idOf (Etcd.run idOf (Etcd.Sys.init rev now) evs0) evs).st.now) :
    (∀ kv ∈ (Etcd.run idOf (Etcd.run idOf (Etcd.Sys.init rev now) evs0) evs).st.kvs, kv.lease ≠ L) ∧
    ∀ p, PfxOk p → ¬ Etcd.holder (Etcd.run idOf (Etcd.run idOf (Etcd.Sys.init rev now) evs0) evs) p L := by
  obtain ⟨hi0, hl0⟩ := Etcd.inv_linv_run idOf evs0 (Etcd.inv_init rev now) (Etcd.linv_init rev now) hp0
  generalize Etcd.run idOf (Etcd.Sys.init rev now) evs0 = s0 at hl hlate hi0 hl0
  obtain ⟨hi, hli⟩ := Etcd.inv_linv_run idOf evs hi0 hl0 hp
  obtain ⟨l', hl', hdl⟩ := Etcd.run_frame idOf L evs s0 l hl hstop
  generalize Etcd.run idOf s0 evs = s at hlate hi hli hl'
  have hdead : s.st.leaseLive L = false := by
    unfold Store.leaseLive leaseLiveAt
    rw [hl']
    have : ¬ s.st.now ≤ l'.dl := by omega
    simp [this]
  have hno : ∀ kv ∈ s.st.kvs, kv.lease ≠ L := by
    intro kv hkv e
    have := (hli.live kv hkv).2
    rw [e, hdead] at this; cases this
  refine ⟨hno, fun p hpp hh => ?_⟩
  obtain ⟨ht, kv, hm, hk, _⟩ := hh
  obtain ⟨ek, _⟩ := hi.told p L ht
  rw [ek] at hk
  obtain ⟨p', hp', hk'⟩ := hli.owner kv hm
  have := (keyOf_inj2 hp' hpp (hk'.symm.trans hk)).2
  exact hno kv hm this

theorem etcd_run_append (idOf : Nat → Bytes) : ∀ (a b : List Etcd.Ev) (s : Etcd.Sys),
    Etcd.run idOf (Etcd.run idOf s a) b = Etcd.run idOf s (a ++ b)
  | [], _, _ => rfl
  | e :: r, b, s => by simp only [List.cons_append, Etcd.run]; exact etcd_run_append idOf r b _

/-- Takeover: once that has happened a fault-free Campaign of any live session
    `j` is answered "leader" — unless a THIRD party's key under the prefix is
    older than `j`'s. -/
theorem etcd_takeover_possible (idOf : Nat → Bytes) (rev now : Nat) (evs0 evs : List Etcd.Ev) (L j : Nat)
    (l : LeaseRec) (p : Bytes) (hpp : PfxOk p)
    (hp0 : ∀ ev ∈ evs0, ev.pfxOk) (hp : ∀ ev ∈ evs, ev.pfxOk)
    (hl : (Etcd.run idOf (Etcd.Sys.init rev now) evs0).st.leases L = some l)
    (hstop : ∀ ev ∈ evs, ev.isKeepAlive L = false)
    (hlate : l.dl < (Etcd.run idOf (Etcd.run idOf (Etcd.Sys.init rev now) evs0) evs).st.now)
    (hj : (Etcd.run idOf (Etcd.run idOf (Etcd.Sys.init rev now) evs0) evs).st.leaseLive j = true) :
    (campaignStep idOf (Etcd.run idOf (Etcd.run idOf (Etcd.Sys.init rev now) evs0) evs) p j 0).2 = .role .leader .ok ∨
    ∃ kv ∈ (Etcd.run idOf (Etcd.run idOf (Etcd.Sys.init rev now) evs0) evs).st.kvs,
      p.isPrefixOf kv.key = true ∧ kv.lease ≠ L ∧ kv.key ≠ keyOf p j := by
  have hb := (etcd_expiry_bound idOf rev now evs0 evs L l hp0 hp hl hstop hlate).1
  have hpne : p ≠ [] := by
    intro e; subst e; simp [PfxOk] at hpp
  have hrun : Etcd.run idOf (Etcd.run idOf (Etcd.Sys.init rev now) evs0) evs
      = Etcd.run idOf (Etcd.Sys.init rev now) (evs0 ++ evs) := etcd_run_append idOf evs0 evs _
  rw [hrun] at hb hj ⊢
  have hiff := (etcd_success_only_first_or_free idOf rev now (evs0 ++ evs) p j hpne hj).1
  by_cases hf : foreignFirst (Etcd.run idOf (Etcd.Sys.init rev now) (evs0 ++ evs)) p j
  · right
    obtain ⟨ow, hom, hop, hone, _⟩ := hf
    exact ⟨ow, hom, hop, hb ow hom, hone⟩
  · exact Or.inl (hiff.2 hf)

-- the theorem instantiated: lease 1 granted at 5, no keep-alive of 1 among what follows
example : ¬ Etcd.holder (Etcd.run eId (eRun [.grant 1 3, .campaign eP 1 0])
    [.grant 2 3, .campaign eP 2 0, .renew eP 1 0, .tick 3001, .keepAlive 2, .campaign eP 1 0]) eP 1 :=
  (etcd_expiry_bound eId 10 5 [.grant 1 3, .campaign eP 1 0]
    [.grant 2 3, .campaign eP 2 0, .renew eP 1 0, .tick 3001, .keepAlive 2, .campaign eP 1 0] 1 ⟨3, 3005, false⟩
    (by intro ev h; simp at h; rcases h with rfl | rfl <;> simp [Etcd.Ev.pfxOk, PfxOk, eP])
    (by intro ev h; simp at h; rcases h with rfl | rfl | rfl | rfl | rfl | rfl <;> simp [Etcd.Ev.pfxOk, PfxOk, eP])
    (by decide) (by decide) (by decide)).2 eP (by unfold PfxOk; decide)

/-! OBSERVATION about the etcd path, outside C15 (whose text is about the Redis-based lease): no acting bound.
    Nothing in the code reads `Session.Done()`; `Renew` is only a Get; the lease timer of cmd/syncer.go (8b531f9) is
    re-armed by every successful `Renew`, i.e. it measures "last successful READ + hold", which says nothing about the
    key's remaining life. Witness: 1's Renew succeeds at the very deadline instant of its lease; 1 ms later the key is
    gone, 2 is granted a session, campaigns and is told leader — while 1 still believes what its Renew said. At the
    STORE there is one holder (the theorems above); session 1 goes on acting until its next Renew. -/
def etcdActingWitness : List Etcd.Ev :=
  [.grant 1 3, .campaign eP 1 0, .tick 3000, .renew eP 1 0, .tick 1, .grant 2 3, .campaign eP 2 0]
example : (Etcd.step eId (eRun [.grant 1 3, .campaign eP 1 0, .tick 3000]) (.renew eP 1 0)).2 = .err .ok := by decide
example : (Etcd.step eId (eRun [.grant 1 3, .campaign eP 1 0, .tick 3000, .renew eP 1 0, .tick 1, .grant 2 3])
    (.campaign eP 2 0)).2 = .role .leader .ok := by decide
example : (eRun etcdActingWitness).told eP 1 = true ∧ Etcd.isHolder (eRun etcdActingWitness) eP 1 = false ∧
    Etcd.isHolder (eRun etcdActingWitness) eP 2 = true := by decide

-- non-vacuity: lease 1 granted at 5 (deadline 3005), no keep-alive, others act, time passes
example : (eRun [.grant 1 3, .campaign eP 1 0]).st.leases 1 = some ⟨3, 3005, false⟩ := by decide
example : ∀ ev ∈ [Etcd.Ev.grant 2 3, .campaign eP 2 0, .tick 3001, .keepAlive 2], ev.isKeepAlive 1 = false := by decide
example : (eRun [.grant 1 3, .campaign eP 1 0, .grant 2 3, .campaign eP 2 0, .tick 3001]).st.now = 3006 := by decide
example : PfxOk eP := by unfold PfxOk; decide
-- takeover: 3001 ms after 1's grant a new session wins
example : (Etcd.step eId (eRun [.grant 1 3, .campaign eP 1 0, .tick 3001, .grant 2 3]) (.campaign eP 2 0)).2
    = .role .leader .ok := by decide

end GunYu.Props.C15
