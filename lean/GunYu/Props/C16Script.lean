/-
  C16 × C08 — the writers' script a follower's STREAM transfer induces satisfies C08's
  hypotheses, so `crash_image_step_ok` / `crash_image_data_faithful` (Props/C16Restart.lean)
  apply to it with nothing left to assume.

  * `session_stream_payload_is_history` : what `aofRecv` hands to the follower's stream writer
      (after pipe loss and a write fault) is history `x` from the announced offset — the fact
      `aofRecv_ok` uses, from `Shape.aof` (the leader's reply when its cache is a copy of history)
  * `streamScript`                       : `SetRunId x; NewAofWritter(left); append chunk …` on the
      empty directory a fresh follower has
  * `stream_script_wf / _srcOk / _snapRecvOk` : C08's `wf`, `SrcOk` and C16Restart's `SnapRecvOk`
      hold for it, for EVERY chunking of those bytes
  * `stream_transfer_crash_image_faithful` : hence whatever a follower killed at ANY instant of
      that transfer re-opens is a faithful copy (no `SrcOk` / `SnapRecvOk` hypothesis)
  Snapshot transfers: `SnapRecvOk` stays a hypothesis (see the check's `partial`).
-/
import GunYu.Props.C16Restart

namespace GunYu.Props.C16
open GunYu GunYu.Replica GunYu.Store GunYu.StoreFs

/-- **session_stream_payload_is_history.** The leader's reply to a data request is a stream
    (`Shape.aof`: `conts off cs ++ tl` with `cs.flatten` history `x` from `off`); whatever the
    cut, the pipe loss and the write fault, the bytes the follower's stream writer gets onto its
    file are history `x` from `off`. -/
theorem session_stream_payload_is_history {β : Type} (h : Hist β) (x : Id) (off : Int) (k : Nat)
    (cs : List (List β)) (tl ms : List (Msg β)) (fin : Fin) (budget : Nat) (lost : Loss)
    (hms : ms = conts off cs ++ tl) (htl : Tail tl) (hb : cs.flatten = hseg h x off.toNat k) :
    (lost.written ((aofLoop fin budget ms).2.1.take ((aofLoop fin budget ms).2.1.length - lost.pipe))).1 =
      hseg h x off.toNat
        (lost.written ((aofLoop fin budget ms).2.1.take ((aofLoop fin budget ms).2.1.length - lost.pipe))).1.length := by
  obtain ⟨n, hn⟩ := lost.written_take (aofLoop fin budget ms).2.1 ((aofLoop fin budget ms).2.1.length - lost.pipe)
  rw [hn]
  apply hseg_prefix h x off.toNat k
  have := aofLoop_prefix fin budget ms
  rw [hms, pay_conts_tail _ _ htl, hb] at this
  rw [hms]
  exact (List.take_prefix _ _).trans this

/-- the writers' script of one stream transfer into the empty directory of a fresh follower -/
def streamScript (x : String) (left : Nat) (chunks : List Bytes) : List DOp :=
  [.setRunId x, .newAofWriter left] ++ chunks.map DOp.aofAppend

theorem appends_wf (chunks : List Bytes) (hne : ∀ c ∈ chunks, c ≠ []) (s : Disk) :
    s.wf (chunks.map DOp.aofAppend) := by
  induction chunks generalizing s with
  | nil => trivial
  | cons c rest ih =>
    exact ⟨hne c (by simp), ih (fun c' hc' => hne c' (List.mem_cons_of_mem _ hc')) _⟩

theorem appends_srcOk (src : Nat → UInt8) (chunks : List Bytes) (s : Disk) (hl : s.live.isSome = true)
    (hfl : ∀ i b, chunks.flatten[i]? = some b → b = src (s.hbase + s.hist.length + i)) :
    SrcOk src s (chunks.map DOp.aofAppend) := by
  induction chunks generalizing s with
  | nil => trivial
  | cons c rest ih =>
    refine ⟨?_, ?_⟩
    · intro i b hb
      apply hfl i b
      simp only [List.flatten_cons]
      have hi : i < c.length := (List.getElem?_eq_some_iff.mp hb).1
      rw [List.getElem?_append_left hi]; exact hb
    · obtain ⟨g, hg⟩ := Option.isSome_iff_exists.mp hl
      have hstep : ((s.step (.aofAppend c)).1.live.isSome = true) ∧ (s.step (.aofAppend c)).1.hbase = s.hbase ∧
          (s.step (.aofAppend c)).1.hist = s.hist ++ c := by
        simp only [Disk.step, Disk.appendLive, hg]
        split <;> simp
      apply ih _ hstep.1
      intro i b hb
      rw [hstep.2.1, hstep.2.2, List.length_append]
      have := hfl (c.length + i) b (by
        simp only [List.flatten_cons]
        rw [List.getElem?_append_right (by omega)]
        simpa using hb)
      rw [this]; congr 1; omega

theorem stream_script_wf (l m : Nat) (x : String) (left : Nat) (chunks : List Bytes)
    (hne : ∀ c ∈ chunks, c ≠ []) : (Disk.init l m).wf (streamScript x left chunks) := by
  refine ⟨by simp [Disk.okOp, Disk.init], ?_, appends_wf chunks hne _⟩
  simp [Disk.okOp, Disk.step, Disk.init, Disk.reset, Disk.closeLive, lastRight]

/-- **stream_script_srcOk.** C08's `SrcOk` for the script of a stream transfer whose payload is
    history `x` from `left` — for EVERY chunking. -/
theorem stream_script_srcOk (h : Hist UInt8) (l m : Nat) (x : String) (left : Nat) (chunks : List Bytes)
    (hp : chunks.flatten = hseg h x left chunks.flatten.length) :
    SrcOk (fun o => h.byte x o) (Disk.init l m) (streamScript x left chunks) := by
  refine ⟨trivial, trivial, ?_⟩
  apply appends_srcOk
  · simp [Disk.step, Disk.init, Disk.reset, Disk.closeLive]
  · intro i b hb
    have hs : ((((Disk.init l m).step (.setRunId x)).1.step (.newAofWriter left)).1.hbase = left) ∧
        ((((Disk.init l m).step (.setRunId x)).1.step (.newAofWriter left)).1.hist = []) := by
      simp [Disk.step, Disk.init, Disk.reset, Disk.closeLive, lastRight]
    rw [hs.1, hs.2]
    rw [hp] at hb
    have hi : i < chunks.flatten.length := by
      have := (List.getElem?_eq_some_iff.mp hb).1
      simpa using this
    simp only [hseg, List.getElem?_map, List.getElem?_range hi, Option.map_some, Option.some.injEq] at hb
    simp [← hb]

theorem recv_none_appends (chunks : List Bytes) (g : RecvG) (hg : g.cur = none) :
    ((chunks.map DOp.aofAppend).foldl recvStep g).cur = none := by
  induction chunks generalizing g with
  | nil => exact hg
  | cons c rest ih => exact ih _ hg

/-- no snapshot writer occurs in the script: `SnapRecvOk` holds (vacuously) -/
theorem stream_script_snapRecvOk (h : Hist UInt8) (x : String) (left : Nat) (chunks : List Bytes) :
    SnapRecvOk h x (streamScript x left chunks) := by
  intro j L S c _ hr _
  exfalso
  have key : ∀ j, received ((streamScript x left chunks).take j) = none := by
    intro j
    unfold received recvRun streamScript
    match j with
    | 0 => rfl
    | 1 => simp [recvStep, stopRecv]
    | j + 2 =>
      simp only [List.cons_append, List.nil_append, List.take_succ_cons, List.foldl_cons]
      rw [← List.map_take]
      apply recv_none_appends
      simp [recvStep, stopRecv]
  rw [key j] at hr
  cases hr

/-- **stream_transfer_crash_image_faithful.** A fresh follower receives a stream whose payload
    `chunks.flatten` is history `x` from `left` (what `session_stream_payload_is_history` says of
    every session against a faithful leader), written in ANY chunking; it is killed at ANY
    instant (`n` file operations issued, the last append torn after `k` bytes). What the next
    process re-opens is a faithful copy of history `x` — C08's theorems applied with C16's own
    conclusion as their `SrcOk`, nothing assumed about the script. -/
theorem stream_transfer_crash_image_faithful (h : Hist UInt8) (l m : Nat) (x : String) (left : Nat)
    (chunks : List Bytes) (hne : ∀ c ∈ chunks, c ≠ [])
    (hp : chunks.flatten = hseg h x left chunks.flatten.length) (n k : Nat) :
    ∀ d, dataOfReopened (crashImage [] (scriptOps (Disk.init l m) (streamScript x left chunks)) n k) = some d →
      d.Faithful h x :=
  crash_image_data_faithful h x l m _ (stream_script_wf l m x left chunks hne)
    (stream_script_srcOk h l m x left chunks hp) (stream_script_snapRecvOk h x left chunks) n k

/-! ### non-vacuity -/

section examples
def hSc : Hist UInt8 := ⟨fun _ o => UInt8.ofNat o, fun _ _ => []⟩
example : ([[100, 101], [102], [103, 104, 105]] : List Bytes).flatten = hseg hSc "idA" 100 6 := by decide
example : (Disk.init 20 0).wf (streamScript "idA" 100 [[100, 101], [102], [103, 104, 105]]) := by decide
-- killed after the 2nd append was torn to 0 bytes / after everything: what is re-opened
example : dataOfReopened (crashImage [] (scriptOps (Disk.init 20 0) (streamScript "idA" 100 [[100, 101], [102], [103, 104, 105]])) 99 9) =
    some ⟨100, [100, 101, 102, 103, 104, 105], none⟩ := by decide
example : ∀ d, dataOfReopened (crashImage [] (scriptOps (Disk.init 20 0) (streamScript "idA" 100 [[100, 101], [102], [103, 104, 105]])) 4 1) = some d →
    d.Faithful hSc "idA" :=
  stream_transfer_crash_image_faithful hSc 20 0 "idA" 100 _ (by decide) (by decide) 4 1
end examples

end GunYu.Props.C16
