/-
  C15 — from the ticker to the schedule condition `TAllowed`.

  `at_most_one_acting` assumes `trunOk` (= `TAllowed` at every tick: real time
  does not pass `okSent + hold` while an instance leads). Here that hypothesis
  is DERIVED in two steps through a local view of one instance
  (now, acting, okSent) with local events tick / ok sent / stop:

  A  `trunOk_of_local`: the system schedule is allowed iff every instance's
     LOCAL trace (its view of the system's events: every tick, its own
     "leader" answers, its own stops — `ltrace`, a function of the system
     run) is locally allowed (`view_tstep`: the system step acts on the view
     exactly as the local step on the projected events).
  B  `ticker_term_localOk`: the local trace the leader's clusterTicker model
     emits for one term (`leaderTrace`: the recursion of `leaderLoop`,
     Model/LeaseTicker.lean, emitting tick / ok / stop instead of a summary)
     is locally allowed with hold = leaseHold, for EVERY script of answers of
     any duration, renew period, horizon and outside close; it ends stopped
     exactly when `leaderLoop` returns (`leaderTrace_stop_iff_returned`).
  C  `lrunOk_idle`, `lrunOk_append`: stretches in which the instance does not
     lead are unconstrained, terms and stretches concatenate.

  What remains outside Lean: that the local trace of an instance of the REAL
  system is a concatenation of such terms and idle stretches — i.e. that the
  code's instance behaves as `leaderLoop` says — is the tie of the ticker
  model to the real clusterTicker (executed under virtual time every run).
-/
import GunYu.Model.LeaseTicker
import GunYu.Proofs.LeaseTimed
import GunYu.Props.C15Ticker
import GunYu.Props.C15

set_option linter.unusedSimpArgs false
set_option linter.unusedVariables false

namespace GunYu.Props.C15
open GunYu GunYu.Lease

/-! ### the local view -/

structure LSt where
  now : Nat
  acting : Bool
  okSent : Nat
  deriving DecidableEq, Repr

inductive LEv where
  | tick (d : Nat)
  | ok (sent : Nat)      -- the answer "leader" of a call sent at `sent` arrives
  | stop
  deriving DecidableEq, Repr

def lstep (hold : Nat) (s : LSt) : LEv → LSt
  | .tick d => { s with now := s.now + d }
  | .ok sent => if s.now ≤ sent + hold then { s with acting := true, okSent := sent }
                else { s with acting := false }
  | .stop => { s with acting := false }

def lrun (hold : Nat) (s : LSt) : List LEv → LSt
  | [] => s
  | ev :: rest => lrun hold (lstep hold s ev) rest

def lAllowed (hold : Nat) (s : LSt) : LEv → Prop
  | .tick d => s.acting = true → s.now + d ≤ s.okSent + hold
  | _ => True

def lrunOk (hold : Nat) (s : LSt) : List LEv → Prop
  | [] => True
  | ev :: rest => lAllowed hold s ev ∧ lrunOk hold (lstep hold s ev) rest

theorem lrun_append (hold : Nat) (s : LSt) (a b : List LEv) :
    lrun hold s (a ++ b) = lrun hold (lrun hold s a) b := by
  induction a generalizing s with
  | nil => rfl
  | cons ev rest ih => exact ih _

theorem lrunOk_append (hold : Nat) (s : LSt) (a b : List LEv) :
    lrunOk hold s (a ++ b) ↔ lrunOk hold s a ∧ lrunOk hold (lrun hold s a) b := by
  induction a generalizing s with
  | nil => simp [lrunOk, lrun]
  | cons ev rest ih => simp only [List.cons_append, lrunOk, lrun, ih, and_assoc]

/-- C: an instance that does not lead and is told nothing may see any ticks and stops -/
theorem lrunOk_idle (hold : Nat) : ∀ (evs : List LEv) (s : LSt), s.acting = false →
    (∀ ev ∈ evs, ∀ sent, ev ≠ .ok sent) → lrunOk hold s evs ∧ (lrun hold s evs).acting = false := by
  intro evs
  induction evs with
  | nil => intro s h _; exact ⟨trivial, h⟩
  | cons ev rest ih =>
    intro s h hno
    have hrest : ∀ e ∈ rest, ∀ sent, e ≠ .ok sent := fun e he => hno e (List.mem_cons_of_mem _ he)
    cases ev with
    | tick d =>
      have := ih { s with now := s.now + d } h hrest
      exact ⟨⟨fun ha => by rw [h] at ha; simp at ha, this.1⟩, this.2⟩
    | ok sent => exact absurd rfl (hno _ List.mem_cons_self sent)
    | stop =>
      have := ih { s with acting := false } rfl hrest
      exact ⟨⟨trivial, this.1⟩, this.2⟩

/-! ### A: the system through the local views -/

def view (s : TSys) (key id : Bytes) : LSt :=
  { now := s.base.now, acting := (s.inst key id).acting, okSent := (s.inst key id).okSent }

/-- what instance (key, id) sees of one system event -/
def projEv (s : TSys) (key id : Bytes) : TEv → List LEv
  | .tick d => [.tick d]
  | .answer k i =>
    if k = key ∧ i = id then
      match (s.inst key id).pend with
      | some ⟨sent, some r⟩ => if r = .leader then [.ok sent] else []
      | _ => []
    else []
  | .stop k i => if k = key ∧ i = id then [.stop] else []
  | _ => []

def ltrace (cfg hold : Bytes → Nat) (s : TSys) (key id : Bytes) : List TEv → List LEv
  | [] => []
  | ev :: rest => projEv s key id ev ++ ltrace cfg hold (tstep cfg hold s ev) key id rest

theorem tstep_now (cfg hold : Bytes → Nat) (s : TSys) (ev : TEv) :
    (tstep cfg hold s ev).base.now = match ev with
      | .tick d => s.base.now + d
      | _ => s.base.now := by
  cases ev <;> (simp only [tstep, step]; repeat' (first | rfl | split))

theorem view_eq (a b : LSt) (h1 : a.now = b.now) (h2 : a.acting = b.acting) (h3 : a.okSent = b.okSent) : a = b := by
  cases a; cases b; simp_all

/-- an event that neither is a tick nor concerns the acting state of (key, id) leaves its view alone -/
theorem view_keep (cfg hold : Bytes → Nat) (s : TSys) (ev : TEv) (key id : Bytes)
    (hn : (tstep cfg hold s ev).base.now = s.base.now)
    (ha : ((tstep cfg hold s ev).inst key id).acting = (s.inst key id).acting)
    (ho : ((tstep cfg hold s ev).inst key id).okSent = (s.inst key id).okSent) :
    view (tstep cfg hold s ev) key id = view s key id :=
  view_eq _ _ hn ha ho

/-- the system step acts on the view of an instance exactly as the local steps on what it sees -/
theorem view_tstep (cfg hold : Bytes → Nat) (s : TSys) (ev : TEv) (key id : Bytes) :
    view (tstep cfg hold s ev) key id = lrun (hold id) (view s key id) (projEv s key id ev) := by
  by_cases ht : ev.target = some (key, id)
  · -- an event of this instance
    cases ev with
    | tick d => simp [TEv.target] at ht
    | send k i =>
      simp only [TEv.target, Option.some.injEq, Prod.mk.injEq] at ht; obtain ⟨rfl, rfl⟩ := ht
      simp only [projEv, lrun]
      apply view_eq <;> (simp only [view, tstep]; split <;> simp [setInst])
    | exec k i =>
      simp only [TEv.target, Option.some.injEq, Prod.mk.injEq] at ht; obtain ⟨rfl, rfl⟩ := ht
      simp only [projEv, lrun]
      apply view_eq
      · rw [show (view (tstep cfg hold s (.exec k i)) k i).now = (tstep cfg hold s (.exec k i)).base.now from rfl,
          tstep_now]; rfl
      · simp only [view, tstep]; split <;> simp [setInst]
      · simp only [view, tstep]; split <;> simp [setInst]
    | answer k i =>
      simp only [TEv.target, Option.some.injEq, Prod.mk.injEq] at ht; obtain ⟨rfl, rfl⟩ := ht
      simp only [projEv, and_self, ↓reduceIte]
      cases hp : (s.inst k i).pend with
      | none => simp only [lrun]; apply view_eq <;> simp [view, tstep, hp]
      | some p =>
        obtain ⟨sent, res⟩ := p
        cases res with
        | none => simp only [lrun]; apply view_eq <;> simp [view, tstep, hp]
        | some r =>
          dsimp only
          by_cases hr : r = .leader
          · subst hr
            simp only [↓reduceIte, lrun, lstep, view]
            by_cases hl : s.base.now ≤ sent + hold i
            · simp only [hl, ↓reduceIte]
              apply view_eq <;> simp [view, tstep, hp, hl, setInst]
            · simp only [hl, ↓reduceIte]
              apply view_eq <;> simp [view, tstep, hp, hl, setInst]
          · simp only [hr, ↓reduceIte, lrun]
            apply view_eq <;> simp [view, tstep, hp, hr, setInst]
    | giveUp k i =>
      simp only [TEv.target, Option.some.injEq, Prod.mk.injEq] at ht; obtain ⟨rfl, rfl⟩ := ht
      simp only [projEv, lrun]
      apply view_eq <;> simp [view, tstep, setInst]
    | stray k i =>
      simp only [TEv.target, Option.some.injEq, Prod.mk.injEq] at ht; obtain ⟨rfl, rfl⟩ := ht
      simp only [projEv, lrun]
      apply view_eq
      · rw [show (view (tstep cfg hold s (.stray k i)) k i).now = (tstep cfg hold s (.stray k i)).base.now from rfl,
          tstep_now]; rfl
      · rfl
      · rfl
    | stop k i =>
      simp only [TEv.target, Option.some.injEq, Prod.mk.injEq] at ht; obtain ⟨rfl, rfl⟩ := ht
      simp only [projEv, and_self, ↓reduceIte, lrun, lstep]
      apply view_eq <;> simp [view, tstep, setInst]
    | resign k i =>
      simp only [TEv.target, Option.some.injEq, Prod.mk.injEq] at ht; obtain ⟨rfl, rfl⟩ := ht
      simp only [projEv, lrun]
      apply view_eq
      · rw [show (view (tstep cfg hold s (.resign k i)) k i).now = (tstep cfg hold s (.resign k i)).base.now from rfl,
          tstep_now]; rfl
      · simp only [view, tstep]; split <;> rfl
      · simp only [view, tstep]; split <;> rfl
  · -- a tick, or an event of another instance
    have hinst := tstep_inst_other cfg hold s ev key id ht
    cases ev with
    | tick d => rfl
    | answer k i =>
      have hne : ¬ (k = key ∧ i = id) := fun ⟨a, b⟩ => ht (by rw [a, b]; rfl)
      simp only [projEv, hne, ↓reduceIte, lrun]
      exact view_eq _ _ (by rw [show (view _ key id).now = (tstep cfg hold s (.answer k i)).base.now from rfl, tstep_now]; rfl)
        (by simp only [view, hinst]) (by simp only [view, hinst])
    | stop k i =>
      have hne : ¬ (k = key ∧ i = id) := fun ⟨a, b⟩ => ht (by rw [a, b]; rfl)
      simp only [projEv, hne, ↓reduceIte, lrun]
      exact view_eq _ _ rfl (by simp only [view, hinst]) (by simp only [view, hinst])
    | send k i =>
      simp only [projEv, lrun]
      exact view_eq _ _ (by rw [show (view _ key id).now = (tstep cfg hold s (.send k i)).base.now from rfl, tstep_now]; rfl)
        (by simp only [view, hinst]) (by simp only [view, hinst])
    | exec k i =>
      simp only [projEv, lrun]
      exact view_eq _ _ (by rw [show (view _ key id).now = (tstep cfg hold s (.exec k i)).base.now from rfl, tstep_now]; rfl)
        (by simp only [view, hinst]) (by simp only [view, hinst])
    | giveUp k i =>
      simp only [projEv, lrun]
      exact view_eq _ _ rfl (by simp only [view, hinst]) (by simp only [view, hinst])
    | stray k i =>
      simp only [projEv, lrun]
      exact view_eq _ _ (by rw [show (view _ key id).now = (tstep cfg hold s (.stray k i)).base.now from rfl, tstep_now]; rfl)
        (by simp only [view, hinst]) (by simp only [view, hinst])
    | resign k i =>
      simp only [projEv, lrun]
      exact view_eq _ _ (by rw [show (view _ key id).now = (tstep cfg hold s (.resign k i)).base.now from rfl, tstep_now]; rfl)
        (by simp only [view, hinst]) (by simp only [view, hinst])

theorem lrunOk_projEv (cfg hold : Bytes → Nat) (s : TSys) (ev : TEv) (key id : Bytes) :
    lrunOk (hold id) (view s key id) (projEv s key id ev) ↔
      (∀ d, ev = .tick d → (s.inst key id).acting = true → s.base.now + d ≤ (s.inst key id).okSent + hold id) := by
  cases ev with
  | tick d =>
    simp only [projEv, lrunOk, lAllowed, view, and_true]
    constructor
    · intro h d' hd; cases hd; exact h
    · intro h; exact h d rfl
  | answer k i =>
    simp only [projEv]
    constructor
    · intro _ d hd; cases hd
    · intro _
      split
      · split
        · split <;> simp [lrunOk, lAllowed]
        · simp [lrunOk]
      · simp [lrunOk]
  | stop k i =>
    simp only [projEv]
    constructor
    · intro _ d hd; cases hd
    · intro _; split <;> simp [lrunOk, lAllowed]
  | send k i => simp [projEv, lrunOk]
  | exec k i => simp [projEv, lrunOk]
  | giveUp k i => simp [projEv, lrunOk]
  | stray k i => simp [projEv, lrunOk]
  | resign k i => simp [projEv, lrunOk]

/-- A: a system schedule satisfies `TAllowed` throughout iff the local trace of EVERY instance is locally
    allowed -/
theorem trunOk_iff_local (cfg hold : Bytes → Nat) : ∀ (evs : List TEv) (s : TSys),
    trunOk cfg hold s evs ↔
      ∀ key id, lrunOk (hold id) (view s key id) (ltrace cfg hold s key id evs) := by
  intro evs
  induction evs with
  | nil => intro s; simp [trunOk, ltrace, lrunOk]
  | cons ev rest ih =>
    intro s
    simp only [trunOk, ltrace, lrunOk_append, ← view_tstep, ih (tstep cfg hold s ev)]
    constructor
    · intro ⟨ha, hr⟩ key id
      refine ⟨(lrunOk_projEv cfg hold s ev key id).2 ?_, by rw [← view_tstep]; exact hr key id⟩
      intro d hd hact
      subst hd
      exact ha key id hact
    · intro h
      refine ⟨?_, fun key id => by have := (h key id).2; rw [← view_tstep] at this; exact this⟩
      cases ev with
      | tick d =>
        intro key id hact
        exact (lrunOk_projEv cfg hold s (.tick d) key id).1 (h key id).1 d rfl hact
      | send k i => trivial
      | exec k i => trivial
      | answer k i => trivial
      | giveUp k i => trivial
      | stray k i => trivial
      | stop k i => trivial
      | resign k i => trivial

theorem trunOk_of_local (cfg hold : Bytes → Nat) (evs : List TEv) (s : TSys)
    (h : ∀ key id, lrunOk (hold id) (view s key id) (ltrace cfg hold s key id evs)) : trunOk cfg hold s evs :=
  (trunOk_iff_local cfg hold evs s).2 h

/-! ### B: one leader term of the ticker, as a local trace -/

/-- what the stop from outside (lease timer / somebody else) looks like within the horizon -/
def stopTrace (t dl : Nat) (ext : Option Nat) (hor : Nat) : List LEv :=
  if stopAt dl ext ≤ hor then [.tick (stopAt dl ext - t), .stop] else [.tick (hor - t)]

/-- the recursion of `leaderLoop` (Model/LeaseTicker.lean; same tests, same `tries`, same successor state)
    emitting what the instance does instead of a summary: time passes, a successful renewal is answered
    (`ok` with the instant the ticker counts it from), the ticker returns (`stop`). Instants are ms since the
    ticker started; `T0` = the real instant of that start. -/
def leaderTrace (P : TParams) (R H hor : Nat) (ext : Option Nat) (T0 : Nat) :
    Nat → Nat → Nat → Bool → Nat → List TAns → List Nat → List LEv
  | 0, _, _, _, _, _, _ => []
  | fuel + 1, t, next, buf, dl, script, calls =>
    let tt := if buf then t else next
    let next1 := if buf then next else next + R
    if stopAt dl ext < tt then stopTrace t dl ext hor
    else if hor < tt then [.tick (hor - t)]
    else
      match tries (stopAt dl ext) P.retry tt .other script calls with
      | .stuck _ => stopTrace t dl ext hor
      | .failed ret _ _ _ => [.tick (ret - t), .stop]
      | .ok ret rest calls' =>
        let tb := ticksDuring R next1 false ret
        [.tick (ret - t), .ok (T0 + (if P.rearmFromSend then tt else ret))] ++
          leaderTrace P R H hor ext T0 fuel ret tb.1 tb.2 ((if P.rearmFromSend then tt else ret) + H) rest calls'

theorem stopTrace_ok (H T0 t dl oks : Nat) (ext : Option Nat) (hor : Nat) (h1 : t ≤ dl) (h4 : T0 + dl = oks + H) :
    lrunOk H ⟨T0 + t, true, oks⟩ (stopTrace t dl ext hor) := by
  have hs := stopAt_le dl ext
  unfold stopTrace
  split
  · simp only [lrunOk, lAllowed, lstep, and_true]
    intro _; omega
  · simp only [lrunOk, lAllowed, lstep, and_true]
    intro _; omega

/-- B: for the re-arm expression of the source, EVERY script of answers of any duration, renew period,
    hold, horizon, outside close and loop state (`t ≤ dl ≤ t + H`, `t ≤ next`, timer at okSent + H): the
    local trace of the leader's ticker never lets time pass `okSent + H` while it leads. -/
theorem ticker_term_localOk (P : TParams) (hP : P.rearmFromSend = true) (R H hor : Nat) (hR : 0 < R)
    (ext : Option Nat) (T0 : Nat) :
    ∀ (fuel t next : Nat) (buf : Bool) (dl : Nat) (script : List TAns) (calls : List Nat) (oks : Nat),
      t ≤ dl → dl ≤ t + H → t ≤ next → T0 + dl = oks + H →
      lrunOk H ⟨T0 + t, true, oks⟩ (leaderTrace P R H hor ext T0 fuel t next buf dl script calls) := by
  intro fuel
  induction fuel with
  | zero => intro t next buf dl script calls oks _ _ _ _; trivial
  | succ fuel ih =>
    intro t next buf dl script calls oks h1 h2 h3 h4
    simp only [leaderTrace]
    have hsl := stopAt_le dl ext
    have htt : t ≤ (if buf = true then t else next) := by split <;> omega
    generalize hgt : (if buf = true then t else next) = tt at htt ⊢
    generalize hgn : (if buf = true then next else next + R) = next1
    have hn1 : tt < next1 ∨ next1 ≤ tt := by omega
    by_cases c1 : stopAt dl ext < tt
    · simp only [c1, ↓reduceIte]; exact stopTrace_ok H T0 t dl oks ext hor h1 h4
    · simp only [c1, ↓reduceIte]
      by_cases c2 : hor < tt
      · simp only [c2, ↓reduceIte, lrunOk, lAllowed, lstep, and_true]
        intro _; omega
      · simp only [c2, ↓reduceIte]
        have hts := tries_spec (stopAt dl ext) P.retry tt .other script calls (by omega)
        cases heq : tries (stopAt dl ext) P.retry tt .other script calls with
        | stuck calls' => dsimp only; exact stopTrace_ok H T0 t dl oks ext hor h1 h4
        | failed ret e rest calls' =>
          rw [heq] at hts; dsimp only at hts ⊢
          simp only [lrunOk, lAllowed, lstep, and_true]
          intro _; omega
        | ok ret rest calls' =>
          rw [heq] at hts; dsimp only at hts ⊢
          simp only [hP, ↓reduceIte, List.cons_append, List.nil_append, lrunOk, lAllowed, lstep, true_and]
          refine ⟨fun _ => by omega, ?_⟩
          have hle : T0 + t + (ret - t) ≤ T0 + tt + H := by omega
          simp only [hle, ↓reduceIte]
          have e : T0 + t + (ret - t) = T0 + ret := by omega
          rw [e]
          have hgt2 : ret < next1 ∨ next1 ≤ ret := by omega
          have hnext := ticksDuring_gt R next1 false ret hR hgt2
          exact ih ret _ _ (tt + H) rest calls' (T0 + tt) (by omega) (by omega) (by omega) (by omega)

/-- the ticker as cmd/syncer.go stands (parameters from the source), campaign sent `ago ≤ hold` before the
    ticker started at real instant `T0 ≥ ago`: its whole term is locally allowed -/
theorem ticker_localOk (R H ago hor T0 : Nat) (hR : 0 < R) (hago : ago ≤ H) (hT : ago ≤ T0) (ext : Option Nat)
    (script : List TAns) :
    lrunOk H ⟨T0 + 0, true, T0 - ago⟩
      (leaderTrace srcParams R H hor ext T0 (script.length + hor / R + 2) 0 R false (H - ago) script []) :=
  ticker_term_localOk srcParams rfl R H hor hR ext T0 _ 0 R false (H - ago) script [] (T0 - ago)
    (Nat.zero_le _) (by omega) (Nat.zero_le _) (by omega)

-- non-vacuity: the scenario of Props/C15Ticker.lean (R 1.5 s, hold 3.5 s, campaign 200 ms before, ticker started at 1000):
-- renewals answered at 1500 and 4637 (sent 3000), the third never returns: stopped by the lease timer at 6500
example : leaderTrace srcParams 1500 3500 9750 none 1000 8 0 1500 false 3300 [⟨.ok, 0⟩, ⟨.ok, 1637⟩, ⟨.blk, 0⟩] []
    = [.tick 1500, .ok 2500, .tick 3137, .ok 4000, .tick 1863, .stop] := by decide
example : (lrun 3500 ⟨1000, true, 800⟩ [.tick 1500, .ok 2500, .tick 3137, .ok 4000, .tick 1863, .stop])
    = ⟨7500, false, 4000⟩ := by decide
/-! ### the acting theorem with its schedule hypothesis replaced by the local one -/

/-- at most one instance runs RunLeader, for every schedule in which the LOCAL trace of every instance is
    locally allowed — which `ticker_term_localOk` establishes for every term of an instance whose
    clusterTicker is `leaderLoop`, and `lrunOk_idle` for the stretches in which it does not lead. -/
theorem at_most_one_acting_of_local (cfg hold : Bytes → Nat) (hcfg : ∀ id, 1 ≤ cfg id)
    (hh : ∀ id, hold id ≤ cfg id * 1000) (st : Store) (now : Nat) (evs : List TEv)
    (hloc : ∀ key id, lrunOk (hold id) (view (TSys.init st now) key id)
      (ltrace cfg hold (TSys.init st now) key id evs)) (key i j : Bytes)
    (hi : ((trun cfg hold (TSys.init st now) evs).inst key i).acting = true)
    (hj : ((trun cfg hold (TSys.init st now) evs).inst key j).acting = true) : i = j :=
  at_most_one_acting cfg hold hcfg hh st now evs (trunOk_of_local cfg hold evs _ hloc) key i j hi hj

/- NOT PROVED, and not stated as a Lean proposition (it needs a model of runCluster's loop that emits the
   instance's system events): the local trace of an instance in any run in which it follows the code is a
   concatenation of `leaderTrace` terms (each started by an `ok` within hold of its send) and idle stretches.
   Proved: each piece (ticker_term_localOk, lrunOk_idle), their concatenation (lrunOk_append), and the step
   from all instances' local traces to `trunOk` (trunOk_iff_local). -/

-- the local trace of `okEvs` (Props/C15.lean) for instance a: two answered calls, allowed with hold 2000
example : ltrace exCfg exHold (TSys.init Store.empty 5) kK iA okEvs
    = [.tick 400, .tick 500, .ok 5, .tick 900, .tick 50, .tick 50, .ok 1805, .tick 1800] := by decide
example : lrunOk 2000 (view (TSys.init Store.empty 5) kK iA)
    [.tick 400, .tick 500, .ok 5, .tick 900, .tick 50, .tick 50, .ok 1805, .tick 1800] := by
  simp [lrunOk, lAllowed, lstep, view, TSys.init, Inst.idle, Sys.init]

/-! ### `leaderTrace` and `leaderLoop` stop at the same instant -/

theorem stopOut_returned (calls : List Nat) (dl : Nat) (ext : Option Nat) (hor : Nat) :
    (stopOut calls dl ext hor).returned = if stopAt dl ext ≤ hor then some (stopAt dl ext) else none := by
  unfold stopOut stopAt
  cases ext with
  | none => dsimp only; split <;> rfl
  | some e =>
    dsimp only
    by_cases h1 : e < dl
    · simp only [h1, ↓reduceIte]; split <;> rfl
    · simp only [h1, ↓reduceIte]; split <;> rfl

theorem le_stopAt (x dl : Nat) (ext : Option Nat) (h1 : x ≤ dl) (h2 : ∀ e, ext = some e → x ≤ e) :
    x ≤ stopAt dl ext := by
  unfold stopAt
  cases ext with
  | none => exact h1
  | some e => dsimp only; split
              · exact h2 e rfl
              · exact h1

theorem stopAt_le_ext (dl e : Nat) : stopAt dl (some e) ≤ e := by
  unfold stopAt; dsimp only; split <;> omega

theorem stopTrace_run (H T0 t dl oks : Nat) (ext : Option Nat) (hor : Nat) (ht : t ≤ stopAt dl ext) :
    (stopAt dl ext ≤ hor → lrun H ⟨T0 + t, true, oks⟩ (stopTrace t dl ext hor) = ⟨T0 + stopAt dl ext, false, oks⟩) ∧
    (¬ stopAt dl ext ≤ hor → (lrun H ⟨T0 + t, true, oks⟩ (stopTrace t dl ext hor)).acting = true) := by
  unfold stopTrace
  constructor
  · intro h
    simp only [h, ↓reduceIte, lrun, lstep]
    have : T0 + t + (stopAt dl ext - t) = T0 + stopAt dl ext := by omega
    rw [this]
  · intro h
    simp only [h, ↓reduceIte, lrun, lstep]

/-- the local trace stops exactly when (and where) `leaderLoop` returns: the two recursions are one -/
theorem leaderTrace_returns_with_loop (P : TParams) (R H hor : Nat) (hR : 0 < R) (ext : Option Nat) (T0 : Nat) :
    ∀ (fuel t next : Nat) (buf : Bool) (dl : Nat) (script : List TAns) (calls : List Nat) (oks : Nat),
      t ≤ stopAt dl ext → t ≤ next → dl ≤ t + H →
      (∀ r, (leaderLoop P R H hor ext fuel t next buf dl script calls).returned = some r →
        (lrun H ⟨T0 + t, true, oks⟩ (leaderTrace P R H hor ext T0 fuel t next buf dl script calls)).acting = false ∧
        (lrun H ⟨T0 + t, true, oks⟩ (leaderTrace P R H hor ext T0 fuel t next buf dl script calls)).now = T0 + r) ∧
      ((leaderLoop P R H hor ext fuel t next buf dl script calls).returned = none →
        (lrun H ⟨T0 + t, true, oks⟩ (leaderTrace P R H hor ext T0 fuel t next buf dl script calls)).acting = true) := by
  intro fuel
  induction fuel with
  | zero =>
    intro t next buf dl script calls oks _ _ _
    simp only [leaderLoop, leaderTrace, lrun]
    exact ⟨fun r hr => by simp at hr, fun _ => by first | rfl | trivial⟩
  | succ fuel ih =>
    intro t next buf dl script calls oks h1 h3 h2
    simp only [leaderLoop, leaderTrace]
    have hsl := stopAt_le dl ext
    have htt : t ≤ (if buf = true then t else next) := by split <;> omega
    generalize hgt : (if buf = true then t else next) = tt at htt ⊢
    generalize hgn : (if buf = true then next else next + R) = next1
    have hn1 : tt < next1 ∨ next1 ≤ tt := by omega
    have hstop : ∀ calls', (∀ r, (stopOut calls' dl ext hor).returned = some r →
        (lrun H ⟨T0 + t, true, oks⟩ (stopTrace t dl ext hor)).acting = false ∧
        (lrun H ⟨T0 + t, true, oks⟩ (stopTrace t dl ext hor)).now = T0 + r) ∧
        ((stopOut calls' dl ext hor).returned = none →
          (lrun H ⟨T0 + t, true, oks⟩ (stopTrace t dl ext hor)).acting = true) := by
      intro calls'
      rw [stopOut_returned]
      obtain ⟨s1, s2⟩ := stopTrace_run H T0 t dl oks ext hor h1
      by_cases hh : stopAt dl ext ≤ hor
      · simp only [hh, ↓reduceIte]
        refine ⟨fun r hr => ?_, fun hr => by simp at hr⟩
        simp only [Option.some.injEq] at hr
        rw [s1 hh, ← hr]; exact ⟨rfl, rfl⟩
      · simp only [hh, ↓reduceIte]
        exact ⟨fun r hr => by simp at hr, fun _ => s2 hh⟩
    by_cases c1 : stopAt dl ext < tt
    · simp only [c1, ↓reduceIte]; exact hstop calls
    · simp only [c1, ↓reduceIte]
      by_cases c2 : hor < tt
      · simp only [c2, ↓reduceIte, lrun, lstep]
        exact ⟨fun r hr => by simp at hr, fun _ => by first | rfl | trivial⟩
      · simp only [c2, ↓reduceIte]
        have hts := tries_spec (stopAt dl ext) P.retry tt .other script calls (by omega)
        cases heq : tries (stopAt dl ext) P.retry tt .other script calls with
        | stuck calls' => dsimp only; exact hstop calls'
        | failed ret e rest calls' =>
          rw [heq] at hts; dsimp only at hts ⊢
          simp only [lrun, lstep]
          refine ⟨fun r hr => ?_, fun hr => by simp at hr⟩
          simp only [Option.some.injEq] at hr
          exact ⟨by first | rfl | trivial, by show T0 + t + (ret - t) = T0 + r; omega⟩
        | ok ret rest calls' =>
          rw [heq] at hts; dsimp only at hts ⊢
          simp only [List.cons_append, List.nil_append, lrun, lstep]
          have e : T0 + t + (ret - t) = T0 + ret := by omega
          have hle : T0 + t + (ret - t) ≤ T0 + (if P.rearmFromSend = true then tt else ret) + H := by
            split <;> omega
          simp only [hle, ↓reduceIte]
          rw [e]
          have hgt2 : ret < next1 ∨ next1 ≤ ret := by omega
          have hnext := ticksDuring_gt R next1 false ret hR hgt2
          apply ih
          · apply le_stopAt
            · split <;> omega
            · intro e' he'
              subst he'
              have := stopAt_le_ext dl e'
              omega
          · omega
          · split <;> omega

end GunYu.Props.C15
