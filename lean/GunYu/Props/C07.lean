import GunYu.Model.Sender
import GunYu.Model.Target
namespace GunYu.Props.C07
end GunYu.Props.C07
