/-
  C07 — The stored resume position only moves forward along command boundaries.

  Model: GunYu/Model/Sender.lean (`run` = the sendCmdsBatch loop over ANY event
  list: items in stream order interleaved with batch / keep-alive / checkpoint
  ticks and `done`, in any arrangement — an idle source is a list of ticks).
  `cpOffsets out` = every `<runid>_offset` value written, in wire order.
  Item offsets are command END offsets (Model `parseStep`, tied by the
  correspondence harness) or the offset the run started from (the initial
  SELECT item of a resumed run).
-/
import GunYu.Model.Sender
import GunYu.Model.Target
import GunYu.Proofs.SenderCp

namespace GunYu.Props.C07
open GunYu GunYu.Sender

/-- offsets carried by the item events of a schedule -/
def itemOffsets : List Ev → List Int
  | [] => []
  | .item it :: rest => it.offset :: itemOffsets rest
  | _ :: rest => itemOffsets rest

/-- item offsets never decrease along the schedule, starting from `lo` -/
def Mono : Int → List Ev → Prop
  | _, [] => True
  | lo, .item it :: rest => lo ≤ it.offset ∧ Mono it.offset rest
  | lo, _ :: rest => Mono lo rest

theorem mem_shape {old new o : Int} {l : List Int} (h : StepShape old new l) (ho : o ∈ l) :
    0 ≤ o ∧ (o = old ∨ o = new) := by
  obtain ⟨l1, l2, rfl, h1, h2⟩ := h
  rcases List.mem_append.mp ho with m | m
  · rcases h1 with rfl | ⟨rfl, hp⟩ | ⟨rfl, hp⟩
    · cases m
    · simp at m; subst m; exact ⟨hp, Or.inl rfl⟩
    · simp at m; subst m; exact ⟨hp, Or.inr rfl⟩
  · rcases h2 with rfl | ⟨rfl, hp⟩
    · cases m
    · simp at m; subst m; exact ⟨hp, Or.inr rfl⟩

theorem pairwise_shape {old new : Int} {l : List Int} (h : StepShape old new l) (hle : old ≤ new) :
    l.Pairwise (· ≤ ·) := by
  obtain ⟨l1, l2, rfl, h1, h2⟩ := h
  rcases h1 with rfl | ⟨rfl, _⟩ | ⟨rfl, _⟩ <;> rcases h2 with rfl | ⟨rfl, _⟩ <;> simp [hle]

theorem newLast_mem (s : SState) (ev : Ev) (rest : List Ev) :
    newLast s ev = s.lastOffset ∨ newLast s ev ∈ itemOffsets (ev :: rest) := by
  cases ev <;> simp [newLast, itemOffsets]

/-- **Every stored offset is a command boundary** (an offset carried by an item
    the loop has received) or the position the loop started with, and is never
    negative — in particular never the "-1 / undefined" marker. For every
    configuration, every state, every schedule. -/
theorem cp_boundary (c : SCfg) (s : SState) (evs : List Ev) :
    ∀ o ∈ cpOffsets (run c s evs).2, 0 ≤ o ∧ (o = s.lastOffset ∨ o ∈ itemOffsets evs) := by
  induction evs generalizing s with
  | nil => intro o ho; simp [run] at ho
  | cons ev rest ih =>
    intro o ho
    obtain ⟨hlast, hshape⟩ := step_cp c s ev
    have hstep : ∀ o ∈ cpOffsets (step c s ev).2,
        0 ≤ o ∧ (o = s.lastOffset ∨ o ∈ itemOffsets (ev :: rest)) := by
      intro o ho
      obtain ⟨hp, h⟩ := mem_shape hshape ho
      refine ⟨hp, ?_⟩
      rcases h with h | h
      · exact Or.inl h
      · rcases newLast_mem s ev rest with e | e
        · left; rw [h, e]
        · right; rw [h]; exact e
    simp only [run] at ho
    split at ho
    · exact hstep o ho
    · rw [cpOffsets_append] at ho
      rcases List.mem_append.mp ho with m | m
      · exact hstep o m
      · obtain ⟨hp, h⟩ := ih (step c s ev).1 o m
        refine ⟨hp, ?_⟩
        rcases h with h | h
        · rw [hlast] at h
          rcases newLast_mem s ev rest with e | e
          · left; rw [h, e]
          · right; rw [h]; exact e
        · right
          cases ev <;> simp [itemOffsets, h]

/-- From a fresh loop (`lastOffset = -1`) every stored offset is the end offset
    of a command (or the start offset item) actually received. -/
theorem cp_boundary_fresh (c : SCfg) (evs : List Ev) :
    ∀ o ∈ cpOffsets (run c initS evs).2, o ∈ itemOffsets evs := by
  intro o ho
  obtain ⟨hp, h⟩ := cp_boundary c initS evs o ho
  rcases h with h | h
  · exfalso; simp [initS] at h; omega
  · exact h

theorem mono_newLast (s : SState) (ev : Ev) (rest : List Ev) (h : Mono s.lastOffset (ev :: rest)) :
    s.lastOffset ≤ newLast s ev ∧ Mono (newLast s ev) rest := by
  cases ev <;> simp [Mono, newLast] at h ⊢ <;> exact h

/-- **Successive stored offsets never decrease** within a run, and none is
    smaller than the position the loop held when the schedule began. -/
theorem cp_monotone (c : SCfg) (s : SState) (evs : List Ev) (hm : Mono s.lastOffset evs) :
    (cpOffsets (run c s evs).2).Pairwise (· ≤ ·) ∧
    ∀ o ∈ cpOffsets (run c s evs).2, s.lastOffset ≤ o := by
  induction evs generalizing s with
  | nil => simp [run]
  | cons ev rest ih =>
    obtain ⟨hlast, hshape⟩ := step_cp c s ev
    obtain ⟨hle, hrest⟩ := mono_newLast s ev rest hm
    have hstep_ge : ∀ o ∈ cpOffsets (step c s ev).2, s.lastOffset ≤ o := by
      intro o ho
      rcases (mem_shape hshape ho).2 with h | h <;> omega
    have hstep_le : ∀ o ∈ cpOffsets (step c s ev).2, o ≤ newLast s ev := by
      intro o ho
      rcases (mem_shape hshape ho).2 with h | h <;> omega
    simp only [run]
    split
    · exact ⟨pairwise_shape hshape hle, hstep_ge⟩
    · rw [cpOffsets_append]
      have hr := ih (step c s ev).1 (by rw [hlast]; exact hrest)
      rw [hlast] at hr
      refine ⟨?_, ?_⟩
      · rw [List.pairwise_append]
        refine ⟨pairwise_shape hshape hle, hr.1, ?_⟩
        intro a ha b hb
        have := hstep_le a ha
        have := hr.2 b hb
        omega
      · intro o ho
        rcases List.mem_append.mp ho with m | m
        · exact hstep_ge o m
        · have := hr.2 o m; omega

/-- **Across a restart**: if the next run only receives items at or beyond the
    position `x` it resumed from (the parser starts at `x`; the optional initial
    SELECT item carries `x` itself), nothing it stores is below `x`; so when
    `x` is at least everything stored before, stored positions never decrease
    over any number of restarts. -/
theorem restart_monotone (c : SCfg) (x : Int) (evs : List Ev)
    (hge : ∀ o ∈ itemOffsets evs, x ≤ o) :
    ∀ o ∈ cpOffsets (run c initS evs).2, x ≤ o := by
  intro o ho
  exact hge o (cp_boundary_fresh c evs o ho)

/-- An idle source (ticks only, in any number and order) stores nothing new
    beyond the position already held, and nothing at all when the run has not
    consumed anything yet — a keep-alive never replaces a good position. -/
theorem idle_stores_nothing_fresh (c : SCfg) (evs : List Ev) (hidle : itemOffsets evs = []) :
    cpOffsets (run c initS evs).2 = [] := by
  apply List.eq_nil_iff_forall_not_mem.mpr
  intro o ho
  have := cp_boundary_fresh c evs o ho
  rw [hidle] at this
  cases this

/-! Non-vacuity: a transactional, resumable configuration; a schedule with a
    keep-alive before the first item, a SELECT barrier and a transaction. -/
def exCfg : SCfg := { txnMode := true, resume := true, batchCount := 2, batchBytes := 1000 }
def exEvs : List Ev :=
  [ .keepaliveTick,
    .item { cmd := bSelect, args := [[49]], offset := 1023, db := 1 },
    .item { cmd := [115,101,116], args := [[97],[98]], offset := 1050, db := 1 },
    .batchTick,
    .item { cmd := bMulti, args := [], offset := 1065, db := 1 },
    .item { cmd := [115,101,116], args := [[99],[100]], offset := 1092, db := 1 },
    .item { cmd := bExec, args := [], offset := 1106, db := 1 },
    .cpTick, .done ]

example : Mono initS.lastOffset exEvs := by simp [exEvs, Mono, initS]
example : cpOffsets (run exCfg initS exEvs).2 = [1050, 1050, 1106] := by decide
example : itemOffsets exEvs = [1023, 1050, 1065, 1092, 1106] := by decide

end GunYu.Props.C07
