/-
  C07 — The stored resume position only moves forward along command boundaries.

  Model: GunYu/Model/Sender.lean (`run` = the sendCmdsBatch loop over ANY event
  list: items in stream order interleaved with batch / keep-alive / checkpoint
  ticks and `done`, in any arrangement — an idle source is a list of ticks).
  `cpOffsets out` = every `<runid>_offset` value written, in wire order.
  Item offsets are command END offsets (Model `parseStep`, tied by the
  correspondence harness) or the offset the run started from (the initial
  SELECT item of a resumed run).
-/
import GunYu.Model.Sender
import GunYu.Model.Target
import GunYu.Proofs.SenderCp
import GunYu.Proofs.MaxOffset
import GunYu.Proofs.Parser
import GunYu.Proofs.RunId

namespace GunYu.Props.C07
open GunYu GunYu.Sender GunYu.Target

/-- offsets carried by the item events of a schedule -/
def itemOffsets : List Ev → List Int
  | [] => []
  | .item it :: rest => it.offset :: itemOffsets rest
  | _ :: rest => itemOffsets rest

/-- item offsets never decrease along the schedule, starting from `lo` -/
def Mono : Int → List Ev → Prop
  | _, [] => True
  | lo, .item it :: rest => lo ≤ it.offset ∧ Mono it.offset rest
  | lo, _ :: rest => Mono lo rest

theorem mem_shape {old new o : Int} {l : List Int} (h : StepShape old new l) (ho : o ∈ l) :
    0 ≤ o ∧ (o = old ∨ o = new) := by
  obtain ⟨l1, l2, rfl, h1, h2⟩ := h
  rcases List.mem_append.mp ho with m | m
  · rcases h1 with rfl | ⟨rfl, hp⟩ | ⟨rfl, hp⟩
    · cases m
    · simp at m; subst m; exact ⟨hp, Or.inl rfl⟩
    · simp at m; subst m; exact ⟨hp, Or.inr rfl⟩
  · rcases h2 with rfl | ⟨rfl, hp⟩
    · cases m
    · simp at m; subst m; exact ⟨hp, Or.inr rfl⟩

theorem pairwise_shape {old new : Int} {l : List Int} (h : StepShape old new l) (hle : old ≤ new) :
    l.Pairwise (· ≤ ·) := by
  obtain ⟨l1, l2, rfl, h1, h2⟩ := h
  rcases h1 with rfl | ⟨rfl, _⟩ | ⟨rfl, _⟩ <;> rcases h2 with rfl | ⟨rfl, _⟩ <;> simp [hle]

theorem newLast_mem (s : SState) (ev : Ev) (rest : List Ev) :
    newLast s ev = s.lastOffset ∨ newLast s ev ∈ itemOffsets (ev :: rest) := by
  cases ev <;> simp [newLast, itemOffsets]

/-- **Every stored offset is a command boundary** (an offset carried by an item
    the loop has received) or the position the loop started with, and is never
    negative — in particular never the "-1 / undefined" marker. For every
    configuration, every state, every schedule. -/
theorem cp_boundary (c : SCfg) (s : SState) (evs : List Ev) :
    ∀ o ∈ cpOffsets (run c s evs).2, 0 ≤ o ∧ (o = s.lastOffset ∨ o ∈ itemOffsets evs) := by
  induction evs generalizing s with
  | nil => intro o ho; simp [run] at ho
  | cons ev rest ih =>
    intro o ho
    obtain ⟨hlast, hshape⟩ := step_cp c s ev
    have hstep : ∀ o ∈ cpOffsets (step c s ev).2,
        0 ≤ o ∧ (o = s.lastOffset ∨ o ∈ itemOffsets (ev :: rest)) := by
      intro o ho
      obtain ⟨hp, h⟩ := mem_shape hshape ho
      refine ⟨hp, ?_⟩
      rcases h with h | h
      · exact Or.inl h
      · rcases newLast_mem s ev rest with e | e
        · left; rw [h, e]
        · right; rw [h]; exact e
    simp only [run] at ho
    split at ho
    · exact hstep o ho
    · rw [cpOffsets_append] at ho
      rcases List.mem_append.mp ho with m | m
      · exact hstep o m
      · obtain ⟨hp, h⟩ := ih (step c s ev).1 o m
        refine ⟨hp, ?_⟩
        rcases h with h | h
        · rw [hlast] at h
          rcases newLast_mem s ev rest with e | e
          · left; rw [h, e]
          · right; rw [h]; exact e
        · right
          cases ev <;> simp [itemOffsets, h]

/-- From a fresh loop (`lastOffset = -1`) every stored offset is the end offset
    of a command (or the start offset item) actually received. -/
theorem cp_boundary_fresh (c : SCfg) (evs : List Ev) :
    ∀ o ∈ cpOffsets (run c initS evs).2, o ∈ itemOffsets evs := by
  intro o ho
  obtain ⟨hp, h⟩ := cp_boundary c initS evs o ho
  rcases h with h | h
  · exfalso; simp [initS] at h; omega
  · exact h

theorem mono_newLast (s : SState) (ev : Ev) (rest : List Ev) (h : Mono s.lastOffset (ev :: rest)) :
    s.lastOffset ≤ newLast s ev ∧ Mono (newLast s ev) rest := by
  cases ev <;> simp [Mono, newLast] at h ⊢ <;> exact h

/-- **Successive stored offsets never decrease** within a run, and none is
    smaller than the position the loop held when the schedule began. -/
theorem cp_monotone (c : SCfg) (s : SState) (evs : List Ev) (hm : Mono s.lastOffset evs) :
    (cpOffsets (run c s evs).2).Pairwise (· ≤ ·) ∧
    ∀ o ∈ cpOffsets (run c s evs).2, s.lastOffset ≤ o := by
  induction evs generalizing s with
  | nil => simp [run]
  | cons ev rest ih =>
    obtain ⟨hlast, hshape⟩ := step_cp c s ev
    obtain ⟨hle, hrest⟩ := mono_newLast s ev rest hm
    have hstep_ge : ∀ o ∈ cpOffsets (step c s ev).2, s.lastOffset ≤ o := by
      intro o ho
      rcases (mem_shape hshape ho).2 with h | h <;> omega
    have hstep_le : ∀ o ∈ cpOffsets (step c s ev).2, o ≤ newLast s ev := by
      intro o ho
      rcases (mem_shape hshape ho).2 with h | h <;> omega
    simp only [run]
    split
    · exact ⟨pairwise_shape hshape hle, hstep_ge⟩
    · rw [cpOffsets_append]
      have hr := ih (step c s ev).1 (by rw [hlast]; exact hrest)
      rw [hlast] at hr
      refine ⟨?_, ?_⟩
      · rw [List.pairwise_append]
        refine ⟨pairwise_shape hshape hle, hr.1, ?_⟩
        intro a ha b hb
        have := hstep_le a ha
        have := hr.2 b hb
        omega
      · intro o ho
        rcases List.mem_append.mp ho with m | m
        · exact hstep_ge o m
        · have := hr.2 o m; omega

/-- **Across a restart**: if the next run only receives items at or beyond the
    position `x` it resumed from (the parser starts at `x`; the optional initial
    SELECT item carries `x` itself), nothing it stores is below `x`; so when
    `x` is at least everything stored before, stored positions never decrease
    over any number of restarts. -/
theorem restart_monotone (c : SCfg) (x : Int) (evs : List Ev)
    (hge : ∀ o ∈ itemOffsets evs, x ≤ o) :
    ∀ o ∈ cpOffsets (run c initS evs).2, x ≤ o := by
  intro o ho
  exact hge o (cp_boundary_fresh c evs o ho)

/-! ### Across any number of crashes and restarts (target side included)

`maxOffset t.cps` is what `GetCheckpoint` returns: the largest `<rid>_offset`
over all databases. `nextT` is one life of the tool: a new connection, the real
loop over ANY schedule, the target executing ANY prefix of what was sent (an
open MULTI is discarded), then the process dies. -/

def nextT (c : SCfg) (t : TState) (evs : List Ev) (k : Nat) : TState :=
  crash (applyLog (crash t) ((run c initS evs).2.flatten.take k))

/-- **One life never lowers the stored position**: if the run only receives items
    at or beyond the largest offset stored on the target when it starts (the
    parser starts there: `resumed_items_not_below_start`), then after ANY crash
    point the largest stored offset is at least what it was -- whichever
    databases the writes land in. -/
theorem restart_never_lowers_position (c : SCfg) (t : TState) (evs : List Ev) (k : Nat)
    (hn : KeysNodup t.cps) (hge : ∀ o ∈ itemOffsets evs, maxOffset t.cps ≤ o) :
    KeysNodup (nextT c t evs k).cps ∧ maxOffset t.cps ≤ maxOffset (nextT c t evs k).cps := by
  unfold nextT
  have h := applyLog_keeps ((run c initS evs).2.flatten.take k) (crash t) (maxOffset t.cps)
    (by simpa [crash] using hn) (by simp [crash])
    (by intro q hq; simp [crash] at hq)
    (by
      intro o ho
      have h1 := cpReqs_take_sub _ k o ho
      rw [cpReqs_flatten] at h1
      exact restart_monotone c _ evs hge o h1)
  simpa [crash] using h

/-- a sequence of lives, each resuming from what the previous one left -/
def RunsOK : TState → List (SCfg × List Ev × Nat) → Prop
  | _, [] => True
  | t, (c, evs, k) :: rest =>
    (∀ o ∈ itemOffsets evs, maxOffset t.cps ≤ o) ∧ RunsOK (nextT c t evs k) rest

def finalT : TState → List (SCfg × List Ev × Nat) → TState
  | t, [] => t
  | t, (c, evs, k) :: rest => finalT (nextT c t evs k) rest

/-- **Over any number of restarts the stored position never decreases**: any
    configurations, any schedules, any crash points, as long as every life
    starts its stream at the position it read. -/
theorem restarts_monotone (t : TState) (lives : List (SCfg × List Ev × Nat))
    (hn : KeysNodup t.cps) (hok : RunsOK t lives) :
    maxOffset t.cps ≤ maxOffset (finalT t lives).cps := by
  induction lives generalizing t with
  | nil => exact Int.le_refl _
  | cons l rest ih =>
    obtain ⟨c, evs, k⟩ := l
    obtain ⟨h1, h2⟩ := hok
    have hs := restart_never_lowers_position c t evs k hn h1
    exact Int.le_trans hs.2 (ih _ hs.1 h2)

/-- the hypothesis of the two theorems above is what the real parser delivers: a
    run that resumes at `x` (fresh parser, optional initial `select` carrying `x`,
    stream of commands ending beyond `x`) only hands over offsets `≥ x` -/
theorem resumed_items_not_below_start (pc : PCfg) (x : Int) (raws : List Raw) (evs : List Ev)
    (hitems : itemsOf evs = parserItems pc x raws)
    (hraw : (raws.map (·.off)).Pairwise (· < ·)) (hlo : ∀ r ∈ raws, x ≤ r.off) :
    ∀ o ∈ itemOffsets evs, x ≤ o := by
  have hio : ∀ evs : List Ev, itemOffsets evs = (itemsOf evs).map (·.offset) := by
    intro evs
    induction evs with
    | nil => rfl
    | cons ev rest ih => cases ev <;> simp [itemOffsets, itemsOf, ih]
  intro o ho
  rw [hio, hitems] at ho
  obtain ⟨i, hi, rfl⟩ := List.mem_map.mp ho
  unfold parserItems at hi
  rcases List.mem_append.mp hi with h | h
  · split at h
    · simp at h; subst h; simp [selectItem]
    · cases h
  · exact (parseAll_offsets_mono pc raws { lastSent := x } hraw hlo).2 i h

/-! ### A stored offset is never without its run id (D18 as a theorem) -/

/-- **At every crash point, every database that holds a `<rid>_offset` holds the
    `<rid>_runid` field too**: for every configuration, every schedule whose
    `select` items are truthful about the database they select (the parser's are:
    `parser_items_selOK`), and ANY number `k` of requests the target executed,
    starting from a target on which that already held (e.g. an empty one) and a
    new connection. So what `GetCheckpoint` finds is always usable: a position is
    never read back as run id "?" (position lost, full resync). -/
theorem cp_offset_has_runid (c : SCfg) (evs : List Ev)
    (hev : ∀ ev ∈ evs, ∀ it, ev = .item it → SelOK it)
    (t : TState) (hq : t.queued = none) (hcur : t.cur = 0) (h0 : RunIdInv t) (k : Nat) :
    RunIdInv (applyLog t ((run c initS evs).2.flatten.take k)) := by
  obtain ⟨E, ⟨R, hER⟩, hsame⟩ := crash_executes_body_prefix (run c initS evs).2
    (run_wf c initS evs) t hq k
  have hall := run_coupled c initS evs t ⟨by rw [hcur]; rfl, by intro d hd; simp [initS] at hd, h0⟩
    (by intro i hi; simp [initS] at hi) hev
  have hE : E = (bodies (run c initS evs).2).take E.length := by
    rw [← hER]; simp
  have := hall E.length
  rw [← hE] at this
  intro d o ho
  rw [hsame.2] at ho ⊢
  exact this d o ho

/-- the hypothesis above holds for every schedule whose items are the parser's -/
theorem parser_items_selOK (pc : PCfg) (x : Int) (raws : List Raw) (evs : List Ev)
    (hitems : itemsOf evs = parserItems pc x raws)
    (hsel : ∀ r ∈ raws, r.cmd = bSelect → ∀ a n, r.args = [a] → atoi? a = some n → 0 ≤ n) :
    ∀ ev ∈ evs, ∀ it, ev = .item it → SelOK it := by
  have hmem : ∀ (evs : List Ev) (it : Item), Ev.item it ∈ evs → it ∈ itemsOf evs := by
    intro evs it
    induction evs with
    | nil => intro h; cases h
    | cons e rest ih =>
      intro h
      rcases List.mem_cons.mp h with rfl | h'
      · simp [itemsOf]
      · cases e <;> simp [itemsOf, ih h']
  intro ev hev it hit
  subst hit
  have := hmem evs it hev
  rw [hitems] at this
  unfold parserItems at this
  rcases List.mem_append.mp this with h | h
  · split at h
    · simp at h; subst h
      intro _ cur
      exact selArg_selectItem cur _ x
    · cases h
  · exact parseAll_selOK pc raws _ hsel it h

/-- An idle source (ticks only, in any number and order) stores nothing new
    beyond the position already held, and nothing at all when the run has not
    consumed anything yet — a keep-alive never replaces a good position. -/
theorem idle_stores_nothing_fresh (c : SCfg) (evs : List Ev) (hidle : itemOffsets evs = []) :
    cpOffsets (run c initS evs).2 = [] := by
  apply List.eq_nil_iff_forall_not_mem.mpr
  intro o ho
  have := cp_boundary_fresh c evs o ho
  rw [hidle] at this
  cases this

/-! Non-vacuity: a transactional, resumable configuration; a schedule with a
    keep-alive before the first item, a SELECT barrier and a transaction. -/
def exCfg : SCfg := { txnMode := true, resume := true, batchCount := 2, batchBytes := 1000 }
def exEvs : List Ev :=
  [ .keepaliveTick,
    .item { cmd := bSelect, args := [[49]], offset := 1023, db := 1 },
    .item { cmd := [115,101,116], args := [[97],[98]], offset := 1050, db := 1 },
    .batchTick,
    .item { cmd := bMulti, args := [], offset := 1065, db := 1 },
    .item { cmd := [115,101,116], args := [[99],[100]], offset := 1092, db := 1 },
    .item { cmd := bExec, args := [], offset := 1106, db := 1 },
    .cpTick, .done ]

example : Mono initS.lastOffset exEvs := by simp [exEvs, Mono, initS]
example : cpOffsets (run exCfg initS exEvs).2 = [1050, 1050, 1106] := by decide
example : itemOffsets exEvs = [1023, 1050, 1065, 1092, 1106] := by decide
def exT0 : TState := {}
-- D18: after 7 requests (inside the second block) db 1 holds offset 1050 together with the run id
example : getCp (applyLog exT0 ((run exCfg initS exEvs).2.flatten.take 7)).cps 1 =
    { offset := some 1050, hasRunId := true } := by decide +kernel
-- two lives: the first dies after 7 requests (inside the second block), the second resumes at 1050
example : maxOffset (nextT exCfg exT0 exEvs 7).cps = 1050 := by decide +kernel
example : RunsOK exT0 [(exCfg, exEvs, 7),
    (exCfg, [.item { cmd := [115,101,116], args := [[99],[100]], offset := 1092, db := 1 }, .batchTick], 9)] := by
  refine ⟨?_, ?_, trivial⟩
  · intro o ho
    have hm : maxOffset exT0.cps = -1 := by decide
    have hio : itemOffsets exEvs = [1023, 1050, 1065, 1092, 1106] := by decide
    rw [hm]; rw [hio] at ho; simp at ho; omega
  · intro o ho
    have hm : maxOffset (nextT exCfg exT0 exEvs 7).cps = 1050 := by decide +kernel
    rw [hm]; simp [itemOffsets] at ho; omega

end GunYu.Props.C07
