/-
  C06 — the ATTEMPTS of `RedisInput.Run`, call by call (Model/PsyncAtt.lean), and the loop.

  * `sendPSync64_eq`            Go's int64 `offset+1` (wrapping at 2^63-1) changes nothing but the
                                number printed on the wire: every other field of `SendPSync`'s result
                                is the unbounded model's, for every source whose offset is below 2^63-1
  * `attemptP_*`                an attempt that fails before `syncMeta`'s bookkeeping (dial, INFO, three
                                failed `output.StartPoint`, PSYNC reply, a snapshot header that is not a
                                positive size - `$EOF:<40 bytes>`, `$0`, `$-n`, junk) changes NOTHING;
                                `Run` stops iff `output.StartPoint` failed three times (ErrBreak)
  * `failing_call_inv`          whichever single call of an attempt fails (`stageOf`), the state left
                                keeps the loop invariant (hence `loop_safe` for the next attempt), and
  * `failed_call_delivers_nothing`  the target's data is untouched unless the attempt reached `Send`
  * `locErr_clears`             `channel.StartPoint` answering with an error: the cache is never reused
                                (branch 3 or 6, DelRunId, the request is the stored position or `? -1`)
  * `run_in_loop`, `run_stopped_fixed`, `run_sleep_unchanged`
                                the loop machine of `Run` (attempts, ErrCorrupted, ErrBreak, back-off,
                                Stop) stays inside the inductive `Loop` for EVERY event list, makes no
                                attempt after ErrBreak / Stop, and a back-off changes nothing;
                                `run_leaves_iff`: the loop is left iff the connection was refused
                                (ErrRestart), StartPoint failed thrice, ErrCorrupted (after DelRunId) or a
                                fatal Send error - ErrCorrupted / ErrRestart / ErrQuit wrap ErrBreak
-/
import GunYu.Props.C06Loop
import GunYu.Model.PsyncAtt

namespace GunYu.Props.C06
open GunYu GunYu.Psync

/-! ## A. int64 -/

theorem wrap64_id {n : Int} (h1 : -two63 ≤ n) (h2 : n < two63) : wrap64 n = n := by
  unfold wrap64 two63 two64 at *
  omega

theorem wrap64_top : wrap64 (maxInt64 + 1) = -two63 := by decide

/-- **the wrap of `offset+1` is harmless**: for every well-formed source below the top of int64
    and every stored int64 offset, `SendPSync` computed in int64 differs from the unbounded model in
    the number sent only - and they differ only at `2^63-1`, where both are refused. -/
theorem sendPSync64_eq (s : Source) (hs : SourceWF s) (hm : s.masterOff < maxInt64) (id : Id) (off : Int)
    (h1 : -two63 ≤ off) (h2 : off ≤ maxInt64) :
    sendPSync64 s id off = { sendPSync s id off with wireOff := wireOf64 off } ∧
      (off < maxInt64 → wireOf64 off = wireOf off) ∧
      (off = maxInt64 → (sendPSync s id off).full = true) := by
  have hf := hs.first_pos
  have hl := hs.len_nonneg
  by_cases hlt : off < maxInt64
  · -- no wrap: the two computations coincide
    have hw : wireOf64 off = wireOf off := by
      unfold wireOf64 wireOf
      split
      · exact wrap64_id (by unfold two63 at *; omega) (by unfold two63 maxInt64 at *; omega)
      · rfl
    refine ⟨?_, fun _ => hw, fun e => by omega⟩
    unfold sendPSync64 sendPSync
    rw [hw]
    cases hadm : admitPsync s id (wireOf off) with
    | full fid o => rfl
    | cont nid =>
      have hb := (admit_cont hadm).2.2.1
      have : wrap64 (wireOf off - 1) = wireOf off - 1 := by
        apply wrap64_id
        · unfold two63; unfold wireOf at hb ⊢; split at hb <;> split <;> omega
        · unfold two63 maxInt64 at *; unfold wireOf; split <;> omega
      simp only [this]
  · have he : off = maxInt64 := by omega
    subst he
    have hw64 : wireOf64 maxInt64 = -two63 := by decide
    have hw : wireOf maxInt64 = two63 := by decide
    have hfull : ∀ x, (x = -two63 ∨ x = two63) → admitPsync s id x = .full s.id1 s.masterOff := by
      intro x hx
      unfold admitPsync
      split
      · rfl
      · split
        · rfl
        · rename_i hn
          exfalso
          apply hn
          cases hb : s.backlog
          · exact Or.inl rfl
          · have ht := hs.tail hb
            unfold two63 maxInt64 at *
            rcases hx with hx | hx <;> subst hx <;> omega
    refine ⟨?_, fun h => absurd h (by omega), fun _ => ?_⟩
    · unfold sendPSync64 sendPSync
      rw [hw64, hw, hfull _ (Or.inl rfl), hfull _ (Or.inr rfl)]
    · unfold sendPSync
      rw [hw, hfull _ (Or.inr rfl)]

/-- non-vacuity: a stored offset of 2^63-1 is sent as -2^63 and refused -/
example : (sendPSync64 s0 [1] maxInt64).wireOff = -two63 ∧ (sendPSync64 s0 [1] maxInt64).full = true := by decide

/-! ## B. attempts that fail before the bookkeeping -/

theorem spTries_none : spTries [false, false, false] = false := rfl
theorem spTries_third (l : List Bool) : spTries (false :: false :: true :: l) = true := rfl
theorem spTries_fourth_too_late (l : List Bool) : spTries (false :: false :: false :: l) = false := rfl

/-- the attempt itself ends with an error that wraps ErrBreak iff the connection was refused
    (ErrRestart) or the source could be asked and `output.StartPoint` failed at every try. (`Run` is
    also left after ErrCorrupted and after a fatal error of `Send`: `runStep`, `run_leaves_iff`.) -/
theorem attemptP_stop_iff (resume : Bool) (w : World) (σ : Sys) (p : Peer) (st : Stage) :
    (attemptP resume w σ p st).2 = .stop ↔
      p.conn = false ∨ (p.dial = true ∧ spTries p.spAnswers = false) := by
  unfold attemptP
  cases p.conn <;> cases p.dial <;> cases spTries p.spAnswers <;> cases p.psyncOk <;>
    cases ((syncMeta σ.s σ.t.stored σ.c).ps.full && !hdrOk p.hdr σ.s) <;> simp

/-- **a failure before the bookkeeping changes nothing**: no dial / INFO, ErrBreak, a bad PSYNC reply,
    or - after `+FULLRESYNC` - a header that is not a positive size (`$EOF:…`, `$0`, `$-n`, junk) -/
theorem attemptP_unchanged (resume : Bool) (w : World) (σ : Sys) (p : Peer) (st : Stage)
    (h : p.conn = false ∨ p.dial = false ∨ spTries p.spAnswers = false ∨ p.psyncOk = false ∨
      ((syncMeta σ.s σ.t.stored σ.c).ps.full = true ∧ hdrOk p.hdr σ.s = false)) :
    (attemptP resume w σ p st).1 = σ := by
  unfold attemptP
  rcases h with h | h | h | h | ⟨h1, h2⟩
  · simp [h]
  · cases p.conn <;> simp [h]
  · cases p.conn <;> cases p.dial <;> simp [h]
  · cases p.conn <;> cases p.dial <;> cases spTries p.spAnswers <;> simp [h]
  · cases p.conn <;> cases p.dial <;> cases spTries p.spAnswers <;> cases p.psyncOk <;> simp [h1, h2]

/-- in particular a snapshot whose announced size is not positive is never recorded: cache, cache
    bytes and stored position are what they were -/
theorem bad_header_records_nothing (resume : Bool) (w : World) (σ : Sys) (p : Peer) (st : Stage)
    (hf : (syncMeta σ.s σ.t.stored σ.c).ps.full = true) (hh : p.hdr ≠ .len ∨ σ.s.snapLen ≤ 0) :
    (attemptP resume w σ p st).1 = σ := by
  apply attemptP_unchanged
  right; right; right; right
  refine ⟨hf, ?_⟩
  unfold hdrOk
  rcases hh with hh | hh
  · cases hp : p.hdr <;> simp_all
  · cases p.hdr <;> simp; omega

/-- otherwise the attempt is `attempt … st` -/
theorem attemptP_ok (resume : Bool) (w : World) (σ : Sys) (p : Peer) (st : Stage)
    (h0 : p.conn = true) (h1 : p.dial = true) (h2 : spTries p.spAnswers = true) (h3 : p.psyncOk = true)
    (h4 : (syncMeta σ.s σ.t.stored σ.c).ps.full = true → hdrOk p.hdr σ.s = true) :
    attemptP resume w σ p st = (attempt resume w σ st, .again) := by
  unfold attemptP
  cases hf : (syncMeta σ.s σ.t.stored σ.c).ps.full
  · simp [h0, h1, h2, h3]
  · simp [h0, h1, h2, h3, h4 hf]

theorem attemptP_cases (resume : Bool) (w : World) (σ : Sys) (p : Peer) (st : Stage) :
    (attemptP resume w σ p st).1 = σ ∨ (attemptP resume w σ p st).1 = attempt resume w σ st := by
  unfold attemptP
  split
  · exact Or.inl rfl
  · split
    · exact Or.inl rfl
    · split
      · exact Or.inl rfl
      · split
        · exact Or.inl rfl
        · split
          · exact Or.inl rfl
          · exact Or.inr rfl

/-- the invariant of the loop survives every attempt against every peer -/
theorem attemptP_inv (resume : Bool) (w : World) (σ : Sys) (p : Peer) (st : Stage) (h : Inv w σ) (hfit : st.fits σ.s) :
    Inv w (attemptP resume w σ p st).1 := by
  rcases attemptP_cases resume w σ p st with e | e <;> rw [e]
  · exact h
  · exact attempt_inv resume w σ st h hfit

/-- non-vacuity: the diskless header on a FULLRESYNC; ErrBreak -/
example : (attemptP true w0 σA { hdr := .eof } (.delivered true 0 30)).1.c = σA.c ∧
    (attemptP true w0 σA { spAnswers := [false, false, false] } (.delivered true 0 30)).2 = .stop ∧
    (attemptP true w0 σA {} (.delivered true 0 30)).1.t.stored = ⟨[1], 200⟩ := by
  refine ⟨by decide, by decide, by decide⟩

/-! ## C. one failing call -/

theorem stageOf_fits (call : Call) (r : Result) (e k : Int) (s : Source) (hk : 0 ≤ k) (hm : s.masterOff + k ≤ maxInt64) :
    (stageOf call r e k).fits s := by
  unfold stageOf
  cases call <;> simp only <;> (repeat' split) <;> first | trivial | exact ⟨hk, hm⟩

/-- **whichever call fails, the state left keeps the invariant** - so `loop_safe` /
    `loop_next_outcomes` hold for the next attempt -/
theorem failing_call_inv (resume : Bool) (w : World) (σ : Sys) (call : Call) (e k : Int) (h : Inv w σ)
    (hk : 0 ≤ k) (hm : σ.s.masterOff + k ≤ maxInt64) :
    Inv w (attempt resume w σ (stageOf call (run w σ.s σ.t.stored σ.c σ.d) e k)) :=
  attempt_inv resume w σ _ h (stageOf_fits call _ e k σ.s hk hm)

/-- an attempt that does not reach `Send` leaves the target's data as it was -/
theorem truth_unchanged_before_send (resume : Bool) (w : World) (σ : Sys) (st : Stage) (h : st.reachedSend = false) :
    (attempt resume w σ st).t.truth = σ.t.truth := by
  cases st with
  | early => rfl
  | cleared => simp only [attempt]; split <;> rfl
  | relabelled => rfl
  | reset => simp only [attempt]; split <;> rfl
  | metaDone => simp only [attempt, Tgt.afterMeta]; split <;> rfl
  | written k => simp only [attempt, Tgt.afterMeta]; split <;> rfl
  | delivered d e k => simp [Stage.reachedSend] at h

/-- a failing bookkeeping call (`DelRunId` when due, `SetRunId`, `ResetStartPoint` of a FULLRESYNC,
    `output.SetRunId`, writer or reader creation) never reaches `Send` -/
theorem failed_call_delivers_nothing (resume : Bool) (w : World) (σ : Sys) (call : Call) (e k : Int)
    (hc : call = .dial ∨ (call = .chanDel ∧ (run w σ.s σ.t.stored σ.c σ.d).mt.deleted = true) ∨ call = .chanSet ∨
      (call = .outReset ∧ (run w σ.s σ.t.stored σ.c σ.d).mt.ps.full = true) ∨ call = .outSetRunId ∨
      call = .writer ∨ call = .reader) :
    (attempt resume w σ (stageOf call (run w σ.s σ.t.stored σ.c σ.d) e k)).t.truth = σ.t.truth := by
  apply truth_unchanged_before_send
  rcases hc with h | ⟨h, hd⟩ | h | ⟨h, hf⟩ | h | h | h <;> subst h <;> simp [stageOf, Stage.reachedSend, *]

/-- non-vacuity: `output.SetRunId` failing during the first FULLRESYNC leaves the cache relabelled and
    empty, the position reset, the target untouched -/
example : (attempt true w0 σA (stageOf .outSetRunId (run w0 s0 σA.t.stored σA.c σA.d) 0 30)).c = ⟨.memory, [1], none, none⟩ := by
  decide

/-! ## D. `channel.StartPoint` answers with an error -/

theorem syncMetaL_eq (s : Source) (sp : SP) (c : Cache) :
    syncMetaL s sp c (c.startPoint [s.id1, s.id2]) = syncMeta s sp c := rfl

/-- **an error of `channel.StartPoint` never lets the cache be reused**: `syncMeta` goes on with
    `StartPoint{}` (no run id), which is none of the source's ids - branch 3 (the stored position is
    asked for) or 6 (`? -1`), the cache is deleted (`DelRunId`) and relabelled empty. -/
theorem locErr_clears (s : Source) (hs : SourceWF s) (sp : SP) (c : Cache) (hc : CacheWF c) :
    let m := syncMetaL s sp c errLoc
    m.deleted = true ∧ (m.branch = 3 ∨ m.branch = 6) ∧
      (m.branch = 3 → (sp.runId = s.id1 ∨ sp.runId = s.id2) ∧ m.ps = sendPSync s sp.runId sp.offset) ∧
      (m.branch = 6 → m.ps = sendPSync s qId (-1) ∧ m.ps.full = true) ∧
      m.cache = ⟨c.backend, m.runId, none, none⟩ := by
  have hnil : [s.id1, s.id2].contains ([] : Id) = false := by
    cases h : [s.id1, s.id2].contains ([] : Id)
    · rfl
    · rcases contains_ids.mp h with e | e
      · exact absurd e.symm hs.id1_ne
      · exact absurd e.symm hs.id2_ne
  have hrid : ∀ ps : PsyncRes, ps = sendPSync s ps.reqId (if ps.reqId = qId then -1 else sp.offset) →
      (if ps.full then ps.runId else s.id1) ≠ [] ∧ (if ps.full then ps.runId else s.id1) ≠ qId := by
    intro ps hps
    cases hf : ps.full
    · exact ⟨hs.id1_ne, hs.id1_nq⟩
    · rw [hps] at hf
      have := (sendPSync_full hf).1
      rw [← hps] at this
      simp only [if_true, this]
      exact ⟨hs.id1_ne, hs.id1_nq⟩
  simp only [syncMetaL, decisionL, errLoc, hnil, Bool.and_false, Bool.false_and]
  by_cases hin : [s.id1, s.id2].contains sp.runId = true
  · simp only [hin, if_true, Bool.false_eq_true, if_false]
    have hr := hrid (sendPSync s sp.runId sp.offset) (by
      rw [sendPSync_reqId]
      split
      · rename_i hq
        rcases contains_ids.mp hin with e | e
        · exact absurd (e.symm.trans hq) hs.id1_nq
        · exact absurd (e.symm.trans hq) hs.id2_nq
      · rfl)
    refine ⟨by simp, by simp, fun _ => ⟨contains_ids.mp hin, by simp⟩, fun h => by simp at h, ?_⟩
    simp only [Bool.or_true, if_true]
    exact del_set_cleared hc hr.1 hr.2
  · simp only [hin, Bool.false_eq_true, if_false]
    have hfull := qId_not_admitted hs (-1)
    have hr := hrid (sendPSync s qId (-1)) (by rw [sendPSync_reqId]; simp)
    refine ⟨by simp [hfull], by simp, fun h => by simp at h, fun _ => ⟨by simp, hfull⟩, ?_⟩
    simp only [hfull, Bool.true_or, if_true]
    have := del_set_cleared hc (new := (sendPSync s qId (-1)).runId) (by simpa [hfull] using hr.1) (by simpa [hfull] using hr.2)
    exact this

/-- non-vacuity: a well-filled cache under the current id whose `StartPoint` fails is dropped -/
example : (syncMetaL s0 ⟨[1], 150⟩ cC errLoc).branch = 3 ∧ (syncMetaL s0 ⟨[1], 150⟩ cC errLoc).cache = ⟨.disk, [1], none, none⟩ ∧
    (syncMeta s0 ⟨[1], 150⟩ cC).branch = 1 := by decide

/-! ## E. the loop of `RedisInput.Run` -/

theorem attempt_src (resume : Bool) (w : World) (σ : Sys) (st : Stage) : (attempt resume w σ st).s = σ.s := by
  cases st <;> simp only [attempt] <;> (try split) <;> rfl

theorem attemptP_src (resume : Bool) (w : World) (σ : Sys) (p : Peer) (st : Stage) : (attemptP resume w σ p st).1.s = σ.s := by
  rcases attemptP_cases resume w σ p st with e | e <;> rw [e]
  exact attempt_src resume w σ st

theorem runStep_src (w : World) (r : RunSt) (ev : RunEv) : (runStep w r ev).sys.s = r.sys.s := by
  cases ev with
  | sleep => rfl
  | stop => rfl
  | att resume p st fin =>
    simp only [runStep]
    split
    · rfl
    · split
      · exact attemptP_src resume w r.sys p st
      · cases fin <;> simp only [Sys.corrupted] <;> exact attemptP_src resume w r.sys p st

/-- **a back-off changes nothing** -/
theorem run_sleep_unchanged (w : World) (r : RunSt) : runStep w r .sleep = r := rfl

/-- **no attempt after ErrBreak / Stop**: once the loop is left, whatever follows changes neither the
    state nor the number of attempts -/
theorem run_stopped_fixed (w : World) (r : RunSt) (hr : r.stopped = true) (evs : List RunEv) :
    runLoop w r evs = r := by
  induction evs generalizing r with
  | nil => rfl
  | cons ev rest ih =>
    have h1 : runStep w r ev = r := by
      cases ev with
      | sleep => rfl
      | stop => cases r; simp_all [runStep]
      | att resume p st fin => simp [runStep, hr]
    show runLoop w (runStep w r ev) rest = r
    rw [h1]
    exact ih r hr

/-- an attempt whose `output.StartPoint` fails three times stops the loop, the state unchanged -/
theorem run_break_stops (w : World) (r : RunSt) (hr : r.stopped = false) (resume : Bool) (p : Peer) (st : Stage) (fin : AttEnd)
    (hc : p.conn = true) (hd : p.dial = true) (hsp : spTries p.spAnswers = false) :
    runStep w r (.att resume p st fin) = ⟨r.sys, true, r.attempts + 1⟩ := by
  have hv := (attemptP_stop_iff resume w r.sys p st).mpr (Or.inr ⟨hd, hsp⟩)
  have hu := attemptP_unchanged resume w r.sys p st (Or.inr (Or.inr (Or.inl hsp)))
  simp only [runStep, hr, Bool.false_eq_true, if_false, hv, hu]

/-- **when the loop is left** (the error lattice of syncer.go:32-51): after one attempt of a running
    loop, `Run` has stopped iff the connection was refused (ErrRestart), `output.StartPoint` failed at
    every try (ErrBreak), the attempt ended with ErrCorrupted, or `Send` ended with a fatal error. -/
theorem run_leaves_iff (w : World) (r : RunSt) (hr : r.stopped = false) (resume : Bool) (p : Peer) (st : Stage) (fin : AttEnd) :
    (runStep w r (.att resume p st fin)).stopped = true ↔
      p.conn = false ∨ (p.dial = true ∧ spTries p.spAnswers = false) ∨ fin = .corrupted ∨ fin = .fatal := by
  have hiff := attemptP_stop_iff resume w r.sys p st
  simp only [runStep, hr, Bool.false_eq_true, if_false]
  cases hv : (attemptP resume w r.sys p st).2
  · have hn : ¬(p.conn = false ∨ (p.dial = true ∧ spTries p.spAnswers = false)) := fun h => by
      have := hiff.mpr h; rw [hv] at this; cases this
    cases fin <;> simp_all
  · have := hiff.mp hv
    simp only [true_iff]
    rcases this with h | h
    · exact Or.inl h
    · exact Or.inr (Or.inl h)

/-- a corrupted attempt: `channel.DelRunId(channel.RunId())`, then the loop is left (ErrCorrupted wraps
    ErrBreak) - the cache the next process finds holds nothing -/
theorem run_corrupted_stops (w : World) (r : RunSt) (hr : r.stopped = false) (resume : Bool) (p : Peer) (st : Stage)
    (hv : (attemptP resume w r.sys p st).2 = .again) :
    runStep w r (.att resume p st .corrupted) = ⟨(attemptP resume w r.sys p st).1.corrupted, true, r.attempts + 1⟩ := by
  simp only [runStep, hr, Bool.false_eq_true, if_false, hv]

/-- **the loop machine stays inside `Loop`**: for every event list (attempts against any peers that
    get as far as any stage, with or without ErrCorrupted, back-offs, Stop) the state `Run` is in is a
    state of the inductive `Loop` - so `loop_inv`, `loop_safe`, `loop_next_outcomes` apply to it. -/
theorem run_in_loop (w : World) (r : RunSt) (h : Loop w r.sys) (evs : List RunEv)
    (hfit : ∀ ev ∈ evs, ev.fits r.sys.s) : Loop w (runLoop w r evs).sys := by
  induction evs generalizing r with
  | nil => exact h
  | cons ev rest ih =>
    show Loop w (runLoop w (runStep w r ev) rest).sys
    apply ih
    · have hf := hfit ev (List.mem_cons_self ..)
      cases ev with
      | sleep => exact h
      | stop => exact h
      | att resume p st fin =>
        simp only [RunEv.fits] at hf
        simp only [runStep]
        split
        · exact h
        · have hA : ∀ c : Bool, Loop w (if c then (attemptP resume w r.sys p st).1.corrupted else (attemptP resume w r.sys p st).1) := by
            intro c
            rcases attemptP_cases resume w r.sys p st with e | e <;> rw [e]
            · exact Loop.attempt r.sys resume .early c h trivial
            · exact Loop.attempt r.sys resume st c h hf
          split
          · exact hA false
          · cases fin
            · exact hA false
            · exact hA true
            · exact hA false
    · intro ev' hev'
      rw [runStep_src]
      exact hfit ev' (List.mem_cons_of_mem _ hev')

/-- hence every log delivery of the next attempt, in every state `Run` reaches, starts exactly on
    what the target holds, in a prefix of the current history -/
theorem run_safe (w : World) (r : RunSt) (h : Loop w r.sys) (evs : List RunEv)
    (hfit : ∀ ev ∈ evs, ev.fits r.sys.s) (start : Int) (byte : Int → UInt8)
    (hd : (run w (runLoop w r evs).sys.s (runLoop w r evs).sys.t.stored (runLoop w r evs).sys.c (runLoop w r evs).sys.d).delivery
      = .stream start byte) :
    start = (runLoop w r evs).sys.t.stored.offset ∧
      ∃ tid, (runLoop w r evs).sys.t.truth = .at tid start ∧ AgreeBelow w tid (runLoop w r evs).sys.s.id1 start ∧
        ∀ n, start ≤ n → byte n = w.hist (runLoop w r evs).sys.s.id1 n :=
  loop_safe w _ (run_in_loop w r h evs hfit) start byte hd

/-- non-vacuity: a failed attempt, the back-off, a completed attempt, ErrBreak, then two more events -/
example : (runLoop w0 ⟨σA, false, 0⟩
      [.att true { dial := false } .early .plain, .sleep, .att true {} (.delivered true 0 30) .plain,
       .att true { spAnswers := [false, false, false] } .early .plain, .sleep, .att true {} (.delivered true 0 9) .plain]).attempts = 3 := by
  decide

/-- non-vacuity: a completed full sync whose reader then meets a damaged segment - the cache is
    dropped and the loop is left; a refused connection leaves it at once -/
example : (runLoop w0 ⟨σA, false, 0⟩ [.att true {} (.delivered false 0 30) .corrupted, .att true {} (.delivered true 0 9) .plain]).stopped = true ∧
    (runLoop w0 ⟨σA, false, 0⟩ [.att true {} (.delivered false 0 30) .corrupted]).sys.c = ⟨.memory, [], none, none⟩ ∧
    (runLoop w0 ⟨σA, false, 0⟩ [.att true { conn := false } .early .plain, .att true {} (.delivered true 0 9) .plain]).attempts = 1 := by
  decide

/-! ## D'. branch 4: the writer's offset

  Since the repair of N9 `syncMeta` no longer reads the cache again after the PSYNC round trip
  (`GetOffsetRange`): the writer starts at the offset `StartPoint` answered and PSYNC was sent with.
  The model (`decision`, branch 4) still writes `(c.getOffsetRange loc0.runId).2`; for every well-formed
  cache that IS `loc0.offset` - without a concurrent collector pass the two readings cannot differ, and
  with one the code now keeps the earlier answer (the request offset), which is what the source streams from. -/
theorem branch4_writer_offset (s : Source) (hs : SourceWF s) (c : Cache) (hc : CacheWF c)
    (hin : [s.id1, s.id2].contains (c.startPoint [s.id1, s.id2]).runId = true)
    (hr : (c.getRdb (c.startPoint [s.id1, s.id2]).runId).1 ≠ -1) :
    (c.getOffsetRange (c.startPoint [s.id1, s.id2]).runId).2 = (c.startPoint [s.id1, s.id2]).offset := by
  obtain ⟨hsp, _⟩ := startPoint_in hs c hin
  rw [hsp] at hr ⊢
  simp only [Cache.getOffsetRange, Cache.getRdb, ne_eq, not_true_eq_false, if_false] at hr ⊢
  have hsome : c.rdb.isSome := by
    cases h : c.rdb with
    | none => rw [h] at hr; simp at hr
    | some p => rfl
  exact range_snd hc (Or.inl hsome)

example : (cC.getOffsetRange (cC.startPoint [s0.id1, s0.id2]).runId).2 = 180 ∧ (cC.startPoint [s0.id1, s0.id2]).offset = 180 := by decide

/-! ## F. deleting a label's records: every request prefix -/

theorem readPos_sorted_last : ∀ (l : List CpRec), l.Pairwise cpLe → ∀ (h : l ≠ []), readPos l = some (l.getLast h)
  | [], _, h => absurd rfl h
  | [r], _, _ => rfl
  | r :: r2 :: rs, hp, _ => by
    have hp' := List.pairwise_cons.mp hp
    have ih := readPos_sorted_last (r2 :: rs) hp'.2 (by simp)
    have hle : cpLe r ((r2 :: rs).getLast (by simp)) := hp'.1 _ (List.getLast_mem _)
    rw [List.getLast_cons (by simp : r2 :: rs ≠ [])]
    generalize (r2 :: rs).getLast (by simp) = m at ih hle
    show (match readPos (r2 :: rs) with
      | none => some r
      | some m => if m.1 > r.1 ∨ (m.1 = r.1 ∧ m.2 > r.2) then some m else some r) = some m
    rw [ih]
    simp only
    split
    · rfl
    · rename_i hn
      unfold cpLe at hle
      have h1 : m.1 = r.1 := by omega
      have h2 : m.2 = r.2 := by omega
      congr 1
      exact Prod.ext h1.symm h2.symm

/-- **a stop between two HDELs never uncovers a stale position**: deleted in ascending (offset, mtime)
    order - as `DelCheckpoints` does for the records of ALL labels and databases together (837e4af,
    6d4dd34; `l` = every record `GetCheckpoint` would merge) - every request prefix leaves either no
    record at all or exactly the position that was read before (the largest goes last). -/
theorem del_prefix_safe (l : List CpRec) (hs : l.Pairwise cpLe) (k : Nat) :
    readPos (l.drop k) = none ∨ readPos (l.drop k) = readPos l := by
  by_cases hd : l.drop k = []
  · left; rw [hd]; rfl
  · right
    have hl : l ≠ [] := fun e => hd (by rw [e]; simp)
    have hsd : (l.drop k).Pairwise cpLe := hs.sublist (List.drop_sublist k l)
    rw [readPos_sorted_last _ hsd hd, readPos_sorted_last _ hs hl, List.getLast_drop]

/-- the order matters (the defect N7): the largest record deleted first, a stop, and the stale lower
    record of the other database is what the next start reads -/
theorem del_order_needed : readPos ([((397 : Int), (1 : Int)), (205, 0)].drop 1) = some (205, 0) ∧
    readPos [((397 : Int), (1 : Int)), (205, 0)] = some (397, 1) := by decide

example : ([((205 : Int), (0 : Int)), (397, 1)] : List CpRec).Pairwise cpLe := by
  simp [cpLe]

end GunYu.Props.C06
