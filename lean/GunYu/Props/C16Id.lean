/-
  C16 — discharging `hq` ("the leader's channel run id is never the literal `?`"), the
  hypothesis of `follower_prefix_of_leader`, `follower_contiguous`, `others_untouched`.

  Model: Model/ReplicaIdSrc.lean (where the id comes from: `GetRunIds`, `SendPSync`,
  `syncMeta`'s "correct run id"; what the input does to the channel: `ChanOp`).

  * DISK backend (`StoreChannel`): unconditional — `newRunId` ignores ""/"?" and `DelRunId`
    leaves "", so whatever the source reports, the storer's run id is never "?"
    (`leader_channel_id_never_q`, backend `.disk`, no hypothesis on the ids).
  * MEMORY backend: `SetRunId` stores what it is given, so the channel's id is "?" exactly if
    the source said so (`mem_channel_takes_any_id`); it is not under the hypothesis that the
    source's `master_replid` lines and the id field of its PSYNC reply are not "?" — in
    particular when they are 40 hexadecimal digits, as Redis generates them
    (`input_sets_no_q`, `replid_ne_q`). A source that answers `+FULLRESYNC ? 5` is outside the
    property (`q_source_is_adopted` shows what then happens: the leader announces "?").
-/
import GunYu.Model.ReplicaIdSrc
import GunYu.Proofs.Replica
import GunYu.Props.C16

namespace GunYu.Props.C16
open GunYu GunYu.Replica

theorem cutPrefix_some {p l r : Txt} (h : cutPrefix p l = some r) : l = p ++ r := by
  induction p generalizing l with
  | nil => simp [cutPrefix] at h; simp [h]
  | cons a p ih =>
    cases l with
    | nil => simp [cutPrefix] at h
    | cons c cs =>
      simp only [cutPrefix] at h
      split at h
      · next hac => rw [hac, ih h]; rfl
      · cases h

theorem pick_spec (key line id : Txt) : pick key line id = id ∨ line = key ++ pick key line id := by
  unfold pick
  cases hc : cutPrefix key line with
  | none => exact Or.inl rfl
  | some af => exact Or.inr (cutPrefix_some hc)

/-- **ids come verbatim from the INFO text**: each id `GetRunIds` returns is empty (no such
    line) or the text after the key on one of the lines of the reply -/
theorem runIdsOfLines_from_line (lines : List Txt) (acc : Txt × Txt) :
    ((runIdsOfLines lines acc).1 = acc.1 ∨ ∃ l ∈ lines, l = kReplid ++ (runIdsOfLines lines acc).1) ∧
    ((runIdsOfLines lines acc).2 = acc.2 ∨ ∃ l ∈ lines, l = kReplid2 ++ (runIdsOfLines lines acc).2) := by
  induction lines generalizing acc with
  | nil => exact ⟨Or.inl rfl, Or.inl rfl⟩
  | cons l rest ih =>
    obtain ⟨a1, a2⟩ := acc
    simp only [runIdsOfLines]
    have h := ih (pick kReplid l a1, pick kReplid2 l a2)
    constructor
    · rcases h.1 with h1 | ⟨l', hl', e⟩
      · rcases pick_spec kReplid l a1 with hp | hp
        · exact Or.inl (h1.trans hp)
        · exact Or.inr ⟨l, by simp, by rw [h1]; exact hp⟩
      · exact Or.inr ⟨l', List.mem_cons_of_mem _ hl', e⟩
    · rcases h.2 with h1 | ⟨l', hl', e⟩
      · rcases pick_spec kReplid2 l a2 with hp | hp
        · exact Or.inl (h1.trans hp)
        · exact Or.inr ⟨l, by simp, by rw [h1]; exact hp⟩
      · exact Or.inr ⟨l', List.mem_cons_of_mem _ hl', e⟩

theorem getRunIds_from_line (info : Txt) :
    ((getRunIds info).1 = [] ∨ ∃ l ∈ splitCRLF [] info, l = kReplid ++ (getRunIds info).1) ∧
    ((getRunIds info).2 = [] ∨ ∃ l ∈ splitCRLF [] info, l = kReplid2 ++ (getRunIds info).2) :=
  runIdsOfLines_from_line _ _

/-- **the PSYNC answer's id**: the id asked with (a bare `+CONTINUE`), or one of the
    space-separated fields of the reply line, verbatim -/
theorem parsePsync_id (reply asked : Txt) (off : Int) (a : PsyncAns)
    (h : parsePsync reply asked off = some a) : (a.full = false ∧ a.id = asked) ∨ a.id ∈ splitSp [] reply := by
  unfold parsePsync at h
  cases hs : splitSp [] reply with
  | nil => rw [hs] at h; cases h
  | cons x0 rest =>
    rw [hs] at h
    simp only at h
    split at h
    · cases rest with
      | nil => simp at h; subst h; exact Or.inl ⟨rfl, rfl⟩
      | cons x1 r =>
        simp only [Option.some.injEq] at h
        subst h
        by_cases hx : x1 = []
        · simp [hx]
        · simp [hx]
    · cases rest with
      | nil => cases h
      | cons x1 r =>
        cases r with
        | nil => cases h
        | cons x2 r2 =>
          simp only at h
          split at h
          · split at h
            · simp only [Option.some.injEq] at h; subst h; simp
            · cases h
          · cases h

/-- a replication id as Redis generates it: 40 hexadecimal digits -/
def IsReplId (v : Txt) : Prop := v.length = 40 ∧ ∀ c ∈ v, c.isDigit = true ∨ ('a' ≤ c ∧ c ≤ 'f')

theorem replid_ne_q {v : Txt} (h : IsReplId v) : v ≠ ['?'] ∧ v ≠ [] := by
  constructor <;> (intro e; have := h.1; rw [e] at this; simp at this)

/-- **the id the input hands to `channel.SetRunId` is not "?"** when the source's
    `master_replid` lines and the fields of its PSYNC reply are not — e.g. are `IsReplId`. (A
    missing `master_replid` line gives "", which `hq` allows: the follower refuses an empty id.) -/
theorem input_sets_no_q (info reply asked : Txt) (off : Int) (a : PsyncAns)
    (hinfo : ∀ l ∈ splitCRLF [] info, ∀ v, l = kReplid ++ v → v ≠ ['?'])
    (hrep : ['?'] ∉ splitSp [] reply)
    (hp : parsePsync reply asked off = some a) :
    chanIdOf (getRunIds info).1 a ≠ ['?'] := by
  unfold chanIdOf
  split
  · next hf =>
    rcases parsePsync_id reply asked off a hp with ⟨hnf, _⟩ | hm
    · rw [hf] at hnf; cases hnf
    · intro e; exact hrep (e ▸ hm)
  · rcases (getRunIds_from_line info).1 with h0 | ⟨l, hl, e⟩
    · rw [h0]; simp
    · exact hinfo l hl _ e

theorem txt_id_ne_q {t : Txt} (h : t ≠ ['?']) : String.ofList t ≠ "?" := by
  intro e
  apply h
  have := congrArg String.toList e
  simpa using this

/-! ### the channel under its input -/

theorem newRunIdDisk_cur_ne_q {β : Type} (F : Store β) (id : Id) (h : F.cur ≠ "?") :
    (newRunIdDisk F id).cur ≠ "?" := by
  unfold newRunIdDisk
  split
  · exact h
  · next hsp =>
    have : id ≠ "?" := by
      intro e; apply hsp; simp [special, e]
    split <;> exact this

theorem setRunId_disk_cur_ne_q {β : Type} (F : Store β) (id : Id) (h : F.cur ≠ "?") :
    (setRunId .disk F id).cur ≠ "?" := by
  simp only [setRunId]
  split
  · exact h
  · split
    · exact newRunIdDisk_cur_ne_q _ _ h
    · split
      · exact newRunIdDisk_cur_ne_q _ _ h
      · exact newRunIdDisk_cur_ne_q _ _ h

theorem delRunId_cur_ne_q {β : Type} (bk : Backend) (F : Store β) (id : Id) (h : F.cur ≠ "?") :
    (delRunId bk F id).cur ≠ "?" := by
  cases bk with
  | disk =>
    simp only [delRunId]
    split
    · exact h
    · split
      · simp
      · exact h
  | mem =>
    simp only [delRunId]
    split
    · exact h
    · simp

theorem verifyRunId_cur_ne_q {β : Type} (ids : List Id) (F : Store β) (h : F.cur ≠ "?") :
    (verifyRunId F ids).cur ≠ "?" := by
  induction ids generalizing F with
  | nil => exact h
  | cons id rest ih =>
    simp only [verifyRunId]
    split
    · exact ih F h
    · split
      · exact ih F h
      · split
        · exact ih _ (setRunId_disk_cur_ne_q F id h)
        · exact setRunId_disk_cur_ne_q F id h

/-- the memory channel stores whatever id it is given (`mc.runId = runId`) -/
theorem mem_channel_takes_any_id {β : Type} (F : Store β) (id : Id) : (setRunId .mem F id).cur = id := rfl

/-- **leader_channel_id_never_q.** Whatever the leader's own input does to its channel —
    any list of `StartPoint(ids)`, `DelRunId(RunId())`, `SetRunId(id)` — the channel's run id
    is never "?": on the DISK backend for ANY ids (also "?": `newRunId` ignores it), on the
    MEMORY backend when no `SetRunId` is given "?". -/
theorem leader_channel_id_never_q {β : Type} (bk : Backend) (ops : List ChanOp) (F0 : Store β)
    (h0 : F0.cur ≠ "?") (hsrc : bk = .mem → ∀ id, ChanOp.set id ∈ ops → id ≠ "?") :
    (ops.foldl (chanStep bk) F0).cur ≠ "?" := by
  induction ops generalizing F0 with
  | nil => exact h0
  | cons op rest ih =>
    simp only [List.foldl_cons]
    apply ih
    · cases op with
      | startPoint ids =>
        cases bk with
        | disk => exact verifyRunId_cur_ne_q ids F0 h0
        | mem => exact h0
      | delOwn => exact delRunId_cur_ne_q bk F0 _ h0
      | set id =>
        cases bk with
        | disk => exact setRunId_disk_cur_ne_q F0 id h0
        | mem => exact hsrc rfl id (by simp)
    · intro hb id hid
      exact hsrc hb id (List.mem_cons_of_mem _ hid)

/-- **follower_prefix_of_leader with `hq` discharged**: the leader's channel run id, as the
    handshake reads it, is what a list of its input's channel operations left (`lops` on the
    leader's backend `lbk`, from a state whose id is not "?" — a new channel's is ""). On a
    disk leader nothing else is asked; on a memory leader, that the source never reported "?"
    (`input_sets_no_q`). -/
theorem follower_prefix_of_leader_src {β : Type} (h : Hist β) (bk : Backend) (V : Nat → View β)
    (F : Store β) (ch : List Nat) (cut : Nat) (lost : Loss) (fuel : Nat)
    (lbk : Backend) (lops : List ChanOp) (L0 : Store β) (h0 : L0.cur ≠ "?")
    (hcur : (V 0).l2b.cur = (lops.foldl (chanStep lbk) L0).cur)
    (hsrc : lbk = .mem → ∀ id, ChanOp.set id ∈ lops → id ≠ "?")
    (hL : ∀ n, (V n).l4.Faithful h) (hwf : WF bk F) (id : Id) (hF : FaithfulAt h F.dirs id) :
    FaithfulAt h (sessionV bk V F ch cut lost fuel).store.dirs id ∧
      WF bk (sessionV bk V F ch cut lost fuel).store :=
  follower_prefix_of_leader h bk V F ch cut lost fuel hL
    (hcur ▸ leader_channel_id_never_q lbk lops L0 h0 hsrc) hwf id hF

/-! ### non-vacuity -/

section examples

def infoEx : Txt := ("role:master\r\nmaster_replid:8f3a0c1d2e4b5a69788796a5b4c3d2e1f0a1b2c3\r\n" ++
  "master_replid2:0000000000000000000000000000000000000000\r\nx:1\r\n").toList

example : (getRunIds infoEx).1 = "8f3a0c1d2e4b5a69788796a5b4c3d2e1f0a1b2c3".toList ∧
    (getRunIds infoEx).2 = "0000000000000000000000000000000000000000".toList := by decide +kernel
example : IsReplId "8f3a0c1d2e4b5a69788796a5b4c3d2e1f0a1b2c3".toList := by
  refine ⟨by decide, ?_⟩
  decide +kernel
example : parsePsync "CONTINUE".toList "idA".toList 41 = some ⟨"idA".toList, 41, false⟩ := by decide
example : parsePsync "continue idB".toList "idA".toList 41 = some ⟨"idB".toList, 41, false⟩ := by decide
example : parsePsync "FULLRESYNC idB 100".toList "?".toList (-1) = some ⟨"idB".toList, 100, true⟩ := by decide
example : parsePsync "FULLRESYNC idB x".toList "?".toList (-1) = none := by decide
example : parsePsync "NOMASTERLINK".toList "?".toList (-1) = none := by decide
-- what the input hands to SetRunId: the reply's id on a full resynchronisation, INFO's otherwise
example : chanIdOf (getRunIds infoEx).1 ⟨"idB".toList, 100, true⟩ = "idB".toList := by decide +kernel
-- a disk channel: even `SetRunId("?")` leaves the id alone
example : ([ChanOp.set "idA", .delOwn, .set "?"].foldl (chanStep .disk) (⟨"", []⟩ : Store Nat)).cur = "" := by decide
-- a source that says `+FULLRESYNC ? 5` is adopted by a MEMORY channel …
theorem q_source_is_adopted :
    parsePsync "FULLRESYNC ? 5".toList "?".toList (-1) = some ⟨['?'], 5, true⟩ ∧
    ([ChanOp.delOwn, .set "?"].foldl (chanStep .mem) (⟨"idA", []⟩ : Store Nat)).cur = "?" := by decide
-- … and such a leader announces "?" in its handshake (outside the property: `hq` fails)
example : ((View.const (⟨true, true, ["?"], "?", some ⟨5, [], some [1]⟩, true, [], none⟩ : Leader Nat)).handle "" 0 []).msgs.map (·.runId) = ["?"] := by decide

/-! instances that discharge the hypotheses of `input_sets_no_q` and `follower_prefix_of_leader_src` -/

theorem cutPrefix_append (p v : Txt) : cutPrefix p (p ++ v) = some v := by
  induction p with
  | nil => rfl
  | cons a p ih => simp [cutPrefix, ih]

/-- the hypothesis of `input_sets_no_q` about the INFO text in checkable form -/
theorem info_ok_of_check (info : Txt) (hchk : ∀ l ∈ splitCRLF [] info, cutPrefix kReplid l ≠ some ['?']) :
    ∀ l ∈ splitCRLF [] info, ∀ v, l = kReplid ++ v → v ≠ ['?'] := by
  intro l hl v e hv
  apply hchk l hl
  rw [e, cutPrefix_append, hv]

-- `input_sets_no_q` applied: INFO `infoEx`, reply `+FULLRESYNC <40 hex> 100` to `PSYNC ? -1`
example : chanIdOf (getRunIds infoEx).1 ⟨"8f3a0c1d2e4b5a69788796a5b4c3d2e1f0a1b2c3".toList, 100, true⟩ ≠ ['?'] :=
  input_sets_no_q infoEx "FULLRESYNC 8f3a0c1d2e4b5a69788796a5b4c3d2e1f0a1b2c3 100".toList ['?'] (-1) _
    (info_ok_of_check infoEx (by decide +kernel)) (by decide +kernel) (by decide +kernel)
-- … and on a continuation the INFO's id is taken
example : chanIdOf (getRunIds infoEx).1 ⟨"8f3a0c1d2e4b5a69788796a5b4c3d2e1f0a1b2c3".toList, 41, false⟩ ≠ ['?'] :=
  input_sets_no_q infoEx "CONTINUE".toList "8f3a0c1d2e4b5a69788796a5b4c3d2e1f0a1b2c3".toList 41 _
    (info_ok_of_check infoEx (by decide +kernel)) (by decide +kernel) (by decide +kernel)

-- `follower_prefix_of_leader_src` applied: a MEMORY leader whose input did DelRunId, SetRunId("idA")
-- on a new channel; the follower `fPrefix` of Props/C16.lean; any cut, any loss
example (cut : Nat) (lost : Loss) :
    FaithfulAt hEx (sessionV .disk (fun _ => View.const lEx) fPrefix [1, 2] cut lost 3).store.dirs "idA" ∧
      WF .disk (sessionV .disk (fun _ => View.const lEx) fPrefix [1, 2] cut lost 3).store := by
  refine follower_prefix_of_leader_src hEx .disk (fun _ => View.const lEx) fPrefix [1, 2] cut lost 3
    .mem [ChanOp.delOwn, .set "idA"] ⟨"", []⟩ (by decide) (by decide) ?_ ?_ ⟨Or.inr (by decide), by decide⟩ "idA" ?_
  · intro _ id hid
    simp at hid
    subst hid; decide
  · intro n d hd
    cases hd
    exact ⟨⟨by decide, fun s hs => by cases hs; decide⟩, by decide⟩
  · intro d hd
    simp only [fPrefix, List.mem_singleton, Prod.mk.injEq, Option.some.injEq, true_and] at hd
    subst hd
    exact ⟨by decide, fun s hs => by cases hs⟩

end examples

end GunYu.Props.C16
