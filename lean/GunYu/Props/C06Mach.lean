/-
  C06 — the whole loop as ONE machine (Model/PsyncMach.lean), session 5.

  * `request_id_of_info`        whatever the decision, the PSYNC request carries one of INFO's two ids or "?"
  * `other_source_answers_full` a source that shares NO id with the one that answered INFO answers
                                every request an attempt can make with FULLRESYNC under its own id -
                                the premise of `Loop.fullBy`, for every stored position and cache
  * `sibling_only_under_prev`   a source that shares only INFO's PREVIOUS id (a sibling promoted from the
                                same parent) refuses everything but a request under that previous id:
                                the one combination left outside the model (a server's replid2 is its
                                own former replid, so it cannot arise on one connection)
  * `runX_in_loop`, `runX_safe`, `runX_safe_stale`
                                every event list of the machine - attempts against the current source,
                                attempts answered by its successor or by any other source, each failing
                                at any call / peer, with ErrCorrupted / fatal ends, source moves and
                                replacements, collector passes, cache and position losses, back-offs,
                                Stop - stays inside `Loop`; so the next attempt's log starts exactly on
                                what the target holds (also when that attempt is answered by a successor)
  * `runX_stopped_attempts`     no attempt is made once the loop was left, whatever else happens
  * `gc_request_is_writer_start`  with collector passes between ANY two readings of the cache in
                                `syncMeta` (every schedule, well-formed or not) a granted continuation
                                was asked for exactly the byte after the writer's start offset
  * `gc_none_eq`                without a pass the scheduled `syncMetaG` is `syncMeta`
  * `gc_reader_start_partial`   under every schedule a log reader of branches 1-3 starts at the stored offset;
                                `gc_schedule_safe_stmt` (the full outcome under a schedule) is NOT proved
  * `gc_schedule_safe_partial`  the LOG-READER clause of `gc_schedule_safe_stmt` proved for every state of `Loop` and every
                                schedule (from gc_log_reader_partial, gc_branch4_reader_partial, gc_full_reader_partial)
  * `gc_full_reader_partial`    under every schedule, after FULLRESYNC the reader is the announced snapshot or refused, never a log
  * `failed_setRunId_outcomes`  a SetRunId that fails after repointing the hash changes only the label the next attempt reads
  * `gc_old_second_read_breaks` the pre-23dcc75 second reading (GetOffsetRange after PSYNC) under the
                                schedule "everything collected after GetRdb" hands the writer -1
-/
import GunYu.Props.C06Att
import GunYu.Model.PsyncMach

namespace GunYu.Props.C06
open GunYu GunYu.Psync

/-! ## A. which source can grant what -/

theorem decision_reqId (s : Source) (sp : SP) (c : Cache) :
    (decision s sp c).ps.reqId = s.id1 ∨ (decision s sp c).ps.reqId = s.id2 ∨ (decision s sp c).ps.reqId = qId := by
  unfold decision
  simp only
  split
  · rename_i h
    simp only [Bool.and_eq_true] at h
    have hl := contains_ids.mp h.2
    have hp := contains_ids.mp h.1
    split
    · rw [sendPSync_reqId]; rcases hl with e | e <;> simp [e]
    · rw [sendPSync_reqId]; rcases hp with e | e <;> simp [e]
  · split
    · rename_i h
      have hp := contains_ids.mp h
      rw [sendPSync_reqId]; rcases hp with e | e <;> simp [e]
    · split
      · rename_i h
        simp only [Bool.and_eq_true] at h
        have hl := contains_ids.mp h.1
        split
        · split
          · rw [sendPSync_reqId]; rcases hl with e | e <;> simp [e]
          · show (sendPSync s _ _).reqId = _ ∨ _
            rw [sendPSync_reqId]; rcases hl with e | e <;> simp [e]
        · rw [sendPSync_reqId]; simp
      · rw [sendPSync_reqId]; simp

/-- **the request carries INFO's ids**: one of the two ids INFO reported, or "?" -/
theorem request_id_of_info (sI : Source) (sp : SP) (c : Cache) :
    (reqOf sI sp c).1 = sI.id1 ∨ (reqOf sI sp c).1 = sI.id2 ∨ (reqOf sI sp c).1 = qId :=
  decision_reqId sI sp c

theorem admit_foreign (sP : Source) (id : Id) (off : Int) (h1 : id ≠ sP.id1) (h2 : id ≠ sP.id2) :
    admitPsync sP id off = .full sP.id1 sP.masterOff := by
  unfold admitPsync
  rw [if_pos ⟨h1, Or.inl h2⟩]

/-- **any other source answers FULLRESYNC**: PSYNC answered by a source that has none of INFO's ids
    (unrelated, or two and more fail-overs away) - whatever the stored position and the cache, the
    request is refused and the reply is `+FULLRESYNC <its id> <its offset>` -/
theorem other_source_answers_full (sI sP : Source) (hP : SourceWF sP) (sp : SP) (c : Cache)
    (h11 : sP.id1 ≠ sI.id1) (h12 : sP.id1 ≠ sI.id2) (h21 : sP.id2 ≠ sI.id1) (h22 : sP.id2 ≠ sI.id2) :
    admitPsync sP (reqOf sI sp c).1 (reqOf sI sp c).2 = .full sP.id1 sP.masterOff := by
  apply admit_foreign
  · rcases request_id_of_info sI sp c with e | e | e <;> rw [e]
    · exact Ne.symm h11
    · exact Ne.symm h12
    · exact Ne.symm hP.id1_nq
  · rcases request_id_of_info sI sp c with e | e | e <;> rw [e]
    · exact Ne.symm h21
    · exact Ne.symm h22
    · exact Ne.symm hP.id2_nq

/-- **the one combination outside the model**: a source sharing only INFO's previous id refuses
    every request that is not made under that previous id -/
theorem sibling_only_under_prev (sI sP : Source) (hP : SourceWF sP) (sp : SP) (c : Cache)
    (h11 : sP.id1 ≠ sI.id1) (h21 : sP.id2 ≠ sI.id1)
    (hreq : (reqOf sI sp c).1 ≠ sI.id2) :
    admitPsync sP (reqOf sI sp c).1 (reqOf sI sp c).2 = .full sP.id1 sP.masterOff := by
  apply admit_foreign
  · rcases request_id_of_info sI sp c with e | e | e
    · rw [e]; exact Ne.symm h11
    · exact absurd e hreq
    · rw [e]; exact Ne.symm hP.id1_nq
  · rcases request_id_of_info sI sp c with e | e | e
    · rw [e]; exact Ne.symm h21
    · exact absurd e hreq
    · rw [e]; exact Ne.symm hP.id2_nq

/-- non-vacuity: the cache of `cC` under id [1], stored position (1,150): the request is `[1] 181`;
    a source with ids [7],[8] refuses it -/
example : reqOf s0 ⟨[1], 150⟩ cC = ([1], 181) ∧
    admitPsync ⟨[7], [8], 100, true, 50, 151, 200, 10, true⟩ (reqOf s0 ⟨[1], 150⟩ cC).1 (reqOf s0 ⟨[1], 150⟩ cC).2
      = .full [7] 200 := by decide

/-! ## B. the machine stays inside `Loop` -/

theorem finish_loop {w : World} {σ' : Sys} (h : ∀ c : Bool, Loop w (if c then σ'.corrupted else σ')) (v : Verdict) (fin : AttEnd) (n : Nat) :
    Loop w (finish σ' v fin n).sys := by
  unfold finish
  cases v
  · cases fin
    · exact h false
    · exact h true
    · exact h false
  · exact h false

theorem stepX_loop (w : World) (r : RunSt) (ev : EvX) (h : Loop w r.sys) (hok : ev.ok w r.sys) :
    Loop w (stepX w r ev).sys := by
  cases ev with
  | att resume p st fin =>
    have := run_in_loop w r h [.att resume p st fin] (by
      intro ev' hev'
      simp only [List.mem_singleton] at hev'
      subst hev'
      exact hok)
    exact this
  | stale sP resume p st fin =>
    obtain ⟨hP, hag, h2, h3, h4, h5, h6, hfit⟩ := hok
    simp only [stepX]
    split
    · exact h
    · split
      · exact finish_loop (fun c => Loop.stale r.sys sP resume .early c h hP hag h2 h3 h4 h5 h6 trivial) _ _ _
      · exact finish_loop (fun c => Loop.stale r.sys sP resume st c h hP hag h2 h3 h4 h5 h6 hfit) _ _ _
  | «foreign» s' resume p st fin =>
    obtain ⟨hs', hag, h1, h2, h3, h4, hfit⟩ := hok
    simp only [stepX]
    split
    · exact h
    · split
      · exact finish_loop (fun c => Loop.fullBy r.sys s' resume .early c h hs' hag h1 h2 h3 h4 trivial) _ _ _
      · exact finish_loop (fun c => Loop.fullBy r.sys s' resume st c h hs' hag h1 h2 h3 h4 hfit) _ _ _
  | same s' =>
    obtain ⟨hs', hag, h1, h2⟩ := hok
    exact Loop.same r.sys s' h hs' hag h1 h2
  | change s' =>
    obtain ⟨hs', hag, h1, h2, h3, h4⟩ := hok
    exact Loop.change r.sys s' h hs' hag h1 h2 h3 h4
  | gc c' => exact Loop.gc r.sys c' h hok
  | cacheLost c' d' =>
    obtain ⟨hc, hk, hn⟩ := hok
    exact Loop.cache r.sys c' d' h hc hk hn
  | forget sp' => exact Loop.forget r.sys sp' h hok
  | sleep => exact h
  | stop => exact h

/-- **the machine stays inside `Loop`** for every event list whose events meet the premises of the
    corresponding `Loop` constructor in the state they happen in -/
theorem runX_in_loop (w : World) (r : RunSt) (h : Loop w r.sys) (evs : List EvX) (hok : okPath w r evs) :
    Loop w (runLoopX w r evs).sys := by
  induction evs generalizing r with
  | nil => exact h
  | cons ev rest ih =>
    show Loop w (runLoopX w (stepX w r ev) rest).sys
    exact ih _ (stepX_loop w r ev h hok.1) hok.2

/-- hence the invariant, and the property for the NEXT attempt against the source the machine ended with -/
theorem runX_safe (w : World) (r : RunSt) (h : Loop w r.sys) (evs : List EvX) (hok : okPath w r evs)
    (start : Int) (byte : Int → UInt8)
    (hd : (run w (runLoopX w r evs).sys.s (runLoopX w r evs).sys.t.stored (runLoopX w r evs).sys.c (runLoopX w r evs).sys.d).delivery
      = .stream start byte) :
    start = (runLoopX w r evs).sys.t.stored.offset ∧
      ∃ tid, (runLoopX w r evs).sys.t.truth = .at tid start ∧ AgreeBelow w tid (runLoopX w r evs).sys.s.id1 start ∧
        ∀ n, start ≤ n → byte n = w.hist (runLoopX w r evs).sys.s.id1 n :=
  loop_safe w _ (runX_in_loop w r h evs hok) start byte hd

/-- … and when that next attempt's PSYNC is answered by a successor `sP` of the source that answers INFO -/
theorem runX_safe_stale (w : World) (r : RunSt) (h : Loop w r.sys) (evs : List EvX) (hok : okPath w r evs)
    (sP : Source) (hP : SourceWF sP) (hagP : Agree w sP) (hS : Successor (runLoopX w r evs).sys sP)
    (hnf : (run (viewWorld w (runLoopX w r evs).sys.s sP) (mix (runLoopX w r evs).sys.s sP) (runLoopX w r evs).sys.t.stored
      (runLoopX w r evs).sys.c (runLoopX w r evs).sys.d).mt.ps.full = false)
    (start : Int) (byte : Int → UInt8)
    (hd : (run (viewWorld w (runLoopX w r evs).sys.s sP) (mix (runLoopX w r evs).sys.s sP) (runLoopX w r evs).sys.t.stored
      (runLoopX w r evs).sys.c (runLoopX w r evs).sys.d).delivery = .stream start byte) :
    start = (runLoopX w r evs).sys.t.stored.offset ∧ start ≤ sP.switchOff ∧
      ∃ tid, (runLoopX w r evs).sys.t.truth = .at tid start ∧ AgreeBelow w tid sP.id1 start ∧
        ∀ n, start ≤ n → byte n = w.hist sP.id1 n :=
  (loop_safe_stale w _ (runX_in_loop w r h evs hok) sP hP hagP hS hnf).1 start byte hd

theorem stepX_stopped (w : World) (r : RunSt) (hr : r.stopped = true) (ev : EvX) :
    (stepX w r ev).stopped = true ∧ (stepX w r ev).attempts = r.attempts := by
  cases ev <;> simp [stepX, runStep, hr]

/-- **no attempt after the loop was left**: the world goes on, the number of attempts does not -/
theorem runX_stopped_attempts (w : World) (r : RunSt) (hr : r.stopped = true) (evs : List EvX) :
    (runLoopX w r evs).stopped = true ∧ (runLoopX w r evs).attempts = r.attempts := by
  induction evs generalizing r with
  | nil => exact ⟨hr, rfl⟩
  | cons ev rest ih =>
    obtain ⟨h1, h2⟩ := stepX_stopped w r hr ev
    have := ih _ h1
    show (runLoopX w (stepX w r ev) rest).stopped = true ∧ (runLoopX w (stepX w r ev) rest).attempts = r.attempts
    rw [← h2]
    exact this

/-- non-vacuity: from `l2` (C06Loop: first full sync done, source at 230): a collector pass, a stale
    attempt answered by the successor `sP0` (+CONTINUE [3], replay up to 235), the back-off, then an
    attempt against `sP0` whose Send ends fatally: two attempts, loop left, position (1,235) -/
def evsX : List EvX :=
  [.gc ⟨.memory, [1], some (200, 10), some (200, 230)⟩, .stale sP0 true {} (.delivered false 235 10) .plain, .sleep,
   .att true { dial := false } .early .fatal, .att true {} (.delivered true 0 5) .plain]

theorem machine_example :
    Loop w0 (runLoopX w0 ⟨l2, false, 0⟩ evsX).sys ∧ (runLoopX w0 ⟨l2, false, 0⟩ evsX).attempts = 2 ∧
      (runLoopX w0 ⟨l2, false, 0⟩ evsX).stopped = true ∧ (runLoopX w0 ⟨l2, false, 0⟩ evsX).sys.t.stored = ⟨[1], 235⟩ := by
  have h1 : Loop w0 l1 :=
    Loop.attempt σA true (.delivered true 0 30) false (Loop.init s0 .memory s0_wf w0_agree) ⟨by decide, by decide⟩
  have h2 : Loop w0 l2 := Loop.same l1 s0b h1 s0b_wf w0_agree_b rfl rfl
  have e2 : l2.c = ⟨.memory, [1], some (200, 10), some (200, 230)⟩ := by decide
  refine ⟨runX_in_loop w0 ⟨l2, false, 0⟩ h2 evsX ?_, by decide, by decide, by decide⟩
  refine ⟨?_, ⟨sP0_wf, w0_agree_P, rfl, by decide, by decide, by decide, by decide, by decide, by decide⟩, trivial, trivial, ?_, trivial⟩
  · show Collected l2.c _
    rw [e2]
    exact ⟨rfl, rfl, Or.inl rfl, Or.inr ⟨200, rfl, by decide, by decide⟩, fun _ h => absurd rfl h⟩
  · exact ⟨by decide, by decide⟩

/-! ## C. collector passes between the readings of `syncMeta` -/

theorem decisionG_cases (s : Source) (sp : SP) (c0 : Cache) (g : GcSched) :
    let dc := decisionG s sp c0 g
    let loc0 := c0.startPoint [s.id1, s.id2]
    (dc.ps = sendPSync s loc0.runId loc0.offset ∧ dc.loc = loc0) ∨
    (dc.ps = sendPSync s sp.runId sp.offset ∧ (dc.ps.full = false → dc.loc.offset = sp.offset)) ∨
    (∃ x, dc.ps = { sendPSync s loc0.runId loc0.offset with rdbSize := x } ∧ dc.loc = loc0) ∨
    dc.ps = sendPSync s qId (-1) := by
  simp only [decisionG]
  split
  · split
    · exact Or.inl ⟨rfl, rfl⟩
    · refine Or.inr (Or.inl ⟨rfl, fun h => ?_⟩)
      simp only at h ⊢
      rw [h]; simp
  · split
    · refine Or.inr (Or.inl ⟨rfl, fun h => ?_⟩)
      simp only at h ⊢
      rw [h]; simp
    · split
      · split
        · split
          · exact Or.inl ⟨rfl, rfl⟩
          · exact Or.inr (Or.inr (Or.inl ⟨_, rfl, rfl⟩))
        · exact Or.inr (Or.inr (Or.inr rfl))
      · exact Or.inr (Or.inr (Or.inr rfl))

/-- **the request is the byte after the writer's start, under every collector schedule**: whatever
    images of the cache `IsValidOffset`, `GetRdb` and `DelRunId`/`SetRunId` see (no well-formedness, no
    relation between them is needed), a continuation that the source grants was asked for with
    `writer start + 1`: the bytes the source streams are stored at the offsets they have. -/
theorem gc_request_is_writer_start (s : Source) (hs : SourceWF s) (sp : SP) (c0 : Cache) (g : GcSched)
    (hnf : (syncMetaG s sp c0 g).ps.full = false) :
    (syncMetaG s sp c0 g).ps.wireOff = (syncMetaG s sp c0 g).locSp.offset + 1 ∧
      0 ≤ (syncMetaG s sp c0 g).locSp.offset := by
  have hc := decisionG_cases s sp c0 g
  simp only [syncMetaG] at hnf ⊢
  generalize decisionG s sp c0 g = dc at hc hnf ⊢
  simp only at hc
  rw [hnf]
  simp only [Bool.false_eq_true, if_false]
  rcases hc with ⟨hp, hl⟩ | ⟨hp, hl⟩ | ⟨x, hp, hl⟩ | hp
  · rw [hp] at hnf ⊢
    have := sendPSync_cont hs hnf
    rw [hl]; exact ⟨this.2.1, this.1⟩
  · have hl' := hl hnf
    rw [hp] at hnf ⊢
    have := sendPSync_cont hs hnf
    rw [hl']; exact ⟨this.2.1, this.1⟩
  · rw [hp] at hnf ⊢
    simp only at hnf ⊢
    have := sendPSync_cont hs hnf
    rw [hl]; exact ⟨this.2.1, this.1⟩
  · rw [hp] at hnf
    have := qId_not_admitted hs (-1)
    rw [this] at hnf; cases hnf

/-- without a pass the scheduled model is `syncMeta` (for a well-formed cache the old second reading
    of branch 4 equals the first: `branch4_writer_offset`) -/
theorem gc_none_eq (s : Source) (hs : SourceWF s) (sp : SP) (c : Cache) (hc : CacheWF c) :
    syncMetaG s sp c (GcSched.none c) = syncMeta s sp c := by
  have hd : decisionG s sp c (GcSched.none c) = decision s sp c := by
    dsimp only [decisionG, decision, GcSched.none]
    split
    · rfl
    · split
      · rfl
      · split
        · rename_i h
          simp only [Bool.and_eq_true] at h
          by_cases hr : (c.getRdb (c.startPoint [s.id1, s.id2]).runId).1 ≠ -1 ∧ (c.getRdb (c.startPoint [s.id1, s.id2]).runId).2 ≠ -1
          · rw [if_pos hr, if_pos hr, branch4_writer_offset s hs c hc h.1 hr.1]
          · rw [if_neg hr, if_neg hr]
        · rfl
  simp only [syncMetaG, syncMeta, hd]
  rfl

/-- the defect N9 in this model: the code before 23dcc75 read the cache again after the round trip
    (`GetOffsetRange` on the image `c3`); with everything collected after `GetRdb` that reading is -1
    while PSYNC was sent with `latest + 1` -/
theorem gc_old_second_read_breaks :
    let c0 : Cache := ⟨.disk, [1], some (120, 30), some (120, 180)⟩
    let c3 : Cache := ⟨.disk, [1], none, none⟩
    Collected c0 c3 ∧ (c3.getOffsetRange [1]).2 = -1 ∧
      (syncMetaG s0 SP.initial c0 ⟨c0, c0, c3⟩).ps.wireOff = 181 ∧
      (syncMetaG s0 SP.initial c0 ⟨c0, c0, c3⟩).locSp.offset = 180 ∧
      (syncMetaG s0 SP.initial c0 ⟨c0, c0, c3⟩).branch = 4 := by
  refine ⟨⟨rfl, rfl, Or.inr rfl, Or.inl rfl, fun _ _ => rfl⟩, by decide, by decide, by decide, by decide⟩

/-! ### the reader under a schedule: what is proved and what is not -/

theorem openReader_aof {c : Cache} {off o : Int} (h : openReader c off = .aof o) : o = off := by
  unfold openReader at h
  split at h
  · cases h
  · split at h
    · split at h
      · cases h; rfl
      · split at h
        · split at h <;> cases h
        · cases h
    · split at h
      · split at h <;> cases h
      · cases h

theorem decisionG_outOff (s : Source) (sp : SP) (c0 : Cache) (g : GcSched) (hb : (decisionG s sp c0 g).branch ≠ 4) :
    (decisionG s sp c0 g).outOff = sp.offset := by
  unfold decisionG at hb ⊢
  simp only at hb ⊢
  generalize [s.id1, s.id2].contains sp.runId = a at hb ⊢
  generalize [s.id1, s.id2].contains (c0.startPoint [s.id1, s.id2]).runId = b at hb ⊢
  generalize sp.isInitial = i at hb ⊢
  cases a <;> cases b <;> cases i <;>
    simp only [Bool.and_true, Bool.and_false, Bool.true_and, Bool.false_and, Bool.false_eq_true, if_true, if_false, ↓reduceIte] at hb ⊢
  all_goals (repeat' split)
  all_goals first | rfl | (exfalso; simp_all)

/-- **proved part**: under every collector schedule, on whatever image `c5` of the cache the reader is
    created, a LOG reader of an attempt that was granted a continuation in branches 1-3 starts exactly
    at the stored offset (a later pass can only make `NewReader` refuse, never move the start) -/
theorem gc_reader_start_partial (s : Source) (sp : SP) (c0 : Cache) (g : GcSched)
    (hnf : (syncMetaG s sp c0 g).ps.full = false) (hb : (syncMetaG s sp c0 g).branch ≠ 4) (c5 : Cache) (o : Int)
    (h : openReader c5 (syncMetaG s sp c0 g).outSp.offset = .aof o) : o = sp.offset := by
  have ho := openReader_aof h
  rw [ho]
  simp only [syncMetaG] at hnf hb ⊢
  rw [hnf]
  simp only [Bool.false_eq_true, if_false]
  exact decisionG_outOff s sp c0 g hb

theorem decisionG_ids (s : Source) (hs : SourceWF s) (sp : SP) (c0 : Cache) (g : GcSched)
    (hnf : (decisionG s sp c0 g).ps.full = false) (hb : (decisionG s sp c0 g).branch ≠ 4) :
    [s.id1, s.id2].contains sp.runId = true := by
  have hq := qId_not_admitted hs (-1)
  unfold decisionG at hb hnf
  simp only at hb hnf
  generalize [s.id1, s.id2].contains sp.runId = a at hb hnf ⊢
  generalize [s.id1, s.id2].contains (c0.startPoint [s.id1, s.id2]).runId = b at hb hnf
  generalize sp.isInitial = i at hb hnf
  cases a
  · exfalso
    cases b <;> cases i <;>
      simp only [Bool.and_true, Bool.and_false, Bool.false_and, Bool.false_eq_true, if_true, if_false, ↓reduceIte] at hb hnf
    all_goals first
      | (rw [hq] at hnf; cases hnf)
      | (split at hnf
         · apply hb
           (repeat' split) <;> first | rfl | (exfalso; simp_all)
         · rw [hq] at hnf; cases hnf)
  · rfl

/-- **proved part, with the id**: under every schedule a log reader handed over after a granted
    continuation outside branch 4 starts at the stored offset AND the stored id is one the source serves -/
theorem gc_log_reader_partial (s : Source) (hs : SourceWF s) (sp : SP) (c0 : Cache) (g : GcSched)
    (hnf : (syncMetaG s sp c0 g).ps.full = false) (hb : (syncMetaG s sp c0 g).branch ≠ 4) (c5 : Cache) (o : Int)
    (h : openReader c5 (syncMetaG s sp c0 g).outSp.offset = .aof o) :
    o = sp.offset ∧ (sp.runId = s.id1 ∨ sp.runId = s.id2) :=
  ⟨gc_reader_start_partial s sp c0 g hnf hb c5 o h, contains_ids.mp (decisionG_ids s hs sp c0 g hnf hb)⟩

theorem decisionG_full (s : Source) (sp : SP) (c0 : Cache) (g : GcSched) (hf : (decisionG s sp c0 g).ps.full = true) :
    ∃ id off, (decisionG s sp c0 g).ps = sendPSync s id off := by
  unfold decisionG at hf ⊢
  simp only at hf ⊢
  generalize [s.id1, s.id2].contains sp.runId = a at hf ⊢
  generalize [s.id1, s.id2].contains (c0.startPoint [s.id1, s.id2]).runId = b at hf ⊢
  generalize sp.isInitial = i at hf ⊢
  cases a <;> cases b <;> cases i <;>
    simp only [Bool.and_true, Bool.and_false, Bool.true_and, Bool.false_and, Bool.false_eq_true, if_true, if_false, ↓reduceIte] at hf ⊢
  all_goals (repeat' split)
  all_goals first | exact ⟨_, _, rfl⟩ | (exfalso; simp_all)

/-- **proved part, FULLRESYNC**: under every collector schedule (the image `c3` that DelRunId / SetRunId see
    well-formed - `collected_wf`), after a FULLRESYNC the cache the writer opens holds exactly the announced
    snapshot and no log, and on that cache or any later collector image of it `NewReader` NEVER opens a log
    reader: it hands over the snapshot just announced `(masterOff, snapLen)` or refuses -/
theorem gc_full_reader_partial (s : Source) (hs : SourceWF s) (sp : SP) (c0 : Cache) (g : GcSched) (hc3 : CacheWF g.c3)
    (hf : (syncMetaG s sp c0 g).ps.full = true) (c5 : Cache)
    (h5 : c5 = (openWriter (syncMetaG s sp c0 g)).2 ∨ Collected (openWriter (syncMetaG s sp c0 g)).2 c5) :
    (openWriter (syncMetaG s sp c0 g)).2 = ⟨g.c3.backend, s.id1, some (s.masterOff, s.snapLen), none⟩ ∧
    (∀ o, openReader c5 (syncMetaG s sp c0 g).outSp.offset ≠ .aof o) ∧
    (∀ left size, openReader c5 (syncMetaG s sp c0 g).outSp.offset = .rdb left size →
      left = s.masterOff ∧ size = s.snapLen) := by
  have hfd : (decisionG s sp c0 g).ps.full = true := by simpa only [syncMetaG] using hf
  obtain ⟨id, off, hps⟩ := decisionG_full s sp c0 g hfd
  have hfull : (sendPSync s id off).full = true := by rw [← hps]; exact hfd
  obtain ⟨hrid, hoff, hsz⟩ := sendPSync_full hfull
  have hcache : (syncMetaG s sp c0 g).cache = ⟨g.c3.backend, s.id1, none, none⟩ := by
    simp only [syncMetaG, hps, hrid, hfull, Bool.true_or, if_true]
    exact del_set_cleared hc3 hs.id1_ne hs.id1_nq
  have hw : (openWriter (syncMetaG s sp c0 g)).2 = ⟨g.c3.backend, s.id1, some (s.masterOff, s.snapLen), none⟩ := by
    simp only [openWriter, hf, if_true, hcache]
    simp only [syncMetaG, hps, hoff, hsz, hfull, if_true]
  refine ⟨hw, ?_⟩
  have h5' : c5.aof = none ∧ (c5.rdb = some (s.masterOff, s.snapLen) ∨ c5.rdb = none) := by
    rcases h5 with e | hcol
    · rw [e, hw]; exact ⟨rfl, Or.inl rfl⟩
    · rw [hw] at hcol
      exact ⟨by simpa using hcol.aof, by simpa using hcol.rdb⟩
  obtain ⟨ha, hr⟩ := h5'
  generalize (syncMetaG s sp c0 g).outSp.offset = x
  constructor
  · intro o h
    unfold openReader at h
    rw [ha] at h
    split at h
    · cases h
    · simp only at h
      rcases hr with e | e <;> rw [e] at h <;> simp only at h
      · split at h <;> cases h
      · cases h
  · intro left size h
    unfold openReader at h
    rw [ha] at h
    split at h
    · cases h
    · simp only at h
      rcases hr with e | e <;> rw [e] at h <;> simp only at h
      · split at h
        · cases h; exact ⟨rfl, rfl⟩
        · cases h
      · cases h

/-! #### branch 4 under a schedule: the cached snapshot, never a log reader -/

theorem later_rdb {c c' : Cache} (h : c' = c ∨ Collected c c') {p : Int × Int} (hp : c'.rdb = some p) : c.rdb = some p := by
  rcases h with e | hcol
  · rw [← e]; exact hp
  · rcases hcol.rdb with e | e
    · rw [← e]; exact hp
    · rw [e] at hp; cases hp

theorem later_aof {c c' : Cache} (h : c' = c ∨ Collected c c') {l' r' : Int} (hp : c'.aof = some (l', r')) :
    ∃ l, c.aof = some (l, r') ∧ l ≤ l' := by
  rcases h with e | hcol
  · exact ⟨l', by rw [← e]; exact hp, Int.le_refl _⟩
  · have ha := hcol.aof
    cases hc : c.aof with
    | none => rw [hc] at ha; simp only at ha; rw [ha] at hp; cases hp
    | some q =>
      obtain ⟨l, r⟩ := q
      rw [hc] at ha; simp only at ha
      rcases ha with e | ⟨l2, e, h1, _⟩
      · rw [e] at hp; cases hp
      · rw [e] at hp; cases hp; exact ⟨l, rfl, h1⟩

theorem setRunId_aof (c : Cache) (id : Id) : (c.setRunId id).aof = c.aof ∨ (c.setRunId id).aof = none := by
  obtain ⟨be, rid, rdb, aof⟩ := c
  cases be
  · simp only [Cache.setRunId]
    split
    · exact Or.inl rfl
    · split
      · exact Or.inr rfl
      · exact Or.inl rfl
  · exact Or.inl rfl

theorem decisionG_b4 (s : Source) (sp : SP) (c0 : Cache) (g : GcSched)
    (hb : (decisionG s sp c0 g).branch = 4) (hnf : (decisionG s sp c0 g).ps.full = false) :
    ((g.c2.getRdb (c0.startPoint [s.id1, s.id2]).runId).1 ≠ -1 ∧ (g.c2.getRdb (c0.startPoint [s.id1, s.id2]).runId).2 ≠ -1) ∧
    (decisionG s sp c0 g).clearLocal = false ∧ (decisionG s sp c0 g).loc = c0.startPoint [s.id1, s.id2] ∧
    (decisionG s sp c0 g).outOff = (g.c2.getRdb (c0.startPoint [s.id1, s.id2]).runId).1 - (g.c2.getRdb (c0.startPoint [s.id1, s.id2]).runId).2 ∧
    [s.id1, s.id2].contains (c0.startPoint [s.id1, s.id2]).runId = true := by
  unfold decisionG at hb hnf ⊢
  simp only at hb hnf ⊢
  generalize [s.id1, s.id2].contains sp.runId = a at hb hnf ⊢
  generalize [s.id1, s.id2].contains (c0.startPoint [s.id1, s.id2]).runId = b at hb hnf ⊢
  generalize sp.isInitial = i at hb hnf ⊢
  cases a <;> cases b <;> cases i <;>
    simp only [Bool.and_true, Bool.and_false, Bool.true_and, Bool.false_and, Bool.false_eq_true, if_true, if_false, ↓reduceIte] at hb hnf ⊢
  all_goals (repeat' split)
  all_goals first | (exfalso; simp_all; done) | (refine ⟨by assumption, rfl, rfl, rfl, by first | rfl | trivial⟩)

/-- **proved part, branch 4**: under every schedule whose images are successive collector images of a
    well-formed cache, an attempt without stored position that was granted a continuation behind the cached
    snapshot never opens a LOG reader: on the cache the writer opened, or any later collector image of it, the
    reader at `left - size` is the cached snapshot reader or is refused - the log starts at or behind the
    snapshot's offset in every image. (Not proved: that the snapshot handed over is still followed by its log.) -/
theorem gc_branch4_reader_partial (s : Source) (hs : SourceWF s) (sp : SP) (c0 : Cache) (g : GcSched) (hc0 : CacheWF c0) (hc2 : CacheWF g.c2)
    (hok : g.ok c0) (hb : (syncMetaG s sp c0 g).branch = 4) (hnf : (syncMetaG s sp c0 g).ps.full = false) (c5 : Cache)
    (h5 : c5 = (openWriter (syncMetaG s sp c0 g)).2 ∨ Collected (openWriter (syncMetaG s sp c0 g)).2 c5) (o : Int) :
    openReader c5 (syncMetaG s sp c0 g).outSp.offset ≠ .aof o := by
  have hbd : (decisionG s sp c0 g).branch = 4 := by simpa only [syncMetaG] using hb
  have hfd : (decisionG s sp c0 g).ps.full = false := by simpa only [syncMetaG] using hnf
  obtain ⟨hrdb, hcl, hloc, hout, hcont⟩ := decisionG_b4 s sp c0 g hbd hfd
  -- the snapshot GetRdb saw
  obtain ⟨left, size, hr2, hget⟩ : ∃ left size, g.c2.rdb = some (left, size) ∧
      g.c2.getRdb (c0.startPoint [s.id1, s.id2]).runId = (left, size) := by
    have h1 := hrdb.1
    unfold Cache.getRdb at h1 ⊢
    by_cases hid : (c0.startPoint [s.id1, s.id2]).runId ≠ g.c2.runId
    · rw [if_pos hid] at h1; exact absurd rfl h1
    · rw [if_neg hid] at h1 ⊢
      cases hr : g.c2.rdb with
      | none => rw [hr] at h1; exact absurd rfl h1
      | some p => obtain ⟨a, b⟩ := p; exact ⟨a, b, rfl, rfl⟩
  have hsz : 0 < size := by have := hc2.rdb_ok; rw [hr2] at this; exact this.2.1
  -- it is the snapshot of c0 too, so c0's newest offset is not before it
  have hr1 := later_rdb hok.s2 hr2
  have hr0 := later_rdb hok.s1 hr1
  have hlat : left ≤ c0.latest := left_le_latest hc0 hr0
  have hoff : (syncMetaG s sp c0 g).outSp.offset = left - size := by
    simp only [syncMetaG, hfd, Bool.false_eq_true, if_false, hout, hget]
  have hlo : (syncMetaG s sp c0 g).locSp.offset = (c0.startPoint [s.id1, s.id2]).offset := by
    simp only [syncMetaG, hfd, Bool.false_eq_true, if_false, hloc]
  -- the log of the cache the writer opened starts at or behind `left`
  have hcache : (syncMetaG s sp c0 g).cache = g.c3.setRunId s.id1 := by
    simp only [syncMetaG, hfd, hcl, Bool.or_self, Bool.false_eq_true, if_false]
  have h3 : ∀ l r, g.c3.aof = some (l, r) → left ≤ l := by
    intro l r h
    obtain ⟨l2, h2, hle⟩ := later_aof hok.s3 h
    have := hc2.contig
    rw [hr2, h2] at this
    simp only at this
    split at this <;> omega
  have hw : ∀ l r, (openWriter (syncMetaG s sp c0 g)).2.aof = some (l, r) →
      left ≤ l ∨ l = (c0.startPoint [s.id1, s.id2]).offset := by
    intro l r h
    simp only [openWriter, hnf, Bool.false_eq_true, if_false, hcache] at h
    rcases setRunId_aof g.c3 s.id1 with e | e
    · cases h3c : g.c3.aof with
      | none => rw [e, h3c] at h; simp only [hlo] at h; cases h; exact Or.inr rfl
      | some q =>
        obtain ⟨l3, r3⟩ := q
        rw [e, h3c] at h; simp only at h
        have hl3 := h3 l3 r3 h3c
        split at h
        · simp only [e, h3c] at h; cases h; exact Or.inl hl3
        · simp only [e, h3c] at h; cases h; exact Or.inl hl3
    · rw [e] at h; simp only [hlo] at h; cases h; exact Or.inr rfl
  have hso : left ≤ (c0.startPoint [s.id1, s.id2]).offset := by rw [(startPoint_in hs c0 hcont).1]; exact hlat
  intro h
  rw [hoff] at h
  unfold openReader at h
  split at h
  · cases h
  · cases h5a : c5.aof with
    | none =>
      rw [h5a] at h; simp only at h
      split at h
      · split at h <;> cases h
      · cases h
    | some q =>
      obtain ⟨l', r'⟩ := q
      rw [h5a] at h; simp only at h
      obtain ⟨l, hcw, hle⟩ := later_aof h5 h5a
      have hl := hw l r' hcw
      split at h
      · rename_i hcond; omega
      · split at h
        · split at h <;> cases h
        · cases h

theorem later_wf {c c' : Cache} (hc : CacheWF c) (h : c' = c ∨ Collected c c') : CacheWF c' := by
  rcases h with e | hcol
  · rw [e]; exact hc
  · exact collected_wf hc hcol

/-- **the log-reader clause of `gc_schedule_safe_stmt`, PROVED**: in every state of the loop, under every
    collector schedule (successive images at IsValidOffset, GetRdb, DelRunId/SetRunId, and any later image at the
    reader), if `NewReader` opens a LOG reader then the source granted a continuation, the reader starts exactly
    at the stored offset, and the stored id is one the source serves. (After FULLRESYNC and in branch 4 the
    reader is a snapshot reader or is refused.) THE GAP to `gc_schedule_safe_stmt`: its snapshot clause (the
    cached snapshot handed over in branch 4 is still followed by its log) and the bytes such a log reader then
    reads (`CacheOK` along the images) - judged by the monitors of session C06d. -/
theorem gc_schedule_safe_partial (w : World) (σ : Sys) (g : GcSched) (c5 : Cache) (h : Loop w σ) (hok : g.ok σ.c)
    (h5 : c5 = (openWriter (syncMetaG σ.s σ.t.stored σ.c g)).2 ∨ Collected (openWriter (syncMetaG σ.s σ.t.stored σ.c g)).2 c5)
    (o : Int) (hr : openReader c5 (syncMetaG σ.s σ.t.stored σ.c g).outSp.offset = .aof o) :
    (syncMetaG σ.s σ.t.stored σ.c g).ps.full = false ∧ o = σ.t.stored.offset ∧
      (σ.t.stored.runId = σ.s.id1 ∨ σ.t.stored.runId = σ.s.id2) := by
  have inv := loop_inv w σ h
  have hc1 := later_wf inv.cwf hok.s1
  have hc2 := later_wf hc1 hok.s2
  have hc3 := later_wf hc2 hok.s3
  cases hf : (syncMetaG σ.s σ.t.stored σ.c g).ps.full
  · by_cases hb : (syncMetaG σ.s σ.t.stored σ.c g).branch = 4
    · exact absurd hr (gc_branch4_reader_partial σ.s inv.src σ.t.stored σ.c g inv.cwf hc2 hok hb hf c5 h5 o)
    · exact ⟨rfl, gc_log_reader_partial σ.s inv.src σ.t.stored σ.c g hf hb c5 o hr⟩
  · exact absurd hr ((gc_full_reader_partial σ.s inv.src σ.t.stored σ.c g hc3 hf c5 h5).2.1 o)

/-- non-vacuity: `l3` of C06Loop (stored (1,200), memory cache with the collector having dropped the log's
    head): the schedule without a pass, the reader on the cache the writer opened: a log reader at 200 -/
example : ∃ o, openReader (openWriter (syncMetaG l3.s l3.t.stored l3.c (GcSched.none l3.c))).2
    (syncMetaG l3.s l3.t.stored l3.c (GcSched.none l3.c)).outSp.offset = .aof o := ⟨200, by decide⟩

/-- **NOT proved** (judged on the real code by the monitors of session C06d at every enumerated point):
    the full byte-level outcome under a schedule - in every state of the loop, with successive collector
    images at every call of the attempt (`g`, then `c4` at the writer, `c5` at the reader), whatever is
    handed over as log starts at the stored offset under an id the source serves, after a granted
    continuation, and a snapshot handed over in branch 4 is the cached one with its log still behind it -/
def gc_schedule_safe_stmt : Prop :=
  ∀ (w : World) (σ : Sys) (g : GcSched) (c5 : Cache), Loop w σ → g.ok σ.c →
    (c5 = (openWriter (syncMetaG σ.s σ.t.stored σ.c g)).2 ∨ Collected (openWriter (syncMetaG σ.s σ.t.stored σ.c g)).2 c5) →
    (∀ o, openReader c5 (syncMetaG σ.s σ.t.stored σ.c g).outSp.offset = .aof o →
      (syncMetaG σ.s σ.t.stored σ.c g).ps.full = false ∧ o = σ.t.stored.offset ∧
        (σ.t.stored.runId = σ.s.id1 ∨ σ.t.stored.runId = σ.s.id2)) ∧
    (∀ left size, openReader c5 (syncMetaG σ.s σ.t.stored σ.c g).outSp.offset = .rdb left size →
      c5.rdb = some (left, size) ∧ (c5.aof = none ∨ ∃ r, c5.aof = some (left, r) ∨ c5.backend = .memory))

/-! ### `output.SetRunId` failing as a whole (re-read against /repo bf252d5, C17's Model/BookRunIdSeq.lean)

  A call `SetRunId(B)` can fail after its first attempt repointed the checkpoint hash: on the target the
  position is then labelled `B` although the call returned an error (`pendingRunId` makes the next call finish
  that relabel first). For `syncMeta` the call is the last of its bookkeeping: the attempt ends at stage
  `.reset`, and the position the NEXT attempt reads is labelled either as before (`attempt … .reset`) or already
  with the new id (the target of `attempt … .metaDone`; cache and cache bytes are the same at both stages). -/

/-- both outcomes are states of `Loop`, they hold the same offset and the same truth: the partial relabel can
    change the LABEL the next attempt reads, nothing else - and `loop_safe` holds for either -/
theorem failed_setRunId_outcomes (resume : Bool) (w : World) (σ : Sys) (h : Loop w σ) :
    Loop w (attempt resume w σ .reset) ∧ Loop w (attempt resume w σ .metaDone) ∧
      (attempt resume w σ .metaDone).c = (attempt resume w σ .reset).c ∧
      (attempt resume w σ .metaDone).t.stored.offset = (attempt resume w σ .reset).t.stored.offset ∧
      (attempt resume w σ .metaDone).t.truth = (attempt resume w σ .reset).t.truth := by
  refine ⟨Loop.attempt σ resume .reset false h trivial, Loop.attempt σ resume .metaDone false h trivial, rfl, ?_, ?_⟩
  · simp only [attempt, Tgt.afterMeta, Tgt.afterReset]
    cases (syncMeta σ.s σ.t.stored σ.c).ps.full <;> cases resume <;> rfl
  · simp only [attempt, Tgt.afterMeta, Tgt.afterReset]
    cases (syncMeta σ.s σ.t.stored σ.c).ps.full <;> rfl

end GunYu.Props.C06
