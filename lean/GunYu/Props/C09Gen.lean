/-
  C09 — the REGENERATED definition of syncer/transaction.go `transactionStatus`
  (lean/GunYu/Gen/FnTxnStatus.lean, translated from /repo's Go source on every
  run, together with the `transactionCmdMap` literal) equals the hand-written
  model `Sender.txnStatus` the transaction theorems of C09 are about, for every
  command name and every previous status. `txnStatus` values are the Go
  constants (iota): no=0, barrier=1, begin=2, in=3, commit=4.
-/
import GunYu.Model.Sender
import GunYu.Props.C09
import GunYu.Gen.FnTxnStatus

namespace GunYu.Props.C09
open GunYu GunYu.Sender GunYu.Gen

/-- the Go constant of a model status -/
def txnCode : Txn → Int
  | .no => 0
  | .barrier => 1
  | .begin_ => 2
  | .in_ => 3
  | .commit => 4

theorem txnCode_injective (a b : Txn) (h : txnCode a = txnCode b) : a = b := by
  cases a <;> cases b <;> first | rfl | (simp [txnCode] at h)

/-- the regenerated map literal is the model's command classification -/
theorem gen_cmdMap_eq_model (cmd : Bytes) :
    GoSem.mapLookup Fn.transactionCmdMap cmd = (cmdClass cmd).map txnCode := by
  unfold Fn.transactionCmdMap cmdClass GoSem.mapLookup GoSem.mapLookup GoSem.mapLookup GoSem.mapLookup
  by_cases h1 : cmd = bSelect
  · subst h1; rfl
  · by_cases h2 : cmd = bMulti
    · subst h2; rfl
    · by_cases h3 : cmd = bExec
      · subst h3; rfl
      · have e1 : ¬ (([115, 101, 108, 101, 99, 116] : List UInt8) = cmd) := fun h => h1 h.symm
        have e2 : ¬ (([109, 117, 108, 116, 105] : List UInt8) = cmd) := fun h => h2 h.symm
        have e3 : ¬ (([101, 120, 101, 99] : List UInt8) = cmd) := fun h => h3 h.symm
        simp only [h1, h2, h3, e1, e2, e3, ↓reduceIte, Option.map_none]

/-- the regenerated `transactionStatus` is the model, for every command and status -/
theorem gen_transactionStatus_eq_model (cmd : Bytes) (prev : Txn) :
    Fn.transactionStatus cmd (txnCode prev) =
      some (txnCode (txnStatus cmd prev).1, (txnStatus cmd prev).2) := by
  unfold Fn.transactionStatus txnStatus
  simp only [gen_cmdMap_eq_model]
  cases prev <;> simp only [txnCode] <;> cases hc : cmdClass cmd with
  | none => simp [pure]
  | some r => cases r <;> simp [pure, txnCode]

/-- a status value that is none of the five constants (unreachable: the sender only
    stores results of this function) falls through the switch -/
theorem gen_transactionStatus_other (cmd : Bytes) (v : Int) (h : v < 0 ∨ 4 < v) :
    Fn.transactionStatus cmd v = some (0, true) := by
  unfold Fn.transactionStatus
  have h0 : ¬ (v = 0 ∨ v = 1 ∨ v = 4) := by omega
  have h1 : ¬ (v = 2 ∨ v = 3) := by omega
  simp [h0, h1, pure]


/-! ### the facts the transaction theorems of C09 use, directly about the regenerated function -/

/-- what the regenerated function returns determines the model's status: every
    theorem stated with a hypothesis `txnStatus cmd prev = (t, nf)` (the sender step:
    `stepItem_txn_eq`, hence `multi_opens`, `exec_flushes_one_block`,
    `no_flush_inside_txn`, `source_txn_is_one_block`) can be fed from the translation -/
theorem gen_transactionStatus_determines (cmd : Bytes) (prev t : Txn) (nf : Bool)
    (h : Fn.transactionStatus cmd (txnCode prev) = some (txnCode t, nf)) :
    txnStatus cmd prev = (t, nf) := by
  rw [gen_transactionStatus_eq_model] at h
  simp only [Option.some.injEq, Prod.mk.injEq] at h
  exact Prod.ext (txnCode_injective _ _ h.1) h.2

/-- the sender's item step follows the status the REGENERATED function computes -/
theorem gen_stepItem_txn_eq (c : SCfg) (hc : c.txnMode = true) (s : SState) (it : Item) (prev : Int)
    (t : Txn) (nf : Bool) (hst : Fn.transactionStatus it.cmd (txnCode s.txn) = some (txnCode t, nf)) :
    stepItem c s it prev = stepItemTxn c { s with txn := t, needFlush := nf } t nf it prev :=
  stepItem_txn_eq c hc s it prev t nf (gen_transactionStatus_determines _ _ _ _ hst)

/-- MULTI outside a transaction opens one and forces a flush -/
theorem gen_multi_opens (prev : Txn) (h : prev = .no ∨ prev = .barrier ∨ prev = .commit) :
    Fn.transactionStatus bMulti (txnCode prev) = some (2, true) := by
  rcases h with h | h | h <;> subst h <;> decide +kernel

/-- EXEC inside a transaction commits it and forces a flush -/
theorem gen_exec_commits (prev : Txn) (h : prev = .begin_ ∨ prev = .in_) :
    Fn.transactionStatus bExec (txnCode prev) = some (4, true) := by
  rcases h with h | h <;> subst h <;> decide +kernel

/-- inside a transaction nothing but EXEC forces a flush or leaves the transaction -/
theorem gen_inside_txn_no_flush (cmd : Bytes) (hne : cmd ≠ bExec) (prev : Txn) (h : prev = .begin_ ∨ prev = .in_) :
    Fn.transactionStatus cmd (txnCode prev) = some (3, false) := by
  rw [gen_transactionStatus_eq_model]
  have : cmdClass cmd ≠ some .commit := by
    unfold cmdClass
    split
    · simp
    · split
      · simp
      · simp [hne]
  rcases h with h | h <;> subst h <;> simp [txnStatus, this, txnCode]

/-- EXEC outside a transaction (a stray EXEC) is a commit status with a forced flush -/
theorem gen_exec_outside (prev : Txn) (h : prev = .no ∨ prev = .barrier ∨ prev = .commit) :
    Fn.transactionStatus bExec (txnCode prev) = some (4, true) := by
  rcases h with h | h | h <;> subst h <;> decide +kernel

/-! non-vacuity -/
example : Fn.transactionStatus [115, 101, 116] (txnCode .in_) = some (3, false) := by decide +kernel     -- "set" inside
example : Fn.transactionStatus [115, 101, 116] (txnCode .commit) = some (0, false) := by decide +kernel  -- "set" outside
example : Fn.transactionStatus bSelect (txnCode .no) = some (1, true) := by decide +kernel

end GunYu.Props.C09
