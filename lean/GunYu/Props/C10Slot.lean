/-
  C10 / C11 — `RedisKeyFilter.FilterSlot` (pkg/filter/filter.go) TRANSLATED from /repo's Go source on every run
  (Gen/FnTrie.lean, harness/extract/gofn_c10.go; its calls of `RangeList.IsSlotInList` are calls of gofn's translation
  Gen/FnRangeList.lean, which calls the translated `redis.KeyToSlot`) equals the model's slot rule for EVERY key - the
  empty key included (HASH_SLOT "" = 0): black listed, or a white list is configured and does not contain the key's
  HASH_SLOT. A key that the code places "in no slot" (seeded C11-r8-m1: `if len(key) == 0 { return false }`) breaks
  this proof.
-/
import GunYu.Props.C10Gen
import GunYu.Props.C10Trie

namespace GunYu.Props.C10
open GunYu GunYu.Filter GunYu.Gen

/-- a generated `*RangeList` field denotes a model range list (nil = not configured); the lists the Insert* methods
    build hold no nil entry (`concRL`) -/
inductive SRep : Option Fn.RangeList → Option Filter.RangeList → Prop
  | none : SRep none none
  | some (xs : List Fn.Range) (mn mx : BitVec 16) (h : xs.length < 9223372036854775807) :
      SRep (some (concRL xs mn mx)) (some (absRL xs mn mx))

set_option linter.unusedSimpArgs false

/-- the translated `FilterSlot` is the model's slot rule on the key's HASH_SLOT, for every key -/
theorem gen_filterSlot_eq_model {f : Fn.RedisKeyFilter} {m : KeyFilter}
    (hb : SRep f.slotKeyBlackList m.slotBlack) (hw : SRep f.slotKeyWhiteList m.slotWhite) (key : Bytes)
    (hk : key.length < 9223372036854775807) :
    Fn.filterSlot f key = some (m.filterSlot key) := by
  unfold Fn.filterSlot KeyFilter.filterSlot
  revert hb hw
  generalize f.slotKeyBlackList = ob, m.slotBlack = ob', f.slotKeyWhiteList = ow, m.slotWhite = ow'
  intro hb hw
  cases hb with
  | none =>
    cases hw with
    | none => filter_tail
    | some xs mn mx h =>
      simp only [Option.isNone_some, Option.isNone_none, Bool.not_false, Bool.not_true, Bool.false_eq_true, ↓reduceIte,
        bind, Option.bind_some, pure, gen_isSlotInList_eq_model xs mn mx key hk h]
      cases (absRL xs mn mx).contains (Slot.keyToSlot key) <;> filter_tail
  | some ys mn' mx' h' =>
    cases hw with
    | none =>
      simp only [Option.isNone_some, Option.isNone_none, Bool.not_false, Bool.not_true, Bool.false_eq_true, ↓reduceIte,
        bind, Option.bind_some, pure, gen_isSlotInList_eq_model ys mn' mx' key hk h']
      cases (absRL ys mn' mx').contains (Slot.keyToSlot key) <;> filter_tail
    | some xs mn mx h =>
      simp only [Option.isNone_some, Option.isNone_none, Bool.not_false, Bool.not_true, Bool.false_eq_true, ↓reduceIte,
        bind, Option.bind_some, pure, gen_isSlotInList_eq_model ys mn' mx' key hk h',
        gen_isSlotInList_eq_model xs mn mx key hk h]
      cases (absRL ys mn' mx').contains (Slot.keyToSlot key) <;>
        cases (absRL xs mn mx).contains (Slot.keyToSlot key) <;> filter_tail

/-- the empty key is in slot 0 -/
theorem keyToSlot_empty : Slot.keyToSlot [] = 0 := by decide +kernel

/-- non-vacuity, the mutation's case: a black list holding slot 0 rejects the empty key; a white list without slot 0
    rejects it; a white list with slot 0 accepts it - on the TRANSLATED code -/
def r00 : Fn.Range := { Left := 0#16, Right := 0#16 }
def r1e : Fn.Range := { Left := 1#16, Right := 16383#16 }
def fEmpty : Fn.RedisKeyFilter :=
  { cmdWhiteTrie := none, cmdBlackTrie := none, prefixKeyWhiteTrie := none, prefixKeyBlackTrie := none,
    slotKeyWhiteList := none, slotKeyBlackList := none }
example : Fn.filterSlot { fEmpty with slotKeyBlackList := some (concRL [r00] 0#16 0#16) } [] = some true := by decide +kernel
example : Fn.filterSlot { fEmpty with slotKeyWhiteList := some (concRL [r1e] 0#16 16383#16) } [] = some true := by decide +kernel
example : Fn.filterSlot { fEmpty with slotKeyWhiteList := some (concRL [r00] 0#16 0#16) } [] = some false := by decide +kernel
example : Fn.filterSlot fEmpty [] = some false := by decide +kernel

end GunYu.Props.C10
