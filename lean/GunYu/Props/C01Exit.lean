/-
  C01/C02 -- EVERY WAY THE SENDER LOOP RETURNS.

  `Props/C01.lean` and `Props/C02*.lean` speak about `run`, which stops after the
  `case <-replayWait.Done()` iteration (`Ev.done`): in ticker mode that iteration
  flushes everything (`done_flushes_all`). The Go loop also returns when
  `replayWait` is found closed after ANY OTHER iteration -- an item that was still
  in `sendBuf`, a ticker that was due, or any iteration during which `replayWait`
  got closed -- and then WITHOUT the final flush (`Model/SenderExit.lean`,
  `Leave`, `runLeave`). This file shows that nothing is lost by that:

  1. `runLeave_eq_run`        a run that leaves by `l` after the iterations `evs` is
                              `run` on the schedule `evs ++ lastEv l`; hence every
                              for-all-schedules theorem about `run` holds for every
                              way of leaving (`leave_forwarded_exact`,
                              `leave_wire_prefix`, `leave_wire_ordered`,
                              `leave_executed_in_order`);
  2. `leave_unsent_not_covered`  whatever the loop holds unsent when it returns
                              lies STRICTLY above every position the run stored
                              (`…_parser`, `…_resumed_parser`: for the real parser's
                              items), and above the position the next start READS
                              on the target (`leave_unsent_above_startPoint`);
  3. `leave_then_resume`      `Props.C02.crash_then_resume` at the end of a run that
                              left in ANY way, having received ANY prefix of the
                              parser's items: the target holds `S1 ++ X`, the resumed
                              run executes a prefix of `S2` and, once done in ticker
                              mode, all of it, where `S1 ++ S2` is the specification
                              of the whole stream: the unsent items are re-sent;
  4. `doneCase_flushes_all`   the `Done` case in ticker mode leaves nothing unsent;
                              an `otherCase` leave that does (example at the end).
-/
import GunYu.Model.SenderExit
import GunYu.Props.C01
import GunYu.Props.C02
import GunYu.Props.C02TwoRuns
import GunYu.Props.C02Lives
import GunYu.Props.C02Start
import GunYu.Proofs.MaxOffset

namespace GunYu.Props.C01
open GunYu GunYu.Sender GunYu.Target

/-! ### 1. Leaving is a schedule of `run` -/

/-- **Every way of leaving is a schedule of `run`**: the iterations `evs` (none of
    them the `Done` case) followed by the way the loop leaves are exactly `run` on
    `evs ++ lastEv l`. (For `otherCase ev` no side condition is needed: an
    `otherCase .done` is the `Done` case.) -/
theorem runLeave_eq_run (c : SCfg) (s : SState) (evs : List Ev) (l : Leave) (hnd : NoDone evs) :
    runLeave c s evs l = run c s (evs ++ lastEv l) := by
  induction evs generalizing s with
  | nil =>
    cases l with
    | doneCase => simp [runLeave, leaveStep, lastEv, run]
    | otherCase ev =>
      simp only [runLeave, leaveStep, lastEv, List.nil_append]
      exact (C09.run_single c s ev).symm
    | atOnce => rfl
  | cons ev rest ih =>
    have hne : ev ≠ .done := hnd ev (List.mem_cons_self ..)
    have hrest : NoDone rest := fun e he => hnd e (List.mem_cons_of_mem _ he)
    simp only [runLeave, List.cons_append, run, hne, ↓reduceIte]
    rw [ih _ hrest]

/-- `runLeave` is: `run` over the iterations, then the last iteration -/
theorem runLeave_split (c : SCfg) (s : SState) (evs : List Ev) (l : Leave) (hnd : NoDone evs) :
    runLeave c s evs l =
      ((leaveStep c (run c s evs).1 l).1, (run c s evs).2 ++ (leaveStep c (run c s evs).1 l).2) := by
  induction evs generalizing s with
  | nil => simp [runLeave, run]
  | cons ev rest ih =>
    have hne : ev ≠ .done := hnd ev (List.mem_cons_self ..)
    have hrest : NoDone rest := fun e he => hnd e (List.mem_cons_of_mem _ he)
    simp only [runLeave, run, hne, ↓reduceIte]
    rw [ih _ hrest]
    simp [List.append_assoc]

/-- the commands still queued are the data commands among the unsent items -/
theorem qd_eq_unsent (r : SState × List Batch) : qd r.1 = (unsent r).filterMap itemCmd := rfl

/-- **Nothing dropped, duplicated, reordered, altered or invented, however the
    loop leaves**: the data commands on the wire followed by those left unsent
    are exactly the forwarded stream of the iterations performed. -/
theorem leave_forwarded_exact (c : SCfg) (evs : List Ev) (l : Leave) (hnd : NoDone evs) :
    dataOut (runLeave c initS evs l).2 ++ qd (runLeave c initS evs l).1 = fwd .no (evs ++ lastEv l) := by
  rw [runLeave_eq_run c initS evs l hnd]; exact forwarded_exact c _

/-- what is on the wire when the loop returns is a prefix of the forwarded stream -/
theorem leave_wire_prefix (c : SCfg) (evs : List Ev) (l : Leave) (hnd : NoDone evs) :
    dataOut (runLeave c initS evs l).2 <+: fwd .no (evs ++ lastEv l) :=
  ⟨_, leave_forwarded_exact c evs l hnd⟩

/-- the wire of a run that leaves in any way is ordered (`Props.C02.wire_ordered`):
    commands and position writes in offset order -/
theorem leave_wire_ordered (c : SCfg) (evs : List Ev) (l : Leave) (hnd : NoDone evs)
    (hm : C02.SMono initS.txn initS.lastOffset (evs ++ lastEv l)) :
    (keys (runLeave c initS evs l).2).Pairwise (· ≤ ·) := by
  rw [runLeave_eq_run c initS evs l hnd]; exact C02.wire_ordered c _ hm

/-- the target has executed the wire in order, each command in the database chosen
    by the latest forwarded `select`, and no MULTI is left open -- whatever the way
    of leaving -/
theorem leave_executed_in_order (c : SCfg) (evs : List Ev) (l : Leave) (hnd : NoDone evs)
    (t : TState) (hq : t.queued = none) :
    (applyLog t (runLeave c initS evs l).2.flatten).queued = none ∧
    (applyLog t (runLeave c initS evs l).2.flatten).applied =
      t.applied ++ (seqApplied t.cur (dataOut (runLeave c initS evs l).2)).2 := by
  rw [runLeave_eq_run c initS evs l hnd]; exact executed_in_order c _ t hq

/-! ### 2. What is left unsent is not covered by any stored position -/

/-- **Leaving without the final flush loses nothing.** For every configuration,
    every schedule with increasing offsets and EVERY way of leaving: every item the
    loop received, kept and did not send lies strictly above every position
    `<rid>_offset o` this run put on the wire. A restart, which re-reads the source
    from the stored position, therefore reads every unsent item again. -/
theorem leave_unsent_not_covered (c : SCfg) (evs : List Ev) (l : Leave) (hnd : NoDone evs)
    (hm : C02.SMono initS.txn initS.lastOffset (evs ++ lastEv l)) :
    ∀ o ∈ cpOffsets (runLeave c initS evs l).2, ∀ i ∈ unsent (runLeave c initS evs l), o < i.offset := by
  rw [runLeave_eq_run c initS evs l hnd]
  exact C02.pending_not_covered c _ hm

/-- the same with the hypothesis discharged for the REAL PARSER: any filter /
    mapping configuration, any source stream whose commands end at increasing
    offsets above the start offset, the iterations' items being what the parser
    emitted for it -/
theorem leave_unsent_not_covered_parser (pc : PCfg) (c : SCfg) (raws : List Raw) (start : Int)
    (evs : List Ev) (l : Leave) (hnd : NoDone evs)
    (hitems : itemsOf (evs ++ lastEv l) = parseAll pc { lastSent := start } raws)
    (hraw : (raws.map (·.off)).Pairwise (· < ·)) (hlo : ∀ r ∈ raws, start < r.off)
    (hstart : 0 ≤ start) :
    ∀ o ∈ cpOffsets (runLeave c initS evs l).2, ∀ i ∈ unsent (runLeave c initS evs l), o < i.offset :=
  leave_unsent_not_covered c evs l hnd
    (C02.parser_feeds_smono pc raws start (evs ++ lastEv l) hitems hraw hlo hstart)

/-- ... and for a RESUMED run (`parserItems`: the initial `select <startDbId>`
    carrying the start offset, then the parser's output) -/
theorem leave_unsent_not_covered_resumed_parser (pc : PCfg) (c : SCfg) (raws : List Raw) (start : Int)
    (evs : List Ev) (l : Leave) (hnd : NoDone evs)
    (hitems : itemsOf (evs ++ lastEv l) = parserItems pc start raws)
    (hraw : (raws.map (·.off)).Pairwise (· < ·)) (hlo : ∀ r ∈ raws, start < r.off)
    (hstart : 0 ≤ start) :
    ∀ o ∈ cpOffsets (runLeave c initS evs l).2, ∀ i ∈ unsent (runLeave c initS evs l), o < i.offset :=
  leave_unsent_not_covered c evs l hnd
    (C02.resumed_parser_feeds_smono pc raws start (evs ++ lastEv l) hitems hraw hlo hstart)

/-! the same against the TARGET: the position the next start reads -/

/-- executing complete well-formed batches = executing their bodies in order -/
theorem applyLog_bodies (out : List Batch) (hwf : AllWF out) (t : TState) (hq : t.queued = none) :
    applyLog t out.flatten = (bodies out).foldl execReq t := by
  induction out generalizing t with
  | nil => rfl
  | cons b rest ih =>
    obtain ⟨body, hp, hstrip, hshape⟩ := stripB_wf b (hwf b (List.mem_cons_self ..))
    have hrest : AllWF rest := fun x hx => hwf x (List.mem_cons_of_mem _ hx)
    have hb : applyLog t b = body.foldl execReq t := by
      rcases hshape with h | h
      · rw [h]; exact applyLog_plain body hp t hq
      · rw [h]; exact applyLog_block body hp t hq
    have hq1 : (body.foldl execReq t).queued = none := by rw [foldl_execReq_queued, hq]
    have hbod : bodies (b :: rest) = body ++ bodies rest := by simp [bodies, hstrip]
    rw [List.flatten_cons, applyLog_append, hb, hbod, List.foldl_append]
    exact ih hrest _ hq1

theorem cp_key_mem {out : List Batch} {o : Int} (ho : o ∈ cpOffsets out) : 2 * o + 1 ∈ keys out := by
  unfold cpOffsets at ho
  unfold keys
  obtain ⟨b, hb, hob⟩ := List.mem_flatMap.mp ho
  refine List.mem_flatMap.mpr ⟨b, hb, ?_⟩
  unfold cpOffsetsB at hob
  unfold keysB
  obtain ⟨r, hr, hro⟩ := List.mem_filterMap.mp hob
  refine List.mem_filterMap.mpr ⟨r, hr, ?_⟩
  cases r <;> simp_all [cpOfReq, keyOfReq]

/-- **The position the next start reads does not cover what was left unsent.** Let
    a target that holds no position (a new connection, no open MULTI) execute
    everything a run put on the wire before it left -- in ANY way. The offset
    `Target.startPoint` (= `GetCheckpoint`: the largest stored offset, −1 if none)
    then returns is strictly below every unsent item. -/
theorem leave_unsent_above_startPoint (c : SCfg) (evs : List Ev) (l : Leave) (hnd : NoDone evs)
    (hm : C02.SMono initS.txn initS.lastOffset (evs ++ lastEv l))
    (t : TState) (hfresh : t.cps = []) (hq : t.queued = none) :
    ∀ i ∈ unsent (runLeave c initS evs l),
      (startPoint (applyLog t (runLeave c initS evs l).2.flatten)).1 < i.offset := by
  rw [runLeave_eq_run c initS evs l hnd]
  generalize evs ++ lastEv l = sched at hm ⊢
  intro i hi
  have hwf := run_wf c initS sched
  obtain ⟨hqok, hw, hlow⟩ := C02.run_ok c initS sched (qok_nil _) hm
  have hcover := C02.pending_not_covered c sched hm
  -- an unsent item ends at a real offset
  have hpos : -1 < i.offset := by
    unfold unsent at hi
    cases hqq : (run c initS sched).1.queue with
    | nil => rw [hqq] at hi; cases hi
    | cons j q =>
      rw [hqq] at hi hlow hqok
      simp only [lowkey, initS] at hlow
      rcases List.mem_cons.mp hi with rfl | hiq
      · omega
      · have hs := hqok.1
        simp only [List.map_cons, List.pairwise_cons] at hs
        have := hs.1 _ (List.mem_map.mpr ⟨i, hiq, rfl⟩)
        omega
  -- every position on the wire is ≥ −1: the table keeps one record per database
  have hge : ∀ o ∈ cpReqs (run c initS sched).2.flatten, -1 ≤ o := by
    intro o ho
    rw [cpReqs_flatten] at ho
    have := (hw.2 _ (cp_key_mem ho)).1
    simp only [lowkey, initS] at this
    omega
  have hkeep := applyLog_keeps (run c initS sched).2.flatten t (-1)
    (by rw [hfresh]; exact List.Pairwise.nil) (by rw [hfresh]; decide)
    (by intro q hq'; rw [hq] at hq'; cases hq') hge
  -- what is stored was written by this run
  have hstored : ∀ p ∈ (applyLog t (run c initS sched).2.flatten).cps, ∀ o, p.2.offset = some o →
      o ∈ cpOffsets (run c initS sched).2 := by
    intro p hp o hpo
    have hg : (getCp (applyLog t (run c initS sched).2.flatten).cps p.1).offset = some o := by
      unfold getCp; rw [lookup_of_mem_nodup _ hkeep.1 p hp]; exact hpo
    rw [applyLog_bodies _ hwf t hq] at hg
    rcases C02.stored_comes_from _ t p.1 o hg with h | h
    · rw [hfresh] at h; simp [getCp] at h
    · rw [cpOffsetsB_bodies _ hwf] at h; exact h
  have hmax : maxOffset (applyLog t (run c initS sched).2.flatten).cps < i.offset := by
    have h2 : ¬ (i.offset ≤ maxOffset (applyLog t (run c initS sched).2.flatten).cps) := by
      intro h
      rcases (le_maxOffset_iff _ _).mp h with h | ⟨p, hp, o, hpo, hle⟩
      · omega
      · have := hcover o (hstored p hp o hpo) i hi
        omega
    omega
  unfold startPoint
  simp only
  split
  · exact hpos
  · exact hmax

/-! the same on a target that ALREADY HOLDS records (a resumed life) -/

theorem fwdItemsO_mem_offset (t : Txn) (items : List Item) :
    ∀ x ∈ fwdItemsO t items, ∃ i ∈ items, i.offset = x.2.2 := by
  induction items generalizing t with
  | nil => intro x hx; cases hx
  | cons it rest ih =>
    intro x hx
    simp only [fwdItemsO] at hx
    rcases List.mem_append.mp hx with h | h
    · refine ⟨it, List.mem_cons_self .., ?_⟩
      simp only [fwd1O] at h
      split at h
      · cases h
      · split at h
        · simp only [List.mem_singleton] at h; rw [h]
        · cases h
    · obtain ⟨i, hi, he⟩ := ih _ x h
      exact ⟨i, List.mem_cons_of_mem _ hi, he⟩

/-- what is left in the queue carries the offset of an item the loop received -/
theorem unsent_offset_received (c : SCfg) (sched : List Ev)
    (hm : C02.SMono initS.txn initS.lastOffset sched) :
    ∀ i ∈ (run c initS sched).1.queue, ∃ j ∈ itemsOf sched, j.offset = i.offset := by
  intro i hi
  have hnp : i.cmd ≠ bPing := (C02.run_ok c initS sched (qok_nil _) hm).1.2.2 i hi
  have hx : (i.cmd, i.args, i.offset) ∈ qdO (run c initS sched).1 := by
    unfold qdO
    exact List.mem_filterMap.mpr ⟨i, hi, by simp [itemCmdO, hnp]⟩
  have hcons := run_dataO c initS (cut sched)
  rw [← run_cut, fwdO_cut_items] at hcons
  have hq0 : qdO initS = [] := rfl
  rw [hq0, List.nil_append] at hcons
  have hx' : (i.cmd, i.args, i.offset) ∈ fwdItemsO initS.txn (itemsOf (cut sched)) := by
    rw [← hcons]; exact List.mem_append_right _ hx
  obtain ⟨j, hj, he⟩ := fwdItemsO_mem_offset _ _ _ hx'
  exact ⟨j, (itemsOf_cut_prefix sched).subset hj, he⟩

/-- **... also for a RESUMED life.** The target holds the records of earlier lives, none above
    `start` (what `StartPoint` read: `Props.C02.StartsAt`, the unique largest offset); the run
    receives items at or above `start` (the resumed parser's: `parserItems_ge`) and leaves in ANY
    way. The offset the next start reads is then at most the offset of every unsent item, and
    strictly below every unsent item that ends above `start` -- i.e. every one but the initial
    `select <startDbId>`, which carries `start` itself (re-created by the next resumed run). -/
theorem leave_unsent_above_startPoint_resumed (c : SCfg) (evs : List Ev) (l : Leave) (hnd : NoDone evs)
    (hm : C02.SMono initS.txn initS.lastOffset (evs ++ lastEv l))
    (start : Int)
    (hge : ∀ j ∈ itemsOf (evs ++ lastEv l), start ≤ j.offset)
    (t : TState) (hn : KeysNodup t.cps) (hq : t.queued = none) (hle : maxOffset t.cps ≤ start) :
    ∀ i ∈ unsent (runLeave c initS evs l),
      (startPoint (applyLog t (runLeave c initS evs l).2.flatten)).1 ≤ i.offset ∧
      (start < i.offset →
        (startPoint (applyLog t (runLeave c initS evs l).2.flatten)).1 < i.offset) := by
  rw [runLeave_eq_run c initS evs l hnd]
  generalize evs ++ lastEv l = sched at hm hge ⊢
  intro i hi
  have hwf := run_wf c initS sched
  obtain ⟨_, hw, _⟩ := C02.run_ok c initS sched (qok_nil _) hm
  have hcover := C02.pending_not_covered c sched hm
  obtain ⟨j, hj, hje⟩ := unsent_offset_received c sched hm i hi
  have histart : start ≤ i.offset := by rw [← hje]; exact hge j hj
  have hge1 : ∀ o ∈ cpReqs (run c initS sched).2.flatten, -1 ≤ o := by
    intro o ho
    rw [cpReqs_flatten] at ho
    have := (hw.2 _ (cp_key_mem ho)).1
    simp only [lowkey, initS] at this
    omega
  have hm1 : -1 ≤ maxOffset t.cps := (le_maxOffset_iff t.cps (-1)).mpr (Or.inl (Int.le_refl _))
  have hkeep := applyLog_keeps (run c initS sched).2.flatten t (-1) hn hm1
    (by intro q hq'; rw [hq] at hq'; cases hq') hge1
  -- what is stored was there before (≤ start) or was written by this run (< the unsent item)
  have hstored : ∀ p ∈ (applyLog t (run c initS sched).2.flatten).cps, ∀ o, p.2.offset = some o →
      o ≤ start ∨ o ∈ cpOffsets (run c initS sched).2 := by
    intro p hp o hpo
    have hg : (getCp (applyLog t (run c initS sched).2.flatten).cps p.1).offset = some o := by
      unfold getCp; rw [lookup_of_mem_nodup _ hkeep.1 p hp]; exact hpo
    rw [applyLog_bodies _ hwf t hq] at hg
    rcases C02.stored_comes_from _ t p.1 o hg with h | h
    · left
      obtain ⟨r, hr, hgr⟩ := C02.mem_of_getCp_offset t.cps p.1 o h
      have : o ≤ maxOffset t.cps :=
        (le_maxOffset_iff t.cps o).mpr (Or.inr ⟨(p.1, r), hr, o, by rw [← hgr]; exact h, Int.le_refl _⟩)
      omega
    · right; rw [cpOffsetsB_bodies _ hwf] at h; exact h
  have bound : ∀ b : Int, start ≤ b → (∀ o ∈ cpOffsets (run c initS sched).2, o ≤ b) →
      maxOffset (applyLog t (run c initS sched).2.flatten).cps ≤ b := by
    intro b hb hcp
    have h2 : ¬ (b + 1 ≤ maxOffset (applyLog t (run c initS sched).2.flatten).cps) := by
      intro h
      rcases (le_maxOffset_iff _ _).mp h with h | ⟨p, hp, o, hpo, hle'⟩
      · omega
      · rcases hstored p hp o hpo with h1 | h1
        · omega
        · have := hcp o h1; omega
    omega
  have hsp : ∀ b : Int, -1 ≤ b → maxOffset (applyLog t (run c initS sched).2.flatten).cps ≤ b →
      (startPoint (applyLog t (run c initS sched).2.flatten)).1 ≤ b := by
    intro b hb h
    unfold startPoint
    simp only
    split
    · exact hb
    · exact h
  constructor
  · exact hsp _ (by omega) (bound _ histart (fun o ho => by have := hcover o ho i hi; omega))
  · intro hlt
    have := hsp (i.offset - 1) (by omega)
      (bound _ (by omega) (fun o ho => by have := hcover o ho i hi; omega))
    omega

/-! ### 3. ... so the resumed run sends it -/

/-- the last iteration as an event of a schedule WITHOUT `done`: the `Done` case
    does to the loop what a checkpoint tick does (`Props.C02.done_is_cpTick`) -/
def tickEv : Leave → List Ev
  | .doneCase => [.cpTick]
  | .otherCase ev => if ev = .done then [.cpTick] else [ev]
  | .atOnce => []

theorem noDone_tickEv (evs : List Ev) (l : Leave) (hnd : NoDone evs) : NoDone (evs ++ tickEv l) := by
  intro e he
  rcases List.mem_append.mp he with h | h
  · exact hnd e h
  · cases l with
    | doneCase => simp only [tickEv, List.mem_singleton] at h; subst h; exact Ev.noConfusion
    | otherCase ev =>
      simp only [tickEv] at h
      split at h
      · simp only [List.mem_singleton] at h; subst h; exact Ev.noConfusion
      · rename_i hne; simp only [List.mem_singleton] at h; subst h; exact hne
    | atOnce => cases h

theorem itemsOf_append (a b : List Ev) : itemsOf (a ++ b) = itemsOf a ++ itemsOf b := by
  induction a with
  | nil => rfl
  | cons ev rest ih => cases ev <;> simp [itemsOf, ih]

theorem itemsOf_map_item (is : List Item) : itemsOf (is.map Ev.item) = is := by
  induction is with
  | nil => rfl
  | cons i rest ih => simp [itemsOf, ih]

theorem itemsOf_tickEv (l : Leave) : itemsOf (tickEv l) = itemsOf (lastEv l) := by
  cases l with
  | doneCase => rfl
  | otherCase ev =>
    simp only [tickEv, lastEv]
    split
    · rename_i h; subst h; rfl
    · rfl
  | atOnce => rfl

theorem smono_prefix (t : Txn) (last : Int) (a b : List Ev) (h : C02.SMono t last (a ++ b)) :
    C02.SMono t last a := by
  induction a generalizing t last with
  | nil => trivial
  | cons ev rest ih =>
    cases ev with
    | item it => exact ⟨h.1, h.2.1, ih _ _ h.2.2⟩
    | batchTick => exact ih _ _ h
    | keepaliveTick => exact ih _ _ h
    | cpTick => exact ih _ _ h
    | done => exact ih _ _ h

/-- a run that leaves in any way = `run` on a schedule without `done` -/
theorem runLeave_eq_run_tick (c : SCfg) (evs : List Ev) (l : Leave) (hnd : NoDone evs) :
    runLeave c initS evs l = run c initS (evs ++ tickEv l) := by
  rw [runLeave_eq_run c initS evs l hnd]
  cases l with
  | doneCase => exact C02.run_done_as_cpTick c evs [] hnd
  | otherCase ev =>
    simp only [tickEv, lastEv]
    split
    · rename_i h; subst h; exact C02.run_done_as_cpTick c evs [] hnd
    · rfl
  | atOnce => rfl

/-- **However the loop leaves, the restart completes the stream.**
    `Props.C02.crash_then_resume` at the END of a run that left in ANY of the ways
    of `Leave` (not only by the `Done` case with its final flush).

    RUN 1: any filter/mapping configuration `pc`, any batching configuration `sc1`
    (either mode), any source stream `raws` above the start offset. The loop
    performs the iterations `evs` and leaves by `l`, having received only a PREFIX
    of the parser's items (`rest`: what the parser had emitted but the loop had not
    taken from `sendBuf`, and what the parser would still emit). The target (no
    position stored yet, new connection) has executed everything the run put on
    the wire; its last position write is `<rid>_offset o`
    (`bodies wire = E1 ++ [o] ++ E2`). With `A`/`B` the source commands ending at
    or before / after `o`, `S1` = what the parser's items for `A` execute, `S2` =
    what a FRESH parser started at `(o, startDbId)` on `B` executes:

     1. `(startDbId, o)` is the unique largest stored offset (what `StartPoint` finds);
     2. `S1 ++ S2` is the one-pass specification `specStream` of the WHOLE stream;
     3. the target holds `S1 ++ X`, `X` a prefix of `S2`: everything up to the
        stored position is there -- whatever was left unsent (or never received) is
        above `o` (`leave_unsent_not_covered`), i.e. part of `S2`;

    RUN 2, any `sc2`, any schedule `evs2` of the resumed parser's items:

     4. at any moment it has executed a prefix of `S2`, and
     5. in ticker mode, once it leaves by the `Done` case, exactly `S2`: the target
        then holds `S1 ++ X ++ S2` -- the whole specification, only `X` twice.

    The hypotheses are those of `crash_then_resume` (source stream and
    configuration), plus `t.queued = none` (no MULTI open on the new connection). -/
theorem leave_then_resume (pc : PCfg) (sc1 : SCfg) (raws : List Raw) (start0 : Int)
    (evs : List Ev) (l : Leave) (rest : List Item) (hnd : NoDone evs)
    (hitems : itemsOf (evs ++ lastEv l) ++ rest = parseAll pc { lastSent := start0 } raws)
    (hraw : (raws.map (·.off)).Pairwise (· < ·)) (hlo : ∀ r ∈ raws, start0 < r.off)
    (hstart : 0 ≤ start0)
    (hnn : ItemsNoNested false (parseAll pc { lastSent := start0 } raws))
    (hnf : parseFails pc { lastSent := start0 } raws = false)
    (hsel : ∀ x ∈ raws, x.cmd = bSelect → ∀ a n, x.args = [a] → atoi? a = some n → 0 ≤ n)
    (hmap : ∀ n : Int, 0 ≤ n → mapDb pc n ≠ -1)
    (t : TState) (hcur : t.cur = 0) (hfresh : t.cps = []) (hq : t.queued = none)
    (E1 E2 : List Req) (o : Int)
    (hsplit : bodies (runLeave sc1 initS evs l).2 = E1 ++ Req.cpOffset o :: E2)
    (hlast : cpOffsetsB E2 = [])
    (hd : pc.startDbId = (E1.foldl execReq t).cur) (hd0 : 0 ≤ pc.startDbId) :
    let T1 := applyLog t (runLeave sc1 initS evs l).2.flatten
    let A := raws.filter (fun r => decide (r.off ≤ o))
    let B := raws.filter (fun r => decide (o < r.off))
    let S1 := (seqApplied 0 (itemCmds (parseAll pc { lastSent := start0 } A))).2
    let S2 := (seqApplied 0 (itemCmds (parserItems pc o B))).2
    UniqueMax T1.cps pc.startDbId o ∧
    specStream pc false 0 raws = S1 ++ S2 ∧
    (∃ X, T1.applied = t.applied ++ S1 ++ X ∧ X <+: S2 ∧
      X = (seqApplied pc.startDbId (dataB E2)).2) ∧
    (∀ i ∈ unsent (runLeave sc1 initS evs l), o < i.offset) ∧
    (∀ (sc2 : SCfg) (evs2 : List Ev), itemsOf evs2 = parserItems pc o B → NoDone evs2 →
      ItemsNoNested false (parseAll pc { lastSent := o } B) →
      (∃ more, T1.applied ++ S2 = (applyLog (crash T1) (run sc2 initS evs2).2.flatten).applied ++ more) ∧
      (sc2.txnMode = false →
        (applyLog (crash T1) (runLeave sc2 initS evs2 .doneCase).2.flatten).applied = T1.applied ++ S2)) := by
  -- the whole schedule of run 1, had it gone on: what it did, then the remaining items
  have hnd1 : NoDone (evs ++ tickEv l) := noDone_tickEv evs l hnd
  have hndm : NoDone (rest.map Ev.item) := by
    intro e he
    obtain ⟨i, _, rfl⟩ := List.mem_map.mp he
    exact Ev.noConfusion
  have hndall : NoDone ((evs ++ tickEv l) ++ rest.map Ev.item) := by
    intro e he
    rcases List.mem_append.mp he with h | h
    · exact hnd1 e h
    · exact hndm e h
  have hitems1 : itemsOf ((evs ++ tickEv l) ++ rest.map Ev.item) = parseAll pc { lastSent := start0 } raws := by
    rw [itemsOf_append, itemsOf_append, itemsOf_tickEv, ← itemsOf_append, itemsOf_map_item, hitems]
  have hrun := runLeave_eq_run_tick sc1 evs l hnd
  have happ := C09.run_append sc1 initS (evs ++ tickEv l) (rest.map Ev.item) hnd1
  rw [← hrun] at happ
  have hwf : AllWF (runLeave sc1 initS evs l).2 := by rw [hrun]; exact run_wf sc1 initS _
  -- the crash point: all requests of the run that left
  have htake : (run sc1 initS ((evs ++ tickEv l) ++ rest.map Ev.item)).2.flatten.take
      (runLeave sc1 initS evs l).2.flatten.length = (runLeave sc1 initS evs l).2.flatten := by
    rw [happ]
    simp only [List.flatten_append]
    rw [List.take_append_of_le_length (Nat.le_refl _), List.take_length]
  have hE : bodies (runLeave sc1 initS evs l).2 <+:
      bodies (run sc1 initS ((evs ++ tickEv l) ++ rest.map Ev.item)).2 := by
    rw [happ]
    simp only [bodies_append]
    exact List.prefix_append _ _
  have hsame : SameData
      (applyLog t ((run sc1 initS ((evs ++ tickEv l) ++ rest.map Ev.item)).2.flatten.take
        (runLeave sc1 initS evs l).2.flatten.length))
      ((bodies (runLeave sc1 initS evs l).2).foldl execReq t) := by
    rw [htake, applyLog_bodies _ hwf t hq]
    exact ⟨rfl, rfl⟩
  have h := C02.crash_then_resume pc sc1 raws start0 ((evs ++ tickEv l) ++ rest.map Ev.item) hitems1
    hraw hlo hstart hndall hnn hnf hsel hmap t hcur hfresh (runLeave sc1 initS evs l).2.flatten.length
    (bodies (runLeave sc1 initS evs l).2) E1 E2 o hE hsame hsplit hlast hd hd0
  simp only at h
  rw [htake] at h
  obtain ⟨h1, h2, h3, h4⟩ := h
  simp only
  refine ⟨h1, h2, h3, ?_, ?_⟩
  · -- what was left unsent is above the stored position
    have hm : C02.SMono initS.txn initS.lastOffset (evs ++ tickEv l) :=
      smono_prefix _ _ _ _ (C02.parser_feeds_smono pc raws start0 _ hitems1 hraw hlo hstart)
    have ho : o ∈ cpOffsets (run sc1 initS (evs ++ tickEv l)).2 := by
      rw [← hrun, ← cpOffsetsB_bodies _ hwf, hsplit, cpOffsetsB_append]
      apply List.mem_append_right
      simp [cpOffsetsB, cpOfReq]
    intro i hi
    rw [hrun] at hi
    exact C02.pending_not_covered sc1 _ hm o ho i hi
  · intro sc2 evs2 hi2 hnd2 hnn2
    obtain ⟨h5, h6⟩ := h4 sc2 evs2 hi2 hnd2 hnn2
    refine ⟨h5, ?_⟩
    intro hsc2
    rw [runLeave_eq_run sc2 initS evs2 .doneCase hnd2]
    exact h6 hsc2

/-! ### 4. The `Done` case flushes everything; another case need not -/

/-- **Ticker mode, the `Done` case**: the final flush leaves nothing unsent, the wire
    carries the whole forwarded stream (`done_flushes_all` for `runLeave`). -/
theorem doneCase_flushes_all (c : SCfg) (hc : c.txnMode = false) (evs : List Ev) (hnd : NoDone evs) :
    unsent (runLeave c initS evs .doneCase) = [] ∧
    dataOut (runLeave c initS evs .doneCase).2 = fwd .no evs := by
  rw [runLeave_eq_run c initS evs .doneCase hnd]
  have hl : lastEv .doneCase = [Ev.done] := rfl
  rw [hl]
  refine ⟨?_, ?_⟩
  · unfold unsent
    rw [run_append_done c initS evs hnd]
    simp only [step]
    have hin := run_inTxn_false_plain c hc initS rfl evs
    simp only [hin, hc, Bool.not_false, Bool.and_self, ↓reduceIte]
    exact tail_forced_queue_nil _ _ _ _ _ rfl
  · rw [done_flushes_all c hc evs hnd, fwd_append_done _ _ hnd]

/-- whatever the way of leaving, what is left unsent is exactly the part of the
    forwarded stream that is not on the wire -/
theorem leave_unsent_is_the_rest (c : SCfg) (evs : List Ev) (l : Leave) (hnd : NoDone evs) :
    ∃ sentPart, fwd .no (evs ++ lastEv l) = sentPart ++ (unsent (runLeave c initS evs l)).filterMap itemCmd ∧
      sentPart = dataOut (runLeave c initS evs l).2 :=
  ⟨_, (leave_forwarded_exact c evs l hnd).symm, rfl⟩

/-! ### Non-vacuity -/

/-- Ticker mode, batch limit 100: two items, then `replayWait` is closed while a
    THIRD item is being handled (`otherCase`): the loop returns with three unsent
    items and nothing on the wire ... -/
example :
    unsent (runLeave C02.trCfg initS [exSet 97 50, exSet 98 77] (.otherCase (exSet 99 104))) =
      [ { cmd := [115,101,116], args := [[97],[118]], offset := 50, db := 1 },
        { cmd := [115,101,116], args := [[98],[118]], offset := 77, db := 1 },
        { cmd := [115,101,116], args := [[99],[118]], offset := 104, db := 1 } ] ∧
    (runLeave C02.trCfg initS [exSet 97 50, exSet 98 77] (.otherCase (exSet 99 104))).2 = [] := by
  decide +kernel
/-- ... the same when it returns `atOnce` after the third item ... -/
example :
    unsent (runLeave C02.trCfg initS [exSet 97 50, exSet 98 77, exSet 99 104] .atOnce) =
      [ { cmd := [115,101,116], args := [[97],[118]], offset := 50, db := 1 },
        { cmd := [115,101,116], args := [[98],[118]], offset := 77, db := 1 },
        { cmd := [115,101,116], args := [[99],[118]], offset := 104, db := 1 } ] := by
  decide +kernel
/-- ... whereas the `Done` case sends all three and stores position 104 -/
example :
    unsent (runLeave C02.trCfg initS [exSet 97 50, exSet 98 77, exSet 99 104] .doneCase) = [] ∧
    (runLeave C02.trCfg initS [exSet 97 50, exSet 98 77, exSet 99 104] .doneCase).2 =
      [[ Req.cmd [115,101,116] [[97],[118]] 50, Req.cmd [115,101,116] [[98],[118]] 77,
         Req.cmd [115,101,116] [[99],[118]] 104, Req.cpMeta, Req.cpOffset 104 ]] := by
  decide +kernel
/-- transactional mode: even the `Done` case forces no flush (`transactionBatch` is
    set), the two items stay unsent -- covered by the same theorems -/
example :
    unsent (runLeave C02.trCfgTx initS [exSet 97 50, exSet 98 77] .doneCase) =
      [ { cmd := [115,101,116], args := [[97],[118]], offset := 50, db := 1 },
        { cmd := [115,101,116], args := [[98],[118]], offset := 77, db := 1 } ] ∧
    (runLeave C02.trCfgTx initS [exSet 97 50, exSet 98 77] .doneCase).2 = [] := by
  decide +kernel
/-- `runLeave` and `run` on a concrete schedule (theorem 1 computed) -/
example : runLeave C02.trCfg initS [exSet 97 50, .cpTick, exSet 98 77] (.otherCase .keepaliveTick) =
    run C02.trCfg initS ([exSet 97 50, .cpTick, exSet 98 77] ++ [.keepaliveTick]) := by decide +kernel

/-! The example stream of `Props/C02TwoRuns.lean` (database 1 filtered, 2 → 5, 3 → 7;
    ticker mode, batch limit 100). Run 1 takes `select 5`, `set a 1`, a checkpoint
    tick (position 50 stored in database 5), and while it handles `set b 2`
    (offset 77) `replayWait` is closed: it returns with `set b 2` UNSENT; `select 7`
    and `del b` were never taken from `sendBuf`. -/
def exitEvs : List Ev := (C02.trItems.take 2).map Ev.item ++ [.cpTick]
def exitSetB : Item := { cmd := [115,101,116], args := [[98],[50]], offset := 77, db := 5 }
def exitLeave : Leave := .otherCase (.item exitSetB)
def exitRest : List Item := C02.trItems.drop 3
def exitOut : List Batch := (runLeave C02.trCfg initS exitEvs exitLeave).2

theorem exitEvs_noDone : NoDone exitEvs := by unfold NoDone; decide +kernel

example : exitLeave.proper := by simp [exitLeave, Leave.proper]
example : unsent (runLeave C02.trCfg initS exitEvs exitLeave) = [exitSetB] := by decide +kernel
example : exitOut =
    [ [ Req.cmd bSelect [[53]] 23 ],            -- the database switch is a barrier: flushed at once
      [ Req.cmd [115,101,116] [[97],[49]] 50, Req.cpMeta, Req.cpOffset 50 ] ] := by
  decide +kernel
example : itemsOf (exitEvs ++ lastEv exitLeave) ++ exitRest =
    parseAll C02.trPc { lastSent := 0 } C02.trRaws := by decide +kernel

/-- theorem 2 on the example (the run received the parser's items for the first
    three source commands): the stored position 50 is below the unsent 77 -/
example : ∀ o ∈ cpOffsets (runLeave C02.trCfg initS exitEvs exitLeave).2,
    ∀ i ∈ unsent (runLeave C02.trCfg initS exitEvs exitLeave), o < i.offset :=
  leave_unsent_not_covered_parser C02.trPc C02.trCfg (C02.trRaws.take 3) 0 exitEvs exitLeave exitEvs_noDone
    (by decide +kernel) (by decide +kernel) (by decide +kernel) (by omega)
example : cpOffsets (runLeave C02.trCfg initS exitEvs exitLeave).2 = [50] := by decide +kernel

/-- ... and against the target: the next start reads (50, database 5) -/
example : ∀ i ∈ unsent (runLeave C02.trCfg initS exitEvs exitLeave),
    (startPoint (applyLog C02.trT (runLeave C02.trCfg initS exitEvs exitLeave).2.flatten)).1 < i.offset :=
  leave_unsent_above_startPoint C02.trCfg exitEvs exitLeave exitEvs_noDone
    (C02.parser_feeds_smono C02.trPc (C02.trRaws.take 3) 0 _ (by decide +kernel) (by decide +kernel)
      (by decide +kernel) (by omega))
    C02.trT rfl rfl
example : startPoint (applyLog C02.trT (runLeave C02.trCfg initS exitEvs exitLeave).2.flatten) = (50, [5]) := by
  decide +kernel

/-- theorem 3 on the example: all hypotheses discharged; the last position write of
    the run that left is `<rid>_offset 50`, nothing was executed after it -/
example : True := by
  have h := leave_then_resume C02.trPc C02.trCfg C02.trRaws 0 exitEvs exitLeave exitRest exitEvs_noDone
    (by decide +kernel) (by decide +kernel) (by decide +kernel) (by omega)
    (C02.run1_items_noNested_src C02.trPc C02.trRaws 0
      (by simp [RawNoNested, C02.trRaws, bSelect, bMulti, bExec]) (fun r _ _ => ⟨rfl, rfl⟩))
    (by decide +kernel) (selOK_spec C02.trRaws (by decide +kernel))
    (mapDb_ok C02.trPc rfl (by decide +kernel))
    C02.trT rfl rfl rfl ((bodies exitOut).take 3) ((bodies exitOut).drop 4) 50
    (by decide +kernel) (by decide +kernel) (by decide +kernel) (by decide +kernel)
  trivial
/-- the values it speaks about: the target holds `S1` = `set a 1` (`X = []`), ... -/
example : (applyLog C02.trT exitOut.flatten).applied =
    [ { db := 5, name := [115,101,116], args := [[97],[49]] } ] := by decide +kernel
/-- ... `S2` is what the run resumed at (50, database 5) executes: the unsent
    `set b 2` and the `del b` it never received, ... -/
example : (seqApplied 0 (itemCmds (parserItems C02.trPc 50 (C02.trRaws.filter (fun r => decide (50 < r.off)))))).2 =
    [ { db := 5, name := [115,101,116], args := [[98],[50]] },
      { db := 7, name := [100,101,108], args := [[98]] } ] := by decide +kernel
/-- ... and once the resumed run has left by its `Done` case the target holds exactly
    the specification of the whole stream: nothing lost (here nothing twice) -/
example : (applyLog (crash (applyLog C02.trT exitOut.flatten))
      (runLeave C02.trCfg initS C02.trEvs2 .doneCase).2.flatten).applied =
    specStream C02.trPc false 0 C02.trRaws := by decide +kernel

/-- theorem 3 for the `Done` case on the same stream: run 1 also takes `set b 2`
    and then leaves by the `Done` case (final flush, position 77) -/
def exitEvsD : List Ev := exitEvs ++ [.item exitSetB]
example : True := by
  have h := leave_then_resume C02.trPc C02.trCfg C02.trRaws 0 exitEvsD .doneCase exitRest
    (by unfold NoDone; decide +kernel)
    (by decide +kernel) (by decide +kernel) (by decide +kernel) (by omega)
    (C02.run1_items_noNested_src C02.trPc C02.trRaws 0
      (by simp [RawNoNested, C02.trRaws, bSelect, bMulti, bExec]) (fun r _ _ => ⟨rfl, rfl⟩))
    (by decide +kernel) (selOK_spec C02.trRaws (by decide +kernel))
    (mapDb_ok C02.trPc rfl (by decide +kernel))
    C02.trT rfl rfl rfl ((bodies (runLeave C02.trCfg initS exitEvsD .doneCase).2).take 5)
    ((bodies (runLeave C02.trCfg initS exitEvsD .doneCase).2).drop 6) 77
    (by decide +kernel) (by decide +kernel) (by decide +kernel) (by decide +kernel)
  trivial
example : unsent (runLeave C02.trCfg initS exitEvsD .doneCase) = [] := by decide +kernel

/-! Instances for the resumed run (`Props.C02.rdPc/rdRaws/rdCfg/rdT`: resumed at 50 in database
    5 on a target holding 50 and an older 23; the run receives all items and leaves at once): `leave_wire_ordered`,
    `leave_unsent_not_covered_resumed_parser`, `leave_unsent_above_startPoint_resumed`. -/
def exitRAll : List Ev := (parserItems C02.rdPc 50 C02.rdRaws).map Ev.item
def exitRLeaveAll : Leave := .atOnce

theorem exitRAll_noDone : NoDone exitRAll := by unfold NoDone; decide +kernel

example : True := by
  have hitems : itemsOf (exitRAll ++ lastEv exitRLeaveAll) = parserItems C02.rdPc 50 C02.rdRaws := by
    decide +kernel
  have h1 := leave_unsent_not_covered_resumed_parser C02.rdPc C02.rdCfg C02.rdRaws 50 exitRAll
    exitRLeaveAll exitRAll_noDone hitems (by decide +kernel) (by decide +kernel) (by omega)
  have hm := C02.resumed_parser_feeds_smono C02.rdPc C02.rdRaws 50 (exitRAll ++ lastEv exitRLeaveAll)
    hitems (by decide +kernel) (by decide +kernel) (by omega)
  have h2 := leave_wire_ordered C02.rdCfg exitRAll exitRLeaveAll exitRAll_noDone hm
  have h3 := leave_unsent_above_startPoint_resumed C02.rdCfg exitRAll exitRLeaveAll exitRAll_noDone hm
    50
    (by rw [hitems]; exact C02.parserItems_ge C02.rdPc 50 C02.rdRaws (by decide +kernel) (by decide +kernel))
    C02.rdT (by unfold KeysNodup; decide +kernel) rfl (by decide +kernel)
  trivial
/-- computed: the run received everything and left at once (ticker mode, batch count 2, no tick):
    `select 5` and `set a 1` went out as one batch, `select 7` flushed nothing more, `set b 2` (ends
    at 119) is still queued; no position was written, the next start reads the old (50, [5]) -/
example : (unsent (runLeave C02.rdCfg initS exitRAll exitRLeaveAll)).map (·.offset) = [119] := by
  decide +kernel
example : startPoint (applyLog C02.rdT (runLeave C02.rdCfg initS exitRAll exitRLeaveAll).2.flatten) = (50, [5]) := by
  decide +kernel

end GunYu.Props.C01
