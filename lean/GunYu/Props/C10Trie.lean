/-
  C10 — pkg/filter/trie.go (NewTrie / Insert / IsPrefixMatch / Search) and the decision
  functions RedisKeyFilter.FilterCmd / FilterKey of filter.go, TRANSLATED from /repo's Go
  source on every run (lean/GunYu/Gen/FnTrie.lean, harness/extract/gofn_c10.go: the heap of
  `map[byte]*TrieNode` nodes as a tree, `*TrieNode` variables as cursors), refine the hand
  model `Filter.Trie` of Model/Filter.lean that the property theorems are about.

  The tie is a REFINEMENT: `TRep n m` relates a generated node to a model trie (same end
  flag, children defined on the same bytes and related). `NewTrie` is related to `Trie.empty`,
  `Insert` preserves the relation (and never panics), `Search` / `IsPrefixMatch` of related
  tries give the same answer - for EVERY word, every trie reachable by any sequence of
  inserts in ANY order (a word that is a proper prefix of an earlier or later one included):
  a trie holds both the exact command lists (`Search`) and the prefix lists (`IsPrefixMatch`),
  and both readings are proved about the one generated `Insert`.
  Side condition, that of the code: words shorter than 2^63-1 bytes.
-/
import GunYu.Model.Filter
import GunYu.Proofs.FilterTrie
import GunYu.Props.C11Gen
import GunYu.Gen.FnTrie
import GunYu.Gen.FnKeySpec

namespace GunYu.Props.C10
open GunYu GunYu.Filter GunYu.Gen
open GunYu.Props.C11 (index_nat lt_len_iff addI_nat)

/-! ### facts about the generated code alone -/

/-- a fresh `&TrieNode{children: make(...), isEnd: false}` -/
def gFresh : Fn.TrieNode := Fn.TrieNode.mk (fun _ => none) false

theorem children_setChild (n : Fn.TrieNode) (k : UInt8) (c : Fn.TrieNode) (b : UInt8) :
    (n.setChild k c).children b = if b = k then some c else n.children b := by
  cases n; rfl

theorem isEnd_setChild (n : Fn.TrieNode) (k : UInt8) (c : Fn.TrieNode) :
    (n.setChild k c).isEnd = n.isEnd := by
  cases n; rfl

theorem setChild_setChild (n : Fn.TrieNode) (k : UInt8) (c c' : Fn.TrieNode) :
    (n.setChild k c).setChild k c' = n.setChild k c' := by
  cases n with
  | mk ch e =>
    simp only [Fn.TrieNode.setChild]
    congr 1
    funext b
    by_cases h : b = k <;> simp [h]

theorem nodeAt_append (r : Fn.TrieNode) (p q : List UInt8) :
    r.nodeAt (p ++ q) = (r.nodeAt p).bind (fun n => n.nodeAt q) := by
  induction p generalizing r with
  | nil => simp [Fn.TrieNode.nodeAt]
  | cons b p ih =>
    simp only [List.cons_append, Fn.TrieNode.nodeAt]
    cases r.children b with
    | none => rfl
    | some c => exact ih c

theorem childCur_of (r n : Fn.TrieNode) (p : List UInt8) (k : UInt8) (h : r.nodeAt p = some n) :
    Fn.Trie.childCur { root := some r } p k =
      some (match n.children k with | none => none | some _ => some (p ++ [k])) := by
  simp only [Fn.Trie.childCur, Fn.Trie.nodeAt, h, bind, pure, Option.bind_some]
  cases n.children k <;> rfl

/-! #### Search -/

theorem gen_search_loop (t : Fn.TrieNode) (word : List UInt8) (hw : word.length < 9223372036854775807) :
    ∀ (fuel i : Nat) (p : List UInt8) (n : Fn.TrieNode), i ≤ word.length → word.length - i < fuel →
      t.nodeAt p = some n →
      Fn.search_loop1 { root := some t } word fuel (some p) (i : Int) =
        some (match n.nodeAt (word.drop i) with
              | none => GoSem.Ctl.ret false
              | some _ => GoSem.Ctl.next (some (p ++ word.drop i), (word.length : Int))) := by
  intro fuel
  induction fuel with
  | zero => intro i p n _ hf; omega
  | succ fuel ih =>
    intro i p n hi hf hp
    unfold Fn.search_loop1
    by_cases hlt : i < word.length
    · have h1 : ((i : Int) < GoSem.len word) := (lt_len_iff word i).2 hlt
      simp only [h1, ↓reduceIte, index_nat word i hlt, Option.bind_some, bind, childCur_of t n p word[i] hp]
      rw [List.drop_eq_getElem_cons hlt]
      simp only [Fn.TrieNode.nodeAt]
      cases hc : n.children word[i] with
      | none => simp [pure]
      | some c =>
        simp only [Option.isNone_some, Bool.false_eq_true, ↓reduceIte]
        rw [addI_nat i (by omega)]
        have hp' : t.nodeAt (p ++ [word[i]]) = some c := by
          rw [nodeAt_append, hp]; simp [Fn.TrieNode.nodeAt, hc]
        rw [ih (i + 1) (p ++ [word[i]]) c (by omega) (by omega) hp']
        simp [List.append_assoc]
    · have h1 : ¬ ((i : Int) < GoSem.len word) := fun h => hlt ((lt_len_iff word i).1 h)
      have h2 : word.drop i = [] := List.drop_eq_nil_of_le (by omega)
      have h3 : i = word.length := by omega
      rw [if_neg h1, h2]
      simp [Fn.TrieNode.nodeAt, pure, h3]

/-- the end flag of the node the word leads to (false when it leaves the tree) -/
def gSearch (t : Fn.TrieNode) (w : List UInt8) : Bool :=
  match t.nodeAt w with
  | none => false
  | some n => n.isEnd

theorem gen_search_eq (t : Fn.TrieNode) (word : List UInt8) (hw : word.length < 9223372036854775807) :
    Fn.search { root := some t } word = some (gSearch t word) := by
  unfold Fn.search
  have h := gen_search_loop t word hw ((GoSem.len word).toNat + 1) 0 [] t (by omega)
    (by unfold GoSem.len; omega) rfl
  simp only [Int.ofNat_zero, List.drop_zero, List.nil_append] at h
  simp only [Fn.Trie.rootCur, bind, Option.bind]
  rw [h]
  unfold gSearch
  cases hn : t.nodeAt word with
  | none => rfl
  | some n =>
    simp only [Fn.Trie.nodeAt, hn]
    cases n.isEnd <;> rfl

/-! #### IsPrefixMatch -/

/-- `IsPrefixMatch` read off the generated tree -/
def gPrefix : Fn.TrieNode → List UInt8 → Bool
  | _, [] => false
  | n, b :: w =>
    match n.children b with
    | none => false
    | some c => if c.isEnd then true else gPrefix c w

/-- the outcome of the loop of `IsPrefixMatch` from a node on the rest of the word -/
def pmRes (len : Int) : Fn.TrieNode → List UInt8 → List UInt8 → GoSem.Ctl (Option (List UInt8) × Int) Bool
  | _, p, [] => GoSem.Ctl.next (some p, len)
  | n, p, b :: w =>
    match n.children b with
    | none => GoSem.Ctl.ret false
    | some c => if c.isEnd then GoSem.Ctl.ret true else pmRes len c (p ++ [b]) w

theorem pmRes_gPrefix (len : Int) (n : Fn.TrieNode) (p w : List UInt8) :
    (match pmRes len n p w with
     | GoSem.Ctl.ret r => r
     | GoSem.Ctl.next _ => false) = gPrefix n w := by
  induction w generalizing n p with
  | nil => rfl
  | cons b w ih =>
    simp only [pmRes, gPrefix]
    cases n.children b with
    | none => rfl
    | some c =>
      by_cases he : c.isEnd = true
      · simp [he]
      · simp only [he, Bool.false_eq_true, ↓reduceIte]
        exact ih c (p ++ [b])

theorem gen_prefix_loop (t : Fn.TrieNode) (word : List UInt8) (hw : word.length < 9223372036854775807) :
    ∀ (fuel i : Nat) (p : List UInt8) (n : Fn.TrieNode), i ≤ word.length → word.length - i < fuel →
      t.nodeAt p = some n →
      Fn.isPrefixMatch_loop1 { root := some t } word fuel (some p) (i : Int) =
        some (pmRes (word.length : Int) n p (word.drop i)) := by
  intro fuel
  induction fuel with
  | zero => intro i p n _ hf; omega
  | succ fuel ih =>
    intro i p n hi hf hp
    unfold Fn.isPrefixMatch_loop1
    by_cases hlt : i < word.length
    · have h1 : ((i : Int) < GoSem.len word) := (lt_len_iff word i).2 hlt
      simp only [h1, ↓reduceIte, index_nat word i hlt, Option.bind_some, bind, childCur_of t n p word[i] hp]
      rw [List.drop_eq_getElem_cons hlt]
      simp only [pmRes]
      cases hc : n.children word[i] with
      | none => simp [pure]
      | some c =>
        have hp' : t.nodeAt (p ++ [word[i]]) = some c := by
          rw [nodeAt_append, hp]; simp [Fn.TrieNode.nodeAt, hc]
        simp only [Option.isNone_some, Bool.false_eq_true, ↓reduceIte, Fn.Trie.nodeAt, hp', Option.bind_some]
        by_cases he : c.isEnd = true
        · simp [he, pure]
        · simp only [he, Bool.false_eq_true, ↓reduceIte]
          rw [addI_nat i (by omega)]
          exact ih (i + 1) (p ++ [word[i]]) c (by omega) (by omega) hp'
    · have h1 : ¬ ((i : Int) < GoSem.len word) := fun h => hlt ((lt_len_iff word i).1 h)
      have h2 : word.drop i = [] := List.drop_eq_nil_of_le (by omega)
      have h3 : i = word.length := by omega
      rw [if_neg h1, h2]
      simp [pmRes, pure, h3]

theorem gen_isPrefixMatch_eq (t : Fn.TrieNode) (word : List UInt8) (hw : word.length < 9223372036854775807) :
    Fn.isPrefixMatch { root := some t } word = some (gPrefix t word) := by
  unfold Fn.isPrefixMatch
  have h := gen_prefix_loop t word hw ((GoSem.len word).toNat + 1) 0 [] t (by omega)
    (by unfold GoSem.len; omega) rfl
  simp only [Int.ofNat_zero, List.drop_zero] at h
  simp only [Fn.Trie.rootCur, bind, Option.bind]
  rw [h, ← pmRes_gPrefix (word.length : Int) t [] word]
  cases pmRes (word.length : Int) t [] word <;> rfl

/-! #### Insert -/

/-- the nodes `Insert` links in on the way down (end flag not yet set) -/
def gExt : Fn.TrieNode → List UInt8 → Fn.TrieNode
  | n, [] => n
  | n, b :: w => n.setChild b (gExt ((n.children b).getD gFresh) w)

/-- `Insert` read off the generated tree -/
def gIns : Fn.TrieNode → List UInt8 → Fn.TrieNode
  | n, [] => n.set_isEnd true
  | n, b :: w => n.setChild b (gIns ((n.children b).getD gFresh) w)

theorem setChild_self (r c : Fn.TrieNode) (b : UInt8) (h : r.children b = some c) : r.setChild b c = r := by
  cases r with
  | mk ch e =>
    simp only [Fn.TrieNode.setChild]
    congr 1
    funext k
    by_cases hk : k = b
    · subst hk; simp only [↓reduceIte]; exact h.symm
    · simp [hk]

abbrev ILoopSt := Fn.Trie × Option (List UInt8) × Int

/-- an outcome of the insert loop run on the subtree under key `b` of `r`, seen from `r` -/
def liftCtl (r : Fn.TrieNode) (b : UInt8) : GoSem.Ctl ILoopSt Fn.Trie → GoSem.Ctl ILoopSt Fn.Trie
  | .next (t, node, j) => .next ({ root := t.root.map (r.setChild b) }, node.map (b :: ·), j)
  | .ret t => .ret { root := t.root.map (r.setChild b) }

theorem liftCtl_setChild (r c : Fn.TrieNode) (b : UInt8) : liftCtl (r.setChild b c) b = liftCtl r b := by
  have hfe : (r.setChild b c).setChild b = r.setChild b := by
    funext x; exact setChild_setChild r b c x
  funext x
  cases x with
  | next s => obtain ⟨t, node, j⟩ := s; simp [liftCtl, hfe]
  | ret t => simp [liftCtl, hfe]

theorem childCur_cons (r c : Fn.TrieNode) (b : UInt8) (q : List UInt8) (k : UInt8) (h : r.children b = some c) :
    Fn.Trie.childCur { root := some r } (b :: q) k =
      (Fn.Trie.childCur { root := some c } q k).map (Option.map (b :: ·)) := by
  simp only [Fn.Trie.childCur, Fn.Trie.nodeAt, Fn.TrieNode.nodeAt, h, bind, pure]
  cases c.nodeAt q with
  | none => rfl
  | some n =>
    simp only [Option.bind_some, Option.map_some]
    cases n.children k <;> rfl

theorem storeFresh_cons (r c : Fn.TrieNode) (b : UInt8) (q : List UInt8) (k : UInt8) (f : Fn.TrieNode)
    (h : r.children b = some c) :
    Fn.Trie.storeFresh { root := some r } (b :: q) k f =
      (Fn.Trie.storeFresh { root := some c } q k f).map (fun t' => { root := t'.root.map (r.setChild b) }) := by
  simp only [Fn.Trie.storeFresh, Fn.Trie.nodeAt, Fn.TrieNode.nodeAt, h, bind]
  cases c.nodeAt q with
  | none => rfl
  | some n =>
    simp only [Option.bind_some]
    cases n.children k with
    | some _ => rfl
    | none =>
      simp only [Fn.Trie.modifyAt, Fn.TrieNode.modifyAt, h]
      cases Fn.TrieNode.modifyAt (fun n => n.setChild k f) c q <;> rfl

theorem insert_frame (word : List UInt8) :
    ∀ (fuel : Nat) (r c : Fn.TrieNode) (b : UInt8) (node : Option (List UInt8)) (i : Int),
      r.children b = some c →
      Fn.insert_loop1 word fuel { root := some r } (node.map (b :: ·)) i =
        (Fn.insert_loop1 word fuel { root := some c } node i).map (liftCtl r b) := by
  intro fuel
  induction fuel with
  | zero => intro r c b node i _; rfl
  | succ fuel ih =>
    intro r c b node i h
    unfold Fn.insert_loop1
    by_cases hlt : i < GoSem.len word
    · simp only [hlt, ↓reduceIte, bind]
      cases GoSem.index word i with
      | none => rfl
      | some ch =>
        simp only [Option.bind_some]
        cases node with
        | none => rfl
        | some q =>
          simp only [Option.map_some, Option.bind_some, childCur_cons r c b q ch h]
          cases hcc : Fn.Trie.childCur { root := some c } q ch with
          | none => rfl
          | some t3 =>
            simp only [Option.map_some, Option.bind_some]
            cases t3 with
            | some q' =>
              simp only [Option.map_some, Option.isNone_some, Bool.false_eq_true, ↓reduceIte]
              exact ih r c b (some q') _ h
            | none =>
              simp only [Option.map_none, Option.isNone_none, ↓reduceIte, storeFresh_cons r c b q ch _ h]
              cases hsf : Fn.Trie.storeFresh { root := some c } q ch (Fn.TrieNode.mk (fun _ => none) false) with
              | none => rfl
              | some t1 =>
                simp only [Option.map_some, Option.bind_some]
                cases t1 with
                | mk root1 =>
                  cases root1 with
                  | none =>
                    simp [Fn.Trie.childCur, Fn.Trie.nodeAt, bind]
                  | some c1 =>
                    simp only [Option.map_some]
                    have h1 : (r.setChild b c1).children b = some c1 := by
                      rw [children_setChild]; simp
                    rw [childCur_cons (r.setChild b c1) c1 b q ch h1]
                    cases Fn.Trie.childCur { root := some c1 } q ch with
                    | none => rfl
                    | some t6 =>
                      simp only [Option.map_some, Option.bind_some]
                      rw [ih (r.setChild b c1) c1 b t6 _ h1, liftCtl_setChild]
    · simp only [hlt, ↓reduceIte, pure, Option.map_some, liftCtl, setChild_self r c b h]

theorem gen_insert_loop (word : List UInt8) (hw : word.length < 9223372036854775807) :
    ∀ (fuel i : Nat) (n : Fn.TrieNode), i ≤ word.length → word.length - i < fuel →
      Fn.insert_loop1 word fuel { root := some n } (some []) (i : Int) =
        some (GoSem.Ctl.next ({ root := some (gExt n (word.drop i)) }, some (word.drop i), (word.length : Int))) := by
  intro fuel
  induction fuel with
  | zero => intro i n _ hf; omega
  | succ fuel ih =>
    intro i n hi hf
    by_cases hlt : i < word.length
    · have h1 : ((i : Int) < GoSem.len word) := (lt_len_iff word i).2 hlt
      unfold Fn.insert_loop1
      simp only [h1, ↓reduceIte, index_nat word i hlt, Option.bind_some, bind,
        childCur_of n n [] word[i] rfl, List.nil_append]
      rw [List.drop_eq_getElem_cons hlt, addI_nat i (by omega)]
      simp only [gExt]
      cases hc : n.children word[i] with
      | some c =>
        simp only [Option.isNone_some, Bool.false_eq_true, ↓reduceIte, Option.getD_some]
        have hf := insert_frame word fuel n c word[i] (some []) ((i + 1 : Nat) : Int) hc
        simp only [Option.map_some] at hf
        rw [hf, ih (i + 1) c (by omega) (by omega)]
        simp [liftCtl]
      | none =>
        simp only [Option.isNone_none, ↓reduceIte, Option.getD_none]
        have hs : Fn.Trie.storeFresh { root := some n } [] word[i] (Fn.TrieNode.mk (fun _ => none) false) =
            some { root := some (n.setChild word[i] gFresh) } := by
          simp [Fn.Trie.storeFresh, Fn.Trie.nodeAt, Fn.TrieNode.nodeAt, hc, Fn.Trie.modifyAt, Fn.TrieNode.modifyAt, bind, gFresh]
        have h2 : (n.setChild word[i] gFresh).children word[i] = some gFresh := by
          rw [children_setChild]; simp
        rw [hs]
        simp only [Option.bind_some, childCur_of (n.setChild word[i] gFresh) _ [] word[i] rfl, h2, List.nil_append]
        have hf := insert_frame word fuel (n.setChild word[i] gFresh) gFresh word[i] (some []) ((i + 1 : Nat) : Int) h2
        simp only [Option.map_some] at hf
        rw [hf, ih (i + 1) gFresh (by omega) (by omega)]
        simp [liftCtl, setChild_setChild]
    · have h1 : ¬ ((i : Int) < GoSem.len word) := fun h => hlt ((lt_len_iff word i).1 h)
      have h2 : word.drop i = [] := List.drop_eq_nil_of_le (by omega)
      have h3 : i = word.length := by omega
      unfold Fn.insert_loop1
      rw [if_neg h1, h2]
      simp [gExt, pure, h3]

theorem modifyAt_gExt (n : Fn.TrieNode) (w : List UInt8) :
    (gExt n w).modifyAt (fun n => n.set_isEnd true) w = some (gIns n w) := by
  induction w generalizing n with
  | nil => rfl
  | cons b w ih =>
    simp only [gExt, gIns, Fn.TrieNode.modifyAt, children_setChild, ↓reduceIte, ih, setChild_setChild]

/-- the generated `Insert` never panics and builds `gIns` -/
theorem gen_insert_eq (n : Fn.TrieNode) (word : List UInt8) (hw : word.length < 9223372036854775807) :
    Fn.insert { root := some n } word = some { root := some (gIns n word) } := by
  unfold Fn.insert
  have h := gen_insert_loop word hw ((GoSem.len word).toNat + 1) 0 n (by omega) (by unfold GoSem.len; omega)
  simp only [Int.ofNat_zero, List.drop_zero] at h
  simp only [Fn.Trie.rootCur, bind, Option.bind]
  rw [h]
  simp [Fn.Trie.modifyAt, modifyAt_gExt]

/-! ### the refinement relation to the hand model -/

/-- a generated node denotes a model trie: same end flag, children on the same bytes, related -/
inductive TRep : Fn.TrieNode → Filter.Trie → Prop
  | mk (ch : UInt8 → Option Fn.TrieNode) (ch' : UInt8 → Option Trie) (e : Bool)
      (hd : ∀ b, (ch b).isSome = (ch' b).isSome)
      (hs : ∀ b c c', ch b = some c → ch' b = some c' → TRep c c') :
      TRep (Fn.TrieNode.mk ch e) (Trie.node e ch')

theorem TRep_fresh : TRep gFresh Trie.empty :=
  TRep.mk _ _ false (fun _ => rfl) (fun _ _ _ h _ => by cases h)

theorem TRep_isEnd {n : Fn.TrieNode} {m : Trie} (h : TRep n m) : n.isEnd = m.isEnd := by
  cases h; rfl

theorem TRep_getD {ch : UInt8 → Option Fn.TrieNode} {ch' : UInt8 → Option Trie}
    (hd : ∀ b, (ch b).isSome = (ch' b).isSome)
    (hs : ∀ b c c', ch b = some c → ch' b = some c' → TRep c c') (b : UInt8) :
    TRep ((ch b).getD gFresh) ((ch' b).getD Trie.empty) := by
  have h := hd b
  cases h1 : ch b with
  | none =>
    cases h2 : ch' b with
    | none => exact TRep_fresh
    | some c' => rw [h1, h2] at h; cases h
  | some c =>
    cases h2 : ch' b with
    | none => rw [h1, h2] at h; cases h
    | some c' => exact hs b c c' h1 h2

theorem gSearch_eq_model {n : Fn.TrieNode} {m : Trie} (h : TRep n m) (w : Bytes) :
    gSearch n w = m.search w := by
  induction w generalizing n m with
  | nil => cases h; rfl
  | cons b w ih =>
    cases h with
    | mk ch ch' e hd hs =>
      have hb := hd b
      simp only [gSearch, Fn.TrieNode.nodeAt, Fn.TrieNode.children, Trie.search]
      cases h1 : ch b with
      | none =>
        cases h2 : ch' b with
        | none => rfl
        | some c' => rw [h1, h2] at hb; cases hb
      | some c =>
        cases h2 : ch' b with
        | none => rw [h1, h2] at hb; cases hb
        | some c' => exact ih (hs b c c' h1 h2)

theorem gPrefix_eq_model {n : Fn.TrieNode} {m : Trie} (h : TRep n m) (w : Bytes) :
    gPrefix n w = m.isPrefixMatch w := by
  induction w generalizing n m with
  | nil => cases h; rfl
  | cons b w ih =>
    cases h with
    | mk ch ch' e hd hs =>
      have hb := hd b
      simp only [gPrefix, Fn.TrieNode.children, Trie.isPrefixMatch]
      cases h1 : ch b with
      | none =>
        cases h2 : ch' b with
        | none => rfl
        | some c' => rw [h1, h2] at hb; cases hb
      | some c =>
        cases h2 : ch' b with
        | none => rw [h1, h2] at hb; cases hb
        | some c' =>
          have hr := hs b c c' h1 h2
          simp only [TRep_isEnd hr, ih hr]

theorem gIns_rep {n : Fn.TrieNode} {m : Trie} (h : TRep n m) (w : Bytes) :
    TRep (gIns n w) (m.insert w) := by
  induction w generalizing n m with
  | nil =>
    cases h with
    | mk ch ch' e hd hs => exact TRep.mk ch ch' true hd hs
  | cons b w ih =>
    cases h with
    | mk ch ch' e hd hs =>
      simp only [gIns, Fn.TrieNode.setChild, Fn.TrieNode.children, Trie.insert]
      refine TRep.mk _ _ e ?_ ?_
      · intro k
        by_cases hk : k = b
        · simp [hk]
        · simp [hk, hd k]
      · intro k c c' h1 h2
        by_cases hk : k = b
        · simp only [hk, ↓reduceIte, Option.some.injEq] at h1 h2
          rw [← h1, ← h2]
          exact ih (TRep_getD hd hs b)
        · simp only [hk, ↓reduceIte] at h1 h2
          exact hs k c c' h1 h2

/-- a generated `*Trie` (non-nil root) denotes a model trie -/
def HRep (t : Fn.Trie) (m : Trie) : Prop := ∃ r, t = { root := some r } ∧ TRep r m

/-! ### the theorems about the translated functions (required by the check) -/

/-- `NewTrie()` returns a non-nil handle that denotes the empty model trie -/
theorem gen_newTrie_refines : ∃ t, Fn.newTrie = some (some t) ∧ HRep t Trie.empty :=
  ⟨_, rfl, _, rfl, TRep_fresh⟩

/-- `Insert(word)` never panics and refines the model's insert -/
theorem gen_trieInsert_refines {t : Fn.Trie} {m : Trie} (h : HRep t m) (w : Bytes)
    (hw : w.length < 9223372036854775807) :
    ∃ t', Fn.insert t w = some t' ∧ HRep t' (m.insert w) := by
  obtain ⟨r, rfl, hr⟩ := h
  exact ⟨_, gen_insert_eq r w hw, _, rfl, gIns_rep hr w⟩

/-- `Search(word)` of the translated code is the model's search -/
theorem gen_trieSearch_eq_model {t : Fn.Trie} {m : Trie} (h : HRep t m) (w : Bytes)
    (hw : w.length < 9223372036854775807) :
    Fn.search t w = some (m.search w) := by
  obtain ⟨r, rfl, hr⟩ := h
  rw [gen_search_eq r w hw, gSearch_eq_model hr]

/-- `IsPrefixMatch(word)` of the translated code is the model's prefix match -/
theorem gen_trieIsPrefixMatch_eq_model {t : Fn.Trie} {m : Trie} (h : HRep t m) (w : Bytes)
    (hw : w.length < 9223372036854775807) :
    Fn.isPrefixMatch t w = some (m.isPrefixMatch w) := by
  obtain ⟨r, rfl, hr⟩ := h
  rw [gen_isPrefixMatch_eq r w hw, gPrefix_eq_model hr]

/-- any sequence of translated `Insert` calls on a translated trie -/
def genTrieInsertAll : Fn.Trie → List Bytes → Option Fn.Trie
  | t, [] => some t
  | t, w :: ws => (Fn.insert t w).bind (fun t' => genTrieInsertAll t' ws)

theorem gen_trieInsertAll_refines {t : Fn.Trie} {m : Trie} (h : HRep t m) (ws : List Bytes)
    (hws : ∀ w ∈ ws, w.length < 9223372036854775807) :
    ∃ t', genTrieInsertAll t ws = some t' ∧ HRep t' (ws.foldl (fun t k => t.insert k) m) := by
  induction ws generalizing t m with
  | nil => exact ⟨t, rfl, h⟩
  | cons w ws ih =>
    obtain ⟨t1, h1, hr1⟩ := gen_trieInsert_refines h w (hws w (by simp))
    obtain ⟨t2, h2, hr2⟩ := ih hr1 (fun x hx => hws x (by simp [hx]))
    exact ⟨t2, by simp [genTrieInsertAll, h1, h2], hr2⟩

/-- EXACT-list use (command lists): after `NewTrie()` and the translated `Insert` of the words `ws` in ANY order,
    the translated `Search` accepts exactly the inserted words -/
theorem gen_trie_search_iff (ws : List Bytes) (hws : ∀ w ∈ ws, w.length < 9223372036854775807) :
    ∃ t0 t, Fn.newTrie = some (some t0) ∧ genTrieInsertAll t0 ws = some t ∧
      ∀ w : Bytes, w.length < 9223372036854775807 → (Fn.search t w = some true ↔ w ∈ ws) := by
  obtain ⟨t0, h0, hr0⟩ := gen_newTrie_refines
  obtain ⟨t, ht, hr⟩ := gen_trieInsertAll_refines hr0 ws hws
  refine ⟨t0, t, h0, ht, fun w hw => ?_⟩
  rw [gen_trieSearch_eq_model hr w hw]
  simp [Trie.search_foldl_insert, Trie.search_empty]

/-- PREFIX-list use (key prefixes): on the same trie the translated `IsPrefixMatch` accepts a key exactly when a
    non-empty inserted word is a byte prefix of it -/
theorem gen_trie_prefix_iff (ws : List Bytes) (hws : ∀ w ∈ ws, w.length < 9223372036854775807) :
    ∃ t0 t, Fn.newTrie = some (some t0) ∧ genTrieInsertAll t0 ws = some t ∧
      ∀ k : Bytes, k.length < 9223372036854775807 →
        (Fn.isPrefixMatch t k = some true ↔ ∃ p ∈ ws, p ≠ [] ∧ p <+: k) := by
  obtain ⟨t0, h0, hr0⟩ := gen_newTrie_refines
  obtain ⟨t, ht, hr⟩ := gen_trieInsertAll_refines hr0 ws hws
  refine ⟨t0, t, h0, ht, fun k hk => ?_⟩
  rw [gen_trieIsPrefixMatch_eq_model hr k hk]
  simp only [Option.some.injEq, Trie.isPrefixMatch_iff, Trie.search_foldl_insert, Trie.search_empty,
    Bool.false_eq_true, or_false]
  constructor
  · rintro ⟨p, h1, h2, h3⟩; exact ⟨p, h2, h1, h3⟩
  · rintro ⟨p, h2, h1, h3⟩; exact ⟨p, h1, h2, h3⟩

/-! ### FilterCmd / FilterKey -/

/-- the four tries of a generated `RedisKeyFilter` denote those of a model `KeyFilter` (nil = not configured) -/
def ORep (o : Option Fn.Trie) (o' : Option Trie) : Prop :=
  match o, o' with
  | none, none => True
  | some t, some m => HRep t m
  | _, _ => False

structure FRep (f : Fn.RedisKeyFilter) (m : KeyFilter) : Prop where
  cw : ORep f.cmdWhiteTrie m.cmdWhite
  cb : ORep f.cmdBlackTrie m.cmdBlack
  pw : ORep f.prefixKeyWhiteTrie m.prefWhite
  pb : ORep f.prefixKeyBlackTrie m.prefBlack

set_option linter.unusedSimpArgs false

/- The two proofs below do not follow the ORDER of the tests in the Go functions: every case of "which lists are configured"
   is normalised by one simp set and the remaining booleans are split, so `white first`, `black first` and
   `return a || b` all go through unchanged (tried on the three forms in session 5). -/
macro "filter_tail" : tactic => `(tactic|
  (simp only [Option.isNone_some, Option.isNone_none, Bool.not_false, Bool.not_true, Bool.false_eq_true, ↓reduceIte,
     bind, Option.bind_some, Option.bind_none, pure, Bool.false_or, Bool.or_false, Bool.not_eq_true] <;> try rfl))


/-- the translated `FilterCmd` is the model's (black listed, or a white list is configured and does not list it) -/
theorem gen_filterCmd_eq_model {f : Fn.RedisKeyFilter} {m : KeyFilter} (h : FRep f m) (cmd : Bytes)
    (hc : cmd.length < 9223372036854775807) :
    Fn.filterCmd f cmd = some (m.filterCmd cmd) := by
  obtain ⟨hpw, hpb, _, _⟩ := h
  unfold Fn.filterCmd KeyFilter.filterCmd
  cases hb : f.cmdBlackTrie with
  | none =>
    cases hb' : m.cmdBlack with
    | some _ => rw [hb, hb'] at hpb; exact hpb.elim
    | none =>
      cases hw : f.cmdWhiteTrie with
      | none =>
        cases hw' : m.cmdWhite with
        | some _ => rw [hw, hw'] at hpw; exact hpw.elim
        | none => filter_tail
      | some tw =>
        cases hw' : m.cmdWhite with
        | none => rw [hw, hw'] at hpw; exact hpw.elim
        | some mw =>
          rw [hw, hw'] at hpw
          simp only [Option.isNone_some, Option.isNone_none, Bool.not_false, Bool.not_true, Bool.false_eq_true, ↓reduceIte, bind, Option.bind_some, pure, gen_trieSearch_eq_model hpw cmd hc]
          cases mw.search cmd <;> filter_tail
  | some tb =>
    cases hb' : m.cmdBlack with
    | none => rw [hb, hb'] at hpb; exact hpb.elim
    | some mb =>
      rw [hb, hb'] at hpb
      cases hw : f.cmdWhiteTrie with
      | none =>
        cases hw' : m.cmdWhite with
        | some _ => rw [hw, hw'] at hpw; exact hpw.elim
        | none =>
          simp only [Option.isNone_some, Option.isNone_none, Bool.not_false, Bool.not_true, Bool.false_eq_true, ↓reduceIte, bind, Option.bind_some, pure, gen_trieSearch_eq_model hpb cmd hc]
          cases mb.search cmd <;> filter_tail
      | some tw =>
        cases hw' : m.cmdWhite with
        | none => rw [hw, hw'] at hpw; exact hpw.elim
        | some mw =>
          rw [hw, hw'] at hpw
          simp only [Option.isNone_some, Option.isNone_none, Bool.not_false, Bool.not_true, Bool.false_eq_true, ↓reduceIte, bind, Option.bind_some, pure, gen_trieSearch_eq_model hpb cmd hc, gen_trieSearch_eq_model hpw cmd hc]
          cases mb.search cmd <;> cases mw.search cmd <;> filter_tail

/-- the translated `FilterKey` is the model's -/
theorem gen_filterKey_eq_model {f : Fn.RedisKeyFilter} {m : KeyFilter} (h : FRep f m) (key : Bytes)
    (hk : key.length < 9223372036854775807) :
    Fn.filterKey f key = some (m.filterKey key) := by
  obtain ⟨_, _, hpw, hpb⟩ := h
  unfold Fn.filterKey KeyFilter.filterKey
  cases hb : f.prefixKeyBlackTrie with
  | none =>
    cases hb' : m.prefBlack with
    | some _ => rw [hb, hb'] at hpb; exact hpb.elim
    | none =>
      cases hw : f.prefixKeyWhiteTrie with
      | none =>
        cases hw' : m.prefWhite with
        | some _ => rw [hw, hw'] at hpw; exact hpw.elim
        | none => filter_tail
      | some tw =>
        cases hw' : m.prefWhite with
        | none => rw [hw, hw'] at hpw; exact hpw.elim
        | some mw =>
          rw [hw, hw'] at hpw
          simp only [Option.isNone_some, Option.isNone_none, Bool.not_false, Bool.not_true, Bool.false_eq_true, ↓reduceIte, bind, Option.bind_some, pure, gen_trieIsPrefixMatch_eq_model hpw key hk]
          cases mw.isPrefixMatch key <;> filter_tail
  | some tb =>
    cases hb' : m.prefBlack with
    | none => rw [hb, hb'] at hpb; exact hpb.elim
    | some mb =>
      rw [hb, hb'] at hpb
      cases hw : f.prefixKeyWhiteTrie with
      | none =>
        cases hw' : m.prefWhite with
        | some _ => rw [hw, hw'] at hpw; exact hpw.elim
        | none =>
          simp only [Option.isNone_some, Option.isNone_none, Bool.not_false, Bool.not_true, Bool.false_eq_true, ↓reduceIte, bind, Option.bind_some, pure, gen_trieIsPrefixMatch_eq_model hpb key hk]
          cases mb.isPrefixMatch key <;> filter_tail
      | some tw =>
        cases hw' : m.prefWhite with
        | none => rw [hw, hw'] at hpw; exact hpw.elim
        | some mw =>
          rw [hw, hw'] at hpw
          simp only [Option.isNone_some, Option.isNone_none, Bool.not_false, Bool.not_true, Bool.false_eq_true, ↓reduceIte, bind, Option.bind_some, pure, gen_trieIsPrefixMatch_eq_model hpb key hk, gen_trieIsPrefixMatch_eq_model hpw key hk]
          cases mb.isPrefixMatch key <;> cases mw.isPrefixMatch key <;> filter_tail

/-! ### non-vacuity: the translated code run on concrete words, a word and its proper prefix in BOTH orders -/

/-- build by the translated code, then ask it -/
def genAsk (ws : List Bytes) (ask : Fn.Trie → Option Bool) : Option Bool :=
  match Fn.newTrie with
  | some (some t0) => (genTrieInsertAll t0 ws).bind ask
  | _ => none

-- "set", then "setex" (longer after shorter) and the other way round: both words found, no other
example : genAsk [[115,101,116], [115,101,116,101,120]] (Fn.search · [115,101,116]) = some true := by decide +kernel
example : genAsk [[115,101,116], [115,101,116,101,120]] (Fn.search · [115,101,116,101,120]) = some true := by decide +kernel
example : genAsk [[115,101,116,101,120], [115,101,116]] (Fn.search · [115,101,116]) = some true := by decide +kernel
example : genAsk [[115,101,116,101,120], [115,101,116]] (Fn.search · [115,101,116,101,120]) = some true := by decide +kernel
example : genAsk [[115,101,116,101,120], [115,101,116]] (Fn.search · [115,101,116,101]) = some false := by decide +kernel
example : genAsk [[115,101,116,101,120]] (Fn.search · [115,101,116]) = some false := by decide +kernel
-- prefix use: "ab" and "abcd" in both orders match "abc" (through "ab"); "abcd" alone does not
example : genAsk [[97,98], [97,98,99,100]] (Fn.isPrefixMatch · [97,98,99]) = some true := by decide +kernel
example : genAsk [[97,98,99,100], [97,98]] (Fn.isPrefixMatch · [97,98,99]) = some true := by decide +kernel
example : genAsk [[97,98,99,100]] (Fn.isPrefixMatch · [97,98,99]) = some false := by decide +kernel
example : genAsk [[97,98,99,100], [97,98]] (Fn.isPrefixMatch · [97]) = some false := by decide +kernel
-- the empty word marks the root, which IsPrefixMatch never looks at; bytes >= 0x80 are bytes
example : genAsk [[]] (Fn.isPrefixMatch · [97]) = some false := by decide +kernel
example : genAsk [[0xc3]] (Fn.isPrefixMatch · [0xc3, 0xa9]) = some true := by decide +kernel
example : genAsk [[0xff]] (Fn.isPrefixMatch · [0xfe, 97]) = some false := by decide +kernel

/-! ### keyspec.parseCommandInt (translated each run, Gen/FnKeySpec.lean) -/

/-! proved for every argument of at most 18 bytes: 18 digits stay below 2^63; beyond that the Go accumulator (an int64)
    wraps and the unbounded model does not (the declared assumption "numkeys below 2^63") -/

/-- the digits of `l` appended to the decimal value `v` -/
def digitsVal (v : Nat) (l : Bytes) : Nat := l.foldl (fun v b => v * 10 + (b.toNat - 48)) v

theorem pow18 : (10 : Nat) ^ 18 = 1000000000000000000 := by decide +kernel

theorem gen_pci_loop (arg : Bytes) (hl : arg.length ≤ 18) :
    ∀ (fuel i v : Nat), i ≤ arg.length → arg.length - i < fuel → v < 10 ^ i →
      Fn.parseCommandInt_loop1 arg fuel (v : Int) (i : Int) =
        some (if (arg.drop i).all isDigit then GoSem.Ctl.next ((digitsVal v (arg.drop i) : Nat) : Int)
              else GoSem.Ctl.ret (-1 : Int)) := by
  intro fuel
  induction fuel with
  | zero => intro i v _ hf; omega
  | succ fuel ih =>
    intro i v hi hf hv
    unfold Fn.parseCommandInt_loop1
    by_cases hlt : i < arg.length
    · have h1 : ((i : Int) < GoSem.len arg) := (lt_len_iff arg i).2 hlt
      simp only [h1, ↓reduceIte, index_nat arg i hlt, Option.bind_some, bind]
      rw [List.drop_eq_getElem_cons hlt]
      simp only [List.all_cons, isDigit]
      generalize hb : arg[i] = b
      by_cases h48 : b < 48
      · have : ¬ (48 ≤ b) := by
          intro h; exact absurd h48 (UInt8.not_lt.mpr h)
        simp [h48, this, pure]
      · have h48' : 48 ≤ b := UInt8.not_lt.mp h48
        simp only [h48, ↓reduceIte, pure, Option.bind_some, h48', decide_true, Bool.true_and]
        by_cases h57 : b > 57
        · have : ¬ (b ≤ 57) := by
            intro h; exact absurd h57 (UInt8.not_lt.mpr h)
          simp [h57, this]
        · have h57' : b ≤ 57 := UInt8.not_lt.mp h57
          simp only [h57, decide_false, Bool.false_eq_true, ↓reduceIte, h57', decide_true, Bool.true_and]
          have hbn : 48 ≤ b.toNat := by simpa [UInt8.le_iff_toNat_le] using h48'
          have hbm : b.toNat ≤ 57 := by simpa [UInt8.le_iff_toNat_le] using h57'
          have hsub : (b - 48).toNat = b.toNat - 48 := by
            rw [UInt8.toNat_sub_of_le _ _ h48']; rfl
          have hp1 : (10 : Nat) ^ (i + 1) = 10 * 10 ^ i := by rw [Nat.pow_succ]; omega
          have hp2 : (10 : Nat) ^ (i + 1) ≤ 1000000000000000000 := by
            rw [← pow18]; exact Nat.pow_le_pow_right (by decide) (by omega)
          have key : ∀ P P' : Nat, P' = 10 * P → P' ≤ 1000000000000000000 → v < P →
              v * 10 + (b.toNat - 48) < P' ∧ v * 10 + (b.toNat - 48) < 1000000000000000000 := by
            intro P P' h1 h2 h3; omega
          obtain ⟨hnew, hbig⟩ := key _ _ hp1 hp2 hv
          have hv' : (GoSem.addI (GoSem.mulI (v : Int) (10 : Int)) (GoSem.u8toI (b - 48))) =
              ((v * 10 + (b.toNat - 48) : Nat) : Int) := by
            unfold GoSem.addI GoSem.mulI GoSem.u8toI
            have hm : GoSem.wrap64 ((v : Int) * 10) = (v : Int) * 10 := GoSem.wrap64_eq (by omega) (by omega)
            rw [hsub, hm, GoSem.wrap64_eq (by omega) (by omega)]
            omega
          rw [hv', addI_nat i (by omega), ih (i + 1) _ (by omega) (by omega) hnew]
          simp [digitsVal]
    · have h1 : ¬ ((i : Int) < GoSem.len arg) := fun h => hlt ((lt_len_iff arg i).1 h)
      have h2 : arg.drop i = [] := List.drop_eq_nil_of_le (by omega)
      rw [if_neg h1, h2]
      simp [digitsVal, pure]

theorem gen_parseCommandInt_eq_model (arg : Bytes) (hl : arg.length ≤ 18) :
    Fn.parseCommandInt arg = some (Filter.parseCommandInt arg) := by
  unfold Fn.parseCommandInt Filter.parseCommandInt
  have h := gen_pci_loop arg hl ((GoSem.len arg - 0).toNat + 1) 0 0 (by omega) (by unfold GoSem.len; omega) (by simp)
  simp only [Int.ofNat_zero, List.drop_zero] at h
  simp only [bind, Option.bind]
  rw [h]
  by_cases hd : arg.all isDigit = true
  · simp [hd, digitsVal, pure]
  · simp [hd, pure]
example : Fn.parseCommandInt [49, 50, 51] = some 123 := by decide +kernel
example : Fn.parseCommandInt [49, 97] = some (-1) := by decide +kernel
example : Fn.parseCommandInt [] = some 0 := by decide +kernel
example : Filter.parseCommandInt [49, 50, 51] = 123 := by decide +kernel

end GunYu.Props.C10
