/-
  C05, disk backend — several run-id directories in one store (`DiskD`,
  Model/StoreDirs.lean): the disk theorems hold PER ID across `SetRunId` (fresh
  directory, rename, switch to an EXISTING directory), `DelRunId` (current or
  FOREIGN id), `VerifyRunId` and restarts, for all operation lists respecting the
  callers' protocol `DiskD.wf`.
-/
import GunYu.Proofs.StoreDirs
import GunYu.Proofs.StoreProgress
import GunYu.Proofs.StoreDirsCaller

namespace GunYu.Props.C05
open GunYu GunYu.Store

/-- the invariant of the current index and of every parked directory -/
theorem diskd_invariant (l m : Nat) (ops : List XOp) (hwf : (DiskD.init l m).wf ops) :
    DInvD ((DiskD.init l m).run ops) :=
  (DInvD.init l m).run ops hwf

/-- **diskd_refines_per_id.** In every reachable state, what EACH directory holds —
    the current one and every other id's — is the suffix of the history written UNDER
    THAT directory from its base: bytes never move between ids, nothing of another
    id's history shows up, whatever sequence of switches, deletes and restarts came
    before. (A rename relabels directory and history together.) -/
theorem diskd_refines_per_id (l m : Nat) (ops : List XOp) (hwf : (DiskD.init l m).wf ops) :
    let x := (DiskD.init l m).run ops
    ∀ d, (d = x.cur ∨ ∃ id, (id, d) ∈ x.dirs) → d.all ≠ [] →
      Contig d.all ∧ d.hbase ≤ d.abs.base ∧ d.abs.bytes = d.hist.drop (d.abs.base - d.hbase) := by
  intro x d hd hne
  have hinv := diskd_invariant l m ops hwf
  have hdi : DInv d := by
    rcases hd with rfl | ⟨id, hm⟩
    · exact hinv.cur
    · exact (hinv.parked _ hm).1
  exact ⟨hdi.contig, abs_bytes_eq hdi hne⟩

/-- a directory that is not the current one has no writer and no reader, and its
    snapshot, if any, is committed and complete -/
theorem diskd_parked_is_closed (l m : Nat) (ops : List XOp) (hwf : (DiskD.init l m).wf ops) :
    let x := (DiskD.init l m).run ops
    ∀ id d, (id, d) ∈ x.dirs → d.live = none ∧ d.readers = [] ∧
      ∀ r, d.rdb = some r → r.final = true ∧ r.data.length = r.size := by
  intro x id d hm
  obtain ⟨hdi, hw, hr⟩ := (diskd_invariant l m ops hwf).parked _ hm
  obtain ⟨hl, hrw⟩ := (noWriter_iff d).mp hw
  exact ⟨hl, hr, fun r hrd => (hdi.rdbShape r hrd).2.2 (hrw r hrd)⟩

/-- **diskd_reader_delivers.** every open stream reader of the current index has
    delivered exactly the bytes appended (under the current directory) at `[start, pos)` -/
theorem diskd_reader_delivers (l m : Nat) (ops : List XOp) (hwf : (DiskD.init l m).wf ops) :
    let s := ((DiskD.init l m).run ops).cur
    ∀ r ∈ s.readers, r.isOpen = true → r.isAof = true →
      s.hbase ≤ r.start ∧ r.start ≤ r.pos ∧ r.pos ≤ s.hbase + s.hist.length ∧
      r.out = (s.hist.drop (r.start - s.hbase)).take (r.pos - r.start) := by
  intro s r hr ho ha
  have hinv : DInv s := (diskd_invariant l m ops hwf).cur
  obtain ⟨⟨g, hg, _, _, hpr⟩, _, hs, hp, hout⟩ := (hinv.readersOk r hr ho).1 ha
  have := (hinv.embed g hg).2.1
  exact ⟨hs, hp, by omega, hout⟩

theorem diskd_snapshot_reader_delivers (l m : Nat) (ops : List XOp) (hwf : (DiskD.init l m).wf ops) :
    let s := ((DiskD.init l m).run ops).cur
    ∀ r ∈ s.readers, r.isOpen = true → r.isAof = false →
      ∃ rd, s.rdb = some rd ∧ r.pos ≤ rd.data.length ∧ r.out = rd.data.take r.pos := by
  intro s r hr ho ha
  exact ((diskd_invariant l m ops hwf).cur.readersOk r hr ho).2 ha

theorem diskd_valid_iff_readable (l m : Nat) (ops : List XOp) (hwf : (DiskD.init l m).wf ops) (rid off : Nat) :
    let s := ((DiskD.init l m).run ops).cur
    findReader s.readers rid = none → (s.inRange off = true ↔ (s.open rid off true).2 ≠ Out.notExist) :=
  fun hf => inRange_iff_open (diskd_invariant l m ops hwf).cur rid off hf

theorem diskd_snapshot_offered_iff_complete (l m : Nat) (ops : List XOp) (hwf : (DiskD.init l m).wf ops) :
    let s := ((DiskD.init l m).run ops).cur
    s.getRdb ≠ (-1, -1) ↔ ∃ r, s.rdb = some r ∧ ((r.final = true ∧ r.data.length = r.size) ∨ r.writing = true) :=
  getRdb_iff (diskd_invariant l m ops hwf).cur

theorem diskd_reader_delivers_next (l m : Nat) (ops : List XOp) (hwf : (DiskD.init l m).wf ops) (withGc : Bool) :
    let s := ((DiskD.init l m).run ops).cur
    ∀ r ∈ s.readers, r.isOpen = true → r.isAof = true → r.prev = none →
      r.pos < s.hbase + s.hist.length → ∀ n, 0 < n →
      ∃ bs, (if withGc then s.followGc r.id n else s.follow r.id n).2 = Out.data bs ∧ bs ≠ [] ∧
        bs = (s.hist.drop (r.pos - s.hbase)).take bs.length := by
  intro s r hr ho ha hp hlt n hn
  exact follow_delivers (diskd_invariant l m ops hwf).cur hr ho ha hp hlt n hn withGc

/-- **work on the current id never touches another id's directory** -/
theorem diskd_other_dirs_untouched (x : DiskD) (o : DOp) (h1 : ∀ id, o ≠ .setRunId id) (h2 : o ≠ .delRunId) :
    (x.step (.base o)).1.dirs = x.dirs :=
  step_base_dirs x o h1 h2

/-- **diskd_switch_back_restores.** Leaving the current id `a` for an existing
    directory `b` and coming back finds `a` as it was left: the same segments, the same
    snapshot, the same written history (in every reachable state, no writer open). -/
theorem diskd_switch_back_restores (l m : Nat) (ops : List XOp) (hwf : (DiskD.init l m).wf ops) (a b : String) :
    let x := (DiskD.init l m).run ops
    x.cur.runId = a → a ≠ "" → a ≠ "?" → b ≠ "" → b ≠ "?" → a ≠ b → x.cur.noWriter →
      (dirLookup x.dirs b).isSome = true →
      let y := (x.setRunId b).setRunId a
      y.cur.runId = a ∧ y.cur.segs = x.cur.segs ∧ y.cur.rdb = x.cur.rdb ∧ y.cur.live = none ∧
        y.cur.hbase = x.cur.hbase ∧ y.cur.hist = x.cur.hist := by
  intro x ha ha0 ha1 hb0 hb1 hab hw hl
  obtain ⟨img, himg⟩ := Option.isSome_iff_exists.mp hl
  exact switch_back (diskd_invariant l m ops hwf) ha ha0 ha1 hb0 hb1 hab hw himg

/-- **invalidation (several directories).** A switch to ANOTHER id — to a fresh
    directory, by rename, or to an existing directory —, the delete of a foreign id
    whose directory exists, and a restart leave no reader open. -/
theorem diskd_invalidation_closes_readers (x : DiskD) :
    (∀ new, new ≠ "" → new ≠ "?" → new ≠ x.cur.runId → ∀ r ∈ (x.setRunId new).cur.readers, r.isOpen = false) ∧
    (∀ id, id ≠ "" → id ≠ "?" → (id = x.cur.runId ∨ (dirLookup x.dirs id).isSome = true) →
        ∀ r ∈ (x.delRunId id).cur.readers, r.isOpen = false) ∧
    (∀ r ∈ x.restart.cur.readers, r.isOpen = false) := by
  have hreset : ∀ r ∈ x.cur.reset.readers, r.isOpen = false := by
    intro r hr; exact closeAllReaders_closed _ r hr
  refine ⟨?_, ?_, ?_⟩
  · intro new h0 h1 hne r hr
    unfold DiskD.setRunId at hr
    simp only [h0, h1, or_self, if_false, hne] at hr
    split at hr
    · split at hr
      · exact closeAllReaders_closed _ r hr
      · exact hreset r hr
    · split at hr
      · exact closeAllReaders_closed _ r hr
      · have hr' : r ∈ x.cur.closeAllForSwitch.rescan.readers := hr
        rw [(rescan_hist _).2.2] at hr'
        unfold Disk.closeAllForSwitch at hr'
        refine closeLive_readers_closed _ ?_ r hr'
        intro y hy
        rw [(dropWritingRdb_fields _).2.2.1] at hy
        exact closeAllReaders_closed _ y hy
  · intro id h0 h1 hex r hr
    unfold DiskD.delRunId at hr
    simp only [h0, h1, or_self, if_false] at hr
    split at hr
    · exact hreset r hr
    · rename_i hne
      rcases hex with e | e
      · exact absurd e hne
      · obtain ⟨img, himg⟩ := Option.isSome_iff_exists.mp e
        rw [himg] at hr
        exact hreset r hr
  · intro r hr; exact closeAllReaders_closed _ r hr

/-- with no other directory the model is the single-directory one (Model/Store.lean) -/
theorem diskd_extends_single (x : DiskD) (hd : x.dirs = []) (id : String) (h0 : id ≠ "") (h1 : id ≠ "?") :
    (x.setRunId id).cur = (x.cur.step (.setRunId id)).1 ∧ (x.setRunId id).dirs = [] := by
  unfold DiskD.setRunId
  simp only [h0, h1, or_self, if_false, hd, dirLookup, List.find?_nil, Option.map_none, Disk.step]
  split
  · exact ⟨rfl, rfl⟩
  · split
    · exact ⟨rfl, hd⟩
    · exact ⟨rfl, rfl⟩

/-! ## The callers' protocol over several directories (review r4) -/

/-- **diskd_verify_head_current_or_absent.** In a store in which every writer was created
    at a positive offset: after `VerifyRunId(rid :: …)` the FIRST id of the list is the
    current one, or it has no directory. (`VerifyRunId` goes on to the next id when the one
    it has just switched to answers `LatestOffset() == 0`; with positive offsets no
    directory does, so the first existing id is taken.) This is why the id the callers
    then pass to `SetRunId` (`sOffset.RunId = id1`, `leaderSp.RunId`: the first id they asked
    with) never loads ANOTHER directory's bytes under the run's feet. -/
theorem diskd_verify_head_current_or_absent (x : DiskD) (hd : DInvD x) (hk : KeysInv x) (hp : PosD x)
    (rid : String) (rest : List String) :
    let x' := (x.verifyRunId (rid :: rest)).1
    rid = x'.cur.runId ∨ dirLookup x'.dirs rid = none :=
  verify_head_free rid rest hd hk hp

/-- **diskd_callers_respect_protocol.** The callers' runs over several directories
    (`callerOkD`): `ask ids` is `StoreChannel.StartPoint(ids)` — `VerifyRunId(ids)`, which
    may SWITCH the current directory, then the answer —; a stream writer is created at the
    offset answered, or after the run has cleared the cache (`DelRunId` of the current id,
    then `SetRunId` of the first id asked for: a fresh directory), or at the offset of the
    snapshot it announced; readers, collector, snapshot chunks, `SetRunId` of the same id
    or of the first id asked for (rename), anywhere in between; every writer at an offset
    > 0. Every such run satisfies `DiskD.wf`. `SetRunId` of any other id, `DelRunId` of a
    foreign id, `VerifyRunId` as a bare operation and a restart make the run forget what
    it knew (no writer may follow without a new `ask` / clear / announcement). -/
theorem diskd_callers_respect_protocol (l m : Nat) (cops : List COpD)
    (h : callerOkD ⟨.none, ""⟩ (DiskD.init l m) cops) : (DiskD.init l m).wf (COpD.erase cops) :=
  callerD_wf cops ⟨.none, ""⟩ _ (DInvD.init l m) (KeysInv.init l m) (PosD.init l m)
    (KnowsD.mk (c := ⟨.none, ""⟩) trivial (headFree_empty (KeysInv.init l m))) h

/-- the two invariants the derivation adds, for every run respecting `DiskD.wf` with
    positive writer offsets: no directory is filed under a placeholder id or under the
    current id; every segment and snapshot of every directory starts at an offset > 0 -/
theorem diskd_keys_and_positive (l m : Nat) : ∀ (ops : List XOp), (DiskD.init l m).wf ops → (∀ o ∈ ops, PosXOp o) →
    KeysInv ((DiskD.init l m).run ops) ∧ PosD ((DiskD.init l m).run ops) := by
  have key : ∀ (ops : List XOp) (x : DiskD), DInvD x → KeysInv x → PosD x → x.wf ops → (∀ o ∈ ops, PosXOp o) →
      KeysInv (x.run ops) ∧ PosD (x.run ops) := by
    intro ops
    induction ops with
    | nil => intro x _ hk hp _ _; exact ⟨hk, hp⟩
    | cons o rest ih =>
      intro x hd hk hp hwf hpos
      exact ih _ (hd.step o hwf.1) (hk.step o) (hp.step hd o (hpos o (by simp))) hwf.2
        (fun o' ho' => hpos o' (List.mem_cons_of_mem _ ho'))
  intro ops hwf hpos
  exact key ops _ (DInvD.init l m) (KeysInv.init l m) (PosD.init l m) hwf hpos

/-- four runs of the input: first full sync on an empty store; a reconnect that continues;
    a fail-over (the source's ids are now c, a: the directory is RENAMED, the answer stays
    the writer's offset through the rename and a collector pass); a gap (DelRunId, SetRunId:
    fresh directory, writer at the output's offset); then a restart and a continuation. -/
def exCallerRunD : List COpD :=
  [ .ask ["a", "b"], .op (.delRunId ""), .op (.setRunId "a"), .op (.base (.newRdbWriter 100 4)),
    .op (.base (.rdbAppend [1,2,3,4])), .op (.base (.newAofWriter 100)), .op (.base (.aofAppend [11,12,13,14,15,16,17,18,19,20])),
    .op (.base .aofClose),
    .ask ["a", "b"], .op (.setRunId "a"), .op (.base .gc), .op (.base (.newAofWriter 110)), .op (.base (.aofAppend [21,22])),
    .op (.base .aofClose),
    .ask ["c", "a"], .op (.base (.openReader 0 105 false)), .op (.setRunId "c"), .op (.base .gc), .op (.base (.read 0 4)),
    .op (.base (.newAofWriter 112)), .op (.base (.aofAppend [23])), .op (.base .aofClose),
    .ask ["c", "a"], .op (.delRunId "c"), .op (.setRunId "c"), .op (.base (.newAofWriter 5000)), .op (.base (.aofAppend [99])),
    .op (.base .aofClose),
    .op .restart, .ask ["c"], .op (.setRunId "c"), .op (.base (.newAofWriter 5001)) ]

example : callerOkD ⟨.none, ""⟩ (DiskD.init 64 0) exCallerRunD := by decide
example : ((DiskD.init 64 0).run ((COpD.erase exCallerRunD).take 22)).cur.runId = "c" ∧
    ((DiskD.init 64 0).run ((COpD.erase exCallerRunD).take 22)).cur.abs.bytes = [11,12,13,14,15,16,17,18,19,20,21,22,23] ∧
    ((DiskD.init 64 0).run ((COpD.erase exCallerRunD).take 22)).dirs.map (·.1) = [] := by decide

/-- NOT a run of the callers: after `SetRunId` of an id that is not the first one asked for
    (here: an existing other directory) the answer is forgotten — and rightly so: the
    directory loaded ends at 103, a writer at the answered 112 would leave a gap. -/
example : ¬ callerOkD ⟨.none, ""⟩ (DiskD.init 64 0)
    [ .op (.setRunId "b"), .op (.base (.newAofWriter 100)), .op (.base (.aofAppend [1,2,3])), .op (.base .aofClose), .op .restart,
      .op (.setRunId "a"), .op (.base (.newAofWriter 100)), .op (.base (.aofAppend [1,2,3,4,5,6,7,8,9,10,11,12])), .op (.base .aofClose),
      .ask ["a"], .op (.setRunId "b"), .op (.base (.newAofWriter 112)) ] := by decide

/-- the proviso is needed: a directory holding ONLY A SNAPSHOT AT OFFSET 0 is skipped by
    `VerifyRunId` after it has switched to it (`newest == 0 → continue`); the callers' clearing
    sequence `DelRunId(current); SetRunId(first id)` then LOADS it instead of starting on an
    empty cache (seen on the real Storer, review r4 / session 4: a writer at the output's
    offset then leaves a gap reported valid). No real source produces it: a history that
    was snapshotted at offset 0 has no predecessor id with data. -/
example :
    let x := (DiskD.init 64 0).run [ .setRunId "id1", .base (.newRdbWriter 0 4), .base (.rdbAppend [1,2,3,4]), .restart,
      .setRunId "id2", .base (.newAofWriter 500), .base (.aofAppend [1,2,3]), .base .aofClose, .restart ]
    (x.verifyRunId ["id1", "id2"]).1.cur.runId = "id2" ∧ (x.verifyRunId ["id1", "id2"]).2 = 503 ∧
    ((((x.verifyRunId ["id1", "id2"]).1.delRunId "id2").setRunId "id1").cur.rdb.map (fun r => (r.left, r.size))) = some (0, 4) := by
  decide

/-! ### non-vacuity: two ids, a restart, a switch to an existing directory and back,
    the delete of a foreign id -/

def exDirOps : List XOp :=
  [ .setRunId "a", .base (.newAofWriter 100), .base (.aofAppend [1,2,3,4,5,6,7,8,9,10]), .base (.aofAppend [11,12]),
    .base .aofClose, .restart,                       -- a new process: directory "a" stays, no current id
    .setRunId "b", .base (.newAofWriter 500), .base (.aofAppend [51,52,53]), .base .aofClose,
    .base (.openReader 0 501 false), .base (.read 0 1),
    .setRunId "a" ]                                  -- switch to the EXISTING directory of "a"

example : (DiskD.init 24 0).wf exDirOps := by decide
example : ((DiskD.init 24 0).run exDirOps).cur.runId = "a" ∧
    ((DiskD.init 24 0).run exDirOps).cur.abs.base = 100 ∧
    ((DiskD.init 24 0).run exDirOps).cur.abs.bytes = [1,2,3,4,5,6,7,8,9,10,11,12] ∧
    ((DiskD.init 24 0).run exDirOps).dirs.map (fun e => (e.1, e.2.abs.base, e.2.abs.bytes)) = [("b", 500, [51,52,53])] ∧
    ((DiskD.init 24 0).run exDirOps).cur.readers.map (fun r => (r.id, r.isOpen, r.out)) = [(0, false, [52])] := by decide
-- an instance of diskd_switch_back_restores: from "a" to the existing directory "b" and back
example : (DiskD.init 24 0).wf exDirOps ∧ (dirLookup ((DiskD.init 24 0).run exDirOps).dirs "b").isSome = true ∧
    ((((DiskD.init 24 0).run exDirOps).setRunId "b").setRunId "a").cur.abs.bytes = [1,2,3,4,5,6,7,8,9,10,11,12] ∧
    ((((DiskD.init 24 0).run exDirOps).setRunId "b").setRunId "a").cur.segs = ((DiskD.init 24 0).run exDirOps).cur.segs := by decide
-- VerifyRunId skips a missing id and an id whose directory holds nothing, and lands on "b"
example : (((DiskD.init 24 0).run exDirOps).verifyRunId ["zz", "?", "b", "a"]).2 = 503 ∧
    (((DiskD.init 24 0).run exDirOps).verifyRunId ["zz", "?", "b", "a"]).1.cur.runId = "b" := by decide
-- DelRunId of the FOREIGN id "b": its directory goes, the store forgets its current id "a", whose directory stays
example : (((DiskD.init 24 0).run exDirOps).delRunId "b").cur.runId = "" ∧
    (((DiskD.init 24 0).run exDirOps).delRunId "b").cur.all = [] ∧
    (((DiskD.init 24 0).run exDirOps).delRunId "b").dirs.map (fun e => (e.1, e.2.abs.bytes)) =
      [("a", [1,2,3,4,5,6,7,8,9,10,11,12])] := by decide

end GunYu.Props.C05
