/-
  C15 — what the `deadline` of the ticker model IS: the instant the campaign
  that made the instance leader was sent + hold, or the send instant of one
  of the election calls the ticker made + hold (the call that started the
  renewal which succeeded; with two attempts per tick the first attempt's
  send, i.e. never later than the send of the attempt that succeeded).
  Together with `tickd_leads_within_hold` (returned ≤ deadline): whenever the
  leader's clusterTicker returns, a campaign / renewal SENT at most `hold`
  earlier exists — the reading of `okSent + hold` in the schedule condition
  `TAllowed` of the timed system model (Model/LeaseTimed.lean).
-/
import GunYu.Props.C15Ticker

set_option linter.unusedSimpArgs false
set_option linter.unusedVariables false

namespace GunYu.Props.C15
open GunYu GunYu.Lease

/-- `dl` is the initial deadline or some recorded call + hold -/
def DlOk (H d0 dl : Nat) (calls : List Nat) : Prop := dl = d0 ∨ ∃ c ∈ calls, dl = c + H

theorem DlOk.mono {H d0 dl : Nat} {calls calls' : List Nat} (h : DlOk H d0 dl calls)
    (hs : ∀ c ∈ calls, c ∈ calls') : DlOk H d0 dl calls' := by
  rcases h with h | ⟨c, hc, h⟩
  · exact Or.inl h
  · exact Or.inr ⟨c, hs c hc, h⟩

def triesCalls : Tries → List Nat
  | .ok _ _ c => c
  | .failed _ _ _ c => c
  | .stuck c => c

/-- `util.Retry`: the calls recorded before stay recorded; when it reports success the send instant of
    its first attempt is among them -/
theorem tries_calls (stop : Nat) : ∀ (k cur : Nat) (e : ErrClass) (script : List TAns) (calls : List Nat),
    (∀ c ∈ calls, c ∈ triesCalls (tries stop k cur e script calls)) ∧
    (∀ ret rest calls', tries stop k cur e script calls = .ok ret rest calls' → cur ∈ calls') := by
  intro k
  induction k with
  | zero =>
    intro cur e script calls
    simp only [tries, triesCalls]
    exact ⟨fun c hc => hc, fun ret rest calls' h => by simp at h⟩
  | succ k ih =>
    intro cur e script calls
    simp only [tries]
    by_cases h1 : (script.headD { res := .ok, dur := 0 }).res = .blk
    · simp only [h1, ↓reduceIte, triesCalls]
      exact ⟨fun c hc => List.mem_cons_of_mem _ hc, fun ret rest calls' h => by simp at h⟩
    · simp only [h1, ↓reduceIte]
      by_cases h2 : stop < cur + (script.headD { res := .ok, dur := 0 }).dur
      · simp only [h2, ↓reduceIte, triesCalls]
        exact ⟨fun c hc => List.mem_cons_of_mem _ hc, fun ret rest calls' h => by simp at h⟩
      · simp only [h2, ↓reduceIte]
        by_cases h3 : renewErr (script.headD { res := .ok, dur := 0 }).res = .ok
        · simp only [h3, ↓reduceIte, triesCalls]
          refine ⟨fun c hc => List.mem_cons_of_mem _ hc, fun ret rest calls' h => ?_⟩
          simp only [Tries.ok.injEq] at h
          rw [← h.2.2]; exact List.mem_cons_self
        · simp only [h3, ↓reduceIte]
          obtain ⟨i1, i2⟩ := ih (cur + (script.headD { res := .ok, dur := 0 }).dur)
            (renewErr (script.headD { res := .ok, dur := 0 }).res) script.tail (cur :: calls)
          refine ⟨fun c hc => i1 c (List.mem_cons_of_mem _ hc), fun ret rest calls' h => ?_⟩
          have := i1 cur List.mem_cons_self
          rw [h] at this
          exact this

theorem stopOut_calls (calls : List Nat) (dl : Nat) (ext : Option Nat) (hor : Nat) :
    (stopOut calls dl ext hor).deadline = dl ∧ (stopOut calls dl ext hor).calls = calls.reverse := by
  unfold stopOut
  cases ext with
  | none => dsimp only; split <;> exact ⟨rfl, rfl⟩
  | some e =>
    dsimp only
    by_cases h1 : e < dl
    · simp only [h1, ↓reduceIte]; split <;> exact ⟨rfl, rfl⟩
    · simp only [h1, ↓reduceIte]; split <;> exact ⟨rfl, rfl⟩

/-- the leader loop keeps `deadline = initial deadline ∨ a recorded call + hold` -/
theorem leaderLoop_deadline (P : TParams) (hP : P.rearmFromSend = true) (R H hor d0 : Nat) (ext : Option Nat) :
    ∀ (fuel t next : Nat) (buf : Bool) (dl : Nat) (script : List TAns) (calls : List Nat),
      DlOk H d0 dl calls →
      DlOk H d0 (leaderLoop P R H hor ext fuel t next buf dl script calls).deadline
        (leaderLoop P R H hor ext fuel t next buf dl script calls).calls := by
  intro fuel
  induction fuel with
  | zero =>
    intro t next buf dl script calls h
    simp only [leaderLoop]
    exact h.mono (fun c hc => List.mem_reverse.2 hc)
  | succ fuel ih =>
    intro t next buf dl script calls h
    simp only [leaderLoop]
    generalize (if buf = true then t else next) = tt
    generalize (if buf = true then next else next + R) = next1
    by_cases c1 : stopAt dl ext < tt
    · simp only [c1, ↓reduceIte]
      obtain ⟨e1, e2⟩ := stopOut_calls calls dl ext hor
      rw [e1, e2]; exact h.mono (fun c hc => List.mem_reverse.2 hc)
    · simp only [c1, ↓reduceIte]
      by_cases c2 : hor < tt
      · simp only [c2, ↓reduceIte]
        exact h.mono (fun c hc => List.mem_reverse.2 hc)
      · simp only [c2, ↓reduceIte]
        have hc := tries_calls (stopAt dl ext) P.retry tt .other script calls
        cases heq : tries (stopAt dl ext) P.retry tt .other script calls with
        | stuck calls' =>
          dsimp only
          obtain ⟨e1, e2⟩ := stopOut_calls calls' dl ext hor
          rw [e1, e2]
          have h1 := hc.1
          rw [heq] at h1
          exact h.mono (fun c hc' => List.mem_reverse.2 (h1 c hc'))
        | failed ret e rest calls' =>
          dsimp only
          have h1 := hc.1
          rw [heq] at h1
          exact h.mono (fun c hc' => List.mem_reverse.2 (h1 c hc'))
        | ok ret rest calls' =>
          dsimp only
          simp only [hP, ↓reduceIte]
          apply ih
          exact Or.inr ⟨_, hc.2 ret rest calls' heq, rfl⟩

/-- the whole ticker as cmd/syncer.go stands: its deadline is the send of the campaign + hold, or the send
    instant of one of ITS calls + hold -/
theorem tickd_deadline_is_send_plus_hold (R H ago hor : Nat) (ext : Option Nat) (pre : Bool)
    (script : List TAns) :
    (tickerRunD srcParams true R H ago hor ext pre script).deadline = H - ago ∨
    ∃ c ∈ (tickerRunD srcParams true R H ago hor ext pre script).calls,
      (tickerRunD srcParams true R H ago hor ext pre script).deadline = c + H := by
  unfold tickerRunD
  cases pre with
  | true => simp only [↓reduceIte]; exact Or.inl (by first | rfl | trivial)
  | false =>
    simp only [Bool.false_eq_true, ↓reduceIte]
    exact leaderLoop_deadline srcParams rfl R H hor (H - ago) ext _ 0 R false (H - ago) script [] (Or.inl rfl)

-- non-vacuity: the scenario of Props/C15Ticker.lean: deadline 6500 = call sent at 3000 + hold 3500
example : (tickerRunD srcParams true 1500 3500 200 9750 none false [⟨.ok, 0⟩, ⟨.ok, 1637⟩, ⟨.blk, 0⟩]).deadline
    = 3000 + 3500 ∧
    3000 ∈ (tickerRunD srcParams true 1500 3500 200 9750 none false [⟨.ok, 0⟩, ⟨.ok, 1637⟩, ⟨.blk, 0⟩]).calls := by
  decide
-- no renewal answered: the deadline is still the campaign's
example : (tickerRunD srcParams true 1500 3500 200 9750 none false [⟨.blk, 0⟩]).deadline = 3500 - 200 := by decide

end GunYu.Props.C15
