/-
  C09 across ANY NUMBER of crashes and restarts, as ONE theorem about the
  transaction groups of the SOURCE stream.

  `Props/C09.lean`       a source transaction goes out as one MULTI/EXEC block;
  `Props/C09Crash.lean`  one run: at any crash point none or all of its forwarded
                         commands are applied;
  `Props/C02Lives.lean`  any number of transactional lives: the target holds
                         exactly the specification up to the stored position.

  Here: for every decomposition `raws = pre ++ [MULTI] ++ body ++ [EXEC] ++ post`
  of the source stream (`body` without MULTI/EXEC -- a source transaction group)
  and every target state reachable by any number of transactional resumable
  lives, what the target has executed since the beginning is a prefix `P` of the
  one-pass specification of the whole stream that does NOT end strictly inside
  the group's contribution: `P <+: S_pre` (nothing of the group) or
  `S_pre ++ S_grp <+: P` (all of it) -- `lives_never_split_txn`. And a finishing
  run completes the stream with every group executed exactly once
  (`lives_complete_txn_once`).

  The subtlety: the stored position CAN lie strictly inside a source group. The
  parser hands an EXEC read inside a filtered database over with the offset of
  the last command it handed over (`passBracket`), so
  `MULTI(60) set b(77) SELECT filtered(96) set x(119) EXEC(134, carried as 77)`
  stores position 77. The statement is therefore about specification
  contributions, not about offsets: whenever the position is inside a group, the
  rest of the group contributes nothing (`GroupInv.grp`), and the proof shows that
  this is the ONLY way a position gets inside a group (`Sender.txn_cp_positions`,
  `Sender.group_tail_quiet`). The non-vacuity instance below is exactly this case.
-/
import GunYu.Proofs.TxnGroups

namespace GunYu.Props.C09
open GunYu GunYu.Sender GunYu.Target GunYu.Props.C02

/-- what the commands of the group `pre ++ [m] ++ body ++ [e]` contribute to the
    one-pass specification: the specification of the stream up to the EXEC minus
    the specification of `pre` (MULTI and EXEC themselves contribute nothing) -/
def grpSpec (pc : PCfg) (pre : List Raw) (m : Raw) (body : List Raw) (e : Raw) : List Applied :=
  (specStream pc false 0 (pre ++ [m] ++ body ++ [e])).drop (specStream pc false 0 pre).length

/-- what follows the group -/
def postSpec (pc : PCfg) (pre : List Raw) (m : Raw) (body : List Raw) (e : Raw) (post : List Raw) :
    List Applied :=
  (specStream pc false 0 (pre ++ [m] ++ body ++ [e] ++ post)).drop
    (specStream pc false 0 (pre ++ [m] ++ body ++ [e])).length

theorem prefix_take_drop {α} {a b : List α} (h : a <+: b) : b = a ++ b.drop a.length := by
  obtain ⟨t, rfl⟩ := h
  simp

/-- the specification up to the EXEC is `S_pre ++ S_grp` -/
theorem spec_upto_group (pc : PCfg) (pre : List Raw) (m : Raw) (body : List Raw) (e : Raw) :
    specStream pc false 0 (pre ++ [m] ++ body ++ [e]) = specStream pc false 0 pre ++ grpSpec pc pre m body e := by
  unfold grpSpec
  apply prefix_take_drop
  have := specStream_prefix pc false 0 pre ([m] ++ body ++ [e])
  simpa [List.append_assoc] using this

/-- the specification of the whole stream is `S_pre ++ S_grp ++ S_post` -/
theorem spec_whole (pc : PCfg) (pre : List Raw) (m : Raw) (body : List Raw) (e : Raw) (post : List Raw) :
    specStream pc false 0 (pre ++ [m] ++ body ++ [e] ++ post) =
      specStream pc false 0 pre ++ grpSpec pc pre m body e ++ postSpec pc pre m body e post := by
  rw [← spec_upto_group]
  unfold postSpec
  exact prefix_take_drop (specStream_prefix pc false 0 _ post)

/-- **The invariant of a stored position `(o, d)` with respect to a source group.**
    `cont`: the specification of the stream read up to `o` continues, for whatever
    follows, as the specification from `(bypass = false, database d)` -- what a
    resumed run executes; `grp`: if `o` lies inside the group, what is left of the
    group contributes nothing. -/
structure GroupInv (pc : PCfg) (raws body : List Raw) (m e : Raw) (o d : Int) : Prop where
  cont : ∀ Y, (∀ r ∈ Y, r ∈ raws) →
    specStream pc false 0 (raws.filter (fun r => decide (r.off ≤ o)) ++ Y) =
      specStream pc false 0 (raws.filter (fun r => decide (r.off ≤ o))) ++ specStream pc false d Y
  grp : m.off ≤ o → o < e.off →
    specStream pc false d (body.filter (fun r => decide (o < r.off)) ++ [e]) = []

/-- every position stored by any number of transactional resumable lives
    satisfies the invariant -/
theorem lives_group_inv (pc : PCfg) (start : Int) (t0 : TState)
    (pre body post : List Raw) (m e : Raw)
    (hm : m.cmd = bMulti) (he : e.cmd = bExec) (hbody : NoBracket body)
    (hraw : ((pre ++ m :: (body ++ e :: post)).map (·.off)).Pairwise (· < ·))
    (hlo : ∀ r ∈ pre ++ m :: (body ++ e :: post), start < r.off)
    (hstart : 0 ≤ start)
    (hnest : RawNoNested false (pre ++ m :: (body ++ e :: post)))
    (hpass : ∀ r ∈ pre ++ m :: (body ++ e :: post), (r.cmd = bMulti ∨ r.cmd = bExec) →
      pc.filterCmd r.cmd = false ∧ (pc.filterCmdKey r.cmd r.args).isSome)
    (hnf : parseFails pc { lastSent := start } (pre ++ m :: (body ++ e :: post)) = false)
    (hsel : ∀ x ∈ pre ++ m :: (body ++ e :: post), x.cmd = bSelect →
      ∀ a n, x.args = [a] → atoi? a = some n → 0 ≤ n)
    (hmapnn : ∀ n : Int, 0 ≤ n → 0 ≤ mapDb pc n)
    (hno : NoOffsets t0.cps)
    (T : TState) (o d : Int)
    (h : Lives pc (pre ++ m :: (body ++ e :: post)) start t0 true T o d) :
    GroupInv pc (pre ++ m :: (body ++ e :: post)) body m e o d := by
  have hmap := mapDb_ne_of_nonneg pc hmapnn
  obtain ⟨_, hbs, _, hpm, hbme, hme, hepo⟩ := group_order hraw
  generalize hR : pre ++ m :: (body ++ e :: post) = raws at hlo hnest hpass hnf hsel h
  have hrawR : (raws.map (·.off)).Pairwise (· < ·) := by rw [← hR]; exact hraw
  have hmR : m ∈ raws := by rw [← hR]; simp
  induction h with
  | init =>
    have hnil : raws.filter (fun r => decide (r.off ≤ start)) = [] := filter_le_nil hlo
    refine ⟨?_, ?_⟩
    · intro Y _; rw [hnil]; rfl
    · intro h1 _
      have := hlo m hmR
      omega
  | @life T o d hL sc evs k o' d' hitems hnd htx hpos ih =>
    obtain ⟨hsa, hso, hd0, _⟩ := lives_lose_nothing pc raws start t0 true hrawR hlo hstart hnest hpass hnf
      hsel hmapnn hno T o d hL
    -- the stream this life reads
    generalize hB : raws.filter (fun r => decide (o < r.off)) = B at hitems
    have hBsub : List.Sublist B raws := by rw [← hB]; exact List.filter_sublist
    have hrawB : (B.map (·.off)).Pairwise (· < ·) := hrawR.sublist (hBsub.map _)
    have hloB : ∀ r ∈ B, o < r.off := by
      intro r hr; rw [← hB] at hr; simpa using (List.mem_filter.mp hr).2
    have ho0 : 0 ≤ o := by omega
    have hnestB : RawNoNested false B := by
      have hAB := sorted_split raws o hrawR
      rw [hB] at hAB
      rw [hAB] at hnest
      exact rawNoNested_suffix false _ _ hnest
    have hpassB : ∀ r ∈ B, (r.cmd = bMulti ∨ r.cmd = bExec) →
        pc.filterCmd r.cmd = false ∧ (pc.filterCmdKey r.cmd r.args).isSome :=
      fun r hr => hpass r (hBsub.subset hr)
    have hnnB : ItemsNoNested false (parseAll pc { lastSent := o } B) :=
      parseAll_noNested pc B { lastSent := o } false rfl hnestB hpassB
    have hnfB : parseFails pc { lastSent := o } B = false := parseFails_sublist pc _ _ hBsub hnf
    have hselB : ∀ x ∈ B, x.cmd = bSelect → ∀ a n, x.args = [a] → atoi? a = some n → 0 ≤ n :=
      fun x hx => hsel x (hBsub.subset hx)
    -- the target at the start of this life
    have hcur : (crash T).cur = 0 := rfl
    have hq : (crash T).queued = none := rfl
    have hcps : (crash T).cps = T.cps := rfl
    have ht : (NoOffsets (crash T).cps ∧ d = 0) ∨ UniqueMax (crash T).cps d o := by
      rw [hcps]
      rcases hsa with ⟨h1, _, h3⟩ | h
      · exact Or.inl ⟨h1, h3⟩
      · exact Or.inr h
    have hmono : SMono initS.txn initS.lastOffset evs :=
      resumed_parser_feeds_smono _ B o evs hitems hrawB hloB ho0
    obtain ⟨htxm, hres⟩ := htx rfl
    have hnonneg : NonNeg evs := nonNeg_of_items evs (fun i hi => by
      rw [hitems] at hi
      have := parserItems_ge _ o B hrawB hloB i hi
      omega)
    obtain ⟨E, hE, hsame, _⟩ := txn_crash_repeats_nothing_prefix sc htxm hres evs hmono hnonneg (crash T) hq k
    generalize hT1 : applyLog (crash T) ((run sc initS evs).2.flatten.take k) = T1 at hpos hsame
    by_cases hnone : cpOffsetsB E = []
    · -- no position written in this life: the stored position is the old one
      obtain ⟨hoff, _, _⟩ := life_nocp pc d sc B o evs hitems hnd hnnB hselB hmap (crash T) hcur hd0
        E hE hnone
      have hsa1 : StartsAt T1.cps start o d := by
        apply startsAt_congr (cps := T.cps) _ hsa
        intro x; rw [hsame.2, hoff x]; rfl
      obtain ⟨ho', hdd'⟩ := startsAt_unique hpos hsa1
      subst ho'; subst hdd'
      exact ih
    · -- the last position write of this life
      obtain ⟨E1, oE, E2, hsplit, hlast⟩ := split_last_cp E hnone
      have hum := life_position pc d sc B o evs hitems hrawB hloB ho0 (crash T) hcur hd0 ht E E1 E2 oE hE
        hsplit hlast
      have hsa1 : StartsAt T1.cps start oE (E1.foldl execReq (crash T)).cur := by
        right; rw [hsame.2]; exact hum
      obtain ⟨ho', hdd'⟩ := startsAt_unique hpos hsa1
      have hnn0 : ItemsNoNested false (parseAll { pc with startDbId := d } { lastSent := o } B) := by
        rw [parseAll_setDb]; exact hnnB
      have hnf0 : parseFails { pc with startDbId := d } { lastSent := o } B = false := by
        rw [parseFails_setDb]; exact hnfB
      obtain ⟨_, hnfA, hbyp, hoE, hd1, _⟩ := crash_cut_resumed { pc with startDbId := d } sc B o evs
        hitems hrawB hloB ho0 hnd hnn0 hnf0 E E1 E2 oE hE hsplit
      rw [parseFails_setDb] at hnfA
      rw [parseState_setDb] at hbyp
      have hwf := run_wf sc initS evs
      have hplain1 : ∀ r ∈ E1, Plain r = true := fun r hr =>
        bodies_plain _ hwf r (hE.subset (by rw [hsplit]; exact List.mem_append_left _ hr))
      -- the position is one the run wrote
      have hocp : oE ∈ cpOffsets (run sc initS evs).2 := by
        obtain ⟨R, hR'⟩ := hE
        rw [← cpOffsetsB_bodies _ hwf, ← hR', hsplit, cpOffsetsB_append, cpOffsetsB_append]
        apply List.mem_append_left; apply List.mem_append_right
        simp [cpOffsetsB, cpOfReq]
      subst ho'
      generalize hA : B.filter (fun r => decide (r.off ≤ o')) = A at hnfA hbyp hd1
      have hAsub : ∀ r ∈ A, r ∈ raws := fun r hr =>
        hBsub.subset (by rw [← hA] at hr; exact (List.mem_filter.mp hr).1)
      have hselA : ∀ x ∈ A, x.cmd = bSelect → ∀ a n, x.args = [a] → atoi? a = some n → 0 ≤ n :=
        fun x hx => hsel x (hAsub x hx)
      -- the database of the new position
      have hdb : d' = (seqApplied d (itemCmds (parseAll pc { lastSent := o } A))).1 := by
        rw [hdd', (foldl_execReq_seq E1 hplain1 (crash T)).1, hcur, ← dataBO_proj, hd1, itemCmdsO_proj,
          seq_parserItems pc d o hd0]
      -- this life's piece of the specification, and how it continues
      have hLS : ∀ Y, (∀ r ∈ Y, r ∈ raws) →
          specStream pc false d (A ++ Y) = specStream pc false d A ++ specStream pc false d' Y := by
        intro Y hY
        have := spec_split pc { lastSent := o } d A Y hnfA (Or.inr rfl)
          (fun x hx => by
            rcases List.mem_append.mp hx with h | h
            · exact hselA x h
            · exact hsel x (hY x h)) hmap
        rw [hbyp, ← hdb] at this
        exact this
      have hcut : raws.filter (fun r => decide (r.off ≤ o')) =
          raws.filter (fun r => decide (r.off ≤ o)) ++ A := by
        rw [filter_le_split raws o o' hrawR hoE, hB, hA]
      refine ⟨?_, ?_⟩
      · intro Y hY
        have hAY : ∀ r ∈ A ++ Y, r ∈ raws := fun r hr => by
          rcases List.mem_append.mp hr with h | h
          · exact hAsub r h
          · exact hY r h
        rw [hcut, List.append_assoc, ih.cont (A ++ Y) hAY, hLS Y hY, ih.cont A hAsub, List.append_assoc]
      · intro h1 h2
        by_cases hom : m.off ≤ o
        · -- the life started inside the group: what was left of it contributed nothing
          have ho2 : o < e.off := by omega
          have hold := ih.grp hom ho2
          have hBg : B = body.filter (fun r => decide (o < r.off)) ++ e :: post := by
            rw [← hB, ← hR]; exact grp_gt_inside hraw hom ho2
          have hAg : A = (body.filter (fun r => decide (o < r.off))).filter (fun r => decide (r.off ≤ o')) := by
            rw [← hA, hBg, List.filter_append, filter_le_nil (L := e :: post), List.append_nil]
            intro r hr
            rcases List.mem_cons.mp hr with rfl | hr
            · exact h2
            · have := hepo r hr; omega
          have hbsub : List.Sublist (body.filter (fun r => decide (o < r.off))) body := List.filter_sublist
          have hbg := sorted_split (body.filter (fun r => decide (o < r.off))) o' (hbs.sublist (hbsub.map _))
          rw [← hAg, filter_gt_filter body o o' hoE] at hbg
          rw [hbg, List.append_assoc] at hold
          have hY : ∀ r ∈ body.filter (fun r => decide (o' < r.off)) ++ [e], r ∈ raws := by
            intro r hr
            rw [← hR]
            rcases List.mem_append.mp hr with h | h
            · have := (List.mem_filter.mp h).1; simp [this]
            · simp only [List.mem_singleton] at h; simp [h]
          rw [hLS _ hY] at hold
          exact (List.append_eq_nil_iff.mp hold).2
        · -- the life read the group from before its MULTI
          have hom' : o < m.off := by omega
          have hBg : B = pre.filter (fun r => decide (o < r.off)) ++ m :: (body ++ e :: post) := by
            rw [← hB, ← hR]; exact grp_gt_before hraw hom'
          have hrawBg : ((pre.filter (fun r => decide (o < r.off)) ++ m :: (body ++ e :: post)).map (·.off)).Pairwise
              (· < ·) := by rw [← hBg]; exact hrawB
          have hAg : A = pre.filter (fun r => decide (o < r.off)) ++
              m :: body.filter (fun r => decide (r.off ≤ o')) := by
            rw [← hA, hBg]; exact grp_le_inside hrawBg h1 h2
          have hquiet := group_tail_quiet { pc with startDbId := d } sc htxm o ho0
            (pre.filter (fun r => decide (o < r.off))) body post m e hm he hbody hrawBg
            (by rw [← hBg]; exact hloB) (by rw [← hBg]; exact hnestB) (by rw [← hBg]; exact hpassB)
            (by rw [← hBg]; exact hnf0) evs hnd (by rw [← hBg]; exact hitems) o' hocp h1 h2
          rw [parseAll_setDb, parseState_setDb, ← hAg] at hquiet
          have hY : ∀ r ∈ body.filter (fun r => decide (o' < r.off)) ++ [e], r ∈ raws := by
            intro r hr
            rw [← hR]
            rcases List.mem_append.mp hr with h | h
            · have := (List.mem_filter.mp h).1; simp [this]
            · simp only [List.mem_singleton] at h; simp [h]
          have hinv := parseAll_inv pc A { lastSent := o } d (Or.inr rfl) hselA
          rw [← hdb] at hinv
          have := parser_refines_spec pc (body.filter (fun r => decide (o' < r.off)) ++ [e])
            (parseState pc { lastSent := o } A) d' hinv (fun x hx => hsel x (hY x hx)) hmap
          rw [hquiet, hbyp] at this
          rw [← this]
          rfl

/-- **A source transaction is never split, whatever the number of crashes and
    restarts.** Any number of lives in transactional resumable mode (any batching
    limits, any schedule of ticks, a crash after any number of requests, each life
    resumed from what `StartPoint` reads). For EVERY decomposition of the source
    stream `raws = pre ++ [MULTI] ++ body ++ [EXEC] ++ post` with `body` free of
    MULTI/EXEC -- a source transaction group -- and at EVERY reachable target state
    `T`: what the target has executed since the beginning is a prefix `P` of the
    one-pass specification of the whole stream, and `P` either lies within the
    specification of `pre` (NOTHING of the group has been executed) or contains
    the specification of `pre` followed by everything the group contributes (ALL
    of it has been executed). `specStream raws = S_pre ++ S_grp ++ S_post` is
    `spec_whole`. -/
theorem lives_never_split_txn (pc : PCfg) (raws : List Raw) (start : Int) (t0 : TState)
    (hraw : (raws.map (·.off)).Pairwise (· < ·)) (hlo : ∀ r ∈ raws, start < r.off)
    (hstart : 0 ≤ start)
    (hnest : RawNoNested false raws)
    (hpass : ∀ r ∈ raws, (r.cmd = bMulti ∨ r.cmd = bExec) →
      pc.filterCmd r.cmd = false ∧ (pc.filterCmdKey r.cmd r.args).isSome)
    (hnf : parseFails pc { lastSent := start } raws = false)
    (hsel : ∀ x ∈ raws, x.cmd = bSelect → ∀ a n, x.args = [a] → atoi? a = some n → 0 ≤ n)
    (hmapnn : ∀ n : Int, 0 ≤ n → 0 ≤ mapDb pc n)
    (hno : NoOffsets t0.cps)
    (T : TState) (o d : Int) (h : Lives pc raws start t0 true T o d)
    (pre body post : List Raw) (m e : Raw)
    (hdec : raws = pre ++ [m] ++ body ++ [e] ++ post)
    (hm : m.cmd = bMulti) (he : e.cmd = bExec)
    (hbody : ∀ r ∈ body, r.cmd ≠ bMulti ∧ r.cmd ≠ bExec) :
    ∃ P, T.applied = t0.applied ++ P ∧ P <+: specStream pc false 0 raws ∧
      (P <+: specStream pc false 0 pre ∨
       specStream pc false 0 pre ++ grpSpec pc pre m body e <+: P) := by
  obtain ⟨_, _, _, P, Q, happ, _, hspec, hexact, _⟩ := lives_lose_nothing pc raws start t0 true hraw hlo
    hstart hnest hpass hnf hsel hmapnn hno T o d h
  rw [hexact rfl] at happ
  have hnorm : pre ++ [m] ++ body ++ [e] ++ post = pre ++ m :: (body ++ e :: post) := by simp
  rw [hnorm] at hdec
  subst hdec
  have hinv := lives_group_inv pc start t0 pre body post m e hm he hbody hraw hlo hstart hnest hpass hnf
    hsel hmapnn hno T o d h
  -- what the target holds is the specification of the stream up to the position
  have hgt : ∀ r ∈ (pre ++ m :: (body ++ e :: post)).filter (fun r => decide (o < r.off)),
      r ∈ pre ++ m :: (body ++ e :: post) := fun r hr => (List.mem_filter.mp hr).1
  have hP : P = specStream pc false 0 ((pre ++ m :: (body ++ e :: post)).filter (fun r => decide (r.off ≤ o))) := by
    have h1 := hinv.cont _ hgt
    rw [← sorted_split _ o hraw, hspec] at h1
    exact List.append_cancel_right h1
  refine ⟨P, happ, ⟨_, hspec.symm⟩, ?_⟩
  obtain ⟨_, _, _, _, _, _, _⟩ := group_order hraw
  have hG : specStream pc false 0 pre ++ grpSpec pc pre m body e =
      specStream pc false 0 (pre ++ m :: (body ++ [e])) := by
    rw [← spec_upto_group]; simp
  rw [hG]
  by_cases h1 : o < m.off
  · -- the position is before the group
    left
    rw [hP, grp_le_before hraw h1]
    have hsp := sorted_split pre o (sorted_append_lt hraw).1
    conv => rhs; rw [hsp]
    exact specStream_prefix pc false 0 _ _
  · right
    by_cases h2 : o < e.off
    · -- inside the group: the rest of the group contributes nothing
      have h1' : m.off ≤ o := by omega
      have hle := grp_le_inside hraw h1' h2
      have hb := sorted_split body o (group_order hraw).2.1
      have hY : ∀ r ∈ body.filter (fun r => decide (o < r.off)) ++ [e], r ∈ pre ++ m :: (body ++ e :: post) := by
        intro r hr
        rcases List.mem_append.mp hr with h | h
        · have := (List.mem_filter.mp h).1; simp [this]
        · simp only [List.mem_singleton] at h; simp [h]
      have hc := hinv.cont _ hY
      rw [hinv.grp h1' h2, List.append_nil, hle] at hc
      have hlist : (pre ++ m :: body.filter (fun r => decide (r.off ≤ o))) ++
          (body.filter (fun r => decide (o < r.off)) ++ [e]) = pre ++ m :: (body ++ [e]) := by
        conv => rhs; rw [hb]
        simp
      rw [hlist] at hc
      rw [hc, hP, hle]
      exact List.prefix_refl _
    · -- after the group
      have h2' : e.off ≤ o := by omega
      rw [hP, grp_le_after hraw h2']
      have : pre ++ m :: (body ++ e :: post.filter (fun r => decide (r.off ≤ o))) =
          (pre ++ m :: (body ++ [e])) ++ post.filter (fun r => decide (r.off ≤ o)) := by simp
      rw [this]
      exact specStream_prefix pc false 0 _ _

/-- **... and every source transaction is executed exactly once.** After any
    number of transactional resumable lives let one more resumed run finish (the
    finishing run of `Props.C02.lives_then_complete`: ticker mode, any schedule,
    closed by `done`). The target then holds, since the beginning, EXACTLY the
    one-pass specification of the whole stream, which for every decomposition
    `raws = pre ++ [MULTI] ++ body ++ [EXEC] ++ post` is
    `S_pre ++ S_grp ++ S_post`: the group's contribution once, in one piece, at
    its place -- never a part of it, never twice. -/
theorem lives_complete_txn_once (pc : PCfg) (raws : List Raw) (start : Int) (t0 : TState)
    (hraw : (raws.map (·.off)).Pairwise (· < ·)) (hlo : ∀ r ∈ raws, start < r.off)
    (hstart : 0 ≤ start)
    (hnest : RawNoNested false raws)
    (hpass : ∀ r ∈ raws, (r.cmd = bMulti ∨ r.cmd = bExec) →
      pc.filterCmd r.cmd = false ∧ (pc.filterCmdKey r.cmd r.args).isSome)
    (hnf : parseFails pc { lastSent := start } raws = false)
    (hsel : ∀ x ∈ raws, x.cmd = bSelect → ∀ a n, x.args = [a] → atoi? a = some n → 0 ≤ n)
    (hmapnn : ∀ n : Int, 0 ≤ n → 0 ≤ mapDb pc n)
    (hno : NoOffsets t0.cps)
    (T : TState) (o d : Int) (h : Lives pc raws start t0 true T o d)
    (sc : SCfg) (hsc : sc.txnMode = false) (evs : List Ev)
    (hitems : itemsOf evs =
      parserItems { pc with startDbId := d } o (raws.filter (fun r => decide (o < r.off))))
    (hnd : C01.NoDone evs)
    (pre body post : List Raw) (m e : Raw)
    (hdec : raws = pre ++ [m] ++ body ++ [e] ++ post) :
    (applyLog (crash T) (run sc initS (evs ++ [.done])).2.flatten).applied =
      t0.applied ++ specStream pc false 0 raws ∧
    specStream pc false 0 raws =
      specStream pc false 0 pre ++ grpSpec pc pre m body e ++ postSpec pc pre m body e post := by
  obtain ⟨Q', happ, _, hexact⟩ := lives_then_complete pc raws start t0 true hraw hlo hstart hnest hpass hnf
    hsel hmapnn hno T o d h sc hsc evs hitems hnd
  rw [hexact rfl] at happ
  refine ⟨happ, ?_⟩
  rw [hdec]
  exact spec_whole pc pre m body e post

/-! ### Non-vacuity: the position stored INSIDE a source group

Database 1 filtered, 2 → 5, 3 → 7 (`trPc`). The source transaction
`MULTI(60) set b(77) SELECT 1(96, filtered) set x(119, bypassed) EXEC(134)` is
handed over as `MULTI@60 set b@77 EXEC@77` -- the EXEC carries `lastSent`. Life 1
(transactional) dies after 12 requests, inside its third block: the target has
executed `set a`, `set b` and stored position 77 in database 5 -- strictly inside
the source group `[60, 134)`. Life 2 resumes there, inside the group, and dies
inside its second block: still 77. Both states satisfy `lives_never_split_txn`
for the group -- through its second disjunct: the whole contribution `[set b]`
of the group is on the target. -/

def gRaws : List Raw :=
  [ { cmd := bSelect, args := [[50]], off := 23 },                 -- SELECT 2 (→ 5)
    { cmd := [115,101,116], args := [[97],[49]], off := 50 },      -- set a 1   (db 5)
    { cmd := bMulti, args := [], off := 60 },                       -- MULTI
    { cmd := [115,101,116], args := [[98],[50]], off := 77 },      -- set b 2   (db 5)
    { cmd := bSelect, args := [[49]], off := 96 },                  -- SELECT 1 (filtered)
    { cmd := [115,101,116], args := [[120],[50]], off := 119 },    -- set x 2   (bypassed)
    { cmd := bExec, args := [], off := 134 },                       -- EXEC (handed over as 77)
    { cmd := bSelect, args := [[51]], off := 150 },                 -- SELECT 3 (→ 7)
    { cmd := [100,101,108], args := [[98]], off := 170 } ]          -- del b     (db 7)
def gPre : List Raw := gRaws.take 2
def gM : Raw := { cmd := bMulti, args := [], off := 60 }
def gBody : List Raw := (gRaws.drop 3).take 3
def gE : Raw := { cmd := bExec, args := [], off := 134 }
def gPost : List Raw := gRaws.drop 7
def gEvs : List Ev := (parseAll trPc { lastSent := 0 } gRaws).map Ev.item ++ [.batchTick]
def gT1 : TState := applyLog (crash trT) ((run trCfgTx initS gEvs).2.flatten.take 12)
def gEvs2 : List Ev :=
  (parserItems { trPc with startDbId := 5 } 77 (gRaws.filter (fun r => decide (77 < r.off)))).map Ev.item
    ++ [.keepaliveTick, .batchTick]
def gT2 : TState := applyLog (crash gT1) ((run trCfgTx initS gEvs2).2.flatten.take 8)

example : gRaws = gPre ++ [gM] ++ gBody ++ [gE] ++ gPost := by decide +kernel
/-- the EXEC is handed over with the offset of `set b` -/
example : (parseAll trPc { lastSent := 0 } gRaws).map (fun i => (i.cmd == bExec, i.offset)) =
    [(false, 23), (false, 50), (false, 60), (false, 77), (true, 77), (false, 150), (false, 170)] := by
  decide +kernel

theorem gLives1 : Lives trPc gRaws 0 trT true gT1 77 5 :=
  Lives.life Lives.init trCfgTx gEvs 12 77 5 (by decide +kernel)
    (by unfold GunYu.Props.C01.NoDone; decide +kernel)
    (fun _ => ⟨rfl, rfl⟩)
    (Or.inr (uniqueMaxB_spec _ _ _ (by decide +kernel)))

/-- life 2 starts INSIDE the group -/
theorem gLives2 : Lives trPc gRaws 0 trT true gT2 77 5 :=
  Lives.life gLives1 trCfgTx gEvs2 8 77 5 (by decide +kernel)
    (by unfold GunYu.Props.C01.NoDone; decide +kernel)
    (fun _ => ⟨rfl, rfl⟩)
    (Or.inr (uniqueMaxB_spec _ _ _ (by decide +kernel)))

example : gT1.cps = [(5, { offset := some 77, hasRunId := true })] := by decide +kernel
example : gT2.cps = [(5, { offset := some 77, hasRunId := true })] := by decide +kernel
example : gM.off ≤ 77 ∧ (77 : Int) < gE.off := by decide
example : gT2.applied =
    [ { db := 5, name := [115,101,116], args := [[97],[49]] },
      { db := 5, name := [115,101,116], args := [[98],[50]] } ] := by decide +kernel
example : specStream trPc false 0 gPre = [ { db := 5, name := [115,101,116], args := [[97],[49]] } ] := by
  decide +kernel
example : grpSpec trPc gPre gM gBody gE = [ { db := 5, name := [115,101,116], args := [[98],[50]] } ] := by
  decide +kernel
example : postSpec trPc gPre gM gBody gE gPost = [ { db := 7, name := [100,101,108], args := [[98]] } ] := by
  decide +kernel

/-- `lives_never_split_txn` on the two lives and the group: every hypothesis is
    discharged; the conclusion holds through its SECOND disjunct (`P` is not a
    prefix of `S_pre`: it has two elements) -/
example : ∃ P, gT2.applied = trT.applied ++ P ∧ P <+: specStream trPc false 0 gRaws ∧
    (P <+: specStream trPc false 0 gPre ∨
      specStream trPc false 0 gPre ++ grpSpec trPc gPre gM gBody gE <+: P) :=
  lives_never_split_txn trPc gRaws 0 trT (by decide +kernel) (by decide +kernel) (by omega)
    (by simp [RawNoNested, gRaws, bSelect, bMulti, bExec]) (fun r _ _ => ⟨rfl, rfl⟩) (by decide +kernel)
    (selOK_spec gRaws (by decide +kernel)) (mapDb_nonneg trPc rfl (by decide +kernel))
    (fun d => rfl) gT2 77 5 gLives2 gPre gBody gPost gM gE (by decide +kernel) rfl rfl
    (by decide +kernel)

/-- the same after life 1 alone -/
example : True := by
  have := lives_never_split_txn trPc gRaws 0 trT (by decide +kernel) (by decide +kernel) (by omega)
    (by simp [RawNoNested, gRaws, bSelect, bMulti, bExec]) (fun r _ _ => ⟨rfl, rfl⟩) (by decide +kernel)
    (selOK_spec gRaws (by decide +kernel)) (mapDb_nonneg trPc rfl (by decide +kernel))
    (fun d => rfl) gT1 77 5 gLives1 gPre gBody gPost gM gE (by decide +kernel) rfl rfl
    (by decide +kernel)
  trivial

/-- the FIRST disjunct: a life that dies after 8 requests (inside the block that
    carries the group) has stored position 50, before the group, and holds exactly
    `S_pre` -- nothing of the group -/
def gT0 : TState := applyLog (crash trT) ((run trCfgTx initS gEvs).2.flatten.take 8)
theorem gLives0 : Lives trPc gRaws 0 trT true gT0 50 5 :=
  Lives.life Lives.init trCfgTx gEvs 8 50 5 (by decide +kernel)
    (by unfold GunYu.Props.C01.NoDone; decide +kernel)
    (fun _ => ⟨rfl, rfl⟩)
    (Or.inr (uniqueMaxB_spec _ _ _ (by decide +kernel)))
example : gT0.applied = specStream trPc false 0 gPre := by decide +kernel
example : True := by
  have := lives_never_split_txn trPc gRaws 0 trT (by decide +kernel) (by decide +kernel) (by omega)
    (by simp [RawNoNested, gRaws, bSelect, bMulti, bExec]) (fun r _ _ => ⟨rfl, rfl⟩) (by decide +kernel)
    (selOK_spec gRaws (by decide +kernel)) (mapDb_nonneg trPc rfl (by decide +kernel))
    (fun d => rfl) gT0 50 5 gLives0 gPre gBody gPost gM gE (by decide +kernel) rfl rfl
    (by decide +kernel)
  trivial

/-- `lives_complete_txn_once`: a ticker-mode run resumed at (77, 5) after the two
    lives finishes; the target holds `S_pre ++ S_grp ++ S_post` -/
def gEvs3 : List Ev :=
  (parserItems { trPc with startDbId := 5 } 77 (gRaws.filter (fun r => decide (77 < r.off)))).map Ev.item
    ++ [.cpTick]
example : (applyLog (crash gT2) (run trCfg initS (gEvs3 ++ [.done])).2.flatten).applied =
    trT.applied ++ specStream trPc false 0 gRaws :=
  (lives_complete_txn_once trPc gRaws 0 trT (by decide +kernel) (by decide +kernel) (by omega)
    (by simp [RawNoNested, gRaws, bSelect, bMulti, bExec]) (fun r _ _ => ⟨rfl, rfl⟩) (by decide +kernel)
    (selOK_spec gRaws (by decide +kernel)) (mapDb_nonneg trPc rfl (by decide +kernel))
    (fun d => rfl) gT2 77 5 gLives2 trCfg rfl gEvs3 (by decide +kernel)
    (by unfold GunYu.Props.C01.NoDone; decide +kernel) gPre gBody gPost gM gE (by decide +kernel)).1
example : (applyLog (crash gT2) (run trCfg initS (gEvs3 ++ [.done])).2.flatten).applied =
    [ { db := 5, name := [115,101,116], args := [[97],[49]] },
      { db := 5, name := [115,101,116], args := [[98],[50]] },
      { db := 7, name := [100,101,108], args := [[98]] } ] := by decide +kernel

end GunYu.Props.C09
