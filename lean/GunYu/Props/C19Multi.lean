/-
  C19, session 5 — multi-key commands at a node during a slot migration (Model/ClusterMulti.lean):
  executed only where every key alone would be served (and lives), CROSSSLOT / TRYAGAIN execute nothing
  at ANY node, and the answer is compatible with the single-key model over the first key.
-/
import GunYu.Model.ClusterMulti

namespace GunYu.Props.C19
open GunYu.ClusterRoute GunYu.ClusterMulti

variable (slotOf : Key → Slot)

/-- one key: the single-key rule -/
theorem answerM_single (sv : Srv) (n : Node) (k : Key) (a : Bool) :
    answerM slotOf sv n [k] a = answer slotOf sv n k a := by
  unfold answerM tanswer answer
  simp only [List.all_nil, if_true, List.all_cons, Bool.and_true]
  by_cases ho : sv.owner (slotOf k) = n
  · simp only [ho, if_true]
    cases hm : sv.mig (slotOf k) with
    | none => rfl
    | some d =>
      cases hd : sv.atDst k <;> simp [hd]
  · simp only [ho, if_false]
    by_cases hi : sv.mig (slotOf k) = some n ∧ a = true
    · simp [hi]
    · simp [hi]

theorem answerM_cons (sv : Srv) (n : Node) (k : Key) (ks : List Key) (a : Bool) :
    answerM slotOf sv n (k :: ks) a =
      if ks.all (fun x => slotOf x == slotOf k) = true then tanswer slotOf sv n (k :: ks) a else .err := rfl

/-- all keys of a served command hash to one slot -/
theorem answerM_exec_one_slot (sv : Srv) (n : Node) (k : Key) (ks : List Key) (a : Bool)
    (h : answerM slotOf sv n (k :: ks) a = .exec) : ∀ x ∈ ks, slotOf x = slotOf k := by
  rw [answerM_cons] at h
  by_cases hs : (ks.all fun x => slotOf x == slotOf k) = true
  · intro x hx
    have := List.all_eq_true.mp hs x hx
    simpa using this
  · rw [if_neg hs] at h; cases h

/-- EXECUTED ⇒ EVERY KEY ALONE WOULD BE SERVED THERE: a multi-key command is executed by node `n` only
    when `n` serves each of its keys (owner, or importing node under ASKING) -/
theorem answerM_exec_each_key (sv : Srv) (n : Node) (keys : List Key) (a : Bool)
    (h : answerM slotOf sv n keys a = .exec) : ∀ x ∈ keys, answer slotOf sv n x a = .exec := by
  cases keys with
  | nil => simp [answerM] at h
  | cons k ks =>
    have hslot := answerM_exec_one_slot slotOf sv n k ks a h
    have hs : ∀ x ∈ k :: ks, slotOf x = slotOf k := by
      intro x hx
      rcases List.mem_cons.mp hx with rfl | hx
      · rfl
      · exact hslot x hx
    rw [answerM_cons] at h
    by_cases hsl : (ks.all fun x => slotOf x == slotOf k) = true
    · rw [if_pos hsl] at h
      intro x hx
      unfold tanswer at h
      simp only at h
      unfold answer
      rw [hs x hx]
      by_cases ho : sv.owner (slotOf k) = n
      · simp only [ho, if_true] at h ⊢
        cases hm : sv.mig (slotOf k) with
        | none => rfl
        | some d =>
          simp only [hm] at h
          split at h
          · rename_i hall
            have := List.all_eq_true.mp hall x hx
            simp at this
            simp [this]
          · split at h <;> cases h
      · simp only [ho, if_false] at h ⊢
        by_cases hi : sv.mig (slotOf k) = some n ∧ a = true
        · simp [hi]
        · simp [hi] at h
    · rw [if_neg hsl] at h; cases h

/-- … and, asked without ASKING, every key LIVES there (nothing of the command touches a key held by
    another node) -/
theorem answerM_exec_at_holder (sv : Srv) (n : Node) (keys : List Key)
    (h : answerM slotOf sv n keys false = .exec) : ∀ x ∈ keys, holder slotOf sv x = n := by
  cases keys with
  | nil => simp [answerM] at h
  | cons k ks =>
    have hslot := answerM_exec_one_slot slotOf sv n k ks false h
    have hs : ∀ x ∈ k :: ks, slotOf x = slotOf k := by
      intro x hx
      rcases List.mem_cons.mp hx with rfl | hx
      · rfl
      · exact hslot x hx
    rw [answerM_cons] at h
    by_cases hsl : (ks.all fun x => slotOf x == slotOf k) = true
    · rw [if_pos hsl] at h
      intro x hx
      unfold tanswer at h
      simp only at h
      unfold holder
      rw [hs x hx]
      by_cases ho : sv.owner (slotOf k) = n
      · simp only [ho, if_true] at h ⊢
        cases hm : sv.mig (slotOf k) with
        | none => rfl
        | some d =>
          simp only [hm] at h
          split at h
          · rename_i hall
            have := List.all_eq_true.mp hall x hx
            simp at this
            simp [this]
          · split at h <;> cases h
      · simp [ho] at h
    · rw [if_neg hsl] at h; cases h

/-- CROSSSLOT: two keys of different slots - no node executes the command, whatever the ASKING flag -/
theorem answerM_crossslot (sv : Srv) (n : Node) (keys : List Key) (a : Bool) (k1 k2 : Key)
    (h1 : k1 ∈ keys) (h2 : k2 ∈ keys) (hne : slotOf k1 ≠ slotOf k2) :
    answerM slotOf sv n keys a = .err := by
  cases keys with
  | nil => cases h1
  | cons k ks =>
    rw [answerM_cons]
    by_cases hs : (ks.all fun x => slotOf x == slotOf k) = true
    · exfalso
      have hk : ∀ x ∈ k :: ks, slotOf x = slotOf k := by
        intro x hx
        rcases List.mem_cons.mp hx with rfl | hx
        · rfl
        · have := List.all_eq_true.mp hs x hx
          simpa using this
      exact hne ((hk k1 h1).trans (hk k2 h2).symm)
    · rw [if_neg hs]

/-- TRYAGAIN: while a slot migrates, a command with one key already transferred and one not is executed
    by NO node - not by the owner, not by the importing node under ASKING, not by a third node -/
theorem answerM_split_executes_nowhere (sv : Srv) (keys : List Key) (k1 k2 : Key) (d : Node)
    (h1 : k1 ∈ keys) (h2 : k2 ∈ keys) (hm : sv.mig (slotOf k1) = some d)
    (hg : sv.atDst k1 = true) (hh : sv.atDst k2 = false) :
    ∀ n a, answerM slotOf sv n keys a ≠ .exec := by
  intro n a hx
  cases keys with
  | nil => cases h1
  | cons k ks =>
    have hslot := answerM_exec_one_slot slotOf sv n k ks a hx
    have hs : ∀ x ∈ k :: ks, slotOf x = slotOf k := by
      intro x hx
      rcases List.mem_cons.mp hx with rfl | hx
      · rfl
      · exact hslot x hx
    have hmk : sv.mig (slotOf k) = some d := by rw [← hs k1 h1]; exact hm
    rw [answerM_cons] at hx
    by_cases hsl : (ks.all fun x => slotOf x == slotOf k) = true
    · rw [if_pos hsl] at hx
      unfold tanswer at hx
      simp only at hx
      by_cases ho : sv.owner (slotOf k) = n
      · simp only [ho, if_true, hmk] at hx
        split at hx
        · rename_i hall
          have := List.all_eq_true.mp hall k1 h1
          simp [hg] at this
        · split at hx <;> cases hx
      · simp only [ho, if_false] at hx
        split at hx
        · split at hx
          · rename_i hor
            rcases hor with hall | hall
            · have := List.all_eq_true.mp hall k2 h2
              simp [hh] at this
            · have e1 := List.all_eq_true.mp hall k1 h1
              have e2 := List.all_eq_true.mp hall k2 h2
              simp at e1 e2
              rw [e1, ← e2] at hg
              rw [hg] at hh; cases hh
          · cases hx
        · cases hx
    · rw [if_neg hsl] at hx; cases hx

/-- the answer to a multi-key command is an answer the single-key model accepts for its FIRST key (the
    key the client routes by): an error, or exactly the first key's answer - so the trace of a run with
    multi-key commands is a run of ClusterRoute over first keys -/
theorem answerM_refines_first (sv : Srv) (n : Node) (k : Key) (ks : List Key) (a : Bool) :
    answerM slotOf sv n (k :: ks) a = .err ∨
    answerM slotOf sv n (k :: ks) a = answer slotOf sv n k a := by
  rw [answerM_cons]
  by_cases hsl : (ks.all fun x => slotOf x == slotOf k) = true
  · rw [if_pos hsl]
    unfold tanswer answer
    simp only
    by_cases ho : sv.owner (slotOf k) = n
    · simp only [ho, if_true]
      cases hm : sv.mig (slotOf k) with
      | none => exact Or.inr rfl
      | some d =>
        simp only
        split
        · rename_i hall
          have := List.all_eq_true.mp hall k (List.mem_cons_self ..)
          simp at this
          simp [this]
        · split
          · rename_i hall
            have := List.all_eq_true.mp hall k (List.mem_cons_self ..)
            simp at this
            simp [this]
          · exact Or.inl rfl
    · simp only [ho, if_false]
      by_cases hi : sv.mig (slotOf k) = some n ∧ a = true
      · simp only [hi, and_self, if_true]
        split
        · exact Or.inr rfl
        · exact Or.inl rfl
      · simp [hi]
  · rw [if_neg hsl]; exact Or.inl rfl

/-! non-vacuity: slot = key / 10; keys 10, 11, 12 in slot 1 owned by node 0, migrating to node 1; key 11 transferred -/
section
private def sl : Key → Slot := fun k => k / 10
private def svM : Srv := ⟨fun _ => 0, fun s => if s = 1 then some 1 else none, fun k => k == 11⟩
example : answerM sl svM 0 [10, 12] false = .exec := by decide
example : answerM sl svM 0 [10, 11] false = .err := by decide          -- TRYAGAIN at the owner
example : answerM sl svM 1 [10, 11] true = .err := by decide           -- TRYAGAIN at the importing node
example : answerM sl svM 0 [11, 11] false = .ask 1 := by decide
example : answerM sl svM 1 [11] true = .exec := by decide
example : answerM sl svM 0 [10, 25] false = .err := by decide          -- CROSSSLOT
example : answerM sl svM 2 [10, 12] false = .moved 0 := by decide
example : ∀ n a, answerM sl svM n [10, 11, 12] a ≠ .exec :=
  answerM_split_executes_nowhere sl svM [10, 11, 12] 11 10 1 (by decide) (by decide) (by decide) (by decide) (by decide)
end

end GunYu.Props.C19
