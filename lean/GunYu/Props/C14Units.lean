/-
  C14 — the hypothesis "end offsets grow with the unit number" of the transition-system theorems is a
  property of the unit builder (Model/Bisync.lean `parse` = RedisOutput.parseAofReplayUnits, tied to
  the code by C13's correspondence), not an assumption.

  Property theorems only (helper lemmas: Proofs/FrontierUnits.lean).
  Quantifiers: all parser configurations (filters, slot mode, key resolver), all command streams.
-/
import GunYu.Proofs.FrontierUnits
import GunYu.Props.C14
import GunYu.Props.C14Proc

namespace GunYu.Props.C14
open GunYu GunYu.Frontier

/-- For every parser configuration and every command stream read from offset `off`: the units the
    parser emits are numbered 1, 2, … without a gap and end at strictly growing offsets; the numbering
    function they define (`unitsE`: the root offset at number 0, unit i ↦ its end offset) is strictly
    increasing over all integers. -/
theorem unit_offsets_grow (cfg : Bisync.PCfg) (off : Nat) (cmds : List BisyncUnit.Cmd) :
    (∀ i j : Int, i < j → unitsE off 0 (parsedUnits cfg off 1 cmds) i < unitsE off 0 (parsedUnits cfg off 1 cmds) j) ∧
    unitsE off 0 (parsedUnits cfg off 1 cmds) 0 = off ∧
    (∀ u ∈ parsedUnits cfg off 1 cmds, unitsE off 0 (parsedUnits cfg off 1 cmds) (u.seq : Int) = (u.endOff : Int)) ∧
    Numbered 1 off (parsedUnits cfg off 1 cmds) :=
  have hn := parsedUnits_numbered cfg off 1 cmds
  ⟨unitsE_strict _ _ _ 1 off hn rfl, unitsE_base _ _ _, unitsE_at _ _ _ 1 off hn rfl, hn⟩

/-- … also for a loop that continues the numbering after unit `k` (nextUnitSeq = bisyncSeq + 1) from the
    offset that unit ended at -/
theorem unit_offsets_grow_from (cfg : Bisync.PCfg) (off k : Nat) (cmds : List BisyncUnit.Cmd) :
    (∀ i j : Int, i < j → unitsE off k (parsedUnits cfg off (k + 1) cmds) i < unitsE off k (parsedUnits cfg off (k + 1) cmds) j) ∧
    unitsE off k (parsedUnits cfg off (k + 1) cmds) k = off ∧
    (∀ u ∈ parsedUnits cfg off (k + 1) cmds,
      unitsE off k (parsedUnits cfg off (k + 1) cmds) (u.seq : Int) = (u.endOff : Int)) :=
  have hn := parsedUnits_numbered cfg off (k + 1) cmds
  ⟨unitsE_strict _ _ _ (k + 1) off hn rfl, unitsE_base _ _ _, unitsE_at _ _ _ (k + 1) off hn (by omega)⟩

/-- `resume_monotone_traffic` with the hypothesis on the numbering DISCHARGED: for a world whose units
    are those the parser emits for any stream under any configuration -/
theorem resume_monotone_traffic_parsed (cfg : Bisync.PCfg) (off : Nat) (cmds : List BisyncUnit.Cmd) (W : World)
    (hW : W.e = unitsE off 0 (parsedUnits cfg off 1 cmds))
    (hvis : matchRun W.rid W.ids = true) (s₀ : TSys) (h₀ : TInv W s₀) (steps more : List Step) :
    startSeqOf W.ver (trunSteps W s₀ steps).ns W.ids
        ≤ startSeqOf W.ver (trunSteps W s₀ (steps ++ more)).ns W.ids ∧
    startOffOf W.ver (trunSteps W s₀ steps).ns W.ids
        ≤ startOffOf W.ver (trunSteps W s₀ (steps ++ more)).ns W.ids ∧
    (∀ j, 0 < j → j ≤ startSeqOf W.ver (trunSteps W s₀ (steps ++ more)).ns W.ids →
        j ∈ (trunSteps W s₀ (steps ++ more)).committed) :=
  resume_monotone_traffic W
    (mono_of_strict (W := W) (by rw [hW]; exact (unit_offsets_grow cfg off cmds).1)) hvis s₀ h₀ steps more

/-- `resume_monotone_process` (executions with restarts inside a process) likewise -/
theorem resume_monotone_process_parsed (cfg : Bisync.PCfg) (off : Nat) (cmds : List BisyncUnit.Cmd) (W : World)
    (hW : W.e = unitsE off 0 (parsedUnits cfg off 1 cmds))
    (hvis : matchRun W.rid W.ids = true) (s₀ : PSys) (h₀ : PInv W s₀) (steps more : List PStep) :
    startSeqOf W.ver (prunSteps W s₀ steps).t.ns W.ids
        ≤ startSeqOf W.ver (prunSteps W s₀ (steps ++ more)).t.ns W.ids ∧
    startOffOf W.ver (prunSteps W s₀ steps).t.ns W.ids
        ≤ startOffOf W.ver (prunSteps W s₀ (steps ++ more)).t.ns W.ids ∧
    (∀ j, 0 < j → j ≤ startSeqOf W.ver (prunSteps W s₀ (steps ++ more)).t.ns W.ids →
        j ∈ (prunSteps W s₀ (steps ++ more)).t.committed) :=
  resume_monotone_process W (by rw [hW]; exact (unit_offsets_grow cfg off cmds).1) hvis s₀ h₀ steps more

/-! ### non-vacuity -/

/-- three units as the parser hands them to the sender (a source transaction in the middle) -/
def exUnits : List Bisync.Emit :=
  [⟨1, 1000, 1031, false, ⟨0, [], []⟩⟩, ⟨2, 1031, 1102, true, ⟨0, [], []⟩⟩, ⟨3, 1102, 1140, false, ⟨0, [], []⟩⟩]
theorem exUnits_numbered : Numbered 1 1000 exUnits := by
  simp only [exUnits, Numbered]; decide
example : [-1, 0, 1, 2, 3, 4, 5].map (unitsE 1000 0 exUnits) = [999, 1000, 1031, 1102, 1140, 1141, 1142] := by decide
example : ∀ i j : Int, i < j → unitsE 1000 0 exUnits i < unitsE 1000 0 exUnits j :=
  unitsE_strict exUnits 1000 0 1 1000 exUnits_numbered rfl
/-- the parser itself on a stream of three SETs (no filter, standalone slot mode, static key table): units 1, 2, 3 -/
def exCfg : Bisync.PCfg := { filter := {}, mode := BisyncUnit.standaloneMode, resolver := BisyncUnit.defaultResolver }
def exCmds : List BisyncUnit.Cmd :=
  [⟨[115,101,116], [[97], [49]]⟩, ⟨[115,101,116], [[98], [50]]⟩, ⟨[115,101,116], [[97], [51]]⟩]
example : (parsedUnits exCfg 1000 1 exCmds).map (fun u => (u.seq, u.endOff)) = [(1, 1027), (2, 1054), (3, 1081)] := by decide

/-- the `_parsed` theorems applied: the world whose numbering IS what the parser emits for that stream, a fresh
    namespace rooted at its offset 1000, the run `exPRetry` (failed purge, retry by the same process, units 1, 2) -/
def exWP : World := { exW with e := unitsE 1000 0 (parsedUnits exCfg 1000 1 exCmds) }
def exPP0 : PSys := { t := { ns := { root := some (exWP.rid, exWP.e 0, 0) } } }
example : [0, 1, 2, 3].map exWP.e = [1000, 1027, 1054, 1081] := by decide
example : startOffOf exWP.ver (prunSteps exWP exPP0 (exPRetry.take 6)).t.ns exWP.ids
      ≤ startOffOf exWP.ver (prunSteps exWP exPP0 (exPRetry.take 6 ++ exPRetry.drop 6)).t.ns exWP.ids :=
  (resume_monotone_process_parsed exCfg 1000 exCmds exWP rfl (by decide) exPP0 (proc_init_inv exWP 0)
    (exPRetry.take 6) (exPRetry.drop 6)).2.1
example : startSeqOf exWP.ver (trunSteps exWP { ns := { root := some (exWP.rid, exWP.e 0, 0) } } (exTSteps.take 4)).ns exWP.ids
      ≤ startSeqOf exWP.ver (trunSteps exWP { ns := { root := some (exWP.rid, exWP.e 0, 0) } } (exTSteps.take 4 ++ exTSteps.drop 4)).ns exWP.ids :=
  (resume_monotone_traffic_parsed exCfg 1000 exCmds exWP rfl (by decide) _ (traffic_init_inv exWP 0)
    (exTSteps.take 4) (exTSteps.drop 4)).1

end GunYu.Props.C14
