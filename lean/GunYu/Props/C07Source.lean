/-
  C07, down to the SOURCE stream: `Props/C07.lean` shows that every stored position
  is the offset of an item the loop consumed (`cp_boundary`). The items come from
  the parser, which hands a transaction bracket over from inside a filtered
  database with the offset of the last command it handed over -- so is a stored
  position still "an offset at which a source command ends (or the offset replay
  started from)"? `stored_position_is_command_end`: yes, for every configuration,
  stream and schedule, fresh or resumed.
-/
import GunYu.Props.C07
import GunYu.Proofs.TwoRuns

namespace GunYu.Props.C07
open GunYu GunYu.Sender GunYu.Target

/-- **Every stored position is the end of a source command, or the start offset.** -/
theorem stored_position_is_command_end (pc : PCfg) (sc : SCfg) (raws : List Raw) (start : Int)
    (evs : List Ev) (hitems : itemsOf evs = parserItems pc start raws)
    (hraw : (raws.map (·.off)).Pairwise (· < ·)) (hlo : ∀ r ∈ raws, start < r.off) :
    ∀ o ∈ cpOffsets (run sc initS evs).2, o = start ∨ ∃ r ∈ raws, r.off = o := by
  intro o ho
  rcases run_cp_origin sc initS evs o ho with ⟨he, hp⟩ | ⟨i, hi, he⟩
  · simp only [initS] at he; omega
  · rw [hitems] at hi
    unfold parserItems at hi
    rcases List.mem_append.mp hi with h | h
    · split at h
      · simp only [List.mem_singleton] at h
        left; rw [he, h]; rfl
      · cases h
    · rcases offset_cut_unbypassed pc raws { lastSent := start } hraw hlo i h with h1 | ⟨pre, r, post, hr, hro, _, _⟩
      · left; rw [he, h1]
      · right
        exact ⟨r, by rw [hr]; simp, by rw [he, hro]⟩

end GunYu.Props.C07
