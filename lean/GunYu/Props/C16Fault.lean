/-
  C16 — failing file writes of the FOLLOWER's own store (disk full, I/O error, a commit that
  fails): the follower never holds, announces or resumes beyond what its writers got onto their
  files.

  Model: `Loss` in Model/Replica.lean (`wfault = some K`: every writer of the session gets `K`
  payload bytes onto its file, the write of the next byte fails; `nocommit`: the rename of a
  completely written snapshot fails), threaded through `aofRecv` / the snapshot branch of
  `syncLoopV`. The faithfulness, contiguity and others-untouched theorems of Props/C16.lean
  quantify over ALL `lost : Loss`, so they already cover every fault point; the theorems here
  say what is kept:

  * `write_fault_stream`     : a stream writer that fails after `K` bytes leaves exactly the first
                               `K` received bytes appended — nothing of what followed
  * `write_fault_snapshot`   : a snapshot writer that fails (anywhere, also inside the LAST piece
                               of a completely received snapshot), or whose commit fails, leaves NO
                               snapshot and no stream byte under the id, and the session ends there
  * `resumes_at_durable_end` : the next session asks exactly at the end of what is held
                               (the position `preSync` answers is the stored copy's right end)
  Tie: the harness closes the real writer's file descriptor between two writes (pkg/store shim
  `VerifBreakFile`) / unlinks the temporary snapshot file (`VerifLoseRdbTmp`) under the real
  `ReplicaFollower.Run`, compares messages / outcome / store with this model, and checks the
  request offset of the following session on the wire.
-/
import GunYu.Model.Replica
import GunYu.Proofs.Replica
import GunYu.Props.C16

namespace GunYu.Props.C16
open GunYu GunYu.Replica

/-- **write_fault_stream.** The follower's stream writer was opened at the end `left` of its
    copy `d` and fails after `K` payload bytes, more than `K` bytes having reached it (`recv` =
    what the delivered messages carried, minus what was lost in the pipe): the session ends as
    `wfail` and the copy is `d` extended by exactly the first `K` of those bytes. -/
theorem write_fault_stream {β : Type} (F1 : Store β) (left : Nat) (ms : List (Msg β)) (fin : Fin)
    (budget pipe K : Nat) (nc : Bool) (d : Data β) (hcd : F1.curData = some d) (hr : d.right = left)
    (hK : K < ((aofLoop fin budget ms).2.1.take ((aofLoop fin budget ms).2.1.length - pipe)).length) :
    (aofRecv F1 left ms fin budget ⟨pipe, some K, nc⟩).cls = .wfail ∧
    (aofRecv F1 left ms fin budget ⟨pipe, some K, nc⟩).store.curData =
      some { d with bytes := d.bytes ++
        ((aofLoop fin budget ms).2.1.take ((aofLoop fin budget ms).2.1.length - pipe)).take K } := by
  unfold aofRecv
  simp only [Loss.written, hK, decide_true]
  unfold aofWrite
  simp only [hcd, hr, if_true, setCur_curData]
  exact ⟨trivial, trivial⟩

/-- … and on an empty cache: exactly the first `K` bytes, from the announced offset -/
theorem write_fault_stream_fresh {β : Type} (F1 : Store β) (left : Nat) (ms : List (Msg β)) (fin : Fin)
    (budget pipe K : Nat) (nc : Bool) (hcd : F1.curData = none) (hK0 : 0 < K)
    (hK : K < ((aofLoop fin budget ms).2.1.take ((aofLoop fin budget ms).2.1.length - pipe)).length) :
    (aofRecv F1 left ms fin budget ⟨pipe, some K, nc⟩).cls = .wfail ∧
    (aofRecv F1 left ms fin budget ⟨pipe, some K, nc⟩).store.curData =
      some ⟨left, ((aofLoop fin budget ms).2.1.take ((aofLoop fin budget ms).2.1.length - pipe)).take K, none⟩ := by
  unfold aofRecv
  simp only [Loss.written, hK, decide_true]
  unfold aofWrite
  simp only [hcd]
  generalize hp : ((aofLoop fin budget ms).2.1.take ((aofLoop fin budget ms).2.1.length - pipe)) = p at hK ⊢
  cases hq : p.take K with
  | nil =>
    exfalso
    have := congrArg List.length hq
    simp only [List.length_take, List.length_nil] at this
    omega
  | cons a as =>
    simp only [setCur_curData]
    exact ⟨by simp, trivial⟩

/-- **write_fault_snapshot.** The leader answers a request with a snapshot (`META`, not `aof`).
    If the follower's snapshot writer fails after `K` bytes and more than `K` bytes reach it —
    whether the transfer is then cut or COMPLETES (a fault inside the last piece) — or the
    commit of the completely written snapshot fails, the session ends in the snapshot stage as
    `wfail`, the follower holds nothing under the id: no snapshot is kept or announced. -/
theorem write_fault_snapshot {β : Type} (bk : Backend) (V : Nat → View β) (lost : Loss) (x : Id)
    (fuel n b : Nat) (ch : List Nat) (F : Store β) (fsp : Id × Int)
    (m : Msg β) (ms : List (Msg β)) (fin : Fin) (rest : List Nat)
    (hrp : (V n).handle fsp.1 fsp.2 ch = ⟨m :: ms, fin, rest⟩)
    (hm : m.code = .info) (ha : m.aof = false)
    (hfault : (∃ K, lost.wfault = some K ∧
        K < ((rdbLoop fin b m.size.toNat ms).2.1.take m.size.toNat).length) ∨
      ((rdbLoop fin b m.size.toNat ms).2.2 = none ∧ lost.nocommit = true)) :
    (syncLoopV bk V lost x (fuel + 1) n (b + 1) ch F fsp).cls = .wfail ∧
    (syncLoopV bk V lost x (fuel + 1) n (b + 1) ch F fsp).stage = .rdb ∧
    (syncLoopV bk V lost x (fuel + 1) n (b + 1) ch F fsp).store.curData = none := by
  unfold syncLoopV
  simp only [hrp, hm, ha, respErr, Out.pre, reduceCtorEq, if_false, Bool.false_eq_true]
  cases hq : (rdbLoop fin b m.size.toNat ms).2.2 with
  | some c =>
    simp only
    rcases hfault with ⟨K, hK, hlt⟩ | ⟨hc, _⟩
    · have hlt' : K < (rdbLoop fin b m.size.toNat ms).2.1.length := by
        simp only [List.length_take] at hlt
        omega
      simp only [Loss.written, hK, hlt', decide_true, if_true, setCur_curData]
      exact ⟨trivial, trivial, trivial⟩
    · rw [hq] at hc; cases hc
  | none =>
    simp only
    have hw : ((lost.written ((rdbLoop fin b m.size.toNat ms).2.1.take m.size.toNat)).2 || lost.nocommit) = true := by
      rcases hfault with ⟨K, hK, hlt⟩ | ⟨_, hn⟩
      · simp only [List.length_take] at hlt
        simp [Loss.written, hK, hlt]
      · simp [hn]
    simp only [hw, if_true, setCur_curData]
    exact ⟨trivial, trivial, trivial⟩

/-- **resumes_at_durable_end.** Whatever a session left (after a write fault, a cut, a crash
    restart …): the position the next session's `preSync` asks for under the leader's id is the
    leader's announced offset (the copy was dropped or nothing is held) or exactly the right end
    of the copy the follower holds — never a position beyond its stored bytes. -/
theorem resumes_at_durable_end {β : Type} (bk : Backend) (F : Store β) (x : Id) (loff : Int)
    (hx1 : x ≠ "") (hx2 : x ≠ "?") (hwf : WF bk F) :
    ∀ d, (preSync bk F x loff).1.curData = some d → (preSync bk F x loff).2.2 = (d.right : Int) :=
  fun d hd => preSync_pos bk F x loff hx1 hx2 hwf d hd

/-! ### non-vacuity -/

section examples

/-- leader: snapshot `[10,10]` at 10 and the stream 10..14 -/
def lF : Leader Nat := ⟨true, true, ["idA"], "idA", some ⟨10, [10, 11, 12, 13, 14], some [10, 10]⟩, true, [], none⟩
def fP : Store Nat := ⟨"idA", [("idA", some ⟨9, [9, 10, 11], none⟩)]⟩
def fO : Store Nat := ⟨"idA", [("idA", some ⟨2, [2, 3], none⟩)]⟩

-- the stream writer fails after 2 bytes: exactly two more bytes are held, the session ends `wfail`
example : (session .disk lF fP [1, 1, 1] 10 ⟨0, some 2, false⟩ 3).store.dirs = [("idA", some ⟨9, [9, 10, 11, 12, 13], none⟩)] ∧
    (session .disk lF fP [1, 1, 1] 10 ⟨0, some 2, false⟩ 3).cls = .wfail := by decide
-- the fault point is not reached: an ordinary session
example : (session .disk lF fP [1, 1, 1] 10 ⟨0, some 3, false⟩ 3).store.dirs = [("idA", some ⟨9, [9, 10, 11, 12, 13, 14], none⟩)] ∧
    (session .disk lF fP [1, 1, 1] 10 ⟨0, some 3, false⟩ 3).cls = .cut := by decide
-- the snapshot writer fails inside the LAST piece of a completely received snapshot: nothing is kept
example : (session .disk lF fO [1] 10 ⟨0, some 1, false⟩ 3).store.dirs = [("idA", none)] ∧
    (session .disk lF fO [1] 10 ⟨0, some 1, false⟩ 3).cls = .wfail ∧
    (session .disk lF fO [1] 10 ⟨0, some 1, false⟩ 3).stage = .rdb := by decide
-- the commit of the snapshot fails: nothing is kept either (without the fault: snapshot + stream)
example : (session .disk lF fO [] 10 ⟨0, none, true⟩ 3).store.dirs = [("idA", none)] ∧
    (session .disk lF fO [] 10 ⟨0, none, true⟩ 3).cls = .wfail := by decide
example : (session .disk lF fO [] 10 0 3).store.dirs = [("idA", some ⟨10, [10, 11, 12, 13, 14], some [10, 10]⟩)] := by decide
-- … and the next session asks at the end of what is held: after the stream fault at 9+3+2 = 14
example : (preSync .disk (session .disk lF fP [1, 1, 1] 10 ⟨0, some 2, false⟩ 3).store "idA" 15).2 = ("idA", 14) := by decide

-- `write_fault_snapshot` applied (its hypotheses `hrp`, `hfault` discharged): the data request of `fO`
-- (copy ends at 4, below the leader's range) is answered with the snapshot announcement + two chunks;
-- the snapshot writer fails after 1 byte, both bytes having arrived
example : (syncLoopV .disk (fun _ => View.const lF) ⟨0, some 1, false⟩ "idA" 3 1 9 [1] fO ("idA", 4)).cls = .wfail ∧
    (syncLoopV .disk (fun _ => View.const lF) ⟨0, some 1, false⟩ "idA" 3 1 9 [1] fO ("idA", 4)).stage = .rdb ∧
    (syncLoopV .disk (fun _ => View.const lF) ⟨0, some 1, false⟩ "idA" 3 1 9 [1] fO ("idA", 4)).store.curData = none :=
  write_fault_snapshot .disk (fun _ => View.const lF) ⟨0, some 1, false⟩ "idA" 2 1 8 [1] fO ("idA", 4)
    ⟨.info, "", false, 10, 2, []⟩ [⟨.cont, "", false, 5, 1, [10]⟩, ⟨.cont, "", false, 6, 1, [10]⟩] .eof []
    (by rfl) rfl rfl (Or.inl ⟨1, rfl, by decide⟩)
-- … and with a failing commit of the completely written snapshot
example : (syncLoopV .disk (fun _ => View.const lF) ⟨0, none, true⟩ "idA" 3 1 9 [1] fO ("idA", 4)).cls = .wfail :=
  (write_fault_snapshot .disk (fun _ => View.const lF) ⟨0, none, true⟩ "idA" 2 1 8 [1] fO ("idA", 4)
    ⟨.info, "", false, 10, 2, []⟩ [⟨.cont, "", false, 5, 1, [10]⟩, ⟨.cont, "", false, 6, 1, [10]⟩] .eof []
    (by rfl) rfl rfl (Or.inr ⟨by decide, rfl⟩)).1

end examples

end GunYu.Props.C16
