/-
  C13 — the snapshot phase: which key a snapshot unit is written under, and why
  it lies outside the reserved namespace (session 5; defect D40, /repo f9044ee).

  `EvOK'` asks of a snapshot unit that the first argument of its commands is
  outside the namespace (`isNamespaceKey … = false`), justified until now by
  "the snapshot filter withholds reserved keys". That filter
  (`rdbReplayBisync`) tested the SNAPSHOT's key, while with `replaceHashTag` the
  unit is written under `bisyncRdbTargetKey key` - the key with its first `{`
  and its first `}` removed. Transcribed here:

  * `rdbTargetKey`      : RedisOutput.bisyncRdbTargetKey (syncer/bisync_rdb.go)
  * `rdbTargetReserved` : RedisOutput.bisyncRdbTargetReserved (the repair)
  * `rdbKept`           : the filter condition of rdbReplayBisync, the user's
                          key / slot filter being any predicate
  * `rdbKeptOld`        : the condition before the repair

  Tied to the code by the hash-tag probe (real rdbReplayBisync over real loader
  entries, harness/overlay/syncer/vf_c13_hashtag_test.go) and the source fact
  `c13_rdb_filter`.
-/
import GunYu.Props.C13

namespace GunYu.Props.C13
open GunYu GunYu.BisyncUnit GunYu.Bisync

/-- `bisyncRdbTargetKey`: `bytes.Replace(k, "{", "", 1)` then `bytes.Replace(k, "}", "", 1)`
    when replace-hashtag is on (`List.erase` removes the first occurrence) -/
def rdbTargetKey (rh : Bool) (key : Bytes) : Bytes :=
  if rh then (key.erase 123).erase 125 else key

/-- `bisyncRdbTargetReserved` (the repair) -/
def rdbTargetReserved (rh : Bool) (key : Bytes) : Bool :=
  rh && (isNamespaceKey (rdbTargetKey rh key) || hasPrefix Gen.namespacePrefixKey (rdbTargetKey rh key))

/-- an entry reaches the unit builder (`filterOut` stays false); `uf` = the
    user's key and slot filters on the snapshot's key -/
def rdbKept (rh : Bool) (uf : Bytes → Bool) (key : Bytes) : Bool :=
  !(uf key || isNamespaceKey key || rdbTargetReserved rh key)

/-- … before the repair -/
def rdbKeptOld (uf : Bytes → Bool) (key : Bytes) : Bool :=
  !(uf key || isNamespaceKey key)

/-- **The key a kept snapshot entry is written under is outside the namespace** —
    with or without replace-hashtag, whatever the user's filters. -/
theorem snapshot_target_outside_namespace (rh : Bool) (uf : Bytes → Bool) (key : Bytes)
    (h : rdbKept rh uf key = true) : isNamespaceKey (rdbTargetKey rh key) = false := by
  unfold rdbKept at h
  cases rh with
  | false =>
    simp only [rdbTargetKey, Bool.false_eq_true, ↓reduceIte]
    cases hk : isNamespaceKey key with
    | false => rfl
    | true => rw [hk] at h; simp at h
  | true =>
    cases hk : isNamespaceKey (rdbTargetKey true key) with
    | false => rfl
    | true =>
      have : rdbTargetReserved true key = true := by unfold rdbTargetReserved; rw [hk]; rfl
      rw [this] at h; simp at h

/-- hence a snapshot unit built from kept entries, each command addressing the
    key its entry is written under, satisfies the event condition of the global
    theorems: the condition is a consequence of the filter, no longer an
    assumption on the snapshot's keys -/
theorem snapshot_event_ok (cfg : WCfg) (src : SiteId) (cmds : List Cmd) (arg : CommitArg) (rh : Bool) (uf : Bytes → Bool)
    (h : ∀ c ∈ cmds, TxnSafe c ∧ ∃ key, rdbKept rh uf key = true ∧ c.args.headD [] = rdbTargetKey rh key) :
    EvOK' cfg (.snapshot src cmds arg) := by
  intro c hc
  obtain ⟨hs, key, hk, he⟩ := h c hc
  exact ⟨hs, by rw [he]; exact snapshot_target_outside_namespace rh uf key hk⟩

-- "{redis-gunyu-bisync:}cp:latest:{t}"
private def braced : Bytes := [123] ++ Gen.bisyncKeyPrefix ++ [58, 125] ++ [99,112] ++ Gen.latestInfix ++ [116, 125]

example : rdbTargetKey true braced = Gen.latestKey [99,112] [116] := by decide +kernel
example : rdbTargetKey false braced = braced := rfl
example : rdbKept true (fun _ => false) braced = false := by decide +kernel
example : rdbKept false (fun _ => false) braced = true := by decide +kernel
-- an ordinary braced key is kept and written without its braces: "{u}ser" -> "user"
example : rdbKept true (fun _ => false) [123,117,125,115,101,114] = true ∧
    rdbTargetKey true [123,117,125,115,101,114] = [117,115,101,114] := by decide +kernel

/-- **D40, as a counter-witness.** Before the repair the filter kept an entry
    whose target key IS a control key: `{redis-gunyu-bisync:}cp:latest:{t}` is
    written over the latest record of namespace `cp`. -/
theorem old_snapshot_filter_admits_reserved_target :
    ∃ key, rdbKeptOld (fun _ => false) key = true ∧ isLatestKey (rdbTargetKey true key) = true ∧
      isNamespaceKey (rdbTargetKey true key) = true :=
  ⟨braced, by decide +kernel, by decide +kernel, by decide +kernel⟩

end GunYu.Props.C13
